/-
Lemmas.RunL0Lemmas — the byte-level interpreters `parse0` / `check0` (`Model/RunL0.lean`) simulate the
character-level interpreters `parse` / `check` (`Model/Run.lean`) step for step, in BOTH build
profiles, and never reach `panic` / `ub`.

Relations
* `Abs i0 i` (`Lemmas/L0.lean`) — the byte cursor represents the character cursor.
* `SpOK bs sp` — the offsets of the L1 span `sp` cut a valid slice out of the bytes `bs`
  (`str::get(s..e)` is `Some`), and that slice is the encoding of the L1 span's text.
* `StkAbs bs stk0 stk` / `AbsM bs m0 m` — the byte-level stack is the list of offset pairs of the L1 stack,
  every L1 stack span is `SpOK`; same tracker.
* `Rel0 bs r0 r` — same verdict; on failure the states correspond; on success the cursors are `Abs`-related,
  the bytes are still `bs`, the states correspond and the VALUES ARE EQUAL.  No L1 outcome is related to
  `panic` / `ub`.

Main results: `parse0_check0_rel0` (by induction on the fuel; loop lemmas `*_rel` for every loop of
`Model/Run.lean`, parse and check copies), the entry points `tryParse0_rel0` … .
-/
import PestTyped.Model.RunL0
import PestTyped.Lemmas.L0
import PestTyped.Lemmas.CursorRun
namespace PestTyped

/-! ### decoding -/

theorem length_le_blen0 (l : List Char) : l.length ≤ blen l := by
  induction l with
  | nil => exact Nat.le_refl _
  | cons c cs ih => have := c.utf8Size_pos; simp only [blen, List.length_cons]; omega

theorem decGo_enc : ∀ (l : List Char) (n : Nat), l.length ≤ n → decGo n (enc l) = l := by
  intro l
  induction l with
  | nil =>
    intro n _
    cases n with
    | zero => rfl
    | succ n => simp only [decGo, enc_nil, nextChar_nil]
  | cons c cs ih =>
    intro n hn
    cases n with
    | zero => simp at hn
    | succ n =>
      have hd : (enc (c :: cs)).drop c.utf8Size = enc cs := by
        rw [enc_cons]; exact List.drop_left' (String.length_utf8EncodeChar c)
      simp only [decGo, nextChar_enc_cons, hd]
      rw [ih n (by simpa using hn)]

/-- Decoding inverts encoding. -/
theorem dec_enc (l : List Char) : dec (enc l) = l := by
  unfold dec
  exact decGo_enc l _ (by rw [length_enc]; exact length_le_blen0 l)

/-! ### spans and positions under the invariant -/

def offs (sp : Sp) : Nat × Nat := (sp.s, sp.e)

/-- The L1 span `sp` is a valid span of the byte string, with the same text. -/
def SpOK (bs : List UInt8) (sp : Sp) : Prop := strGet bs sp.s sp.e = some (enc sp.txt)

def StkAbs (bs : List UInt8) (stk0 : List (Nat × Nat)) (stk : List Sp) : Prop :=
  stk0 = stk.map offs ∧ ∀ sp ∈ stk, SpOK bs sp

def AbsM (bs : List UInt8) (m0 : M0) (m : M) : Prop := StkAbs bs m0.stk m.stk ∧ m0.trk = m.trk

theorem StkAbs.nil (bs : List UInt8) : StkAbs bs [] [] := ⟨rfl, fun _ h => by cases h⟩

theorem StkAbs.cons {bs : List UInt8} {stk0 : List (Nat × Nat)} {stk : List Sp} {sp : Sp}
    (h : SpOK bs sp) (hs : StkAbs bs stk0 stk) : StkAbs bs ((sp.s, sp.e) :: stk0) (sp :: stk) := by
  refine ⟨by rw [hs.1]; rfl, ?_⟩
  intro x hx
  rcases List.mem_cons.mp hx with rfl | hx
  · exact h
  · exact hs.2 x hx

theorem StkAbs.tail {bs : List UInt8} {p : Nat × Nat} {stk0 : List (Nat × Nat)} {stk : List Sp} {sp : Sp}
    (hs : StkAbs bs (p :: stk0) (sp :: stk)) : StkAbs bs stk0 stk := by
  obtain ⟨h1, h2⟩ := hs
  simp only [List.map_cons, List.cons.injEq] at h1
  exact ⟨h1.2, fun x hx => h2 x (List.mem_cons_of_mem _ hx)⟩

theorem StkAbs.length {bs : List UInt8} {stk0 : List (Nat × Nat)} {stk : List Sp}
    (hs : StkAbs bs stk0 stk) : stk0.length = stk.length := by rw [hs.1, List.length_map]

theorem StkAbs.slice {bs : List UInt8} {stk0 : List (Nat × Nat)} {stk : List Sp}
    (hs : StkAbs bs stk0 stk) (lo hi : Nat) : StkAbs bs (stackSlice0 stk0 lo hi) (stackSlice stk lo hi) := by
  refine ⟨?_, ?_⟩
  · unfold stackSlice0 stackSlice
    rw [hs.1, List.map_take, List.map_drop, List.map_reverse]
  · intro sp hsp
    unfold stackSlice at hsp
    exact hs.2 sp (List.mem_reverse.mp (List.mem_of_mem_drop (List.mem_of_mem_take hsp)))

/-- Pieces of the input (`Sp.In`, what `C09_spans_node` proves of every span of an L1 run) are valid
spans of the bytes. -/
theorem strGet_of_pieces (pre p t q after : List Char) :
    strGet (enc pre ++ enc (p ++ t ++ q) ++ enc after) (blen pre + blen p) (blen pre + blen p + blen t) =
      some (enc t) := by
  have hbytes : enc pre ++ enc (p ++ t ++ q) ++ enc after = enc (pre ++ p) ++ enc t ++ enc (q ++ after) := by
    simp only [enc_append, List.append_assoc]
  rw [hbytes, ← blen_append]
  exact strGet_enc_mid _ _ _

/-- `as_position()` at a cursor satisfying the invariant: the `debug_assert!` holds. -/
theorem asPosition0_ok {i0 : Inp0} {i : Inp} (h : Abs i0 i) (checked : Bool) :
    asPosition0 checked i0 = .ok i.pos := by
  obtain ⟨pre, hb, hp, he, hpos, _⟩ := h
  unfold asPosition0 positionNewUnchecked
  rw [hpos]
  cases checked
  · rfl
  · have hbytes : i0.bytes = enc pre ++ enc (i.rest ++ i.after) ++ enc [] := by
      rw [hb]; simp only [enc_append, enc_nil, List.append_assoc, List.append_nil]
    have hlen : i0.bytes.length = blen pre + blen (i.rest ++ i.after) := by
      rw [hbytes, List.length_append, List.length_append, length_enc, length_enc]; simp [enc_nil]
    have := strGet_enc_mid pre (i.rest ++ i.after) []
    rw [← hbytes, ← hlen, ← hp] at this
    simp only [if_true, this]

/-- The span between a cursor and a later cursor of the same input is a valid span of the bytes and
its text is the L1 span's text. -/
theorem SpOK_spanTo {i0 : Inp0} {i i' : Inp} (h : Abs i0 i) (ha : i.Adv i') : SpOK i0.bytes (i.spanTo i') := by
  obtain ⟨pre, hb, hp, he, hpos, _⟩ := h
  obtain ⟨k, hk, rfl⟩ := ha
  have hlen : i.rest.length - (i.rest.drop k).length = k := by rw [List.length_drop]; omega
  unfold SpOK
  simp only [Inp.spanTo, Inp.adv, hlen]
  have hr : i.rest = [] ++ i.rest.take k ++ i.rest.drop k := by
    rw [List.nil_append, List.take_append_drop]
  have := strGet_of_pieces pre [] (i.rest.take k) (i.rest.drop k) i.after
  rw [← hr, ← hb] at this
  simp only [blen, Nat.add_zero] at this
  rw [hpos, hp]; exact this

theorem span0_ok {i0 i0' : Inp0} {i i' : Inp} (h : Abs i0 i) (h' : Abs i0' i') (_hb : i0'.bytes = i0.bytes)
    (ha : i.Adv i') (checked : Bool) : span0 checked i0 i0' = .ok (i.pos, i'.pos) := by
  have hsp := SpOK_spanTo h ha
  unfold SpOK at hsp
  simp only [Inp.spanTo] at hsp
  unfold span0
  rw [asPosition0_ok h, asPosition0_ok h']
  simp only [P.bind, spanNewUnchecked]
  cases checked
  · rfl
  · simp only [if_true, hsp]

theorem spanAsStr_spanTo {i0 : Inp0} {i i' : Inp} (h : Abs i0 i) (ha : i.Adv i') :
    spanAsStr i0.bytes i.pos i'.pos = .ok (enc (i.spanTo i').txt) := by
  have hsp := SpOK_spanTo h ha
  unfold SpOK at hsp
  simp only [Inp.spanTo] at hsp
  unfold spanAsStr
  rw [hsp]; rfl

theorem spanText0_ok {i0 i0' : Inp0} {i i' : Inp} (h : Abs i0 i) (h' : Abs i0' i') (hb : i0'.bytes = i0.bytes)
    (ha : i.Adv i') (checked : Bool) : spanText0 checked i0 i0' = .ok (i.spanTo i') := by
  unfold spanText0
  rw [span0_ok h h' hb ha]
  simp only [P.bind, spanAsStr_spanTo h ha, dec_enc]
  rfl

theorem spanAsStr_ok {bs : List UInt8} {sp : Sp} (h : SpOK bs sp) : spanAsStr bs sp.s sp.e = .ok (enc sp.txt) := by
  unfold spanAsStr; rw [h]

/-! ### tracker calls -/

theorem trackerNew0_ok {i0 : Inp0} {i : Inp} (h : Abs i0 i) (checked : Bool) :
    trackerNew0 checked i0 = .ok (Tracker.new i) := by
  unfold trackerNew0; rw [asPosition0_ok h]; rfl

theorem emptyStack0_ok {i0 : Inp0} {i : Inp} (h : Abs i0 i) (checked : Bool) (t : Tracker) :
    emptyStack0 checked t i0 = .ok (t.emptyStack i) := by
  unfold emptyStack0; rw [asPosition0_ok h]; rfl

theorem outOfBound0_ok {i0 : Inp0} {i : Inp} (h : Abs i0 i) (checked : Bool) (t : Tracker) (a : Int)
    (b : Option Int) : outOfBound0 checked t i0 a b = .ok (t.outOfBound i a b) := by
  unfold outOfBound0; rw [asPosition0_ok h]; rfl

theorem leave0_ok {i0 : Inp0} {i : Inp} (h : Abs i0 i) (checked : Bool) (t : Tracker) (r : RuleId)
    (s : Bool) : leave0 checked t r i0 s = .ok (t.leave r i.pos s) := by
  unfold leave0 Tracker.leave
  generalize t.stack = st
  cases st with
  | nil => rfl
  | cons x rest =>
    obtain ⟨a, b, hc⟩ := x
    cases hc
    · simp only [asPosition0_ok h, P.bind, Bool.false_eq_true, if_false]
    · rfl

/-! ### primitives, with the bytes carried along -/

def OptAbsB (bs : List UInt8) : Option Inp0 → Option Inp → Prop
  | none, none => True
  | some a, some b => Abs a b ∧ a.bytes = bs
  | _, _ => False

def OptAbsCB (bs : List UInt8) : Option (Inp0 × Char) → Option (Inp × Char) → Prop
  | none, none => True
  | some (a, c), some (b, d) => Abs a b ∧ a.bytes = bs ∧ c = d
  | _, _ => False

theorem matchString0_bytes {checked : Bool} {s : List UInt8} {i0 r : Inp0}
    (h : i0.matchString0 checked s = .ok (some r)) : r.bytes = i0.bytes := by
  unfold Inp0.matchString0 P.bind at h
  split at h
  · injection h with h; split at h
    · injection h with h; rw [← h]
    · cases h
  · cases h
  · cases h

theorem matchInsens0_bytes {checked : Bool} {s : List UInt8} {i0 r : Inp0}
    (h : i0.matchInsens0 checked s = .ok (some r)) : r.bytes = i0.bytes := by
  unfold Inp0.matchInsens0 P.bind at h
  split at h
  · injection h with h; split at h
    · split at h
      · injection h with h; rw [← h]
      · cases h
    · cases h
  · cases h
  · cases h

theorem skip0_bytes {checked : Bool} {n : Nat} {i0 r : Inp0}
    (h : i0.skip0 checked n = .ok (some r)) : r.bytes = i0.bytes := by
  unfold Inp0.skip0 P.bind at h
  split at h
  · injection h with h; split at h
    · injection h with h; rw [← h]
    · cases h
  · cases h
  · cases h

theorem matchCharBy0_bytes {checked : Bool} {p : Char → Bool} {i0 r : Inp0} {c : Char}
    (h : i0.matchCharBy0 checked p = .ok (some (r, c))) : r.bytes = i0.bytes := by
  unfold Inp0.matchCharBy0 P.bind at h
  split at h
  · injection h with h; split at h
    · cases h
    · split at h
      · injection h with h; injection h with h _; rw [← h]
      · cases h
  · cases h
  · cases h

theorem skipUntil0_bytes (N : List (List UInt8)) (i0 : Inp0) : (i0.skipUntil0 N).1.bytes = i0.bytes := by
  unfold Inp0.skipUntil0; split <;> rfl

theorem matchString0_simB {i0 : Inp0} {i : Inp} (h : Abs i0 i) (s : List Char) :
    ∃ r, (∀ checked, i0.matchString0 checked (enc s) = .ok r) ∧ OptAbsB i0.bytes r (i.matchString s) := by
  obtain ⟨r, hr, ho⟩ := matchString0_sim h s
  refine ⟨r, hr, ?_⟩
  cases r <;> cases hs : i.matchString s <;> rw [hs] at ho <;> simp only [OptAbs] at ho
  · trivial
  · exact ⟨ho, matchString0_bytes (hr true)⟩

theorem matchInsens0_simB {i0 : Inp0} {i : Inp} (h : Abs i0 i) (s : List Char) :
    ∃ r, (∀ checked, i0.matchInsens0 checked (enc s) = .ok r) ∧ OptAbsB i0.bytes r (i.matchInsens s) := by
  obtain ⟨r, hr, ho⟩ := matchInsens0_sim h s
  refine ⟨r, hr, ?_⟩
  cases r <;> cases hs : i.matchInsens s <;> rw [hs] at ho <;> simp only [OptAbs] at ho
  · trivial
  · exact ⟨ho, matchInsens0_bytes (hr true)⟩

theorem skip0_simB {i0 : Inp0} {i : Inp} (h : Abs i0 i) (n : Nat) :
    ∃ r, (∀ checked, i0.skip0 checked n = .ok r) ∧ OptAbsB i0.bytes r (i.skipN n) := by
  obtain ⟨r, hr, ho⟩ := skip0_sim h n
  refine ⟨r, hr, ?_⟩
  cases r <;> cases hs : i.skipN n <;> rw [hs] at ho <;> simp only [OptAbs] at ho
  · trivial
  · exact ⟨ho, skip0_bytes (hr true)⟩

theorem matchCharBy0_simB {i0 : Inp0} {i : Inp} (h : Abs i0 i) (p : Char → Bool) :
    ∃ r, (∀ checked, i0.matchCharBy0 checked p = .ok r) ∧ OptAbsCB i0.bytes r (i.matchCharBy p) := by
  obtain ⟨r, hr, ho⟩ := matchCharBy0_sim h p
  refine ⟨r, hr, ?_⟩
  cases r with
  | none => cases hs : i.matchCharBy p <;> rw [hs] at ho <;> simp only [OptAbsC] at ho; trivial
  | some x =>
    obtain ⟨a, c⟩ := x
    cases hs : i.matchCharBy p with
    | none => rw [hs] at ho; simp only [OptAbsC] at ho
    | some y =>
      obtain ⟨b, d⟩ := y
      rw [hs] at ho; simp only [OptAbsC] at ho
      exact ⟨ho.1, matchCharBy0_bytes (hr true), ho.2⟩

/-- `NEWLINE`: the three `match_string` attempts. -/
def OptAbsNB (bs : List UInt8) : Option (Inp0 × Nat) → Option (Inp × Nat) → Prop
  | none, none => True
  | some (a, c), some (b, d) => Abs a b ∧ a.bytes = bs ∧ c = d
  | _, _ => False

theorem newlineMatch0_simB {i0 : Inp0} {i : Inp} (h : Abs i0 i) :
    ∃ r, (∀ checked, newlineMatch0 checked i0 = .ok r) ∧ OptAbsNB i0.bytes r (newlineMatch i) := by
  obtain ⟨r1, hr1, ho1⟩ := matchString0_simB h ['\r', '\n']
  obtain ⟨r2, hr2, ho2⟩ := matchString0_simB h ['\n']
  obtain ⟨r3, hr3, ho3⟩ := matchString0_simB h ['\r']
  unfold newlineMatch
  cases r1 <;> cases hs1 : i.matchString ['\r', '\n'] <;> rw [hs1] at ho1 <;> simp only [OptAbsB] at ho1
  · cases r2 <;> cases hs2 : i.matchString ['\n'] <;> rw [hs2] at ho2 <;> simp only [OptAbsB] at ho2
    · cases r3 <;> cases hs3 : i.matchString ['\r'] <;> rw [hs3] at ho3 <;> simp only [OptAbsB] at ho3
      · exact ⟨none, fun c => by simp only [newlineMatch0, hr1, hr2, hr3, P.bind], trivial⟩
      · next a b =>
        exact ⟨some (a, 2), fun c => by simp only [newlineMatch0, hr1, hr2, hr3, P.bind], ho3.1, ho3.2, rfl⟩
    · next a b =>
      exact ⟨some (a, 1), fun c => by simp only [newlineMatch0, hr1, hr2, P.bind], ho2.1, ho2.2, rfl⟩
  · next a b =>
    exact ⟨some (a, 0), fun c => by simp only [newlineMatch0, hr1, P.bind], ho1.1, ho1.2, rfl⟩

/-- The loop of `peek_spans`. -/
theorem peekLoop0_simB : ∀ (stk : List Sp) (stk0 : List (Nat × Nat)) (i0 : Inp0) (i : Inp),
    Abs i0 i → StkAbs i0.bytes stk0 stk →
    ∃ r, (∀ checked, peekLoop0 checked stk0 i0 = .ok r) ∧ OptAbsB i0.bytes r (peekSpans stk i) := by
  intro stk
  induction stk with
  | nil =>
    intro stk0 i0 i h hs
    rw [hs.1]
    exact ⟨some i0, fun _ => rfl, h, rfl⟩
  | cons sp rest ih =>
    intro stk0 i0 i h hs
    obtain ⟨hm, hok⟩ := hs
    subst hm
    have hsp := spanAsStr_ok (hok sp List.mem_cons_self)
    obtain ⟨r, hr, ho⟩ := matchString0_simB h sp.txt
    simp only [List.map_cons, offs, peekLoop0, peekSpans, hsp, hr]
    cases r <;> cases hs1 : i.matchString sp.txt <;> rw [hs1] at ho <;> simp only [OptAbsB] at ho
    · exact ⟨none, fun _ => rfl, trivial⟩
    · next a b =>
      have := ih (rest.map offs) a b ho.1 ⟨rfl, by rw [ho.2]; exact fun x hx => hok x (List.mem_cons_of_mem _ hx)⟩
      rw [ho.2] at this
      exact this

theorem peekSpans0_simB {stk : List Sp} {stk0 : List (Nat × Nat)} {i0 : Inp0} {i : Inp}
    (h : Abs i0 i) (hs : StkAbs i0.bytes stk0 stk) :
    ∃ r, (∀ checked, peekSpans0 checked stk0 i0 = .ok r) ∧ OptAbsB i0.bytes r (peekSpans stk i) := by
  obtain ⟨r, hr, ho⟩ := peekLoop0_simB stk stk0 i0 i h hs
  cases r <;> cases hs1 : peekSpans stk i <;> rw [hs1] at ho <;> simp only [OptAbsB] at ho
  · exact ⟨none, fun c => by simp only [peekSpans0, hr, P.bind], trivial⟩
  · next a b =>
    refine ⟨some a, fun c => ?_, ho⟩
    simp only [peekSpans0, hr, P.bind, span0_ok h ho.1 ho.2 (peekSpans_adv _ _ _ hs1)]

/-! ### the simulation relation on results -/

def Rel0 {α} (bs : List UInt8) : R0 α → R α → Prop
  | .oof, .oof => True
  | .fail m0, .fail m => AbsM bs m0 m
  | .ok i0 m0 a0, .ok i m a => Abs i0 i ∧ i0.bytes = bs ∧ AbsM bs m0 m ∧ a0 = a
  | _, _ => False

theorem Rel0.cases {α} {bs : List UInt8} {r0 : R0 α} {r : R α} (h : Rel0 bs r0 r) :
    (r0 = .oof ∧ r = .oof) ∨ (∃ m0 m, r0 = .fail m0 ∧ r = .fail m ∧ AbsM bs m0 m) ∨
    (∃ i0 i m0 m a, r0 = .ok i0 m0 a ∧ r = .ok i m a ∧ Abs i0 i ∧ i0.bytes = bs ∧ AbsM bs m0 m) := by
  cases r0 <;> cases r <;> simp only [Rel0] at h
  · exact Or.inl ⟨rfl, rfl⟩
  · exact Or.inr (Or.inl ⟨_, _, rfl, rfl, h⟩)
  · obtain ⟨h1, h2, h3, rfl⟩ := h
    exact Or.inr (Or.inr ⟨_, _, _, _, _, rfl, rfl, h1, h2, h3⟩)

/-- A related byte-level result is never a panic and never undefined behaviour. -/
theorem Rel0.no_panic {α} {bs : List UInt8} {r0 : R0 α} {r : R α} (h : Rel0 bs r0 r) :
    r0 ≠ .panic ∧ r0 ≠ .ub := by
  constructor <;> intro hc <;> subst hc <;> cases r <;> exact h

def FnRel0 {α} (bs : List UInt8) (f0 : Inp0 → M0 → R0 α) (f : Inp → M → R α) : Prop :=
  ∀ i0 i m0 m, Abs i0 i → i0.bytes = bs → AbsM bs m0 m → Rel0 bs (f0 i0 m0) (f i m)

theorem Rel0.restore {α} {bs : List UInt8} {r0 : R0 α} {r : R α} {s0 : List (Nat × Nat)} {s : List Sp}
    (hs : StkAbs bs s0 s) (h : Rel0 bs r0 r) : Rel0 bs (restoreOnNone0 s0 r0) (restoreOnNone s r) := by
  rcases h.cases with ⟨h0, h1⟩ | ⟨m0', m', h0, h1, hm'⟩ | ⟨i0', i', m0', m', a, h0, h1, hi', hb', hm'⟩ <;> subst h0 h1
  · trivial
  · exact ⟨hs, hm'.2⟩
  · exact ⟨hi', hb', hm', rfl⟩

/-! ### loops, parse copies -/

theorem skipLoop_rel0 {α} {bs : List UInt8} {f0 : Inp0 → M0 → R0 α} {f : Inp → M → R α} (hf : FnRel0 bs f0 f) :
    ∀ k i0 i m0 m acc, Abs i0 i → i0.bytes = bs → AbsM bs m0 m →
      Rel0 bs (skipLoop0 f0 k i0 m0 acc) (skipLoop f k i m acc) := by
  intro k
  induction k with
  | zero => intro i0 i m0 m acc hi hb hm; exact ⟨hi, hb, hm, rfl⟩
  | succ k ih =>
    intro i0 i m0 m acc hi hb hm
    simp only [skipLoop0, skipLoop]
    rcases (hf i0 i m0 m hi hb hm).cases with ⟨h0, h1⟩ | ⟨m0', m', h0, h1, hm'⟩ |
      ⟨i0', i', m0', m', a, h0, h1, hi', hb', hm'⟩ <;> rw [h0, h1]
    · trivial
    · exact hm'
    · exact ih _ _ _ _ _ hi' hb' hm'

theorem seqLoop_rel0 {α β} {bs : List UInt8} {f0 : Node → Inp0 → M0 → R0 α} {f : Node → Inp → M → R α}
    {sk0 : Inp0 → M0 → R0 (List β)} {sk : Inp → M → R (List β)} {mk : List β → α → α}
    (hf : ∀ n, FnRel0 bs (f0 n) (f n)) (hs : FnRel0 bs sk0 sk) :
    ∀ ns i0 i m0 m acc, Abs i0 i → i0.bytes = bs → AbsM bs m0 m →
      Rel0 bs (seqLoop0 f0 sk0 mk ns i0 m0 acc) (seqLoop f sk mk ns i m acc) := by
  intro ns
  induction ns with
  | nil => intro i0 i m0 m acc hi hb hm; exact ⟨hi, hb, hm, rfl⟩
  | cons n ns ih =>
    intro i0 i m0 m acc hi hb hm
    simp only [seqLoop0, seqLoop]
    rcases (hs i0 i m0 m hi hb hm).cases with ⟨h0, h1⟩ | ⟨m0', m', h0, h1, hm'⟩ |
      ⟨i0', i', m0', m', a, h0, h1, hi', hb', hm'⟩ <;> rw [h0, h1]
    · trivial
    · exact hm'
    · simp only []
      rcases (hf n i0' i' m0' m' hi' hb' hm').cases with ⟨h0, h1⟩ | ⟨m0'', m'', h0, h1, hm''⟩ |
        ⟨i0'', i'', m0'', m'', a', h0, h1, hi'', hb'', hm''⟩ <;> rw [h0, h1]
      · trivial
      · exact hm''
      · exact ih _ _ _ _ _ hi'' hb'' hm''

theorem choiceLoop_rel0 {α} {bs : List UInt8} {f0 : Node → Inp0 → M0 → R0 α} {f : Node → Inp → M → R α}
    (hf : ∀ n, FnRel0 bs (f0 n) (f n)) :
    ∀ ns k i0 i m0 m, Abs i0 i → i0.bytes = bs → AbsM bs m0 m →
      Rel0 bs (choiceLoop0 f0 ns k i0 m0) (choiceLoop f ns k i m) := by
  intro ns
  induction ns with
  | nil => intro k i0 i m0 m hi hb hm; exact hm
  | cons n ns ih =>
    intro k i0 i m0 m hi hb hm
    simp only [choiceLoop0, choiceLoop]
    rcases ((hf n i0 i m0 m hi hb hm).restore hm.1).cases with ⟨h0, h1⟩ | ⟨m0', m', h0, h1, hm'⟩ |
      ⟨i0', i', m0', m', a, h0, h1, hi', hb', hm'⟩ <;> rw [h0, h1]
    · trivial
    · exact ih _ _ _ _ _ hi hb hm'
    · exact ⟨hi', hb', hm', rfl⟩

theorem repDone_rel0 {α} {bs : List UInt8} (min : Nat) (max : Option Nat) {i0 : Inp0} {i : Inp} {m0 : M0} {m : M}
    (acc : List α) (hi : Abs i0 i) (hb : i0.bytes = bs) (hm : AbsM bs m0 m) :
    Rel0 bs (repDone0 min max i0 m0 acc) (repDone min max i m acc) := by
  unfold repDone0 repDone
  cases max with
  | none => exact ⟨hi, hb, hm, rfl⟩
  | some mx =>
    simp only []
    split
    · exact hm
    · exact ⟨hi, hb, hm, rfl⟩

theorem repLoop_rel0 {α} {bs : List UInt8} {u0 : Nat → Inp0 → M0 → R0 α} {u : Nat → Inp → M → R α}
    (hu : ∀ idx, FnRel0 bs (u0 idx) (u idx)) (min : Nat) (max : Option Nat) :
    ∀ budget idx i0 i m0 m acc, Abs i0 i → i0.bytes = bs → AbsM bs m0 m →
      Rel0 bs (repLoop0 u0 min max budget idx i0 m0 acc) (repLoop u min max budget idx i m acc) := by
  intro budget
  induction budget with
  | zero => intro idx i0 i m0 m acc _ _ _; trivial
  | succ budget ih =>
    intro idx i0 i m0 m acc hi hb hm
    simp only [repLoop0, repLoop]
    split
    · exact repDone_rel0 min max acc hi hb hm
    · rcases ((hu idx i0 i m0 m hi hb hm).restore hm.1).cases with ⟨h0, h1⟩ | ⟨m0', m', h0, h1, hm'⟩ |
        ⟨i0', i', m0', m', a, h0, h1, hi', hb', hm'⟩ <;> rw [h0, h1]
      · trivial
      · simp only []
        split
        · exact hm'
        · exact repDone_rel0 min max acc hi hb hm'
      · exact ih _ _ _ _ _ _ hi' hb' hm'

theorem arrayLoop_rel0 {α} {bs : List UInt8} {f0 : Inp0 → M0 → R0 α} {f : Inp → M → R α} (hf : FnRel0 bs f0 f) :
    ∀ k i0 i m0 m acc, Abs i0 i → i0.bytes = bs → AbsM bs m0 m →
      Rel0 bs (arrayLoop0 f0 k i0 m0 acc) (arrayLoop f k i m acc) := by
  intro k
  induction k with
  | zero => intro i0 i m0 m acc hi hb hm; exact ⟨hi, hb, hm, rfl⟩
  | succ k ih =>
    intro i0 i m0 m acc hi hb hm
    simp only [arrayLoop0, arrayLoop]
    rcases (hf i0 i m0 m hi hb hm).cases with ⟨h0, h1⟩ | ⟨m0', m', h0, h1, hm'⟩ |
      ⟨i0', i', m0', m', a, h0, h1, hi', hb', hm'⟩ <;> rw [h0, h1]
    · trivial
    · exact hm'
    · exact ih _ _ _ _ _ hi' hb' hm'

theorem arrayTryInto_rel0 {α} {bs : List UInt8} (n : Nat) {r0 : R0 (List α)} {r : R (List α)} (h : Rel0 bs r0 r) :
    Rel0 bs (arrayTryInto0 n r0) (arrayTryInto n r) := by
  rcases h.cases with ⟨h0, h1⟩ | ⟨m0', m', h0, h1, hm'⟩ | ⟨i0', i', m0', m', a, h0, h1, hi', hb', hm'⟩ <;> subst h0 h1
  · trivial
  · exact hm'
  · simp only [arrayTryInto0, arrayTryInto]
    split
    · exact ⟨hi', hb', hm', rfl⟩
    · exact hm'

theorem repUnitP_rel0 {bs : List UInt8} {sk0 body0 : Inp0 → M0 → R0 Val} {sk body : Inp → M → R Val}
    (hs : FnRel0 bs sk0 sk) (hbd : FnRel0 bs body0 body) (dflt : Val) (k idx : Nat) :
    FnRel0 bs (repUnitP0 sk0 body0 dflt k idx) (repUnitP sk body dflt k idx) := by
  intro i0 i m0 m hi hb hm
  unfold repUnitP0 repUnitP
  split
  · rcases (hbd i0 i m0 m hi hb hm).cases with ⟨h0, h1⟩ | ⟨m0', m', h0, h1, hm'⟩ |
      ⟨i0', i', m0', m', a, h0, h1, hi', hb', hm'⟩ <;> rw [h0, h1]
    · trivial
    · exact hm'
    · exact ⟨hi', hb', hm', rfl⟩
  · rcases (skipLoop_rel0 hs k i0 i m0 m [] hi hb hm).cases with ⟨h0, h1⟩ | ⟨m0', m', h0, h1, hm'⟩ |
      ⟨i0', i', m0', m', a, h0, h1, hi', hb', hm'⟩ <;> rw [h0, h1]
    · trivial
    · exact hm'
    · simp only []
      rcases (hbd i0' i' m0' m' hi' hb' hm').cases with ⟨h0, h1⟩ | ⟨m0'', m'', h0, h1, hm''⟩ |
        ⟨i0'', i'', m0'', m'', a', h0, h1, hi'', hb'', hm''⟩ <;> rw [h0, h1]
      · trivial
      · exact hm''
      · exact ⟨hi'', hb'', hm'', rfl⟩

/-! ### loops, check copies -/

theorem skipLoopC_rel0 {bs : List UInt8} {f0 : Inp0 → M0 → R0 Unit} {f : Inp → M → R Unit} (hf : FnRel0 bs f0 f) :
    ∀ k, FnRel0 bs (skipLoopC0 f0 k) (skipLoopC f k) := by
  intro k
  induction k with
  | zero => intro i0 i m0 m hi hb hm; exact ⟨hi, hb, hm, rfl⟩
  | succ k ih =>
    intro i0 i m0 m hi hb hm
    simp only [skipLoopC0, skipLoopC]
    rcases (hf i0 i m0 m hi hb hm).cases with ⟨h0, h1⟩ | ⟨m0', m', h0, h1, hm'⟩ |
      ⟨i0', i', m0', m', a, h0, h1, hi', hb', hm'⟩ <;> rw [h0, h1]
    · trivial
    · exact hm'
    · exact ih _ _ _ _ hi' hb' hm'

theorem seqLoopC_rel0 {bs : List UInt8} {f0 : Node → Inp0 → M0 → R0 Unit} {f : Node → Inp → M → R Unit}
    {sk0 : Inp0 → M0 → R0 Unit} {sk : Inp → M → R Unit}
    (hf : ∀ n, FnRel0 bs (f0 n) (f n)) (hs : FnRel0 bs sk0 sk) :
    ∀ ns, FnRel0 bs (seqLoopC0 f0 sk0 ns) (seqLoopC f sk ns) := by
  intro ns
  induction ns with
  | nil => intro i0 i m0 m hi hb hm; exact ⟨hi, hb, hm, rfl⟩
  | cons n ns ih =>
    intro i0 i m0 m hi hb hm
    simp only [seqLoopC0, seqLoopC]
    rcases (hs i0 i m0 m hi hb hm).cases with ⟨h0, h1⟩ | ⟨m0', m', h0, h1, hm'⟩ |
      ⟨i0', i', m0', m', a, h0, h1, hi', hb', hm'⟩ <;> rw [h0, h1]
    · trivial
    · exact hm'
    · simp only []
      rcases (hf n i0' i' m0' m' hi' hb' hm').cases with ⟨h0, h1⟩ | ⟨m0'', m'', h0, h1, hm''⟩ |
        ⟨i0'', i'', m0'', m'', a', h0, h1, hi'', hb'', hm''⟩ <;> rw [h0, h1]
      · trivial
      · exact hm''
      · exact ih _ _ _ _ hi'' hb'' hm''

theorem choiceLoopC_rel0 {bs : List UInt8} {f0 : Node → Inp0 → M0 → R0 Unit} {f : Node → Inp → M → R Unit}
    (hf : ∀ n, FnRel0 bs (f0 n) (f n)) :
    ∀ ns, FnRel0 bs (choiceLoopC0 f0 ns) (choiceLoopC f ns) := by
  intro ns
  induction ns with
  | nil => intro i0 i m0 m hi hb hm; exact hm
  | cons n ns ih =>
    intro i0 i m0 m hi hb hm
    simp only [choiceLoopC0, choiceLoopC]
    rcases ((hf n i0 i m0 m hi hb hm).restore hm.1).cases with ⟨h0, h1⟩ | ⟨m0', m', h0, h1, hm'⟩ |
      ⟨i0', i', m0', m', a, h0, h1, hi', hb', hm'⟩ <;> rw [h0, h1]
    · trivial
    · exact ih _ _ _ _ hi hb hm'
    · exact ⟨hi', hb', hm', rfl⟩

theorem repDoneC_rel0 {bs : List UInt8} (min : Nat) (max : Option Nat) {i0 : Inp0} {i : Inp} {m0 : M0} {m : M}
    (hi : Abs i0 i) (hb : i0.bytes = bs) (hm : AbsM bs m0 m) :
    Rel0 bs (repDoneC0 min max i0 m0) (repDoneC min max i m) := by
  unfold repDoneC0 repDoneC
  cases max with
  | none => exact ⟨hi, hb, hm, rfl⟩
  | some mx =>
    simp only []
    split
    · exact hm
    · exact ⟨hi, hb, hm, rfl⟩

theorem repLoopC_rel0 {bs : List UInt8} {u0 : Nat → Inp0 → M0 → R0 Unit} {u : Nat → Inp → M → R Unit}
    (hu : ∀ idx, FnRel0 bs (u0 idx) (u idx)) (min : Nat) (max : Option Nat) :
    ∀ budget idx, FnRel0 bs (repLoopC0 u0 min max budget idx) (repLoopC u min max budget idx) := by
  intro budget
  induction budget with
  | zero => intro idx i0 i m0 m _ _ _; trivial
  | succ budget ih =>
    intro idx i0 i m0 m hi hb hm
    simp only [repLoopC0, repLoopC]
    split
    · exact repDoneC_rel0 min max hi hb hm
    · rcases ((hu idx i0 i m0 m hi hb hm).restore hm.1).cases with ⟨h0, h1⟩ | ⟨m0', m', h0, h1, hm'⟩ |
        ⟨i0', i', m0', m', a, h0, h1, hi', hb', hm'⟩ <;> rw [h0, h1]
      · trivial
      · simp only []
        split
        · exact hm'
        · exact repDoneC_rel0 min max hi hb hm'
      · exact ih _ _ _ _ _ hi' hb' hm'

theorem arrayLoopC_rel0 {bs : List UInt8} {f0 : Inp0 → M0 → R0 Unit} {f : Inp → M → R Unit} (hf : FnRel0 bs f0 f) :
    ∀ k, FnRel0 bs (arrayLoopC0 f0 k) (arrayLoopC f k) := by
  intro k
  induction k with
  | zero => intro i0 i m0 m hi hb hm; exact ⟨hi, hb, hm, rfl⟩
  | succ k ih =>
    intro i0 i m0 m hi hb hm
    simp only [arrayLoopC0, arrayLoopC]
    rcases (hf i0 i m0 m hi hb hm).cases with ⟨h0, h1⟩ | ⟨m0', m', h0, h1, hm'⟩ |
      ⟨i0', i', m0', m', a, h0, h1, hi', hb', hm'⟩ <;> rw [h0, h1]
    · trivial
    · exact hm'
    · exact ih _ _ _ _ hi' hb' hm'

theorem repSkipC_rel0 {bs : List UInt8} {f0 : Inp0 → M0 → R0 Unit} {f : Inp → M → R Unit} (hf : FnRel0 bs f0 f)
    (idx : Nat) : ∀ k, FnRel0 bs (repSkipC0 f0 idx k) (repSkipC f idx k) := by
  intro k
  induction k with
  | zero => intro i0 i m0 m hi hb hm; exact ⟨hi, hb, hm, rfl⟩
  | succ k ih =>
    intro i0 i m0 m hi hb hm
    simp only [repSkipC0, repSkipC]
    split
    · rcases (hf i0 i m0 m hi hb hm).cases with ⟨h0, h1⟩ | ⟨m0', m', h0, h1, hm'⟩ |
        ⟨i0', i', m0', m', a, h0, h1, hi', hb', hm'⟩ <;> rw [h0, h1]
      · trivial
      · exact hm'
      · exact ih _ _ _ _ hi' hb' hm'
    · exact ih _ _ _ _ hi hb hm

theorem repUnitC_rel0 {bs : List UInt8} {sk0 body0 : Inp0 → M0 → R0 Unit} {sk body : Inp → M → R Unit}
    (hs : FnRel0 bs sk0 sk) (hbd : FnRel0 bs body0 body) (k idx : Nat) :
    FnRel0 bs (repUnitC0 sk0 body0 k idx) (repUnitC sk body k idx) := by
  intro i0 i m0 m hi hb hm
  unfold repUnitC0 repUnitC
  rcases (repSkipC_rel0 hs idx k i0 i m0 m hi hb hm).cases with ⟨h0, h1⟩ | ⟨m0', m', h0, h1, hm'⟩ |
    ⟨i0', i', m0', m', a, h0, h1, hi', hb', hm'⟩ <;> rw [h0, h1]
  · trivial
  · exact hm'
  · exact hbd _ _ _ _ hi' hb' hm'


/-! ### elimination forms for the primitive relations -/

theorem Abs.pos_eq {i0 : Inp0} {i : Inp} (h : Abs i0 i) : i0.pos = i.pos := by
  obtain ⟨_, _, _, _, hpos, _⟩ := h; exact hpos.symm

theorem OptAbsB.elim {bs : List UInt8} {r : Option Inp0} {o : Option Inp} (h : OptAbsB bs r o) :
    (r = none ∧ o = none) ∨ ∃ a b, r = some a ∧ o = some b ∧ Abs a b ∧ a.bytes = bs := by
  cases r <;> cases o <;> simp only [OptAbsB] at h
  · exact Or.inl ⟨rfl, rfl⟩
  · exact Or.inr ⟨_, _, rfl, rfl, h.1, h.2⟩

theorem OptAbsCB.elim {bs : List UInt8} {r : Option (Inp0 × Char)} {o : Option (Inp × Char)}
    (h : OptAbsCB bs r o) :
    (r = none ∧ o = none) ∨ ∃ a b c, r = some (a, c) ∧ o = some (b, c) ∧ Abs a b ∧ a.bytes = bs := by
  cases r with
  | none => cases o <;> simp only [OptAbsCB] at h; exact Or.inl ⟨rfl, rfl⟩
  | some x =>
    obtain ⟨a, c⟩ := x
    cases o with
    | none => simp only [OptAbsCB] at h
    | some y =>
      obtain ⟨b, d⟩ := y
      simp only [OptAbsCB] at h
      obtain ⟨h1, h2, rfl⟩ := h
      exact Or.inr ⟨_, _, _, rfl, rfl, h1, h2⟩

theorem OptAbsNB.elim {bs : List UInt8} {r : Option (Inp0 × Nat)} {o : Option (Inp × Nat)}
    (h : OptAbsNB bs r o) :
    (r = none ∧ o = none) ∨ ∃ a b c, r = some (a, c) ∧ o = some (b, c) ∧ Abs a b ∧ a.bytes = bs := by
  cases r with
  | none => cases o <;> simp only [OptAbsNB] at h; exact Or.inl ⟨rfl, rfl⟩
  | some x =>
    obtain ⟨a, c⟩ := x
    cases o with
    | none => simp only [OptAbsNB] at h
    | some y =>
      obtain ⟨b, d⟩ := y
      simp only [OptAbsNB] at h
      obtain ⟨h1, h2, rfl⟩ := h
      exact Or.inr ⟨_, _, _, rfl, rfl, h1, h2⟩

theorem matchRange0_simB {i0 : Inp0} {i : Inp} (h : Abs i0 i) (lo hi : Char) :
    ∃ r, (∀ checked, i0.matchRange0 checked lo hi = .ok r) ∧ OptAbsCB i0.bytes r (i.matchRange lo hi) :=
  matchCharBy0_simB h _

theorem next0_simB {i0 : Inp0} {i : Inp} (h : Abs i0 i) :
    ∃ r, (∀ checked, i0.next0 checked = .ok r) ∧ OptAbsCB i0.bytes r (i.matchCharBy (fun _ => true)) :=
  matchCharBy0_simB h _

/-- The span over one matched character is that character. -/
theorem matchCharBy_spanTo {p : Char → Bool} {i i' : Inp} {c : Char} (h : i.matchCharBy p = some (i', c)) :
    (i.spanTo i').txt = [c] := by
  unfold Inp.matchCharBy at h
  cases hr : i.rest with
  | nil => rw [hr] at h; cases h
  | cons c' cs =>
    rw [hr] at h
    simp only [] at h
    split at h
    · injection h with h; injection h with h1 h2
      subst h1 h2
      simp only [Inp.spanTo, Inp.adv, hr, List.drop_succ_cons, List.drop_zero, List.length_cons]
      rw [Nat.add_sub_cancel_left]; rfl
    · cases h

theorem AbsM.mk' {bs : List UInt8} {s0 : List (Nat × Nat)} {s : List Sp} {t0 t : Tracker}
    (hs : StkAbs bs s0 s) (ht : t0 = t) : AbsM bs ⟨s0, t0⟩ ⟨s, t⟩ := ⟨hs, ht⟩

set_option hygiene false in
/-- Case split on a related pair of results, rewriting both sides of the goal. -/
macro "rel_cases " t:term : tactic => `(tactic|
  rcases (Rel0.cases $t) with ⟨h0, h1⟩ | ⟨m0', m', h0, h1, hm'⟩ | ⟨i0', i', m0', m', a, h0, h1, hi', hb', hm'⟩ <;>
    rw [h0, h1])

/-! ### the interpreters -/

/-- The byte-level interpreters simulate the character-level ones (both paths, every node, every fuel,
both profiles). -/
theorem parse0_check0_rel0 (checked : Bool) (g : NodeGrammar) (uni : Uni) (bs : List UInt8) :
    ∀ fuel, (∀ inh node, FnRel0 bs (check0 checked g uni fuel inh node) (check g uni fuel inh node)) ∧
            (∀ inh node, FnRel0 bs (parse0 checked g uni fuel inh node) (parse g uni fuel inh node)) := by
  intro fuel
  induction fuel with
  | zero =>
    constructor <;> intro inh node i0 i m0 m _ _ _
    · simp only [check0, check]; trivial
    · simp only [parse0, parse]; trivial
  | succ fuel ih =>
    obtain ⟨ihc, ihp⟩ := ih
    constructor
    · intro inh node i0 i m0 m hi hb hm
      cases node with
      | str s =>
        obtain ⟨r, hr, ho⟩ := matchString0_simB hi s
        rcases ho.elim with ⟨rfl, hs⟩ | ⟨a, b, rfl, hs, ha, hab⟩ <;> simp only [check0, check, hr, hs, P.andThen]
        · exact hm
        · exact ⟨ha, hab.trans hb, hm, rfl⟩
      | insens s =>
        obtain ⟨r, hr, ho⟩ := matchInsens0_simB hi s
        rcases ho.elim with ⟨rfl, hs⟩ | ⟨a, b, rfl, hs, ha, hab⟩ <;> simp only [check0, check, hr, hs, P.andThen]
        · exact hm
        · exact ⟨ha, hab.trans hb, hm, rfl⟩
      | range lo hi2 =>
        obtain ⟨r, hr, ho⟩ := matchRange0_simB hi lo hi2
        rcases ho.elim with ⟨rfl, hs⟩ | ⟨a, b, c, rfl, hs, ha, hab⟩ <;> simp only [check0, check, hr, hs, P.andThen]
        · exact hm
        · exact ⟨ha, hab.trans hb, hm, rfl⟩
      | any =>
        obtain ⟨r, hr, ho⟩ := next0_simB hi
        rcases ho.elim with ⟨rfl, hs⟩ | ⟨a, b, c, rfl, hs, ha, hab⟩ <;> simp only [check0, check, hr, hs, P.andThen]
        · exact hm
        · exact ⟨ha, hab.trans hb, hm, rfl⟩
      | soi =>
        simp only [check0, check, hi.atStart]
        split
        · exact ⟨hi, hb, hm, rfl⟩
        · exact hm
      | eoi =>
        simp only [check0, check, hi.atEnd]
        split
        · exact ⟨hi, hb, hm, rfl⟩
        · exact hm
      | newline =>
        obtain ⟨r, hr, ho⟩ := newlineMatch0_simB hi
        rcases ho.elim with ⟨rfl, hs⟩ | ⟨a, b, c, rfl, hs, ha, hab⟩ <;> simp only [check0, check, hr, hs, P.andThen]
        · exact hm
        · exact ⟨ha, hab.trans hb, hm, rfl⟩
      | charBy p =>
        obtain ⟨r, hr, ho⟩ := matchCharBy0_simB hi (uni p)
        rcases ho.elim with ⟨rfl, hs⟩ | ⟨a, b, c, rfl, hs, ha, hab⟩ <;> simp only [check0, check, hr, hs, P.andThen]
        · exact hm
        · exact ⟨ha, hab.trans hb, hm, rfl⟩
      | skipUntil needles =>
        simp only [check0, check]
        exact ⟨(skipUntil0_sim hi needles).1, (skipUntil0_bytes _ _).trans hb, hm, rfl⟩
      | skipChars k =>
        obtain ⟨r, hr, ho⟩ := skip0_simB hi k
        rcases ho.elim with ⟨rfl, hs⟩ | ⟨a, b, rfl, hs, ha, hab⟩ <;> simp only [check0, check, hr, hs, P.andThen]
        · exact hm
        · exact ⟨ha, hab.trans hb, hm, rfl⟩
      | seq sk items =>
        simp only [check0, check]
        cases items with
        | nil => exact ⟨hi, hb, hm, rfl⟩
        | cons n0 ns =>
          simp only []
          rel_cases (ihc inh n0 i0 i m0 m hi hb hm)
          · trivial
          · exact hm'
          · exact seqLoopC_rel0 (ihc inh) (skipLoopC_rel0 (ihc false g.skipped) _) ns _ _ _ _ hi' hb' hm'
      | choice alts =>
        simp only [check0, check]
        exact choiceLoopC_rel0 (ihc inh) alts _ _ _ _ hi hb hm
      | opt n =>
        simp only [check0, check]
        rel_cases ((ihc inh n i0 i m0 m hi hb hm).restore hm.1)
        · trivial
        · exact ⟨hi, hb, hm', rfl⟩
        · exact ⟨hi', hb', hm', rfl⟩
      | rep sk min max n =>
        simp only [check0, check]
        exact repLoopC_rel0 (fun idx => repUnitC_rel0 (ihc false g.skipped) (ihc inh n) _ idx) min max fuel 0
          _ _ _ _ hi hb hm
      | atomicRepeat n =>
        simp only [check0, check, trackerNew0_ok hi, P.andThen]
        have hm1 : AbsM bs { m0 with trk := Tracker.new i } { m with trk := Tracker.new i } := ⟨hm.1, rfl⟩
        rel_cases (repLoopC_rel0 (u0 := fun _ i m => check0 checked g uni fuel inh n i m)
          (u := fun _ i m => check g uni fuel inh n i m) (fun _ => ihc inh n) 0 none (atomicBudget fuel) 0
          i0 i _ _ hi hb hm1)
        · trivial
        · exact ⟨hm'.1, hm.2⟩
        · exact ⟨hi', hb', ⟨hm'.1, hm.2⟩, rfl⟩
      | pos n =>
        simp only [check0, check]
        have hm1 : AbsM bs { m0 with trk := { m0.trk with positive := true } }
            { m with trk := { m.trk with positive := true } } := AbsM.mk' hm.1 (by rw [hm.2])
        rel_cases (ihc inh n i0 i _ _ hi hb hm1)
        · trivial
        · exact AbsM.mk' hm.1 (by rw [hm'.2, hm.2])
        · exact ⟨hi, hb, AbsM.mk' hm.1 (by rw [hm'.2, hm.2]), rfl⟩
      | neg n =>
        simp only [check0, check]
        have hm1 : AbsM bs { m0 with trk := { m0.trk with positive := false } }
            { m with trk := { m.trk with positive := false } } := AbsM.mk' hm.1 (by rw [hm.2])
        rel_cases (ihc inh n i0 i _ _ hi hb hm1)
        · trivial
        · exact ⟨hi, hb, AbsM.mk' hm.1 (by rw [hm'.2, hm.2]), rfl⟩
        · exact AbsM.mk' hm.1 (by rw [hm'.2, hm.2])
      | push n =>
        simp only [check0, check]
        rel_cases (ihc inh n i0 i m0 m hi hb hm)
        · trivial
        · exact hm'
        · have hadv := check_adv g uni fuel inh n _ _ _ _ _ h1
          simp only [span0_ok hi hi' (hb'.trans hb.symm) hadv, P.andThen]
          exact ⟨hi', hb', AbsM.mk' (StkAbs.cons (hb ▸ SpOK_spanTo hi hadv) hm'.1) hm'.2, rfl⟩
      | peek =>
        simp only [check0, check]
        obtain ⟨hst, hok⟩ := hm.1
        cases hs : m.stk with
        | nil =>
          rw [hs] at hst
          simp only [hst, List.map_nil, emptyStack0_ok hi, hm.2, P.andThen]
          exact ⟨StkAbs.nil bs, rfl⟩
        | cons sp rest =>
          rw [hs] at hst hok
          have hsp := spanAsStr_ok (hok sp List.mem_cons_self)
          obtain ⟨r, hr, ho⟩ := matchString0_simB hi sp.txt
          rcases ho.elim with ⟨rfl, hs1⟩ | ⟨a, b, rfl, hs1, ha, hab⟩ <;>
            simp only [hst, List.map_cons, offs, hb, hsp, hr, hs1, P.andThen]
          · exact hm
          · exact ⟨ha, hab.trans hb, hm, rfl⟩
      | peekAll =>
        obtain ⟨r, hr, ho⟩ := peekSpans0_simB (stk := m.stk) hi (by rw [hb]; exact hm.1)
        rcases ho.elim with ⟨rfl, hs1⟩ | ⟨a, b, rfl, hs1, ha, hab⟩ <;> simp only [check0, check, hr, hs1, P.andThen]
        · exact hm
        · exact ⟨ha, hab.trans hb, hm, rfl⟩
      | pop =>
        simp only [check0, check]
        obtain ⟨hst, hok⟩ := hm.1
        cases hs : m.stk with
        | nil =>
          rw [hs] at hst
          simp only [hst, List.map_nil, emptyStack0_ok hi, hm.2, P.andThen]
          exact ⟨StkAbs.nil bs, rfl⟩
        | cons sp rest =>
          rw [hs] at hst hok
          have hsp := spanAsStr_ok (hok sp List.mem_cons_self)
          have hrest : StkAbs bs (rest.map offs) rest := ⟨rfl, fun x hx => hok x (List.mem_cons_of_mem _ hx)⟩
          obtain ⟨r, hr, ho⟩ := matchString0_simB hi sp.txt
          rcases ho.elim with ⟨rfl, hs1⟩ | ⟨a, b, rfl, hs1, ha, hab⟩ <;>
            simp only [hst, List.map_cons, offs, hb, hsp, hr, hs1, P.andThen]
          · exact ⟨hrest, hm.2⟩
          · exact ⟨ha, hab.trans hb, ⟨hrest, hm.2⟩, rfl⟩
      | popAll =>
        obtain ⟨r, hr, ho⟩ := peekSpans0_simB (stk := m.stk) hi (by rw [hb]; exact hm.1)
        rcases ho.elim with ⟨rfl, hs1⟩ | ⟨a, b, rfl, hs1, ha, hab⟩ <;> simp only [check0, check, hr, hs1, P.andThen]
        · exact hm
        · exact ⟨ha, hab.trans hb, ⟨StkAbs.nil bs, hm.2⟩, rfl⟩
      | drop =>
        simp only [check0, check]
        obtain ⟨hst, hok⟩ := hm.1
        cases hs : m.stk with
        | nil =>
          rw [hs] at hst
          simp only [hst, List.map_nil, emptyStack0_ok hi, hm.2, P.andThen]
          exact ⟨StkAbs.nil bs, rfl⟩
        | cons sp rest =>
          rw [hs] at hst hok
          have hrest : StkAbs bs (rest.map offs) rest := ⟨rfl, fun x hx => hok x (List.mem_cons_of_mem _ hx)⟩
          simp only [hst, List.map_cons]
          exact ⟨hi, hb, ⟨hrest, hm.2⟩, rfl⟩
      | peekSlice a b =>
        simp only [check0, check, hm.1.length]
        cases hc : constrainIdxs a b m.stk.length with
        | none =>
          simp only [outOfBound0_ok hi, hm.2, P.andThen]
          exact ⟨hm.1, rfl⟩
        | some p =>
          obtain ⟨lo, hi2⟩ := p
          simp only []
          split
          · exact ⟨hi, hb, hm, rfl⟩
          · obtain ⟨r, hr, ho⟩ := peekSpans0_simB (stk := stackSlice m.stk lo hi2) hi
              (by rw [hb]; exact hm.1.slice lo hi2)
            rcases ho.elim with ⟨rfl, hs1⟩ | ⟨x, y, rfl, hs1, ha, hab⟩ <;> simp only [hr, hs1, P.andThen]
            · exact hm
            · exact ⟨ha, hab.trans hb, hm, rfl⟩
      | ref r f =>
        simp only [check0, check]
        cases hd : g.rule? r with
        | none => exact hm
        | some d =>
          simp only []
          have hm1 : AbsM bs { m0 with trk := m0.trk.enter r i0.pos } { m with trk := m.trk.enter r i.pos } :=
            AbsM.mk' hm.1 (by rw [hm.2, hi.pos_eq])
          cases he : d.emit with
          | expression => exact ihc _ _ _ _ _ _ hi hb hm
          | span =>
            simp only []
            rel_cases (ihc (f.eval inh) d.body i0 i _ _ hi hb hm1)
            · trivial
            · simp only [leave0_ok hi, P.andThen, hm'.2]; exact ⟨hm'.1, rfl⟩
            · simp only [leave0_ok hi, P.andThen, hm'.2]; exact ⟨hi', hb', ⟨hm'.1, rfl⟩, rfl⟩
          | both =>
            simp only []
            rel_cases (ihc (f.eval inh) d.body i0 i _ _ hi hb hm1)
            · trivial
            · simp only [leave0_ok hi, P.andThen, hm'.2]; exact ⟨hm'.1, rfl⟩
            · simp only [leave0_ok hi, P.andThen, hm'.2]; exact ⟨hi', hb', ⟨hm'.1, rfl⟩, rfl⟩
      | array k n =>
        simp only [check0, check]
        exact arrayLoopC_rel0 (ihc inh n) k _ _ _ _ hi hb hm
      | pair x y =>
        simp only [check0, check]
        rel_cases (ihc inh x i0 i m0 m hi hb hm)
        · trivial
        · exact hm'
        · exact ihc inh y _ _ _ _ hi' hb' hm'
      | empty => simp only [check0, check]; exact ⟨hi, hb, hm, rfl⟩
      | alwaysFail => simp only [check0, check]; exact hm
    · intro inh node i0 i m0 m hi hb hm
      cases node with
      | str s =>
        obtain ⟨r, hr, ho⟩ := matchString0_simB hi s
        rcases ho.elim with ⟨rfl, hs⟩ | ⟨a, b, rfl, hs, ha, hab⟩ <;> simp only [parse0, parse, hr, hs, P.andThen]
        · exact hm
        · exact ⟨ha, hab.trans hb, hm, rfl⟩
      | insens s =>
        obtain ⟨r, hr, ho⟩ := matchInsens0_simB hi s
        rcases ho.elim with ⟨rfl, hs⟩ | ⟨a, b, rfl, hs, ha, hab⟩
        · simp only [parse0, parse, hr, hs, P.andThen]; exact hm
        · simp only [parse0, parse, hr, hs, P.andThen, spanText0_ok hi ha hab (Inp.matchInsens_adv hs)]
          exact ⟨ha, hab.trans hb, hm, rfl⟩
      | range lo hi2 =>
        obtain ⟨r, hr, ho⟩ := matchRange0_simB hi lo hi2
        rcases ho.elim with ⟨rfl, hs⟩ | ⟨a, b, c, rfl, hs, ha, hab⟩
        · simp only [parse0, parse, hr, hs, P.andThen]; exact hm
        · have hadv := Inp.matchRange_adv hs
          simp only [parse0, parse, hr, hs, P.andThen, span0_ok hi ha hab hadv, spanAsStr_spanTo hi hadv,
            matchCharBy_spanTo hs, nextChar_enc_cons]
          exact ⟨ha, hab.trans hb, hm, rfl⟩
      | any =>
        obtain ⟨r, hr, ho⟩ := next0_simB hi
        rcases ho.elim with ⟨rfl, hs⟩ | ⟨a, b, c, rfl, hs, ha, hab⟩ <;> simp only [parse0, parse, hr, hs, P.andThen]
        · exact hm
        · exact ⟨ha, hab.trans hb, hm, rfl⟩
      | soi =>
        simp only [parse0, parse, hi.atStart]
        split
        · exact ⟨hi, hb, hm, rfl⟩
        · exact hm
      | eoi =>
        simp only [parse0, parse, hi.atEnd]
        split
        · exact ⟨hi, hb, hm, rfl⟩
        · exact hm
      | newline =>
        obtain ⟨r, hr, ho⟩ := newlineMatch0_simB hi
        rcases ho.elim with ⟨rfl, hs⟩ | ⟨a, b, c, rfl, hs, ha, hab⟩ <;> simp only [parse0, parse, hr, hs, P.andThen]
        · exact hm
        · exact ⟨ha, hab.trans hb, hm, rfl⟩
      | charBy p =>
        obtain ⟨r, hr, ho⟩ := matchCharBy0_simB hi (uni p)
        rcases ho.elim with ⟨rfl, hs⟩ | ⟨a, b, c, rfl, hs, ha, hab⟩ <;> simp only [parse0, parse, hr, hs, P.andThen]
        · exact hm
        · exact ⟨ha, hab.trans hb, hm, rfl⟩
      | skipUntil needles =>
        have h1 := (skipUntil0_sim hi needles).1
        simp only [parse0, parse, P.andThen,
          spanText0_ok hi h1 (skipUntil0_bytes _ _) (Inp.skipUntil_adv needles i)]
        exact ⟨h1, (skipUntil0_bytes _ _).trans hb, hm, rfl⟩
      | skipChars k =>
        obtain ⟨r, hr, ho⟩ := skip0_simB hi k
        rcases ho.elim with ⟨rfl, hs⟩ | ⟨a, b, rfl, hs, ha, hab⟩
        · simp only [parse0, parse, hr, hs, P.andThen]; exact hm
        · simp only [parse0, parse, hr, hs, P.andThen, spanText0_ok hi ha hab (Inp.skipN_adv hs)]
          exact ⟨ha, hab.trans hb, hm, rfl⟩
      | seq sk items =>
        simp only [parse0, parse]
        cases items with
        | nil => exact ⟨hi, hb, hm, rfl⟩
        | cons n0 ns =>
          simp only []
          rel_cases (ihp inh n0 i0 i m0 m hi hb hm)
          · trivial
          · exact hm'
          · simp only []
            rel_cases (seqLoop_rel0 (mk := mkSkipped) (ihp inh)
              (sk0 := fun i m => skipLoop0 (parse0 checked g uni fuel false g.skipped) (skipCount sk inh) i m [])
              (sk := fun i m => skipLoop (parse g uni fuel false g.skipped) (skipCount sk inh) i m [])
              (fun i0 i m0 m hi hb hm => skipLoop_rel0 (ihp false g.skipped) _ i0 i m0 m [] hi hb hm)
              ns i0' i' m0' m' [] hi' hb' hm')
            · trivial
            · exact hm'
            · exact ⟨hi', hb', hm', rfl⟩
      | choice alts =>
        simp only [parse0, parse]
        rel_cases (choiceLoop_rel0 (ihp inh) alts 0 i0 i m0 m hi hb hm)
        · trivial
        · exact hm'
        · obtain ⟨k, v⟩ := a
          exact ⟨hi', hb', hm', rfl⟩
      | opt n =>
        simp only [parse0, parse]
        rel_cases ((ihp inh n i0 i m0 m hi hb hm).restore hm.1)
        · trivial
        · exact ⟨hi, hb, hm', rfl⟩
        · exact ⟨hi', hb', hm', rfl⟩
      | rep sk min max n =>
        simp only [parse0, parse]
        rel_cases (repLoop_rel0 (fun idx => repUnitP_rel0 (ihp false g.skipped) (ihp inh n) (defaultSkipVal g)
          (skipCount sk inh) idx) min max fuel 0 i0 i m0 m [] hi hb hm)
        · trivial
        · exact hm'
        · exact ⟨hi', hb', hm', rfl⟩
      | atomicRepeat n =>
        simp only [parse0, parse, trackerNew0_ok hi, P.andThen]
        have hm1 : AbsM bs { m0 with trk := Tracker.new i } { m with trk := Tracker.new i } := ⟨hm.1, rfl⟩
        rel_cases (repLoop_rel0 (u0 := fun _ i m => parse0 checked g uni fuel inh n i m)
          (u := fun _ i m => parse g uni fuel inh n i m) (fun _ => ihp inh n) 0 none (atomicBudget fuel) 0
          i0 i _ _ [] hi hb hm1)
        · trivial
        · exact ⟨hm'.1, hm.2⟩
        · exact ⟨hi', hb', ⟨hm'.1, hm.2⟩, rfl⟩
      | pos n =>
        simp only [parse0, parse]
        have hm1 : AbsM bs { m0 with trk := { m0.trk with positive := true } }
            { m with trk := { m.trk with positive := true } } := AbsM.mk' hm.1 (by rw [hm.2])
        rel_cases (ihp inh n i0 i _ _ hi hb hm1)
        · trivial
        · exact AbsM.mk' hm.1 (by rw [hm'.2, hm.2])
        · exact ⟨hi, hb, AbsM.mk' hm.1 (by rw [hm'.2, hm.2]), rfl⟩
      | neg n =>
        simp only [parse0, parse]
        have hm1 : AbsM bs { m0 with trk := { m0.trk with positive := false } }
            { m with trk := { m.trk with positive := false } } := AbsM.mk' hm.1 (by rw [hm.2])
        rel_cases (ihc inh n i0 i _ _ hi hb hm1)
        · trivial
        · exact ⟨hi, hb, AbsM.mk' hm.1 (by rw [hm'.2, hm.2]), rfl⟩
        · exact AbsM.mk' hm.1 (by rw [hm'.2, hm.2])
      | push n =>
        simp only [parse0, parse]
        rel_cases (ihp inh n i0 i m0 m hi hb hm)
        · trivial
        · exact hm'
        · have hadv := parse_adv g uni fuel inh n _ _ _ _ _ h1
          simp only [span0_ok hi hi' (hb'.trans hb.symm) hadv, P.andThen]
          exact ⟨hi', hb', AbsM.mk' (StkAbs.cons (hb ▸ SpOK_spanTo hi hadv) hm'.1) hm'.2, rfl⟩
      | peek =>
        simp only [parse0, parse]
        obtain ⟨hst, hok⟩ := hm.1
        cases hs : m.stk with
        | nil =>
          rw [hs] at hst
          simp only [hst, List.map_nil, emptyStack0_ok hi, hm.2, P.andThen]
          exact ⟨StkAbs.nil bs, rfl⟩
        | cons sp rest =>
          rw [hs] at hst hok
          have hsp := spanAsStr_ok (hok sp List.mem_cons_self)
          obtain ⟨r, hr, ho⟩ := matchString0_simB hi sp.txt
          rcases ho.elim with ⟨rfl, hs1⟩ | ⟨a, b, rfl, hs1, ha, hab⟩
          · simp only [hst, List.map_cons, offs, hb, hsp, hr, hs1, P.andThen]
            exact hm
          · simp only [hst, List.map_cons, offs, hb, hsp, hr, hs1, P.andThen,
              spanText0_ok hi ha hab (Inp.matchString_adv hs1)]
            exact ⟨ha, hab.trans hb, hm, rfl⟩
      | peekAll =>
        obtain ⟨r, hr, ho⟩ := peekSpans0_simB (stk := m.stk) hi (by rw [hb]; exact hm.1)
        rcases ho.elim with ⟨rfl, hs1⟩ | ⟨a, b, rfl, hs1, ha, hab⟩
        · simp only [parse0, parse, hr, hs1, P.andThen]; exact hm
        · simp only [parse0, parse, hr, hs1, P.andThen, spanText0_ok hi ha hab (peekSpans_adv _ _ _ hs1)]
          exact ⟨ha, hab.trans hb, hm, rfl⟩
      | pop =>
        simp only [parse0, parse]
        obtain ⟨hst, hok⟩ := hm.1
        cases hs : m.stk with
        | nil =>
          rw [hs] at hst
          simp only [hst, List.map_nil, emptyStack0_ok hi, hm.2, P.andThen]
          exact ⟨StkAbs.nil bs, rfl⟩
        | cons sp rest =>
          rw [hs] at hst hok
          have hsp := spanAsStr_ok (hok sp List.mem_cons_self)
          have hrest : StkAbs bs (rest.map offs) rest := ⟨rfl, fun x hx => hok x (List.mem_cons_of_mem _ hx)⟩
          obtain ⟨r, hr, ho⟩ := matchString0_simB hi sp.txt
          rcases ho.elim with ⟨rfl, hs1⟩ | ⟨a, b, rfl, hs1, ha, hab⟩ <;>
            simp only [hst, List.map_cons, offs, hb, hsp, hr, hs1, P.andThen, dec_enc]
          · exact ⟨hrest, hm.2⟩
          · exact ⟨ha, hab.trans hb, ⟨hrest, hm.2⟩, rfl⟩
      | popAll =>
        obtain ⟨r, hr, ho⟩ := peekSpans0_simB (stk := m.stk) hi (by rw [hb]; exact hm.1)
        rcases ho.elim with ⟨rfl, hs1⟩ | ⟨a, b, rfl, hs1, ha, hab⟩
        · simp only [parse0, parse, hr, hs1, P.andThen]; exact hm
        · simp only [parse0, parse, hr, hs1, P.andThen, spanText0_ok hi ha hab (peekSpans_adv _ _ _ hs1)]
          exact ⟨ha, hab.trans hb, ⟨StkAbs.nil bs, hm.2⟩, rfl⟩
      | drop =>
        simp only [parse0, parse]
        obtain ⟨hst, hok⟩ := hm.1
        cases hs : m.stk with
        | nil =>
          rw [hs] at hst
          simp only [hst, List.map_nil, emptyStack0_ok hi, hm.2, P.andThen]
          exact ⟨StkAbs.nil bs, rfl⟩
        | cons sp rest =>
          rw [hs] at hst hok
          have hrest : StkAbs bs (rest.map offs) rest := ⟨rfl, fun x hx => hok x (List.mem_cons_of_mem _ hx)⟩
          simp only [hst, List.map_cons]
          exact ⟨hi, hb, ⟨hrest, hm.2⟩, rfl⟩
      | peekSlice a b =>
        simp only [parse0, parse, hm.1.length]
        cases hc : constrainIdxs a b m.stk.length with
        | none =>
          simp only [outOfBound0_ok hi, hm.2, P.andThen]
          exact ⟨hm.1, rfl⟩
        | some p =>
          obtain ⟨lo, hi2⟩ := p
          simp only []
          split
          · exact ⟨hi, hb, hm, rfl⟩
          · obtain ⟨r, hr, ho⟩ := peekSpans0_simB (stk := stackSlice m.stk lo hi2) hi
              (by rw [hb]; exact hm.1.slice lo hi2)
            rcases ho.elim with ⟨rfl, hs1⟩ | ⟨x, y, rfl, hs1, ha, hab⟩ <;> simp only [hr, hs1, P.andThen]
            · exact hm
            · exact ⟨ha, hab.trans hb, hm, rfl⟩
      | ref r f =>
        simp only [parse0, parse]
        cases hd : g.rule? r with
        | none => exact hm
        | some d =>
          simp only []
          have hm1 : AbsM bs { m0 with trk := m0.trk.enter r i0.pos } { m with trk := m.trk.enter r i.pos } :=
            AbsM.mk' hm.1 (by rw [hm.2, hi.pos_eq])
          cases he : d.emit with
          | expression =>
            simp only []
            rel_cases (ihp (f.eval inh) d.body i0 i m0 m hi hb hm)
            · trivial
            · exact hm'
            · exact ⟨hi', hb', hm', by rw [hi.pos_eq, hi'.pos_eq]⟩
          | span =>
            simp only []
            rel_cases (ihc (f.eval inh) d.body i0 i _ _ hi hb hm1)
            · trivial
            · simp only [leave0_ok hi, P.andThen, hm'.2]; exact ⟨hm'.1, rfl⟩
            · have hadv := check_adv g uni fuel (f.eval inh) d.body _ _ _ _ _ h1
              simp only [span0_ok hi hi' (hb'.trans hb.symm) hadv, leave0_ok hi, P.andThen, hm'.2]
              exact ⟨hi', hb', ⟨hm'.1, rfl⟩, rfl⟩
          | both =>
            simp only []
            rel_cases (ihp (f.eval inh) d.body i0 i _ _ hi hb hm1)
            · trivial
            · simp only [leave0_ok hi, P.andThen, hm'.2]; exact ⟨hm'.1, rfl⟩
            · have hadv := parse_adv g uni fuel (f.eval inh) d.body _ _ _ _ _ h1
              simp only [span0_ok hi hi' (hb'.trans hb.symm) hadv, leave0_ok hi, P.andThen, hm'.2]
              exact ⟨hi', hb', ⟨hm'.1, rfl⟩, rfl⟩
      | array k n =>
        simp only [parse0, parse]
        rel_cases (arrayTryInto_rel0 k (arrayLoop_rel0 (ihp inh n) k i0 i m0 m [] hi hb hm))
        · trivial
        · exact hm'
        · exact ⟨hi', hb', hm', rfl⟩
      | pair x y =>
        simp only [parse0, parse]
        rel_cases (ihp inh x i0 i m0 m hi hb hm)
        · trivial
        · exact hm'
        · simp only []
          rel_cases (ihp inh y i0' i' m0' m' hi' hb' hm')
          · trivial
          · exact hm'
          · exact ⟨hi', hb', hm', rfl⟩
      | empty => simp only [parse0, parse]; exact ⟨hi, hb, hm, rfl⟩
      | alwaysFail => simp only [parse0, parse]; exact hm


theorem check0_rel0 (checked : Bool) (g : NodeGrammar) (uni : Uni) (bs : List UInt8) (fuel : Nat) (inh : Bool)
    (node : Node) : FnRel0 bs (check0 checked g uni fuel inh node) (check g uni fuel inh node) :=
  (parse0_check0_rel0 checked g uni bs fuel).1 inh node

theorem parse0_rel0 (checked : Bool) (g : NodeGrammar) (uni : Uni) (bs : List UInt8) (fuel : Nat) (inh : Bool)
    (node : Node) : FnRel0 bs (parse0 checked g uni fuel inh node) (parse g uni fuel inh node) :=
  (parse0_check0_rel0 checked g uni bs fuel).2 inh node

/-! ### entry points -/

theorem M0_init_ok {i0 : Inp0} {i : Inp} (h : Abs i0 i) (checked : Bool) :
    M0.init checked i0 = .ok ⟨[], Tracker.new i⟩ := by
  unfold M0.init; rw [trackerNew0_ok h]; rfl

theorem AbsM_init (bs : List UInt8) (i : Inp) : AbsM bs ⟨[], Tracker.new i⟩ (M.init i) := ⟨StkAbs.nil bs, rfl⟩

theorem eoiStep0_ok {i0 : Inp0} {i : Inp} (h : Abs i0 i) (checked : Bool) (m0 : M0) :
    eoiStep0 checked i0 m0 =
      .ok ({ m0 with trk := (m0.trk.enter 0 i.pos).leave 0 i.pos i.atEnd }, i.atEnd) := by
  unfold eoiStep0
  simp only [leave0_ok h, h.atEnd, h.pos_eq, P.bind]

theorem eoiStep_eq (i : Inp) (m : M) :
    eoiStep i m = ({ m with trk := (m.trk.enter 0 i.pos).leave 0 i.pos i.atEnd }, i.atEnd) := rfl

theorem tryParsePartial0_rel0 (checked : Bool) (g : NodeGrammar) (uni : Uni) (fuel : Nat) (r : RuleId)
    {i0 : Inp0} {i : Inp} (h : Abs i0 i) :
    Rel0 i0.bytes (tryParsePartial0 checked g uni fuel r i0) (tryParsePartial g uni fuel r i) := by
  unfold tryParsePartial0 tryParsePartial
  rw [M0_init_ok h]
  exact parse0_rel0 checked g uni _ fuel true _ i0 i _ _ h rfl (AbsM_init _ i)

theorem tryCheckPartial0_rel0 (checked : Bool) (g : NodeGrammar) (uni : Uni) (fuel : Nat) (r : RuleId)
    {i0 : Inp0} {i : Inp} (h : Abs i0 i) :
    Rel0 i0.bytes (tryCheckPartial0 checked g uni fuel r i0) (tryCheckPartial g uni fuel r i) := by
  unfold tryCheckPartial0 tryCheckPartial
  rw [M0_init_ok h]
  exact check0_rel0 checked g uni _ fuel true _ i0 i _ _ h rfl (AbsM_init _ i)

theorem tryParse0_rel0 (checked : Bool) (g : NodeGrammar) (uni : Uni) (fuel : Nat) (r : RuleId)
    {i0 : Inp0} {i : Inp} (h : Abs i0 i) :
    Rel0 i0.bytes (tryParse0 checked g uni fuel r i0) (tryParse g uni fuel r i) := by
  unfold tryParse0 tryParse
  rw [M0_init_ok h]
  simp only [P.andThen]
  cases hd : g.rule? r with
  | none => exact AbsM_init _ i
  | some d =>
    simp only []
    rel_cases (parse0_rel0 checked g uni _ fuel true (.ref r .one) i0 i _ _ h rfl (AbsM_init _ i))
    · trivial
    · exact hm'
    · simp only []
      split
      · rw [eoiStep0_ok hi', eoiStep_eq]; simp only [hm'.2]
        by_cases hae : i'.atEnd = true
        · rw [if_pos hae, if_pos hae]; exact ⟨hi', hb', ⟨hm'.1, rfl⟩, rfl⟩
        · rw [if_neg hae, if_neg hae]; exact ⟨hm'.1, rfl⟩
      · rel_cases (parse0_rel0 checked g uni _ fuel false g.skipped i0' i' m0' m' hi' hb' hm')
        · trivial
        · exact hm'
        · simp only []
          rw [eoiStep0_ok hi', eoiStep_eq]; simp only [hm'.2]
          by_cases hae : i'.atEnd = true
          · rw [if_pos hae, if_pos hae]; exact ⟨hi', hb', ⟨hm'.1, rfl⟩, rfl⟩
          · rw [if_neg hae, if_neg hae]; exact ⟨hm'.1, rfl⟩

theorem tryCheck0_rel0 (checked : Bool) (g : NodeGrammar) (uni : Uni) (fuel : Nat) (r : RuleId)
    {i0 : Inp0} {i : Inp} (h : Abs i0 i) :
    Rel0 i0.bytes (tryCheck0 checked g uni fuel r i0) (tryCheck g uni fuel r i) := by
  unfold tryCheck0 tryCheck
  rw [M0_init_ok h]
  simp only [P.andThen]
  cases hd : g.rule? r with
  | none => exact AbsM_init _ i
  | some d =>
    simp only []
    rel_cases (check0_rel0 checked g uni _ fuel true (.ref r .one) i0 i _ _ h rfl (AbsM_init _ i))
    · trivial
    · exact hm'
    · simp only []
      split
      · rw [eoiStep0_ok hi', eoiStep_eq]; simp only [hm'.2]
        by_cases hae : i'.atEnd = true
        · rw [if_pos hae, if_pos hae]; exact ⟨hi', hb', ⟨hm'.1, rfl⟩, rfl⟩
        · rw [if_neg hae, if_neg hae]; exact ⟨hm'.1, rfl⟩
      · rel_cases (check0_rel0 checked g uni _ fuel false g.skipped i0' i' m0' m' hi' hb' hm')
        · trivial
        · exact hm'
        · simp only []
          rw [eoiStep0_ok hi', eoiStep_eq]; simp only [hm'.2]
          by_cases hae : i'.atEnd = true
          · rw [if_pos hae, if_pos hae]; exact ⟨hi', hb', ⟨hm'.1, rfl⟩, rfl⟩
          · rw [if_neg hae, if_neg hae]; exact ⟨hm'.1, rfl⟩

/-- A character cursor and the byte string determine the byte cursor that represents it. -/
theorem Abs.inj {i0 i0' : Inp0} {i : Inp} (h : Abs i0 i) (h' : Abs i0' i) (hb : i0.bytes = i0'.bytes) :
    i0 = i0' := by
  obtain ⟨pre, _, hp, he, hpos, hst⟩ := h
  obtain ⟨pre', _, hp', he', hpos', hst'⟩ := h'
  cases i0; cases i0'
  simp only [Inp0.mk.injEq] at *
  exact ⟨hb, by omega, by omega, by omega⟩

theorem AbsM.inj {bs : List UInt8} {m0 m0' : M0} {m : M} (h : AbsM bs m0 m) (h' : AbsM bs m0' m) : m0 = m0' := by
  obtain ⟨⟨h1, _⟩, h2⟩ := h
  obtain ⟨⟨h1', _⟩, h2'⟩ := h'
  cases m0; cases m0'
  simp only [M0.mk.injEq] at *
  exact ⟨h1.trans h1'.symm, h2.trans h2'.symm⟩

/-- The relation is functional from right to left: the L1 result (and the byte string) determine the
byte-level result. -/
theorem Rel0.inj {α} {bs : List UInt8} {r0 r0' : R0 α} {r : R α} (h : Rel0 bs r0 r) (h' : Rel0 bs r0' r) :
    r0 = r0' := by
  rcases h.cases with ⟨h0, h1⟩ | ⟨m0, m, h0, h1, hm⟩ | ⟨i0, i, m0, m, a, h0, h1, hi, hb, hm⟩ <;> subst h0 h1
  · cases r0' <;> first | rfl | exact h'.elim
  · cases r0' <;> first | exact h'.elim | skip
    rw [AbsM.inj hm h']
  · cases r0' <;> first | exact h'.elim | skip
    obtain ⟨hi', hb', hm', hv⟩ := h'
    rw [Abs.inj hi hi' (hb.trans hb'.symm), AbsM.inj hm hm', hv]

end PestTyped
