/-
Lemmas.PestOptTokMono — fuel monotonicity of the token semantics `specTok` (`Model/SpecTokens.lean`)
and of its loops, the token analogue of section 1 of `Lemmas/SpecDen.lean`:
  `TLe` (definite-extension order on `STR`-valued functions), `tokStop`, the step equations of
  `specTokRepLoop` (`specTokRepLoop_maxed/_oof/_fail/_ok`), `specTokRepLoop_mono`, `specTokSkipUnit_mono`,
  `specTokSkip_mono`, the named iteration `specTokRepUnit` of `specTokRepWith` (`specTokRepWith_eq`),
  `specTokRepWith_mono`, `specTok_succ`, `specTok_le`, `specTok_lift`; the accumulator of the loop is a
  prefix (`specTokRepLoop_acc`); `*`-loops never fail (`specTokRepLoop_star_ne_fail`).
Foundation of the token-level optimizer theorems (`Props/C20OptTok.lean`).
-/
import PestTyped.Lemmas.SpecDen
import PestTyped.Model.SpecTokens
set_option linter.unusedVariables false
namespace PestTyped

/-- `f'` agrees with `f` wherever `f` has a definite answer. -/
def TLe (f f' : Inp → List Sp → STR) : Prop := ∀ i S, f i S ≠ .oof → f' i S = f i S

theorem TLe.eq_of {f f' : Inp → List Sp → STR} (h : TLe f f') {i : Inp} {S : List Sp} {r : STR}
    (hr : f i S = r) (hne : r ≠ .oof) : f' i S = r := by
  rw [← hr] at hne ⊢; exact h i S hne

theorem TLe.refl (f : Inp → List Sp → STR) : TLe f f := fun _ _ _ => rfl

theorem TLe.trans {f f' f'' : Inp → List Sp → STR} (h : TLe f f') (h' : TLe f' f'') : TLe f f'' := by
  intro i S hne
  have h1 := h i S hne
  rw [← h1] at hne ⊢
  exact h' i S hne

theorem TLe.of_succ {T : Nat → Inp → List Sp → STR} (h : ∀ n, TLe (T n) (T (n+1))) :
    ∀ n m, n ≤ m → TLe (T n) (T m) := by
  intro n m hle
  induction m with
  | zero =>
    have : n = 0 := by omega
    subst this; exact TLe.refl _
  | succ m ih =>
    by_cases hm : n = m + 1
    · subst hm; exact TLe.refl _
    · exact (ih (by omega)).trans (h m)

/-- Prefix the tokens of a successful answer. -/
def STR.pfx (t : List Token) : STR → STR
  | .oof => .oof
  | .fail => .fail
  | .ok i S ts => .ok i S (t ++ ts)

@[simp] theorem STR.pfx_oof (t : List Token) : STR.pfx t .oof = .oof := rfl
@[simp] theorem STR.pfx_fail (t : List Token) : STR.pfx t .fail = .fail := rfl
@[simp] theorem STR.pfx_ok (t : List Token) (i : Inp) (S : List Sp) (ts : List Token) :
    STR.pfx t (.ok i S ts) = .ok i S (t ++ ts) := rfl
@[simp] theorem STR.pfx_nil (r : STR) : STR.pfx [] r = r := by cases r <;> simp [STR.pfx]
theorem STR.pfx_pfx (a b : List Token) (r : STR) : STR.pfx a (STR.pfx b r) = STR.pfx (a ++ b) r := by
  cases r <;> simp [STR.pfx, List.append_assoc]
theorem STR.pfx_eq_oof {t : List Token} {r : STR} : STR.pfx t r = .oof ↔ r = .oof := by
  cases r <;> simp [STR.pfx]

/-- The answer of `specTokRepLoop` when it stops at iteration `idx`. -/
def tokStop (min idx : Nat) (i : Inp) (S : List Sp) (acc : List Token) : STR :=
  if idx < min then .fail else .ok i S acc

theorem tokStop_ne_oof (min idx : Nat) (i : Inp) (S : List Sp) (acc : List Token) :
    tokStop min idx i S acc ≠ .oof := by
  unfold tokStop; split <;> nofun

theorem tokStop_acc (min idx : Nat) (i : Inp) (S : List Sp) (acc : List Token) :
    tokStop min idx i S acc = STR.pfx acc (tokStop min idx i S []) := by
  unfold tokStop; split <;> simp

theorem specTokRepLoop_zero (u : Nat → Inp → List Sp → STR) (min : Nat) (max : Option Nat) (idx : Nat)
    (i : Inp) (S : List Sp) (acc : List Token) : specTokRepLoop u min max 0 idx i S acc = .oof := rfl

theorem specTokRepLoop_maxed {u : Nat → Inp → List Sp → STR} {min : Nat} {max : Option Nat} {idx : Nat}
    (b : Nat) (i : Inp) (S : List Sp) (acc : List Token) (h : max = some idx) :
    specTokRepLoop u min max (b+1) idx i S acc = tokStop min idx i S acc := by
  simp only [specTokRepLoop, h, if_true, tokStop]

theorem specTokRepLoop_oof {u : Nat → Inp → List Sp → STR} {min : Nat} {max : Option Nat} {idx : Nat}
    (b : Nat) {i : Inp} {S : List Sp} (acc : List Token) (h : max ≠ some idx) (hu : u idx i S = .oof) :
    specTokRepLoop u min max (b+1) idx i S acc = .oof := by
  simp only [specTokRepLoop, h, if_false, hu]

theorem specTokRepLoop_fail {u : Nat → Inp → List Sp → STR} {min : Nat} {max : Option Nat} {idx : Nat}
    (b : Nat) {i : Inp} {S : List Sp} (acc : List Token) (h : max ≠ some idx) (hu : u idx i S = .fail) :
    specTokRepLoop u min max (b+1) idx i S acc = tokStop min idx i S acc := by
  simp only [specTokRepLoop, h, if_false, hu, tokStop]

theorem specTokRepLoop_ok {u : Nat → Inp → List Sp → STR} {min : Nat} {max : Option Nat} {idx : Nat}
    (b : Nat) {i : Inp} {S : List Sp} (acc : List Token) {i' : Inp} {S' : List Sp} {ts : List Token}
    (h : max ≠ some idx) (hu : u idx i S = .ok i' S' ts) :
    specTokRepLoop u min max (b+1) idx i S acc = specTokRepLoop u min max b (idx+1) i' S' (acc ++ ts) := by
  simp only [specTokRepLoop, h, if_false, hu]

/-- Loop monotonicity: a unit that agrees wherever the old one is definite, a larger budget. -/
theorem specTokRepLoop_mono {u u' : Nat → Inp → List Sp → STR} (hu : ∀ idx, TLe (u idx) (u' idx))
    (min : Nat) (max : Option Nat) :
    ∀ b b' idx, b ≤ b' → ∀ i S acc, specTokRepLoop u min max b idx i S acc ≠ .oof →
      specTokRepLoop u' min max b' idx i S acc = specTokRepLoop u min max b idx i S acc := by
  intro b
  induction b with
  | zero => intro b' idx _ i S acc hne; exact absurd rfl hne
  | succ b ih =>
    intro b' idx hb i S acc hne
    cases b' with
    | zero => omega
    | succ b' =>
      by_cases hmax : max = some idx
      · rw [specTokRepLoop_maxed _ _ _ _ hmax, specTokRepLoop_maxed _ _ _ _ hmax]
      · cases hr : u idx i S with
        | oof => rw [specTokRepLoop_oof _ _ hmax hr] at hne; exact absurd rfl hne
        | fail =>
          rw [specTokRepLoop_fail _ _ hmax hr, specTokRepLoop_fail _ _ hmax ((hu idx).eq_of hr nofun)]
        | ok i' S' ts =>
          rw [specTokRepLoop_ok _ _ hmax hr] at hne ⊢
          rw [specTokRepLoop_ok _ _ hmax ((hu idx).eq_of hr nofun)]
          exact ih b' _ (by omega) _ _ _ hne

/-- The accumulator is a prefix of the answer. -/
theorem specTokRepLoop_acc (u : Nat → Inp → List Sp → STR) (min : Nat) (max : Option Nat) :
    ∀ b idx i S acc, specTokRepLoop u min max b idx i S acc
      = STR.pfx acc (specTokRepLoop u min max b idx i S []) := by
  intro b
  induction b with
  | zero => intros; rfl
  | succ b ih =>
    intro idx i S acc
    by_cases hmax : max = some idx
    · rw [specTokRepLoop_maxed _ _ _ _ hmax, specTokRepLoop_maxed _ _ _ _ hmax]; exact tokStop_acc _ _ _ _ _
    · cases hr : u idx i S with
      | oof => rw [specTokRepLoop_oof _ _ hmax hr, specTokRepLoop_oof _ _ hmax hr]; rfl
      | fail =>
        rw [specTokRepLoop_fail _ _ hmax hr, specTokRepLoop_fail _ _ hmax hr]; exact tokStop_acc _ _ _ _ _
      | ok i' S' ts =>
        rw [specTokRepLoop_ok _ _ hmax hr, specTokRepLoop_ok _ _ hmax hr, ih _ _ _ (acc ++ ts),
          ih _ _ _ ([] ++ ts), STR.pfx_pfx, List.nil_append]

/-- A `*`-loop (`min = 0`, no `max`) never fails. -/
theorem specTokRepLoop_star_ne_fail (u : Nat → Inp → List Sp → STR) :
    ∀ b idx i S acc, specTokRepLoop u 0 none b idx i S acc ≠ .fail := by
  intro b
  induction b with
  | zero => intro idx i S acc; rw [specTokRepLoop_zero]; nofun
  | succ b ih =>
    intro idx i S acc
    have hmax : (none : Option Nat) ≠ some idx := nofun
    cases hr : u idx i S with
    | oof => rw [specTokRepLoop_oof _ _ hmax hr]; nofun
    | fail => rw [specTokRepLoop_fail _ _ hmax hr]; simp only [tokStop, Nat.not_lt_zero, if_false]; nofun
    | ok i' S' ts => rw [specTokRepLoop_ok _ _ hmax hr]; exact ih _ _ _ _

theorem specTokSkipUnit_mono {call call' : String → Inp → List Sp → STR}
    (h : ∀ nm, TLe (call nm) (call' nm)) (hasW hasC : Bool) :
    TLe (specTokSkipUnit call hasW hasC) (specTokSkipUnit call' hasW hasC) := by
  intro i S hne
  unfold specTokSkipUnit at hne ⊢
  cases hasW with
  | false =>
    simp only [Bool.false_eq_true, if_false] at hne ⊢
    cases hasC with
    | false => rfl
    | true => simp only [if_true] at hne ⊢; exact h _ i S hne
  | true =>
    simp only [if_true] at hne ⊢
    cases hr : call "WHITESPACE" i S with
    | oof => rw [hr] at hne; exact absurd rfl hne
    | ok i' S' ts => rw [(h _).eq_of hr nofun]
    | fail =>
      rw [hr] at hne
      rw [(h _).eq_of hr nofun]
      cases hasC with
      | false => rfl
      | true => simp only [if_true] at hne ⊢; exact h _ i S hne

theorem specTokSkip_mono {call call' : PExpr → Inp → List Sp → STR} (h : ∀ e, TLe (call e) (call' e))
    (hasW hasC : Bool) {b b' : Nat} (hb : b ≤ b') :
    TLe (specTokSkip call hasW hasC b) (specTokSkip call' hasW hasC b') := by
  intro i S hne
  unfold specTokSkip at hne ⊢
  exact specTokRepLoop_mono
    (u := fun _ i S => specTokSkipUnit (fun nm i S => call (.ident nm) i S) hasW hasC i S)
    (u' := fun _ i S => specTokSkipUnit (fun nm i S => call' (.ident nm) i S) hasW hasC i S)
    (fun _ => specTokSkipUnit_mono (fun nm => h (.ident nm)) hasW hasC) 0 none b b' 0 hb i S [] hne

theorem specTokSkip_ne_fail (call : PExpr → Inp → List Sp → STR) (hasW hasC : Bool) (b : Nat) (i : Inp)
    (S : List Sp) : specTokSkip call hasW hasC b i S ≠ .fail := by
  unfold specTokSkip; exact specTokRepLoop_star_ne_fail _ _ _ _ _ _

/-- After a skip, run `k` and put the skip's tokens in front. -/
def STR.andThen (r : STR) (k : Inp → List Sp → STR) : STR :=
  match r with
  | .oof => .oof
  | .fail => .fail
  | .ok i S ts => STR.pfx ts (k i S)

@[simp] theorem STR.andThen_oof (k : Inp → List Sp → STR) : STR.andThen .oof k = .oof := rfl
@[simp] theorem STR.andThen_fail (k : Inp → List Sp → STR) : STR.andThen .fail k = .fail := rfl
@[simp] theorem STR.andThen_ok (i : Inp) (S : List Sp) (ts : List Token) (k : Inp → List Sp → STR) :
    STR.andThen (.ok i S ts) k = STR.pfx ts (k i S) := rfl

/-- The iteration function of `specTokRepWith`, named (skip budget `bs` instead of `atomicBudget n`). -/
def specTokRepUnit (sp : Atom3 → PExpr → Inp → List Sp → STR) (bs : Nat) (hasW hasC : Bool) (am : Atom3)
    (e : PExpr) (idx : Nat) (i : Inp) (S : List Sp) : STR :=
  if idx = 0 ∨ !am.na then sp am e i S
  else STR.andThen (specTokSkip (sp .nonAtomic) hasW hasC bs i S) (sp am e)

theorem specTokRepWith_eq (sp : Atom3 → PExpr → Inp → List Sp → STR) (n : Nat) (hasW hasC : Bool) (am : Atom3)
    (e : PExpr) (min : Nat) (max : Option Nat) (i : Inp) (S : List Sp) :
    specTokRepWith sp n hasW hasC am e min max i S
      = specTokRepLoop (specTokRepUnit sp (atomicBudget n) hasW hasC am e) min max n 0 i S [] := rfl

theorem STR.andThen_mono {r : STR} {k k' : Inp → List Sp → STR} (hk : TLe k k')
    (hne : STR.andThen r k ≠ .oof) : STR.andThen r k' = STR.andThen r k := by
  cases r with
  | oof => rfl
  | fail => rfl
  | ok i S ts =>
    simp only [STR.andThen_ok] at hne ⊢
    rw [hk i S (fun h => hne (by rw [h]; rfl))]

theorem specTokRepUnit_mono {sp sp' : Atom3 → PExpr → Inp → List Sp → STR}
    (h : ∀ am e, TLe (sp am e) (sp' am e)) {bs bs' : Nat} (hb : bs ≤ bs') (hasW hasC : Bool) (am : Atom3)
    (e : PExpr) (idx : Nat) :
    TLe (specTokRepUnit sp bs hasW hasC am e idx) (specTokRepUnit sp' bs' hasW hasC am e idx) := by
  intro i S hne
  unfold specTokRepUnit at hne ⊢
  by_cases h0 : idx = 0 ∨ (!am.na) = true
  · simp only [h0, if_true] at hne ⊢; exact h am e i S hne
  · simp only [h0, if_false] at hne ⊢
    have hs := specTokSkip_mono (h .nonAtomic) hasW hasC hb
    cases hr : specTokSkip (sp .nonAtomic) hasW hasC bs i S with
    | oof => rw [hr] at hne; exact absurd rfl hne
    | fail => rw [hs.eq_of hr nofun]; rfl
    | ok i1 S1 t1 =>
      rw [hr] at hne
      rw [hs.eq_of hr nofun]
      exact STR.andThen_mono (h am e) hne

theorem specTokRepWith_mono {sp sp' : Atom3 → PExpr → Inp → List Sp → STR}
    (h : ∀ am e, TLe (sp am e) (sp' am e)) {n n' : Nat} (hn : n ≤ n') (hasW hasC : Bool) (am : Atom3)
    (e : PExpr) (min : Nat) (max : Option Nat) :
    TLe (specTokRepWith sp n hasW hasC am e min max) (specTokRepWith sp' n' hasW hasC am e min max) := by
  intro i S hne
  rw [specTokRepWith_eq] at hne ⊢
  rw [specTokRepWith_eq]
  exact specTokRepLoop_mono
    (fun idx => specTokRepUnit_mono h (SpecDen.atomicBudget_le hn) hasW hasC am e idx) min max n n' 0 hn i S [] hne

/-- One more unit of fuel does not change a definite answer of `specTok`. -/
theorem specTok_succ (g : PGrammar) (uni : Uni) :
    ∀ (n : Nat) (am : Atom3) (e : PExpr), TLe (specTok g uni n am e) (specTok g uni (n+1) am e) := by
  intro n
  induction n with
  | zero => intro am e i S hne; exact absurd (by cases e <;> rfl) hne
  | succ n ih =>
    intro am e i S hne
    have hrep : ∀ (am : Atom3) (e : PExpr) (min : Nat) (max : Option Nat),
        TLe (specTokRepWith (specTok g uni n) n (g.defines "WHITESPACE") (g.defines "COMMENT") am e min max)
          (specTokRepWith (specTok g uni (n+1)) (n+1) (g.defines "WHITESPACE") (g.defines "COMMENT") am e min max) :=
      fun am e min max => specTokRepWith_mono ih (Nat.le_succ n) _ _ am e min max
    cases e with
    | str s => simp only [specTok]
    | insens s => simp only [specTok]
    | range lo hi => simp only [specTok]
    | peekSlice a b => simp only [specTok]
    | skip needles => simp only [specTok]
    | ident name =>
      simp only [specTok] at hne ⊢
      cases hf : g.find? name with
      | none => rfl
      | some r =>
        rw [hf] at hne
        simp only at hne ⊢
        cases hr : specTok g uni n (bodyAt name r.kind am) r.expr i S with
        | oof => rw [hr] at hne; exact absurd rfl hne
        | fail => rw [(ih _ _).eq_of hr nofun]
        | ok i' S' ts => rw [(ih _ _).eq_of hr nofun]
    | posPred e =>
      simp only [specTok] at hne ⊢
      cases hr : specTok g uni n am e i S with
      | oof => rw [hr] at hne; exact absurd rfl hne
      | fail => rw [(ih am e).eq_of hr nofun]
      | ok i' S' ts => rw [(ih am e).eq_of hr nofun]
    | negPred e =>
      simp only [specTok] at hne ⊢
      cases hr : specTok g uni n am e i S with
      | oof => rw [hr] at hne; exact absurd rfl hne
      | fail => rw [(ih am e).eq_of hr nofun]
      | ok i' S' ts => rw [(ih am e).eq_of hr nofun]
    | push e =>
      simp only [specTok] at hne ⊢
      cases hr : specTok g uni n am e i S with
      | oof => rw [hr] at hne; exact absurd rfl hne
      | fail => rw [(ih am e).eq_of hr nofun]
      | ok i' S' ts => rw [(ih am e).eq_of hr nofun]
    | opt e =>
      simp only [specTok] at hne ⊢
      cases hr : specTok g uni n am e i S with
      | oof => rw [hr] at hne; exact absurd rfl hne
      | fail => rw [(ih am e).eq_of hr nofun]
      | ok i' S' ts => rw [(ih am e).eq_of hr nofun]
    | restoreOnErr e =>
      simp only [specTok] at hne ⊢
      exact ih am e i S hne
    | choice a b =>
      simp only [specTok] at hne ⊢
      cases hr : specTok g uni n am a i S with
      | oof => rw [hr] at hne; exact absurd rfl hne
      | ok i' S' ts => rw [(ih am a).eq_of hr nofun]
      | fail =>
        rw [hr] at hne
        rw [(ih am a).eq_of hr nofun]
        exact ih am b i S hne
    | seq a b =>
      simp only [specTok] at hne ⊢
      cases hr : specTok g uni n am a i S with
      | oof => rw [hr] at hne; exact absurd rfl hne
      | fail => rw [(ih am a).eq_of hr nofun]
      | ok i1 S1 t1 =>
        rw [hr] at hne
        rw [(ih am a).eq_of hr nofun]
        simp only at hne ⊢
        cases hna : am.na with
        | true =>
          simp only [hna, if_true] at hne ⊢
          have hs := specTokSkip_mono (ih .nonAtomic) (g.defines "WHITESPACE") (g.defines "COMMENT")
            (SpecDen.atomicBudget_le (Nat.le_succ n))
          cases hr2 : specTokSkip (specTok g uni n .nonAtomic) (g.defines "WHITESPACE") (g.defines "COMMENT")
              (atomicBudget n) i1 S1 with
          | oof => rw [hr2] at hne; exact absurd rfl hne
          | fail => rw [hs.eq_of hr2 nofun]
          | ok i2 S2 t2 =>
            rw [hr2] at hne
            rw [hs.eq_of hr2 nofun]
            simp only at hne ⊢
            cases hr3 : specTok g uni n am b i2 S2 with
            | oof => rw [hr3] at hne; exact absurd rfl hne
            | fail => rw [(ih am b).eq_of hr3 nofun]
            | ok i3 S3 t3 => rw [(ih am b).eq_of hr3 nofun]
        | false =>
          simp only [hna, Bool.false_eq_true, if_false] at hne ⊢
          cases hr3 : specTok g uni n am b i1 S1 with
          | oof => rw [hr3] at hne; exact absurd rfl hne
          | fail => rw [(ih am b).eq_of hr3 nofun]
          | ok i3 S3 t3 => rw [(ih am b).eq_of hr3 nofun]
    | rep e => simp only [specTok] at hne ⊢; exact hrep am e _ _ i S hne
    | repOnce e => simp only [specTok] at hne ⊢; exact hrep am e _ _ i S hne
    | repExact e k => simp only [specTok] at hne ⊢; exact hrep am e _ _ i S hne
    | repMin e k => simp only [specTok] at hne ⊢; exact hrep am e _ _ i S hne
    | repMax e k => simp only [specTok] at hne ⊢; exact hrep am e _ _ i S hne
    | repMinMax e k l => simp only [specTok] at hne ⊢; exact hrep am e _ _ i S hne

theorem specTok_zero (g : PGrammar) (uni : Uni) (am : Atom3) (e : PExpr) (i : Inp) (S : List Sp) :
    specTok g uni 0 am e i S = .oof := by
  cases e <;> rfl

theorem specTok_le (g : PGrammar) (uni : Uni) {n m : Nat} (h : n ≤ m) (am : Atom3) (e : PExpr) :
    TLe (specTok g uni n am e) (specTok g uni m am e) :=
  TLe.of_succ (T := fun n => specTok g uni n am e) (fun n => specTok_succ g uni n am e) n m h

/-- A definite answer at fuel `n` is the answer at every `m ≥ n`. -/
theorem specTok_lift {g : PGrammar} {uni : Uni} {n m : Nat} {am : Atom3} {e : PExpr} {i : Inp} {S : List Sp}
    {r : STR} (hr : specTok g uni n am e i S = r) (hne : r ≠ .oof) (h : n ≤ m) : specTok g uni m am e i S = r :=
  (specTok_le g uni h am e).eq_of hr hne

end PestTyped
