/-
Model.Node — deep embedding of the type expressions the generator emits (and that a user can
write by hand from the runtime generics), of rule definitions as passed to `rule!`, and of the
values the runtime builds.

Mirrors: the generic types of `main/src/predefined_node/{mod,repetition}.rs`, `sequence.rs`,
`choices.rs`, `typed_node.rs` (`[T;N]`, `(T1,T2)`, `Option<T>`), and the `rule!` macro arguments
of `main/src/rule.rs`.
-/
import PestTyped.Model.Basic
namespace PestTyped

/-- A `const SKIP: usize` / `const INHERITED: usize` argument as the generator writes it:
the literal `0`, the literal `1`, or the identifier `INHERITED`. -/
inductive Flag where
  | zero | one | inh
  deriving DecidableEq, Repr, Inhabited

def Flag.eval (f : Flag) (inh : Bool) : Bool :=
  match f with
  | .zero => false
  | .one => true
  | .inh => inh

inductive Node where
  | str (s : List Char)
  | insens (s : List Char)
  | range (lo hi : Char)
  | any
  | soi
  | eoi
  | newline
  | charBy (prop : String)
  | skipUntil (needles : List (List Char))
  | skipChars (n : Nat)
  | seq (skip : Flag) (items : List Node)
  | choice (alts : List Node)
  | opt (n : Node)
  | rep (skip : Flag) (min : Nat) (max : Option Nat) (n : Node)
  | atomicRepeat (n : Node)
  | pos (n : Node)
  | neg (n : Node)
  | push (n : Node)
  | peek
  | peekAll
  | pop
  | popAll
  | drop
  | peekSlice (a : Int) (b : Option Int)
  | ref (r : RuleId) (f : Flag)
  | array (k : Nat) (n : Node)
  | pair (a b : Node)
  | empty
  | alwaysFail
  deriving Repr, Inhabited

/-- The `$atomicity` token of `rule!`: `true`, `false` or `INHERITED`. -/
inductive Atomicity where
  | atomic | nonAtomic | inherited
  deriving DecidableEq, Repr, Inhabited

/-- The `$emission` token of `rule!`. -/
inductive Emission where
  | span | expression | both
  deriving DecidableEq, Repr, Inhabited

structure RuleDef where
  name : String
  atom : Atomicity
  emit : Emission
  boxed : Bool
  body : Node
  deriving Repr, Inhabited

/-- A generated module: rule 0 is `EOI` (as in the generated `Rule` enum), rule `k+1` is the
`k`-th rule of the grammar; `skipped` is `generics::Skipped<'i>`. -/
structure NodeGrammar where
  rules : List RuleDef
  skipped : Node
  deriving Repr, Inhabited

def NodeGrammar.rule? (g : NodeGrammar) (r : RuleId) : Option RuleDef := g.rules[r]?

/-- Constructor tags of the runtime's value types. -/
inductive Tag where
  | str
  | insens (content : List Char)
  | charRange (c : Char)
  | any (c : Char)
  | uni (prop : String) (c : Char)
  | soi
  | eoi
  | newline (kind : Nat)               -- 0 CRLF, 1 LF, 2 CR
  | skipUntil (sp : Sp)
  | skipChars (sp : Sp)
  | seq                                  -- kids: one `.skipped` per element
  | skipped (n : Nat)                    -- kids: `n` skip values, then the matched value
  | choice (arity idx : Nat)             -- kids: [matched]
  | optNone
  | optSome                              -- kids: [inner]
  | rep (min : Nat) (max : Option Nat)   -- kids: one `.skipped` per iteration
  | atomicRepeat                         -- kids: iterations
  | pos                                  -- kids: [inner]
  | neg
  | push                                 -- kids: [inner]
  | peek (sp : Sp)
  | peekAll (sp : Sp)
  | pop (sp : Sp)
  | popAll (sp : Sp)
  | drop
  | peekSlice
  | rule (r : RuleId) (emit : Emission) (boxed : Bool) (s e : Nat)   -- kids: [content] unless `emit = span`
  | array                                -- kids: elements
  | pair                                 -- kids: [a, b]
  | empty
  deriving DecidableEq, Repr, Inhabited

inductive Val where
  | mk (t : Tag) (kids : List Val)
  deriving Repr, Inhabited

def Val.tag : Val → Tag | .mk t _ => t
def Val.kids : Val → List Val | .mk _ k => k
def Val.leaf (t : Tag) : Val := .mk t []

end PestTyped
