/-
Model.Message — executable model of the rendering of an error report: `Tracker::collect_to_message`
and `Tracker::collect` of `main/src/tracker.rs:185-262`, and the part of
`pest::error::Error::new_from_pos` (pest 2.7.14, `error.rs:190-207`) that looks at the text.

Written the way the Rust is written: `pos.line_col()`, the spacing of `digits(line) + 3` blanks,
`pos.line_of()`, `char_indices().nth(col.saturating_sub(1)).unwrap_or((len, '\0')).0`, the slice
`&line_string[..index]` (which panics off a character boundary: the result type is `TR`), the
`"{}^---"` prefix, then one block per map entry in `BTreeMap` order (key `None` first, then
`Some(rule)` in the order of the `Rule` enum = `RuleId` order): `sort(); dedup()` of both lists, the
four message shapes, `", by {:?}"`, `"."`, and one line per special error with its ` (By {:?})`
suffix.  `{:?}` of a rule is its name (`ruleName`, a parameter: the derive of the generated enum),
`{:?}` of a `Vec<Rule>` is `[a, b]`.

Import-free (core only) so that the driver links as a `lean_exe`.
-/
import PestTyped.Model.Tracker
import PestTyped.Model.Text
namespace PestTyped
namespace Message
open Text

/-- `format!("{}", i)` for an `i32`. -/
def intStr : Int → List Char
  | .ofNat n => natStr n
  | .negSucc n => '-' :: natStr (n + 1)

/-- `SpecialError::to_string`. -/
def specialStr : Special → List Char
  | .sliceOutOfBound a (some b) =>
    "Peek slice ".toList ++ intStr a ++ "..".toList ++ intStr b ++ " out of bound.".toList
  | .sliceOutOfBound a none => "Peek slice ".toList ++ intStr a ++ ".. out of bound.".toList
  | .repeatTooManyTimes => "Repeated too many times.".toList
  | .emptyStack => "Nothing to pop or drop.".toList

/-- `Vec::sort` on rules (the derived `Ord` of the `Rule` enum is the declaration order). -/
def insertRule (x : RuleId) : List RuleId → List RuleId
  | [] => [x]
  | y :: ys => if x ≤ y then x :: y :: ys else y :: insertRule x ys

def sortRules (l : List RuleId) : List RuleId := l.foldr insertRule []

/-- `Vec::dedup`: consecutive repeated elements are removed. -/
def dedup : List RuleId → List RuleId
  | [] => []
  | [x] => [x]
  | x :: y :: r => if x = y then dedup (y :: r) else x :: dedup (y :: r)

def joinSep (sep : List Char) : List (List Char) → List Char
  | [] => []
  | [x] => x
  | x :: y :: r => x ++ sep ++ joinSep sep (y :: r)

/-- `format!("{:?}", vec)` for a `Vec<Rule>`. -/
def rulesDebug (ruleName : RuleId → List Char) (l : List RuleId) : List Char :=
  '[' :: joinSep [',', ' '] (l.map ruleName) ++ [']']

/-- Order of the keys of `BTreeMap<Option<R>, _>`: `None < Some(_)`, `Some` by rule order. -/
def keyLt : Option RuleId → Option RuleId → Bool
  | none, none => false
  | none, some _ => true
  | some _, none => false
  | some a, some b => a < b

def insertEntry (x : Option RuleId × Tracked) :
    List (Option RuleId × Tracked) → List (Option RuleId × Tracked)
  | [] => [x]
  | y :: ys => if keyLt x.1 y.1 then x :: y :: ys else y :: insertEntry x ys

/-- Iteration order of the map (`for attempt in attempts`); the model keeps insertion order. -/
def sortEntries (l : List (Option RuleId × Tracked)) : List (Option RuleId × Tracked) :=
  l.foldr insertEntry []

/-- The closure `write_message` applied to one entry. -/
def writeMessage (ruleName : RuleId → List Char) (spacing : List Char)
    (entry : Option RuleId × Tracked) : List Char :=
  let rule := entry.1
  let positives := dedup (sortRules entry.2.positives)
  let negatives := dedup (sortRules entry.2.negatives)
  let head : List Char :=
    match positives.isEmpty, negatives.isEmpty with
    | true, true => "Unknown error (no rule tracked)".toList
    | false, true => "Expected ".toList ++ rulesDebug ruleName positives
    | true, false => "Unexpected ".toList ++ rulesDebug ruleName negatives
    | false, false =>
      "Unexpected ".toList ++ rulesDebug ruleName negatives ++ ", expected ".toList ++
        rulesDebug ruleName positives
  let by_ : List Char := match rule with
    | some upper => ", by ".toList ++ ruleName upper
    | none => []
  let specials : List Char := (entry.2.specials.map fun s =>
    spacing ++ specialStr s ++ (match rule with
      | some upper => " (By ".toList ++ ruleName upper ++ [')']
      | none => [])).flatten
  spacing ++ head ++ by_ ++ ['.'] ++ specials

/-- `line_string.char_indices().nth(col.saturating_sub(1)).unwrap_or((line_string.len(), '\0')).0` -/
def lineRemainedIndex (lineString : List Char) (col : Nat) : Nat :=
  match (charIndices lineString)[col - 1]? with
  | some ic => ic.1
  | none => blen lineString

/-- `Tracker::collect_to_message`; `text` is the whole input string of the tracker's position. -/
def collectToMessage (ruleName : RuleId → List Char) (text : List Char) (t : Tracker) :
    TR (List Char) :=
  match lineCol text t.position with                       -- `pos.line_col()`
  | .panic => .panic
  | .ok (line, col) =>
    let spacing := '\n' :: List.replicate ((natStr line).length + 3) ' '
    match lineOf text t.position with                      -- `pos.line_of()`
    | .panic => .panic
    | .ok lineString =>
      match TR.unwrap (takeBytes (lineRemainedIndex lineString col) lineString) with
      | .panic => .panic                                   -- `&line_string[..line_remained_index]`
      | .ok lineMatched =>
        .ok (lineMatched ++ "^---".toList ++
          ((sortEntries t.attempts).map (writeMessage ruleName spacing)).flatten)

/-- What `pest::error::Error::new_from_pos` reads from the text: `pos.line_of()` (for the `line`
field; its value is not observed here) and `pos.line_col()`, the `line_col` field of the error.
pest's `Position` has the same two functions as `main/src/position.rs` (tie T-text of C12). -/
def newFromPos (text : List Char) (pos : Nat) : TR (Nat × Nat) :=
  match lineOf text pos with
  | .panic => .panic
  | .ok _ => lineCol text pos

/-- `Tracker::collect`: the message of the `CustomError` and the `line_col` of the error. -/
def collect (ruleName : RuleId → List Char) (text : List Char) (t : Tracker) :
    TR (List Char × (Nat × Nat)) :=
  match posNew text t.position with                        -- `pest::Position::new(pos.input, pos.pos())`
  | none =>
    match newFromPos text 0 with                           -- `pest::Position::from_start(pos.input)`
    | .panic => .panic
    | .ok lc =>
      .ok ("Internal error (invalid character index ".toList ++ natStr t.position ++ ").".toList, lc)
  | some p =>
    match collectToMessage ruleName text t with
    | .panic => .panic
    | .ok msg =>
      match newFromPos text p with
      | .panic => .panic
      | .ok lc => .ok (msg, lc)

end Message
end PestTyped
