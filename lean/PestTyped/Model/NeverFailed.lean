/-
Model.NeverFailed — the counted repetitions as `NeverFailedTypedNode`s
(`main/src/predefined_node/repetition.rs`):

* `impl NeverFailedTypedNode for RepeatMin<Skipped<T, Skip, SKIP>, 0>`        — `parse_with`, `check_with`
* `impl NeverFailedTypedNode for RepeatMinMax<Skipped<T, Skip, SKIP>, 0, MAX>` — `parse_with`, `check_with`

These four loops are NOT the `TypedNode` loops modelled by `Node.rep` (`repLoop` / `repLoopC` of
`Model/Run.lean`): they have no `Option` in their result type (they cannot fail), no `MIN` test, and
they run on a tracker of their own (`let mut tracker = Tracker::new(input);`) which is dropped at the
end — the caller's tracker is not even a parameter.  They are what runs when such a type is given as
the `Skip` parameter of `Skipped<_, Skip, _>` or as the `$ignored` argument of `rule!` (the trailing
skip of `rule::parse` / `rule::check`).

Written as NEW top-level functions (the `Node` inductive is unchanged): `nfLoop` / `nfLoopC` mirror the
two Rust copies of the loop line by line; the iterated unit is the SAME `try_parse_unit` /
`try_check_unit` the `TypedNode` loops use (`repUnitP` / `repUnitC`), with `SKIP = k` (any `k`, not only
0/1), inner skip type = the grammar's `g.skipped`, element = a node `x`.
`Lemmas/NeverFailedLemmas.lean` proves `nfLoop = repLoop … 0 max` (so the declarative trace theory
`RepIters` / `RepStop` of `Lemmas/RepLoop.lean` applies), `Props/C19Never.lean` the property clauses.
-/
import PestTyped.Model.Run
namespace PestTyped

/-- The loop of `parse_with` (`repetition.rs`, `RepeatMin<_,0>`: `for i in 0usize..`, `max = none`;
`RepeatMinMax<_,0,MAX>`: `for i in 0..MAX`, `max = some MAX`):
```
match restore_on_none(stack, |stack| try_parse_unit(input, stack, &mut tracker, i)) {
    Some((next, matched)) => { input = next; vec.push(matched); }
    None => break,
}
```
and after the loop `(input, Self { content: vec })` — no test of any kind.  `budget` bounds the
number of iterations of the model (fuel); the Rust `RepeatMin` loop has no bound. -/
def nfLoop {α} (unit : Nat → Inp → M → R α) (max : Option Nat) :
    Nat → Nat → Inp → M → List α → R (List α)
  | 0, _, _, _, _ => .oof
  | budget+1, idx, i, m, acc =>
    if max = some idx then .ok i m acc.reverse
    else
      match restoreOnNone m.stk (unit idx i m) with
      | .oof => .oof
      | .fail m' => .ok i m' acc.reverse
      | .ok i' m' a => nfLoop unit max budget (idx+1) i' m' (a :: acc)

/-- The loop of `check_with` (the second Rust copy): `Some(next) => { input = next; }`,
`None => break`, then `input`. -/
def nfLoopC (unit : Nat → Inp → M → R Unit) (max : Option Nat) :
    Nat → Nat → Inp → M → R Unit
  | 0, _, _, _ => .oof
  | budget+1, idx, i, m =>
    if max = some idx then .ok i m ()
    else
      match restoreOnNone m.stk (unit idx i m) with
      | .oof => .oof
      | .fail m' => .ok i m' ()
      | .ok i' m' _ => nfLoopC unit max budget (idx+1) i' m'

/-- Iteration budget: the bounded loop needs `MAX` iterations and one more visit to see the end of the
range; the unbounded one gets the budget of the `AtomicRepeat` loop. -/
def nfBudget (fuel : Nat) : Option Nat → Nat
  | none => atomicBudget fuel
  | some mx => mx + 1

/-- `<RepeatMin<Skipped<T, Skip, K>, 0> as NeverFailedTypedNode>::parse_with(input, stack)` (`max = none`) /
`<RepeatMinMax<Skipped<T, Skip, K>, 0, MAX> as NeverFailedTypedNode>::parse_with(input, stack)`
(`max = some MAX`), `T = x`, `Skip = g.skipped`: a fresh tracker for the loop, dropped afterwards; the
caller's tracker (`m.trk`) is not touched.  The `.fail` arm is unreachable (`C19_nf_parse_never_fails`). -/
def nfRepParse (g : NodeGrammar) (uni : Uni) : Nat → Bool → Nat → Option Nat → Node → Inp → M → R Val
  | 0, _, _, _, _, _, _ => .oof
  | fuel+1, inh, k, max, x, i, m =>
    match nfLoop (repUnitP (parse g uni fuel false g.skipped) (parse g uni fuel inh x) (defaultSkipVal g) k)
        max (nfBudget fuel max) 0 i { m with trk := Tracker.new i } [] with
    | .oof => .oof
    | .fail m' => .fail { m' with trk := m.trk }
    | .ok i' m' vs => .ok i' { m' with trk := m.trk } (.mk (.rep 0 max) vs)

/-- `…::check_with(input, stack)` of the same two types. -/
def nfRepCheck (g : NodeGrammar) (uni : Uni) : Nat → Bool → Nat → Option Nat → Node → Inp → M → R Unit
  | 0, _, _, _, _, _, _ => .oof
  | fuel+1, inh, k, max, x, i, m =>
    match nfLoopC (repUnitC (check g uni fuel false g.skipped) (check g uni fuel inh x) k)
        max (nfBudget fuel max) 0 i { m with trk := Tracker.new i } with
    | .oof => .oof
    | .fail m' => .fail { m' with trk := m.trk }
    | .ok i' m' _ => .ok i' { m' with trk := m.trk } ()

/-- `R::try_parse(input)` of a rule declared with `$ignored` = one of the two never-failed repetition
types (`rule::parse::<I, R, Self, IGNORED>`: the rule, then `IGNORED::parse_with(input, stack)`, then
`EOI` under `record_during_with`); atomic rules and `EOI` take `parse_without_ignore` as in `tryParse`. -/
def tryParseNF (g : NodeGrammar) (uni : Uni) (fuel : Nat) (r : RuleId) (k : Nat) (max : Option Nat)
    (x : Node) (i : Inp) : R Val :=
  match g.rule? r with
  | none => .fail (M.init i)
  | some d =>
    match parse g uni fuel true (.ref r .one) i (M.init i) with
    | .oof => .oof
    | .fail m => .fail m
    | .ok i' m v =>
      if noTrailingSkip r d then
        let (m', ok) := eoiStep i' m
        if ok then .ok i' m' v else .fail m'
      else
        match nfRepParse g uni fuel false k max x i' m with
        | .oof => .oof
        | .fail m' => .fail m'
        | .ok i'' m' _ =>
          let (m'', ok) := eoiStep i'' m'
          if ok then .ok i'' m'' v else .fail m''

/-- `R::try_check(input)` of such a rule (`rule::check::<I, R, Self, IGNORED>`). -/
def tryCheckNF (g : NodeGrammar) (uni : Uni) (fuel : Nat) (r : RuleId) (k : Nat) (max : Option Nat)
    (x : Node) (i : Inp) : R Unit :=
  match g.rule? r with
  | none => .fail (M.init i)
  | some d =>
    match check g uni fuel true (.ref r .one) i (M.init i) with
    | .oof => .oof
    | .fail m => .fail m
    | .ok i' m _ =>
      if noTrailingSkip r d then
        let (m', ok) := eoiStep i' m
        if ok then .ok i' m' () else .fail m'
      else
        match nfRepCheck g uni fuel false k max x i' m with
        | .oof => .oof
        | .fail m' => .fail m'
        | .ok i'' m' _ =>
          let (m'', ok) := eoiStep i'' m'
          if ok then .ok i'' m'' () else .fail m''

end PestTyped
