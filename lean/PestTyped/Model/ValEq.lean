/-
Model.ValEq — `==`, `Hash`, `Clone` and `Debug` of parse results, as executable functions on `Val`
(property C18).  Written FIELD BY FIELD from the Rust impls:

* `main/src/span.rs:504-518`      `Span::eq` = same input pointer ∧ start ∧ end; `Span::hash` feeds
                                   (input pointer, start, end); `Span` is `Copy` (clone keeps the pointer);
                                   `span.rs:494-502` `Debug` = `Span { str, start, end }`;
* `main/src/sequence.rs:126-147`  hand-written `PartialEq` / `Hash` of `SeqN`: `content.0`, `content.1`, … in
                                   order; `sequence.rs:192-202` `Debug` = `debug_tuple("SeqN")`;
* `main/src/predefined_node/mod.rs`  `Skipped` derives `Hash, PartialEq` over (`skipped: [Skip; SKIP]`,
                                   `matched`) and prints only `matched` when `SKIP == 0`; the leaves derive
                                   over their fields (`Str`, `Negative`, `SOI`, `EOI`, `DROP`, `PeekSlice*`,
                                   `Empty` carry nothing but `PhantomData`: always equal, nothing hashed);
                                   `Insens.content : &str` compares / hashes the TEXT; `CharRange`, `ANY`,
                                   Unicode nodes a `char`; `NEWLINE` a field-less enum; `Skip`, `SkipChar`,
                                   `PEEK`, `PEEK_ALL`, `POP`, `POP_ALL` a `Span`; `Positive`, `Push` their content;
* `main/src/predefined_node/repetition.rs`  `RepeatMin`, `RepeatMinMax`, `AtomicRepeat` derive over
                                   `content : Vec<_>` (length, then elementwise);
* `main/src/choices.rs:97-106`    `ChoiceN` derives `Clone, Hash, PartialEq, Eq` (discriminant + payload),
                                   `choices.rs:200-210` `Debug` = `ChoiceN { _k: payload }`;
* `main/src/rule.rs:487-547`      rule structs derive `Clone, Hash, PartialEq, Eq` over (`content`, `_phantom`)
                                   [Expression], (`span`) [Span], (`content`, `span`) [Both]; `Box` is transparent;
* core: `Option` (discriminant + payload), `[T; N]` and `Vec<T>` (`Hash` writes a length prefix, then the
  elements), tuples (elements in order).

A Rust `Span` is (input pointer, start, end); the model's `Sp` is (start, end, text) and a rule value
carries (start, end).  The text is *derived* from the input object, the pointer is *not modelled*:
`valEqOn same` takes the answer of `ptr::eq(self.input, other.input)` as the parameter `same`
(`valEq := valEqOn true` is equality of values obtained from ONE input object; every span a run
stores refers to the string the entry point was given, also for `Position` / `Span` sub-inputs:
`input.rs:26-31,281-313`).  An `Expression` rule struct has no span field: the offsets the model keeps in
its tag are bookkeeping of the model and take no part (`Val.norm` erases them).

`&&` is evaluated on total pure functions here, so the order in which Rust's short-circuiting
conjunctions visit the fields is irrelevant for the result; the order IS kept for `hashFeed`.
Import-free (core only) besides `Model.Node`.
-/
import PestTyped.Model.Node
namespace PestTyped

/-! ### `==` -/

/-- `Span::eq` (`span.rs:504-508`); `same` = `ptr::eq(self.input, other.input)`. -/
def spEq (same : Bool) (a b : Sp) : Bool := same && a.s == b.s && a.e == b.e

/-- The rule struct's own `span` field (emission `Span` / `Both`); an `Expression` struct has none. -/
def ruleSpanEq (same : Bool) (emit : Emission) (s e s' e' : Nat) : Bool :=
  match emit with
  | .expression => true
  | _ => same && s == s' && e == e'

/-- Derived `PartialEq` restricted to the fields that are not child nodes.  Type-level parameters
that the model keeps in the tag (`SKIP`, `MIN`, `MAX`, arity, rule, emission, boxing, Unicode
property) are compared as well: they coincide for values of one type expression. -/
def tagEq (same : Bool) : Tag → Tag → Bool
  | .str, .str => true
  | .insens a, .insens b => a == b
  | .charRange a, .charRange b => a == b
  | .any a, .any b => a == b
  | .uni p a, .uni q b => p == q && a == b
  | .soi, .soi => true
  | .eoi, .eoi => true
  | .newline a, .newline b => a == b
  | .skipUntil a, .skipUntil b => spEq same a b
  | .skipChars a, .skipChars b => spEq same a b
  | .seq, .seq => true
  | .skipped n, .skipped n' => n == n'
  | .choice ar i, .choice ar' j => ar == ar' && i == j
  | .optNone, .optNone => true
  | .optSome, .optSome => true
  | .rep mn mx, .rep mn' mx' => mn == mn' && mx == mx'
  | .atomicRepeat, .atomicRepeat => true
  | .pos, .pos => true
  | .neg, .neg => true
  | .push, .push => true
  | .peek a, .peek b => spEq same a b
  | .peekAll a, .peekAll b => spEq same a b
  | .pop a, .pop b => spEq same a b
  | .popAll a, .popAll b => spEq same a b
  | .drop, .drop => true
  | .peekSlice, .peekSlice => true
  | .rule r emit boxed s e, .rule r' emit' boxed' s' e' =>
    r == r' && emit == emit' && boxed == boxed' && ruleSpanEq same emit s e s' e'
  | .array, .array => true
  | .pair, .pair => true
  | .empty, .empty => true
  | _, _ => false

mutual
/-- `a == b` for two results of one type expression; `same` = do their spans point into the same
input object. -/
def valEqOn (same : Bool) : Val → Val → Bool
  | .mk t kids, .mk t' kids' => tagEq same t t' && valEqListOn same kids kids'
/-- Tuples / arrays field by field, `Vec`s by length and elementwise. -/
def valEqListOn (same : Bool) : List Val → List Val → Bool
  | [], [] => true
  | a :: as, b :: bs => valEqOn same a b && valEqListOn same as bs
  | [], _ :: _ => false
  | _ :: _, [] => false
end

/-- `==` on results obtained from the same input object. -/
def valEq (a b : Val) : Bool := valEqOn true a b

/-! ### structural identity of the Rust values -/

/-- Forget what is not a field of the Rust value: the offsets of an `Expression` rule struct. -/
def Tag.norm : Tag → Tag
  | .rule r .expression boxed _ _ => .rule r .expression boxed 0 0
  | t => t

mutual
def Val.norm : Val → Val
  | .mk t kids => .mk t.norm (Val.normList kids)
def Val.normList : List Val → List Val
  | [] => []
  | v :: vs => v.norm :: Val.normList vs
end

/-! ### `Hash` -/

/-- What a `Hasher` is fed (the calls of `Hasher::write_*`), abstractly. -/
inductive HashAtom where
  | ptr                    -- `(self.input as *const str).hash(state)`: address and length of THE input object
  | usize (n : Nat)        -- `usize::hash`
  | len (n : Nat)          -- `write_length_prefix` of slices, arrays and `Vec`s
  | discr (n : Nat)        -- `mem::discriminant(self).hash(state)` of a derived enum impl
  | chr (c : Char)         -- `char::hash`
  | str (s : List Char)    -- `str::hash`: the bytes, then `0xff`
  deriving DecidableEq, Repr

/-- `Span::hash` (`span.rs:512-518`). -/
def spHash (s e : Nat) : List HashAtom := [.ptr, .usize s, .usize e]

mutual
/-- `Hash::hash(v, state)`: the sequence of writes, fields in declaration order. -/
def hashFeed : Val → List HashAtom
  | .mk .str _ => []
  | .mk (.insens s) _ => [.str s]
  | .mk (.charRange c) _ => [.chr c]
  | .mk (.any c) _ => [.chr c]
  | .mk (.uni _ c) _ => [.chr c]
  | .mk .soi _ => []
  | .mk .eoi _ => []
  | .mk (.newline k) _ => [.discr k]
  | .mk (.skipUntil sp) _ => spHash sp.s sp.e
  | .mk (.skipChars sp) _ => spHash sp.s sp.e
  | .mk .seq kids => hashFeedList kids
  | .mk (.skipped n) kids => .len n :: hashFeedList kids          -- `[Skip; SKIP]` (length prefix), then `matched`
  | .mk (.choice _ idx) kids => .discr idx :: hashFeedList kids
  | .mk .optNone _ => [.discr 0]
  | .mk .optSome kids => .discr 1 :: hashFeedList kids
  | .mk (.rep _ _) kids => .len kids.length :: hashFeedList kids  -- `Vec`
  | .mk .atomicRepeat kids => .len kids.length :: hashFeedList kids
  | .mk .pos kids => hashFeedList kids
  | .mk .neg _ => []
  | .mk .push kids => hashFeedList kids
  | .mk (.peek sp) _ => spHash sp.s sp.e
  | .mk (.peekAll sp) _ => spHash sp.s sp.e
  | .mk (.pop sp) _ => spHash sp.s sp.e
  | .mk (.popAll sp) _ => spHash sp.s sp.e
  | .mk .drop _ => []
  | .mk .peekSlice _ => []
  | .mk (.rule _ .expression _ _ _) kids => hashFeedList kids     -- `content`, `_phantom`
  | .mk (.rule _ .span _ s e) _ => spHash s e                     -- `span`
  | .mk (.rule _ .both _ s e) kids => hashFeedList kids ++ spHash s e   -- `content`, then `span`
  | .mk .array kids => .len kids.length :: hashFeedList kids
  | .mk .pair kids => hashFeedList kids
  | .mk .empty _ => []
def hashFeedList : List Val → List HashAtom
  | [] => []
  | v :: vs => hashFeed v ++ hashFeedList vs
end

/-! ### `Clone` -/

mutual
/-- Derived `Clone`: every field cloned (`Span` is `Copy`: the copy points into the same input
object; `&str`, `char`, enums are copied; `Vec` / `Box` are re-allocated with cloned elements). -/
def Val.clone : Val → Val
  | .mk t kids => .mk t (Val.cloneList kids)
def Val.cloneList : List Val → List Val
  | [] => []
  | v :: vs => v.clone :: Val.cloneList vs
end

/-! ### `Debug` -/

/-- The calls a `Debug` impl makes on the `Formatter`, as a tree. -/
inductive Dbg where
  | unit (name : String)                                          -- `f.write_str(name)` / a struct whose fields are all skipped
  | struct (name : String) (fields : List String) (vals : List Dbg)   -- `debug_struct(name).field(..)…finish()`
  | tuple (name : String) (vals : List Dbg)                       -- `debug_tuple(name).field(..)…finish()`
  | list (vals : List Dbg)                                        -- `debug_list()` of arrays / `Vec`s
  | str (s : List Char)                                           -- `<str as Debug>`
  | chr (c : Char)                                                -- `<char as Debug>`
  | num (n : Nat)                                                 -- `<usize as Debug>`
  deriving Repr, Inhabited

/-- `Span`'s `Debug` (`span.rs:494-502`). -/
def dbgSpan (txt : List Char) (s e : Nat) : Dbg :=
  .struct "Span" ["str", "start", "end"] [.str txt, .num s, .num e]

def newlineName : Nat → String
  | 0 => "CRLF"
  | 1 => "LF"
  | _ => "CR"

/-- `Skipped`'s `Debug` (`predefined_node/mod.rs:617-628`) from the renderings of its fields
(`SKIP` skipped items, then `matched`): `SKIP == 0` prints `matched` alone. -/
def skippedDbg : Nat → List Dbg → Dbg
  | 0, [d] => d
  | n, ds => .struct "Skipped" ["skipped", "matched"] (.list (ds.take n) :: ds.drop n)

mutual
/-- `{:?}` of a result.  `name r` is `stringify!` of rule `r`'s struct name, `slice s e` the text of
the input object between two offsets (`Span::as_str` of a rule struct's span).  `PeekSlice1` and
`PeekSlice2` are one tag in the model and print as `PeekSlice`. -/
def debugTree (name : RuleId → String) (slice : Nat → Nat → List Char) : Val → Dbg
  | .mk .str _ => .unit "Str"
  | .mk (.insens s) _ => .struct "Insens" ["content"] [.str s]
  | .mk (.charRange c) _ => .struct "CharRange" ["content"] [.chr c]
  | .mk (.any c) _ => .struct "ANY" ["content"] [.chr c]
  | .mk (.uni p c) _ => .struct p ["content"] [.chr c]
  | .mk .soi _ => .unit "SOI"
  | .mk .eoi _ => .unit "EOI"
  | .mk (.newline k) _ => .struct "NEWLINE" ["content"] [.unit (newlineName k)]
  | .mk (.skipUntil sp) _ => .struct "Skip" ["span"] [dbgSpan sp.txt sp.s sp.e]
  | .mk (.skipChars sp) _ => .struct "SkipChar" ["span"] [dbgSpan sp.txt sp.s sp.e]
  | .mk .seq kids => .tuple ("Seq" ++ toString kids.length) (debugTreeList name slice kids)
  | .mk (.skipped n) kids => skippedDbg n (debugTreeList name slice kids)
  | .mk (.choice ar idx) kids =>
    .struct ("Choice" ++ toString ar) ["_" ++ toString idx] (debugTreeList name slice kids)
  | .mk .optNone _ => .unit "None"
  | .mk .optSome kids => .tuple "Some" (debugTreeList name slice kids)
  | .mk (.rep _ none) kids => .struct "RepeatMin" ["content"] [.list (debugTreeList name slice kids)]
  | .mk (.rep _ (some _)) kids => .struct "RepeatMinMax" ["content"] [.list (debugTreeList name slice kids)]
  | .mk .atomicRepeat kids => .struct "AtomicRepeat" ["content"] [.list (debugTreeList name slice kids)]
  | .mk .pos kids => .struct "Positive" ["content"] (debugTreeList name slice kids)
  | .mk .neg _ => .unit "Negative"
  | .mk .push kids => .struct "Push" ["content"] (debugTreeList name slice kids)
  | .mk (.peek sp) _ => .struct "PEEK" ["span"] [dbgSpan sp.txt sp.s sp.e]
  | .mk (.peekAll sp) _ => .struct "PEEK_ALL" ["span"] [dbgSpan sp.txt sp.s sp.e]
  | .mk (.pop sp) _ => .struct "POP" ["span"] [dbgSpan sp.txt sp.s sp.e]
  | .mk (.popAll sp) _ => .struct "POP_ALL" ["span"] [dbgSpan sp.txt sp.s sp.e]
  | .mk .drop _ => .unit "DROP"
  | .mk .peekSlice _ => .unit "PeekSlice"
  | .mk (.rule r .expression _ _ _) kids => .struct (name r) ["content"] (debugTreeList name slice kids)
  | .mk (.rule r .span _ s e) _ => .struct (name r) ["span"] [dbgSpan (slice s e) s e]
  | .mk (.rule r .both _ s e) kids =>
    .struct (name r) ["content", "span"] (debugTreeList name slice kids ++ [dbgSpan (slice s e) s e])
  | .mk .array kids => .list (debugTreeList name slice kids)
  | .mk .pair kids => .tuple "" (debugTreeList name slice kids)
  | .mk .empty _ => .unit "Empty"
def debugTreeList (name : RuleId → String) (slice : Nat → Nat → List Char) : List Val → List Dbg
  | [] => []
  | v :: vs => debugTree name slice v :: debugTreeList name slice vs
end

end PestTyped
