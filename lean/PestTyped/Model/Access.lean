/-
Model.Access — the accessors the runtime offers on parsed values, as executable functions on `Val`.

Mirrors:
* `main/src/choices.rs:92-137` (`choices!`): the variant accessors `_0() … _{n-1}()`, `reference()`,
  `if_then`, and `choices.rs:23-69` (`choices_helper!`): the helper enums `_j<Ret, V_j, …, V_{n-1}>`
  with variants `_j … _{n-1}` and `Res(Ret)`, their `else_if` / `else_then`;
* `generator/src/match_choices.rs:69-97` (`match_choices!`: a plain `match` on `ChoiceN::_k(x)`);
* `main/src/sequence.rs:148-171` (`seq!`): `get_matched / into_matched / as_ref`, `get_all / into_all`;
* `main/src/predefined_node/repetition.rs:228-247,381-402`: `iter_matched / into_iter_matched`,
  `iter_all / into_iter_all`;
* the public fields of the leaf nodes in `main/src/predefined_node/mod.rs` (`content`, `span`).

A `ChoiceN` value is `.mk (.choice n idx) [v]`; a `SeqN` value is `.mk .seq kids`, a repetition
`.mk (.rep min max) kids`, each kid a `Skipped { skipped: [Skip; SKIP], matched }` value
`.mk (.skipped k) (skips ++ [matched])`.  Arity is a list length / a number in the model; the
per-arity macro expansions are bound to it by the differential tie.
Import-free (core only).
-/
import PestTyped.Model.Node
import PestTyped.Model.Run
namespace PestTyped

/-! ### choices -/

/-- `ChoiceN::_k(&self) -> Option<&T_k>`: `Some` iff the value is the variant `_k`. -/
def Val.choiceAcc (k : Nat) : Val → Option Val
  | .mk (.choice _ idx) [v] => if idx = k then some v else none
  | _ => none

/-- A value of one of the helper enums of `choices_helper!`: one of the remaining branch variants
`_idx(v)` or `Res(ret)`.  Which helper type (`_level`) the value belongs to is static in Rust; here
it is the `level` argument of the methods below. -/
inductive Helper (ρ : Type) where
  | branch (idx : Nat) (v : Val)
  | res (r : ρ)

/-- `ChoiceN::reference()` / `consume()`: the helper `_0` holding the same variant. -/
def Val.reference {ρ : Type} : Val → Option (Helper ρ)
  | .mk (.choice _ idx) [v] => some (.branch idx v)
  | _ => none

/-- `helper::_level::else_if(self, f)`: branch `_level` runs `f` and becomes `Res`; the other
branches and `Res` are carried over unchanged into the next helper type. -/
def Helper.elseIf {ρ : Type} (level : Nat) (f : Val → ρ) : Helper ρ → Helper ρ
  | .branch idx v => if idx = level then .res (f v) else .branch idx v
  | .res r => .res r

/-- `helper::_{n-1}::else_then(self, f)`: the last helper type has the variants `_{n-1}` and `Res`
only (another branch index is not a value of that type: `none`). -/
def Helper.elseThen {ρ : Type} (level : Nat) (f : Val → ρ) : Helper ρ → Option ρ
  | .branch idx v => if idx = level then some (f v) else none
  | .res r => some r

/-- `h.else_if(f_level).else_if(f_{level+1})….else_then(f_last)`. -/
def chainGo {ρ : Type} : Nat → List (Val → ρ) → Helper ρ → Option ρ
  | _, [], _ => none
  | level, [f], h => h.elseThen level f
  | level, f :: f' :: fs, h => chainGo (level+1) (f' :: fs) (h.elseIf level f)

/-- `c.if_then(f_0).else_if(f_1)….else_then(f_{n-1})` on a `ChoiceN` value, `n = fs.length`
(`if_then(f) = reference().else_if(f)`).  The number of closures is tied to the arity by the Rust
types. -/
def chain {ρ : Type} (fs : List (Val → ρ)) : Val → Option ρ
  | .mk (.choice arity idx) [v] => if arity = fs.length then chainGo 0 fs (.branch idx v) else none
  | _ => none

/-! The same chain with the side effects of the closures made observable: every application of a
closure appends `(number of the closure, its argument)` to a log. -/

def Helper.elseIfL {ρ : Type} (level : Nat) (f : Val → ρ) :
    Helper ρ × List (Nat × Val) → Helper ρ × List (Nat × Val)
  | (.branch idx v, log) => if idx = level then (.res (f v), log ++ [(level, v)]) else (.branch idx v, log)
  | (.res r, log) => (.res r, log)

def Helper.elseThenL {ρ : Type} (level : Nat) (f : Val → ρ) :
    Helper ρ × List (Nat × Val) → Option (ρ × List (Nat × Val))
  | (.branch idx v, log) => if idx = level then some (f v, log ++ [(level, v)]) else none
  | (.res r, log) => some (r, log)

def chainGoL {ρ : Type} : Nat → List (Val → ρ) → Helper ρ × List (Nat × Val) → Option (ρ × List (Nat × Val))
  | _, [], _ => none
  | level, [f], h => Helper.elseThenL level f h
  | level, f :: f' :: fs, h => chainGoL (level+1) (f' :: fs) (Helper.elseIfL level f h)

/-- `chain` with the log of closure applications. -/
def chainLog {ρ : Type} (fs : List (Val → ρ)) : Val → Option (ρ × List (Nat × Val))
  | .mk (.choice arity idx) [v] => if arity = fs.length then chainGoL 0 fs (.branch idx v, []) else none
  | _ => none

/-- `match_choices!(c { x0 => e0, …, x_{n-1} => e_{n-1} })` for `n > 1`: a `match` on the variants
`generics::ChoiceN::_k(x_k)`. -/
def matchChoices {ρ : Type} (fs : List (Val → ρ)) : Val → Option ρ
  | .mk (.choice arity idx) [v] =>
    if arity = fs.length then
      match fs[idx]? with
      | some f => some (f v)
      | none => none
    else none
  | _ => none

/-! ### `Skipped { skipped, matched }`, sequences, repetitions -/

/-- `.matched` of a `Skipped` value. -/
def Val.matched? : Val → Option Val
  | .mk (.skipped n) kids => kids[n]?
  | _ => none

/-- `.skipped` of a `Skipped` value. -/
def Val.skips? : Val → Option (List Val)
  | .mk (.skipped n) kids => some (kids.take n)
  | _ => none

/-- A `Skipped` value as the pair (`skipped`, `matched`). -/
def Val.skippedPair? (v : Val) : Option (List Val × Val) :=
  match v.skips?, v.matched? with
  | some s, some x => some (s, x)
  | _, _ => none

/-- `SeqN::get_matched() / into_matched() / as_ref()`: the `matched` field of every element. -/
def Val.seqMatched : Val → List Val
  | .mk .seq kids => kids.filterMap Val.matched?
  | _ => []

/-- `SeqN::get_all() / into_all()`: every element with what was skipped before it. -/
def Val.seqAll : Val → List (List Val × Val)
  | .mk .seq kids => kids.filterMap Val.skippedPair?
  | _ => []

/-- `RepeatMin(Max)::iter_matched() / into_iter_matched()`. -/
def Val.repMatched : Val → List Val
  | .mk (.rep _ _) kids => kids.filterMap Val.matched?
  | _ => []

/-- `RepeatMin(Max)::iter_all() / into_iter_all()`. -/
def Val.repAll : Val → List (List Val × Val)
  | .mk (.rep _ _) kids => kids.filterMap Val.skippedPair?
  | _ => []

/-! ### leaves -/

/-- `CharRange::content`, `ANY::content`, the `content` of a Unicode property node. -/
def Val.leafChar? : Val → Option Char
  | .mk (.charRange c) _ => some c
  | .mk (.any c) _ => some c
  | .mk (.uni _ c) _ => some c
  | _ => none

/-- `Insens::content`. -/
def Val.insensContent? : Val → Option (List Char)
  | .mk (.insens s) _ => some s
  | _ => none

/-- `NEWLINE::content` as a number: 0 `"\r\n"`, 1 `"\n"`, 2 `"\r"`. -/
def Val.newlineKind? : Val → Option Nat
  | .mk (.newline k) _ => some k
  | _ => none

/-- The `span` field of `Skip`, `SkipChar`, `PEEK`, `PEEK_ALL`, `POP`, `POP_ALL`. -/
def Val.spanOf? : Val → Option Sp
  | .mk (.skipUntil sp) _ => some sp
  | .mk (.skipChars sp) _ => some sp
  | .mk (.peek sp) _ => some sp
  | .mk (.peekAll sp) _ => some sp
  | .mk (.pop sp) _ => some sp
  | .mk (.popAll sp) _ => some sp
  | _ => none

/-- The text a `NEWLINE` kind stands for. -/
def newlineText : Nat → List Char
  | 0 => ['\r', '\n']
  | 1 => ['\n']
  | _ => ['\r']

end PestTyped
