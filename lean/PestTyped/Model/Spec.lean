/-
Model.Spec — reference semantics of pest grammars (pest 2.7.14's meaning of a grammar, with defined
answers everywhere): PEG evaluation with *dynamic* atomicity, implicit skipping between sequence
elements and repetition iterations when non-atomic, an IMMUTABLE stack (so every failed
alternative / optional / iteration / lookahead leaves no trace by construction), empty-stack
PEEK/POP/DROP and out-of-range slices failing instead of panicking.  This is not code under test:
it is the specification the generated typed parser is proved (Props/C01) and tested against, and
pest's own generated parser is compared with it on every run.

`na = true` means atomicity NonAtomic (skipping on); Atomic and CompoundAtomic both switch it off
(they differ only in token emission, see `Model/SpecTokens.lean`).
-/
import PestTyped.Model.Basic
import PestTyped.Model.Pest
import PestTyped.Model.Run
namespace PestTyped

inductive SR where
  | oof
  | fail
  | ok (i : Inp) (stk : List Sp)
  deriving Repr, DecidableEq

/-- The character classes of pest's ASCII built-ins. -/
def asciiClass (name : String) : Option (Char → Bool) :=
  if name = "ASCII_DIGIT" then some fun c => '0' ≤ c ∧ c ≤ '9'
  else if name = "ASCII_NONZERO_DIGIT" then some fun c => '1' ≤ c ∧ c ≤ '9'
  else if name = "ASCII_BIN_DIGIT" then some fun c => '0' ≤ c ∧ c ≤ '1'
  else if name = "ASCII_OCT_DIGIT" then some fun c => '0' ≤ c ∧ c ≤ '7'
  else if name = "ASCII_HEX_DIGIT" then some fun c => ('0' ≤ c ∧ c ≤ '9') ∨ ('a' ≤ c ∧ c ≤ 'f') ∨ ('A' ≤ c ∧ c ≤ 'F')
  else if name = "ASCII_ALPHA_LOWER" then some fun c => 'a' ≤ c ∧ c ≤ 'z'
  else if name = "ASCII_ALPHA_UPPER" then some fun c => 'A' ≤ c ∧ c ≤ 'Z'
  else if name = "ASCII_ALPHA" then some fun c => ('a' ≤ c ∧ c ≤ 'z') ∨ ('A' ≤ c ∧ c ≤ 'Z')
  else if name = "ASCII_ALPHANUMERIC" then some fun c => ('a' ≤ c ∧ c ≤ 'z') ∨ ('A' ≤ c ∧ c ≤ 'Z') ∨ ('0' ≤ c ∧ c ≤ '9')
  else if name = "ASCII" then some fun c => c ≤ Char.ofNat 0x7f
  else none

/-- Built-in rules (names not defined by the grammar). -/
def specBuiltin (uni : Uni) (name : String) (i : Inp) (S : List Sp) : SR :=
  if name = "ANY" then
    match i.matchCharBy (fun _ => true) with | some (i', _) => .ok i' S | none => .fail
  else if name = "SOI" then (if i.atStart then .ok i S else .fail)
  else if name = "EOI" then (if i.atEnd then .ok i S else .fail)
  else if name = "NEWLINE" then
    match newlineMatch i with | some (i', _) => .ok i' S | none => .fail
  else if name = "PEEK" then
    match S with
    | [] => .fail
    | sp :: _ => match i.matchString sp.txt with | some i' => .ok i' S | none => .fail
  else if name = "POP" then
    match S with
    | [] => .fail
    | sp :: rest => match i.matchString sp.txt with | some i' => .ok i' rest | none => .fail
  else if name = "DROP" then
    match S with
    | [] => .fail
    | _ :: rest => .ok i rest
  else if name = "PEEK_ALL" then
    match peekSpans S i with | some i' => .ok i' S | none => .fail
  else if name = "POP_ALL" then
    match peekSpans S i with | some i' => .ok i' [] | none => .fail
  else if name = "WHITESPACE" ∨ name = "COMMENT" then .fail
  else match asciiClass name with
    | some p => (match i.matchCharBy p with | some (i', _) => .ok i' S | none => .fail)
    | none => (match i.matchCharBy (uni name) with | some (i', _) => .ok i' S | none => .fail)

/-- Greedy repetition at PEG level: iteration `idx` is `unit idx`; stops at the first failing
iteration (whose effects are discarded) or at `max`; fails when fewer than `min` matched. -/
def specRepLoop (unit : Nat → Inp → List Sp → SR) (min : Nat) (max : Option Nat) :
    Nat → Nat → Inp → List Sp → SR
  | 0, _, _, _ => .oof
  | budget+1, idx, i, S =>
    if max = some idx then (if idx < min then .fail else .ok i S)
    else
      match unit idx i S with
      | .oof => .oof
      | .fail => if idx < min then .fail else .ok i S
      | .ok i' S' => specRepLoop unit min max budget (idx+1) i' S'

/-- The atomicity in force inside the body of rule `name` of kind `k`, entered under `na`.
pest forces WHITESPACE and COMMENT to be atomic whatever their declared kind. -/
def bodyNa (name : String) (k : RuleKind) (na : Bool) : Bool :=
  if name = "WHITESPACE" ∨ name = "COMMENT" then false
  else match k with
    | .normal => na
    | .silent => na
    | .atomic => false
    | .compoundAtomic => false
    | .nonAtomic => true

def PGrammar.find? (g : PGrammar) (name : String) : Option PRule :=
  match g.indexOf name with
  | some k => g[k]?
  | none => none

/-- One step of the implicit skip: WHITESPACE if it matches, else COMMENT. -/
def specSkipUnit (call : String → Inp → List Sp → SR) (hasW hasC : Bool) (i : Inp) (S : List Sp) : SR :=
  if hasW then
    match call "WHITESPACE" i S with
    | .oof => .oof
    | .ok i' S' => .ok i' S'
    | .fail => if hasC then call "COMMENT" i S else .fail
  else if hasC then call "COMMENT" i S
  else .fail

/-- The implicit skip `(WHITESPACE | COMMENT)*` (every attempt atomic; the shape pest writes,
`WHITESPACE* ~ (COMMENT ~ WHITESPACE*)*`, visits the same matches in the same order). -/
def specSkip (call : PExpr → Inp → List Sp → SR) (hasW hasC : Bool) (budget : Nat) (i : Inp) (S : List Sp) : SR :=
  specRepLoop (fun _ i S => specSkipUnit (fun nm i S => call (.ident nm) i S) hasW hasC i S) 0 none budget 0 i S

/-- `e (skip e)*` with bounds: the skip before an iteration that then fails is given back. -/
def specRepWith (sp : Bool → PExpr → Inp → List Sp → SR) (n : Nat) (hasW hasC : Bool) (na : Bool) (e : PExpr)
    (min : Nat) (max : Option Nat) (i : Inp) (S : List Sp) : SR :=
  specRepLoop (fun idx i S =>
    if idx = 0 ∨ !na then sp na e i S
    else
      match specSkip (sp false) hasW hasC (atomicBudget n) i S with
      | .oof => .oof
      | .fail => .fail
      | .ok i1 S1 => sp na e i1 S1) min max n 0 i S

def spec (g : PGrammar) (uni : Uni) : Nat → Bool → PExpr → Inp → List Sp → SR
  | 0, _, _, _, _ => .oof
  | _+1, _, .str s, i, S =>
    match i.matchString s with | some i' => .ok i' S | none => .fail
  | _+1, _, .insens s, i, S =>
    match i.matchInsens s with | some i' => .ok i' S | none => .fail
  | _+1, _, .range lo hi, i, S =>
    match i.matchRange lo hi with | some (i', _) => .ok i' S | none => .fail
  | n+1, na, .ident name, i, S =>
    match g.find? name with
    | some r => spec g uni n (bodyNa name r.kind na) r.expr i S
    | none => specBuiltin uni name i S
  | _+1, _, .peekSlice a b, i, S =>
    match constrainIdxs a b S.length with
    | none => .fail
    | some (lo, hi) =>
      if hi ≤ lo then .ok i S
      else match peekSpans (stackSlice S lo hi) i with
        | some i' => .ok i' S
        | none => .fail
  | n+1, na, .posPred e, i, S =>
    match spec g uni n na e i S with
    | .oof => .oof
    | .fail => .fail
    | .ok _ _ => .ok i S
  | n+1, na, .negPred e, i, S =>
    match spec g uni n na e i S with
    | .oof => .oof
    | .fail => .ok i S
    | .ok _ _ => .fail
  | n+1, na, .seq a b, i, S =>
    match spec g uni n na a i S with
    | .oof => .oof
    | .fail => .fail
    | .ok i1 S1 =>
      if na then
        match specSkip (spec g uni n false) (g.defines "WHITESPACE") (g.defines "COMMENT") (atomicBudget n) i1 S1 with
        | .oof => .oof
        | .fail => .fail
        | .ok i2 S2 => spec g uni n na b i2 S2
      else spec g uni n na b i1 S1
  | n+1, na, .choice a b, i, S =>
    match spec g uni n na a i S with
    | .oof => .oof
    | .ok i' S' => .ok i' S'
    | .fail => spec g uni n na b i S
  | n+1, na, .opt e, i, S =>
    match spec g uni n na e i S with
    | .oof => .oof
    | .ok i' S' => .ok i' S'
    | .fail => .ok i S
  | n+1, na, .rep e, i, S =>
    specRepWith (spec g uni n) n (g.defines "WHITESPACE") (g.defines "COMMENT") na e 0 none i S
  | n+1, na, .repOnce e, i, S =>
    specRepWith (spec g uni n) n (g.defines "WHITESPACE") (g.defines "COMMENT") na e 1 none i S
  | n+1, na, .repExact e k, i, S =>
    specRepWith (spec g uni n) n (g.defines "WHITESPACE") (g.defines "COMMENT") na e k (some k) i S
  | n+1, na, .repMin e k, i, S =>
    specRepWith (spec g uni n) n (g.defines "WHITESPACE") (g.defines "COMMENT") na e k none i S
  | n+1, na, .repMax e k, i, S =>
    specRepWith (spec g uni n) n (g.defines "WHITESPACE") (g.defines "COMMENT") na e 0 (some k) i S
  | n+1, na, .repMinMax e k l, i, S =>
    specRepWith (spec g uni n) n (g.defines "WHITESPACE") (g.defines "COMMENT") na e k (some l) i S
  | _+1, _, .skip needles, i, S => .ok (i.skipUntil needles).1 S
  | n+1, na, .push e, i, S =>
    match spec g uni n na e i S with
    | .oof => .oof
    | .fail => .fail
    | .ok i' S' => .ok i' (i.spanTo i' :: S')
  | n+1, na, .restoreOnErr e, i, S => spec g uni n na e i S

/-- Entry point: rule `name` as start rule on input `i` with an empty stack (pest starts a parse in
NonAtomic mode). -/
def specPartial (g : PGrammar) (uni : Uni) (n : Nat) (name : String) (i : Inp) : SR :=
  spec g uni n true (.ident name) i []

end PestTyped
