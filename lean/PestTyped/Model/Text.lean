/-
Model.Text — executable model of the text layer: `main/src/position.rs` (`Position::new`,
`line_col`, `find_line_start`, `find_line_end`, `line_of`), `main/src/span.rs` (`Span::new`,
`get`, `split`, `as_str`, `lines`, `lines_span`, `merge_spans`) and `main/src/formatter.rs`
(`visualize_ws_and_cntrl`, `display_span`, `display_position` and the four snippet printers).

Written the way the Rust is written: the CR/LF state machine of `line_col` with its `pos == 1`
branch, the two `char_indices` scans of `find_line_start`/`find_line_end` with the `len - 1`
shortcut, `LinesSpan::next` as an explicit step function, the two peekable loops of
`display_span`.  Strings are `List Char`, offsets are byte offsets (`Nat`).

Every place where the Rust can panic — slicing out of range or off a character boundary,
`unwrap` on `None`, `unreachable!()`, indexing a `Vec`, `usize` subtraction below zero (the
harness builds with overflow checks) — yields the explicit result `TR.panic`, so "never panics"
is a statement about the model and not an artefact of totalisation.

Machine width: `Span.get` computes with unbounded integers; `Span.getU w` is the same function
with `w`-bit `usize` bounds (`checked_add(1)?`, C13_get_usize).  Identity of the input object
(`PartialEq`/`Hash` of `Span`, `merge_spans` across inputs) is modelled by `ISpan`.  Callbacks
that fail (`fmt::Error`) are modelled in Lemmas/TextDisplayMore (`FormatOptionE`).  Not modelled:
a failing WRITER (`fmt::Write` returning `Err`), offsets beyond `usize` elsewhere.
`unicode-width` is external: the display width is a parameter `width : Char → Nat` and the width
of a string is the sum over its characters (true of `UnicodeWidthStr::width_cjk` on the texts of
the correspondence runs, where the tie checks it; not true of arbitrary emoji sequences).

Import-free (core only) so that the driver links as a `lean_exe`.
-/
import PestTyped.Model.Basic
namespace PestTyped
namespace Text

/-- Result of a Rust function that can panic. -/
inductive TR (α : Type) where
  | ok (a : α)
  | panic
  deriving DecidableEq, Repr

namespace TR
def bind {α β} : TR α → (α → TR β) → TR β
  | .ok a, f => f a
  | .panic, _ => .panic
instance : Monad TR where
  pure := .ok
  bind := TR.bind
/-- `Option::unwrap`. -/
def unwrap {α} : Option α → TR α
  | some a => .ok a
  | none => .panic
def isOk {α} : TR α → Bool
  | .ok _ => true
  | .panic => false
end TR

/-! ### `str` primitives -/

/-- The suffix after exactly `n` bytes, if `n` falls on a boundary (`str::get(n..)`). -/
def dropBytes : Nat → List Char → Option (List Char)
  | n, [] => if n = 0 then some [] else none
  | n, c :: cs =>
    if n = 0 then some (c :: cs)
    else if c.utf8Size ≤ n then dropBytes (n - c.utf8Size) cs else none

/-- `str::get(a..b)`. -/
def getRange (s : List Char) (a b : Nat) : Option (List Char) :=
  if a ≤ b then (dropBytes a s).bind (takeBytes (b - a)) else none

/-- `&s[a..b]`. -/
def slice (s : List Char) (a b : Nat) : TR (List Char) := TR.unwrap (getRange s a b)

/-- `str::split_at`. -/
def splitAt (s : List Char) (n : Nat) : TR (List Char × List Char) :=
  match takeBytes n s, dropBytes n s with
  | some a, some b => .ok (a, b)
  | _, _ => .panic

/-- `str::char_indices`, starting at byte offset `o`. -/
def charIndicesFrom : Nat → List Char → List (Nat × Char)
  | _, [] => []
  | o, c :: cs => (o, c) :: charIndicesFrom (o + c.utf8Size) cs

def charIndices (s : List Char) : List (Nat × Char) := charIndicesFrom 0 s

/-- `usize` subtraction with overflow checks. -/
def checkedSub (a b : Nat) : TR Nat := if b ≤ a then .ok (a - b) else .panic

/-! ### `position.rs` -/

/-- `Position::new`: `input.get(pos..).map(|_| Position { input, pos })`. -/
def posNew (s : List Char) (pos : Nat) : Option Nat := (dropBytes pos s).map fun _ => pos

/-- The `while pos != 0` loop of `Position::line_col`; `chars` is the peekable iterator. -/
def lineColLoop : List Char → Nat → Nat × Nat → TR (Nat × Nat)
  | chars, pos, lc =>
    if pos = 0 then .ok lc else
    match chars with
    | [] => .panic                                     -- `None => unreachable!()`
    | c :: rest =>
      if c = '\r' then
        match rest with
        | d :: rest' =>
          if d = '\n' then                             -- `Some(&'\n') = chars.peek()`
            if pos = 1 then lineColLoop rest' (pos - 1) (lc.1 + 1, 1)
            else lineColLoop rest' (pos - 2) (lc.1 + 1, 1)
          else lineColLoop (d :: rest') (pos - 1) (lc.1, lc.2 + 1)
        | [] => lineColLoop [] (pos - 1) (lc.1, lc.2 + 1)
      else if c = '\n' then lineColLoop rest (pos - 1) (lc.1 + 1, 1)
      else if c.utf8Size ≤ pos then lineColLoop rest (pos - c.utf8Size) (lc.1, lc.2 + 1)
      else .panic                                      -- `pos -= c.len_utf8()` below zero

/-- `Position::line_col`. -/
def lineCol (s : List Char) (pos : Nat) : TR (Nat × Nat) :=
  if pos > blen s then .panic                          -- "position out of bounds"
  else match takeBytes pos s with                      -- `&self.input[..pos]`
    | none => .panic
    | some sl => lineColLoop sl pos (1, 1)

/-- `Position::find_line_start`. -/
def findLineStart (s : List Char) (pos : Nat) : Nat :=
  if s.isEmpty then 0 else
  match ((charIndices s).reverse.dropWhile (fun ic => decide (ic.1 ≥ pos))).find?
      (fun ic => ic.2 == '\n') with
  | some ic => ic.1 + 1
  | none => 0

/-- `Position::find_line_end`. -/
def findLineEnd (s : List Char) (pos : Nat) : Nat :=
  if s.isEmpty then 0
  else if pos = blen s - 1 then blen s
  else
    match ((charIndices s).dropWhile (fun ic => decide (ic.1 < pos))).find?
        (fun ic => ic.2 == '\n') with
    | some ic => ic.1 + 1
    | none => blen s

/-- `Position::line_of`. -/
def lineOf (s : List Char) (pos : Nat) : TR (List Char) :=
  if pos > blen s then .panic
  else slice s (findLineStart s pos) (findLineEnd s pos)

/-! ### `span.rs` -/

structure Span where
  input : List Char
  start : Nat
  stop : Nat
  deriving DecidableEq, Repr, Inhabited

/-- `Span::new`. -/
def Span.new (s : List Char) (a b : Nat) : Option Span :=
  if (getRange s a b).isSome then some ⟨s, a, b⟩ else none

/-- `Span::as_str`. -/
def Span.asStr (sp : Span) : TR (List Char) := slice sp.input sp.start sp.stop

/-- `Span::split` (the two positions, as offsets). -/
def Span.split (sp : Span) : Nat × Nat := (sp.start, sp.stop)

/-- `core::ops::Bound<usize>`. -/
inductive Bound where
  | incl (n : Nat)
  | excl (n : Nat)
  | unb
  deriving DecidableEq, Repr

def Bound.startOff : Bound → Nat
  | .incl o => o
  | .excl o => o + 1
  | .unb => 0

def Bound.endOff (len : Nat) : Bound → Nat
  | .incl o => o + 1
  | .excl o => o
  | .unb => len

/-- `Span::get(range)`. -/
def Span.get (sp : Span) (lo hi : Bound) : TR (Option Span) :=
  match sp.asStr with
  | .panic => .panic
  | .ok str =>
    let st := lo.startOff
    let en := hi.endOff (blen str)
    .ok ((getRange str st en).map fun _ => ⟨sp.input, sp.start + st, sp.start + en⟩)

/-- `usize::checked_add(1)` on a machine with `w`-bit `usize`. -/
def checkedSucc (w : Nat) (o : Nat) : Option Nat := if o + 1 < 2 ^ w then some (o + 1) else none

/-- `Span::get(range)` with `usize` bounds of `w` bits, as written after the overflow repair:
```
let start = match range.start_bound() { Included(o) => *o, Excluded(o) => o.checked_add(1)?, Unbounded => 0 };
let end = match range.end_bound() { Included(o) => o.checked_add(1)?, Excluded(o) => *o,
                                    Unbounded => self.as_str().len() };
self.as_str().get(start..end).map(|_| Span { input, start: self.start + start, end: self.start + end })
```
A bound whose successor does not fit in `usize` makes the whole call `None` (`?`), before the text
of the span is looked at.  `Span.get` above is the same function with unbounded integers. -/
def Span.getU (w : Nat) (sp : Span) (lo hi : Bound) : TR (Option Span) :=
  let start? : Option Nat := match lo with
    | .incl o => some o
    | .excl o => checkedSucc w o
    | .unb => some 0
  match start? with
  | none => .ok none
  | some st =>
    let end? : TR (Option Nat) := match hi with
      | .incl o => .ok (checkedSucc w o)
      | .excl o => .ok (some o)
      | .unb => match sp.asStr with
        | .panic => .panic
        | .ok str => .ok (some (blen str))
    match end? with
    | .panic => .panic
    | .ok none => .ok none
    | .ok (some en) =>
      match sp.asStr with
      | .panic => .panic
      | .ok str => .ok ((getRange str st en).map fun _ => ⟨sp.input, sp.start + st, sp.start + en⟩)

/-- `LinesSpan::next`: the item and the iterator's new `pos`. -/
def linesSpanNext (sp : Span) (pos : Nat) : Option Span × Nat :=
  if pos > sp.stop then (none, pos) else
  match posNew sp.input pos with
  | none => (none, pos)
  | some p =>
    if p = blen sp.input then (none, pos)              -- `pos.at_end()`
    else
      let lineStart := findLineStart sp.input p
      let pos' := findLineEnd sp.input p
      (Span.new sp.input lineStart pos', pos')

/-- Collecting the iterator (it is fused by use: collection stops at the first `None`).
`none` = out of fuel. -/
def linesSpanGo : Nat → Span → Nat → Option (List Span)
  | 0, _, _ => none
  | fuel + 1, sp, pos =>
    match linesSpanNext sp pos with
    | (some l, pos') => (linesSpanGo fuel sp pos').map (l :: ·)
    | (none, _) => some []

/-- `span.lines_span().collect()`; every step advances `pos`, so `len + 2` steps suffice
(theorem `C13_lines_fuel`). -/
def Span.linesSpan (sp : Span) : List Span :=
  (linesSpanGo (blen sp.input + 2) sp sp.start).getD []

def mapTR {α β} (f : α → TR β) : List α → TR (List β)
  | [] => .ok []
  | a :: as =>
    match f a with
    | .panic => .panic
    | .ok b => match mapTR f as with
      | .panic => .panic
      | .ok bs => .ok (b :: bs)

/-- `span.lines().collect()`. -/
def Span.lines (sp : Span) : TR (List (List Char)) := mapTR Span.asStr sp.linesSpan

/-- `merge_spans`. -/
def mergeSpans (a b : Span) : Option Span :=
  if a.stop ≥ b.start ∧ a.start ≤ b.stop then
    Span.new a.input (min a.start b.start) (max a.stop b.stop)
  else none

/-- A span together with the identity of its input object.  `obj` stands for the fat pointer
`self.input as *const str` (address and length): two `&str` are the same input object iff they
have the same `obj`; equal TEXT does not make two inputs the same object. -/
structure ISpan where
  obj : Nat
  sp : Span
  deriving DecidableEq, Repr

/-- `impl PartialEq for Span`: `ptr::eq(self.input, other.input) && start == start && end == end`;
the text is never compared. -/
def ISpan.eq (a b : ISpan) : Bool :=
  a.obj == b.obj && a.sp.start == b.sp.start && a.sp.stop == b.sp.stop

/-- `impl Hash for Span`: what is fed to the hasher, in order. -/
def ISpan.hashFeed (a : ISpan) : List Nat := [a.obj, a.sp.start, a.sp.stop]

/-- `merge_spans` on spans of arbitrary input objects: the inputs are not compared, the result is
built by `Span::new(a.get_input(), …)`, i.e. validated against and pointing into `a`'s input. -/
def mergeISpans (a b : ISpan) : Option ISpan := (mergeSpans a.sp b.sp).map fun r => ⟨a.obj, r⟩

/-! ### `formatter.rs` -/

/-- One character of `visualize_ws_and_cntrl`: the table as written. -/
def visChar (c : Char) : Char :=
  match c.toNat with
  | 0x0 => '␀' | 0x1 => '␁' | 0x2 => '␂' | 0x3 => '␃'
  | 0x4 => '␄' | 0x5 => '␅' | 0x6 => '␆' | 0x7 => '␇'
  | 0x8 => '␈' | 0x9 => '␉' | 0xa => '␊' | 0xb => '␋'
  | 0xc => '␌' | 0xd => '␍' | 0xe => '␎' | 0xf => '␏'
  | 0x10 => '␐' | 0x11 => '␑' | 0x12 => '␒' | 0x13 => '␓'
  | 0x14 => '␔' | 0x15 => '␕' | 0x16 => '␖' | 0x17 => '␗'
  | 0x18 => '␘' | 0x19 => '␙' | 0x1a => '␚' | 0x1b => '␛'
  | 0x1c => '␜' | 0x1d => '␝' | 0x1e => '␞' | 0x1f => '␟'
  | 0x7f => '␡'
  | _ => c

/-- `visualize_ws_and_cntrl`. -/
def visualize (line : List Char) : List Char := line.map visChar

/-- `UnicodeWidthStr::width_cjk` as the sum of the character widths. -/
def strWidth (width : Char → Nat) : List Char → Nat
  | [] => 0
  | c :: cs => width c + strWidth width cs

/-- `FormatOption`: what each of the three callbacks writes for a given text. -/
structure FormatOption where
  span : List Char → List Char
  marker : List Char → List Char
  number : List Char → List Char

/-- `FormatOption::default()`: `write!(f, "{s}")` thrice. -/
def FormatOption.default : FormatOption := ⟨id, id, id⟩

/-- A recording option used by the correspondence runs: every callback brackets its text. -/
def FormatOption.bracket : FormatOption :=
  ⟨fun s => '<' :: 'S' :: ':' :: s ++ ['>'], fun s => '<' :: 'M' :: ':' :: s ++ ['>'],
   fun s => '<' :: 'N' :: ':' :: s ++ ['>']⟩

structure LPos where
  line : Nat
  col : Nat
  deriving DecidableEq, Repr

/-- One output line of a snippet (all four printers write whole lines):
* `gutter`  — `"{spacing} " number("|")`
* `text n pre hl post` — `number("{n:w$}") " " number("|") " {pre}" span(hl) "{post}"`;
  `hl = none` when the span callback is not called (position snippet)
* `mark col m` — `"{spacing} " number("|") " " " "×col marker(m)`
* `dots`    — `"{spacing} " number("|") " ..."`. -/
inductive Row where
  | gutter
  | text (n : Nat) (pre : List Char) (hl : Option (List Char)) (post : List Char)
  | mark (col : Nat) (m : List Char)
  | dots
  deriving DecidableEq, Repr

/-- What `display_span` / `display_position` decided to print: the width of the number column
and the lines. -/
structure Snippet where
  digits : Nat
  rows : List Row
  deriving DecidableEq, Repr

/-- `Partition::new`: `(line, former, latter)`. -/
def partition (s : List Char) (col : Nat) : TR (List Char × List Char) :=
  match splitAt s col with
  | .panic => .panic
  | .ok (former, latter) => .ok (visualize former, visualize latter)

/-- `Partition2::new`: `(former, middle, latter)`. -/
def partition2 (s : List Char) (colStart colEnd : Nat) : TR (List Char × List Char × List Char) :=
  match splitAt s colEnd with
  | .panic => .panic
  | .ok (former, latter) =>
    match splitAt former colStart with
    | .panic => .panic
    | .ok (former, middle) => .ok (visualize former, visualize middle, visualize latter)

/-- `ceil_log10`: number of decimal digits (`fuel` bounds the `while i >= 10` loop). -/
def ceilLog10Go : Nat → Nat → Nat → Nat
  | 0, digit, _ => digit
  | fuel + 1, digit, i => if i ≥ 10 then ceilLog10Go fuel (digit + 1) (i / 10) else digit

def ceilLog10 (num : Nat) : Nat := ceilLog10Go num 1 num

/-- `display_snippet_single_pos`. -/
def snippetSinglePos (width : Char → Nat) (line : Nat) (former latter : List Char) : List Row :=
  [.gutter, .text (line + 1) former none latter, .mark (strWidth width former) ['^']]

/-- `display_snippet_single_line`. -/
def snippetSingleLine (width : Char → Nat) (line : Nat) (former middle latter : List Char) :
    List Row :=
  [.gutter, .text (line + 1) former (some middle) latter,
   .mark (strWidth width former) (List.replicate (strWidth width middle) '^')]

/-- `display_snippet_multi_line`; `inner = (first, mid, ellipsis, last)`. -/
def snippetMultiLine (width : Char → Nat) (startLine : Nat) (sFormer sLatter : List Char)
    (endLine : Nat) (eFormer eLatter : List Char)
    (inner : Option (List Char) × Option (List Char) × Bool × Option (List Char)) : List Row :=
  [.mark (strWidth width sFormer) ['v'], .text (startLine + 1) sFormer (some sLatter) []]
  ++ (match inner.1 with
      | some l => [Row.text (startLine + 2) [] (some l) []]
      | none => [])
  ++ (match inner.2.1 with
      | some l => [Row.text (startLine + 3) [] (some l) []]
      | none => if inner.2.2.1 then [Row.dots] else [])
  ++ (match inner.2.2.2 with
      | some l => [Row.text endLine [] (some l) []]
      | none => [])
  ++ [.text (endLine + 1) [] (some eFormer) eLatter,
      .mark (strWidth width eFormer - 1) ['^']]          -- `saturating_sub(1)`

/-- `all_lines` of `display_span` / `display_position`: after
`input = Span::new(s, 0, s.len()).unwrap()`, the empty input is displayed as one empty line
(`[""].to_vec()`), any other input as `input.lines().collect()`. -/
def allLines (s : List Char) : TR (List (List Char)) :=
  match Span.new s 0 (blen s) with
  | none => .panic
  | some inp => if s.isEmpty then .ok [[]] else inp.lines

/-- First loop of `display_span` (`while let Some(..) = iter.peek()`): the start position if
found, and the iterator state `(index, pos, remaining lines)`; the line on which the loop
breaks is not consumed. -/
def findStart (start : Nat) : List (List Char) → Nat → Nat →
    TR (Option LPos × Nat × Nat × List (List Char))
  | [], idx, pos => .ok (none, idx, pos, [])
  | line :: rest, idx, pos =>
    if pos + blen line ≥ start then
      match checkedSub start pos with
      | .panic => .panic
      | .ok col => .ok (some ⟨idx, col⟩, idx, pos, line :: rest)
    else findStart start rest (idx + 1) (pos + blen line)

/-- Second loop of `display_span` (`for (index, line) in iter`). -/
def findEnd (stop : Nat) : List (List Char) → Nat → Nat → TR (Option LPos)
  | [], _, _ => .ok none
  | line :: rest, idx, pos =>
    if pos + blen line ≥ stop then
      match checkedSub stop pos with
      | .panic => .panic
      | .ok col => .ok (some ⟨idx, col⟩)
    else findEnd stop rest (idx + 1) (pos + blen line)

/-- `lines[k]` on a `Vec`. -/
def nth (ls : List (List Char)) (k : Nat) : TR (List Char) := TR.unwrap ls[k]?

/-- `display_span` up to the choice of callbacks. -/
def spanSnippet (width : Char → Nat) (sp : Span) : TR Snippet :=
  match allLines sp.input with
  | .panic => .panic
  | .ok ls =>
  match findStart sp.start ls 0 0 with
  | .panic => .panic
  | .ok (start?, idx, pos, rest) =>
  match findEnd sp.stop rest idx pos with
  | .panic => .panic
  | .ok end? =>
  match start?, end? with
  | none, _ => .panic                                  -- `start.unwrap()`
  | _, none => .panic                                  -- `end.unwrap()`
  | some start, some stop =>
  match checkedSub stop.line start.line with
  | .panic => .panic
  | .ok cnt =>
  let lines := (ls.drop start.line).take (cnt + 1)
  let digits := ceilLog10 (stop.line + 1)
  if start.line = stop.line then
    match TR.unwrap lines.head? with                   -- `lines.next().unwrap()`
    | .panic => .panic
    | .ok cur =>
      match partition2 cur start.col stop.col with
      | .panic => .panic
      | .ok (f, m, l) => .ok ⟨digits, snippetSingleLine width start.line f m l⟩
  else
    match TR.unwrap lines.head?, TR.unwrap lines.getLast? with
    | .ok startLine, .ok endLine =>
      match partition startLine start.col, partition endLine stop.col with
      | .ok (sf, sl), .ok (ef, el) =>
        let n := lines.length
        let innerFirst : TR (Option (List Char)) :=
          if n ≥ 3 then (nth lines 1).bind fun l => .ok (some (visualize l)) else .ok none
        let innerMid : TR (Option (List Char) × Bool) :=
          if n ≥ 6 then .ok (none, true)
          else if n = 5 then (nth lines 2).bind fun l => .ok (some (visualize l), false)
          else .ok (none, false)
        let innerLast : TR (Option (List Char)) :=
          if n ≥ 4 then (nth lines (n - 2)).bind fun l => .ok (some (visualize l)) else .ok none
        match innerFirst, innerMid, innerLast with
        | .ok i1, .ok (i2, i3), .ok i4 =>
          .ok ⟨digits, snippetMultiLine width start.line sf sl stop.line ef el (i1, i2, i3, i4)⟩
        | _, _, _ => .panic
      | _, _ => .panic
    | _, _ => .panic

/-- The loop of `display_position`; `last` is `last_index`: the end of input belongs to the last
line. -/
def positionLoop (width : Char → Nat) (p last : Nat) :
    List (List Char) → Nat → Nat → TR (Option Snippet)
  | [], _, _ => .ok none
  | line :: rest, idx, pos =>
    if pos + blen line > p ∨ idx = last then
      match checkedSub p pos with
      | .panic => .panic
      | .ok c =>
        match partition line c with
        | .panic => .panic
        | .ok (f, l) => .ok (some ⟨ceilLog10 (idx + 1), snippetSinglePos width idx f l⟩)
    else positionLoop width p last rest (idx + 1) (pos + blen line)

/-- `display_position` up to the choice of callbacks; `none`: nothing is written (the loop ran
out of lines — `C14_position` shows that this does not happen). -/
def positionSnippet (width : Char → Nat) (s : List Char) (p : Nat) : TR (Option Snippet) :=
  match allLines s with
  | .panic => .panic
  | .ok ls =>
    match checkedSub ls.length 1 with                    -- `all_lines.len() - 1`
    | .panic => .panic
    | .ok last => positionLoop width p last ls 0 0

/-! ### writing the rows -/

def digitsGo : Nat → Nat → List Char → List Char
  | 0, _, acc => acc
  | fuel + 1, n, acc =>
    let acc' := Char.ofNat (48 + n % 10) :: acc
    if n < 10 then acc' else digitsGo fuel (n / 10) acc'

/-- `format!("{}", n)`. -/
def natStr (n : Nat) : List Char := digitsGo (n + 1) n []

/-- `format!("{:w$}", n)`: right-aligned, padded with spaces. -/
def padNum (w n : Nat) : List Char :=
  let d := natStr n
  List.replicate (w - d.length) ' ' ++ d

def renderRow (opt : FormatOption) (digits : Nat) : Row → List Char
  | .gutter => List.replicate digits ' ' ++ [' '] ++ opt.number ['|'] ++ ['\n']
  | .text n pre hl post =>
    opt.number (padNum digits n) ++ [' '] ++ opt.number ['|'] ++ [' '] ++ pre ++
      (match hl with | some h => opt.span h | none => []) ++ post ++ ['\n']
  | .mark col m =>
    List.replicate digits ' ' ++ [' '] ++ opt.number ['|'] ++ [' '] ++ List.replicate col ' ' ++
      opt.marker m ++ ['\n']
  | .dots => List.replicate digits ' ' ++ [' '] ++ opt.number ['|'] ++ [' ', '.', '.', '.', '\n']

def render (opt : FormatOption) (sn : Snippet) : List Char :=
  (sn.rows.map (renderRow opt sn.digits)).flatten

/-- `Span::display(f, opt)` / `impl Display for Span`. -/
def displaySpan (opt : FormatOption) (width : Char → Nat) (sp : Span) : TR (List Char) :=
  match spanSnippet width sp with
  | .panic => .panic
  | .ok sn => .ok (render opt sn)

/-- `Position::display(f, opt)` / `impl Display for Position`. -/
def displayPosition (opt : FormatOption) (width : Char → Nat) (s : List Char) (p : Nat) :
    TR (List Char) :=
  match positionSnippet width s p with
  | .panic => .panic
  | .ok none => .ok []
  | .ok (some sn) => .ok (render opt sn)

end Text
end PestTyped
