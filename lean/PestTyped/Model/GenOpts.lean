/-
Model.GenOpts — the option-dependent part of the generator.

Mirrors `generator/src/config.rs` (`Config`), `generator/src/typed.rs:56-80` (optimized versus raw
AST path, `pest_optimizer`), `generator/src/graph.rs:645-694` (`Implicit`, `collect_used_rules`,
`collect_reachability`), `generator/src/graph.rs:725-728` (`not_boxed` = the keys that survive the
reachability loop) and `generator/src/graph/{rule,optimized_rule}.rs` (`collect_used_rule`, and
`boxed = !config.box_only_if_needed || !not_boxed.contains(rule_name)` in `generate_graph`).

What the options do in /repo (default features; `grammar-extras` is not modelled):
* `pest_optimizer`         — which AST `generate_graph` walks (pest_meta's optimizer is external:
                             both ASTs are inputs here).
* `box_only_if_needed`     — the `$boxed` argument of `rule!` (content stored as `Box<T>` or `T`).
* `emit_rule_reference`    — adds getters (`Getter::from_rule`); getters are not part of `NodeGrammar`.
* `emit_tagged_node_reference`, `truncate_getter_at_node_tag` — only read under `grammar-extras`.
* `no_warnings`            — only silences an `eprintln!` in `parse_typed_derive`.
* `do_not_emit_span`, `simulate_pair_api` — parsed into `Config`, never read afterwards.

The ordered containers of the Rust code (`BTreeSet<&str>`, `BTreeMap<&str, BTreeSet<&str>>`) are
lists here: duplicate-free lists for sets, association lists with unique keys for maps.  Only
membership, key membership and set sizes are ever observed by the code, so the order of the lists
is immaterial (`Lemmas/GenOptsLemmas.lean` proves what is needed about them).  The loop is generic
in the key type so that it can be run by `decide` on small numbers as well as on rule names.
Import-free apart from the model (core only): the driver links it.
-/
import PestTyped.Model.Gen
import PestTyped.Model.Getters
namespace PestTyped

/-- `generator/src/config.rs`. -/
structure Config where
  emit_rule_reference : Bool := false
  emit_tagged_node_reference : Bool := false
  do_not_emit_span : Bool := false
  pest_optimizer : Bool := true
  truncate_getter_at_node_tag : Bool := true
  simulate_pair_api : Bool := false
  box_only_if_needed : Bool := false
  no_warnings : Bool := false
  deriving DecidableEq, Repr, Inhabited

/-! ### sets and maps as lists -/

section Generic
variable {α : Type} [DecidableEq α]

/-- `BTreeSet::insert`. -/
def setInsert (x : α) (s : List α) : List α := if x ∈ s then s else s ++ [x]

/-- `BTreeSet::extend`. -/
def setExtend (s : List α) (xs : List α) : List α := xs.foldl (fun acc x => setInsert x acc) s

/-- `BTreeMap<K, BTreeSet<K>>` as an association list with unique keys. -/
abbrev RMap (α : Type) := List (α × List α)

/-- `BTreeMap::get`. -/
def RMap.get? : RMap α → α → Option (List α)
  | [], _ => none
  | (k, v) :: rest, x => if k = x then some v else RMap.get? rest x

/-- `BTreeMap::remove` (the map part of its result). -/
def RMap.remove (m : RMap α) (x : α) : RMap α := m.filter (fun kv => decide (kv.1 ≠ x))

/-- `BTreeMap::insert`. -/
def RMap.insert (m : RMap α) (x : α) (v : List α) : RMap α := (x, v) :: RMap.remove m x

def RMap.keys (m : RMap α) : List α := m.map (·.1)

/-- First loop of `collect_reachability` (graph.rs:666-669): `rules` is the list of
(rule name, the names `collect_used_rule` inserts for it, in order);
`res.entry(name).or_default()` then the inserts. -/
def reachInit : List (α × List α) → RMap α → RMap α
  | [], res => res
  | (name, used) :: rest, res =>
    reachInit rest (RMap.insert res name (setExtend ((RMap.get? res name).getD []) used))

/-- `new.extend(iter)` for every `referenced in cur` that is still a key of `res` (graph.rs:676-680). -/
def reachExtend (res : RMap α) (cur : List α) : List α :=
  cur.foldl (fun new referenced =>
    match RMap.get? res referenced with
    | some s => setExtend new s
    | none => new) cur

/-- Body of `for rule in rules` (graph.rs:672-688); the `Bool` is `updated`. -/
def reachStep (st : RMap α × Bool) (name : α) : RMap α × Bool :=
  match RMap.get? st.1 name with
  | none => st
  | some cur =>
    let res := RMap.remove st.1 name
    let new := reachExtend res cur
    let updated := st.2 || decide (new.length > cur.length)
    if name ∈ new then (res, updated) else (RMap.insert res name new, updated)

/-- One round of the outer loop (graph.rs:671-689). -/
def reachPass (names : List α) (res : RMap α) : RMap α × Bool :=
  names.foldl reachStep (res, false)

/-- `for _ in 0..rules.len() { …; if !updated { break; } }` (graph.rs:670-693). -/
def reachLoop (names : List α) : Nat → RMap α → RMap α
  | 0, res => res
  | k+1, res =>
    let p := reachPass names res
    if p.2 then reachLoop names k p.1 else p.1

/-- `collect_reachability` (graph.rs:661-694). -/
def collectReachability (rules : List (α × List α)) : RMap α :=
  reachLoop (rules.map (·.1)) rules.length (reachInit rules [])

end Generic

/-! ### `collect_used_rule` -/

/-- `Implicit` (graph.rs:639-655). -/
structure Implicit where
  whitespace : Bool
  comment : Bool
  deriving DecidableEq, Repr

def Implicit.of (g : PGrammar) : Implicit :=
  { whitespace := g.any (fun r => r.name = "WHITESPACE"), comment := g.any (fun r => r.name = "COMMENT") }

/-- The `Ident`s of an expression (the work-list traversal of `collect_used_rule`; the order of the
visits differs from the Rust work stack, which is irrelevant because the result is inserted in a set). -/
def usedIdents : PExpr → List String
  | .str _ => []
  | .insens _ => []
  | .range _ _ => []
  | .ident name => [name]
  | .peekSlice _ _ => []
  | .posPred e => usedIdents e
  | .negPred e => usedIdents e
  | .seq a b => usedIdents a ++ usedIdents b
  | .choice a b => usedIdents a ++ usedIdents b
  | .opt e => usedIdents e
  | .rep e => usedIdents e
  | .repOnce e => usedIdents e
  | .repExact e _ => usedIdents e
  | .repMin e _ => usedIdents e
  | .repMax e _ => usedIdents e
  | .repMinMax e _ _ => usedIdents e
  | .skip _ => []
  | .push e => usedIdents e
  | .restoreOnErr e => usedIdents e

/-- The sequence of `res.insert(..)` calls `collect_used_rule` performs for one rule:
the implicit skip rules for `RuleType::Normal` rules only, then every identifier of the body. -/
def usedNames (r : PRule) (imp : Implicit) : List String :=
  (if r.kind = .normal ∧ imp.comment then ["COMMENT"] else []) ++
  (if r.kind = .normal ∧ imp.whitespace then ["WHITESPACE"] else []) ++
  usedIdents r.expr

/-- `R::collect_used_rule(rule, implicit, &mut res)`. -/
def collectUsedRule (r : PRule) (imp : Implicit) (res : List String) : List String :=
  setExtend res (usedNames r imp)

/-- `collect_used_rules` (graph.rs:653-659). -/
def collectUsedRules (g : PGrammar) : List String :=
  g.foldl (fun res r => collectUsedRule r (Implicit.of g) res) []

/-- The input of the reachability loop for a grammar. -/
def usedTable (g : PGrammar) : List (String × List String) :=
  g.map (fun r => (r.name, usedNames r (Implicit.of g)))

/-- `not_boxed` (graph.rs:725-728): the keys left in the reachability map. -/
def notBoxed (g : PGrammar) : List String := RMap.keys (collectReachability (usedTable g))

/-- `let boxed = !config.box_only_if_needed || !not_boxed.contains(rule_name);` -/
def isBoxed (cfg : Config) (g : PGrammar) (name : String) : Bool :=
  !cfg.box_only_if_needed || !(notBoxed g).contains name

/-! ### generation under a configuration -/

def genRuleWith (cfg : Config) (g : PGrammar) (r : PRule) : RuleDef :=
  { genRule g r with boxed := isBoxed cfg g r.name }

/-- `generate_typed_pair_from_rule(rules, doc, config)` on one AST. -/
def genOn (cfg : Config) (g : PGrammar) : NodeGrammar :=
  { rules := eoiDef :: g.map (genRuleWith cfg g), skipped := genSkipped g }

/-- `typed.rs:56-80`: the AST the generator walks. -/
def pickAst (cfg : Config) (optimized raw : PGrammar) : PGrammar :=
  if cfg.pest_optimizer then optimized else raw

/-- `derive_typed_parser` as far as type expressions go: `optimized` is
`pest_meta::optimizer::optimize(raw)` (external, hence an input), `raw` is `consume_rules`' output. -/
def genWith (cfg : Config) (optimized raw : PGrammar) : NodeGrammar :=
  genOn cfg (pickAst cfg optimized raw)

/-! ### the whole emitted module: rule types AND accessor functions

`NodeGrammar` holds what `rule!` receives (the type expression, `$atomicity`, `$emission`, `$boxed`).  The second
thing the generator emits per rule is the `impl` block with the accessor functions (`Getter::collect`,
`graph.rs:322-355`); `Model/Getters.lean` mirrors the getter forest.  `emit_rule_reference` is the option that
decides whether an identifier contributes `Getter::from_rule` or `Getter::new()` (`graph/rule.rs:162-166`,
`graph/optimized_rule.rs:165-169`): every other constructor only transforms / joins the forests of its children, so
with the option off the forest of every rule is empty.  The options `do_not_emit_span`, `simulate_pair_api`,
`no_warnings` are parsed into `Config` (`typed.rs:108-130`) and read nowhere in the generation
(`no_warnings` guards one `eprintln!`); `emit_tagged_node_reference` / `truncate_getter_at_node_tag` are read only
inside `#[cfg(feature = "grammar-extras")]` arms (node tags are not part of `PExpr`).  `emitWith` mirrors exactly
that: it reads `pest_optimizer`, `box_only_if_needed` and `emit_rule_reference`. -/

/-- The accessor functions of one rule under a configuration (name ↦ getter tree, sorted by name). -/
def accessorsOf (cfg : Config) (r : PRule) : Forest :=
  if cfg.emit_rule_reference then ruleGetters r else []

/-- What `derive_typed_parser` emits for the rules, as far as the model goes. -/
structure Emitted where
  /-- the arguments of every `rule!` invocation and the `Skipped` alias -/
  types : NodeGrammar
  /-- per rule (in grammar order): its name and the accessor functions of its `impl` block -/
  accessors : List (String × Forest)

def emitWith (cfg : Config) (optimized raw : PGrammar) : Emitted :=
  let g := pickAst cfg optimized raw
  { types := genOn cfg g, accessors := g.map fun r => (r.name, accessorsOf cfg r) }

/-! ### forgetting the storage decision -/

def RuleDef.eraseBoxed (d : RuleDef) : RuleDef := { d with boxed := true }

/-- `erase`: the generated module with every `$boxed` argument replaced by `true`. -/
def NodeGrammar.eraseBoxed (G : NodeGrammar) : NodeGrammar :=
  { G with rules := G.rules.map RuleDef.eraseBoxed }

def Tag.eraseBoxed : Tag → Tag
  | .rule r emit _ s e => .rule r emit true s e
  | t => t

mutual
/-- A value with the `boxed` field of every rule node replaced by `true`. -/
def Val.eraseBoxed : Val → Val
  | .mk t kids => .mk t.eraseBoxed (Val.eraseBoxedList kids)
def Val.eraseBoxedList : List Val → List Val
  | [] => []
  | v :: vs => v.eraseBoxed :: Val.eraseBoxedList vs
end

end PestTyped
