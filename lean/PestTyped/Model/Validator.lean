/-
Model.Validator — a mirror of `pest_meta::validator::validate_ast` (pest_meta 2.7.14,
`src/validator.rs:218-246, 316-700`), the part of pest's front end that `parser::consume_rules`
runs on the parsed (un-optimized) rules and that pest-typed's derive relies on to refuse
ill-formed grammars (`generator/src/typed.rs`: `unwrap_or_report(consume_rules(pairs))`).

pest_meta is external code: this file is a *model of the environment*, tied to the real validator by
the correspondence check `validator-mirror` of `checks/c11.py` (`harness/gen_runner` builds the
`ParserRule`s of every corpus grammar, calls the real `validate_ast` on them and prints the same
rules as an S-expression; `Driver/Validator.lean` runs `pestValidate` on that S-expression; the
multiset of error classes must agree for every grammar).

Mirrored functions (same case analysis, same order of tests, same trace discipline):
* `isNonFailing`      `is_non_failing(expr, rules, trace)`      validator.rs:405-487
* `isNonProgressing`  `is_non_progressing(expr, rules, trace)`  validator.rs:316-403
* `validateRepetition`, `validateChoices`, `validateWhitespaceComment`, `validateLeftRecursion`
  (`left_recursion`/`check_expr`, validator.rs:604-700) and `pestValidate` = `validate_ast`.

Conventions.
* `rules: HashMap<String, &ParserNode>` is built by `to_hash_map` (`collect()` of `(name, node)`
  pairs): for a name defined twice the LAST definition wins (`vLookup`).  `consume_rules` does not
  run `validate_pairs`, so duplicate and undefined names do reach `validate_ast`.
* The recursive calls of the Rust functions are structural except at an identifier, where they jump
  to the body of the named rule after pushing the name on `trace`; a name already on the trace is
  never entered again.  Here the structural part is an inner recursion on the expression and the
  jump consumes one unit of the outer `fuel`; every jump pushes a *defined* name that is not yet on
  the trace, so at most `g.length` nested jumps happen and `valFuel g = g.length + 1` is never
  exhausted (`Lemmas/ValidatorRep.lean`: `nonProg_fuel_irrelevant`, `nonFailing_fuel_irrelevant`).  Out of fuel answers
  `false` / `none` (never reached).
* Errors carry no source span here (the AST has none), so `pestValidate` lists the error CLASSES in
  the order in which `validate_ast` *collects* them (repetition, choice, WHITESPACE/COMMENT, left
  recursion; inside each group by rule, pre-order inside a rule); pest finally applies a stable sort
  by source span, which the tie undoes by comparing multisets.  `left_recursion` iterates over a
  `HashMap` (arbitrary order); here the rules are visited in definition order.
* `skip` and `restoreOnErr` never occur in the validator's input (`ParserExpr` has no such
  variants): they are treated like the other leaves (`false` / no error).
Core only: linked into `model_driver`.
-/
import PestTyped.Model.Pest
namespace PestTyped

/-- The six `CustomError` messages of `validate_ast`. -/
inductive ValidatorError where
  /-- "expression inside repetition cannot fail and will repeat infinitely" -/
  | repCannotFail
  /-- "expression inside repetition is non-progressing and will repeat infinitely" -/
  | repNonProgressing
  /-- "expression cannot fail; following choices cannot be reached" -/
  | choiceUnreachable
  /-- "WHITESPACE|COMMENT cannot fail and will repeat infinitely" -/
  | skipCannotFail
  /-- "WHITESPACE|COMMENT is non-progressing and will repeat infinitely" -/
  | skipNonProgressing
  /-- "rule … is left-recursive (…); pest::pratt_parser might be useful in this case" -/
  | leftRecursion
  deriving DecidableEq, Repr, Inhabited

/-- `to_hash_map(rules).get(name)`: the body of the LAST rule of that name. -/
def vLookupGo (name : String) : List PRule → Option PExpr → Option PExpr
  | [], acc => acc
  | r :: rs, acc => vLookupGo name rs (if r.name = name then some r.expr else acc)

def vLookup (g : PGrammar) (name : String) : Option PExpr := vLookupGo name g none

/-- Enough fuel for every jump chain (one unit per rule entered, every rule at most once per chain). -/
def valFuel (g : PGrammar) : Nat := g.length + 1

/-! ### `is_non_failing` -/

/-- The structural part of `is_non_failing`; `jump name` is the answer for entering the rule `name`
(already known to be off the trace and defined). -/
def nonFailingAux (g : PGrammar) (jump : List String → PExpr → Bool) (trace : List String) : PExpr → Bool
  | .str s => s.isEmpty
  | .insens s => s.isEmpty
  | .ident name =>
    if !trace.contains name then
      match vLookup g name with
      | some body => jump (trace ++ [name]) body
      | none => false
    else false
  | .opt _ => true
  | .rep _ => true
  | .repMax _ _ => true
  | .seq a b => nonFailingAux g jump trace a && nonFailingAux g jump trace b
  | .choice a b => nonFailingAux g jump trace a || nonFailingAux g jump trace b
  | .range _ _ => false
  | .peekSlice _ _ => false
  | .repExact e n => n == 0 || nonFailingAux g jump trace e
  | .repMin e n => n == 0 || nonFailingAux g jump trace e
  | .repMinMax e n _ => n == 0 || nonFailingAux g jump trace e
  | .negPred _ => false
  | .repOnce e => nonFailingAux g jump trace e
  | .push e => nonFailingAux g jump trace e
  | .posPred e => nonFailingAux g jump trace e
  | .skip _ => false
  | .restoreOnErr _ => false

/-- `is_non_failing(expr, rules, trace)`. -/
def isNonFailing (g : PGrammar) : Nat → List String → PExpr → Bool
  | 0, _, _ => false
  | fuel+1, trace, e => nonFailingAux g (isNonFailing g fuel) trace e

/-! ### `is_non_progressing` -/

def nonProgAux (g : PGrammar) (jump : List String → PExpr → Bool) (trace : List String) : PExpr → Bool
  | .str s => s.isEmpty
  | .insens s => s.isEmpty
  | .ident name =>
    if name = "SOI" || name = "EOI" then true
    else if !trace.contains name then
      match vLookup g name with
      | some body => jump (trace ++ [name]) body
      | none => false
    else false
  | .seq a b => nonProgAux g jump trace a && nonProgAux g jump trace b
  | .choice a b => nonProgAux g jump trace a || nonProgAux g jump trace b
  | .posPred _ => true
  | .negPred _ => true
  | .rep _ => true
  | .opt _ => true
  | .repMax _ _ => true
  | .range _ _ => false
  | .peekSlice _ _ => false
  | .repExact e n => n == 0 || nonProgAux g jump trace e
  | .repMin e n => n == 0 || nonProgAux g jump trace e
  | .repMinMax e n _ => n == 0 || nonProgAux g jump trace e
  | .push e => nonProgAux g jump trace e
  | .repOnce e => nonProgAux g jump trace e
  | .skip _ => false
  | .restoreOnErr _ => false

/-- `is_non_progressing(expr, rules, trace)`. -/
def isNonProgressing (g : PGrammar) : Nat → List String → PExpr → Bool
  | 0, _, _ => false
  | fuel+1, trace, e => nonProgAux g (isNonProgressing g fuel) trace e

/-- The two predicates as the `validate_*` functions call them: empty trace. -/
def nonFailing0 (g : PGrammar) (e : PExpr) : Bool := isNonFailing g (valFuel g) [] e
def nonProg0 (g : PGrammar) (e : PExpr) : Bool := isNonProgressing g (valFuel g) [] e

/-! ### `ParserNode::filter_map_top_down` -/

/-- All sub-expressions in the order `filter_map_top_down` visits them (the node, then its children
left to right). -/
def PExpr.topDown : PExpr → List PExpr
  | .posPred e => .posPred e :: e.topDown
  | .negPred e => .negPred e :: e.topDown
  | .seq a b => .seq a b :: (a.topDown ++ b.topDown)
  | .choice a b => .choice a b :: (a.topDown ++ b.topDown)
  | .rep e => .rep e :: e.topDown
  | .repOnce e => .repOnce e :: e.topDown
  | .repExact e n => .repExact e n :: e.topDown
  | .repMin e n => .repMin e n :: e.topDown
  | .repMax e n => .repMax e n :: e.topDown
  | .repMinMax e n m => .repMinMax e n m :: e.topDown
  | .opt e => .opt e :: e.topDown
  | .push e => .push e :: e.topDown
  | e => [e]

/-! ### `validate_repetition` -/

/-- The closure of `validate_repetition` on one node. -/
def repetitionError (g : PGrammar) : PExpr → Option ValidatorError
  | .rep e | .repOnce e | .repMin e _ =>
    if nonFailing0 g e then some .repCannotFail
    else if nonProg0 g e then some .repNonProgressing
    else none
  | _ => none

def validateRepetition (g : PGrammar) : List ValidatorError :=
  g.flatMap fun r => r.expr.topDown.filterMap (repetitionError g)

/-! ### `validate_choices` -/

/-- The closure of `validate_choices` on one node: for `lhs | _` the alternative that is looked at
is `lhs`, or the right operand of `lhs` when `lhs` is itself a choice (choices are left-nested in
the parsed AST, so this is "the alternative just before the last one"). -/
def choiceError (g : PGrammar) : PExpr → Option ValidatorError
  | .choice lhs _ =>
    let node := match lhs with
      | .choice _ rhs => rhs
      | _ => lhs
    if nonFailing0 g node then some .choiceUnreachable else none
  | _ => none

def validateChoices (g : PGrammar) : List ValidatorError :=
  g.flatMap fun r => r.expr.topDown.filterMap (choiceError g)

/-! ### `validate_whitespace_comment` -/

def skipRuleError (g : PGrammar) (r : PRule) : Option ValidatorError :=
  if r.name = "WHITESPACE" || r.name = "COMMENT" then
    if nonFailing0 g r.expr then some .skipCannotFail
    else if nonProg0 g r.expr then some .skipNonProgressing
    else none
  else none

def validateWhitespaceComment (g : PGrammar) : List ValidatorError :=
  g.filterMap (skipRuleError g)

/-! ### `validate_left_recursion` -/

/-- The structural part of `left_recursion::check_expr` (`true` = `Some(error)`).  `root` is
`trace[0]`, `last` is `trace.last()`; `nf` is `is_non_failing` with a fresh trace `[last]`. -/
def leftRecAux (g : PGrammar) (jump : List String → PExpr → Bool) (root : String) (trace : List String) :
    PExpr → Bool
  | .ident other =>
    if root = other then true
    else if !trace.contains other then
      match vLookup g other with
      | some body => jump (trace ++ [other]) body
      | none => false
    else false
  | .seq lhs rhs =>
    if isNonFailing g (valFuel g) [trace.getLast?.getD root] lhs then leftRecAux g jump root trace rhs
    else leftRecAux g jump root trace lhs
  | .choice lhs rhs => leftRecAux g jump root trace lhs || leftRecAux g jump root trace rhs
  | .rep e => leftRecAux g jump root trace e
  | .repOnce e => leftRecAux g jump root trace e
  | .opt e => leftRecAux g jump root trace e
  | .posPred e => leftRecAux g jump root trace e
  | .negPred e => leftRecAux g jump root trace e
  | .push e => leftRecAux g jump root trace e
  | _ => false

/-- `check_expr(node, rules, trace)` with `trace[0] = root`. -/
def leftRecCheck (g : PGrammar) (root : String) : Nat → List String → PExpr → Bool
  | 0, _, _ => false
  | fuel+1, trace, e => leftRecAux g (leftRecCheck g root fuel) root trace e

/-- Is this the definition the hash map keeps for its name (no later rule has the same name)? -/
def isLastDef : List PRule → PRule → Bool
  | later, r => !(later.any fun r' => r'.name = r.name)

/-- The entries of `to_hash_map(rules)` in definition order. -/
def hashMapEntries : List PRule → List PRule
  | [] => []
  | r :: rs => if isLastDef rs r then r :: hashMapEntries rs else hashMapEntries rs

def leftRecursive (g : PGrammar) (r : PRule) : Bool := leftRecCheck g r.name (valFuel g) [r.name] r.expr

def validateLeftRecursion (g : PGrammar) : List ValidatorError :=
  (hashMapEntries g).filterMap fun r => if leftRecursive g r then some .leftRecursion else none

/-! ### `validate_ast` -/

/-- `validate_ast(rules)`: the error classes, in collection order (see the header). -/
def pestValidate (g : PGrammar) : List ValidatorError :=
  validateRepetition g ++ validateChoices g ++ validateWhitespaceComment g ++ validateLeftRecursion g

end PestTyped
