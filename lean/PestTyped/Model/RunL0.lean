/-
Model.RunL0 — the two interpreters of `Model.Run` (`check`, `parse`) at BYTE level (layer L0), in
both build profiles.

`Model.Run` runs on character cursors `Inp` (layer L1), where no slicing can go wrong.  Here the SAME
combinator structure runs on the byte cursors `Inp0` of `Model.InputL0`, calling the byte-level
primitives of `main/src/input.rs` for every leaf, with `checked = cfg!(debug_assertions)`, and
PROPAGATING their two bad outcomes: `panic` (checked slicing / `debug_assert!` / `unwrap`) and `ub`
(`get_unchecked` outside its contract).  The result type `R0` has the three outcomes of `Res` plus
these two.

What is at byte level, and where the Rust code can panic / be undefined:
* every leaf goes through `Inp0.get checked` (`matchString0`, `matchInsens0`, `matchRange0`, `next0`,
  `matchCharBy0`, `skip0`; `skipUntil0` uses safe `str::get` only);
* the stack holds `Span`s = pairs of OFFSETS (`M0.stk : List (Nat × Nat)`); `PEEK`/`POP`/`PEEK_ALL`/
  `POP_ALL`/`PeekSlice` call `span.as_str()` = `&input[s..e]` (`spanAsStr`: panics in EVERY profile on a
  bad span) and `match_string` the result;
* `start.span(input)` (`input.rs:29-31`, `position.rs:110-121`, `span.rs:45-48`) is
  `Position::new_unchecked` twice and `Span::new_unchecked`: three `debug_assert!`s (`span0`), at every
  place the Rust code builds a span: `Insens`, `Skip`, `SkipChar`, `CharRange`, `PEEK`, `peek_spans`,
  `Push`, the `Span`/`Both` arms of `rule!`;
* `CharRange` recovers its character by `span.as_str().chars().next().unwrap()`
  (`predefined_node/mod.rs:238-239`): a slice and an `unwrap`;
* `Insens` stores `span.as_str()`;
* `Tracker::new` and `Tracker::prepare` call `pos.as_position()` (`tracker.rs:63-66,75-78`): a
  `debug_assert!` (`asPosition0`), reached from `empty_stack`, `out_of_bound`, `record` (only when the
  frame had no children: `leave0`).

Values.  The value type is `Val` of `Model.Node`, whose spans `Sp` carry their text.  At byte level a
span in a value is built by `spanText0`: the three `debug_assert!`s, then the text `span.as_str()`
(`spanAsStr`, checked slicing) decoded by `dec` (`str::chars().collect()`).  The Rust code slices
lazily (when the user calls `as_str()`); taking the text eagerly only ADDS panic sites, so "never
panics" below also says "the text of every span in the tree can be taken" (C09).

Not modelled: `ptr::eq(self.input, other.input)` in `Position::span` and
`debug_assert_eq!(pos.input(), self.position.input())` in the tracker (there is one input string in a
run; the byte cursors here carry it along unchanged).

Core only (imports `Model.Run`, `Model.InputL0`).
-/
import PestTyped.Model.Run
import PestTyped.Model.InputL0
namespace PestTyped

/-- The mutable state at byte level: a stack of `Span`s as offset pairs (top at the head) and the
tracker (which only ever held byte offsets). -/
structure M0 where
  stk : List (Nat × Nat)
  trk : Tracker
  deriving DecidableEq, Repr

/-- Outcome of a byte-level run: the three outcomes of `Res`, a panic, or undefined behaviour. -/
inductive R0 (α : Type) where
  | oof
  | fail (m : M0)
  | ok (i : Inp0) (m : M0) (a : α)
  | panic
  | ub
  deriving Repr

/-- Continue a run after a primitive that may panic / be undefined. -/
def P.andThen {α β} (x : P α) (f : α → R0 β) : R0 β :=
  match x with
  | .ok a => f a
  | .panic => .panic
  | .ub => .ub

/-! ### text of a slice -/

/-- `s.chars().collect()` on the bytes of a slice (`n` bounds the number of characters). -/
def decGo : Nat → List UInt8 → List Char
  | 0, _ => []
  | n+1, bs =>
    match nextChar bs with
    | none => []
    | some c => c :: decGo n (bs.drop c.utf8Size)

def dec (bs : List UInt8) : List Char := decGo bs.length bs

/-! ### positions and spans -/

/-- `Input::as_position`: `Position::new_unchecked(self.input(), self.byte_offset())`. -/
def asPosition0 (checked : Bool) (i : Inp0) : P Nat := positionNewUnchecked checked i.bytes i.pos

/-- `start.span(end)` (`Input::span`): `as_position` twice, then `Span::new_unchecked`. -/
def span0 (checked : Bool) (a b : Inp0) : P (Nat × Nat) :=
  (asPosition0 checked a).bind fun s =>
  (asPosition0 checked b).bind fun e =>
  spanNewUnchecked checked a.bytes s e

/-- A span stored in a value, with its text: `start.span(end)`, then `as_str()` decoded. -/
def spanText0 (checked : Bool) (a b : Inp0) : P Sp :=
  (span0 checked a b).bind fun se =>
  (spanAsStr a.bytes se.1 se.2).bind fun t =>
  .ok ⟨se.1, se.2, dec t⟩

/-! ### tracker calls that go through `as_position` -/

/-- `Tracker::new(input)`. -/
def trackerNew0 (checked : Bool) (i : Inp0) : P Tracker :=
  (asPosition0 checked i).bind fun p => .ok { position := p }

/-- `tracker.empty_stack(input)`: `prepare` (→ `as_position`), then the entry. -/
def emptyStack0 (checked : Bool) (t : Tracker) (i : Inp0) : P Tracker :=
  (asPosition0 checked i).bind fun p => .ok (t.special p .emptyStack)

/-- `tracker.out_of_bound(input, start, end)`. -/
def outOfBound0 (checked : Bool) (t : Tracker) (i : Inp0) (a : Int) (b : Option Int) : P Tracker :=
  (asPosition0 checked i).bind fun p => .ok (t.special p (.sliceOutOfBound a b))

/-- Second half of `record_during_with(pos, ..)`: pop the frame; `record(rule, pos, ..)` (→ `prepare`
→ `as_position`) only if the frame had no children. -/
def leave0 (checked : Bool) (t : Tracker) (rule : RuleId) (i : Inp0) (succeeded : Bool) : P Tracker :=
  match t.stack with
  | [] => .ok t
  | (_, _, hasChildren) :: rest =>
    if hasChildren then .ok { t with stack := rest }
    else (asPosition0 checked i).bind fun p => .ok (({ t with stack := rest } : Tracker).record rule p succeeded)

/-! ### stack -/

def restoreOnNone0 {α} (saved : List (Nat × Nat)) : R0 α → R0 α
  | .fail m => .fail { m with stk := saved }
  | r => r

/-- `stack[lo..hi]` in bottom-to-top order. -/
def stackSlice0 (stk : List (Nat × Nat)) (lo hi : Nat) : List (Nat × Nat) :=
  (stk.reverse.drop lo).take (hi - lo)

/-- The loop of `peek_spans`: `matching_pos.match_string(span.as_str())` for each span. -/
def peekLoop0 (checked : Bool) : List (Nat × Nat) → Inp0 → P (Option Inp0)
  | [], i => .ok (some i)
  | (s, e) :: rest, i =>
    match spanAsStr i.bytes s e with
    | .panic => .panic
    | .ub => .ub
    | .ok txt =>
      match i.matchString0 checked txt with
      | .panic => .panic
      | .ub => .ub
      | .ok none => .ok none
      | .ok (some i') => peekLoop0 checked rest i'

/-- `peek_spans`: the loop, then `Some((matching_pos, input.span(matching_pos)))`. -/
def peekSpans0 (checked : Bool) (sps : List (Nat × Nat)) (i : Inp0) : P (Option Inp0) :=
  (peekLoop0 checked sps i).bind fun
    | none => .ok none
    | some i' => (span0 checked i i').bind fun _ => .ok (some i')

/-! ### leaves -/

def newlineMatch0 (checked : Bool) (i : Inp0) : P (Option (Inp0 × Nat)) :=
  (i.matchString0 checked (enc ['\r', '\n'])).bind fun
    | some i' => .ok (some (i', 0))
    | none =>
      (i.matchString0 checked (enc ['\n'])).bind fun
        | some i' => .ok (some (i', 1))
        | none =>
          (i.matchString0 checked (enc ['\r'])).bind fun
            | some i' => .ok (some (i', 2))
            | none => .ok none

/-! ### loops, parse copies -/

def skipLoop0 {α} (skip : Inp0 → M0 → R0 α) : Nat → Inp0 → M0 → List α → R0 (List α)
  | 0, i, m, acc => .ok i m acc.reverse
  | k+1, i, m, acc =>
    match skip i m with
    | .oof => .oof
    | .panic => .panic
    | .ub => .ub
    | .fail m' => .fail m'
    | .ok i' m' a => skipLoop0 skip k i' m' (a :: acc)

def seqLoop0 {α β} (f : Node → Inp0 → M0 → R0 α) (skip : Inp0 → M0 → R0 (List β))
    (mk : List β → α → α) : List Node → Inp0 → M0 → List α → R0 (List α)
  | [], i, m, acc => .ok i m acc.reverse
  | n :: ns, i, m, acc =>
    match skip i m with
    | .oof => .oof
    | .panic => .panic
    | .ub => .ub
    | .fail m' => .fail m'
    | .ok i' m' sk =>
      match f n i' m' with
      | .oof => .oof
      | .panic => .panic
      | .ub => .ub
      | .fail m'' => .fail m''
      | .ok i'' m'' a => seqLoop0 f skip mk ns i'' m'' (mk sk a :: acc)

def choiceLoop0 {α} (f : Node → Inp0 → M0 → R0 α) : List Node → Nat → Inp0 → M0 → R0 (Nat × α)
  | [], _, _, m => .fail m
  | n :: ns, k, i, m =>
    match restoreOnNone0 m.stk (f n i m) with
    | .oof => .oof
    | .panic => .panic
    | .ub => .ub
    | .ok i' m' a => .ok i' m' (k, a)
    | .fail m' => choiceLoop0 f ns (k+1) i m'

def repDone0 {α} (min : Nat) (max : Option Nat) (i : Inp0) (m : M0) (acc : List α) : R0 (List α) :=
  match max with
  | none => .ok i m acc.reverse
  | some _ => if acc.length < min then .fail m else .ok i m acc.reverse

def repLoop0 {α} (unit : Nat → Inp0 → M0 → R0 α) (min : Nat) (max : Option Nat) :
    Nat → Nat → Inp0 → M0 → List α → R0 (List α)
  | 0, _, _, _, _ => .oof
  | budget+1, idx, i, m, acc =>
    if max = some idx then repDone0 min max i m acc
    else
      match restoreOnNone0 m.stk (unit idx i m) with
      | .oof => .oof
      | .panic => .panic
      | .ub => .ub
      | .fail m' => if idx < min then .fail m' else repDone0 min max i m' acc
      | .ok i' m' a => repLoop0 unit min max budget (idx+1) i' m' (a :: acc)

def arrayLoop0 {α} (f : Inp0 → M0 → R0 α) : Nat → Inp0 → M0 → List α → R0 (List α)
  | 0, i, m, acc => .ok i m acc.reverse
  | k+1, i, m, acc =>
    match f i m with
    | .oof => .oof
    | .panic => .panic
    | .ub => .ub
    | .fail m' => .fail m'
    | .ok i' m' a => arrayLoop0 f k i' m' (a :: acc)

def arrayTryInto0 {α} (n : Nat) : R0 (List α) → R0 (List α)
  | .ok i m vs => if vs.length = n then .ok i m vs else .fail m
  | r => r

/-! ### loops, check copies -/

def skipLoopC0 (skip : Inp0 → M0 → R0 Unit) : Nat → Inp0 → M0 → R0 Unit
  | 0, i, m => .ok i m ()
  | k+1, i, m =>
    match skip i m with
    | .oof => .oof
    | .panic => .panic
    | .ub => .ub
    | .fail m' => .fail m'
    | .ok i' m' _ => skipLoopC0 skip k i' m'

def seqLoopC0 (f : Node → Inp0 → M0 → R0 Unit) (skip : Inp0 → M0 → R0 Unit) :
    List Node → Inp0 → M0 → R0 Unit
  | [], i, m => .ok i m ()
  | n :: ns, i, m =>
    match skip i m with
    | .oof => .oof
    | .panic => .panic
    | .ub => .ub
    | .fail m' => .fail m'
    | .ok i' m' _ =>
      match f n i' m' with
      | .oof => .oof
      | .panic => .panic
      | .ub => .ub
      | .fail m'' => .fail m''
      | .ok i'' m'' _ => seqLoopC0 f skip ns i'' m''

def choiceLoopC0 (f : Node → Inp0 → M0 → R0 Unit) : List Node → Inp0 → M0 → R0 Unit
  | [], _, m => .fail m
  | n :: ns, i, m =>
    match restoreOnNone0 m.stk (f n i m) with
    | .oof => .oof
    | .panic => .panic
    | .ub => .ub
    | .ok i' m' _ => .ok i' m' ()
    | .fail m' => choiceLoopC0 f ns i m'

def repDoneC0 (min : Nat) (max : Option Nat) (i : Inp0) (m : M0) : R0 Unit :=
  match max with
  | none => .ok i m ()
  | some mx => if mx < min then .fail m else .ok i m ()

def repLoopC0 (unit : Nat → Inp0 → M0 → R0 Unit) (min : Nat) (max : Option Nat) :
    Nat → Nat → Inp0 → M0 → R0 Unit
  | 0, _, _, _ => .oof
  | budget+1, idx, i, m =>
    if max = some idx then repDoneC0 min max i m
    else
      match restoreOnNone0 m.stk (unit idx i m) with
      | .oof => .oof
      | .panic => .panic
      | .ub => .ub
      | .fail m' => if idx < min then .fail m' else repDoneC0 min max i m'
      | .ok i' m' _ => repLoopC0 unit min max budget (idx+1) i' m'

def arrayLoopC0 (f : Inp0 → M0 → R0 Unit) : Nat → Inp0 → M0 → R0 Unit
  | 0, i, m => .ok i m ()
  | k+1, i, m =>
    match f i m with
    | .oof => .oof
    | .panic => .panic
    | .ub => .ub
    | .fail m' => .fail m'
    | .ok i' m' _ => arrayLoopC0 f k i' m'

def repSkipC0 (skip : Inp0 → M0 → R0 Unit) (idx : Nat) : Nat → Inp0 → M0 → R0 Unit
  | 0, i, m => .ok i m ()
  | k+1, i, m =>
    if idx > 0 then
      match skip i m with
      | .oof => .oof
      | .panic => .panic
      | .ub => .ub
      | .fail m' => .fail m'
      | .ok i' m' _ => repSkipC0 skip idx k i' m'
    else repSkipC0 skip idx k i m

def repUnitC0 (skip : Inp0 → M0 → R0 Unit) (body : Inp0 → M0 → R0 Unit) (k : Nat)
    (idx : Nat) (i : Inp0) (m : M0) : R0 Unit :=
  match repSkipC0 skip idx k i m with
  | .oof => .oof
  | .panic => .panic
  | .ub => .ub
  | .fail m' => .fail m'
  | .ok i' m' _ => body i' m'

def repUnitP0 (skip : Inp0 → M0 → R0 Val) (body : Inp0 → M0 → R0 Val) (dflt : Val) (k : Nat)
    (idx : Nat) (i : Inp0) (m : M0) : R0 Val :=
  if idx = 0 then
    match body i m with
    | .oof => .oof
    | .panic => .panic
    | .ub => .ub
    | .fail m' => .fail m'
    | .ok i' m' v => .ok i' m' (mkSkipped (List.replicate k dflt) v)
  else
    match skipLoop0 skip k i m [] with
    | .oof => .oof
    | .panic => .panic
    | .ub => .ub
    | .fail m' => .fail m'
    | .ok i' m' sk =>
      match body i' m' with
      | .oof => .oof
      | .panic => .panic
      | .ub => .ub
      | .fail m'' => .fail m''
      | .ok i'' m'' v => .ok i'' m'' (mkSkipped sk v)

/-! ### check path -/

def check0 (checked : Bool) (g : NodeGrammar) (uni : Uni) : Nat → Bool → Node → Inp0 → M0 → R0 Unit
  | 0, _, _, _, _ => .oof
  | _+1, _, .str s, i, m =>
    (i.matchString0 checked (enc s)).andThen fun
      | some i' => .ok i' m ()
      | none => .fail m
  | _+1, _, .insens s, i, m =>
    (i.matchInsens0 checked (enc s)).andThen fun
      | some i' => .ok i' m ()
      | none => .fail m
  | _+1, _, .range lo hi, i, m =>
    (i.matchRange0 checked lo hi).andThen fun
      | some (i', _) => .ok i' m ()
      | none => .fail m
  | _+1, _, .any, i, m =>
    (i.next0 checked).andThen fun
      | some (i', _) => .ok i' m ()
      | none => .fail m
  | _+1, _, .soi, i, m => if i.atStart0 then .ok i m () else .fail m
  | _+1, _, .eoi, i, m => if i.atEnd0 then .ok i m () else .fail m
  | _+1, _, .newline, i, m =>
    (newlineMatch0 checked i).andThen fun
      | some (i', _) => .ok i' m ()
      | none => .fail m
  | _+1, _, .charBy p, i, m =>
    (i.matchCharBy0 checked (uni p)).andThen fun
      | some (i', _) => .ok i' m ()
      | none => .fail m
  | _+1, _, .skipUntil needles, i, m => .ok (i.skipUntil0 (needles.map enc)).1 m ()
  | _+1, _, .skipChars n, i, m =>
    (i.skip0 checked n).andThen fun
      | some i' => .ok i' m ()
      | none => .fail m
  | fuel+1, inh, .seq sk items, i, m =>
    match items with
    | [] => .ok i m ()
    | n0 :: ns =>
      match check0 checked g uni fuel inh n0 i m with
      | .oof => .oof
      | .panic => .panic
      | .ub => .ub
      | .fail m' => .fail m'
      | .ok i' m' _ =>
        seqLoopC0 (check0 checked g uni fuel inh)
          (skipLoopC0 (check0 checked g uni fuel false g.skipped) (skipCount sk inh)) ns i' m'
  | fuel+1, inh, .choice alts, i, m => choiceLoopC0 (check0 checked g uni fuel inh) alts i m
  | fuel+1, inh, .opt n, i, m =>
    match restoreOnNone0 m.stk (check0 checked g uni fuel inh n i m) with
    | .oof => .oof
    | .panic => .panic
    | .ub => .ub
    | .fail m' => .ok i m' ()
    | .ok i' m' _ => .ok i' m' ()
  | fuel+1, inh, .rep sk min max n, i, m =>
    repLoopC0 (repUnitC0 (check0 checked g uni fuel false g.skipped) (check0 checked g uni fuel inh n)
      (skipCount sk inh)) min max fuel 0 i m
  | fuel+1, inh, .atomicRepeat n, i, m =>
    (trackerNew0 checked i).andThen fun t =>
    match repLoopC0 (fun _ i m => check0 checked g uni fuel inh n i m) 0 none (atomicBudget fuel) 0 i
        { m with trk := t } with
    | .oof => .oof
    | .panic => .panic
    | .ub => .ub
    | .fail m' => .fail { m' with trk := m.trk }
    | .ok i' m' _ => .ok i' { m' with trk := m.trk } ()
  | fuel+1, inh, .pos n, i, m =>
    let orig := m.trk.positive
    match check0 checked g uni fuel inh n i { m with trk := { m.trk with positive := true } } with
    | .oof => .oof
    | .panic => .panic
    | .ub => .ub
    | .fail m' => .fail { stk := m.stk, trk := { m'.trk with positive := orig } }
    | .ok _ m' _ => .ok i { stk := m.stk, trk := { m'.trk with positive := orig } } ()
  | fuel+1, inh, .neg n, i, m =>
    let orig := m.trk.positive
    match check0 checked g uni fuel inh n i { m with trk := { m.trk with positive := false } } with
    | .oof => .oof
    | .panic => .panic
    | .ub => .ub
    | .fail m' => .ok i { stk := m.stk, trk := { m'.trk with positive := orig } } ()
    | .ok _ m' _ => .fail { stk := m.stk, trk := { m'.trk with positive := orig } }
  | fuel+1, inh, .push n, i, m =>
    match check0 checked g uni fuel inh n i m with
    | .oof => .oof
    | .panic => .panic
    | .ub => .ub
    | .fail m' => .fail m'
    | .ok i' m' _ =>
      (span0 checked i i').andThen fun se => .ok i' { m' with stk := se :: m'.stk } ()
  | _+1, _, .peek, i, m =>
    match m.stk with
    | [] => (emptyStack0 checked m.trk i).andThen fun t => .fail { m with trk := t }
    | (s, e) :: _ =>
      (spanAsStr i.bytes s e).andThen fun txt =>
      (i.matchString0 checked txt).andThen fun
        | some i' => .ok i' m ()
        | none => .fail m
  | _+1, _, .peekAll, i, m =>
    (peekSpans0 checked m.stk i).andThen fun
      | some i' => .ok i' m ()
      | none => .fail m
  | _+1, _, .pop, i, m =>
    match m.stk with
    | [] => (emptyStack0 checked m.trk i).andThen fun t => .fail { m with trk := t }
    | (s, e) :: rest =>
      (spanAsStr i.bytes s e).andThen fun txt =>
      (i.matchString0 checked txt).andThen fun
        | some i' => .ok i' { m with stk := rest } ()
        | none => .fail { m with stk := rest }
  | _+1, _, .popAll, i, m =>
    (peekSpans0 checked m.stk i).andThen fun
      | some i' => .ok i' { m with stk := [] } ()
      | none => .fail m
  | _+1, _, .drop, i, m =>
    match m.stk with
    | [] => (emptyStack0 checked m.trk i).andThen fun t => .fail { m with trk := t }
    | _ :: rest => .ok i { m with stk := rest } ()
  | _+1, _, .peekSlice a b, i, m =>
    match constrainIdxs a b m.stk.length with
    | none => (outOfBound0 checked m.trk i a b).andThen fun t => .fail { m with trk := t }
    | some (lo, hi) =>
      if hi ≤ lo then .ok i m ()
      else (peekSpans0 checked (stackSlice0 m.stk lo hi) i).andThen fun
        | some i' => .ok i' m ()
        | none => .fail m
  | fuel+1, inh, .ref r f, i, m =>
    match g.rule? r with
    | none => .fail m
    | some d =>
      let inh' := f.eval inh
      match d.emit with
      | .expression => check0 checked g uni fuel inh' d.body i m
      | _ =>
        match check0 checked g uni fuel inh' d.body i { m with trk := m.trk.enter r i.pos } with
        | .oof => .oof
        | .panic => .panic
        | .ub => .ub
        | .fail m' => (leave0 checked m'.trk r i false).andThen fun t => .fail { m' with trk := t }
        | .ok i' m' _ => (leave0 checked m'.trk r i true).andThen fun t => .ok i' { m' with trk := t } ()
  | fuel+1, inh, .array k n, i, m =>
    arrayLoopC0 (check0 checked g uni fuel inh n) k i m
  | fuel+1, inh, .pair a b, i, m =>
    match check0 checked g uni fuel inh a i m with
    | .oof => .oof
    | .panic => .panic
    | .ub => .ub
    | .fail m' => .fail m'
    | .ok i' m' _ => check0 checked g uni fuel inh b i' m'
  | _+1, _, .empty, i, m => .ok i m ()
  | _+1, _, .alwaysFail, _, m => .fail m

/-! ### parse path -/

def parse0 (checked : Bool) (g : NodeGrammar) (uni : Uni) : Nat → Bool → Node → Inp0 → M0 → R0 Val
  | 0, _, _, _, _ => .oof
  | _+1, _, .str s, i, m =>
    (i.matchString0 checked (enc s)).andThen fun
      | some i' => .ok i' m (.leaf .str)
      | none => .fail m
  | _+1, _, .insens s, i, m =>
    (i.matchInsens0 checked (enc s)).andThen fun
      | some i' =>
        -- `let span = start.span(input); Self::from(span.as_str())`
        (spanText0 checked i i').andThen fun sp => .ok i' m (.leaf (.insens sp.txt))
      | none => .fail m
  | _+1, _, .range lo hi, i, m =>
    (i.matchRange0 checked lo hi).andThen fun
      | some (i', _) =>
        -- `let span = start.span(input); let content = span.as_str().chars().next().unwrap();`
        (span0 checked i i').andThen fun se =>
        (spanAsStr i.bytes se.1 se.2).andThen fun t =>
        match nextChar t with
        | some c => .ok i' m (.leaf (.charRange c))
        | none => .panic
      | none => .fail m
  | _+1, _, .any, i, m =>
    (i.next0 checked).andThen fun
      | some (i', c) => .ok i' m (.leaf (.any c))
      | none => .fail m
  | _+1, _, .soi, i, m => if i.atStart0 then .ok i m (.leaf .soi) else .fail m
  | _+1, _, .eoi, i, m => if i.atEnd0 then .ok i m (.leaf .eoi) else .fail m
  | _+1, _, .newline, i, m =>
    (newlineMatch0 checked i).andThen fun
      | some (i', k) => .ok i' m (.leaf (.newline k))
      | none => .fail m
  | _+1, _, .charBy p, i, m =>
    (i.matchCharBy0 checked (uni p)).andThen fun
      | some (i', c) => .ok i' m (.leaf (.uni p c))
      | none => .fail m
  | _+1, _, .skipUntil needles, i, m =>
    let i' := (i.skipUntil0 (needles.map enc)).1
    (spanText0 checked i i').andThen fun sp => .ok i' m (.leaf (.skipUntil sp))
  | _+1, _, .skipChars n, i, m =>
    (i.skip0 checked n).andThen fun
      | some i' => (spanText0 checked i i').andThen fun sp => .ok i' m (.leaf (.skipChars sp))
      | none => .fail m
  | fuel+1, inh, .seq sk items, i, m =>
    match items with
    | [] => .ok i m (.mk .seq [])
    | n0 :: ns =>
      match parse0 checked g uni fuel inh n0 i m with
      | .oof => .oof
      | .panic => .panic
      | .ub => .ub
      | .fail m' => .fail m'
      | .ok i' m' v0 =>
        let k := skipCount sk inh
        match seqLoop0 (parse0 checked g uni fuel inh)
            (fun i m => skipLoop0 (parse0 checked g uni fuel false g.skipped) k i m [])
            mkSkipped ns i' m' [] with
        | .oof => .oof
        | .panic => .panic
        | .ub => .ub
        | .fail m'' => .fail m''
        | .ok i'' m'' vs =>
          .ok i'' m'' (.mk .seq (mkSkipped (List.replicate k (defaultSkipVal g)) v0 :: vs))
  | fuel+1, inh, .choice alts, i, m =>
    match choiceLoop0 (parse0 checked g uni fuel inh) alts 0 i m with
    | .oof => .oof
    | .panic => .panic
    | .ub => .ub
    | .fail m' => .fail m'
    | .ok i' m' (k, v) => .ok i' m' (.mk (.choice alts.length k) [v])
  | fuel+1, inh, .opt n, i, m =>
    match restoreOnNone0 m.stk (parse0 checked g uni fuel inh n i m) with
    | .oof => .oof
    | .panic => .panic
    | .ub => .ub
    | .fail m' => .ok i m' (.leaf .optNone)
    | .ok i' m' v => .ok i' m' (.mk .optSome [v])
  | fuel+1, inh, .rep sk min max n, i, m =>
    match repLoop0 (repUnitP0 (parse0 checked g uni fuel false g.skipped) (parse0 checked g uni fuel inh n)
        (defaultSkipVal g) (skipCount sk inh)) min max fuel 0 i m [] with
    | .oof => .oof
    | .panic => .panic
    | .ub => .ub
    | .fail m' => .fail m'
    | .ok i' m' vs => .ok i' m' (.mk (.rep min max) vs)
  | fuel+1, inh, .atomicRepeat n, i, m =>
    (trackerNew0 checked i).andThen fun t =>
    match repLoop0 (fun _ i m => parse0 checked g uni fuel inh n i m) 0 none (atomicBudget fuel) 0 i
        { m with trk := t } [] with
    | .oof => .oof
    | .panic => .panic
    | .ub => .ub
    | .fail m' => .fail { m' with trk := m.trk }
    | .ok i' m' vs => .ok i' { m' with trk := m.trk } (.mk .atomicRepeat vs)
  | fuel+1, inh, .pos n, i, m =>
    let orig := m.trk.positive
    match parse0 checked g uni fuel inh n i { m with trk := { m.trk with positive := true } } with
    | .oof => .oof
    | .panic => .panic
    | .ub => .ub
    | .fail m' => .fail { stk := m.stk, trk := { m'.trk with positive := orig } }
    | .ok _ m' v => .ok i { stk := m.stk, trk := { m'.trk with positive := orig } } (.mk .pos [v])
  | fuel+1, inh, .neg n, i, m =>
    let orig := m.trk.positive
    match check0 checked g uni fuel inh n i { m with trk := { m.trk with positive := false } } with
    | .oof => .oof
    | .panic => .panic
    | .ub => .ub
    | .fail m' => .ok i { stk := m.stk, trk := { m'.trk with positive := orig } } (.leaf .neg)
    | .ok _ m' _ => .fail { stk := m.stk, trk := { m'.trk with positive := orig } }
  | fuel+1, inh, .push n, i, m =>
    match parse0 checked g uni fuel inh n i m with
    | .oof => .oof
    | .panic => .panic
    | .ub => .ub
    | .fail m' => .fail m'
    | .ok i' m' v =>
      -- `stack.push(start.span(input))`
      (span0 checked i i').andThen fun se => .ok i' { m' with stk := se :: m'.stk } (.mk .push [v])
  | _+1, _, .peek, i, m =>
    match m.stk with
    | [] => (emptyStack0 checked m.trk i).andThen fun t => .fail { m with trk := t }
    | (s, e) :: _ =>
      (spanAsStr i.bytes s e).andThen fun txt =>
      (i.matchString0 checked txt).andThen fun
        | some i' => (spanText0 checked i i').andThen fun sp => .ok i' m (.leaf (.peek sp))
        | none => .fail m
  | _+1, _, .peekAll, i, m =>
    (peekSpans0 checked m.stk i).andThen fun
      | some i' => (spanText0 checked i i').andThen fun sp => .ok i' m (.leaf (.peekAll sp))
      | none => .fail m
  | _+1, _, .pop, i, m =>
    match m.stk with
    | [] => (emptyStack0 checked m.trk i).andThen fun t => .fail { m with trk := t }
    | (s, e) :: rest =>
      (spanAsStr i.bytes s e).andThen fun txt =>
      (i.matchString0 checked txt).andThen fun
        | some i' => .ok i' { m with stk := rest } (.leaf (.pop ⟨s, e, dec txt⟩))
        | none => .fail { m with stk := rest }
  | _+1, _, .popAll, i, m =>
    (peekSpans0 checked m.stk i).andThen fun
      | some i' =>
        (spanText0 checked i i').andThen fun sp => .ok i' { m with stk := [] } (.leaf (.popAll sp))
      | none => .fail m
  | _+1, _, .drop, i, m =>
    match m.stk with
    | [] => (emptyStack0 checked m.trk i).andThen fun t => .fail { m with trk := t }
    | _ :: rest => .ok i { m with stk := rest } (.leaf .drop)
  | _+1, _, .peekSlice a b, i, m =>
    match constrainIdxs a b m.stk.length with
    | none => (outOfBound0 checked m.trk i a b).andThen fun t => .fail { m with trk := t }
    | some (lo, hi) =>
      if hi ≤ lo then .ok i m (.leaf .peekSlice)
      else (peekSpans0 checked (stackSlice0 m.stk lo hi) i).andThen fun
        | some i' => .ok i' m (.leaf .peekSlice)
        | none => .fail m
  | fuel+1, inh, .ref r f, i, m =>
    match g.rule? r with
    | none => .fail m
    | some d =>
      let inh' := f.eval inh
      match d.emit with
      | .expression =>
        match parse0 checked g uni fuel inh' d.body i m with
        | .oof => .oof
        | .panic => .panic
        | .ub => .ub
        | .fail m' => .fail m'
        | .ok i' m' v => .ok i' m' (.mk (.rule r .expression d.boxed i.pos i'.pos) [v])
      | .span =>
        match check0 checked g uni fuel inh' d.body i { m with trk := m.trk.enter r i.pos } with
        | .oof => .oof
        | .panic => .panic
        | .ub => .ub
        | .fail m' => (leave0 checked m'.trk r i false).andThen fun t => .fail { m' with trk := t }
        | .ok i' m' _ =>
          -- `let span = start.span(input);` inside the closure of `record_during`
          (span0 checked i i').andThen fun se =>
          (leave0 checked m'.trk r i true).andThen fun t =>
          .ok i' { m' with trk := t } (.mk (.rule r .span d.boxed se.1 se.2) [])
      | .both =>
        match parse0 checked g uni fuel inh' d.body i { m with trk := m.trk.enter r i.pos } with
        | .oof => .oof
        | .panic => .panic
        | .ub => .ub
        | .fail m' => (leave0 checked m'.trk r i false).andThen fun t => .fail { m' with trk := t }
        | .ok i' m' v =>
          (span0 checked i i').andThen fun se =>
          (leave0 checked m'.trk r i true).andThen fun t =>
          .ok i' { m' with trk := t } (.mk (.rule r .both d.boxed se.1 se.2) [v])
  | fuel+1, inh, .array k n, i, m =>
    match arrayTryInto0 k (arrayLoop0 (parse0 checked g uni fuel inh n) k i m []) with
    | .oof => .oof
    | .panic => .panic
    | .ub => .ub
    | .fail m' => .fail m'
    | .ok i' m' vs => .ok i' m' (.mk .array vs)
  | fuel+1, inh, .pair a b, i, m =>
    match parse0 checked g uni fuel inh a i m with
    | .oof => .oof
    | .panic => .panic
    | .ub => .ub
    | .fail m' => .fail m'
    | .ok i' m' va =>
      match parse0 checked g uni fuel inh b i' m' with
      | .oof => .oof
      | .panic => .panic
      | .ub => .ub
      | .fail m'' => .fail m''
      | .ok i'' m'' vb => .ok i'' m'' (.mk .pair [va, vb])
  | _+1, _, .empty, i, m => .ok i m (.leaf .empty)
  | _+1, _, .alwaysFail, _, m => .fail m

/-! ### entry points -/

/-- The state an entry point starts from: empty stack, `Tracker::new(input)`. -/
def M0.init (checked : Bool) (i : Inp0) : P M0 :=
  (trackerNew0 checked i).bind fun t => .ok { stk := [], trk := t }

/-- `R::try_parse_partial(input)`. -/
def tryParsePartial0 (checked : Bool) (g : NodeGrammar) (uni : Uni) (fuel : Nat) (r : RuleId) (i : Inp0) : R0 Val :=
  (M0.init checked i).andThen fun m => parse0 checked g uni fuel true (.ref r .one) i m

/-- `R::try_check_partial(input)`. -/
def tryCheckPartial0 (checked : Bool) (g : NodeGrammar) (uni : Uni) (fuel : Nat) (r : RuleId) (i : Inp0) : R0 Unit :=
  (M0.init checked i).andThen fun m => check0 checked g uni fuel true (.ref r .one) i m

/-- `record_during_with(input, EOI::try_*_partial_with, Rule::EOI)` at the end of a full parse. -/
def eoiStep0 (checked : Bool) (i : Inp0) (m : M0) : P (M0 × Bool) :=
  let t := m.trk.enter 0 i.pos
  let ok := i.atEnd0
  (leave0 checked t 0 i ok).bind fun t' => .ok ({ m with trk := t' }, ok)

/-- `R::try_parse(input)`. -/
def tryParse0 (checked : Bool) (g : NodeGrammar) (uni : Uni) (fuel : Nat) (r : RuleId) (i : Inp0) : R0 Val :=
  (M0.init checked i).andThen fun m0 =>
  match g.rule? r with
  | none => .fail m0
  | some d =>
    match parse0 checked g uni fuel true (.ref r .one) i m0 with
    | .oof => .oof
    | .panic => .panic
    | .ub => .ub
    | .fail m => .fail m
    | .ok i' m v =>
      if noTrailingSkip r d then
        (eoiStep0 checked i' m).andThen fun x => if x.2 then .ok i' x.1 v else .fail x.1
      else
        match parse0 checked g uni fuel false g.skipped i' m with
        | .oof => .oof
        | .panic => .panic
        | .ub => .ub
        | .fail m' => .fail m'
        | .ok i'' m' _ =>
          (eoiStep0 checked i'' m').andThen fun x => if x.2 then .ok i'' x.1 v else .fail x.1

/-- `R::try_check(input)`. -/
def tryCheck0 (checked : Bool) (g : NodeGrammar) (uni : Uni) (fuel : Nat) (r : RuleId) (i : Inp0) : R0 Unit :=
  (M0.init checked i).andThen fun m0 =>
  match g.rule? r with
  | none => .fail m0
  | some d =>
    match check0 checked g uni fuel true (.ref r .one) i m0 with
    | .oof => .oof
    | .panic => .panic
    | .ub => .ub
    | .fail m => .fail m
    | .ok i' m _ =>
      if noTrailingSkip r d then
        (eoiStep0 checked i' m).andThen fun x => if x.2 then .ok i' x.1 () else .fail x.1
      else
        match check0 checked g uni fuel false g.skipped i' m with
        | .oof => .oof
        | .panic => .panic
        | .ub => .ub
        | .fail m' => .fail m'
        | .ok i'' m' _ =>
          (eoiStep0 checked i'' m').andThen fun x => if x.2 then .ok i'' x.1 () else .fail x.1

end PestTyped
