/-
Model.Pest — pest's grammar AST as produced by `pest_meta` 2.7.14 (external, an *input* of the
theorems): the union of `ast::Expr` (counted repetitions) and `optimizer::OptimizedExpr`
(`Skip`, `RestoreOnErr`).
-/
namespace PestTyped

inductive PExpr where
  | str (s : List Char)
  | insens (s : List Char)
  | range (lo hi : Char)
  | ident (name : String)
  | peekSlice (a : Int) (b : Option Int)
  | posPred (e : PExpr)
  | negPred (e : PExpr)
  | seq (a b : PExpr)
  | choice (a b : PExpr)
  | opt (e : PExpr)
  | rep (e : PExpr)
  | repOnce (e : PExpr)
  | repExact (e : PExpr) (n : Nat)
  | repMin (e : PExpr) (n : Nat)
  | repMax (e : PExpr) (n : Nat)
  | repMinMax (e : PExpr) (n m : Nat)
  | skip (needles : List (List Char))
  | push (e : PExpr)
  | restoreOnErr (e : PExpr)
  deriving Repr, Inhabited, DecidableEq

/-- `pest_meta::ast::RuleType`. -/
inductive RuleKind where
  | normal | silent | atomic | compoundAtomic | nonAtomic
  deriving Repr, Inhabited, DecidableEq

structure PRule where
  name : String
  kind : RuleKind
  expr : PExpr
  deriving Repr, Inhabited

abbrev PGrammar := List PRule

def PGrammar.indexOf (g : PGrammar) (name : String) : Option Nat :=
  go g 0
where
  go : List PRule → Nat → Option Nat
    | [], _ => none
    | r :: rs, k => if r.name = name then some k else go rs (k+1)

def PGrammar.defines (g : PGrammar) (name : String) : Bool := (g.indexOf name).isSome

end PestTyped
