/-
Model.Run — the two interpreters `check` and `parse` of type expressions, mirroring the two
Rust copies of every combinator (`try_check_partial_with` / `try_parse_partial_with`) in
`main/src/{sequence,choices,typed_node,rule}.rs` and `main/src/predefined_node/{mod,repetition}.rs`,
plus the entry points of `ParsableTypedNode` (`typed_node.rs:60-107`, `rule.rs:739-840`).

`check` and `parse` are written independently on purpose: `Props/C03.lean` proves that they agree.
Both recurse structurally on the fuel argument only (a depth budget passed down); list and
iteration loops are the higher-order functions below.
-/
import PestTyped.Model.Node
import PestTyped.Model.Tracker
namespace PestTyped

/-- What the Rust code mutates through `&mut`: the stack (top at the head) and the tracker. -/
structure M where
  stk : List Sp
  trk : Tracker
  deriving DecidableEq, Repr

abbrev R (α : Type) := Res M α

/-- Unicode property predicates (`pest::unicode::*`) are external tables: a parameter. -/
abbrev Uni := String → Char → Bool

/-- `restore_on_none`: on failure the stack content is put back (tracker is not). -/
def restoreOnNone {α} (saved : List Sp) : R α → R α
  | .fail m => .fail { m with stk := saved }
  | r => r

/-- `normalize_index` of `parser_state.rs`. -/
def normalizeIndex (i : Int) (len : Nat) : Option Nat :=
  if i > (len : Int) then none
  else if i ≥ 0 then some i.toNat
  else
    let real := (len : Int) + i
    if real ≥ 0 then some real.toNat else none

/-- `constrain_idxs` of `parser_state.rs`. -/
def constrainIdxs (a : Int) (b : Option Int) (len : Nat) : Option (Nat × Nat) :=
  match normalizeIndex a len with
  | none => none
  | some lo =>
    match b with
    | none => some (lo, len)
    | some b => match normalizeIndex b len with
      | none => none
      | some hi => some (lo, hi)

/-- `peek_spans`: match the texts of the given spans one after the other. -/
def peekSpans : List Sp → Inp → Option Inp
  | [], i => some i
  | sp :: rest, i =>
    match i.matchString sp.txt with
    | some i' => peekSpans rest i'
    | none => none

/-- `stack[lo..hi]` in bottom-to-top order, for a stack kept top-first. -/
def stackSlice (stk : List Sp) (lo hi : Nat) : List Sp :=
  (stk.reverse.drop lo).take (hi - lo)

/-! ### leaves shared by both interpreters (they only differ in the value built) -/

def newlineMatch (i : Inp) : Option (Inp × Nat) :=
  match i.matchString ['\r', '\n'] with
  | some i' => some (i', 0)
  | none =>
    match i.matchString ['\n'] with
    | some i' => some (i', 1)
    | none =>
      match i.matchString ['\r'] with
      | some i' => some (i', 2)
      | none => none

/-! ### loops -/

/-- `SKIP` runs of the skip type (`core::array::from_fn(|_| Skip::parse_with(..))`). -/
def skipLoop {α} (skip : Inp → M → R α) : Nat → Inp → M → List α → R (List α)
  | 0, i, m, acc => .ok i m acc.reverse
  | k+1, i, m, acc =>
    match skip i m with
    | .oof => .oof
    | .fail m' => .fail m'
    | .ok i' m' a => skipLoop skip k i' m' (a :: acc)

/-- Elements of a `SeqN` after the first: skip, then the element. -/
def seqLoop {α β} (f : Node → Inp → M → R α) (skip : Inp → M → R (List β))
    (mk : List β → α → α) : List Node → Inp → M → List α → R (List α)
  | [], i, m, acc => .ok i m acc.reverse
  | n :: ns, i, m, acc =>
    match skip i m with
    | .oof => .oof
    | .fail m' => .fail m'
    | .ok i' m' sk =>
      match f n i' m' with
      | .oof => .oof
      | .fail m'' => .fail m''
      | .ok i'' m'' a => seqLoop f skip mk ns i'' m'' (mk sk a :: acc)

/-- `ChoiceN`: alternatives in order, each under `restore_on_none`. -/
def choiceLoop {α} (f : Node → Inp → M → R α) : List Node → Nat → Inp → M → R (Nat × α)
  | [], _, _, m => .fail m
  | n :: ns, k, i, m =>
    match restoreOnNone m.stk (f n i m) with
    | .oof => .oof
    | .ok i' m' a => .ok i' m' (k, a)
    | .fail m' => choiceLoop f ns (k+1) i m'

/-- `RepeatMin` / `RepeatMinMax` (`max = none` / `some MAX`): `unit idx` is `try_*_unit`
under `restore_on_none`.  `budget` bounds the number of iterations (fuel). -/
def repLoop {α} (unit : Nat → Inp → M → R α) (min : Nat) (max : Option Nat) :
    Nat → Nat → Inp → M → List α → R (List α)
  | 0, _, _, _, _ => .oof
  | budget+1, idx, i, m, acc =>
    if max = some idx then
      (if idx < min then .fail m else .ok i m acc.reverse)
    else
      match restoreOnNone m.stk (unit idx i m) with
      | .oof => .oof
      | .fail m' => if idx < min then .fail m' else .ok i m' acc.reverse
      | .ok i' m' a => repLoop unit min max budget (idx+1) i' m' (a :: acc)

/-- `[T; N]`. -/
def arrayLoop {α} (f : Inp → M → R α) : Nat → Inp → M → List α → R (List α)
  | 0, i, m, acc => .ok i m acc.reverse
  | k+1, i, m, acc =>
    match f i m with
    | .oof => .oof
    | .fail m' => .fail m'
    | .ok i' m' a => arrayLoop f k i' m' (a :: acc)

def skipCount (f : Flag) (inh : Bool) : Nat := if f.eval inh then 1 else 0

/-- Iteration budget of the `AtomicRepeat` loop (see DESIGN.md §4, fuel discipline). -/
def atomicBudget (fuel : Nat) : Nat := (fuel + 1) * (fuel + 1)

/-- `try_check_unit` (`repetition.rs`): `SKIP` skips when `i > 0`, then the element. -/
def repUnitC (skip : Inp → M → R Unit) (body : Inp → M → R Unit) (k : Nat)
    (idx : Nat) (i : Inp) (m : M) : R Unit :=
  match skipLoop skip (if idx = 0 then 0 else k) i m [] with
  | .oof => .oof
  | .fail m' => .fail m'
  | .ok i' m' _ => body i' m'

/-! ### check path -/

def check (g : NodeGrammar) (uni : Uni) : Nat → Bool → Node → Inp → M → R Unit
  | 0, _, _, _, _ => .oof
  | _+1, _, .str s, i, m =>
    match i.matchString s with | some i' => .ok i' m () | none => .fail m
  | _+1, _, .insens s, i, m =>
    match i.matchInsens s with | some i' => .ok i' m () | none => .fail m
  | _+1, _, .range lo hi, i, m =>
    match i.matchRange lo hi with | some (i', _) => .ok i' m () | none => .fail m
  | _+1, _, .any, i, m =>
    match i.matchCharBy (fun _ => true) with | some (i', _) => .ok i' m () | none => .fail m
  | _+1, _, .soi, i, m => if i.atStart then .ok i m () else .fail m
  | _+1, _, .eoi, i, m => if i.atEnd then .ok i m () else .fail m
  | _+1, _, .newline, i, m =>
    match newlineMatch i with | some (i', _) => .ok i' m () | none => .fail m
  | _+1, _, .charBy p, i, m =>
    match i.matchCharBy (uni p) with | some (i', _) => .ok i' m () | none => .fail m
  | _+1, _, .skipUntil needles, i, m => .ok (i.skipUntil needles).1 m ()
  | _+1, _, .skipChars n, i, m =>
    match i.skipN n with | some i' => .ok i' m () | none => .fail m
  | fuel+1, inh, .seq sk items, i, m =>
    match items with
    | [] => .ok i m ()
    | n0 :: ns =>
      match check g uni fuel inh n0 i m with
      | .oof => .oof
      | .fail m' => .fail m'
      | .ok i' m' _ =>
        match seqLoop (check g uni fuel inh)
            (fun i m => skipLoop (check g uni fuel false g.skipped) (skipCount sk inh) i m [])
            (fun _ a => a) ns i' m' [] with
        | .oof => .oof
        | .fail m'' => .fail m''
        | .ok i'' m'' _ => .ok i'' m'' ()
  | fuel+1, inh, .choice alts, i, m =>
    match choiceLoop (check g uni fuel inh) alts 0 i m with
    | .oof => .oof
    | .fail m' => .fail m'
    | .ok i' m' _ => .ok i' m' ()
  | fuel+1, inh, .opt n, i, m =>
    match restoreOnNone m.stk (check g uni fuel inh n i m) with
    | .oof => .oof
    | .fail m' => .ok i m' ()
    | .ok i' m' _ => .ok i' m' ()
  | fuel+1, inh, .rep sk min max n, i, m =>
    match repLoop (repUnitC (check g uni fuel false g.skipped) (check g uni fuel inh n) (skipCount sk inh))
        min max fuel 0 i m [] with
    | .oof => .oof
    | .fail m' => .fail m'
    | .ok i' m' _ => .ok i' m' ()
  | fuel+1, inh, .atomicRepeat n, i, m =>
    -- `AtomicRepeat::check_with`: a fresh tracker, dropped afterwards
    match repLoop (fun _ i m => check g uni fuel inh n i m) 0 none (atomicBudget fuel) 0 i
        { m with trk := Tracker.new i } [] with
    | .oof => .oof
    | .fail m' => .fail { m' with trk := m.trk }
    | .ok i' m' _ => .ok i' { m' with trk := m.trk } ()
  | fuel+1, inh, .pos n, i, m =>
    let orig := m.trk.positive
    match check g uni fuel inh n i { m with trk := { m.trk with positive := true } } with
    | .oof => .oof
    | .fail m' => .fail { stk := m.stk, trk := { m'.trk with positive := orig } }
    | .ok _ m' _ => .ok i { stk := m.stk, trk := { m'.trk with positive := orig } } ()
  | fuel+1, inh, .neg n, i, m =>
    let orig := m.trk.positive
    match check g uni fuel inh n i { m with trk := { m.trk with positive := false } } with
    | .oof => .oof
    | .fail m' => .ok i { stk := m.stk, trk := { m'.trk with positive := orig } } ()
    | .ok _ m' _ => .fail { stk := m.stk, trk := { m'.trk with positive := orig } }
  | fuel+1, inh, .push n, i, m =>
    match check g uni fuel inh n i m with
    | .oof => .oof
    | .fail m' => .fail m'
    | .ok i' m' _ => .ok i' { m' with stk := i.spanTo i' :: m'.stk } ()
  | _+1, _, .peek, i, m =>
    match m.stk with
    | [] => .fail { m with trk := m.trk.emptyStack i }
    | sp :: _ =>
      match i.matchString sp.txt with | some i' => .ok i' m () | none => .fail m
  | _+1, _, .peekAll, i, m =>
    match peekSpans m.stk i with | some i' => .ok i' m () | none => .fail m
  | _+1, _, .pop, i, m =>
    match m.stk with
    | [] => .fail { m with trk := m.trk.emptyStack i }
    | sp :: rest =>
      match i.matchString sp.txt with
      | some i' => .ok i' { m with stk := rest } ()
      | none => .fail { m with stk := rest }
  | _+1, _, .popAll, i, m =>
    match peekSpans m.stk i with
    | some i' => .ok i' { m with stk := [] } ()
    | none => .fail m
  | _+1, _, .drop, i, m =>
    match m.stk with
    | [] => .fail { m with trk := m.trk.emptyStack i }
    | _ :: rest => .ok i { m with stk := rest } ()
  | _+1, _, .peekSlice a b, i, m =>
    match constrainIdxs a b m.stk.length with
    | none => .fail { m with trk := m.trk.outOfBound i a b }
    | some (lo, hi) =>
      if hi ≤ lo then .ok i m ()
      else match peekSpans (stackSlice m.stk lo hi) i with
        | some i' => .ok i' m ()
        | none => .fail m
  | fuel+1, inh, .ref r f, i, m =>
    match g.rule? r with
    | none => .fail m
    | some d =>
      let inh' := f.eval inh
      match d.emit with
      | .expression => check g uni fuel inh' d.body i m
      | _ =>
        -- `record_during_with(input, .., RULE)`
        match check g uni fuel inh' d.body i { m with trk := m.trk.enter r i.pos } with
        | .oof => .oof
        | .fail m' => .fail { m' with trk := m'.trk.leave r i.pos false }
        | .ok i' m' _ => .ok i' { m' with trk := m'.trk.leave r i.pos true } ()
  | fuel+1, inh, .array k n, i, m =>
    match arrayLoop (check g uni fuel inh n) k i m [] with
    | .oof => .oof
    | .fail m' => .fail m'
    | .ok i' m' _ => .ok i' m' ()
  | fuel+1, inh, .pair a b, i, m =>
    match check g uni fuel inh a i m with
    | .oof => .oof
    | .fail m' => .fail m'
    | .ok i' m' _ => check g uni fuel inh b i' m'
  | _+1, _, .empty, i, m => .ok i m ()
  | _+1, _, .alwaysFail, _, m => .fail m

/-! ### parse path -/

/-- `Skip::default()` for the grammar's skip type. -/
def defaultSkipVal (g : NodeGrammar) : Val :=
  match g.skipped with
  | .atomicRepeat _ => .mk .atomicRepeat []
  | _ => .leaf .empty

def mkSkipped (sk : List Val) (a : Val) : Val := .mk (.skipped sk.length) (sk ++ [a])

/-- `try_parse_unit` (`repetition.rs`): default skip values when `i == 0`, else `SKIP` skips. -/
def repUnitP (skip : Inp → M → R Val) (body : Inp → M → R Val) (dflt : Val) (k : Nat)
    (idx : Nat) (i : Inp) (m : M) : R Val :=
  if idx = 0 then
    match body i m with
    | .oof => .oof
    | .fail m' => .fail m'
    | .ok i' m' v => .ok i' m' (mkSkipped (List.replicate k dflt) v)
  else
    match skipLoop skip k i m [] with
    | .oof => .oof
    | .fail m' => .fail m'
    | .ok i' m' sk =>
      match body i' m' with
      | .oof => .oof
      | .fail m'' => .fail m''
      | .ok i'' m'' v => .ok i'' m'' (mkSkipped sk v)

def parse (g : NodeGrammar) (uni : Uni) : Nat → Bool → Node → Inp → M → R Val
  | 0, _, _, _, _ => .oof
  | _+1, _, .str s, i, m =>
    match i.matchString s with | some i' => .ok i' m (.leaf .str) | none => .fail m
  | _+1, _, .insens s, i, m =>
    match i.matchInsens s with
    | some i' => .ok i' m (.leaf (.insens (i.spanTo i').txt))
    | none => .fail m
  | _+1, _, .range lo hi, i, m =>
    match i.matchRange lo hi with
    | some (i', c) => .ok i' m (.leaf (.charRange c))
    | none => .fail m
  | _+1, _, .any, i, m =>
    match i.matchCharBy (fun _ => true) with
    | some (i', c) => .ok i' m (.leaf (.any c))
    | none => .fail m
  | _+1, _, .soi, i, m => if i.atStart then .ok i m (.leaf .soi) else .fail m
  | _+1, _, .eoi, i, m => if i.atEnd then .ok i m (.leaf .eoi) else .fail m
  | _+1, _, .newline, i, m =>
    match newlineMatch i with
    | some (i', k) => .ok i' m (.leaf (.newline k))
    | none => .fail m
  | _+1, _, .charBy p, i, m =>
    match i.matchCharBy (uni p) with
    | some (i', c) => .ok i' m (.leaf (.uni p c))
    | none => .fail m
  | _+1, _, .skipUntil needles, i, m =>
    let i' := (i.skipUntil needles).1
    .ok i' m (.leaf (.skipUntil (i.spanTo i')))
  | _+1, _, .skipChars n, i, m =>
    match i.skipN n with
    | some i' => .ok i' m (.leaf (.skipChars (i.spanTo i')))
    | none => .fail m
  | fuel+1, inh, .seq sk items, i, m =>
    match items with
    | [] => .ok i m (.mk .seq [])
    | n0 :: ns =>
      match parse g uni fuel inh n0 i m with
      | .oof => .oof
      | .fail m' => .fail m'
      | .ok i' m' v0 =>
        let k := skipCount sk inh
        match seqLoop (parse g uni fuel inh)
            (fun i m => skipLoop (parse g uni fuel false g.skipped) k i m [])
            mkSkipped ns i' m' [] with
        | .oof => .oof
        | .fail m'' => .fail m''
        | .ok i'' m'' vs =>
          .ok i'' m'' (.mk .seq (mkSkipped (List.replicate k (defaultSkipVal g)) v0 :: vs))
  | fuel+1, inh, .choice alts, i, m =>
    match choiceLoop (parse g uni fuel inh) alts 0 i m with
    | .oof => .oof
    | .fail m' => .fail m'
    | .ok i' m' (k, v) => .ok i' m' (.mk (.choice alts.length k) [v])
  | fuel+1, inh, .opt n, i, m =>
    match restoreOnNone m.stk (parse g uni fuel inh n i m) with
    | .oof => .oof
    | .fail m' => .ok i m' (.leaf .optNone)
    | .ok i' m' v => .ok i' m' (.mk .optSome [v])
  | fuel+1, inh, .rep sk min max n, i, m =>
    match repLoop (repUnitP (parse g uni fuel false g.skipped) (parse g uni fuel inh n)
        (defaultSkipVal g) (skipCount sk inh)) min max fuel 0 i m [] with
    | .oof => .oof
    | .fail m' => .fail m'
    | .ok i' m' vs => .ok i' m' (.mk (.rep min max) vs)
  | fuel+1, inh, .atomicRepeat n, i, m =>
    match repLoop (fun _ i m => parse g uni fuel inh n i m) 0 none (atomicBudget fuel) 0 i
        { m with trk := Tracker.new i } [] with
    | .oof => .oof
    | .fail m' => .fail { m' with trk := m.trk }
    | .ok i' m' vs => .ok i' { m' with trk := m.trk } (.mk .atomicRepeat vs)
  | fuel+1, inh, .pos n, i, m =>
    let orig := m.trk.positive
    match parse g uni fuel inh n i { m with trk := { m.trk with positive := true } } with
    | .oof => .oof
    | .fail m' => .fail { stk := m.stk, trk := { m'.trk with positive := orig } }
    | .ok _ m' v => .ok i { stk := m.stk, trk := { m'.trk with positive := orig } } (.mk .pos [v])
  | fuel+1, inh, .neg n, i, m =>
    -- `Negative` uses the check path of its operand even while parsing
    let orig := m.trk.positive
    match check g uni fuel inh n i { m with trk := { m.trk with positive := false } } with
    | .oof => .oof
    | .fail m' => .ok i { stk := m.stk, trk := { m'.trk with positive := orig } } (.leaf .neg)
    | .ok _ m' _ => .fail { stk := m.stk, trk := { m'.trk with positive := orig } }
  | fuel+1, inh, .push n, i, m =>
    match parse g uni fuel inh n i m with
    | .oof => .oof
    | .fail m' => .fail m'
    | .ok i' m' v => .ok i' { m' with stk := i.spanTo i' :: m'.stk } (.mk .push [v])
  | _+1, _, .peek, i, m =>
    match m.stk with
    | [] => .fail { m with trk := m.trk.emptyStack i }
    | sp :: _ =>
      match i.matchString sp.txt with
      | some i' => .ok i' m (.leaf (.peek (i.spanTo i')))
      | none => .fail m
  | _+1, _, .peekAll, i, m =>
    match peekSpans m.stk i with
    | some i' => .ok i' m (.leaf (.peekAll (i.spanTo i')))
    | none => .fail m
  | _+1, _, .pop, i, m =>
    match m.stk with
    | [] => .fail { m with trk := m.trk.emptyStack i }
    | sp :: rest =>
      match i.matchString sp.txt with
      | some i' => .ok i' { m with stk := rest } (.leaf (.pop sp))
      | none => .fail { m with stk := rest }
  | _+1, _, .popAll, i, m =>
    match peekSpans m.stk i with
    | some i' => .ok i' { m with stk := [] } (.leaf (.popAll (i.spanTo i')))
    | none => .fail m
  | _+1, _, .drop, i, m =>
    match m.stk with
    | [] => .fail { m with trk := m.trk.emptyStack i }
    | _ :: rest => .ok i { m with stk := rest } (.leaf .drop)
  | _+1, _, .peekSlice a b, i, m =>
    match constrainIdxs a b m.stk.length with
    | none => .fail { m with trk := m.trk.outOfBound i a b }
    | some (lo, hi) =>
      if hi ≤ lo then .ok i m (.leaf .peekSlice)
      else match peekSpans (stackSlice m.stk lo hi) i with
        | some i' => .ok i' m (.leaf .peekSlice)
        | none => .fail m
  | fuel+1, inh, .ref r f, i, m =>
    match g.rule? r with
    | none => .fail m
    | some d =>
      let inh' := f.eval inh
      match d.emit with
      | .expression =>
        match parse g uni fuel inh' d.body i m with
        | .oof => .oof
        | .fail m' => .fail m'
        | .ok i' m' v => .ok i' m' (.mk (.rule r .expression d.boxed i.pos i'.pos) [v])
      | .span =>
        -- atomic rules are matched through the check path even while parsing
        match check g uni fuel inh' d.body i { m with trk := m.trk.enter r i.pos } with
        | .oof => .oof
        | .fail m' => .fail { m' with trk := m'.trk.leave r i.pos false }
        | .ok i' m' _ =>
          .ok i' { m' with trk := m'.trk.leave r i.pos true } (.mk (.rule r .span d.boxed i.pos i'.pos) [])
      | .both =>
        match parse g uni fuel inh' d.body i { m with trk := m.trk.enter r i.pos } with
        | .oof => .oof
        | .fail m' => .fail { m' with trk := m'.trk.leave r i.pos false }
        | .ok i' m' v =>
          .ok i' { m' with trk := m'.trk.leave r i.pos true } (.mk (.rule r .both d.boxed i.pos i'.pos) [v])
  | fuel+1, inh, .array k n, i, m =>
    match arrayLoop (parse g uni fuel inh n) k i m [] with
    | .oof => .oof
    | .fail m' => .fail m'
    | .ok i' m' vs => .ok i' m' (.mk .array vs)
  | fuel+1, inh, .pair a b, i, m =>
    match parse g uni fuel inh a i m with
    | .oof => .oof
    | .fail m' => .fail m'
    | .ok i' m' va =>
      match parse g uni fuel inh b i' m' with
      | .oof => .oof
      | .fail m'' => .fail m''
      | .ok i'' m'' vb => .ok i'' m'' (.mk .pair [va, vb])
  | _+1, _, .empty, i, m => .ok i m (.leaf .empty)
  | _+1, _, .alwaysFail, _, m => .fail m

/-! ### entry points (`ParsableTypedNode`, `impl_parse!`, `rule::parse*`) -/

def M.init (i : Inp) : M := { stk := [], trk := Tracker.new i }

/-- `R::try_parse_partial(input)`. -/
def tryParsePartial (g : NodeGrammar) (uni : Uni) (fuel : Nat) (r : RuleId) (i : Inp) : R Val :=
  parse g uni fuel true (.ref r .one) i (M.init i)

/-- `R::try_check_partial(input)`. -/
def tryCheckPartial (g : NodeGrammar) (uni : Uni) (fuel : Nat) (r : RuleId) (i : Inp) : R Unit :=
  check g uni fuel true (.ref r .one) i (M.init i)

/-- Whether `impl_parse!` selected `parse_without_ignore` (the `true` arm). -/
def noTrailingSkip (r : RuleId) (d : RuleDef) : Bool := d.atom == .atomic || r == 0

/-- `record_during_with(input, EOI::try_*_partial_with, Rule::EOI)` at the end of a full parse. -/
def eoiStep (i : Inp) (m : M) : M × Bool :=
  let t := m.trk.enter 0 i.pos
  let ok := i.atEnd
  ({ m with trk := t.leave 0 i.pos ok }, ok)

/-- `R::try_parse(input)` (`rule::parse` / `rule::parse_without_ignore`). -/
def tryParse (g : NodeGrammar) (uni : Uni) (fuel : Nat) (r : RuleId) (i : Inp) : R Val :=
  match g.rule? r with
  | none => .fail (M.init i)
  | some d =>
    match parse g uni fuel true (.ref r .one) i (M.init i) with
    | .oof => .oof
    | .fail m => .fail m
    | .ok i' m v =>
      if noTrailingSkip r d then
        let (m', ok) := eoiStep i' m
        if ok then .ok i' m' v else .fail m'
      else
        match parse g uni fuel false g.skipped i' m with
        | .oof => .oof
        | .fail m' => .fail m'
        | .ok i'' m' _ =>
          let (m'', ok) := eoiStep i'' m'
          if ok then .ok i'' m'' v else .fail m''

/-- `R::try_check(input)` (`rule::check` / `rule::check_without_ignore`). -/
def tryCheck (g : NodeGrammar) (uni : Uni) (fuel : Nat) (r : RuleId) (i : Inp) : R Unit :=
  match g.rule? r with
  | none => .fail (M.init i)
  | some d =>
    match check g uni fuel true (.ref r .one) i (M.init i) with
    | .oof => .oof
    | .fail m => .fail m
    | .ok i' m _ =>
      if noTrailingSkip r d then
        let (m', ok) := eoiStep i' m
        if ok then .ok i' m' () else .fail m'
      else
        match check g uni fuel false g.skipped i' m with
        | .oof => .oof
        | .fail m' => .fail m'
        | .ok i'' m' _ =>
          let (m'', ok) := eoiStep i'' m'
          if ok then .ok i'' m'' () else .fail m''

end PestTyped
