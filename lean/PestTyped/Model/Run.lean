/-
Model.Run — the two interpreters `check` and `parse` of type expressions, mirroring the two
Rust copies of every combinator (`try_check_partial_with` / `try_parse_partial_with`) in
`main/src/{sequence,choices,typed_node,rule}.rs` and `main/src/predefined_node/{mod,repetition}.rs`,
plus the entry points of `ParsableTypedNode` (`typed_node.rs:60-107`, `rule.rs:739-840`).

`check` and `parse` are written independently on purpose: `Props/C03.lean` proves that they agree.
Both recurse structurally on the fuel argument only (a depth budget passed down); list and
iteration loops are the higher-order functions below.  The loops exist in TWO copies, like the
Rust code: the parse copies (`skipLoop`, `seqLoop`, `choiceLoop`, `repLoop`, `arrayLoop`, `repUnitP`)
build values and are used by `parse` only; the check copies (`skipLoopC`, `seqLoopC`, `choiceLoopC`,
`repLoopC`, `arrayLoopC`, `repUnitC`) are monomorphic in `Unit`, carry no accumulator and are used by
`check` only.  Each pair differs where the two Rust copies differ (e.g. the test after the
`RepeatMinMax` loop: `vec.len() < MIN` on the parse path, `MAX < MIN` on the check path; the
`vec.try_into()` after the `[T; N]` loop on the parse path only).
-/
import PestTyped.Model.Node
import PestTyped.Model.Tracker
namespace PestTyped

/-- What the Rust code mutates through `&mut`: the stack (top at the head) and the tracker. -/
structure M where
  stk : List Sp
  trk : Tracker
  deriving DecidableEq, Repr

abbrev R (α : Type) := Res M α

/-- Unicode property predicates (`pest::unicode::*`) are external tables: a parameter. -/
abbrev Uni := String → Char → Bool

/-- `restore_on_none`: on failure the stack content is put back (tracker is not). -/
def restoreOnNone {α} (saved : List Sp) : R α → R α
  | .fail m => .fail { m with stk := saved }
  | r => r

/-- `normalize_index` of `parser_state.rs`. -/
def normalizeIndex (i : Int) (len : Nat) : Option Nat :=
  if i > (len : Int) then none
  else if i ≥ 0 then some i.toNat
  else
    let real := (len : Int) + i
    if real ≥ 0 then some real.toNat else none

/-- `constrain_idxs` of `parser_state.rs`. -/
def constrainIdxs (a : Int) (b : Option Int) (len : Nat) : Option (Nat × Nat) :=
  match normalizeIndex a len with
  | none => none
  | some lo =>
    match b with
    | none => some (lo, len)
    | some b => match normalizeIndex b len with
      | none => none
      | some hi => some (lo, hi)

/-- `peek_spans`: match the texts of the given spans one after the other. -/
def peekSpans : List Sp → Inp → Option Inp
  | [], i => some i
  | sp :: rest, i =>
    match i.matchString sp.txt with
    | some i' => peekSpans rest i'
    | none => none

/-- `stack[lo..hi]` in bottom-to-top order, for a stack kept top-first. -/
def stackSlice (stk : List Sp) (lo hi : Nat) : List Sp :=
  (stk.reverse.drop lo).take (hi - lo)

/-! ### leaves shared by both interpreters (they only differ in the value built) -/

def newlineMatch (i : Inp) : Option (Inp × Nat) :=
  match i.matchString ['\r', '\n'] with
  | some i' => some (i', 0)
  | none =>
    match i.matchString ['\n'] with
    | some i' => some (i', 1)
    | none =>
      match i.matchString ['\r'] with
      | some i' => some (i', 2)
      | none => none

/-! ### loops, parse copies (`try_parse_partial_with` / `parse_with`) -/

/-- `SKIP` runs of the skip type (`core::array::from_fn(|_| Skip::parse_with(..))`). -/
def skipLoop {α} (skip : Inp → M → R α) : Nat → Inp → M → List α → R (List α)
  | 0, i, m, acc => .ok i m acc.reverse
  | k+1, i, m, acc =>
    match skip i m with
    | .oof => .oof
    | .fail m' => .fail m'
    | .ok i' m' a => skipLoop skip k i' m' (a :: acc)

/-- Elements of a `SeqN` after the first: skip, then the element (`sequence.rs:62-73`). -/
def seqLoop {α β} (f : Node → Inp → M → R α) (skip : Inp → M → R (List β))
    (mk : List β → α → α) : List Node → Inp → M → List α → R (List α)
  | [], i, m, acc => .ok i m acc.reverse
  | n :: ns, i, m, acc =>
    match skip i m with
    | .oof => .oof
    | .fail m' => .fail m'
    | .ok i' m' sk =>
      match f n i' m' with
      | .oof => .oof
      | .fail m'' => .fail m''
      | .ok i'' m'' a => seqLoop f skip mk ns i'' m'' (mk sk a :: acc)

/-- `ChoiceN`: alternatives in order, each under `restore_on_none`; the index of the matching
branch selects the variant (`choices.rs:143-159`). -/
def choiceLoop {α} (f : Node → Inp → M → R α) : List Node → Nat → Inp → M → R (Nat × α)
  | [], _, _, m => .fail m
  | n :: ns, k, i, m =>
    match restoreOnNone m.stk (f n i m) with
    | .oof => .oof
    | .ok i' m' a => .ok i' m' (k, a)
    | .fail m' => choiceLoop f ns (k+1) i m'

/-- The code after the repetition loop on the parse path.  `RepeatMinMax` (`max = some MAX`):
`if vec.len() < MIN { return None; }` then `Some((input, Self { content: vec }))`
(`repetition.rs:350-354`); `RepeatMin` (`max = none`): `Some(..)` only (`repetition.rs:200`). -/
def repDone {α} (min : Nat) (max : Option Nat) (i : Inp) (m : M) (acc : List α) : R (List α) :=
  match max with
  | none => .ok i m acc.reverse
  | some _ => if acc.length < min then .fail m else .ok i m acc.reverse

/-- `RepeatMin` / `RepeatMinMax` (`max = none` / `some MAX`), parse path (`repetition.rs:177-201`,
`:327-355`): `for i in 0.. ` / `for i in 0..MAX`; `unit idx` is `try_parse_unit`, run under
`restore_on_none`.  When the range is exhausted (`max = some idx`) control falls through to the
code after the loop (`repDone`); when the unit fails, `if i < MIN { return None } else { break }`,
and `break` continues with the code after the loop as well.
`budget` bounds the number of iterations (fuel). -/
def repLoop {α} (unit : Nat → Inp → M → R α) (min : Nat) (max : Option Nat) :
    Nat → Nat → Inp → M → List α → R (List α)
  | 0, _, _, _, _ => .oof
  | budget+1, idx, i, m, acc =>
    if max = some idx then repDone min max i m acc
    else
      match restoreOnNone m.stk (unit idx i m) with
      | .oof => .oof
      | .fail m' => if idx < min then .fail m' else repDone min max i m' acc
      | .ok i' m' a => repLoop unit min max budget (idx+1) i' m' (a :: acc)

/-- `[T; N]`, parse path, the loop (`typed_node.rs:165-170`): the elements are collected in a `Vec`. -/
def arrayLoop {α} (f : Inp → M → R α) : Nat → Inp → M → List α → R (List α)
  | 0, i, m, acc => .ok i m acc.reverse
  | k+1, i, m, acc =>
    match f i m with
    | .oof => .oof
    | .fail m' => .fail m'
    | .ok i' m' a => arrayLoop f k i' m' (a :: acc)

/-- `[T; N]`, parse path, after the loop (`typed_node.rs:171-175`):
`match vec.try_into() { Ok(res) => Some((input, res)), Err(_) => None }` — a `Vec<T>` converts to
`[T; N]` iff its length is `N` (the Rust comment says "Actually impossible" of the `Err` arm; that
is `arrayTryInto_arrayLoop` in `Lemmas/Agree.lean`).  The check path has no counterpart. -/
def arrayTryInto {α} (n : Nat) : R (List α) → R (List α)
  | .ok i m vs => if vs.length = n then .ok i m vs else .fail m
  | r => r

/-! ### loops, check copies (`try_check_partial_with` / `check_with`)

Written separately from the parse copies, line by line after the Rust check copies: no values, no
accumulators.  `Lemmas/Agree.lean` proves each equal to its parse twin with the values forgotten. -/

/-- `for _ in 0..SKIP { let next = Skip::check_with(input, stack); input = next; }`
(`sequence.rs:89-92`). -/
def skipLoopC (skip : Inp → M → R Unit) : Nat → Inp → M → R Unit
  | 0, i, m => .ok i m ()
  | k+1, i, m =>
    match skip i m with
    | .oof => .oof
    | .fail m' => .fail m'
    | .ok i' m' _ => skipLoopC skip k i' m'

/-- Elements of a `SeqN` after the first, check path (`sequence.rs:87-98`): the skip loop, then
`let next = $T::try_check_partial_with(input, stack, tracker)?; input = next;`; at the end
`Some(input)`. -/
def seqLoopC (f : Node → Inp → M → R Unit) (skip : Inp → M → R Unit) :
    List Node → Inp → M → R Unit
  | [], i, m => .ok i m ()
  | n :: ns, i, m =>
    match skip i m with
    | .oof => .oof
    | .fail m' => .fail m'
    | .ok i' m' _ =>
      match f n i' m' with
      | .oof => .oof
      | .fail m'' => .fail m''
      | .ok i'' m'' _ => seqLoopC f skip ns i'' m''

/-- `ChoiceN`, check path (`choices.rs:162-178`): `if let Some(input) = res { return Some(input); }`
for each alternative under `restore_on_none`, `None` at the end.  No branch index is kept. -/
def choiceLoopC (f : Node → Inp → M → R Unit) : List Node → Inp → M → R Unit
  | [], _, m => .fail m
  | n :: ns, i, m =>
    match restoreOnNone m.stk (f n i m) with
    | .oof => .oof
    | .ok i' m' _ => .ok i' m' ()
    | .fail m' => choiceLoopC f ns i m'

/-- The code after the repetition loop on the check path.  `RepeatMinMax` (`max = some MAX`):
`if MAX < MIN { return None; }` then `Some(input)` (`repetition.rs:382-386`); `RepeatMin`
(`max = none`): `Some(input)` only (`repetition.rs:225`). -/
def repDoneC (min : Nat) (max : Option Nat) (i : Inp) (m : M) : R Unit :=
  match max with
  | none => .ok i m ()
  | some mx => if mx < min then .fail m else .ok i m ()

/-- `RepeatMin` / `RepeatMinMax`, check path (`repetition.rs:204-226`, `:358-387`); `unit idx` is
`try_check_unit` under `restore_on_none`.  Same control structure as `repLoop`, but nothing is
collected and the test after the loop is `MAX < MIN` (`repDoneC`). -/
def repLoopC (unit : Nat → Inp → M → R Unit) (min : Nat) (max : Option Nat) :
    Nat → Nat → Inp → M → R Unit
  | 0, _, _, _ => .oof
  | budget+1, idx, i, m =>
    if max = some idx then repDoneC min max i m
    else
      match restoreOnNone m.stk (unit idx i m) with
      | .oof => .oof
      | .fail m' => if idx < min then .fail m' else repDoneC min max i m'
      | .ok i' m' _ => repLoopC unit min max budget (idx+1) i' m'

/-- `[T; N]`, check path (`typed_node.rs:179-189`):
`for _ in 0..N { let next = T::try_check_partial_with(..)?; input = next; } Some(input)`. -/
def arrayLoopC (f : Inp → M → R Unit) : Nat → Inp → M → R Unit
  | 0, i, m => .ok i m ()
  | k+1, i, m =>
    match f i m with
    | .oof => .oof
    | .fail m' => .fail m'
    | .ok i' m' _ => arrayLoopC f k i' m'

def skipCount (f : Flag) (inh : Bool) : Nat := if f.eval inh then 1 else 0

/-- Iteration budget of the `AtomicRepeat` loop (see DESIGN.md §4, fuel discipline). -/
def atomicBudget (fuel : Nat) : Nat := (fuel + 1) * (fuel + 1)

/-- The skip loop of `try_check_unit` (`repetition.rs:473-478`):
`for _ in 0..SKIP { if i > 0 { let next = Skip::check_with(input, stack); input = next; } }`
(the test `i > 0` is made in every iteration). -/
def repSkipC (skip : Inp → M → R Unit) (idx : Nat) : Nat → Inp → M → R Unit
  | 0, i, m => .ok i m ()
  | k+1, i, m =>
    if idx > 0 then
      match skip i m with
      | .oof => .oof
      | .fail m' => .fail m'
      | .ok i' m' _ => repSkipC skip idx k i' m'
    else repSkipC skip idx k i m

/-- `try_check_unit` (`repetition.rs:460-482`): the skip loop, then
`let next = T::try_check_partial_with(input, stack, tracker)?; input = next; Some(input)`. -/
def repUnitC (skip : Inp → M → R Unit) (body : Inp → M → R Unit) (k : Nat)
    (idx : Nat) (i : Inp) (m : M) : R Unit :=
  match repSkipC skip idx k i m with
  | .oof => .oof
  | .fail m' => .fail m'
  | .ok i' m' _ => body i' m'

/-! ### check path -/

def check (g : NodeGrammar) (uni : Uni) : Nat → Bool → Node → Inp → M → R Unit
  | 0, _, _, _, _ => .oof
  | _+1, _, .str s, i, m =>
    match i.matchString s with | some i' => .ok i' m () | none => .fail m
  | _+1, _, .insens s, i, m =>
    match i.matchInsens s with | some i' => .ok i' m () | none => .fail m
  | _+1, _, .range lo hi, i, m =>
    match i.matchRange lo hi with | some (i', _) => .ok i' m () | none => .fail m
  | _+1, _, .any, i, m =>
    match i.matchCharBy (fun _ => true) with | some (i', _) => .ok i' m () | none => .fail m
  | _+1, _, .soi, i, m => if i.atStart then .ok i m () else .fail m
  | _+1, _, .eoi, i, m => if i.atEnd then .ok i m () else .fail m
  | _+1, _, .newline, i, m =>
    match newlineMatch i with | some (i', _) => .ok i' m () | none => .fail m
  | _+1, _, .charBy p, i, m =>
    match i.matchCharBy (uni p) with | some (i', _) => .ok i' m () | none => .fail m
  | _+1, _, .skipUntil needles, i, m => .ok (i.skipUntil needles).1 m ()
  | _+1, _, .skipChars n, i, m =>
    match i.skipN n with | some i' => .ok i' m () | none => .fail m
  | fuel+1, inh, .seq sk items, i, m =>
    match items with
    | [] => .ok i m ()
    | n0 :: ns =>
      match check g uni fuel inh n0 i m with
      | .oof => .oof
      | .fail m' => .fail m'
      | .ok i' m' _ =>
        seqLoopC (check g uni fuel inh)
          (skipLoopC (check g uni fuel false g.skipped) (skipCount sk inh)) ns i' m'
  | fuel+1, inh, .choice alts, i, m => choiceLoopC (check g uni fuel inh) alts i m
  | fuel+1, inh, .opt n, i, m =>
    match restoreOnNone m.stk (check g uni fuel inh n i m) with
    | .oof => .oof
    | .fail m' => .ok i m' ()
    | .ok i' m' _ => .ok i' m' ()
  | fuel+1, inh, .rep sk min max n, i, m =>
    repLoopC (repUnitC (check g uni fuel false g.skipped) (check g uni fuel inh n) (skipCount sk inh))
      min max fuel 0 i m
  | fuel+1, inh, .atomicRepeat n, i, m =>
    -- `AtomicRepeat::check_with`: a fresh tracker, dropped afterwards
    match repLoopC (fun _ i m => check g uni fuel inh n i m) 0 none (atomicBudget fuel) 0 i
        { m with trk := Tracker.new i } with
    | .oof => .oof
    | .fail m' => .fail { m' with trk := m.trk }
    | .ok i' m' _ => .ok i' { m' with trk := m.trk } ()
  | fuel+1, inh, .pos n, i, m =>
    let orig := m.trk.positive
    match check g uni fuel inh n i { m with trk := { m.trk with positive := true } } with
    | .oof => .oof
    | .fail m' => .fail { stk := m.stk, trk := { m'.trk with positive := orig } }
    | .ok _ m' _ => .ok i { stk := m.stk, trk := { m'.trk with positive := orig } } ()
  | fuel+1, inh, .neg n, i, m =>
    let orig := m.trk.positive
    match check g uni fuel inh n i { m with trk := { m.trk with positive := false } } with
    | .oof => .oof
    | .fail m' => .ok i { stk := m.stk, trk := { m'.trk with positive := orig } } ()
    | .ok _ m' _ => .fail { stk := m.stk, trk := { m'.trk with positive := orig } }
  | fuel+1, inh, .push n, i, m =>
    match check g uni fuel inh n i m with
    | .oof => .oof
    | .fail m' => .fail m'
    | .ok i' m' _ => .ok i' { m' with stk := i.spanTo i' :: m'.stk } ()
  | _+1, _, .peek, i, m =>
    match m.stk with
    | [] => .fail { m with trk := m.trk.emptyStack i }
    | sp :: _ =>
      match i.matchString sp.txt with | some i' => .ok i' m () | none => .fail m
  | _+1, _, .peekAll, i, m =>
    match peekSpans m.stk i with | some i' => .ok i' m () | none => .fail m
  | _+1, _, .pop, i, m =>
    match m.stk with
    | [] => .fail { m with trk := m.trk.emptyStack i }
    | sp :: rest =>
      match i.matchString sp.txt with
      | some i' => .ok i' { m with stk := rest } ()
      | none => .fail { m with stk := rest }
  | _+1, _, .popAll, i, m =>
    match peekSpans m.stk i with
    | some i' => .ok i' { m with stk := [] } ()
    | none => .fail m
  | _+1, _, .drop, i, m =>
    match m.stk with
    | [] => .fail { m with trk := m.trk.emptyStack i }
    | _ :: rest => .ok i { m with stk := rest } ()
  | _+1, _, .peekSlice a b, i, m =>
    match constrainIdxs a b m.stk.length with
    | none => .fail { m with trk := m.trk.outOfBound i a b }
    | some (lo, hi) =>
      if hi ≤ lo then .ok i m ()
      else match peekSpans (stackSlice m.stk lo hi) i with
        | some i' => .ok i' m ()
        | none => .fail m
  | fuel+1, inh, .ref r f, i, m =>
    match g.rule? r with
    | none => .fail m
    | some d =>
      let inh' := f.eval inh
      match d.emit with
      | .expression => check g uni fuel inh' d.body i m
      | _ =>
        -- `record_during_with(input, .., RULE)`
        match check g uni fuel inh' d.body i { m with trk := m.trk.enter r i.pos } with
        | .oof => .oof
        | .fail m' => .fail { m' with trk := m'.trk.leave r i.pos false }
        | .ok i' m' _ => .ok i' { m' with trk := m'.trk.leave r i.pos true } ()
  | fuel+1, inh, .array k n, i, m =>
    arrayLoopC (check g uni fuel inh n) k i m
  | fuel+1, inh, .pair a b, i, m =>
    match check g uni fuel inh a i m with
    | .oof => .oof
    | .fail m' => .fail m'
    | .ok i' m' _ => check g uni fuel inh b i' m'
  | _+1, _, .empty, i, m => .ok i m ()
  | _+1, _, .alwaysFail, _, m => .fail m

/-! ### parse path -/

/-- `Skip::default()` for the grammar's skip type. -/
def defaultSkipVal (g : NodeGrammar) : Val :=
  match g.skipped with
  | .atomicRepeat _ => .mk .atomicRepeat []
  | _ => .leaf .empty

def mkSkipped (sk : List Val) (a : Val) : Val := .mk (.skipped sk.length) (sk ++ [a])

/-- `try_parse_unit` (`repetition.rs`): default skip values when `i == 0`, else `SKIP` skips. -/
def repUnitP (skip : Inp → M → R Val) (body : Inp → M → R Val) (dflt : Val) (k : Nat)
    (idx : Nat) (i : Inp) (m : M) : R Val :=
  if idx = 0 then
    match body i m with
    | .oof => .oof
    | .fail m' => .fail m'
    | .ok i' m' v => .ok i' m' (mkSkipped (List.replicate k dflt) v)
  else
    match skipLoop skip k i m [] with
    | .oof => .oof
    | .fail m' => .fail m'
    | .ok i' m' sk =>
      match body i' m' with
      | .oof => .oof
      | .fail m'' => .fail m''
      | .ok i'' m'' v => .ok i'' m'' (mkSkipped sk v)

def parse (g : NodeGrammar) (uni : Uni) : Nat → Bool → Node → Inp → M → R Val
  | 0, _, _, _, _ => .oof
  | _+1, _, .str s, i, m =>
    match i.matchString s with | some i' => .ok i' m (.leaf .str) | none => .fail m
  | _+1, _, .insens s, i, m =>
    match i.matchInsens s with
    | some i' => .ok i' m (.leaf (.insens (i.spanTo i').txt))
    | none => .fail m
  | _+1, _, .range lo hi, i, m =>
    match i.matchRange lo hi with
    | some (i', c) => .ok i' m (.leaf (.charRange c))
    | none => .fail m
  | _+1, _, .any, i, m =>
    match i.matchCharBy (fun _ => true) with
    | some (i', c) => .ok i' m (.leaf (.any c))
    | none => .fail m
  | _+1, _, .soi, i, m => if i.atStart then .ok i m (.leaf .soi) else .fail m
  | _+1, _, .eoi, i, m => if i.atEnd then .ok i m (.leaf .eoi) else .fail m
  | _+1, _, .newline, i, m =>
    match newlineMatch i with
    | some (i', k) => .ok i' m (.leaf (.newline k))
    | none => .fail m
  | _+1, _, .charBy p, i, m =>
    match i.matchCharBy (uni p) with
    | some (i', c) => .ok i' m (.leaf (.uni p c))
    | none => .fail m
  | _+1, _, .skipUntil needles, i, m =>
    let i' := (i.skipUntil needles).1
    .ok i' m (.leaf (.skipUntil (i.spanTo i')))
  | _+1, _, .skipChars n, i, m =>
    match i.skipN n with
    | some i' => .ok i' m (.leaf (.skipChars (i.spanTo i')))
    | none => .fail m
  | fuel+1, inh, .seq sk items, i, m =>
    match items with
    | [] => .ok i m (.mk .seq [])
    | n0 :: ns =>
      match parse g uni fuel inh n0 i m with
      | .oof => .oof
      | .fail m' => .fail m'
      | .ok i' m' v0 =>
        let k := skipCount sk inh
        match seqLoop (parse g uni fuel inh)
            (fun i m => skipLoop (parse g uni fuel false g.skipped) k i m [])
            mkSkipped ns i' m' [] with
        | .oof => .oof
        | .fail m'' => .fail m''
        | .ok i'' m'' vs =>
          .ok i'' m'' (.mk .seq (mkSkipped (List.replicate k (defaultSkipVal g)) v0 :: vs))
  | fuel+1, inh, .choice alts, i, m =>
    match choiceLoop (parse g uni fuel inh) alts 0 i m with
    | .oof => .oof
    | .fail m' => .fail m'
    | .ok i' m' (k, v) => .ok i' m' (.mk (.choice alts.length k) [v])
  | fuel+1, inh, .opt n, i, m =>
    match restoreOnNone m.stk (parse g uni fuel inh n i m) with
    | .oof => .oof
    | .fail m' => .ok i m' (.leaf .optNone)
    | .ok i' m' v => .ok i' m' (.mk .optSome [v])
  | fuel+1, inh, .rep sk min max n, i, m =>
    match repLoop (repUnitP (parse g uni fuel false g.skipped) (parse g uni fuel inh n)
        (defaultSkipVal g) (skipCount sk inh)) min max fuel 0 i m [] with
    | .oof => .oof
    | .fail m' => .fail m'
    | .ok i' m' vs => .ok i' m' (.mk (.rep min max) vs)
  | fuel+1, inh, .atomicRepeat n, i, m =>
    match repLoop (fun _ i m => parse g uni fuel inh n i m) 0 none (atomicBudget fuel) 0 i
        { m with trk := Tracker.new i } [] with
    | .oof => .oof
    | .fail m' => .fail { m' with trk := m.trk }
    | .ok i' m' vs => .ok i' { m' with trk := m.trk } (.mk .atomicRepeat vs)
  | fuel+1, inh, .pos n, i, m =>
    let orig := m.trk.positive
    match parse g uni fuel inh n i { m with trk := { m.trk with positive := true } } with
    | .oof => .oof
    | .fail m' => .fail { stk := m.stk, trk := { m'.trk with positive := orig } }
    | .ok _ m' v => .ok i { stk := m.stk, trk := { m'.trk with positive := orig } } (.mk .pos [v])
  | fuel+1, inh, .neg n, i, m =>
    -- `Negative` uses the check path of its operand even while parsing
    let orig := m.trk.positive
    match check g uni fuel inh n i { m with trk := { m.trk with positive := false } } with
    | .oof => .oof
    | .fail m' => .ok i { stk := m.stk, trk := { m'.trk with positive := orig } } (.leaf .neg)
    | .ok _ m' _ => .fail { stk := m.stk, trk := { m'.trk with positive := orig } }
  | fuel+1, inh, .push n, i, m =>
    match parse g uni fuel inh n i m with
    | .oof => .oof
    | .fail m' => .fail m'
    | .ok i' m' v => .ok i' { m' with stk := i.spanTo i' :: m'.stk } (.mk .push [v])
  | _+1, _, .peek, i, m =>
    match m.stk with
    | [] => .fail { m with trk := m.trk.emptyStack i }
    | sp :: _ =>
      match i.matchString sp.txt with
      | some i' => .ok i' m (.leaf (.peek (i.spanTo i')))
      | none => .fail m
  | _+1, _, .peekAll, i, m =>
    match peekSpans m.stk i with
    | some i' => .ok i' m (.leaf (.peekAll (i.spanTo i')))
    | none => .fail m
  | _+1, _, .pop, i, m =>
    match m.stk with
    | [] => .fail { m with trk := m.trk.emptyStack i }
    | sp :: rest =>
      match i.matchString sp.txt with
      | some i' => .ok i' { m with stk := rest } (.leaf (.pop sp))
      | none => .fail { m with stk := rest }
  | _+1, _, .popAll, i, m =>
    match peekSpans m.stk i with
    | some i' => .ok i' { m with stk := [] } (.leaf (.popAll (i.spanTo i')))
    | none => .fail m
  | _+1, _, .drop, i, m =>
    match m.stk with
    | [] => .fail { m with trk := m.trk.emptyStack i }
    | _ :: rest => .ok i { m with stk := rest } (.leaf .drop)
  | _+1, _, .peekSlice a b, i, m =>
    match constrainIdxs a b m.stk.length with
    | none => .fail { m with trk := m.trk.outOfBound i a b }
    | some (lo, hi) =>
      if hi ≤ lo then .ok i m (.leaf .peekSlice)
      else match peekSpans (stackSlice m.stk lo hi) i with
        | some i' => .ok i' m (.leaf .peekSlice)
        | none => .fail m
  | fuel+1, inh, .ref r f, i, m =>
    match g.rule? r with
    | none => .fail m
    | some d =>
      let inh' := f.eval inh
      match d.emit with
      | .expression =>
        match parse g uni fuel inh' d.body i m with
        | .oof => .oof
        | .fail m' => .fail m'
        | .ok i' m' v => .ok i' m' (.mk (.rule r .expression d.boxed i.pos i'.pos) [v])
      | .span =>
        -- atomic rules are matched through the check path even while parsing
        match check g uni fuel inh' d.body i { m with trk := m.trk.enter r i.pos } with
        | .oof => .oof
        | .fail m' => .fail { m' with trk := m'.trk.leave r i.pos false }
        | .ok i' m' _ =>
          .ok i' { m' with trk := m'.trk.leave r i.pos true } (.mk (.rule r .span d.boxed i.pos i'.pos) [])
      | .both =>
        match parse g uni fuel inh' d.body i { m with trk := m.trk.enter r i.pos } with
        | .oof => .oof
        | .fail m' => .fail { m' with trk := m'.trk.leave r i.pos false }
        | .ok i' m' v =>
          .ok i' { m' with trk := m'.trk.leave r i.pos true } (.mk (.rule r .both d.boxed i.pos i'.pos) [v])
  | fuel+1, inh, .array k n, i, m =>
    match arrayTryInto k (arrayLoop (parse g uni fuel inh n) k i m []) with
    | .oof => .oof
    | .fail m' => .fail m'
    | .ok i' m' vs => .ok i' m' (.mk .array vs)
  | fuel+1, inh, .pair a b, i, m =>
    match parse g uni fuel inh a i m with
    | .oof => .oof
    | .fail m' => .fail m'
    | .ok i' m' va =>
      match parse g uni fuel inh b i' m' with
      | .oof => .oof
      | .fail m'' => .fail m''
      | .ok i'' m'' vb => .ok i'' m'' (.mk .pair [va, vb])
  | _+1, _, .empty, i, m => .ok i m (.leaf .empty)
  | _+1, _, .alwaysFail, _, m => .fail m

/-! ### entry points (`ParsableTypedNode`, `impl_parse!`, `rule::parse*`) -/

def M.init (i : Inp) : M := { stk := [], trk := Tracker.new i }

/-- `R::try_parse_partial(input)`. -/
def tryParsePartial (g : NodeGrammar) (uni : Uni) (fuel : Nat) (r : RuleId) (i : Inp) : R Val :=
  parse g uni fuel true (.ref r .one) i (M.init i)

/-- `R::try_check_partial(input)`. -/
def tryCheckPartial (g : NodeGrammar) (uni : Uni) (fuel : Nat) (r : RuleId) (i : Inp) : R Unit :=
  check g uni fuel true (.ref r .one) i (M.init i)

/-- Whether `impl_parse!` selected `parse_without_ignore` (the `true` arm). -/
def noTrailingSkip (r : RuleId) (d : RuleDef) : Bool := d.atom == .atomic || r == 0

/-- `record_during_with(input, EOI::try_*_partial_with, Rule::EOI)` at the end of a full parse. -/
def eoiStep (i : Inp) (m : M) : M × Bool :=
  let t := m.trk.enter 0 i.pos
  let ok := i.atEnd
  ({ m with trk := t.leave 0 i.pos ok }, ok)

/-- `R::try_parse(input)` (`rule::parse` / `rule::parse_without_ignore`). -/
def tryParse (g : NodeGrammar) (uni : Uni) (fuel : Nat) (r : RuleId) (i : Inp) : R Val :=
  match g.rule? r with
  | none => .fail (M.init i)
  | some d =>
    match parse g uni fuel true (.ref r .one) i (M.init i) with
    | .oof => .oof
    | .fail m => .fail m
    | .ok i' m v =>
      if noTrailingSkip r d then
        let (m', ok) := eoiStep i' m
        if ok then .ok i' m' v else .fail m'
      else
        match parse g uni fuel false g.skipped i' m with
        | .oof => .oof
        | .fail m' => .fail m'
        | .ok i'' m' _ =>
          let (m'', ok) := eoiStep i'' m'
          if ok then .ok i'' m'' v else .fail m''

/-- `R::try_check(input)` (`rule::check` / `rule::check_without_ignore`). -/
def tryCheck (g : NodeGrammar) (uni : Uni) (fuel : Nat) (r : RuleId) (i : Inp) : R Unit :=
  match g.rule? r with
  | none => .fail (M.init i)
  | some d =>
    match check g uni fuel true (.ref r .one) i (M.init i) with
    | .oof => .oof
    | .fail m => .fail m
    | .ok i' m _ =>
      if noTrailingSkip r d then
        let (m', ok) := eoiStep i' m
        if ok then .ok i' m' () else .fail m'
      else
        match check g uni fuel false g.skipped i' m with
        | .oof => .oof
        | .fail m' => .fail m'
        | .ok i'' m' _ =>
          let (m'', ok) := eoiStep i'' m'
          if ok then .ok i'' m'' () else .fail m''

end PestTyped
