/-
Model.Gen — the generator's translation from pest's AST to type expressions.
Mirrors `generator/src/graph/optimized_rule.rs` and `generator/src/graph/rule.rs`
(`generate_graph_node`: skip token from the rule kind, right-spine flattening `walk!`,
transparent `RestoreOnErr`), `generator/src/graph.rs` (`generate_builtin`, the `Skipped` alias,
rule id 0 = `EOI` from `generator.rs::generate_enum`) and the built-in aliases of
`main/src/predefined_node/mod.rs:972-1012`.
-/
import PestTyped.Model.Node
import PestTyped.Model.Pest
namespace PestTyped

def kindAtomicity : RuleKind → Atomicity
  | .normal => .inherited
  | .silent => .inherited
  | .nonAtomic => .nonAtomic
  | .compoundAtomic => .atomic
  | .atomic => .atomic

def kindEmission : RuleKind → Emission
  | .normal => .both
  | .silent => .expression
  | .nonAtomic => .both
  | .compoundAtomic => .both
  | .atomic => .span

/-- The `#skip` token: `0`, `1` or `INHERITED`. -/
def atomFlag : Atomicity → Flag
  | .atomic => .zero
  | .nonAtomic => .one
  | .inherited => .inh

def asciiDigit : Node := .range '0' '9'
def asciiAlphaLower : Node := .range 'a' 'z'
def asciiAlphaUpper : Node := .range 'A' 'Z'
def asciiAlpha : Node := .choice [asciiAlphaLower, asciiAlphaUpper]

/-- Names that are not defined by the grammar (`generate_builtin`, `generate_unicode`). -/
def builtinNode (name : String) : Node :=
  if name = "ANY" then .any
  else if name = "SOI" then .soi
  else if name = "EOI" then .ref 0 .one
  else if name = "PEEK" then .peek
  else if name = "PEEK_ALL" then .peekAll
  else if name = "POP" then .pop
  else if name = "POP_ALL" then .popAll
  else if name = "DROP" then .drop
  else if name = "ASCII_DIGIT" then asciiDigit
  else if name = "ASCII_NONZERO_DIGIT" then .range '1' '9'
  else if name = "ASCII_BIN_DIGIT" then .range '0' '1'
  else if name = "ASCII_OCT_DIGIT" then .range '0' '7'
  else if name = "ASCII_HEX_DIGIT" then .choice [asciiDigit, .range 'a' 'f', .range 'A' 'F']
  else if name = "ASCII_ALPHA_LOWER" then asciiAlphaLower
  else if name = "ASCII_ALPHA_UPPER" then asciiAlphaUpper
  else if name = "ASCII_ALPHA" then asciiAlpha
  else if name = "ASCII_ALPHANUMERIC" then .choice [asciiAlpha, asciiDigit]
  else if name = "ASCII" then .range (Char.ofNat 0) (Char.ofNat 0x7f)
  else if name = "NEWLINE" then .newline
  else if name = "WHITESPACE" then .alwaysFail
  else if name = "COMMENT" then .alwaysFail
  else .charBy name

mutual
/-- `generate_graph_node` (type part). -/
def genExpr (g : PGrammar) (sk : Flag) : PExpr → Node
  | .str s => .str s
  | .insens s => .insens s
  | .range lo hi => .range lo hi
  | .ident name =>
    match g.indexOf name with
    | some k => .ref (k+1) sk
    | none => builtinNode name
  | .peekSlice a b => .peekSlice a b
  | .posPred e => .pos (genExpr g sk e)
  | .negPred e => .neg (genExpr g sk e)
  | .seq a b => .seq sk (genExpr g sk a :: genSeqSpine g sk b)
  | .choice a b => .choice (genExpr g sk a :: genChoiceSpine g sk b)
  | .opt e => .opt (genExpr g sk e)
  | .rep e => .rep sk 0 none (genExpr g sk e)
  | .repOnce e => .rep sk 1 none (genExpr g sk e)
  | .repExact e n => .rep sk n (some n) (genExpr g sk e)
  | .repMin e n => .rep sk n none (genExpr g sk e)
  | .repMax e n => .rep sk 0 (some n) (genExpr g sk e)
  | .repMinMax e n m => .rep sk n (some m) (genExpr g sk e)
  | .skip needles => .skipUntil needles
  | .push e => .push (genExpr g sk e)
  | .restoreOnErr e => genExpr g sk e
/-- `walk!(expr, Seq)`: the right spine of a `Seq`. -/
def genSeqSpine (g : PGrammar) (sk : Flag) : PExpr → List Node
  | .seq a b => genExpr g sk a :: genSeqSpine g sk b
  | e => [genExpr g sk e]
/-- `walk!(expr, Choice)`: the right spine of a `Choice`. -/
def genChoiceSpine (g : PGrammar) (sk : Flag) : PExpr → List Node
  | .choice a b => genExpr g sk a :: genChoiceSpine g sk b
  | e => [genExpr g sk e]
end

def eoiDef : RuleDef :=
  { name := "EOI", atom := .inherited, emit := .both, boxed := false, body := .eoi }

/-- `generics::Skipped<'i>`. -/
def genSkipped (g : PGrammar) : Node :=
  match g.indexOf "WHITESPACE", g.indexOf "COMMENT" with
  | some w, some c => .atomicRepeat (.choice [.ref (w+1) .zero, .ref (c+1) .zero])
  | some w, none => .atomicRepeat (.ref (w+1) .zero)
  | none, some c => .atomicRepeat (.ref (c+1) .zero)
  | none, none => .empty

def genRule (g : PGrammar) (r : PRule) : RuleDef :=
  let atom := kindAtomicity r.kind
  { name := r.name, atom := atom, emit := kindEmission r.kind, boxed := true,
    body := genExpr g (atomFlag atom) r.expr }

/-- The generated module for a grammar (default options). -/
def gen (g : PGrammar) : NodeGrammar :=
  { rules := eoiDef :: g.map (genRule g), skipped := genSkipped g }

end PestTyped
