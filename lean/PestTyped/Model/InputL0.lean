/-
Model.InputL0 — layer L0 of DESIGN.md §3: the input primitives of `main/src/input.rs` at BYTE level,
written as the Rust does them, with the two build profiles.

The input is the byte sequence of a `&str`; a cursor is `(bytes, start, pos, end)`:
`Position` and `SubInput1` have `end = bytes.length`, `SubInput2` carries its own `end`.
`checked = cfg!(debug_assertions)`:

* `get` is `&self.input[self.pos..self.end]` when `checked` — it PANICS unless
  `pos ≤ end ≤ len` and both offsets are char boundaries — and
  `self.input.get_unchecked(self.pos..self.end)` otherwise — undefined behaviour (`ub`) in exactly
  that situation (the safety contract of `str::get_unchecked`), the same slice when it is met.
* everything else (`starts_with`, `str::get(..len)`, `eq_ignore_ascii_case`, `chars().next()`,
  `len_utf8`, the `skip_until` loop with `input.get(from..end)`) is safe code operating on the slice.

std functions are modelled by their documented behaviour on the bytes: `is_char_boundary` by its
implementation (`index == 0 || index == len || (bytes[index] as i8) >= -0x40`), `Chars::next` by
core Lean's UTF-8 decoder `ByteArray.utf8DecodeChar?` (on well-formed text all decoders agree).

Import-free (core only) besides `Model.Basic`.
-/
import PestTyped.Model.Basic
namespace PestTyped

/-- `str::as_bytes` of a text given as characters: its UTF-8 encoding. -/
def enc (l : List Char) : List UInt8 := l.flatMap String.utf8EncodeChar

/-- Outcome of a primitive that may slice: a value, a panic (checked slicing), or undefined
behaviour (unchecked slicing outside its contract). -/
inductive P (α : Type) where
  | ok (a : α)
  | panic
  | ub
  deriving DecidableEq, Repr

def P.bind {α β} (x : P α) (f : α → P β) : P β :=
  match x with
  | .ok a => f a
  | .panic => .panic
  | .ub => .ub

/-- A cursor at byte level. -/
structure Inp0 where
  bytes : List UInt8
  start : Nat
  pos : Nat
  «end» : Nat
  deriving DecidableEq, Repr

/-- `u8::is_utf8_char_boundary`: `(b as i8) >= -0x40`, i.e. not a continuation byte `10xxxxxx`. -/
def boundaryByte (b : UInt8) : Bool := b.toNat < 128 || 192 ≤ b.toNat

/-- `str::is_char_boundary`. -/
def isBoundary (bs : List UInt8) (k : Nat) : Bool :=
  k == 0 || k == bs.length ||
    (match bs[k]? with
     | some b => boundaryByte b
     | none => false)

/-- `str::get(a..b)`: `None` unless `a ≤ b ≤ len` and both are char boundaries. -/
def strGet (bs : List UInt8) (a b : Nat) : Option (List UInt8) :=
  if a ≤ b && b ≤ bs.length && isBoundary bs a && isBoundary bs b then some ((bs.drop a).take (b - a))
  else none

/-- `u8::to_ascii_lowercase`: `b | (is_ascii_uppercase(b) as u8 * 0x20)`. -/
def lowerByte (b : UInt8) : UInt8 := if 65 ≤ b.toNat ∧ b.toNat ≤ 90 then b ||| 0x20 else b

/-- `str::eq_ignore_ascii_case` (on the bytes: equal length and bytewise equal up to ASCII case). -/
def eqIgnoreAsciiCase (a b : List UInt8) : Bool :=
  a.length == b.length && a.map lowerByte == b.map lowerByte

/-- `s.chars().next()`: decode the first character of the slice. -/
def nextChar (sl : List UInt8) : Option Char := ByteArray.utf8DecodeChar? sl.toByteArray 0

namespace Inp0

/-- `Input::get` of the three cursor types (`input.rs:153-159,198-204,227-233`). -/
def get (checked : Bool) (i : Inp0) : P (List UInt8) :=
  match strGet i.bytes i.pos i.end with
  | some sl => .ok sl
  | none => if checked then .panic else .ub

/-- `Input::match_string`: `get().starts_with(string)`, then `cursor += string.len()`. -/
def matchString0 (checked : Bool) (s : List UInt8) (i : Inp0) : P (Option Inp0) :=
  (i.get checked).bind fun sl =>
    .ok (if s.isPrefixOf sl then some { i with pos := i.pos + s.length } else none)

/-- `Input::match_insensitive`: `get().get(..len)`, `eq_ignore_ascii_case`, `cursor += len`. -/
def matchInsens0 (checked : Bool) (s : List UInt8) (i : Inp0) : P (Option Inp0) :=
  (i.get checked).bind fun sl =>
    .ok (match strGet sl 0 s.length with
      | some pre => if eqIgnoreAsciiCase pre s then some { i with pos := i.pos + s.length } else none
      | none => none)

/-- The counting loop of `Input::skip`: `n` times `chars.next()`, summing `len_utf8`. -/
def skipLen : Nat → List UInt8 → Nat → Option Nat
  | 0, _, acc => some acc
  | n+1, sl, acc =>
    match nextChar sl with
    | none => none
    | some c => skipLen n (sl.drop c.utf8Size) (acc + c.utf8Size)

/-- `Input::skip(n)`. -/
def skip0 (checked : Bool) (n : Nat) (i : Inp0) : P (Option Inp0) :=
  (i.get checked).bind fun sl =>
    .ok (match skipLen n sl 0 with
      | some k => some { i with pos := i.pos + k }
      | none => none)

/-- `Input::match_char_by`: `chars().next()`, the predicate, `cursor += c.len_utf8()`. -/
def matchCharBy0 (checked : Bool) (p : Char → Bool) (i : Inp0) : P (Option (Inp0 × Char)) :=
  (i.get checked).bind fun sl =>
    .ok (match nextChar sl with
      | none => none
      | some c => if p c then some ({ i with pos := i.pos + c.utf8Size }, c) else none)

/-- `Input::match_range`. -/
def matchRange0 (checked : Bool) (lo hi : Char) (i : Inp0) : P (Option (Inp0 × Char)) :=
  i.matchCharBy0 checked (fun c => lo ≤ c ∧ c ≤ hi)

/-- `Input::next` (and the `Position` override, which is `chars().next()` then `skip(1)`). -/
def next0 (checked : Bool) (i : Inp0) : P (Option (Inp0 × Char)) :=
  i.matchCharBy0 checked (fun _ => true)

/-- The loop of `Input::skip_until` over `from ∈ byte_offset()..end()`: `input().get(from..end)`
(safe: `None` off a boundary → `continue`), then `Some(needle) == bytes.get(0..needle.len())` for each
needle.  `k` is the number of offsets left. -/
def skipUntilLoop0 (needles : List (List UInt8)) (bs : List UInt8) (e : Nat) : Nat → Nat → Option Nat
  | 0, _ => none
  | k+1, «from» =>
    match strGet bs «from» e with
    | some sl =>
      if needles.any (fun n => n.isPrefixOf sl) then some «from»
      else skipUntilLoop0 needles bs e k («from» + 1)
    | none => skipUntilLoop0 needles bs e k («from» + 1)

/-- `Input::skip_until`: never slices through `get()`, hence the same in both profiles. -/
def skipUntil0 (needles : List (List UInt8)) (i : Inp0) : Inp0 × Bool :=
  match skipUntilLoop0 needles i.bytes i.end (i.end - i.pos) i.pos with
  | some f => ({ i with pos := f }, true)
  | none => ({ i with pos := i.end }, false)

/-- `Input::at_start` / `Input::at_end`. -/
def atStart0 (i : Inp0) : Bool := i.pos == i.start
def atEnd0 (i : Inp0) : Bool := i.pos == i.end

end Inp0

/-- `Position::new_unchecked(input, pos)`: `debug_assert!(input.get(pos..).is_some())`. -/
def positionNewUnchecked (checked : Bool) (bs : List UInt8) (pos : Nat) : P Nat :=
  if checked then (match strGet bs pos bs.length with | some _ => .ok pos | none => .panic) else .ok pos

/-- `Span::new_unchecked(input, start, end)`: `debug_assert!(input.get(start..end).is_some())`. -/
def spanNewUnchecked (checked : Bool) (bs : List UInt8) (s e : Nat) : P (Nat × Nat) :=
  if checked then (match strGet bs s e with | some _ => .ok (s, e) | none => .panic) else .ok (s, e)

/-- `Span::as_str`: `&self.input[self.start..self.end]` (checked slicing in every profile). -/
def spanAsStr (bs : List UInt8) (s e : Nat) : P (List UInt8) :=
  match strGet bs s e with
  | some sl => .ok sl
  | none => .panic

end PestTyped
