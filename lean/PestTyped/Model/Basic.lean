/-
Model.Basic — shared vocabulary of the model: byte lengths of character lists, spans,
inputs (the three cursor types of `main/src/input.rs` in one record) and the input
primitives at character level (layer L1 of DESIGN.md §3).

Mirrors: `main/src/input.rs` (trait `Input`, default methods; `Position`, `SubInput1`,
`SubInput2`).  Strings are `List Char`; offsets are byte offsets (`Nat`).
Import-free (core only) so that the driver links as a `lean_exe`.
-/
namespace PestTyped

abbrev RuleId := Nat

/-- UTF-8 byte length of a list of characters (`str::len`). -/
def blen : List Char → Nat
  | [] => 0
  | c :: cs => c.utf8Size + blen cs

/-- A span as stored on the stack and in values: byte offsets plus the text between them. -/
structure Sp where
  s : Nat
  e : Nat
  txt : List Char
  deriving DecidableEq, Repr, Inhabited

/-- The cursor types `Position`, `SubInput1`, `SubInput2` in one record.
`rest` is the text in `[pos, end)`, `after` the text of the parent string at and beyond `end`
(non-empty only for a `Span` input; only `skip_until` before its repair could see it). -/
structure Inp where
  start : Nat
  pos : Nat
  rest : List Char
  after : List Char
  deriving DecidableEq, Repr, Inhabited

namespace Inp

def atStart (i : Inp) : Bool := i.pos == i.start
def atEnd (i : Inp) : Bool := i.rest.isEmpty
def endPos (i : Inp) : Nat := i.pos + blen i.rest

/-- Advance over the first `n` characters. -/
def adv (i : Inp) (n : Nat) : Inp :=
  { i with pos := i.pos + blen (i.rest.take n), rest := i.rest.drop n }

/-- `start.span(end)`: the span between two cursors of the same input. -/
def spanTo (a b : Inp) : Sp :=
  ⟨a.pos, b.pos, a.rest.take (a.rest.length - b.rest.length)⟩

/-- `Input::match_string`. -/
def matchString (s : List Char) (i : Inp) : Option Inp :=
  if s.isPrefixOf i.rest then some (i.adv s.length) else none

end Inp

/-- The char-prefix of exactly `n` bytes, if `n` falls on a boundary (`str::get(..n)`). -/
def takeBytes : Nat → List Char → Option (List Char)
  | n, [] => if n = 0 then some [] else none
  | n, c :: cs =>
    if n = 0 then some []
    else if c.utf8Size ≤ n then (takeBytes (n - c.utf8Size) cs).map (c :: ·) else none

def asciiLower (c : Char) : Char :=
  if 'A' ≤ c ∧ c ≤ 'Z' then Char.ofNat (c.toNat + 32) else c

namespace Inp

/-- `Input::match_insensitive`: `get(..len)` guard, then `eq_ignore_ascii_case`. -/
def matchInsens (s : List Char) (i : Inp) : Option Inp :=
  match takeBytes (blen s) i.rest with
  | some p => if p.map asciiLower == s.map asciiLower then some (i.adv p.length) else none
  | none => none

/-- Number of characters to skip until one of the needles is a prefix of the remaining text of this
input; `none` when no needle is found before the end (`Input::skip_until`; the loop runs over
`byte_offset()..end()`, so nothing is tested *at* `end`). -/
def skipUntilGo (needles : List (List Char)) : List Char → Nat → Option Nat
  | [], _ => none
  | c :: cs, k =>
    if needles.any (fun n => n.isPrefixOf (c :: cs)) then some k
    else skipUntilGo needles cs (k+1)

/-- `Input::skip_until`: returns the new cursor and whether a needle was found. -/
def skipUntil (needles : List (List Char)) (i : Inp) : Inp × Bool :=
  match skipUntilGo needles i.rest 0 with
  | some k => (i.adv k, true)
  | none => (i.adv i.rest.length, false)

/-- `Input::skip(n)`: `n` characters or nothing. -/
def skipN (n : Nat) (i : Inp) : Option Inp :=
  if n ≤ i.rest.length then some (i.adv n) else none

/-- `Input::match_char_by`. -/
def matchCharBy (p : Char → Bool) (i : Inp) : Option (Inp × Char) :=
  match i.rest with
  | [] => none
  | c :: _ => if p c then some (i.adv 1, c) else none

/-- `Input::match_range` (both ends inclusive). -/
def matchRange (lo hi : Char) (i : Inp) : Option (Inp × Char) :=
  i.matchCharBy (fun c => lo ≤ c ∧ c ≤ hi)

end Inp

/-- Outcome of running a node: out of fuel, failure (carrying the mutable state `σ` the Rust
code leaves behind through `&mut`), or success with cursor, state and value. -/
inductive Res (σ α : Type) where
  | oof
  | fail (m : σ)
  | ok (i : Inp) (m : σ) (a : α)
  deriving Repr

end PestTyped
