/-
Model.Getters — the accessor functions `r.x()` the generator emits with `#[emit_rule_reference]`.

Mirrors `generator/src/graph.rs:73-355`:
* `GEdge` / `GNode` = `Edge` / the getter tree `Node` (`Rule`, `Content`, `SequenceI`, `ChoiceI`,
  `Optional`, `Contents`, `Tuple`; the two booleans of `Node::Rule` only select the generic
  arguments printed in the return type and are not modelled), `flattenable`, `wrap`, `merge`;
* `Forest` = `Getter { getters: BTreeMap<&str, Node> }` as an association list kept sorted by name,
  `Forest.prepend` (`Getter::prepend`: `content / content_i / contents / optional / choice`),
  `Forest.upsert` (the `btree_map::Entry` match of `join_mut`: occupied ↦ `merge`, vacant ↦ insert),
  `Forest.join` (`join_mut`: the other forest's entries in its iteration order);
* `genGetters` = the getter component of `generate_graph_node` in `graph/optimized_rule.rs` and
  `graph/rule.rs` (the raw constructors `RepOnce / RepExact / RepMin / RepMax / RepMinMax` included):
  `Ident ↦ from_rule`, `Push / PosPred ↦ .content()`, `NegPred ↦ Getter::new()`, `Seq`: the elements of
  the right spine (`walk!`) numbered from 0, each `.content_i(i)`, joined left to right into
  `Getter::new()`, `Choice` likewise with `.choice(i)`, `Opt ↦ .optional()`, every repetition
  `↦ .contents()`, `RestoreOnErr` transparent, every other constructor `Getter::new()`.  The getter
  component does not depend on the rule's kind nor on the other rules of the grammar;
* `evalGetter` = the path expression built by `Node::expand`, run on model values (`Val`), and
  `GNode.typeOf` = the type expression built next to it (`&T`, `Option<_>`, `Vec<_>`, tuples);
  `collect` starts the path at `&self.content` / `&*self.content`, the single kid of a rule value
  (`ruleGetter`).

`directRefs x v` is the specification side: the values of rule `x` stored in `v` itself, i.e. not
below another rule value, not under a negative predicate (which stores nothing) and not in the
`skipped` part of a `Skipped { skipped, matched }` (implicit WHITESPACE / COMMENT are not mentions),
from left to right.
Import-free (core only).
-/
import PestTyped.Model.Node
import PestTyped.Model.Pest
import PestTyped.Model.Gen
import PestTyped.Model.Access
namespace PestTyped

/-! ### the getter tree -/

inductive GEdge where
  | content
  | contentI (i : Nat)
  | choiceI (i : Nat)
  | optional
  | contents
  deriving Repr, DecidableEq, Inhabited

inductive GNode where
  | rule (name : String)
  | content (g : GNode)
  | sequenceI (i : Nat) (g : GNode)
  | choiceI (i : Nat) (flat : Bool) (g : GNode)
  | optional (flat : Bool) (g : GNode)
  | contents (g : GNode)
  | tuple (gs : List GNode)
  deriving Repr, Inhabited

/-- `Node::flattenable`: does the path yield an `Option` (so that an enclosing `Option` is flattened)? -/
def GNode.flattenable : GNode → Bool
  | .rule _ => false
  | .content g => g.flattenable
  | .sequenceI _ g => g.flattenable
  | .choiceI _ false _ => true
  | .optional false _ => true
  | .choiceI _ true g => g.flattenable
  | .optional true g => g.flattenable
  | .contents _ => false
  | .tuple _ => false

/-- `Node::wrap`. -/
def GNode.wrap (t : GNode) : GEdge → GNode
  | .content => .content t
  | .contentI i => .sequenceI i t
  | .choiceI i => .choiceI i t.flattenable t
  | .optional => .optional t.flattenable t
  | .contents => .contents t

/-- `Node::merge`: tuples at this level are concatenated, anything else becomes a component. -/
def GNode.merge : GNode → GNode → GNode
  | .tuple a, .tuple b => .tuple (a ++ b)
  | .tuple a, o => .tuple (a ++ [o])
  | s, .tuple b => .tuple (s :: b)
  | s, o => .tuple [s, o]

/-! ### the getter forest (`BTreeMap<&str, Node>`) -/

abbrev Forest := List (String × GNode)

def Forest.keys (f : Forest) : List String := f.map (·.1)

/-- `BTreeMap::get`. -/
def Forest.get? : Forest → String → Option GNode
  | [], _ => none
  | (k, t) :: rest, x => if k = x then some t else Forest.get? rest x

/-- `VacantEntry::insert`: the new key goes to its place in the order of the keys. -/
def Forest.insertSorted (k : String) (t : GNode) : Forest → Forest
  | [] => [(k, t)]
  | (k', t') :: rest =>
    if k < k' then (k, t) :: (k', t') :: rest else (k', t') :: Forest.insertSorted k t rest

/-- `*entry.get_mut() = f(entry.get())` of an occupied entry. -/
def Forest.modify (k : String) (fn : GNode → GNode) : Forest → Forest
  | [] => []
  | (k', t') :: rest => if k' = k then (k', fn t') :: rest else (k', t') :: Forest.modify k fn rest

/-- One step of `join_mut`. -/
def Forest.upsert (f : Forest) (k : String) (t : GNode) : Forest :=
  match f.get? k with
  | some _ => f.modify k (fun t' => t'.merge t)
  | none => f.insertSorted k t

/-- `Getter::join`. -/
def Forest.join (f other : Forest) : Forest :=
  other.foldl (fun acc kt => acc.upsert kt.1 kt.2) f

/-- `Getter::prepend`. -/
def Forest.prepend (f : Forest) (e : GEdge) : Forest := f.map fun kt => (kt.1, kt.2.wrap e)

/-! ### `generate_graph_node`, getter component -/

mutual
/-- The getters of an expression. -/
def genGetters : PExpr → Forest
  | .ident name => [(name, .rule name)]
  | .posPred e => (genGetters e).prepend .content
  | .negPred _ => []
  | .seq a b => genSeqGetters 1 (Forest.join [] ((genGetters a).prepend (.contentI 0))) b
  | .choice a b => genChoiceGetters 1 (Forest.join [] ((genGetters a).prepend (.choiceI 0))) b
  | .opt e => (genGetters e).prepend .optional
  | .rep e => (genGetters e).prepend .contents
  | .repOnce e => (genGetters e).prepend .contents
  | .repExact e _ => (genGetters e).prepend .contents
  | .repMin e _ => (genGetters e).prepend .contents
  | .repMax e _ => (genGetters e).prepend .contents
  | .repMinMax e _ _ => (genGetters e).prepend .contents
  | .push e => (genGetters e).prepend .content
  | .restoreOnErr e => genGetters e
  | .str _ => []
  | .insens _ => []
  | .range _ _ => []
  | .peekSlice _ _ => []
  | .skip _ => []
/-- `for (i, expr) in walk!(expr, Seq).enumerate() { getter = getter.join(acc.content_i(i)) }`
from element `i` on. -/
def genSeqGetters (i : Nat) (acc : Forest) : PExpr → Forest
  | .seq a b => genSeqGetters (i+1) (acc.join ((genGetters a).prepend (.contentI i))) b
  | e => acc.join ((genGetters e).prepend (.contentI i))
/-- The same loop for `walk!(expr, Choice)` with `.choice(i)`. -/
def genChoiceGetters (i : Nat) (acc : Forest) : PExpr → Forest
  | .choice a b => genChoiceGetters (i+1) (acc.join ((genGetters a).prepend (.choiceI i))) b
  | e => acc.join ((genGetters e).prepend (.choiceI i))
end

/-- Does `rule()` emit the accessor functions?  (`Emission::Both | Emission::Expression`.) -/
def emitsGetters : RuleKind → Bool
  | .atomic => false
  | _ => true

/-- The accessors of a rule: name ↦ path. -/
def ruleGetters (r : PRule) : Forest := if emitsGetters r.kind then genGetters r.expr else []

/-! ### results of an accessor: nested `Option` / `Vec` / tuples of references -/

inductive GVal where
  | ref (v : Val)
  | optNone
  | optSome (g : GVal)
  | vec (gs : List GVal)
  | tuple (gs : List GVal)
  deriving Repr, Inhabited

mutual
/-- All references in a result, left to right. -/
def GVal.flatten : GVal → List Val
  | .ref v => [v]
  | .optNone => []
  | .optSome g => g.flatten
  | .vec gs => GVal.flattenL gs
  | .tuple gs => GVal.flattenL gs
def GVal.flattenL : List GVal → List Val
  | [] => []
  | g :: gs => g.flatten ++ GVal.flattenL gs
end

/-- `Option<#inner>` with `#flat`: `.map(|res| inner)` gives `Some(inner)`; with `.flatten()` the
inner value must itself be an `Option`, and is the result. -/
def optWrap (flat : Bool) (r : GVal) : Option GVal :=
  if flat then
    match r with
    | .optNone => some r
    | .optSome _ => some r
    | _ => none
  else some (.optSome r)

/-- `res.content` of a `Push` / `Positive` value. -/
def Val.contentKid? : Val → Option Val
  | .mk .push [w] => some w
  | .mk .pos [w] => some w
  | _ => none

/-- `res.content.#i.matched` of a `SeqN` value. -/
def Val.seqKid? (i : Nat) : Val → Option Val
  | .mk .seq kids =>
    match kids[i]? with
    | some k => k.matched?
    | none => none
  | _ => none

/-- `res._#i()` of a `ChoiceN` value: `none` when the method does not exist (not a choice, `i ≥ N`). -/
def Val.choiceSel? (i : Nat) : Val → Option (Option Val)
  | .mk (.choice n idx) [w] => if i < n then (if idx = i then some (some w) else some none) else none
  | _ => none

/-- `res.as_ref()` of an `Option<T>` value. -/
def Val.optSel? : Val → Option (Option Val)
  | .mk .optNone [] => some none
  | .mk .optSome [w] => some (some w)
  | _ => none

/-- `res.content` of a repetition value (a `Vec<Skipped<T, …>>`). -/
def Val.repKids? : Val → Option (List Val)
  | .mk (.rep _ _) kids => some kids
  | _ => none

/-- `iter().map(f).collect::<Vec<_>>()` where `f` may get stuck. -/
def mapOpt {α β} (f : α → Option β) : List α → Option (List β)
  | [] => some []
  | a :: as =>
    match f a, mapOpt f as with
    | some b, some bs => some (b :: bs)
    | _, _ => none

/-- `|res| { let res = &res.matched; #inner }` on one element of a repetition. -/
def evalMatched (inner : Val → Option GVal) (k : Val) : Option GVal :=
  match k.matched? with
  | some w => inner w
  | none => none

mutual
/-- The path of `Node::expand` run on a value: `none` = the path does not apply to the value (in Rust:
would not type-check). -/
def evalGetter : GNode → Val → Option GVal
  | .rule _, v => some (.ref v)
  | .content g, v =>
    match v.contentKid? with
    | some w => evalGetter g w
    | none => none
  | .sequenceI i g, v =>
    match v.seqKid? i with
    | some w => evalGetter g w
    | none => none
  | .choiceI i flat g, v =>
    match v.choiceSel? i with
    | none => none
    | some none => some .optNone
    | some (some w) =>
      match evalGetter g w with
      | some r => optWrap flat r
      | none => none
  | .optional flat g, v =>
    match v.optSel? with
    | none => none
    | some none => some .optNone
    | some (some w) =>
      match evalGetter g w with
      | some r => optWrap flat r
      | none => none
  | .contents g, v =>
    match v.repKids? with
    | none => none
    | some kids =>
      match mapOpt (evalMatched (evalGetter g)) kids with
      | some rs => some (.vec rs)
      | none => none
  | .tuple gs, v =>
    match evalGetters gs v with
    | some rs => some (.tuple rs)
    | none => none
/-- The components of a tuple, all from the same `res`. -/
def evalGetters : List GNode → Val → Option (List GVal)
  | [], _ => some []
  | g :: gs, v =>
    match evalGetter g v, evalGetters gs v with
    | some r, some rs => some (r :: rs)
    | _, _ => none
end

/-- `pub fn x(&self) -> T { let res = &self.content (&*self.content when boxed); path }` on a rule
value. -/
def ruleGetter (t : GNode) : Val → Option GVal
  | .mk (.rule _ emit _ _ _) [c] => if emit = .span then none else evalGetter t c
  | _ => none

/-! ### the return type built by `expand` -/

inductive GTy where
  | ref
  | opt (t : GTy)
  | vec (t : GTy)
  | tuple (ts : List GTy)
  deriving Repr, Inhabited

mutual
def GNode.typeOf : GNode → GTy
  | .rule _ => .ref
  | .content g => g.typeOf
  | .sequenceI _ g => g.typeOf
  | .choiceI _ flat g => if flat then g.typeOf else .opt g.typeOf
  | .optional flat g => if flat then g.typeOf else .opt g.typeOf
  | .contents g => .vec g.typeOf
  | .tuple gs => .tuple (GNode.typeOfL gs)
def GNode.typeOfL : List GNode → List GTy
  | [] => []
  | g :: gs => g.typeOf :: GNode.typeOfL gs
end

mutual
/-- A result inhabits a type. -/
def GVal.hasTy : GVal → GTy → Bool
  | .ref _, .ref => true
  | .optNone, .opt _ => true
  | .optSome r, .opt t => r.hasTy t
  | .vec rs, .vec t => GVal.hasTyAll rs t
  | .tuple rs, .tuple ts => GVal.hasTyL rs ts
  | _, _ => false
def GVal.hasTyAll : List GVal → GTy → Bool
  | [], _ => true
  | r :: rs, t => r.hasTy t && GVal.hasTyAll rs t
def GVal.hasTyL : List GVal → List GTy → Bool
  | [], [] => true
  | r :: rs, t :: ts => r.hasTy t && GVal.hasTyL rs ts
  | _, _ => false
end

/-! ### specification side -/

mutual
/-- The values of rule `x` that `v` stores itself. -/
def directRefs (x : RuleId) : Val → List Val
  | .mk t kids =>
    match t with
    | .rule r _ _ _ _ => if r = x then [.mk t kids] else []
    | .neg => []
    | .skipped n => directRefsNth x n kids
    | _ => directRefsL x kids
def directRefsL (x : RuleId) : List Val → List Val
  | [] => []
  | v :: vs => directRefs x v ++ directRefsL x vs
/-- Only kid number `n` (the `matched` field). -/
def directRefsNth (x : RuleId) : Nat → List Val → List Val
  | _, [] => []
  | 0, v :: _ => directRefs x v
  | n+1, _ :: vs => directRefsNth x n vs
end

mutual
/-- Every value inside `v`, `v` included (pre-order). -/
def Val.subvalues : Val → List Val
  | .mk t kids => .mk t kids :: Val.subvaluesL kids
def Val.subvaluesL : List Val → List Val
  | [] => []
  | v :: vs => v.subvalues ++ Val.subvaluesL vs
end

/-- The rule a getter name stands for: the grammar's own rule of that name (ids start at 1), else
the built-in `EOI` (id 0); other built-ins (`ANY`, `PEEK`, …) are not rule structs. -/
def refId (g : PGrammar) (name : String) : Option RuleId :=
  match g.indexOf name with
  | some k => some (k+1)
  | none => if name = "EOI" then some 0 else none

/-- Span of a rule value. -/
def Val.ruleSpan? : Val → Option (Nat × Nat)
  | .mk (.rule _ _ _ s e) _ => some (s, e)
  | _ => none

end PestTyped
