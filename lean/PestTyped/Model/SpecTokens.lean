/-
Model.SpecTokens — the reference semantics of `Model/Spec.lean` WITH token emission: what pest's
generated parser pushes on its token queue (`ParserState::rule` of pest 2.7.14, `generate_rule` /
`generate_skip` of pest_generator 2.7.14), as a tree of `Token`s.

Same evaluation as `spec` (same loops, same fuel use: `Lemmas/SpecTokensLemmas.lean` proves
`(specTok g uni n am e i S).forget = spec g uni n am.na e i S`); in addition
* atomicity is three-valued (`Atom3`): `Atomic` and `CompoundAtomic` both switch skipping off, but
  only `Atomic` switches token emission off;
* `ParserState::rule` emits a token for the rule unless `lookahead ≠ None` or the atomicity in force
  when `rule` is called is `Atomic`; the generated function of a `$` (resp. `!`) rule calls
  `state.atomic(CompoundAtomic, …)` (resp. `NonAtomic`) AROUND `state.rule`, that of an `@` rule
  INSIDE it, a normal rule does not change it, a silent rule never calls `rule` (`ruleCallAt`);
* the body of an `@` rule runs `Atomic`, of a `$` rule `CompoundAtomic`, of a `!` rule `NonAtomic`;
  the body of a rule NAMED WHITESPACE / COMMENT that is not `@`/`$` is wrapped in
  `state.atomic(Atomic, …)` (`bodyAt`);
* `EOI` is `state.rule(Rule::EOI, |s| s.end_of_input())`: a token like a rule;
* the implicit skip calls the WHITESPACE / COMMENT rule functions (in the caller's `NonAtomic`
  mode), so non-silent skip rules emit tokens between sequence elements / repetition iterations;
* inside a lookahead nothing is emitted; a failing branch leaves no token (`queue.truncate`):
  both by construction here, results are values.

Rule `name` at index `k` of the grammar is token rule id `k+1`, `EOI` is 0 (as in `Model.Gen`).
Core-only (linked into the driver).
-/
import PestTyped.Model.Spec
import PestTyped.Model.Tokens
namespace PestTyped

/-- `pest::Atomicity`. -/
inductive Atom3 where
  | atomic | compound | nonAtomic
  deriving DecidableEq, Repr, Inhabited

/-- Is implicit skipping on? (`atomicity == NonAtomic`, the `na` of `Model.Spec`). -/
def Atom3.na : Atom3 → Bool
  | .nonAtomic => true
  | _ => false

/-- Result of the token semantics: as `SR`, plus the tokens emitted by the successful run. -/
inductive STR where
  | oof
  | fail
  | ok (i : Inp) (stk : List Sp) (ts : List Token)
  deriving Repr

/-- The token-free projection. -/
def STR.forget : STR → SR
  | .oof => .oof
  | .fail => .fail
  | .ok i S _ => .ok i S

/-- The atomicity in force when `ParserState::rule` is called by the generated function of a rule of
kind `k` entered under `am` (not used for silent rules, which do not call `rule`). -/
def ruleCallAt (k : RuleKind) (am : Atom3) : Atom3 :=
  match k with
  | .compoundAtomic => .compound
  | .nonAtomic => .nonAtomic
  | _ => am

/-- Does a call of a rule of kind `k` under `am` (outside any lookahead) emit a token? -/
def emitsToken (k : RuleKind) (am : Atom3) : Bool :=
  k != .silent && ruleCallAt k am != .atomic

/-- The atomicity in force inside the body of rule `name` of kind `k` entered under `am`. -/
def bodyAt (name : String) (k : RuleKind) (am : Atom3) : Atom3 :=
  match k with
  | .atomic => .atomic
  | .compoundAtomic => .compound
  | .nonAtomic => if name = "WHITESPACE" ∨ name = "COMMENT" then .atomic else .nonAtomic
  | .normal => if name = "WHITESPACE" ∨ name = "COMMENT" then .atomic else am
  | .silent => if name = "WHITESPACE" ∨ name = "COMMENT" then .atomic else am

/-- The token rule id of a grammar rule. -/
def PGrammar.ruleId (g : PGrammar) (name : String) : RuleId :=
  match g.indexOf name with
  | some k => k + 1
  | none => 0

/-- Built-ins: only `EOI` is a rule call (a token unless `Atomic`). -/
def specTokBuiltin (uni : Uni) (am : Atom3) (name : String) (i : Inp) (S : List Sp) : STR :=
  match specBuiltin uni name i S with
  | .oof => .oof
  | .fail => .fail
  | .ok i' S' => .ok i' S' (if name = "EOI" ∧ am ≠ .atomic then [.mk 0 i.pos i'.pos []] else [])

/-- `specRepLoop` accumulating the tokens of the successful iterations (the failed last attempt
leaves none). -/
def specTokRepLoop (unit : Nat → Inp → List Sp → STR) (min : Nat) (max : Option Nat) :
    Nat → Nat → Inp → List Sp → List Token → STR
  | 0, _, _, _, _ => .oof
  | budget+1, idx, i, S, acc =>
    if max = some idx then (if idx < min then .fail else .ok i S acc)
    else
      match unit idx i S with
      | .oof => .oof
      | .fail => if idx < min then .fail else .ok i S acc
      | .ok i' S' ts => specTokRepLoop unit min max budget (idx+1) i' S' (acc ++ ts)

/-- One step of the implicit skip: WHITESPACE if it matches, else COMMENT. -/
def specTokSkipUnit (call : String → Inp → List Sp → STR) (hasW hasC : Bool) (i : Inp) (S : List Sp) : STR :=
  if hasW then
    match call "WHITESPACE" i S with
    | .oof => .oof
    | .ok i' S' ts => .ok i' S' ts
    | .fail => if hasC then call "COMMENT" i S else .fail
  else if hasC then call "COMMENT" i S
  else .fail

/-- The implicit skip `(WHITESPACE | COMMENT)*`, tokens of the skip rules in match order. -/
def specTokSkip (call : PExpr → Inp → List Sp → STR) (hasW hasC : Bool) (budget : Nat) (i : Inp) (S : List Sp) : STR :=
  specTokRepLoop (fun _ i S => specTokSkipUnit (fun nm i S => call (.ident nm) i S) hasW hasC i S)
    0 none budget 0 i S []

/-- `e (skip e)*` with bounds; the tokens of a skip precede those of the iteration it introduces,
and are dropped with it when that iteration fails. -/
def specTokRepWith (sp : Atom3 → PExpr → Inp → List Sp → STR) (n : Nat) (hasW hasC : Bool) (am : Atom3)
    (e : PExpr) (min : Nat) (max : Option Nat) (i : Inp) (S : List Sp) : STR :=
  specTokRepLoop (fun idx i S =>
    if idx = 0 ∨ !am.na then sp am e i S
    else
      match specTokSkip (sp .nonAtomic) hasW hasC (atomicBudget n) i S with
      | .oof => .oof
      | .fail => .fail
      | .ok i1 S1 t1 =>
        match sp am e i1 S1 with
        | .oof => .oof
        | .fail => .fail
        | .ok i2 S2 t2 => .ok i2 S2 (t1 ++ t2)) min max n 0 i S []

def specTok (g : PGrammar) (uni : Uni) : Nat → Atom3 → PExpr → Inp → List Sp → STR
  | 0, _, _, _, _ => .oof
  | _+1, _, .str s, i, S =>
    match i.matchString s with | some i' => .ok i' S [] | none => .fail
  | _+1, _, .insens s, i, S =>
    match i.matchInsens s with | some i' => .ok i' S [] | none => .fail
  | _+1, _, .range lo hi, i, S =>
    match i.matchRange lo hi with | some (i', _) => .ok i' S [] | none => .fail
  | n+1, am, .ident name, i, S =>
    match g.find? name with
    | some r =>
      match specTok g uni n (bodyAt name r.kind am) r.expr i S with
      | .oof => .oof
      | .fail => .fail
      | .ok i' S' ts =>
        .ok i' S' (if emitsToken r.kind am then [.mk (g.ruleId name) i.pos i'.pos ts] else ts)
    | none => specTokBuiltin uni am name i S
  | _+1, _, .peekSlice a b, i, S =>
    match constrainIdxs a b S.length with
    | none => .fail
    | some (lo, hi) =>
      if hi ≤ lo then .ok i S []
      else match peekSpans (stackSlice S lo hi) i with
        | some i' => .ok i' S []
        | none => .fail
  | n+1, am, .posPred e, i, S =>
    match specTok g uni n am e i S with
    | .oof => .oof
    | .fail => .fail
    | .ok _ _ _ => .ok i S []
  | n+1, am, .negPred e, i, S =>
    match specTok g uni n am e i S with
    | .oof => .oof
    | .fail => .ok i S []
    | .ok _ _ _ => .fail
  | n+1, am, .seq a b, i, S =>
    match specTok g uni n am a i S with
    | .oof => .oof
    | .fail => .fail
    | .ok i1 S1 t1 =>
      if am.na then
        match specTokSkip (specTok g uni n .nonAtomic) (g.defines "WHITESPACE") (g.defines "COMMENT")
            (atomicBudget n) i1 S1 with
        | .oof => .oof
        | .fail => .fail
        | .ok i2 S2 t2 =>
          match specTok g uni n am b i2 S2 with
          | .oof => .oof
          | .fail => .fail
          | .ok i3 S3 t3 => .ok i3 S3 (t1 ++ t2 ++ t3)
      else
        match specTok g uni n am b i1 S1 with
        | .oof => .oof
        | .fail => .fail
        | .ok i3 S3 t3 => .ok i3 S3 (t1 ++ t3)
  | n+1, am, .choice a b, i, S =>
    match specTok g uni n am a i S with
    | .oof => .oof
    | .ok i' S' ts => .ok i' S' ts
    | .fail => specTok g uni n am b i S
  | n+1, am, .opt e, i, S =>
    match specTok g uni n am e i S with
    | .oof => .oof
    | .ok i' S' ts => .ok i' S' ts
    | .fail => .ok i S []
  | n+1, am, .rep e, i, S =>
    specTokRepWith (specTok g uni n) n (g.defines "WHITESPACE") (g.defines "COMMENT") am e 0 none i S
  | n+1, am, .repOnce e, i, S =>
    specTokRepWith (specTok g uni n) n (g.defines "WHITESPACE") (g.defines "COMMENT") am e 1 none i S
  | n+1, am, .repExact e k, i, S =>
    specTokRepWith (specTok g uni n) n (g.defines "WHITESPACE") (g.defines "COMMENT") am e k (some k) i S
  | n+1, am, .repMin e k, i, S =>
    specTokRepWith (specTok g uni n) n (g.defines "WHITESPACE") (g.defines "COMMENT") am e k none i S
  | n+1, am, .repMax e k, i, S =>
    specTokRepWith (specTok g uni n) n (g.defines "WHITESPACE") (g.defines "COMMENT") am e 0 (some k) i S
  | n+1, am, .repMinMax e k l, i, S =>
    specTokRepWith (specTok g uni n) n (g.defines "WHITESPACE") (g.defines "COMMENT") am e k (some l) i S
  | _+1, _, .skip needles, i, S => .ok (i.skipUntil needles).1 S []
  | n+1, am, .push e, i, S =>
    match specTok g uni n am e i S with
    | .oof => .oof
    | .fail => .fail
    | .ok i' S' ts => .ok i' (i.spanTo i' :: S') ts
  | n+1, am, .restoreOnErr e, i, S => specTok g uni n am e i S

/-- Entry point: rule `name` as start rule with an empty stack in NonAtomic mode (pest's
`Parser::parse(Rule::name, input)` before the end-of-input handling of the caller). -/
def specTokPartial (g : PGrammar) (uni : Uni) (n : Nat) (name : String) (i : Inp) : STR :=
  specTok g uni n .nonAtomic (.ident name) i []

/-- Is token rule id `r` an atomic (`@`) or compound-atomic (`$`) rule of the grammar? -/
def PGrammar.isAtomicId (g : PGrammar) (r : RuleId) : Bool :=
  match r with
  | 0 => false
  | k+1 =>
    match g[k]? with
    | some pr => pr.kind == .atomic || pr.kind == .compoundAtomic
    | none => false

mutual
/-- The documented difference: pest-typed reports no children for `@` and `$` rules. -/
def pruneAtomicTok (g : PGrammar) : Token → Token
  | .mk r s e kids => .mk r s e (if g.isAtomicId r then [] else pruneAtomic g kids)
/-- Remove the descendants of every token whose rule is atomic or compound-atomic. -/
def pruneAtomic (g : PGrammar) : List Token → List Token
  | [] => []
  | t :: ts => pruneAtomicTok g t :: pruneAtomic g ts
end

end PestTyped
