/-
Model.Tokens — the Pair/Pairs API over values: mirrors `main/src/iterators.rs`
(`Pairs::for_self_or_each_child` impls, `Pair::{children, as_token, as_thin_token}`,
`iterate_level_order`, `iterate_pre_order`, `write_tree_to`) and the `impl_pairs!` / `impl_pair!`
arms of `main/src/rule.rs`.
-/
import PestTyped.Model.Node
namespace PestTyped

inductive Token where
  | mk (rule : RuleId) (s e : Nat) (kids : List Token)
  deriving Repr, Inhabited

def Token.rule : Token → RuleId | .mk r _ _ _ => r
def Token.s : Token → Nat | .mk _ s _ _ => s
def Token.e : Token → Nat | .mk _ _ e _ => e
def Token.kids : Token → List Token | .mk _ _ _ k => k

/-- Does the `impl_pair!` arm selected for rule `r` give the token children
(`impl_pair_with_content`, arms `false` / `INHERITED`) or none (`impl_pair_with_empty`, arm `true`)? -/
def hasContentPairs (g : NodeGrammar) (r : RuleId) : Bool :=
  match g.rule? r with
  | some d => d.atom != .atomic && r != 0
  | none => false

mutual
/-- `Pairs::for_self_or_each_child` collected into a list. -/
def tokens (g : NodeGrammar) : Val → List Token
  | .mk (.rule r emit _ s e) kids =>
    match emit with
    | .expression => tokensList g kids
    | _ => [.mk r s e (if hasContentPairs g r then tokensList g kids else [])]
  | .mk .pos _ => []
  | .mk .neg _ => []
  | .mk _ kids => tokensList g kids
def tokensList (g : NodeGrammar) : List Val → List Token
  | [] => []
  | v :: vs => tokens g v ++ tokensList g vs
end

/-- `Pair::as_token` of a rule value that is a Pair (emission `Span` or `Both`). -/
def asToken (g : NodeGrammar) (v : Val) : Option Token :=
  match v with
  | .mk (.rule _ .expression _ _ _) _ => none
  | .mk (.rule _ _ _ _ _) _ => (tokens g v).head?
  | _ => none

/-! ### traversal algorithms as written in `iterators.rs` -/

/-- `iterate_pre_order`: explicit stack of queues; `fuel` bounds the loop (tree size suffices). -/
def preOrderLoop : Nat → List (List Token) → List (Token × Nat) → List (Token × Nat)
  | 0, _, acc => acc.reverse
  | _+1, [], acc => acc.reverse
  | fuel+1, [] :: rest, acc => preOrderLoop fuel rest acc
  | fuel+1, (t :: ts) :: rest, acc =>
    preOrderLoop fuel (t.kids :: ts :: rest) ((t, rest.length) :: acc)

mutual
def Token.size : Token → Nat
  | .mk _ _ _ kids => 1 + Token.sizeList kids
def Token.sizeList : List Token → Nat
  | [] => 0
  | t :: ts => t.size + Token.sizeList ts
end

def preOrder (t : Token) : List (Token × Nat) :=
  preOrderLoop (2 * t.size + 2) [[t]] []

/-- `iterate_level_order`: two queues; the second callback argument is the remaining queue length. -/
def levelOrderLoop : Nat → List Token → List Token → List (Token × Nat) → List (Token × Nat)
  | 0, _, _, acc => acc.reverse
  | fuel+1, [], next, acc =>
    if next.isEmpty then acc.reverse else levelOrderLoop fuel next [] acc
  | fuel+1, t :: q, next, acc =>
    levelOrderLoop fuel q (next ++ t.kids) ((t, q.length) :: acc)

def levelOrder (t : Token) : List (Token × Nat) :=
  levelOrderLoop (2 * t.size + 2) [t] [] []

/-! ### `Pair::children`, `ThinToken` / `to_thin` / `as_thin_token`, `write_tree_to` (property C15) -/

/-- `Pair::children`: `for_each_child` collected.  `impl_pair_with_content` forwards to
`self.content.for_self_or_each_child`, `impl_pair_with_empty` (atomic rules, `EOI`) yields nothing;
silent rules have no `Pair` impl. -/
def pairChildren (g : NodeGrammar) : Val → List Token
  | .mk (.rule _ .expression _ _ _) _ => []
  | .mk (.rule r _ _ _ _) kids => if hasContentPairs g r then tokensList g kids else []
  | _ => []

/-- `ThinToken`: rule, start, end, children (no reference to the input). -/
inductive ThinToken where
  | mk (rule : RuleId) (s e : Nat) (kids : List ThinToken)
  deriving Repr, Inhabited

def ThinToken.rule : ThinToken → RuleId | .mk r _ _ _ => r
def ThinToken.s : ThinToken → Nat | .mk _ s _ _ => s
def ThinToken.e : ThinToken → Nat | .mk _ _ e _ => e
def ThinToken.kids : ThinToken → List ThinToken | .mk _ _ _ k => k

mutual
/-- `Token::to_thin`. -/
def Token.toThin : Token → ThinToken
  | .mk r s e kids => .mk r s e (Token.toThinList kids)
/-- `self.children.iter().map(|c| c.to_thin()).collect()`. -/
def Token.toThinList : List Token → List ThinToken
  | [] => []
  | t :: ts => t.toThin :: Token.toThinList ts
end

/-- `Pair::as_thin_token`. -/
def asThinToken (g : NodeGrammar) (v : Val) : Option ThinToken := (asToken g v).map Token.toThin

/-- `"    ".repeat(depth)`. -/
def indent (depth : Nat) : List Char := (List.replicate depth [' ', ' ', ' ', ' ']).flatten

/-- One call of the closure `write_tree_to` hands to `iterate_pre_order`:
`"{indent}{rule:?} {text:?}\n"` when the token has no children, `"{indent}{rule:?}\n"` otherwise.
The `Debug` rendering of the rule and of the span's text are parameters. -/
def writeTreeLine (ruleName : RuleId → List Char) (dbgText : Token → List Char) (p : Token × Nat) : List Char :=
  if p.1.kids.isEmpty then indent p.2 ++ ruleName p.1.rule ++ [' '] ++ dbgText p.1 ++ ['\n']
  else indent p.2 ++ ruleName p.1.rule ++ ['\n']

/-- `format_as_tree` / `write_tree_to` into an empty `String` (which never fails): the lines
written by the pre-order callback, in visiting order. -/
def formatAsTree (ruleName : RuleId → List Char) (dbgText : Token → List Char) (t : Token) : List Char :=
  ((preOrder t).map (writeTreeLine ruleName dbgText)).flatten

end PestTyped
