/-
Model.Tracker — mirrors `main/src/tracker.rs`: the error tracker threaded through every
combinator (`prepare`, `record`, `record_during_with`, polarity, special errors, `finish`).
The `BTreeMap<Option<R>, _>` is an association list kept in insertion order; rendering sorts it.
The rule stack is a list with the top at the head.
-/
import PestTyped.Model.Basic
namespace PestTyped

inductive Special where
  | sliceOutOfBound (a : Int) (b : Option Int)
  | repeatTooManyTimes
  | emptyStack
  deriving DecidableEq, Repr

structure Tracked where
  positives : List RuleId := []
  negatives : List RuleId := []
  specials : List Special := []
  deriving DecidableEq, Repr

structure Tracker where
  position : Nat
  positive : Bool := true
  attempts : List (Option RuleId × Tracked) := []
  stack : List (RuleId × Nat × Bool) := []
  deriving DecidableEq, Repr

namespace Tracker

/-- `Tracker::new(pos)`. -/
def new (i : Inp) : Tracker := { position := i.pos }

/-- `prepare`: `false` if `pos` is before the furthest position; clears and advances if beyond. -/
def prepare (t : Tracker) (pos : Nat) : Tracker × Bool :=
  if pos < t.position then (t, false)
  else if pos = t.position then (t, true)
  else ({ t with attempts := [], position := pos }, true)

/-- The key `get_entry` selects: lowest rule on the stack that started at a different position. -/
def upper (t : Tracker) (pos : Nat) : Option RuleId :=
  match t.stack.find? (fun e => e.2.1 != pos) with
  | some e => some e.1
  | none => none

def modifyEntry (f : Tracked → Tracked) (k : Option RuleId) :
    List (Option RuleId × Tracked) → List (Option RuleId × Tracked)
  | [] => [(k, f {})]
  | (k', v) :: rest => if k' = k then (k', f v) :: rest else (k', v) :: modifyEntry f k rest

def special (t : Tracker) (pos : Nat) (s : Special) : Tracker :=
  let (t, ok) := t.prepare pos
  if ok then
    { t with attempts := modifyEntry (fun e => { e with specials := e.specials ++ [s] }) (t.upper pos) t.attempts }
  else t

def emptyStack (t : Tracker) (i : Inp) : Tracker := t.special i.pos .emptyStack
def outOfBound (t : Tracker) (i : Inp) (a : Int) (b : Option Int) : Tracker :=
  t.special i.pos (.sliceOutOfBound a b)

def pushNoDup (l : List RuleId) (r : RuleId) : List RuleId :=
  match l.getLast? with
  | some x => if x = r then l else l ++ [r]
  | none => l ++ [r]

/-- `record`. Note `prepare` runs (and may advance / clear) whatever `succeeded` is. -/
def record (t : Tracker) (rule : RuleId) (pos : Nat) (succeeded : Bool) : Tracker :=
  let (t, ok) := t.prepare pos
  if ok && (succeeded != t.positive) then
    let k := t.upper pos
    if t.positive then
      { t with attempts := modifyEntry (fun e => { e with positives := pushNoDup e.positives rule }) k t.attempts }
    else
      { t with attempts := modifyEntry (fun e => { e with negatives := pushNoDup e.negatives rule }) k t.attempts }
  else t

/-- First half of `record_during_with`: mark the parent, push the frame. -/
def enter (t : Tracker) (rule : RuleId) (pos : Nat) : Tracker :=
  let st := match t.stack with
    | [] => []
    | (r, p, _) :: rest => (r, p, true) :: rest
  { t with stack := (rule, pos, false) :: st }

/-- Second half of `record_during_with`: pop the frame, record if it had no children. -/
def leave (t : Tracker) (rule : RuleId) (pos : Nat) (succeeded : Bool) : Tracker :=
  match t.stack with
  | [] => t   -- `unwrap` on an empty stack: unreachable, frames are balanced
  | (_, _, hasChildren) :: rest =>
    let t := { t with stack := rest }
    if hasChildren then t else t.record rule pos succeeded

end Tracker
end PestTyped
