/-
Model.PestOpt — a mirror of `pest_meta::optimizer::optimize` (pest_meta 2.7.14, `src/optimizer/`):
the seven passes `rotate`, `skip`, `unroll`, `concatenate`, `factor`, `list` (on `ast::Expr`, in this
order, `mod.rs:33-51`) and `restore_on_err` (on `OptimizedExpr`, with the map of the rules optimized so
far), each applied with the traversal the Rust code uses (`Expr::map_top_down` / `map_bottom_up`,
`ast.rs:109-254`; `OptimizedExpr::map_bottom_up`, `optimizer/mod.rs:217-263`).

pest_meta is external code: this file models the environment.  It is tied to the real optimizer by the
correspondence check `optimizer-mirror` of `checks/c20.py`: for every grammar of the T-run and C20
corpora `optimize raw` (printed by `Driver/PestOpt.lean`) must be the optimized AST pest_meta produced
(`harness/tools/src/bin/dump_ast.rs` prints both ASTs of every rule).

`PExpr` (Model/Pest.lean) is the union of `ast::Expr` and `OptimizedExpr`; `rule_to_optimized_rule` is
the identity on it.

Recursion.
* `map_bottom_up` is structural.
* `map_top_down` applies `f` to a node and then recurses into the children of the RESULT, which is not
  structural; here it takes a `fuel` (`mapTopDown`), and the passes call it with `e.size + 1`: the three
  closures used top-down (`rotate_internal`, the `skip` closure, the `factor` closure) never increase
  the size, so the recursion depth is at most `e.size` (`Lemmas/PestOptLemmas.lean`:
  `mapTopDown_fuel_irrelevant`).
* `populate_choices` (skipper) and `child_modifies_state` (restorer) follow rule references through the
  rule map; they take a depth budget that the callers set above the total size of the grammar.
  `populate_choices` has no cycle detection in Rust (it would overflow the stack on `a = { "x" | a }`,
  which the validator rejects as left-recursive before the optimizer runs); out of budget answers `none`.
* `unroll` of `e{0}`, `e{,0}`, `e{n,0}` panics in Rust (`fold(None, …).unwrap()` of an empty range); the
  parser refuses these forms ("cannot repeat 0 times"), so they never reach the optimizer; here they are
  left unchanged.
Core only: linked into `model_driver`.
-/
import PestTyped.Model.Pest
import PestTyped.Model.Validator
namespace PestTyped

/-- Number of nodes. -/
def PExpr.size : PExpr → Nat
  | .posPred e => e.size + 1
  | .negPred e => e.size + 1
  | .seq a b => a.size + b.size + 1
  | .choice a b => a.size + b.size + 1
  | .opt e => e.size + 1
  | .rep e => e.size + 1
  | .repOnce e => e.size + 1
  | .repExact e _ => e.size + 1
  | .repMin e _ => e.size + 1
  | .repMax e _ => e.size + 1
  | .repMinMax e _ _ => e.size + 1
  | .push e => e.size + 1
  | .restoreOnErr e => e.size + 1
  | _ => 1

/-- Total size of the rule bodies of a grammar. -/
def PGrammar.totalSize (g : PGrammar) : Nat := g.foldr (fun r acc => r.expr.size + acc) 0

/-! ### traversals of `ast::Expr` -/

/-- The children `Expr::map_top_down` / `map_bottom_up` recurse into (every constructor with
sub-expressions; `Skip` is a leaf; `RestoreOnErr` does not exist in `ast::Expr`). -/
def PExpr.mapChildren (h : PExpr → PExpr) : PExpr → PExpr
  | .posPred e => .posPred (h e)
  | .negPred e => .negPred (h e)
  | .seq a b => .seq (h a) (h b)
  | .choice a b => .choice (h a) (h b)
  | .rep e => .rep (h e)
  | .repOnce e => .repOnce (h e)
  | .repExact e n => .repExact (h e) n
  | .repMin e n => .repMin (h e) n
  | .repMax e n => .repMax (h e) n
  | .repMinMax e n m => .repMinMax (h e) n m
  | .opt e => .opt (h e)
  | .push e => .push (h e)
  | e => e

/-- `Expr::map_top_down(f)`: `f` first, then the children of the result. -/
def mapTopDown (f : PExpr → PExpr) : Nat → PExpr → PExpr
  | 0, e => e
  | fuel+1, e => (f e).mapChildren (mapTopDown f fuel)

/-- `Expr::map_bottom_up(f)`: the children first, then `f`. -/
def mapBottomUp (f : PExpr → PExpr) : PExpr → PExpr
  | .posPred e => f (.posPred (mapBottomUp f e))
  | .negPred e => f (.negPred (mapBottomUp f e))
  | .seq a b => f (.seq (mapBottomUp f a) (mapBottomUp f b))
  | .choice a b => f (.choice (mapBottomUp f a) (mapBottomUp f b))
  | .rep e => f (.rep (mapBottomUp f e))
  | .repOnce e => f (.repOnce (mapBottomUp f e))
  | .repExact e n => f (.repExact (mapBottomUp f e) n)
  | .repMin e n => f (.repMin (mapBottomUp f e) n)
  | .repMax e n => f (.repMax (mapBottomUp f e) n)
  | .repMinMax e n m => f (.repMinMax (mapBottomUp f e) n m)
  | .opt e => f (.opt (mapBottomUp f e))
  | .push e => f (.push (mapBottomUp f e))
  | e => f e

/-! ### rotater.rs -/

/-- `rotate_internal(Seq(lhs, rhs))`: the left spine is folded to the right. -/
def rotSeq : PExpr → PExpr → PExpr
  | .seq ll lr, rhs => rotSeq ll (.seq lr rhs)
  | lhs, rhs => .seq lhs rhs

def rotChoice : PExpr → PExpr → PExpr
  | .choice ll lr, rhs => rotChoice ll (.choice lr rhs)
  | lhs, rhs => .choice lhs rhs

def rotateInternal : PExpr → PExpr
  | .seq lhs rhs => rotSeq lhs rhs
  | .choice lhs rhs => rotChoice lhs rhs
  | e => e

def rotateExpr (e : PExpr) : PExpr := mapTopDown rotateInternal (e.size + 1) e

/-! ### skipper.rs -/

/-- `populate_choices(expr, map, choices)`; `budget` bounds the call depth. -/
def populateChoices (g : PGrammar) : Nat → PExpr → List (List Char) → Option PExpr
  | 0, _, _ => none
  | budget+1, e, choices =>
    match e with
    | .choice lhs rhs =>
      match lhs with
      | .str s => populateChoices g budget rhs (choices ++ [s])
      | .ident name =>
        match (vLookup g name).bind fun body => populateChoices g budget body [] with
        | some (.skip inlined) => populateChoices g budget rhs (choices ++ inlined)
        | _ => none
      | _ => none
    | .str s => some (.skip (choices ++ [s]))
    | .ident name =>
      match vLookup g name with
      | some body => populateChoices g budget body choices
      | none => none
    | _ => none

def populateBudget (g : PGrammar) (e : PExpr) : Nat := g.totalSize + g.length + e.size + 2

/-- The closure of `skip` (only applied in `@` rules): `(!x ~ ANY)*` with `x` a choice of strings. -/
def skipClosure (g : PGrammar) (e : PExpr) : PExpr :=
  match e with
  | .rep (.seq (.negPred x) (.ident ident)) =>
    if ident = "ANY" then
      match populateChoices g (populateBudget g x) x [] with
      | some r => r
      | none => e
    else e
  | _ => e

def skipExpr (g : PGrammar) (kind : RuleKind) (e : PExpr) : PExpr :=
  if kind = .atomic then mapTopDown (skipClosure g) (e.size + 1) e else e

/-! ### unroller.rs -/

/-- `.rev().fold(None, |rep, expr| …)`: the right-nested sequence of the items. -/
def seqOf : List PExpr → Option PExpr
  | [] => none
  | [e] => some e
  | e :: es => match seqOf es with
    | some r => some (.seq e r)
    | none => some e

def unrollClosure (e : PExpr) : PExpr :=
  match e with
  | .repOnce x => .seq x (.rep x)
  | .repExact x n => (seqOf (List.replicate n x)).getD e
  | .repMin x n => (seqOf (List.replicate n x ++ [.rep x])).getD e
  | .repMax x n => (seqOf (List.replicate n (.opt x))).getD e
  | .repMinMax x n m =>
    (seqOf ((List.range m).map fun i => if i + 1 ≤ n then x else .opt x)).getD e
  | _ => e

def unrollExpr (e : PExpr) : PExpr := mapBottomUp unrollClosure e

/-! ### concatenator.rs -/

def concatClosure (e : PExpr) : PExpr :=
  match e with
  | .seq (.str a) (.str b) => .str (a ++ b)
  | .seq (.insens a) (.insens b) => .insens (a ++ b)
  | _ => e

def concatenateExpr (kind : RuleKind) (e : PExpr) : PExpr :=
  if kind = .atomic then mapBottomUp concatClosure e else e

/-! ### factorizer.rs -/

def factorClosure (kind : RuleKind) (e : PExpr) : PExpr :=
  match e with
  | .choice (.seq l1 r1) (.seq l2 r2) =>
    if l1 = l2 then .seq l1 (.choice r1 r2) else e
  | .choice (.seq l1 l2) r =>
    if kind = .atomic ∨ kind = .compoundAtomic then
      (if l1 = r then .seq l1 (.opt l2) else e)
    else e
  | .choice l (.seq r1 _) =>
    if l = r1 then l else e
  | _ => e

def factorExpr (kind : RuleKind) (e : PExpr) : PExpr := mapTopDown (factorClosure kind) (e.size + 1) e

/-! ### lister.rs -/

def listClosure (e : PExpr) : PExpr :=
  match e with
  | .seq (.rep (.seq l1 l2)) r =>
    if l1 = r then .seq l1 (.rep (.seq l2 r)) else e
  | _ => e

def listExpr (e : PExpr) : PExpr := mapBottomUp listClosure e

/-! ### restorer.rs -/

/-- `OptimizedExpr::map_bottom_up`: no counted repetitions, and `RestoreOnErr` / `Skip` are leaves. -/
def mapBottomUpOpt (f : PExpr → PExpr) : PExpr → PExpr
  | .posPred e => f (.posPred (mapBottomUpOpt f e))
  | .negPred e => f (.negPred (mapBottomUpOpt f e))
  | .seq a b => f (.seq (mapBottomUpOpt f a) (mapBottomUpOpt f b))
  | .choice a b => f (.choice (mapBottomUpOpt f a) (mapBottomUpOpt f b))
  | .rep e => f (.rep (mapBottomUpOpt f e))
  | .opt e => f (.opt (mapBottomUpOpt f e))
  | .push e => f (.push (mapBottomUpOpt f e))
  | e => f e

/-- `cache: HashMap<String, Option<bool>>`: the most recent insertion of a name is found first. -/
abbrev ModCache := List (String × Option Bool)

def ModCache.get (c : ModCache) (name : String) : Option (Option Bool) :=
  match c.find? (·.1 = name) with
  | some (_, v) => some v
  | none => none

/-- `child_modifies_state(expr, rules, cache)` = `expr.iter_top_down().any(…)`: pre-order with short
circuit; the iterator does not enter `Skip` / `RestoreOnErr`; `budget` bounds the call depth. -/
def modifiesState (g : PGrammar) : Nat → PExpr → ModCache → Bool × ModCache
  | 0, _, c => (false, c)
  | budget+1, e, c =>
    match e with
    | .push _ => (true, c)
    | .ident name =>
      if name = "DROP" then (true, c)
      else if name = "POP" then (true, c)
      else
        match c.get name with
        | some (some cached) => (cached, c)
        | some none => (false, (name, some false) :: c)
        | none =>
          let c1 : ModCache := (name, none) :: c
          match vLookup g name with
          | some body =>
            let (r, c2) := modifiesState g budget body c1
            (r, (name, some r) :: c2)
          | none => (false, (name, some false) :: c1)
    | .seq a b =>
      let (r, c1) := modifiesState g budget a c
      if r then (true, c1) else modifiesState g budget b c1
    | .choice a b =>
      let (r, c1) := modifiesState g budget a c
      if r then (true, c1) else modifiesState g budget b c1
    | .posPred x => modifiesState g budget x c
    | .negPred x => modifiesState g budget x c
    | .rep x => modifiesState g budget x c
    | .opt x => modifiesState g budget x c
    | _ => (false, c)

def modifiesBudget (g : PGrammar) (e : PExpr) : Nat := g.totalSize + g.length + e.size + 2

/-- `child_modifies_state(&expr, rules, &mut HashMap::new())`. -/
def childModifiesState (g : PGrammar) (e : PExpr) : Bool := (modifiesState g (modifiesBudget g e) e []).1

def wrapIfModifies (g : PGrammar) (e : PExpr) : PExpr :=
  if childModifiesState g e then .restoreOnErr e else e

/-- `wrap_branching_exprs(expr, rules)`. -/
def restoreClosure (g : PGrammar) (e : PExpr) : PExpr :=
  match e with
  | .opt x => .opt (wrapIfModifies g x)
  | .choice a b => .choice (wrapIfModifies g a) (wrapIfModifies g b)
  | .rep x => .rep (wrapIfModifies g x)
  | _ => e

/-- `restore_on_err(rule, rules)`; `g` is the map of the rules after the six `Expr` passes. -/
def restoreExpr (g : PGrammar) (e : PExpr) : PExpr := mapBottomUpOpt (restoreClosure g) e

/-! ### optimizer/mod.rs `optimize` -/

/-- The six `Expr` passes on one rule; `raw` is the map the skipper looks rules up in (`to_hash_map(&rules)`
of the rules as parsed). -/
def optimizeRule1 (raw : PGrammar) (r : PRule) : PRule :=
  { r with expr :=
      listExpr (factorExpr r.kind (concatenateExpr r.kind (unrollExpr (skipExpr raw r.kind (rotateExpr r.expr))))) }

/-- `optimize(rules)`. -/
def optimize (raw : PGrammar) : PGrammar :=
  let o1 := raw.map (optimizeRule1 raw)
  o1.map fun r => { r with expr := restoreExpr o1 r.expr }

/-! ### the stages, for attribution and for the per-pass theorems -/

def passRotate (g : PGrammar) : PGrammar := g.map fun r => { r with expr := rotateExpr r.expr }
def passSkip (raw g : PGrammar) : PGrammar := g.map fun r => { r with expr := skipExpr raw r.kind r.expr }
def passUnroll (g : PGrammar) : PGrammar := g.map fun r => { r with expr := unrollExpr r.expr }
def passConcatenate (g : PGrammar) : PGrammar := g.map fun r => { r with expr := concatenateExpr r.kind r.expr }
def passFactor (g : PGrammar) : PGrammar := g.map fun r => { r with expr := factorExpr r.kind r.expr }
def passList (g : PGrammar) : PGrammar := g.map fun r => { r with expr := listExpr r.expr }
def passRestore (g : PGrammar) : PGrammar := g.map fun r => { r with expr := restoreExpr g r.expr }

/-- `optimize` as the composition of the seven grammar-level passes, in pest_meta's order. -/
def optimizeStaged (raw : PGrammar) : PGrammar :=
  passRestore (passList (passFactor (passConcatenate (passUnroll (passSkip raw (passRotate raw))))))

end PestTyped
