/-
Props.C20Opt — property C20, the `pest_optimizer` clause: "switching pest's optimizer off changes the
representation only: the parsers generated with and without it accept the same inputs and stop at the
same offsets".

The optimizer is pest_meta's (external).  `Model/PestOpt.lean` is a pass-by-pass MIRROR of
`pest_meta::optimizer::optimize` (`rotate`, `skip`, `unroll`, `concatenate`, `factor`, `list` on `ast::Expr`,
then `restore_on_err`, with `map_top_down` / `map_bottom_up` exactly as in the Rust); it is tied to the real
optimizer by the correspondence check `optimizer-mirror` of `checks/c20.py` (`optimize raw` equals the
optimized AST pest_meta produced, for every rule of every grammar of the T-run and C20 corpora and of probes
written around each pass), and its intermediate stages are cross-checked against an independent python
transcription.

All statements are about the reference semantics `spec` (`Model/Spec.lean`) up to fuel: `SpecEquiv g g' uni na
e e'` (`Lemmas/SpecDen.lean`) says that `e` in `g` and `e'` in `g'` have the same DEFINITE answers (verdict,
end cursor, final stack) and terminate for the same inputs; by fuel monotonicity (`spec_mono`) this is
"for all fuels n m, both answers ≠ out-of-fuel ⇒ equal" plus transfer of termination (`SpecEquiv.agree`,
`SpecEquiv.terminates`).  Same-fuel equality is false: the passes change the nesting depth.

Per pass (expression level, in ANY grammar `g`; `na = false` is the atomic context):
* `C20_rotate_spec`        `rotate`: every flag.                                  (Lemmas/PestOptRotate.lean)
* `C20_concatenate_spec`   `concatenate` (only applied in `@` rules): `na = false`; `C20_concatenate_needs_atomic`
                           shows the restriction is necessary.
* `C20_skip_spec`          `skip` (`(!(a|b) ~ ANY)*` ↦ `Skip([a,b])`, only in `@` rules): `na = false`, rule names
                           distinct and no rule called `ANY`; proved against `Inp.skipUntil`.  `C20_skip_spec_noinline`:
                           the same for an arbitrary lookup map when no rule is inlined.    (Lemmas/PestOptSkip.lean)
* `C20_factor_spec`        `factor`: every flag the rule kind allows.             (Lemmas/PestOptFactor.lean)
* `C20_restore_spec`       `restore_on_err`: every flag, every lookup map.        (Lemmas/PestOptRestore.lean)
* `C20_unroll_spec`        `unroll`: under `NoSkipCtx g na` (atomic context, or no WHITESPACE/COMMENT defined) and
                           `unrollSafe e` (bounds ordered `n ≤ m`, no zero bounds); both conditions are necessary:
                           `C20_unroll_needs_noskip` (F-OPT-3), `C20_unroll_needs_ordered` (F-OPT-4).
                                                                                   (Lemmas/PestOptUnroll.lean)
* `C20_list_spec_node`     `list` at one node, under `NoSkipCtx` and `ListSafe` ("the repeated head cannot fail right
                           after the separator part matched"); refuted without it: `C20_list_refuted` (F-OPT-1).
Whole grammars:
* `C20_optimize_staged`    `optimize = restore ∘ list ∘ factor ∘ concatenate ∘ unroll ∘ skip ∘ rotate`.
* `C20_raw_eq_opt_spec_partial`   for grammars satisfying the decidable syntactic condition `OptSafe g` (only the
                           proved-safe rewrites fire), every expression — in particular every rule — has the same
                           meaning in `g` and in `optimize g`.
* `C20_raw_eq_opt_typed_partial`  combined with C01 (`C01_iff_entry`, hypothesis `SkipRulesAtomicLike`): the typed
                           parsers generated from the raw and from the optimized AST (`pest_optimizer = false` /
                           default) agree on verdict, end offset and final stack for every rule and input.
* The three kernel-checked counterexamples of `Props/C20.lean` are instances of the mirror:
  `C20_counterexamples_are_optimize` (`optimize` maps each `…Raw` grammar to its `…Opt` grammar) and none of them is
  `OptSafe`.

`_partial`: what is missing for the full clause is (1) `OptSafe` excludes the three unsound rewrites (so the clause
is FALSE in general — the witnesses stay), and it also excludes the inlining form of `skip`
(`(!rule ~ ANY)*` with `rule` a choice of literals), which is sound (`C20_skip_spec`) but whose use at grammar level
needs "the inlined rule means the same before and after all passes" — not assembled; (2) the typed statement needs
`SkipRulesAtomicLike` for both grammars (finding F-WS).
-/
import PestTyped.Props.C01
import PestTyped.Props.C20
import PestTyped.Lemmas.PestOptRotate
import PestTyped.Lemmas.PestOptFactor
import PestTyped.Lemmas.PestOptSkip
import PestTyped.Lemmas.PestOptUnroll
import PestTyped.Lemmas.PestOptRestore
import PestTyped.Lemmas.PestOptGrammar
namespace PestTyped

/-! ### the passes, one by one -/

/-- `rotate` preserves the meaning of every expression, in every grammar, atomic or not. -/
theorem C20_rotate_spec (g : PGrammar) (uni : Uni) (na : Bool) (e : PExpr) :
    SpecEquiv g g uni na e (rotateExpr e) := rotateExpr_equiv g uni na e

/-- `concatenate` (applied in `@` rules only) preserves the meaning in an atomic context … -/
theorem C20_concatenate_spec (g : PGrammar) (uni : Uni) (kind : RuleKind) (e : PExpr) :
    SpecEquiv g g uni false e (concatenateExpr kind e) := concatenateExpr_equiv g uni kind e

/-- … which is the context every body of the rule's kind runs in. -/
theorem C20_concatenate_spec_body (g : PGrammar) (uni : Uni) (name : String) (kind : RuleKind) (na : Bool) (e : PExpr) :
    SpecEquiv g g uni (bodyNa name kind na) e (concatenateExpr kind e) := concatenateExpr_equiv_body g uni name kind na e

/-- `"a" ~ "b"` and `"ab"` differ when skipping is on (input `a b`, `WHITESPACE = { " " }`). -/
theorem C20_concatenate_needs_atomic :
    ¬ SpecEquiv PestOptRotate.Ex.g0 PestOptRotate.Ex.g0 PestOptRotate.Ex.uni0 true
      (.seq (.str ['a']) (.str ['b'])) (.str ['a', 'b']) := concat_not_sound_nonatomic

/-- `skip`: `(!(a | b | rule) ~ ANY)*` ↦ `Skip([...])` in an `@` rule means the same — `Inp.skipUntil` — provided
rule names are distinct (the optimizer inlines the LAST rule of a name, the semantics calls the FIRST) and no
rule is called `ANY`. -/
theorem C20_skip_spec (g : PGrammar) (uni : Uni) (hnd : (g.map (·.name)).Nodup) (hany : g.find? "ANY" = none)
    (kind : RuleKind) (e : PExpr) : SpecEquiv g g uni false e (skipExpr g kind e) :=
  skipExpr_equiv g uni hnd hany kind e

/-- Without inlining (empty lookup map) the result does not depend on the rules at all. -/
theorem C20_skip_spec_noinline (G : PGrammar) (uni : Uni) (hany : G.find? "ANY" = none) (name : String)
    (kind : RuleKind) (na : Bool) (e : PExpr) : SpecEquiv G G uni (bodyNa name kind na) e (skipExpr [] kind e) :=
  skipExpr_nil_equiv_body G uni hany name kind na e

/-- `factor`: all three arms, for every flag a body of that kind can run under. -/
theorem C20_factor_spec (g : PGrammar) (uni : Uni) (kind : RuleKind) (na : Bool)
    (hna : (kind = .atomic ∨ kind = .compoundAtomic) → na = false) (e : PExpr) :
    SpecEquiv g g uni na e (factorExpr kind e) := factorExpr_equiv g uni kind na hna e

theorem C20_factor_spec_body (g : PGrammar) (uni : Uni) (name : String) (kind : RuleKind) (na : Bool) (e : PExpr) :
    SpecEquiv g g uni (bodyNa name kind na) e (factorExpr kind e) := factorExpr_equiv_body g uni name kind na e

/-- `restore_on_err` only inserts wrappers the reference semantics ignores. -/
theorem C20_restore_spec (g g0 : PGrammar) (uni : Uni) (na : Bool) (e : PExpr) :
    SpecEquiv g g uni na e (restoreExpr g0 e) := restoreExpr_equiv g g0 uni na e

/-- `unroll`, under its two side conditions. -/
theorem C20_unroll_spec (g : PGrammar) (uni : Uni) (na : Bool) (hctx : NoSkipCtx g na) (e : PExpr)
    (hs : unrollSafe e = true) : SpecEquiv g g uni na e (unrollExpr e) := unrollExpr_equiv hctx e hs

/-- F-OPT-3 at the level of the reference semantics: `"x"+` and `"x" ~ "x"*` differ on `"x "` when WHITESPACE is defined. -/
theorem C20_unroll_needs_noskip :
    ¬ SpecEquiv SpecDen.Ex.g1 SpecDen.Ex.g1 SpecDen.Ex.uni0 true (.repOnce (.str ['x'])) (.seq (.str ['x']) (.rep (.str ['x']))) :=
  unroll_repOnce_not_equiv_skip

/-- F-OPT-4: `"a"{3,1}` never matches, its unrolled form does. -/
theorem C20_unroll_needs_ordered :
    ¬ SpecEquiv [] [] SpecDen.Ex.uni0 false (.repMinMax (.str ['a']) 3 1) (unrollClosure (.repMinMax (.str ['a']) 3 1)) :=
  unroll_repMinMax_not_equiv_inverted

/-- `list` at one node: sound when the repeated head `a` cannot fail right after `b` matched. -/
theorem C20_list_spec_node (g : PGrammar) (uni : Uni) (na : Bool) (hctx : NoSkipCtx g na) (a b : PExpr)
    (hs : ListSafe g uni na a b) :
    SpecEquiv g g uni na (.seq (.rep (.seq a b)) a) (.seq a (.rep (.seq b a))) := lister_equiv hctx hs

/-- F-OPT-1: `("a" ~ "b")* ~ "a"` fails on `ab`, the rewritten `"a" ~ ("b" ~ "a")*` matches `a`. -/
theorem C20_list_refuted :
    ¬ SpecEquiv [] [] SpecDen.Ex.uni0 false (.seq (.rep (.seq (.str ['a']) (.str ['b']))) (.str ['a']))
      (listClosure (.seq (.rep (.seq (.str ['a']) (.str ['b']))) (.str ['a']))) := lister_not_equiv

/-! ### whole grammars -/

/-- pest_meta's order of the passes. -/
theorem C20_optimize_staged (raw : PGrammar) :
    optimize raw = passRestore (passList (passFactor (passConcatenate (passUnroll (passSkip raw (passRotate raw)))))) :=
  optimize_eq_staged raw

def noSkipRules (g : PGrammar) : Bool := !g.defines "WHITESPACE" && !g.defines "COMMENT"

/-- Only rewrites that are proved to preserve the semantics fire (decidable, syntactic):
* no rule is called `ANY`;
* `skip` inlines no rule (its result is the one obtained with an empty rule map);
* every rule that `unroll` changes has ordered, non-zero bounds and is `@`/`$`, or the grammar defines neither
  WHITESPACE nor COMMENT;
* `list` changes nothing. -/
def OptSafe (g : PGrammar) : Bool :=
  let g1 := passRotate g
  let g2 := passSkip g g1
  let g5 := passFactor (passConcatenate (passUnroll g2))
  (g.find? "ANY").isNone &&
  g1.all (fun r => skipExpr g r.kind r.expr == skipExpr [] r.kind r.expr) &&
  g2.all (fun r => unrollExpr r.expr == r.expr ||
    (unrollSafe r.expr && (r.kind == .atomic || r.kind == .compoundAtomic || noSkipRules g))) &&
  g5.all (fun r => listExpr r.expr == r.expr)

/-- For grammars on which only the proved-safe rewrites fire, every expression — hence every rule, hence
every parse — means the same in the raw grammar and in the optimized one. -/
theorem C20_raw_eq_opt_spec_partial (g : PGrammar) (uni : Uni) (hs : OptSafe g = true) :
    ∀ na e, SpecEquiv g (optimize g) uni na e e := by
  simp only [OptSafe, Bool.and_eq_true, List.all_eq_true, Option.isNone_iff_eq_none, beq_iff_eq,
    Bool.or_eq_true] at hs
  obtain ⟨⟨⟨hany, hskip⟩, hunroll⟩, hlist⟩ := hs
  intro na e
  rw [optimize_eq_staged]
  unfold optimizeStaged
  -- names of the stages
  have hany1 : (passRotate g).find? "ANY" = none := find?_none_mapBodies _ g "ANY" hany
  have hdef1 : ∀ nm, (passRotate g).defines nm = g.defines nm := defines_mapBodies _ g
  have hdef2 : ∀ nm, (passSkip g (passRotate g)).defines nm = g.defines nm := fun nm =>
    (defines_mapBodies _ _ nm).trans (hdef1 nm)
  -- rotate
  have e1 : SpecEquiv g (passRotate g) uni na e e :=
    stage_equiv g uni _ (fun r _ G _ _ na => rotateExpr_equiv G uni _ r.expr) na e
  -- skip (no inlining)
  have e2 : SpecEquiv (passRotate g) (passSkip g (passRotate g)) uni na e e := by
    rw [passSkip_eq, mapBodies_congr (F' := fun r => skipExpr [] r.kind r.expr) (fun r hr => hskip r hr)]
    exact stage_equiv _ uni _ (fun r _ G _ hG na => skipExpr_nil_equiv_body G uni (hG hany1) r.name r.kind na r.expr) na e
  -- unroll
  have e3 : SpecEquiv (passSkip g (passRotate g)) (passUnroll (passSkip g (passRotate g))) uni na e e := by
    rw [passUnroll_eq]
    refine stage_equiv _ uni _ (fun r hr G hG _ na => ?_) na e
    rcases hunroll r hr with h | ⟨hsafe, hk⟩
    · show SpecEquiv G G uni _ r.expr (unrollExpr r.expr)
      rw [h]; exact SpecEquiv.refl _ _ _ _
    · refine unrollExpr_equiv_body G uni r.name r.kind na ?_ hsafe
      rcases hk with (hk | hk) | hk
      · exact .inl hk
      · exact .inr (.inl hk)
      · refine .inr (.inr ?_)
        simp only [noSkipRules, Bool.and_eq_true, Bool.not_eq_true'] at hk
        exact ⟨by rw [hG, hdef2]; exact hk.1, by rw [hG, hdef2]; exact hk.2⟩
  -- concatenate, factor
  have e4 := stage_equiv (passUnroll (passSkip g (passRotate g))) uni (fun r => concatenateExpr r.kind r.expr)
    (fun r _ G _ _ na => concatenateExpr_equiv_body G uni r.name r.kind na r.expr) na e
  have e5 := stage_equiv (passConcatenate (passUnroll (passSkip g (passRotate g)))) uni (fun r => factorExpr r.kind r.expr)
    (fun r _ G _ _ na => factorExpr_equiv_body G uni r.name r.kind na r.expr) na e
  -- list (identity here)
  have e6 : SpecEquiv (passFactor (passConcatenate (passUnroll (passSkip g (passRotate g)))))
      (passList (passFactor (passConcatenate (passUnroll (passSkip g (passRotate g)))))) uni na e e := by
    rw [passList_eq]
    refine stage_equiv _ uni _ (fun r hr G _ _ na => ?_) na e
    show SpecEquiv G G uni _ r.expr (listExpr r.expr)
    rw [hlist r hr]; exact SpecEquiv.refl _ _ _ _
  -- restore
  have e7 := stage_equiv (passList (passFactor (passConcatenate (passUnroll (passSkip g (passRotate g)))))) uni
    (fun r => restoreExpr (passList (passFactor (passConcatenate (passUnroll (passSkip g (passRotate g)))))) r.expr)
    (fun r _ G _ _ na => restoreExpr_equiv G _ uni _ r.expr) na e
  exact e1.trans (e2.trans (e3.trans (e4.trans (e5.trans (e6.trans e7)))))

/-- In particular the two grammars give the same definite answers for every start rule and input, whatever
the fuels, and terminate on the same inputs. -/
theorem C20_raw_eq_opt_spec_partial_entry (g : PGrammar) (uni : Uni) (hs : OptSafe g = true) (name : String) (i : Inp) :
    (∀ n m, specPartial g uni n name i ≠ .oof → specPartial (optimize g) uni m name i ≠ .oof →
      specPartial g uni n name i = specPartial (optimize g) uni m name i) ∧
    ((∃ n, specPartial g uni n name i ≠ .oof) ↔ (∃ m, specPartial (optimize g) uni m name i ≠ .oof)) :=
  ⟨fun n m hn hm => (C20_raw_eq_opt_spec_partial g uni hs true (.ident name)).agree n m i [] hn hm,
   (C20_raw_eq_opt_spec_partial g uni hs true (.ident name)).terminates i []⟩

/-! ### the typed parsers -/

/-- The typed parsers generated WITHOUT and WITH pest's optimizer (`#[pest_optimizer = false]` walks the raw
AST, the default walks `optimize raw`) agree on every definite outcome — verdict, end offset, final stack — of
`try_parse_partial` for every rule and input, and one terminates exactly when the other does. -/
theorem C20_raw_eq_opt_typed_partial (g : PGrammar) (uni : Uni) (hs : OptSafe g = true)
    (hws : SkipRulesAtomicLike g) (hws' : SkipRulesAtomicLike (optimize g))
    (name : String) (r : Nat) (hr : g.indexOf name = some r) (i : Inp) (o : SR) (ho : o ≠ .oof) :
    (∃ k, (tryParsePartial (gen g) uni k (r+1) i).outcome = o) ↔
      (∃ k, (tryParsePartial (gen (optimize g)) uni k (r+1) i).outcome = o) := by
  rw [C01_iff_entry g uni hws name r hr i o ho,
    C01_iff_entry (optimize g) uni hws' name r (by rw [indexOf_names (optimize_names g)]; exact hr) i o ho]
  have := C20_raw_eq_opt_spec_partial g uni hs true (.ident name) i [] o
  simp only [Den, ho, ne_eq, not_false_eq_true, true_and] at this
  exact this

/-- When the skip rules are declared `@` / `$` the hypothesis on the optimized grammar follows (kinds and names
are unchanged by the optimizer). -/
theorem C20_raw_eq_opt_typed_partial_atomic (g : PGrammar) (uni : Uni) (hs : OptSafe g = true)
    (hws : SkipRulesAtomic g) (name : String) (r : Nat) (hr : g.indexOf name = some r) (i : Inp) (o : SR) (ho : o ≠ .oof) :
    (∃ k, (tryParsePartial (gen g) uni k (r+1) i).outcome = o) ↔
      (∃ k, (tryParsePartial (gen (optimize g)) uni k (r+1) i).outcome = o) := by
  have hws' : SkipRulesAtomic (optimize g) := by
    intro r' hr' hn'
    simp only [optimize, optimizeRule1, List.mem_map] at hr'
    obtain ⟨r1, ⟨r0, hr0, rfl⟩, rfl⟩ := hr'
    exact hws r0 hr0 hn'
  exact C20_raw_eq_opt_typed_partial g uni hs hws.like hws'.like name r hr i o ho

/-! ### non-vacuity, and the known counterexamples seen through the mirror -/

/-- `item = @{ ("c" | "d")+ ~ "a" ~ "b" }  list = { item ~ ("," ~ item)* }  text = @{ (!("x" | "y") ~ ANY)* }`
(no skip rules): `rotate`, `concatenate`, `unroll`, `skip` and `restore`-free; `OptSafe`. -/
def c20oG : PGrammar :=
  [⟨"item", .atomic, .seq (.seq (.repOnce (.choice (.str ['c']) (.str ['d']))) (.str ['a'])) (.str ['b'])⟩,
   ⟨"list", .normal, .seq (.ident "item") (.rep (.seq (.str [',']) (.ident "item")))⟩,
   ⟨"text", .atomic, .rep (.seq (.negPred (.choice (.str ['x']) (.str ['y']))) (.ident "ANY"))⟩]

example : (optimize c20oG).map (·.expr) =
    [.seq (.seq (.choice (.str ['c']) (.str ['d'])) (.rep (.choice (.str ['c']) (.str ['d'])))) (.str ['a', 'b']),
     .seq (.ident "item") (.rep (.seq (.str [',']) (.ident "item"))),
     .skip [['x'], ['y']]] := by decide
example : OptSafe c20oG = true := by decide
example (uni : Uni) (na : Bool) : SpecEquiv c20oG (optimize c20oG) uni na (.ident "list") (.ident "list") :=
  C20_raw_eq_opt_spec_partial c20oG uni (by decide) na _

theorem c20oG_skipAtomic : SkipRulesAtomic c20oG := by
  intro r hr hn
  simp only [c20oG, List.mem_cons, List.not_mem_nil, or_false] at hr
  rcases hr with rfl | rfl | rfl <;> simp at hn

/-- The typed statement instantiated: rule `list` (index 1, generated rule id 2) of the two generated modules. -/
example (uni : Uni) (i : Inp) (o : SR) (ho : o ≠ .oof) :
    (∃ k, (tryParsePartial (gen c20oG) uni k 2 i).outcome = o) ↔
      (∃ k, (tryParsePartial (gen (optimize c20oG)) uni k 2 i).outcome = o) :=
  C20_raw_eq_opt_typed_partial_atomic c20oG uni (by decide) c20oG_skipAtomic "list" 1 (by decide) i o ho

/-- The raw and optimized grammars of the three recorded counterexamples (F-OPT-1, F-OPT-3, F-OPT-4) are
related by the mirrored optimizer, and each of them is outside `OptSafe`. -/
theorem C20_counterexamples_are_optimize :
    ((optimize c20ListerRaw).map (·.expr) = c20ListerOpt.map (·.expr) ∧ OptSafe c20ListerRaw = false) ∧
    ((optimize c20OnceRaw).map (·.expr) = c20OnceOpt.map (·.expr) ∧ OptSafe c20OnceRaw = false) ∧
    ((optimize c20InvRaw).map (·.expr) = c20InvOpt.map (·.expr) ∧ OptSafe c20InvRaw = false) := by
  decide

end PestTyped
