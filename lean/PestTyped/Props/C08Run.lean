/-
Props.C08Run — C08 at BYTE level, where the mechanism lives.

Property (fixed text): "Parsing Span(s, a, b) gives the result of parsing a fresh copy of s[a..b] with all
offsets shifted by a, and parsing Position(s, a) gives the result for s[a..]: same verdict, consumed
length, spans and tree, for the partial and the full entry points.  SOI holds only at a, EOI only at b,
and nothing at or beyond b influences the outcome."

`Props/C08.lean` states this on the character-level cursors `Inp`, which have no text before the
sub-input and carry the text after it in a field nothing reads: those theorems are equivariances of the
model.  The byte-level model (`Model/InputL0.lean`, `Model/RunL0.lean`) has the mechanism itself: a
cursor is the WHOLE backing string plus `start`, `pos`, `end`; `get()` slices `bytes[pos..end]` (checked
or unchecked by profile), `skip_until` tests `bytes.get(from..end)`, `at_start`/`at_end` compare `pos` with
`start`/`end`, and stack spans are absolute offsets into the whole string, sliced again by `PEEK`/`POP`.
Here the property is a theorem about `parse0`/`check0`/`tryParse0`/… on such cursors.

Vocabulary (`Lemmas/C08RunLemmas.lean`): `i0.embed pre post` is the cursor `i0` moved into the backing
string `pre ++ bytes ++ post` (offsets `+ |pre|`); `m0.shift a` moves stack spans and tracker positions;
`r.embed pre post fv` moves a result (cursor embedded, state shifted, value through `fv = Val.shift |pre|`,
which moves every span in the tree); `r.dropBytes` forgets the backing string of the returned cursor.
`(strAsInput0 (enc mid)).embed pre post = spanAsInput0 (enc (pre ++ mid ++ post)) |pre| (|pre| + |mid|)`
is what `Span::as_input` builds, with `post = []` what `Position::as_input` builds.

`pre`, `mid`, `post` range over ALL texts (`List Char`): the backing string is any valid UTF-8 string.
That is the whole domain: a `Span`/`Position` borrows a `&str`, which is valid UTF-8 by its type
invariant; contexts that are not UTF-8 do not exist in safe Rust and are outside `Abs`.

Theorems — every grammar, node / rule, fuel, BOTH build profiles (`checked`), no side conditions beyond
the well-formedness of the fresh cursor and state:
* `C08_run_subinput` (parse path), `C08_run_subinput_check` (check path) — node level, any cursor `i0` of the
  inner string on a boundary (`∃ i, Abs i0 i`), any state whose stack spans are valid spans of the inner
  string (`M0.Valid`): the run on the embedded cursor and shifted state EQUALS the embedded result of the
  inner run (same verdict incl. out-of-fuel, never panic/ub; end cursor, stack, tracker, tree `+ |pre|`).
  `C08_run_subinput_span` — the same with the `Span` cursor spelled out.
* `C08_run_entries` — the four entry points, `Span` form; `C08_run_entries_position` — `Position` form.
* `C08_run_context_irrelevant` — nothing outside `[start, end)` is read: replacing `pre` by any text of the
  same byte length and `post` by ANY text leaves node runs and entry points unchanged (up to the backing
  string the returned cursor carries along).  For a `pre` of a different length the results differ by
  the shift only (`C08_run_subinput`).
* `C08_run_soi_eoi` — on a sub-input cursor at offset `p`, `SOI` succeeds iff `p = |pre|` and `EOI` iff
  `p = |pre| + |mid|`, in both paths and profiles, whatever the bytes around.
* `C08_run_violation_skipUntil`, `C08_run_violation_get` — the statement CAN fail: with a `skip_until` that
  searches the unbounded tail (the code of `position.rs::skip_until`), or a `get()` that ignores `end`
  (`SubInput1::get` on a `SubInput2`), the conclusion of `C08_run_subinput_check` is false on a concrete
  sub-input; the real primitives satisfy it there (`C08_run_instance_skipUntil`, `…_get`).
-/
import PestTyped.Lemmas.C08RunLemmas
import PestTyped.Props.C09Run
namespace PestTyped

/-! ## node level -/

/-- Parse path: a run on the sub-input is the inner run moved by `|pre|`. -/
theorem C08_run_subinput (checked : Bool) (g : NodeGrammar) (uni : Uni) (n : Nat) (inh : Bool) (node : Node)
    (i0 : Inp0) (m0 : M0) (hi : ∃ i, Abs i0 i) (hm : m0.Valid i0.bytes) (pre post : List Char) :
    parse0 checked g uni n inh node (i0.embed pre post) (m0.shift (blen pre)) =
      (parse0 checked g uni n inh node i0 m0).embed pre post (Val.shift (blen pre)) := by
  obtain ⟨i, hi⟩ := hi
  obtain ⟨w, hw⟩ := hi.bytes_enc
  rw [hw] at hm
  obtain ⟨m, hm⟩ := hm.absM
  rw [← hw] at hm
  exact parse0_embed checked g uni n inh node hi hm pre post

/-- Check path. -/
theorem C08_run_subinput_check (checked : Bool) (g : NodeGrammar) (uni : Uni) (n : Nat) (inh : Bool) (node : Node)
    (i0 : Inp0) (m0 : M0) (hi : ∃ i, Abs i0 i) (hm : m0.Valid i0.bytes) (pre post : List Char) :
    check0 checked g uni n inh node (i0.embed pre post) (m0.shift (blen pre)) =
      (check0 checked g uni n inh node i0 m0).embed pre post id := by
  obtain ⟨i, hi⟩ := hi
  obtain ⟨w, hw⟩ := hi.bytes_enc
  rw [hw] at hm
  obtain ⟨m, hm⟩ := hm.absM
  rw [← hw] at hm
  exact check0_embed checked g uni n inh node hi hm pre post

/-- The same for the cursor `Span::as_input` builds, from the start of the sub-input, with any valid
stack of spans of the inner string. -/
theorem C08_run_subinput_span (checked : Bool) (g : NodeGrammar) (uni : Uni) (n : Nat) (inh : Bool) (node : Node)
    (pre mid post : List Char) (m0 : M0) (hm : m0.Valid (enc mid)) :
    parse0 checked g uni n inh node
        (spanAsInput0 (enc (pre ++ mid ++ post)) (blen pre) (blen pre + blen mid)) (m0.shift (blen pre)) =
      (parse0 checked g uni n inh node (strAsInput0 (enc mid)) m0).embed pre post (Val.shift (blen pre)) ∧
    check0 checked g uni n inh node
        (spanAsInput0 (enc (pre ++ mid ++ post)) (blen pre) (blen pre + blen mid)) (m0.shift (blen pre)) =
      (check0 checked g uni n inh node (strAsInput0 (enc mid)) m0).embed pre post id := by
  rw [← embed_strAsInput0]
  exact ⟨C08_run_subinput checked g uni n inh node _ m0 ⟨_, C08_as_input_abs_str mid⟩ hm pre post,
    C08_run_subinput_check checked g uni n inh node _ m0 ⟨_, C08_as_input_abs_str mid⟩ hm pre post⟩

/-! ## entry points -/

/-- `Span(pre ++ mid ++ post, |pre|, |pre| + |mid|)` against a fresh copy of `mid`: the four entry points. -/
theorem C08_run_entries (checked : Bool) (g : NodeGrammar) (uni : Uni) (n : Nat) (r : RuleId)
    (pre mid post : List Char) :
    let sub := spanAsInput0 (enc (pre ++ mid ++ post)) (blen pre) (blen pre + blen mid)
    let fresh := strAsInput0 (enc mid)
    tryParse0 checked g uni n r sub = (tryParse0 checked g uni n r fresh).embed pre post (Val.shift (blen pre)) ∧
    tryCheck0 checked g uni n r sub = (tryCheck0 checked g uni n r fresh).embed pre post id ∧
    tryParsePartial0 checked g uni n r sub =
      (tryParsePartial0 checked g uni n r fresh).embed pre post (Val.shift (blen pre)) ∧
    tryCheckPartial0 checked g uni n r sub = (tryCheckPartial0 checked g uni n r fresh).embed pre post id := by
  intro sub fresh
  have hs : sub = fresh.embed pre post := (embed_strAsInput0 pre mid post).symm
  have hi := C08_as_input_abs_str mid
  rw [hs]
  exact ⟨tryParse0_embed checked g uni n r hi pre post, tryCheck0_embed checked g uni n r hi pre post,
    tryParsePartial0_embed checked g uni n r hi pre post, tryCheckPartial0_embed checked g uni n r hi pre post⟩

/-- `Position(pre ++ rest, |pre|)` against a fresh copy of `rest`. -/
theorem C08_run_entries_position (checked : Bool) (g : NodeGrammar) (uni : Uni) (n : Nat) (r : RuleId)
    (pre rest : List Char) :
    let sub := positionAsInput0 (enc (pre ++ rest)) (blen pre)
    let fresh := strAsInput0 (enc rest)
    tryParse0 checked g uni n r sub = (tryParse0 checked g uni n r fresh).embed pre [] (Val.shift (blen pre)) ∧
    tryCheck0 checked g uni n r sub = (tryCheck0 checked g uni n r fresh).embed pre [] id ∧
    tryParsePartial0 checked g uni n r sub =
      (tryParsePartial0 checked g uni n r fresh).embed pre [] (Val.shift (blen pre)) ∧
    tryCheckPartial0 checked g uni n r sub = (tryCheckPartial0 checked g uni n r fresh).embed pre [] id := by
  intro sub fresh
  have hs : sub = fresh.embed pre [] := (embed_strAsInput0_position pre rest).symm
  have hi := C08_as_input_abs_str rest
  rw [hs]
  exact ⟨tryParse0_embed checked g uni n r hi pre [], tryCheck0_embed checked g uni n r hi pre [],
    tryParsePartial0_embed checked g uni n r hi pre [], tryCheckPartial0_embed checked g uni n r hi pre []⟩

/-! ## nothing outside `[start, end)` is read -/

/-- Two contexts around the same sub-input (`pre`, `pre'` of the same byte length so that the offsets
are the same; `post`, `post'` arbitrary): the same results, for nodes in any valid state and for the
four entry points, in both profiles. -/
theorem C08_run_context_irrelevant (checked : Bool) (g : NodeGrammar) (uni : Uni) (n : Nat)
    (pre post pre' post' : List Char) (hlen : blen pre = blen pre') :
    (∀ (inh : Bool) (node : Node) (i0 : Inp0) (m0 : M0), (∃ i, Abs i0 i) → m0.Valid i0.bytes →
      (parse0 checked g uni n inh node (i0.embed pre post) (m0.shift (blen pre))).dropBytes =
        (parse0 checked g uni n inh node (i0.embed pre' post') (m0.shift (blen pre'))).dropBytes ∧
      (check0 checked g uni n inh node (i0.embed pre post) (m0.shift (blen pre))).dropBytes =
        (check0 checked g uni n inh node (i0.embed pre' post') (m0.shift (blen pre'))).dropBytes) ∧
    (∀ (r : RuleId) (mid : List Char),
      let sub := spanAsInput0 (enc (pre ++ mid ++ post)) (blen pre) (blen pre + blen mid)
      let sub' := spanAsInput0 (enc (pre' ++ mid ++ post')) (blen pre') (blen pre' + blen mid)
      (tryParse0 checked g uni n r sub).dropBytes = (tryParse0 checked g uni n r sub').dropBytes ∧
      (tryCheck0 checked g uni n r sub).dropBytes = (tryCheck0 checked g uni n r sub').dropBytes ∧
      (tryParsePartial0 checked g uni n r sub).dropBytes = (tryParsePartial0 checked g uni n r sub').dropBytes ∧
      (tryCheckPartial0 checked g uni n r sub).dropBytes = (tryCheckPartial0 checked g uni n r sub').dropBytes) := by
  constructor
  · intro inh node i0 m0 hi hm
    rw [C08_run_subinput checked g uni n inh node i0 m0 hi hm pre post,
      C08_run_subinput checked g uni n inh node i0 m0 hi hm pre' post',
      C08_run_subinput_check checked g uni n inh node i0 m0 hi hm pre post,
      C08_run_subinput_check checked g uni n inh node i0 m0 hi hm pre' post', ← hlen]
    exact ⟨R0.dropBytes_embed _ pre post pre' post' _ hlen, R0.dropBytes_embed _ pre post pre' post' _ hlen⟩
  · intro r mid sub sub'
    obtain ⟨h1, h2, h3, h4⟩ := C08_run_entries checked g uni n r pre mid post
    obtain ⟨h1', h2', h3', h4'⟩ := C08_run_entries checked g uni n r pre' mid post'
    show (tryParse0 checked g uni n r (spanAsInput0 _ _ _)).dropBytes = _ ∧ _
    rw [h1, h2, h3, h4, h1', h2', h3', h4', ← hlen]
    exact ⟨R0.dropBytes_embed _ pre post pre' post' _ hlen, R0.dropBytes_embed _ pre post pre' post' _ hlen,
      R0.dropBytes_embed _ pre post pre' post' _ hlen, R0.dropBytes_embed _ pre post pre' post' _ hlen⟩

/-! ## SOI and EOI -/

def R0.isOk {α} : R0 α → Bool
  | .ok _ _ _ => true
  | _ => false

/-- On a cursor of the sub-input `[|pre|, |pre| + |mid|)` of `pre ++ mid ++ post` standing at offset `p`:
`SOI` succeeds exactly at the start of the sub-input, `EOI` exactly at its end — not at the ends of
the backing string — on both paths, in both profiles, with any state. -/
theorem C08_run_soi_eoi (checked : Bool) (g : NodeGrammar) (uni : Uni) (n : Nat) (inh : Bool)
    (pre mid post : List Char) (p : Nat) (m0 : M0) :
    let c : Inp0 := ⟨enc (pre ++ mid ++ post), blen pre, p, blen pre + blen mid⟩
    ((parse0 checked g uni (n+1) inh .soi c m0).isOk = true ↔ p = blen pre) ∧
    ((check0 checked g uni (n+1) inh .soi c m0).isOk = true ↔ p = blen pre) ∧
    ((parse0 checked g uni (n+1) inh .eoi c m0).isOk = true ↔ p = blen pre + blen mid) ∧
    ((check0 checked g uni (n+1) inh .eoi c m0).isOk = true ↔ p = blen pre + blen mid) := by
  intro c
  simp only [parse0, check0, Inp0.atStart0, Inp0.atEnd0, c]
  refine ⟨?_, ?_, ?_, ?_⟩
  · by_cases h : p = blen pre <;> simp [h, R0.isOk]
  · by_cases h : p = blen pre <;> simp [h, R0.isOk]
  · by_cases h : p = blen pre + blen mid <;> simp [h, R0.isOk]
  · by_cases h : p = blen pre + blen mid <;> simp [h, R0.isOk]

/-! ## non-vacuity -/

/-- `M0.Valid` on a concrete non-empty stack: (1,3) = "é" in "aé中😀é". -/
example : (⟨[(1, 3)], { position := 1 }⟩ : M0).Valid c09RunBytes := by
  intro p hp; rw [List.mem_singleton.mp hp]; decide

/-- The grammar of `Props/C09Run.lean` (`a = { "a" ~ PUSH(ANY) ~ '一'..'龥' ~ b ~ POP }`, `b = @{ ^"😀" }`) on
`mid = "aé中😀é"` (12 bytes), fresh and inside two different contexts of the same prefix length:
`"é" ++ mid ++ "é"` and `"ab" ++ mid ++ "😀a中"`.  Inside, every offset is `+ 2`: end 14, rule spans
(2,14), (8,12), popped span (3,5). -/
def c08RunShifted : Obs0 :=
  .ok 14 [] 14
    [.rule 1 .both true 2 14, .seq,
     .skipped 1, .empty, .str,
     .skipped 1, .empty, .push, .any 'é',
     .skipped 1, .empty, .charRange '中',
     .skipped 1, .empty, .rule 2 .span true 8 12,
     .skipped 1, .empty, .pop ⟨3, 5, ['é']⟩]

def c08RunMid : List Char := ['a', 'é', '中', '😀', 'é']

theorem C08_run_example_ctx1 (checked : Bool) :
    (tryParse0 checked c09RunGrammar (fun _ _ => false) 20 1
      (spanAsInput0 (enc (['é'] ++ c08RunMid ++ ['é'])) 2 14)).obs = c08RunShifted := by
  cases checked <;> decide +kernel

theorem C08_run_example_ctx2 (checked : Bool) :
    (tryParse0 checked c09RunGrammar (fun _ _ => false) 20 1
      (spanAsInput0 (enc (['a', 'b'] ++ c08RunMid ++ ['😀', 'a', '中'])) 2 14)).obs = c08RunShifted := by
  cases checked <;> decide +kernel

/-- The fresh run (`C09_run_example_*`) and its shift. -/
example : c09RunExpected = .ok 12 [] 12
    [.rule 1 .both true 0 12, .seq, .skipped 1, .empty, .str, .skipped 1, .empty, .push, .any 'é',
     .skipped 1, .empty, .charRange '中', .skipped 1, .empty, .rule 2 .span true 6 10,
     .skipped 1, .empty, .pop ⟨1, 3, ['é']⟩] := rfl

/-- `Position` form: `Position("中" ++ mid, 3)`, partial parse: everything `+ 3` (tracker at 6 + 3: rule `b`). -/
example : (tryParsePartial0 true c09RunGrammar (fun _ _ => false) 20 1
    (positionAsInput0 (enc (['中'] ++ c08RunMid)) 3)).obs =
    .ok 15 [] 9
      [.rule 1 .both true 3 15, .seq, .skipped 1, .empty, .str, .skipped 1, .empty, .push, .any 'é',
       .skipped 1, .empty, .charRange '中', .skipped 1, .empty, .rule 2 .span true 9 13,
       .skipped 1, .empty, .pop ⟨4, 6, ['é']⟩] := by decide +kernel

/-- A full parse that FAILS inside a context because `EOI` is at `b`, not at the end of the string, and
the sub-input is shorter than the rule needs — and the text right after `b` would have completed it:
`Span("aé中😀" ++ "é", 0, 10)`: the `POP` finds nothing in `[10, 10)` although `é` follows. -/
example : (tryParse0 false c09RunGrammar (fun _ _ => false) 20 1
    (spanAsInput0 (enc (['a', 'é', '中', '😀'] ++ ['é'])) 0 10)).obs = .fail [] 6 := by decide +kernel

/-! ### the statement can fail -/

/-- A `skip_until` that searches the unbounded tail of the backing string (as `position.rs::skip_until`
does, `&self.input[from..]`) instead of `input.get(from..end)`. -/
def Inp0.skipUntil0Bad (needles : List (List UInt8)) (i : Inp0) : Inp0 × Bool :=
  match Inp0.skipUntilLoop0 needles i.bytes i.bytes.length (i.bytes.length - i.pos) i.pos with
  | some f => ({ i with pos := f }, true)
  | none => ({ i with pos := i.end }, false)

/-- The `.skipUntil` arm of `check0` over a given primitive. -/
def checkSkipUntilWith (prim : List (List UInt8) → Inp0 → Inp0 × Bool) (needles : List (List Char))
    (i : Inp0) (m : M0) : R0 Unit := .ok (prim (needles.map enc) i).1 m ()

example (checked : Bool) (g : NodeGrammar) (uni : Uni) (n : Nat) (inh : Bool) (nd : List (List Char)) (i : Inp0)
    (m : M0) : check0 checked g uni (n+1) inh (.skipUntil nd) i m = checkSkipUntilWith Inp0.skipUntil0 nd i m := by
  simp only [check0, checkSkipUntilWith]

/-- `Span("é" ++ "ab" ++ "bx", 2, 4)`, `skip_until(["x"])`: the real primitive stops at the end of the
sub-input (4 = 2 + 2, as on a fresh "ab") … -/
theorem C08_run_instance_skipUntil :
    (checkSkipUntilWith Inp0.skipUntil0 [['x']] ((strAsInput0 (enc ['a', 'b'])).embed ['é'] ['b', 'x'])
        ((⟨[], { position := 0 }⟩ : M0).shift 2)).obsU =
      ((checkSkipUntilWith Inp0.skipUntil0 [['x']] (strAsInput0 (enc ['a', 'b'])) ⟨[], { position := 0 }⟩).embed
        ['é'] ['b', 'x'] id).obsU := by decide

/-- … the unbounded one finds the `x` beyond `b` and leaves the cursor at 5, outside the sub-input: the
conclusion of `C08_run_subinput_check` is false for it. -/
theorem C08_run_violation_skipUntil :
    (checkSkipUntilWith Inp0.skipUntil0Bad [['x']] ((strAsInput0 (enc ['a', 'b'])).embed ['é'] ['b', 'x'])
        ((⟨[], { position := 0 }⟩ : M0).shift 2)).obsU = .ok 5 [] 2 [] ∧
    ((checkSkipUntilWith Inp0.skipUntil0Bad [['x']] (strAsInput0 (enc ['a', 'b'])) ⟨[], { position := 0 }⟩).embed
        ['é'] ['b', 'x'] id).obsU = .ok 4 [] 2 [] := by
  constructor <;> decide

/-- A `get()` that ignores `end` (`SubInput1::get`, `&input[cursor..]`, used for a `SubInput2`). -/
def Inp0.getBad (checked : Bool) (i : Inp0) : P (List UInt8) :=
  match strGet i.bytes i.pos i.bytes.length with
  | some sl => .ok sl
  | none => if checked then .panic else .ub

/-- The `.str` arm of `check0` over a given `get()`. -/
def checkStrWith (get : Inp0 → P (List UInt8)) (s : List Char) (i : Inp0) (m : M0) : R0 Unit :=
  ((get i).bind fun sl =>
      .ok (if (enc s).isPrefixOf sl then some { i with pos := i.pos + (enc s).length } else none)).andThen fun
    | some i' => .ok i' m ()
    | none => .fail m

example (checked : Bool) (g : NodeGrammar) (uni : Uni) (n : Nat) (inh : Bool) (s : List Char) (i : Inp0) (m : M0) :
    check0 checked g uni (n+1) inh (.str s) i m = checkStrWith (Inp0.get checked) s i m := by
  simp only [check0, checkStrWith, Inp0.matchString0]
  cases Inp0.get checked i with
  | ok sl =>
    simp only [P.bind, P.andThen]
    by_cases h : (enc s).isPrefixOf sl = true
    · rw [if_pos h]
    · rw [if_neg h]
  | panic => rfl
  | ub => rfl

/-- `Span("é" ++ "a" ++ "b", 2, 3)`, `"ab"`: fails with the real `get()` (as on a fresh "a") … -/
theorem C08_run_instance_get (checked : Bool) :
    (checkStrWith (Inp0.get checked) ['a', 'b'] ((strAsInput0 (enc ['a'])).embed ['é'] ['b'])
        ((⟨[], { position := 0 }⟩ : M0).shift 2)).obsU =
      ((checkStrWith (Inp0.get checked) ['a', 'b'] (strAsInput0 (enc ['a'])) ⟨[], { position := 0 }⟩).embed
        ['é'] ['b'] id).obsU := by cases checked <;> decide

/-- … and succeeds across `b` with the unbounded one. -/
theorem C08_run_violation_get (checked : Bool) :
    (checkStrWith (Inp0.getBad checked) ['a', 'b'] ((strAsInput0 (enc ['a'])).embed ['é'] ['b'])
        ((⟨[], { position := 0 }⟩ : M0).shift 2)).obsU = .ok 4 [] 2 [] ∧
    ((checkStrWith (Inp0.getBad checked) ['a', 'b'] (strAsInput0 (enc ['a'])) ⟨[], { position := 0 }⟩).embed
        ['é'] ['b'] id).obsU = .fail [] 2 := by
  cases checked <;> constructor <;> decide

end PestTyped
