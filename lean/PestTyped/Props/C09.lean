/-
Props.C09 — Parsing is total and keeps every offset on a UTF-8 boundary inside the input.

"For arbitrary Unicode input every entry point returns Ok or Err without panicking, and every offset
it reports (returned cursor, every span in the tree, the error location) lies within the given input
range on a character boundary, so that span text can always be taken.  This holds identically in debug
builds and in release builds, where slicing is unchecked."

Two layers.  L1 (`Model.Basic`/`Model.Run`): texts are `List Char`, offsets are byte offsets; a
cursor is moved only by `Inp.adv` over whole characters.  L0 (`Model.InputL0`): the same primitives
on BYTES with the panics of checked slicing and the undefined behaviour of unchecked slicing
explicit, parameterised by `checked = cfg!(debug_assertions)`.

(a) offsets, L1 — all grammars, nodes, inputs, states, fuel:
* `C09_cursor`, `C09_cursor_check` — the returned cursor: same `start`/`end`, not before the entry
  cursor, not after the end, at `pos + blen p` for a character prefix `p` of the remaining text.
* `C09_spans_node`, `C09_spans_check`, `C09_spans_entry`, `C09_spans_full_entry` — every span stored
  by the run (every `Sp` in a tag of the value, the `(s, e)` of every rule node, every `Sp` on the
  resulting stack, on success and on failure) is a piece of the input (`Sp.In`): both ends on
  character boundaries, `txt` literally the text in between; `C09_span_within` — hence
  `start ≤ s ≤ e ≤ end` and `e = s + blen txt`.
* `C09_tracker_pos_node`, `C09_tracker_pos`, `C09_tracker_pos_check`, `C09_tracker_pos_partial` — the
  tracker position after any run is the one before or the offset of a cursor of the run; from an
  entry point it lies in `[pos, end]` on a boundary (failure AND success).
(b) bytes, L0 — under the invariant `Abs i0 i` (the bytes are the encoding of `pre ++ rest ++ after`,
  `pos`/`end` the offsets after `pre`/`rest`; `C09_inv`: then `pos ≤ end ≤ len` on boundaries;
  `C09_abs_functional`: `Abs` is a partial function of the byte cursor):
* `C09_L0_get`, `C09_L0_matchString`, `C09_L0_matchInsens`, `C09_L0_skip`, `C09_L0_matchCharBy`,
  `C09_L0_matchRange`, `C09_L0_next`, `C09_L0_skipUntil`, `C09_L0_atEnd_atStart` — each primitive
  returns `.ok r` with the SAME `r` for `checked = true` and `checked = false`, and `r` corresponds to
  the L1 primitive's result: same verdict, same character, and the new byte cursor again satisfies
  the invariant with the L1 result cursor.
* `C09_profile` — debug and release builds compute the same (all primitives);
  `C09_no_panic_L0` — the checked slicing never panics and the unchecked one is never outside its
  contract (all primitives).  `C09_L0_get_violation` shows the model does distinguish the profiles
  when the invariant is broken (so the theorems are not vacuous).
* `C09_insens_boundary` — a successful ASCII-case-insensitive byte comparison with a well-formed
  needle ends on a character boundary (even without the `get(..len)` guard).
* `C09_span_text_L0`, `C09_span_new_L0`, `C09_position_new_L0` — for every span the L1 run stores,
  `Span::as_str` (`&input[s..e]`) does not panic and yields the encoding of `txt`; the
  `debug_assert!`s of `Span::new_unchecked` / `Position::new_unchecked` hold.
  The run-level statement "run(checked := true) = run(checked := false)" is proved about the byte-level
  interpreter of `Model/RunL0.lean` in `Props/C09Run.lean` (`C09_run_sim`, `C09_run_profile`,
  `C09_run_no_panic`), by composing these primitive-level facts along the run.  Memory safety of
  `get_unchecked` itself is outside the model: what is proved is its arithmetic precondition.
(c) totality, L1:
* `C09_total` — `Res` has no panic constructor: every call is out-of-fuel, failure or success;
  `C09_fuel_mono`, `C09_fuel_mono_check`, `C09_fuel_mono_entry` (S1) — an answer obtained at some
  fuel is the answer at every larger fuel (termination itself is C11).
-/
import PestTyped.Lemmas.Spans
import PestTyped.Lemmas.TrackerLemmas
import PestTyped.Lemmas.Mono
import PestTyped.Lemmas.L0
import PestTyped.Props.C03
namespace PestTyped

/-! ## (a) offsets at character level -/

/-- The cursor a successful run returns. -/
theorem C09_cursor (g : NodeGrammar) (uni : Uni) (n : Nat) (inh : Bool) (node : Node) (i i' : Inp) (m m' : M)
    (v : Val) (hs : i.start ≤ i.pos) (h : parse g uni n inh node i m = .ok i' m' v) :
    i'.start = i.start ∧ i'.endPos = i.endPos ∧ i'.after = i.after ∧
    i.start ≤ i'.pos ∧ i.pos ≤ i'.pos ∧ i'.pos ≤ i.endPos ∧
    ∃ p, i.rest = p ++ i'.rest ∧ i'.pos = i.pos + blen p := by
  have ha := parse_adv g uni n inh node i m i' m' v h
  obtain ⟨p, s, hr, hs', hp⟩ := ha.boundary
  refine ⟨ha.start_eq, ha.endPos_eq, ha.after_eq, Nat.le_trans hs ha.pos_le, ha.pos_le, ha.pos_le_end,
    p, by rw [hs']; exact hr, hp⟩

theorem C09_cursor_check (g : NodeGrammar) (uni : Uni) (n : Nat) (inh : Bool) (node : Node) (i i' : Inp)
    (m m' : M) (hs : i.start ≤ i.pos) (h : check g uni n inh node i m = .ok i' m' ()) :
    i'.start = i.start ∧ i'.endPos = i.endPos ∧ i'.after = i.after ∧
    i.start ≤ i'.pos ∧ i.pos ≤ i'.pos ∧ i'.pos ≤ i.endPos ∧
    ∃ p, i.rest = p ++ i'.rest ∧ i'.pos = i.pos + blen p := by
  have ha := check_adv g uni n inh node i m i' m' () h
  obtain ⟨p, s, hr, hs', hp⟩ := ha.boundary
  refine ⟨ha.start_eq, ha.endPos_eq, ha.after_eq, Nat.le_trans hs ha.pos_le, ha.pos_le, ha.pos_le_end,
    p, by rw [hs']; exact hr, hp⟩

/-- Every span a run stores is a piece of the input.  `b` is a base cursor of the same input (the
entry point's cursor); the entry stack may hold spans pushed earlier. -/
theorem C09_spans_node (g : NodeGrammar) (uni : Uni) (b : Inp) (n : Nat) (inh : Bool) (node : Node)
    (i : Inp) (m : M) (hb : b.Adv i) (hst : StkIn b m.stk) :
    (∀ m', parse g uni n inh node i m = .fail m' → StkIn b m'.stk) ∧
    (∀ i' m' v, parse g uni n inh node i m = .ok i' m' v → StkIn b m'.stk ∧ v.SpansIn b) := by
  have := parse_spans g uni b n inh node i m hb hst
  constructor
  · intro m' h; rw [h] at this; exact this
  · intro i' m' v h; rw [h] at this; exact this

theorem C09_spans_check (g : NodeGrammar) (uni : Uni) (b : Inp) (n : Nat) (inh : Bool) (node : Node)
    (i : Inp) (m : M) (hb : b.Adv i) (hst : StkIn b m.stk) :
    (∀ m', check g uni n inh node i m = .fail m' → StkIn b m'.stk) ∧
    (∀ i' m', check g uni n inh node i m = .ok i' m' () → StkIn b m'.stk) := by
  have := check_spans g uni b n inh node i m hb hst
  constructor
  · intro m' h; rw [h] at this; exact this
  · intro i' m' h; rw [h] at this; exact this.1

/-- `try_parse_partial`: the stack is empty at the API. -/
theorem C09_spans_entry (g : NodeGrammar) (uni : Uni) (n : Nat) (r : RuleId) (i i' : Inp) (m' : M) (v : Val)
    (h : tryParsePartial g uni n r i = .ok i' m' v) : v.SpansIn i ∧ StkIn i m'.stk := by
  have := (C09_spans_node g uni i n true (.ref r .one) i (M.init i) (Inp.Adv.refl i) (StkIn.nil i)).2 i' m' v h
  exact ⟨this.2, this.1⟩

/-- `try_parse`. -/
theorem C09_spans_full_entry (g : NodeGrammar) (uni : Uni) (n : Nat) (r : RuleId) (i i' : Inp) (m' : M) (v : Val)
    (h : tryParse g uni n r i = .ok i' m' v) : v.SpansIn i := by
  unfold tryParse at h
  split at h
  · cases h
  · next d hd =>
    split at h
    · cases h
    · cases h
    · next i1 m1 v1 h1 =>
      have hv := (C09_spans_entry g uni n r i i1 m1 v1 h1).1
      split at h
      · generalize eoiStep i1 m1 = x at h
        obtain ⟨mx, ok⟩ := x
        simp only [] at h
        split at h
        · injection h with _ _ hv'; rw [← hv']; exact hv
        · cases h
      · split at h
        · cases h
        · cases h
        · next i2 m2 sv h2 =>
          generalize eoiStep i2 m2 = x at h
          obtain ⟨mx, ok⟩ := x
          simp only [] at h
          split at h
          · injection h with _ _ hv'; rw [← hv']; exact hv
          · cases h

/-- `Sp.In` as inequalities, relative to the input's own `start`. -/
theorem C09_span_within {b : Inp} {sp : Sp} (hs : b.start ≤ b.pos) (h : sp.In b) :
    b.start ≤ sp.s ∧ sp.s ≤ sp.e ∧ sp.e ≤ b.endPos ∧ sp.e = sp.s + blen sp.txt := by
  obtain ⟨h1, h2, h3, h4⟩ := h.within
  exact ⟨Nat.le_trans hs h1, h2, h3, h4⟩

/-- The tracker only ever stores positions of cursors of the run. -/
theorem C09_tracker_pos_node (g : NodeGrammar) (uni : Uni) (n : Nat) (inh : Bool) (node : Node) (i : Inp) (m : M) :
    RlOk (fun t => m.trk.position ≤ t.position ∧
      (t.position = m.trk.position ∨ ∃ j, i.Adv j ∧ t.position = j.pos)) (parse g uni n inh node i m) :=
  parse_rel (trkStep_runRel g uni i) n inh node i m (Inp.Adv.refl i)

/-- Location predicate: in `[pos, end]`, on a character boundary of the remaining text. -/
def OnBoundary (i : Inp) (p : Nat) : Prop :=
  i.pos ≤ p ∧ p ≤ i.endPos ∧ ∃ pre, pre <+: i.rest ∧ p = i.pos + blen pre

theorem TrkStep.onBoundary {i : Inp} {t : Tracker} (h : TrkStep i (Tracker.new i) t) : OnBoundary i t.position := by
  rcases h.bounds with h | h
  · rw [h]
    exact ⟨Nat.le_refl _, by simp [Inp.endPos, Tracker.new], [], List.nil_prefix, by simp [blen, Tracker.new]⟩
  · exact h

/-- `try_parse`: whatever the outcome, the tracker position is in range on a boundary. -/
theorem C09_tracker_pos (g : NodeGrammar) (uni : Uni) (n : Nat) (r : RuleId) (i : Inp) :
    RlOk (fun t => OnBoundary i t.position) (tryParse g uni n r i) :=
  (tryParse_rel (trkStep_runRel g uni i) (fun j t _ => trkStep_eoi j t) n r).mono (fun _ h => h.onBoundary)

theorem C09_tracker_pos_check (g : NodeGrammar) (uni : Uni) (n : Nat) (r : RuleId) (i : Inp) :
    RlOk (fun t => OnBoundary i t.position) (tryCheck g uni n r i) := by
  rw [C03_full_agree]; exact (C09_tracker_pos g uni n r i).forget

theorem C09_tracker_pos_partial (g : NodeGrammar) (uni : Uni) (n : Nat) (r : RuleId) (i : Inp) :
    RlOk (fun t => OnBoundary i t.position) (tryParsePartial g uni n r i) ∧
    RlOk (fun t => OnBoundary i t.position) (tryCheckPartial g uni n r i) :=
  ⟨(parse_rel (trkStep_runRel g uni i) n true (.ref r .one) i (M.init i) (Inp.Adv.refl i)).mono
      (fun _ h => TrkStep.onBoundary h),
   (check_rel (trkStep_runRel g uni i) n true (.ref r .one) i (M.init i) (Inp.Adv.refl i)).mono
      (fun _ h => TrkStep.onBoundary h)⟩

/-! ## (b) bytes and build profiles -/

/-- The invariant is the safety condition of the slicing in `get()`. -/
theorem C09_inv {i0 : Inp0} {i : Inp} (h : Abs i0 i) :
    i0.pos ≤ i0.end ∧ i0.end ≤ i0.bytes.length ∧
    isBoundary i0.bytes i0.pos = true ∧ isBoundary i0.bytes i0.end = true := h.inv

theorem C09_L0_get {i0 : Inp0} {i : Inp} (h : Abs i0 i) (checked : Bool) :
    i0.get checked = .ok (enc i.rest) := h.get checked

theorem C09_L0_matchString {i0 : Inp0} {i : Inp} (h : Abs i0 i) (s : List Char) :
    ∃ r, (∀ checked, i0.matchString0 checked (enc s) = .ok r) ∧ OptAbs r (i.matchString s) :=
  matchString0_sim h s

theorem C09_L0_matchInsens {i0 : Inp0} {i : Inp} (h : Abs i0 i) (s : List Char) :
    ∃ r, (∀ checked, i0.matchInsens0 checked (enc s) = .ok r) ∧ OptAbs r (i.matchInsens s) :=
  matchInsens0_sim h s

theorem C09_L0_skip {i0 : Inp0} {i : Inp} (h : Abs i0 i) (n : Nat) :
    ∃ r, (∀ checked, i0.skip0 checked n = .ok r) ∧ OptAbs r (i.skipN n) :=
  skip0_sim h n

theorem C09_L0_matchCharBy {i0 : Inp0} {i : Inp} (h : Abs i0 i) (p : Char → Bool) :
    ∃ r, (∀ checked, i0.matchCharBy0 checked p = .ok r) ∧ OptAbsC r (i.matchCharBy p) :=
  matchCharBy0_sim h p

theorem C09_L0_matchRange {i0 : Inp0} {i : Inp} (h : Abs i0 i) (lo hi : Char) :
    ∃ r, (∀ checked, i0.matchRange0 checked lo hi = .ok r) ∧ OptAbsC r (i.matchRange lo hi) :=
  matchRange0_sim h lo hi

theorem C09_L0_next {i0 : Inp0} {i : Inp} (h : Abs i0 i) :
    ∃ r, (∀ checked, i0.next0 checked = .ok r) ∧ OptAbsC r (i.matchCharBy (fun _ => true)) :=
  next0_sim h

/-- `skip_until` never goes through `get()`: one function for both profiles, no panic possible. -/
theorem C09_L0_skipUntil {i0 : Inp0} {i : Inp} (h : Abs i0 i) (needles : List (List Char)) :
    Abs (i0.skipUntil0 (needles.map enc)).1 (i.skipUntil needles).1 ∧
    (i0.skipUntil0 (needles.map enc)).2 = (i.skipUntil needles).2 :=
  skipUntil0_sim h needles

theorem C09_L0_atEnd_atStart {i0 : Inp0} {i : Inp} (h : Abs i0 i) :
    i0.atEnd0 = i.atEnd ∧ i0.atStart0 = i.atStart := ⟨h.atEnd, h.atStart⟩

/-- Debug and release builds compute the same thing in every primitive that slices. -/
theorem C09_profile {i0 : Inp0} {i : Inp} (h : Abs i0 i) (s : List Char) (n : Nat) (p : Char → Bool)
    (lo hi : Char) :
    i0.get true = i0.get false ∧
    i0.matchString0 true (enc s) = i0.matchString0 false (enc s) ∧
    i0.matchInsens0 true (enc s) = i0.matchInsens0 false (enc s) ∧
    i0.skip0 true n = i0.skip0 false n ∧
    i0.matchCharBy0 true p = i0.matchCharBy0 false p ∧
    i0.matchRange0 true lo hi = i0.matchRange0 false lo hi ∧
    i0.next0 true = i0.next0 false := by
  obtain ⟨r1, h1, _⟩ := matchString0_sim h s
  obtain ⟨r2, h2, _⟩ := matchInsens0_sim h s
  obtain ⟨r3, h3, _⟩ := skip0_sim h n
  obtain ⟨r4, h4, _⟩ := matchCharBy0_sim h p
  obtain ⟨r5, h5, _⟩ := matchRange0_sim h lo hi
  obtain ⟨r6, h6, _⟩ := next0_sim h
  exact ⟨by rw [h.get, h.get], by rw [h1, h1], by rw [h2, h2], by rw [h3, h3], by rw [h4, h4],
    by rw [h5, h5], by rw [h6, h6]⟩

/-- Is a value (neither a panic nor undefined behaviour). -/
def P.isOk {α} : P α → Prop
  | .ok _ => True
  | _ => False

/-- Under the invariant no primitive panics (checked slicing) or is undefined (unchecked slicing). -/
theorem C09_no_panic_L0 {i0 : Inp0} {i : Inp} (h : Abs i0 i) (checked : Bool) (s : List Char) (n : Nat)
    (p : Char → Bool) (lo hi : Char) :
    (i0.get checked).isOk ∧ (i0.matchString0 checked (enc s)).isOk ∧ (i0.matchInsens0 checked (enc s)).isOk ∧
    (i0.skip0 checked n).isOk ∧ (i0.matchCharBy0 checked p).isOk ∧ (i0.matchRange0 checked lo hi).isOk ∧
    (i0.next0 checked).isOk := by
  obtain ⟨r1, h1, _⟩ := matchString0_sim h s
  obtain ⟨r2, h2, _⟩ := matchInsens0_sim h s
  obtain ⟨r3, h3, _⟩ := skip0_sim h n
  obtain ⟨r4, h4, _⟩ := matchCharBy0_sim h p
  obtain ⟨r5, h5, _⟩ := matchRange0_sim h lo hi
  obtain ⟨r6, h6, _⟩ := next0_sim h
  rw [h.get, h1, h2, h3, h4, h5, h6]
  exact ⟨trivial, trivial, trivial, trivial, trivial, trivial, trivial⟩

/-- A successful ASCII-case-insensitive comparison of the first `len` bytes of a well-formed text
with a well-formed needle of `len` bytes ends on a character boundary of the text: `len` is the byte
length of a character prefix with as many characters as the needle. -/
theorem C09_insens_boundary (rest s : List Char)
    (heq : ((enc rest).take (enc s).length).map lowerByte = (enc s).map lowerByte) :
    ∃ p, p <+: rest ∧ blen p = (enc s).length ∧ p.length = s.length ∧
      isBoundary (enc rest) (enc s).length = true :=
  insens_boundary rest s heq

/-- Span text can always be taken: for a span that is a piece of the input (every span a run
stores, `C09_spans_node`), `Span::as_str` = `&input[s..e]` does not panic and is the span's text. -/
theorem C09_span_text_L0 {b0 : Inp0} {b : Inp} (h : Abs b0 b) {sp : Sp} (hsp : sp.In b) :
    spanAsStr b0.bytes sp.s sp.e = .ok (enc sp.txt) := by
  obtain ⟨pre, hb, hp, he, hpos, _⟩ := h
  obtain ⟨p, q, hr, hs, he'⟩ := hsp
  have hbytes : b0.bytes = enc (pre ++ p) ++ enc sp.txt ++ enc (q ++ b.after) := by
    rw [hb, hr]; simp only [enc_append, List.append_assoc]
  have hs' : sp.s = blen (pre ++ p) := by rw [blen_append, hs, hpos, hp]
  unfold spanAsStr
  rw [hbytes, he', hs', strGet_enc_mid]

/-- The `debug_assert!` of `Span::new_unchecked` holds for such spans (and in release nothing is
checked). -/
theorem C09_span_new_L0 {b0 : Inp0} {b : Inp} (h : Abs b0 b) {sp : Sp} (hsp : sp.In b) (checked : Bool) :
    spanNewUnchecked checked b0.bytes sp.s sp.e = .ok (sp.s, sp.e) := by
  have := C09_span_text_L0 h hsp
  unfold spanAsStr at this
  unfold spanNewUnchecked
  cases checked
  · rfl
  · cases hg : strGet b0.bytes sp.s sp.e with
    | none => rw [hg] at this; cases this
    | some sl => rfl

/-- The `debug_assert!` of `Position::new_unchecked` (`as_position`, `Tracker::new`, `prepare`) and
the re-validation in `Tracker::collect` hold for every offset on a boundary of the input. -/
theorem C09_position_new_L0 {b0 : Inp0} {b : Inp} (h : Abs b0 b) {p : Nat} (hp : OnBoundary b p)
    (checked : Bool) : positionNewUnchecked checked b0.bytes p = .ok p := by
  obtain ⟨pre, hb, hp0, he, hpos, _⟩ := h
  obtain ⟨_, _, q, ⟨t, ht⟩, hq⟩ := hp
  have hbytes : b0.bytes = enc (pre ++ q) ++ enc (t ++ b.after) ++ enc [] := by
    rw [hb, ← ht]; simp only [enc_append, enc_nil, List.append_assoc, List.append_nil]
  have hp' : p = blen (pre ++ q) := by rw [blen_append, hq, hpos, hp0]
  have hlen' : b0.bytes.length = blen (pre ++ q) + blen (t ++ b.after) := by
    rw [hbytes, List.length_append, List.length_append, length_enc, length_enc]; simp [enc_nil]
  unfold positionNewUnchecked
  cases checked
  · rfl
  · have := strGet_enc_mid (pre ++ q) (t ++ b.after) []
    rw [← hbytes, ← hlen', ← hp'] at this
    simp only [if_true, this]

/-- The abstraction is a partial function: a byte cursor represents at most one character cursor. -/
theorem C09_abs_functional {i0 : Inp0} {i i' : Inp} (h : Abs i0 i) (h' : Abs i0 i') : i = i' := h.unique h'

/-! ## (c) totality -/

/-- There is no panic outcome at L1: a call is out of fuel, a failure (with the state left behind)
or a success. -/
theorem C09_total (g : NodeGrammar) (uni : Uni) (n : Nat) (inh : Bool) (node : Node) (i : Inp) (m : M) :
    parse g uni n inh node i m = .oof ∨ (∃ m', parse g uni n inh node i m = .fail m') ∨
    (∃ i' m' v, parse g uni n inh node i m = .ok i' m' v) := by
  cases parse g uni n inh node i m with
  | oof => exact Or.inl rfl
  | fail m' => exact Or.inr (Or.inl ⟨m', rfl⟩)
  | ok i' m' v => exact Or.inr (Or.inr ⟨i', m', v, rfl⟩)

/-- S1: more fuel never changes an answer. -/
theorem C09_fuel_mono (g : NodeGrammar) (uni : Uni) (n k : Nat) (inh : Bool) (node : Node) (i : Inp) (m : M)
    (h : parse g uni n inh node i m ≠ .oof) :
    parse g uni (n + k) inh node i m = parse g uni n inh node i m :=
  parse_mono rfl h k

theorem C09_fuel_mono_check (g : NodeGrammar) (uni : Uni) (n k : Nat) (inh : Bool) (node : Node) (i : Inp) (m : M)
    (h : check g uni n inh node i m ≠ .oof) :
    check g uni (n + k) inh node i m = check g uni n inh node i m :=
  check_mono rfl h k

theorem C09_fuel_mono_entry (g : NodeGrammar) (uni : Uni) (n k : Nat) (r : RuleId) (i : Inp) :
    (tryParse g uni n r i ≠ .oof → tryParse g uni (n + k) r i = tryParse g uni n r i) ∧
    (tryCheck g uni n r i ≠ .oof → tryCheck g uni (n + k) r i = tryCheck g uni n r i) ∧
    (tryParsePartial g uni n r i ≠ .oof → tryParsePartial g uni (n + k) r i = tryParsePartial g uni n r i) ∧
    (tryCheckPartial g uni n r i ≠ .oof → tryCheckPartial g uni (n + k) r i = tryCheckPartial g uni n r i) :=
  ⟨fun h => tryParse_mono rfl h k, fun h => tryCheck_mono rfl h k,
   fun h => tryParsePartial_mono rfl h k, fun h => tryCheckPartial_mono rfl h k⟩

/-! ## non-vacuity -/

/-- `a = { "é" ~ PUSH(ANY) ~ b ~ POP }  b = @{ ^"ß" }` on "éλßλ" (2-byte characters throughout). -/
def c09Grammar : NodeGrammar :=
  { rules := [eoiDef,
      { name := "a", atom := .nonAtomic, emit := .both, boxed := true,
        body := .seq .inh [.str ['é'], .push .any, .ref 2 .inh, .pop] },
      { name := "b", atom := .atomic, emit := .span, boxed := true, body := .insens ['ß'] }],
    skipped := .empty }

def c09Input : Inp := ⟨0, 0, ['é', 'λ', 'ß', 'λ'], []⟩

def Res.c09OkPos? {σ α} : Res σ α → Option (Nat × Nat)
  | .ok i _ _ => some (i.pos, i.rest.length)
  | _ => none

def Res.c09OkVal? {σ α} : Res σ α → Option α
  | .ok _ _ v => some v
  | _ => none

/-- The run succeeds at offset 8 = end; the value carries the spans (2,4) of the pushed `λ` (popped at
(6,8)) and (4,6) of rule `b`. -/
example : (tryParse c09Grammar (fun _ _ => false) 20 1 c09Input).c09OkPos? = some (8, 0) := by decide
example : ((tryParse c09Grammar (fun _ _ => false) 20 1 c09Input).c09OkVal?.map
    (fun v => v.kids.map (fun k => k.kids.map (fun k' => k'.kids.map Val.tag)))) =
    some [[[.empty, .str], [.empty, .push], [.empty, .rule 2 .span true 4 6], [.empty, .pop ⟨2, 4, ['λ']⟩]]] := by
  decide
example : (tryParse c09Grammar (fun _ _ => false) 20 1 c09Input).c09OkVal?.map Val.tag =
    some (.rule 1 .both true 0 8) := by decide

/-- Bytes of "éA": `é` = C3 A9. -/
def c09Bytes : Inp0 := ⟨[0xC3, 0xA9, 0x41], 0, 0, 3⟩

example : Abs c09Bytes ⟨0, 0, ['é', 'A'], []⟩ := ⟨[], by decide, rfl, by decide, rfl, rfl⟩
example : enc ['é', 'A'] = [0xC3, 0xA9, 0x41] := by decide
example : c09Bytes.matchString0 true (enc ['é']) = .ok (some ⟨[0xC3, 0xA9, 0x41], 0, 2, 3⟩) := by decide
example : c09Bytes.matchString0 false (enc ['é']) = .ok (some ⟨[0xC3, 0xA9, 0x41], 0, 2, 3⟩) := by decide
example : c09Bytes.matchCharBy0 true (fun _ => true) = .ok (some (⟨[0xC3, 0xA9, 0x41], 0, 2, 3⟩, 'é')) := by decide
example : c09Bytes.skip0 false 2 = .ok (some ⟨[0xC3, 0xA9, 0x41], 0, 3, 3⟩) := by decide
/-- `^"a"` against "é…": `get(..1)` is `None` (offset 1 is inside `é`), no slicing happens. -/
example : c09Bytes.matchInsens0 true (enc ['a']) = .ok none := by decide
/-- `^"éa"` matches "éA" ignoring ASCII case, ending at 3. -/
example : c09Bytes.matchInsens0 false (enc ['é', 'a']) = .ok (some ⟨[0xC3, 0xA9, 0x41], 0, 3, 3⟩) := by decide
/-- `skip_until(["A"])` steps over offset 1 (not a boundary: `continue`) and stops at 2. -/
example : c09Bytes.skipUntil0 [enc ['A']] = (⟨[0xC3, 0xA9, 0x41], 0, 2, 3⟩, true) := by decide

/-- Outside the invariant (cursor inside `é`) the model does separate the build profiles: the debug
build panics, the release build is undefined behaviour.  So `C09_profile` / `C09_no_panic_L0` are
not true for the wrong reason. -/
theorem C09_L0_get_violation :
    (⟨[0xC3, 0xA9, 0x41], 0, 1, 3⟩ : Inp0).get true = .panic ∧
    (⟨[0xC3, 0xA9, 0x41], 0, 1, 3⟩ : Inp0).get false = .ub := by
  constructor <;> decide

/-- Hypothesis of `C09_insens_boundary` on "éA" vs needle "éa". -/
example : ((enc ['é', 'A']).take (enc ['é', 'a']).length).map lowerByte = (enc ['é', 'a']).map lowerByte := by
  decide

/-- `Span::as_str` on the span (2,3) of "éA". -/
example : spanAsStr c09Bytes.bytes 2 3 = .ok [0x41] := by decide
example : spanAsStr c09Bytes.bytes 1 3 = .panic := by decide

end PestTyped
