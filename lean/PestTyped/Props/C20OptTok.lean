/-
Props.C20OptTok — property C20, the `pest_optimizer` clause, at the level of the TOKEN TREE (pair tree):
"switching pest's optimizer off changes the representation only": the parsers generated from the raw AST
(`#[pest_optimizer = false]`) and from the optimized AST (default) do not only accept the same inputs and stop
at the same offsets with the same stack (`Props/C20Opt.lean`: `C20_raw_eq_opt_typed_partial`), they also
produce the SAME PAIR TREE (`tokens`).  `Props/C20Opt.lean` compares the reference semantics `spec`; here the
comparison is redone for the reference semantics WITH token emission, `specTok` (`Model/SpecTokens.lean`), and
transported to the typed parsers by C01 (`C01_iff_entry`: the typed parser succeeds ⇒ pest's parse succeeds) and
C02 (`C02_tree`: then `tokens (gen g) v = pruneAtomic g ts`, `ts` the token list of `specTok`).

`TokEquiv g g' uni am e e'` (`Lemmas/PestOptTokDen.lean`) is `denT g uni am e = denT g' uni am e'`, where
`denT … i S : STR` is the answer of `specTok` with enough fuel (`.oof` if no fuel is enough): same verdict, end
cursor, final stack AND token list for every input and stack, and the same termination behaviour.  It implies
`SpecEquiv` (`C20_tok_forget`) and agreement of `specTok` at any two sufficient fuels (`TokEquiv.spec_agree`).

Per pass (expression level, in ANY grammar `g`; `am : Atom3` is pest's three-valued atomicity):
* `C20_rotate_tok`            `rotate`: every atomicity (token lists concatenate associatively, the tokens of the
                              implicit skips included).                       (Lemmas/PestOptTokRotate.lean)
* `C20_concatenate_tok(_body)` `concatenate`: contexts without skipping (`am.na = false`); literals emit nothing.
* `C20_factor_tok(_body)`     `factor`: all three arms.
* `C20_restore_tok`           `restore_on_err`: every atomicity, every lookup map.
* `C20_skip_tok`              `skip` WITH inlining (`(!(a | rule) ~ ANY)* ↦ Skip([...])`), rule names distinct and no
                              rule `ANY`; `C20_skip_tok_noinline`: empty lookup map, any grammar.  Both sides emit no
                              token (`tokFree_skipLoop`, `tokFree_skip`), so the statement follows from `C20_skip_spec`.
                                                                              (Lemmas/PestOptTokSkip.lean)
* `C20_unroll_tok`            `unroll`, under `NoSkipCtx g am.na` and `unrollSafe e` (the side conditions of
                              `C20_unroll_spec`; necessary: `C20_unroll_needs_noskip`, `C20_unroll_needs_ordered`).
                                                                              (Lemmas/PestOptTokUnroll.lean)
Whole grammars:
* `OptSafe'`                  decidable; `OptSafe` with the condition "`skip` inlines no rule" WEAKENED to "`skip` inlines
                              no rule OR the rule names are pairwise distinct" (`C20_optSafe_optSafe'`: `OptSafe g → OptSafe' g`).
* `C20_skip_stage_inline_tok` the grammar-level `skip` stage with inlining (the inlined rule is itself rotated and
                              skipped in the new grammar: `Lemmas/PestOptTokInline.lean`).
* `C20_raw_eq_opt_tokens_spec_partial`  `OptSafe' g` ⇒ `TokEquiv g (optimize g) uni am e e` for every `am`, `e`.
* `C20_raw_eq_opt_spec_partial'`        hence `SpecEquiv g (optimize g) uni na e e`: `C20_raw_eq_opt_spec_partial` for `OptSafe'`.
* `C20_raw_eq_opt_tokens_spec_partial_entry`  definite answers of `specTokPartial` agree, termination transfers.
* `C20_pruneAtomic_optimize`  `pruneAtomic (optimize g) = pruneAtomic g` (rule kinds are unchanged).
* `C20_raw_eq_opt_tokens_partial`       THE TYPED STATEMENT: if `try_parse_partial` of rule `name` succeeds in both generated
                              modules, the two pair trees are equal (and so are the end cursors and final stacks).
* `C20_raw_eq_opt_tokens_full_partial`  the same for `try_parse` (full input).
* `C20_raw_eq_opt_typed_partial'`       the outcome statement of `C20Opt.lean` for `OptSafe'`.

`_partial`: what is still missing for the full clause.
(1) `OptSafe'` excludes exactly the rewrites that are UNSOUND already without tokens, so the clause is false in
    general and the witnesses stay: `list` when it fires (`C20_list_refuted`, F-OPT-1), `unroll` of a normal rule in a
    grammar with WHITESPACE / COMMENT (`C20_unroll_needs_noskip`, F-OPT-3), `unroll` with inverted or zero bounds
    (`C20_unroll_needs_ordered`, F-OPT-4); and it excludes a rule called `ANY` and the inlining form of `skip` in
    grammars with DUPLICATE rule names (the optimizer inlines the last definition, the parser calls the first:
    `skip_unsound_duplicates`) — pest's validator rejects both.
(2) The typed statements need `SkipRulesAtomicLike` for both grammars (finding F-WS), like C01 / C02.
(3) The typed statements compare SUCCESSFUL runs (a pair tree exists only then); that one side succeeds iff the
    other does is `C20_raw_eq_opt_typed_partial'`.
-/
import PestTyped.Props.C20Opt
import PestTyped.Props.C02
import PestTyped.Lemmas.PestOptTokRotate
import PestTyped.Lemmas.PestOptTokSkip
import PestTyped.Lemmas.PestOptTokUnroll
import PestTyped.Lemmas.PestOptTokInline
import PestTyped.Lemmas.PestOptTokGrammar
namespace PestTyped

/-! ### the running example -/

/-- `lit = { "x" | "y" }  text = @{ (!lit ~ ANY)* }  pair = ${ text ~ lit }  doc = { pair ~ ("," ~ pair)* }`:
`skip` INLINES `lit`; not `OptSafe`, but `OptSafe'`. -/
def c20iG : PGrammar :=
  [⟨"lit", .normal, .choice (.str ['x']) (.str ['y'])⟩,
   ⟨"text", .atomic, .rep (.seq (.negPred (.ident "lit")) (.ident "ANY"))⟩,
   ⟨"pair", .compoundAtomic, .seq (.ident "text") (.ident "lit")⟩,
   ⟨"doc", .normal, .seq (.ident "pair") (.rep (.seq (.str [',']) (.ident "pair")))⟩]

def c20iInp : Inp := ⟨0, 0, ['a', 'b', 'x', ',', 'y'], []⟩

/-! ### the passes, one by one -/

/-- `rotate` preserves the token semantics of every expression, in every grammar, under every atomicity. -/
theorem C20_rotate_tok (g : PGrammar) (uni : Uni) (am : Atom3) (e : PExpr) :
    TokEquiv g g uni am e (rotateExpr e) := rotateExpr_tequiv g uni am e

/-- three rule calls (each emits a token): the left spine is folded to the right. -/
example : rotateExpr (.seq (.seq (.ident "r") (.ident "r")) (.ident "r")) =
    .seq (.ident "r") (.seq (.ident "r") (.ident "r")) := by decide

/-- `concatenate` (applied in `@` rules only) preserves the token semantics where nothing is skipped. -/
theorem C20_concatenate_tok (g : PGrammar) (uni : Uni) (am : Atom3) (h : am.na = false) (kind : RuleKind) (e : PExpr) :
    TokEquiv g g uni am e (concatenateExpr kind e) := concatenateExpr_tequiv g uni am h kind e

/-- … which is the context every body of the rule's kind runs in. -/
theorem C20_concatenate_tok_body (g : PGrammar) (uni : Uni) (name : String) (kind : RuleKind) (am : Atom3) (e : PExpr) :
    TokEquiv g g uni (bodyAt name kind am) e (concatenateExpr kind e) := concatenateExpr_tequiv_body g uni name kind am e

example : concatenateExpr .atomic (.seq (.str ['a']) (.str ['b'])) = .str ['a', 'b'] ∧ Atom3.atomic.na = false := by
  decide

/-- `skip` WITH inlining: rule names distinct, no rule `ANY`. -/
theorem C20_skip_tok (g : PGrammar) (uni : Uni) (hnd : (g.map (·.name)).Nodup) (hany : g.find? "ANY" = none)
    (name : String) (kind : RuleKind) (am : Atom3) (e : PExpr) :
    TokEquiv g g uni (bodyAt name kind am) e (skipExpr g kind e) :=
  skipExpr_tequiv_body g uni hnd hany name kind am e

/-- Without inlining (empty lookup map): any grammar without a rule `ANY`. -/
theorem C20_skip_tok_noinline (G : PGrammar) (uni : Uni) (hany : G.find? "ANY" = none) (name : String)
    (kind : RuleKind) (am : Atom3) (e : PExpr) : TokEquiv G G uni (bodyAt name kind am) e (skipExpr [] kind e) :=
  skipExpr_nil_tequiv_body G uni hany name kind am e

/-- In `c20iG`: names distinct, no rule `ANY`, and `skip` inlines `lit` in the body of `text`. -/
example : (c20iG.map (·.name)).Nodup ∧ c20iG.find? "ANY" = none ∧
    skipExpr c20iG .atomic (.rep (.seq (.negPred (.ident "lit")) (.ident "ANY"))) = .skip [['x'], ['y']] ∧
    skipExpr [] .atomic (.rep (.seq (.negPred (.choice (.str ['x']) (.str ['y']))) (.ident "ANY"))) = .skip [['x'], ['y']] := by
  decide

/-- `factor`: all three arms, under every atomicity the rule kind allows. -/
theorem C20_factor_tok (g : PGrammar) (uni : Uni) (kind : RuleKind) (am : Atom3)
    (hna : (kind = .atomic ∨ kind = .compoundAtomic) → am.na = false) (e : PExpr) :
    TokEquiv g g uni am e (factorExpr kind e) := factorExpr_tequiv g uni kind am hna e

theorem C20_factor_tok_body (g : PGrammar) (uni : Uni) (name : String) (kind : RuleKind) (am : Atom3) (e : PExpr) :
    TokEquiv g g uni (bodyAt name kind am) e (factorExpr kind e) := factorExpr_tequiv_body g uni name kind am e

example : factorExpr .normal (.choice (.seq (.ident "a") (.ident "b")) (.seq (.ident "a") (.ident "c"))) =
    .seq (.ident "a") (.choice (.ident "b") (.ident "c")) := by decide

/-- `restore_on_err` only inserts wrappers the token semantics ignores. -/
theorem C20_restore_tok (g g0 : PGrammar) (uni : Uni) (am : Atom3) (e : PExpr) :
    TokEquiv g g uni am e (restoreExpr g0 e) := restoreExpr_tequiv g g0 uni am e

example : restoreExpr [] (.opt (.push (.ident "a"))) = .opt (.restoreOnErr (.push (.ident "a"))) := by decide

/-- `unroll`, under its two side conditions. -/
theorem C20_unroll_tok (g : PGrammar) (uni : Uni) (am : Atom3) (hctx : NoSkipCtx g am.na) (e : PExpr)
    (hs : unrollSafe e = true) : TokEquiv g g uni am e (unrollExpr e) := unrollExpr_tequiv hctx e hs

example : NoSkipCtx [] Atom3.compound.na ∧ unrollSafe (.repMinMax (.ident "a") 1 2) = true ∧
    unrollExpr (.repMinMax (.ident "a") 1 2) = .seq (.ident "a") (.opt (.ident "a")) :=
  ⟨.inl rfl, by decide, by decide⟩

/-! ### what `TokEquiv` says about the token-free semantics -/

/-- Token-level equivalence implies equivalence of the token-free reference semantics. -/
theorem C20_tok_forget {g g' : PGrammar} {uni : Uni} {am : Atom3} {e e' : PExpr}
    (h : TokEquiv g g' uni am e e') : SpecEquiv g g' uni am.na e e' := by
  intro i S o
  constructor
  · intro hd
    have h1 := den_denT_forget hd
    rw [h.app] at h1
    have hne : denT g' uni am e' i S ≠ .oof := by
      intro h0; rw [h0] at h1; exact hd.1 h1.symm
    have := denT_forget_den hne
    rw [h1] at this; exact this
  · intro hd
    have h1 := den_denT_forget hd
    rw [← h.app] at h1
    have hne : denT g uni am e i S ≠ .oof := by
      intro h0; rw [h0] at h1; exact hd.1 h1.symm
    have := denT_forget_den hne
    rw [h1] at this; exact this

example (uni : Uni) : SpecEquiv [] [] uni false (.seq (.seq (.str ['a']) (.str ['b'])) (.str ['c']))
    (rotateExpr (.seq (.seq (.str ['a']) (.str ['b'])) (.str ['c']))) :=
  C20_tok_forget (am := .atomic) (C20_rotate_tok [] uni .atomic _)

/-! ### whole grammars -/

/-- `OptSafe` with the condition on `skip` weakened: `skip` may inline rules when the rule names are pairwise
distinct (the other conditions — no rule `ANY`; `unroll` only with ordered non-zero bounds and in `@`/`$` rules
or without skip rules; `list` changes nothing — are those of `OptSafe`). -/
def OptSafe' (g : PGrammar) : Bool :=
  let g1 := passRotate g
  let g2 := passSkip g g1
  let g5 := passFactor (passConcatenate (passUnroll g2))
  (g.find? "ANY").isNone &&
  (decide ((g.map (·.name)).Nodup) ||
    g1.all (fun r => skipExpr g r.kind r.expr == skipExpr [] r.kind r.expr)) &&
  g2.all (fun r => unrollExpr r.expr == r.expr ||
    (unrollSafe r.expr && (r.kind == .atomic || r.kind == .compoundAtomic || noSkipRules g))) &&
  g5.all (fun r => listExpr r.expr == r.expr)

/-- `OptSafe'` is weaker than `OptSafe`. -/
theorem C20_optSafe_optSafe' (g : PGrammar) (h : OptSafe g = true) : OptSafe' g = true := by
  simp only [OptSafe, Bool.and_eq_true] at h
  obtain ⟨⟨⟨h1, h2⟩, h3⟩, h4⟩ := h
  simp only [OptSafe', Bool.and_eq_true, Bool.or_eq_true]
  exact ⟨⟨⟨h1, .inr h2⟩, h3⟩, h4⟩

example : OptSafe' c20oG = true := C20_optSafe_optSafe' c20oG (by decide)

/-- The grammar-level `skip` stage WITH inlining. -/
theorem C20_skip_stage_inline_tok (g : PGrammar) (uni : Uni) (hnd : (g.map (·.name)).Nodup)
    (hany : g.find? "ANY" = none) (am : Atom3) (e : PExpr) :
    TokEquiv (passRotate g) (passSkip g (passRotate g)) uni am e e := skipStage_tequiv_nodup g uni hnd hany am e

example (uni : Uni) (am : Atom3) :
    TokEquiv (passRotate c20iG) (passSkip c20iG (passRotate c20iG)) uni am (.ident "text") (.ident "text") :=
  C20_skip_stage_inline_tok c20iG uni (by decide) (by decide) am _

/-- For grammars on which only the proved-safe rewrites fire, every expression — hence every rule, hence
every parse — has the same meaning INCLUDING THE TOKEN LIST in the raw grammar and in the optimized one. -/
theorem C20_raw_eq_opt_tokens_spec_partial (g : PGrammar) (uni : Uni) (hs : OptSafe' g = true) :
    ∀ am e, TokEquiv g (optimize g) uni am e e := by
  simp only [OptSafe', Bool.and_eq_true, List.all_eq_true, Option.isNone_iff_eq_none, beq_iff_eq,
    Bool.or_eq_true, decide_eq_true_eq] at hs
  obtain ⟨⟨⟨hany, hskip⟩, hunroll⟩, hlist⟩ := hs
  intro am e
  rw [optimize_eq_staged]
  unfold optimizeStaged
  have hany1 : (passRotate g).find? "ANY" = none := find?_none_mapBodies _ g "ANY" hany
  have hdef1 : ∀ nm, (passRotate g).defines nm = g.defines nm := defines_mapBodies _ g
  have hdef2 : ∀ nm, (passSkip g (passRotate g)).defines nm = g.defines nm := fun nm =>
    (defines_mapBodies _ _ nm).trans (hdef1 nm)
  -- rotate
  have e1 : TokEquiv g (passRotate g) uni am e e :=
    tok_stage g uni _ (fun r _ G _ _ am => rotateExpr_tequiv G uni _ r.expr) am e
  -- skip
  have e2 : TokEquiv (passRotate g) (passSkip g (passRotate g)) uni am e e := by
    rcases hskip with hnd | hni
    · exact skipStage_tequiv_nodup g uni hnd hany am e
    · rw [passSkip_eq, mapBodies_congr (F' := fun r => skipExpr [] r.kind r.expr) (fun r hr => hni r hr)]
      exact tok_stage _ uni _
        (fun r _ G _ hG am => skipExpr_nil_tequiv_body G uni (hG hany1) r.name r.kind am r.expr) am e
  -- unroll
  have e3 : TokEquiv (passSkip g (passRotate g)) (passUnroll (passSkip g (passRotate g))) uni am e e := by
    rw [passUnroll_eq]
    refine tok_stage _ uni _ (fun r hr G hG _ am => ?_) am e
    rcases hunroll r hr with h | ⟨hsafe, hk⟩
    · show TokEquiv G G uni _ r.expr (unrollExpr r.expr)
      rw [h]; exact TokEquiv.refl _ _ _ _
    · refine unrollExpr_tequiv_body G uni r.name r.kind am ?_ hsafe
      rcases hk with (hk | hk) | hk
      · exact .inl hk
      · exact .inr (.inl hk)
      · refine .inr (.inr ?_)
        simp only [noSkipRules, Bool.and_eq_true, Bool.not_eq_true'] at hk
        exact ⟨by rw [hG, hdef2]; exact hk.1, by rw [hG, hdef2]; exact hk.2⟩
  -- concatenate, factor
  have e4 := tok_stage (passUnroll (passSkip g (passRotate g))) uni (fun r => concatenateExpr r.kind r.expr)
    (fun r _ G _ _ am => concatenateExpr_tequiv_body G uni r.name r.kind am r.expr) am e
  have e5 := tok_stage (passConcatenate (passUnroll (passSkip g (passRotate g)))) uni (fun r => factorExpr r.kind r.expr)
    (fun r _ G _ _ am => factorExpr_tequiv_body G uni r.name r.kind am r.expr) am e
  -- list (identity here)
  have e6 : TokEquiv (passFactor (passConcatenate (passUnroll (passSkip g (passRotate g)))))
      (passList (passFactor (passConcatenate (passUnroll (passSkip g (passRotate g)))))) uni am e e := by
    rw [passList_eq]
    refine tok_stage _ uni _ (fun r hr G _ _ am => ?_) am e
    show TokEquiv G G uni _ r.expr (listExpr r.expr)
    rw [hlist r hr]; exact TokEquiv.refl _ _ _ _
  -- restore
  have e7 := tok_stage (passList (passFactor (passConcatenate (passUnroll (passSkip g (passRotate g)))))) uni
    (fun r => restoreExpr (passList (passFactor (passConcatenate (passUnroll (passSkip g (passRotate g)))))) r.expr)
    (fun r _ G _ _ am => restoreExpr_tequiv G _ uni _ r.expr) am e
  exact e1.trans (e2.trans (e3.trans (e4.trans (e5.trans (e6.trans e7)))))

/-- `C20_raw_eq_opt_spec_partial` under the weaker hypothesis `OptSafe'` (inlining `skip` allowed). -/
theorem C20_raw_eq_opt_spec_partial' (g : PGrammar) (uni : Uni) (hs : OptSafe' g = true) :
    ∀ na e, SpecEquiv g (optimize g) uni na e e := by
  intro na e
  cases na with
  | true => exact C20_tok_forget (am := .nonAtomic) (C20_raw_eq_opt_tokens_spec_partial g uni hs .nonAtomic e)
  | false => exact C20_tok_forget (am := .atomic) (C20_raw_eq_opt_tokens_spec_partial g uni hs .atomic e)

/-- The two grammars give the same definite answers WITH TOKENS for every start rule and input, whatever the
fuels, and terminate on the same inputs. -/
theorem C20_raw_eq_opt_tokens_spec_partial_entry (g : PGrammar) (uni : Uni) (hs : OptSafe' g = true)
    (name : String) (i : Inp) :
    (∀ n m, specTokPartial g uni n name i ≠ .oof → specTokPartial (optimize g) uni m name i ≠ .oof →
      specTokPartial g uni n name i = specTokPartial (optimize g) uni m name i) ∧
    ((∃ n, specTokPartial g uni n name i ≠ .oof) ↔ (∃ m, specTokPartial (optimize g) uni m name i ≠ .oof)) := by
  have hE := C20_raw_eq_opt_tokens_spec_partial g uni hs .nonAtomic (.ident name)
  refine ⟨fun n m hn hm => hE.spec_agree n m i [] hn hm, ?_, ?_⟩
  · rintro ⟨n, hn⟩
    obtain ⟨m, hm⟩ := hE.transfer (i := i) (S := []) hn
    exact ⟨m, by unfold specTokPartial at hn ⊢; rw [hm]; exact hn⟩
  · rintro ⟨m, hm⟩
    obtain ⟨n, hn⟩ := hE.symm.transfer (i := i) (S := []) hm
    exact ⟨n, by unfold specTokPartial at hm ⊢; rw [hn]; exact hm⟩

/-! ### the typed parsers -/

/-- pest-typed's pruning of `@` / `$` subtrees depends on the grammar through the rule kinds only, which the
optimizer leaves alone. -/
theorem C20_pruneAtomic_optimize (g : PGrammar) (ts : List Token) :
    pruneAtomic (optimize g) ts = pruneAtomic g ts := pruneAtomic_congr (isAtomicId_optimize g) ts

example : (optimize c20iG).isAtomicId 2 = true ∧ c20iG.isAtomicId 2 = true ∧ c20iG.isAtomicId 4 = false := by decide

/-- **C20, pair trees.**  The typed parsers generated WITHOUT and WITH pest's optimizer produce the same pair tree:
whenever `try_parse_partial` of rule `name` succeeds in both generated modules (at any two fuels), the token
trees are equal, and so are the end cursors and the final stacks. -/
theorem C20_raw_eq_opt_tokens_partial (g : PGrammar) (uni : Uni) (hs : OptSafe' g = true)
    (hws : SkipRulesAtomicLike g) (hws' : SkipRulesAtomicLike (optimize g))
    (name : String) (r : Nat) (hr : g.indexOf name = some r) (i : Inp) (k k' : Nat)
    (i1 i2 : Inp) (m1 m2 : M) (v1 v2 : Val)
    (h1 : tryParsePartial (gen g) uni k (r+1) i = .ok i1 m1 v1)
    (h2 : tryParsePartial (gen (optimize g)) uni k' (r+1) i = .ok i2 m2 v2) :
    tokens (gen g) v1 = tokens (gen (optimize g)) v2 ∧ i1 = i2 ∧ m1.stk = m2.stk := by
  have hr' : (optimize g).indexOf name = some r := by rw [indexOf_names (optimize_names g)]; exact hr
  -- pest's parse succeeds in both grammars (C01)
  obtain ⟨n, hn⟩ := (C01_iff_entry g uni hws name r hr i (.ok i1 m1.stk) nofun).mp ⟨k, by rw [h1]; rfl⟩
  obtain ⟨n', hn'⟩ := (C01_iff_entry (optimize g) uni hws' name r hr' i (.ok i2 m2.stk) nofun).mp
    ⟨k', by rw [h2]; rfl⟩
  -- with some token lists
  have hf := specTokPartial_forget g uni n name i
  have hf' := specTokPartial_forget (optimize g) uni n' name i
  rw [hn] at hf
  rw [hn'] at hf'
  cases ht : specTokPartial g uni n name i with
  | oof => rw [ht] at hf; cases hf
  | fail => rw [ht] at hf; cases hf
  | ok j S ts =>
    cases ht' : specTokPartial (optimize g) uni n' name i with
    | oof => rw [ht'] at hf'; cases hf'
    | fail => rw [ht'] at hf'; cases hf'
    | ok j' S' ts' =>
      -- which are equal (the token-level optimizer theorem)
      have hE := (C20_raw_eq_opt_tokens_spec_partial_entry g uni hs name i).1 n n'
        (by rw [ht]; nofun) (by rw [ht']; nofun)
      rw [ht, ht'] at hE
      injection hE with e1 e2 e3
      subst e1 e2 e3
      -- and are the pair trees of the typed parsers, up to the same pruning (C02)
      obtain ⟨t1, c1, s1⟩ := C02_tree g uni hws k n name r i i1 j m1 v1 S ts hr h1 ht
      obtain ⟨t2, c2, s2⟩ := C02_tree (optimize g) uni hws' k' n' name r i i2 j m2 v2 S ts hr' h2 ht'
      exact ⟨by rw [t1, t2, C20_pruneAtomic_optimize], c1.trans c2.symm, s1.trans s2.symm⟩

/-- The same for `try_parse` (the whole input must be consumed). -/
theorem C20_raw_eq_opt_tokens_full_partial (g : PGrammar) (uni : Uni) (hs : OptSafe' g = true)
    (hws : SkipRulesAtomicLike g) (hws' : SkipRulesAtomicLike (optimize g))
    (name : String) (r : Nat) (hr : g.indexOf name = some r) (i : Inp) (k k' : Nat)
    (i1 i2 : Inp) (m1 m2 : M) (v1 v2 : Val)
    (h1 : tryParse (gen g) uni k (r+1) i = .ok i1 m1 v1)
    (h2 : tryParse (gen (optimize g)) uni k' (r+1) i = .ok i2 m2 v2) :
    tokens (gen g) v1 = tokens (gen (optimize g)) v2 := by
  obtain ⟨_, _, j1, n1, _, p1, _⟩ := tryParse_ok_partial (gen g) uni k (r+1) i i1 m1 v1 h1
  obtain ⟨_, _, j2, n2, _, p2, _⟩ := tryParse_ok_partial (gen (optimize g)) uni k' (r+1) i i2 m2 v2 h2
  exact (C20_raw_eq_opt_tokens_partial g uni hs hws hws' name r hr i k k' j1 j2 n1 n2 v1 v2 p1 p2).1

/-- The outcome statement of `C20_raw_eq_opt_typed_partial` under the weaker hypothesis `OptSafe'`: one
parser succeeds (with a given end cursor and stack) or fails exactly when the other does. -/
theorem C20_raw_eq_opt_typed_partial' (g : PGrammar) (uni : Uni) (hs : OptSafe' g = true)
    (hws : SkipRulesAtomicLike g) (hws' : SkipRulesAtomicLike (optimize g))
    (name : String) (r : Nat) (hr : g.indexOf name = some r) (i : Inp) (o : SR) (ho : o ≠ .oof) :
    (∃ k, (tryParsePartial (gen g) uni k (r+1) i).outcome = o) ↔
      (∃ k, (tryParsePartial (gen (optimize g)) uni k (r+1) i).outcome = o) := by
  rw [C01_iff_entry g uni hws name r hr i o ho,
    C01_iff_entry (optimize g) uni hws' name r (by rw [indexOf_names (optimize_names g)]; exact hr) i o ho]
  have := C20_raw_eq_opt_spec_partial' g uni hs true (.ident name) i [] o
  simp only [Den, ho, ne_eq, not_false_eq_true, true_and] at this
  exact this

/-- When the skip rules are declared `@` / `$` the hypothesis on the optimized grammar follows. -/
theorem C20_raw_eq_opt_tokens_partial_atomic (g : PGrammar) (uni : Uni) (hs : OptSafe' g = true)
    (hws : SkipRulesAtomic g) (name : String) (r : Nat) (hr : g.indexOf name = some r) (i : Inp) (k k' : Nat)
    (i1 i2 : Inp) (m1 m2 : M) (v1 v2 : Val)
    (h1 : tryParsePartial (gen g) uni k (r+1) i = .ok i1 m1 v1)
    (h2 : tryParsePartial (gen (optimize g)) uni k' (r+1) i = .ok i2 m2 v2) :
    tokens (gen g) v1 = tokens (gen (optimize g)) v2 ∧ i1 = i2 ∧ m1.stk = m2.stk := by
  have hws' : SkipRulesAtomic (optimize g) := by
    intro r' hr' hn'
    simp only [optimize, optimizeRule1, List.mem_map] at hr'
    obtain ⟨r1, ⟨r0, hr0, rfl⟩, rfl⟩ := hr'
    exact hws r0 hr0 hn'
  exact C20_raw_eq_opt_tokens_partial g uni hs hws.like hws'.like name r hr i k k' i1 i2 m1 m2 v1 v2 h1 h2

/-! ### non-vacuity -/

/-- `c20oG` of `C20Opt.lean` (`rotate`, `unroll`, `concatenate`, non-inlining `skip` fire) is `OptSafe'`. -/
example : OptSafe' c20oG = true := by decide
/-- … so `unroll` (`("c" | "d")+` in the `@` rule `item`), `concatenate` and `skip` preserve its tokens. -/
example (uni : Uni) (am : Atom3) : TokEquiv c20oG (optimize c20oG) uni am (.ident "list") (.ident "list") :=
  C20_raw_eq_opt_tokens_spec_partial c20oG uni (by decide) am _

example : (optimize c20iG).map (·.expr) =
    [.choice (.str ['x']) (.str ['y']),
     .skip [['x'], ['y']],
     .seq (.ident "text") (.ident "lit"),
     .seq (.ident "pair") (.rep (.seq (.str [',']) (.ident "pair")))] := by decide
example : OptSafe c20iG = false ∧ OptSafe' c20iG = true := by decide

example (uni : Uni) (am : Atom3) : TokEquiv c20iG (optimize c20iG) uni am (.ident "doc") (.ident "doc") :=
  C20_raw_eq_opt_tokens_spec_partial c20iG uni (by decide) am _

example (uni : Uni) (na : Bool) : SpecEquiv c20iG (optimize c20iG) uni na (.ident "doc") (.ident "doc") :=
  C20_raw_eq_opt_spec_partial' c20iG uni (by decide) na _

/-- Both reference parsers succeed on `abx,y` with the same non-trivial token list:
`doc[pair[text, lit], pair[text, lit]]` (`text` is `@`: a token without children). -/
example : specTokPartial c20iG (fun _ _ => false) 16 "doc" c20iInp =
      .ok ⟨0, 5, [], []⟩ []
        [.mk 4 0 5 [.mk 3 0 3 [.mk 2 0 2 [], .mk 1 2 3 []], .mk 3 4 5 [.mk 2 4 4 [], .mk 1 4 5 []]]] ∧
    specTokPartial (optimize c20iG) (fun _ _ => false) 16 "doc" c20iInp =
      .ok ⟨0, 5, [], []⟩ []
        [.mk 4 0 5 [.mk 3 0 3 [.mk 2 0 2 [], .mk 1 2 3 []], .mk 3 4 5 [.mk 2 4 4 [], .mk 1 4 5 []]]] :=
  ⟨by rfl, by rfl⟩

example : specTokPartial c20iG (fun _ _ => false) 16 "doc" c20iInp =
    specTokPartial (optimize c20iG) (fun _ _ => false) 20 "doc" c20iInp :=
  (C20_raw_eq_opt_tokens_spec_partial_entry c20iG _ (by decide) "doc" c20iInp).1 16 20
    (by rw [show specTokPartial c20iG (fun _ _ => false) 16 "doc" c20iInp = _ from rfl]; nofun)
    (by rw [show specTokPartial (optimize c20iG) (fun _ _ => false) 20 "doc" c20iInp = _ from rfl]; nofun)

theorem c20iG_skipAtomic : SkipRulesAtomic c20iG := by
  intro r hr hn
  simp only [c20iG, List.mem_cons, List.not_mem_nil, or_false] at hr
  rcases hr with rfl | rfl | rfl | rfl <;> simp at hn

/-- The typed statements instantiated: rule `doc` (index 3, generated rule id 4) of the two generated modules. -/
example (uni : Uni) (i : Inp) (k k' : Nat) (i1 i2 : Inp) (m1 m2 : M) (v1 v2 : Val)
    (h1 : tryParsePartial (gen c20iG) uni k 4 i = .ok i1 m1 v1)
    (h2 : tryParsePartial (gen (optimize c20iG)) uni k' 4 i = .ok i2 m2 v2) :
    tokens (gen c20iG) v1 = tokens (gen (optimize c20iG)) v2 ∧ i1 = i2 ∧ m1.stk = m2.stk :=
  C20_raw_eq_opt_tokens_partial_atomic c20iG uni (by decide) c20iG_skipAtomic "doc" 3 (by decide) i k k'
    i1 i2 m1 m2 v1 v2 h1 h2

example (uni : Uni) (i : Inp) (k k' : Nat) (i1 i2 : Inp) (m1 m2 : M) (v1 v2 : Val)
    (h1 : tryParse (gen c20iG) uni k 4 i = .ok i1 m1 v1)
    (h2 : tryParse (gen (optimize c20iG)) uni k' 4 i = .ok i2 m2 v2) :
    tokens (gen c20iG) v1 = tokens (gen (optimize c20iG)) v2 :=
  C20_raw_eq_opt_tokens_full_partial c20iG uni (by decide) c20iG_skipAtomic.like
    (SkipRulesAtomicLike.of_undefined _ (by decide) (by decide)) "doc" 3 (by decide) i k k' i1 i2 m1 m2 v1 v2 h1 h2

example (uni : Uni) (i : Inp) (o : SR) (ho : o ≠ .oof) :
    (∃ k, (tryParsePartial (gen c20iG) uni k 4 i).outcome = o) ↔
      (∃ k, (tryParsePartial (gen (optimize c20iG)) uni k 4 i).outcome = o) :=
  C20_raw_eq_opt_typed_partial' c20iG uni (by decide) c20iG_skipAtomic.like
    (SkipRulesAtomicLike.of_undefined _ (by decide) (by decide)) "doc" 3 (by decide) i o ho

/-- The hypotheses of the typed statement are satisfiable: both generated parsers do succeed on `abx,y`
(by C01, from the runs of the reference semantics above). -/
example : (∃ k i1 m1 v1, tryParsePartial (gen c20iG) (fun _ _ => false) k 4 c20iInp = .ok i1 m1 v1) ∧
    (∃ k i2 m2 v2, tryParsePartial (gen (optimize c20iG)) (fun _ _ => false) k 4 c20iInp = .ok i2 m2 v2) := by
  constructor
  · obtain ⟨k, hk⟩ := (C01_iff_entry c20iG (fun _ _ => false) c20iG_skipAtomic.like "doc" 3 (by decide) c20iInp
      (.ok ⟨0, 5, [], []⟩ []) nofun).mpr ⟨16, by decide⟩
    cases h : tryParsePartial (gen c20iG) (fun _ _ => false) k 4 c20iInp with
    | oof => rw [h] at hk; cases hk
    | fail m => rw [h] at hk; cases hk
    | ok i1 m1 v1 => exact ⟨k, i1, m1, v1, h⟩
  · obtain ⟨k, hk⟩ := (C01_iff_entry (optimize c20iG) (fun _ _ => false)
      (SkipRulesAtomicLike.of_undefined _ (by decide) (by decide)) "doc" 3 (by decide) c20iInp
      (.ok ⟨0, 5, [], []⟩ []) nofun).mpr ⟨16, by decide⟩
    cases h : tryParsePartial (gen (optimize c20iG)) (fun _ _ => false) k 4 c20iInp with
    | oof => rw [h] at hk; cases hk
    | fail m => rw [h] at hk; cases hk
    | ok i2 m2 v2 => exact ⟨k, i2, m2, v2, h⟩

end PestTyped
