/-
Props.C17 — Choice, sequence and leaf accessors reflect what was actually matched.

Property (fixed text): for a parsed choice exactly one of the accessors `_0.._n-1` returns `Some` and
it is the first alternative (in grammar order) that matches at that position; the `if_then /
else_if / else_then` chain and `match_choices!` run exactly the closure for that alternative.  For a
parsed sequence `get_matched / into_matched / as_ref` return the elements in grammar order
(`get_all` pairs each with the text skipped before it), for a parsed repetition `iter_matched /
into_iter_matched` yield the iterations in input order while `iter_all` also carries the skipped
text.  Leaf nodes expose the text they consumed.

The accessors are the executable functions of `Model/Access.lean`; arity is a list length (every
arity at once).  All theorems are for every grammar, Unicode table, fuel, `inh`, node list, cursor
(`Inp` = &str / Position / Span forms) and state.

"Matches at that position": every alternative is run at the same cursor `i` and with the same stack
`m.stk` (`restore_on_none`); only the tracker is threaded from one alternative to the next, and it
is write-only for the verdict.  The theorems state the threaded states explicitly (`FailChain`, or
the state sequence `ms` of `C17_first_match_states`).

Theorems
* `C17_first_match`, `C17_first_match_states`, `C17_no_match`, `C17_choice_value`,
  `C17_choice_first`, `C17_choice_index_lt`, `C17_choice_earlier_failed` — first-match-wins.
* `C17_position_well_defined`, `C17_first_match_position`, `C17_first_match_least` — the verdict of a
  node does not depend on the tracker, so "matches at that position" is a property of cursor and
  stack; the variant index is the least index of an alternative matching at the choice's own position.
* `C17_accessor`, `C17_accessor_exactly_one`, `C17_accessor_parsed` — `_k()`.
* `C17_chain`, `C17_chain_log`, `C17_chain_eq_log`, `C17_match_choices`, `C17_chain_parsed` — helper chain.
* `C17_seq`, `C17_seq_matched`, `C17_seq_elem`, `C17_seq_order` — sequences.
* `C17_rep`, `C17_rep_iter`, `C17_rep_order` — repetitions.
* `C17_leaf_range / any / charBy / insens / newline / skipUntil / skipChars / peek / peekAll /
  popAll / pop` — leaves.
-/
import PestTyped.Lemmas.Choice
import PestTyped.Model.Gen
namespace PestTyped

/-! ### first match wins -/

/-- `choiceLoop` returns `(k, v)` exactly when the alternatives before number `k` all FAIL (at the
same cursor, each from the stack `m.stk` and the tracker left by its predecessor) and alternative
`k`, run from the state they leave, succeeds with `v`. -/
theorem C17_first_match {α} (f : Node → Inp → M → R α) (alts : List Node) (i : Inp) (m : M)
    (i' : Inp) (m' : M) (k : Nat) (v : α) :
    choiceLoop f alts 0 i m = .ok i' m' (k, v) ↔
      ∃ pre n post mk, alts = pre ++ n :: post ∧ pre.length = k ∧
        FailChain f i pre m mk ∧ f n i mk = .ok i' m' v := by
  rw [choiceLoop_ok_iff]
  constructor
  · rintro ⟨pre, n, post, mk, h1, h2, h3, h4⟩
    exact ⟨pre, n, post, mk, h1, by omega, h3, h4⟩
  · rintro ⟨pre, n, post, mk, h1, h2, h3, h4⟩
    exact ⟨pre, n, post, mk, h1, by omega, h3, h4⟩

/-- The same with the threaded states spelled out: `ms 0 = m`; for every `j < k` alternative `j`
fails from `ms j` leaving `mf`, and `ms (j+1)` is `mf` with the stack of `ms j` put back;
alternative `k` succeeds from `ms k`. -/
theorem C17_first_match_states {α} (f : Node → Inp → M → R α) (alts : List Node) (i : Inp) (m : M)
    (i' : Inp) (m' : M) (k : Nat) (v : α) :
    choiceLoop f alts 0 i m = .ok i' m' (k, v) ↔
      ∃ ms : Nat → M, ms 0 = m ∧
        (∀ (j : Nat), j < k → ∃ n mf, alts[j]? = some n ∧ f n i (ms j) = .fail mf ∧
            ms (j+1) = { mf with stk := (ms j).stk }) ∧
        ∃ n, alts[k]? = some n ∧ f n i (ms k) = .ok i' m' v := by
  rw [C17_first_match]
  constructor
  · rintro ⟨pre, n, post, mk, h1, h2, h3, h4⟩
    obtain ⟨ms, h0, hk, hall⟩ := (FailChain_iff_states f i pre m mk).mp h3
    subst h1 h2
    refine ⟨ms, h0, ?_, n, by simp, by rw [hk]; exact h4⟩
    intro j hj
    have hj' : pre[j]? = some pre[j] := List.getElem?_eq_getElem hj
    obtain ⟨mf, a, b⟩ := hall j _ hj'
    exact ⟨pre[j], mf, by simp [List.getElem?_append_left hj], a, b⟩
  · rintro ⟨ms, h0, hall, n, hn, hok⟩
    obtain ⟨hlt, hget⟩ := List.getElem?_eq_some_iff.mp hn
    refine ⟨alts.take k, n, alts.drop (k+1), ms k, ?_, by simp; omega, ?_, hok⟩
    · rw [← hget, ← List.drop_eq_getElem_cons hlt, List.take_append_drop]
    · refine (FailChain_iff_states f i _ m (ms k)).mpr ⟨ms, h0, ?_, ?_⟩
      · have : (alts.take k).length = k := by simp; omega
        rw [this]
      · intro j n' hj
        rw [List.getElem?_take] at hj
        split at hj
        · next hjk =>
          obtain ⟨n'', mf, a, b, c⟩ := hall j hjk
          rw [a] at hj; injection hj with hj; subst hj
          exact ⟨mf, b, c⟩
        · cases hj

/-- The choice fails exactly when every alternative fails. -/
theorem C17_no_match {α} (f : Node → Inp → M → R α) (alts : List Node) (i : Inp) (m m' : M) :
    choiceLoop f alts 0 i m = .fail m' ↔ FailChain f i alts m m' :=
  choiceLoop_fail_iff f alts 0 i m m'

/-- The value of a parsed `ChoiceN`: variant `_k` of arity `alts.length` around the alternative's value. -/
theorem C17_choice_value (g : NodeGrammar) (uni : Uni) (fuel : Nat) (inh : Bool) (alts : List Node)
    (i : Inp) (m : M) (i' : Inp) (m' : M) (w : Val) :
    parse g uni (fuel+1) inh (.choice alts) i m = .ok i' m' w ↔
      ∃ k v, choiceLoop (parse g uni fuel inh) alts 0 i m = .ok i' m' (k, v) ∧
        w = .mk (.choice alts.length k) [v] := by
  simp only [parse]
  constructor
  · intro h
    split at h
    · cases h
    · cases h
    · next i1 m1 k v h1 =>
      injection h with a b c; subst a b c
      exact ⟨k, v, h1, rfl⟩
  · rintro ⟨k, v, h1, rfl⟩
    rw [h1]

/-- First-match-wins for `parse (.choice alts)`: the result is `_k(v)` where `k` is the number of the
first alternative that succeeds, all earlier ones having failed at this cursor and stack. -/
theorem C17_choice_first (g : NodeGrammar) (uni : Uni) (fuel : Nat) (inh : Bool) (alts : List Node)
    (i : Inp) (m : M) (i' : Inp) (m' : M) (w : Val) :
    parse g uni (fuel+1) inh (.choice alts) i m = .ok i' m' w ↔
      ∃ pre n post mk v, alts = pre ++ n :: post ∧
        FailChain (parse g uni fuel inh) i pre m mk ∧ parse g uni fuel inh n i mk = .ok i' m' v ∧
        w = .mk (.choice alts.length pre.length) [v] := by
  rw [C17_choice_value]
  constructor
  · rintro ⟨k, v, h1, rfl⟩
    obtain ⟨pre, n, post, mk, a, b, c, d⟩ := (C17_first_match _ _ _ _ _ _ _ _).mp h1
    subst b
    exact ⟨pre, n, post, mk, v, a, c, d, rfl⟩
  · rintro ⟨pre, n, post, mk, v, a, c, d, rfl⟩
    exact ⟨pre.length, v, (C17_first_match _ _ _ _ _ _ _ _).mpr ⟨pre, n, post, mk, a, rfl, c, d⟩, rfl⟩

/-- Tracker-insensitive corollary: the index is in range. -/
theorem C17_choice_index_lt {α} (f : Node → Inp → M → R α) (alts : List Node) (i : Inp) (m : M)
    (i' : Inp) (m' : M) (k : Nat) (v : α) (h : choiceLoop f alts 0 i m = .ok i' m' (k, v)) :
    k < alts.length := by
  obtain ⟨pre, n, post, mk, a, b, _, _⟩ := (C17_first_match _ _ _ _ _ _ _ _).mp h
  subst a b; simp

/-- Tracker-insensitive corollary: `k` is least — every alternative before `k` FAILED at the cursor
`i` from a state with the stack `m.stk`; alternative `k` succeeded at `i` with the stack `m.stk`. -/
theorem C17_choice_earlier_failed {α} (f : Node → Inp → M → R α) (alts : List Node) (i : Inp) (m : M)
    (i' : Inp) (m' : M) (k : Nat) (v : α) (h : choiceLoop f alts 0 i m = .ok i' m' (k, v)) :
    (∀ (j : Nat) (n : Node), j < k → alts[j]? = some n →
        ∃ mj mf, mj.stk = m.stk ∧ f n i mj = .fail mf) ∧
    ∃ n mk, alts[k]? = some n ∧ mk.stk = m.stk ∧ f n i mk = .ok i' m' v := by
  obtain ⟨pre, n, post, mk, a, b, c, d⟩ := (C17_first_match _ _ _ _ _ _ _ _).mp h
  subst a b
  refine ⟨?_, n, mk, by simp, c.stk_eq, d⟩
  intro j nj hj hn
  rw [List.getElem?_append_left hj] at hn
  exact c.each j nj hn

/-- "Matches at that position" is well defined: verdict, cursor, stack and value of any node do
not depend on the tracker, only on the cursor and the stack. -/
theorem C17_position_well_defined (g : NodeGrammar) (uni : Uni) (fuel : Nat) (inh : Bool) (node : Node)
    (i : Inp) (m1 m2 : M) (h : m1.stk = m2.stk) :
    (parse g uni fuel inh node i m1).noTrk = (parse g uni fuel inh node i m2).noTrk :=
  parse_noTrk g uni fuel inh node i m1 m2 h

/-- First match wins, at ONE state: a choice returns variant `_k(v)` ending at `i'` iff alternative
`k`, run at the position `(i, m)` where the choice itself started, succeeds with `v` ending at `i'`,
and every alternative before it, run at that same position, fails.  So `k` is the LEAST index of an
alternative that matches at that position. -/
theorem C17_first_match_position (g : NodeGrammar) (uni : Uni) (fuel : Nat) (inh : Bool) (alts : List Node)
    (i : Inp) (m : M) (i' : Inp) (k : Nat) (v : Val) :
    (∃ m', parse g uni (fuel+1) inh (.choice alts) i m = .ok i' m' (.mk (.choice alts.length k) [v])) ↔
      (∃ n m'', alts[k]? = some n ∧ parse g uni fuel inh n i m = .ok i' m'' v) ∧
      (∀ (j : Nat) (nj : Node), j < k → alts[j]? = some nj →
        ∃ mf, parse g uni fuel inh nj i m = .fail mf) := by
  rw [← choiceLoop_position (parse g uni fuel inh) (parse_noTrk g uni fuel inh) alts i m i' k v]
  constructor
  · rintro ⟨m', h⟩
    obtain ⟨k', v', h1, h2⟩ := (C17_choice_value _ _ _ _ _ _ _ _ _ _).mp h
    injection h2 with h2 h3
    injection h2 with _ h2
    injection h3 with h3
    subst h2 h3
    exact ⟨m', h1⟩
  · rintro ⟨m', h⟩
    exact ⟨m', (C17_choice_value _ _ _ _ _ _ _ _ _ _).mpr ⟨k, v, h, rfl⟩⟩

/-- … and a parsed choice is always of that form: uniqueness of the index. -/
theorem C17_first_match_least (g : NodeGrammar) (uni : Uni) (fuel : Nat) (inh : Bool) (alts : List Node)
    (i : Inp) (m : M) (i' : Inp) (m' : M) (w : Val)
    (h : parse g uni (fuel+1) inh (.choice alts) i m = .ok i' m' w) :
    ∃ k v n m'', w = .mk (.choice alts.length k) [v] ∧ alts[k]? = some n ∧
      parse g uni fuel inh n i m = .ok i' m'' v ∧ m''.stk = m'.stk ∧
      (∀ (j : Nat) (nj : Node), j < k → alts[j]? = some nj →
        ∃ mf, parse g uni fuel inh nj i m = .fail mf) ∧
      (∀ j, (w.choiceAcc j).isSome = true ↔ j = k) := by
  obtain ⟨k, v, h1, rfl⟩ := (C17_choice_value _ _ _ _ _ _ _ _ _ _).mp h
  obtain ⟨⟨n, m'', hn, hok⟩, hall⟩ :=
    (choiceLoop_position (parse g uni fuel inh) (parse_noTrk g uni fuel inh) alts i m i' k v).mp ⟨m', h1⟩
  obtain ⟨_, ⟨n', mk, hn', hs, hok'⟩⟩ := C17_choice_earlier_failed _ _ _ _ _ _ _ _ h1
  rw [hn] at hn'; injection hn' with hn'; subst hn'
  obtain ⟨m2', h2, he⟩ := (parse_noTrk g uni fuel inh n).ok_of_ok (m2 := m) hs hok'
  rw [hok] at h2; injection h2 with _ h2 _; subst h2
  refine ⟨k, v, n, m'', rfl, hn, hok, he.symm, hall, ?_⟩
  intro j
  simp only [Val.choiceAcc]
  constructor
  · intro hj
    split at hj
    · next e => exact e.symm
    · cases hj
  · rintro rfl; simp

/-! ### the accessors `_k()` -/

theorem C17_accessor (n idx k : Nat) (v v' : Val) :
    (Val.mk (.choice n idx) [v]).choiceAcc k = some v' ↔ k = idx ∧ v' = v := by
  simp only [Val.choiceAcc]
  constructor
  · intro h
    split at h
    · next he => injection h with h; exact ⟨he.symm, h.symm⟩
    · cases h
  · rintro ⟨rfl, rfl⟩; simp

/-- Among the accessors `_0 … _{n-1}` exactly one returns `Some`: number `idx`, with the matched value. -/
theorem C17_accessor_exactly_one (n idx : Nat) (v : Val) (h : idx < n) :
    (List.range n).filterMap (fun k => (Val.mk (.choice n idx) [v]).choiceAcc k) = [v] ∧
    (Val.mk (.choice n idx) [v]).choiceAcc idx = some v ∧
    ∀ k, k ≠ idx → (Val.mk (.choice n idx) [v]).choiceAcc k = none := by
  refine ⟨?_, by simp [Val.choiceAcc], ?_⟩
  · have := filterMap_range_ite idx v n
    simp only [h, if_true] at this
    simpa [Val.choiceAcc] using this
  · intro k hk
    simp only [Val.choiceAcc]
    rw [if_neg]; exact fun e => hk e.symm

/-- For a parsed choice: accessor `_j` returns `Some x` iff `j` is the number of the first
alternative that succeeded and `x` is the value that alternative returned. -/
theorem C17_accessor_parsed (g : NodeGrammar) (uni : Uni) (fuel : Nat) (inh : Bool) (alts : List Node)
    (i : Inp) (m : M) (i' : Inp) (m' : M) (w : Val)
    (h : parse g uni (fuel+1) inh (.choice alts) i m = .ok i' m' w) :
    ∃ pre n post mk v, alts = pre ++ n :: post ∧
      FailChain (parse g uni fuel inh) i pre m mk ∧ parse g uni fuel inh n i mk = .ok i' m' v ∧
      (∀ j x, w.choiceAcc j = some x ↔ j = pre.length ∧ x = v) ∧
      (List.range alts.length).filterMap (fun j => w.choiceAcc j) = [v] := by
  obtain ⟨pre, n, post, mk, v, a, c, d, rfl⟩ := (C17_choice_first _ _ _ _ _ _ _ _ _ _).mp h
  refine ⟨pre, n, post, mk, v, a, c, d, fun j x => C17_accessor _ _ _ _ _, ?_⟩
  exact (C17_accessor_exactly_one _ _ _ (by rw [a]; simp)).1

/-! ### the helper chain and `match_choices!` -/

/-- `if_then(f0).else_if(f1)….else_then(f_{n-1})` returns what closure number `idx` returns. -/
theorem C17_chain {ρ : Type} (fs : List (Val → ρ)) (idx : Nat) (v : Val) (h : idx < fs.length) :
    chain fs (.mk (.choice fs.length idx) [v]) = some (fs[idx] v) := by
  simp only [chain, if_true]
  exact chainGo_branch fs 0 idx v fs[idx] (Nat.zero_le _) (by simp [List.getElem?_eq_getElem h])

/-- … and exactly that closure is applied, exactly once, to the matched value: the log of closure
applications is `[(idx, v)]`. -/
theorem C17_chain_log {ρ : Type} (fs : List (Val → ρ)) (idx : Nat) (v : Val) (h : idx < fs.length) :
    chainLog fs (.mk (.choice fs.length idx) [v]) = some (fs[idx] v, [(idx, v)]) := by
  simp only [chainLog, if_true]
  have := chainGoL_branch fs 0 idx v fs[idx] [] (Nat.zero_le _) (by simp [List.getElem?_eq_getElem h])
  simpa using this

/-- The instrumented chain computes the same result as the plain one (for every value). -/
theorem C17_chain_eq_log {ρ : Type} (fs : List (Val → ρ)) (w : Val) :
    chain fs w = (chainLog fs w).map Prod.fst := by
  have hgo : ∀ (fs : List (Val → ρ)) (level : Nat) (h : Helper ρ) (log : List (Nat × Val)),
      chainGo level fs h = (chainGoL level fs (h, log)).map Prod.fst := by
    intro fs
    induction fs with
    | nil => intro level h log; rfl
    | cons f fs ih =>
      intro level h log
      cases fs with
      | nil =>
        cases h with
        | branch idx v => simp only [chainGo, chainGoL, Helper.elseThen, Helper.elseThenL]; split <;> rfl
        | res r => rfl
      | cons f' fs' =>
        cases h with
        | branch idx v =>
          simp only [chainGo, chainGoL, Helper.elseIf, Helper.elseIfL]
          split
          · exact ih _ _ _
          · exact ih _ _ _
        | res r => simp only [chainGo, chainGoL, Helper.elseIf, Helper.elseIfL]; exact ih _ _ _
  unfold chain chainLog
  split
  · split
    · exact hgo _ _ _ _
    · rfl
  · rfl

/-- `match_choices!` dispatches to the same closure. -/
theorem C17_match_choices {ρ : Type} (fs : List (Val → ρ)) (idx : Nat) (v : Val) (h : idx < fs.length) :
    matchChoices fs (.mk (.choice fs.length idx) [v]) = some (fs[idx] v) ∧
    matchChoices fs (.mk (.choice fs.length idx) [v]) = chain fs (.mk (.choice fs.length idx) [v]) := by
  have : matchChoices fs (.mk (.choice fs.length idx) [v]) = some (fs[idx] v) := by
    simp [matchChoices, List.getElem?_eq_getElem h]
  exact ⟨this, by rw [this, C17_chain fs idx v h]⟩

/-- On a parsed choice with one closure per alternative, the chain runs the closure of the first
alternative that succeeded, once, on the value that alternative returned. -/
theorem C17_chain_parsed {ρ : Type} (g : NodeGrammar) (uni : Uni) (fuel : Nat) (inh : Bool) (alts : List Node)
    (i : Inp) (m : M) (i' : Inp) (m' : M) (w : Val) (fs : List (Val → ρ)) (hfs : fs.length = alts.length)
    (h : parse g uni (fuel+1) inh (.choice alts) i m = .ok i' m' w) :
    ∃ pre n post mk v f, alts = pre ++ n :: post ∧
      FailChain (parse g uni fuel inh) i pre m mk ∧ parse g uni fuel inh n i mk = .ok i' m' v ∧
      fs[pre.length]? = some f ∧
      chainLog fs w = some (f v, [(pre.length, v)]) ∧ chain fs w = some (f v) ∧
      matchChoices fs w = some (f v) := by
  obtain ⟨pre, n, post, mk, v, a, c, d, rfl⟩ := (C17_choice_first _ _ _ _ _ _ _ _ _ _).mp h
  have hlt : pre.length < fs.length := by rw [hfs, a]; simp
  refine ⟨pre, n, post, mk, v, fs[pre.length], a, c, d, List.getElem?_eq_getElem hlt, ?_, ?_, ?_⟩
  · rw [← hfs]; exact C17_chain_log fs _ v hlt
  · rw [← hfs]; exact C17_chain fs _ v hlt
  · rw [← hfs]; exact (C17_match_choices fs _ v hlt).1

/-! ### sequences -/

/-- The skip function of a sequence / repetition: `SKIP` runs of the grammar's skip type. -/
abbrev skipFn (g : NodeGrammar) (uni : Uni) (fuel : Nat) (k : Nat) : Inp → M → R (List Val) :=
  fun i m => skipLoop (parse g uni fuel false g.skipped) k i m []

/-- A `SeqN` parse succeeds exactly when its elements run one after the other (`SeqRunAll`: the
first without skips, the others each after `skipCount sk inh` skip runs); the value lists the
`Skipped { skipped, matched }` of the elements in grammar order. -/
theorem C17_seq (g : NodeGrammar) (uni : Uni) (fuel : Nat) (inh : Bool) (sk : Flag) (items : List Node)
    (i : Inp) (m : M) (i' : Inp) (m' : M) (w : Val) :
    parse g uni (fuel+1) inh (.seq sk items) i m = .ok i' m' w ↔
      ∃ l, SeqRunAll (parse g uni fuel inh) (skipFn g uni fuel (skipCount sk inh))
          (List.replicate (skipCount sk inh) (defaultSkipVal g)) items i m l i' m' ∧
        w = .mk .seq (l.map Iter.val) := by
  simp only [parse]
  cases items with
  | nil =>
    simp only []
    constructor
    · intro h; injection h with a b c; subst a b c
      exact ⟨[], SeqRunAll.nil _ _, rfl⟩
    · rintro ⟨l, hr, rfl⟩; cases hr; rfl
  | cons n0 ns =>
    simp only []
    cases h0 : parse g uni fuel inh n0 i m with
    | oof =>
      constructor
      · intro h; cases h
      · rintro ⟨l, hr, _⟩; cases hr with | cons h1 _ => rw [h0] at h1; cases h1
    | fail mf =>
      constructor
      · intro h; cases h
      · rintro ⟨l, hr, _⟩; cases hr with | cons h1 _ => rw [h0] at h1; cases h1
    | ok i1 m1 v0 =>
      simp only []
      constructor
      · intro h
        split at h
        · cases h
        · cases h
        · next i2 m2 vs hl =>
          injection h with a b c; subst a b c
          obtain ⟨l, hr, ho⟩ := (seqLoop_ok_iff _ _ _ _ _ _ _ _ _).mp hl
          refine ⟨_ :: l, SeqRunAll.cons h0 hr, ?_⟩
          rw [ho]; simp [Iter.val]
      · rintro ⟨l, hr, rfl⟩
        cases hr with
        | cons h1 h2 =>
          rw [h0] at h1; injection h1 with a b c; subst a b c
          have := (seqLoop_ok_iff (parse g uni fuel inh) (skipFn g uni fuel (skipCount sk inh))
            ns i1 m1 [] i' m' _).mpr ⟨_, h2, rfl⟩
          rw [this]; simp [Iter.val]

/-- `get_matched / into_matched / as_ref` and `get_all / into_all` of a parsed sequence: one entry
per element of the sequence, in grammar order; each carries exactly `skipCount sk inh` skip values
(the first element's are `Skip::default()`). -/
theorem C17_seq_matched (g : NodeGrammar) (uni : Uni) (fuel : Nat) (inh : Bool) (sk : Flag) (items : List Node)
    (i : Inp) (m : M) (i' : Inp) (m' : M) (w : Val)
    (h : parse g uni (fuel+1) inh (.seq sk items) i m = .ok i' m' w) :
    ∃ l, SeqRunAll (parse g uni fuel inh) (skipFn g uni fuel (skipCount sk inh))
          (List.replicate (skipCount sk inh) (defaultSkipVal g)) items i m l i' m' ∧
      w.seqMatched = l.map Iter.matched ∧
      w.seqAll = l.map (fun it => (it.skips, it.matched)) ∧
      w.seqMatched.length = items.length ∧ w.seqAll.length = items.length ∧
      (∀ p, p ∈ w.seqAll → p.1.length = skipCount sk inh) ∧
      (∀ p, w.seqAll.head? = some p → p.1 = List.replicate (skipCount sk inh) (defaultSkipVal g)) := by
  obtain ⟨l, hr, rfl⟩ := (C17_seq _ _ _ _ _ _ _ _ _ _ _).mp h
  have hm : (Val.mk .seq (l.map Iter.val)).seqMatched = l.map Iter.matched := filterMap_matched_iters l
  have ha : (Val.mk .seq (l.map Iter.val)).seqAll = l.map (fun it => (it.skips, it.matched)) :=
    filterMap_pair_iters l
  refine ⟨l, hr, hm, ha, by rw [hm]; simp [hr.length], by rw [ha]; simp [hr.length], ?_, ?_⟩
  · intro p hp
    rw [ha] at hp
    obtain ⟨it, hit, rfl⟩ := List.mem_map.mp hp
    cases hr with
    | nil => cases hit
    | cons h1 h2 =>
      cases hit with
      | head => simp
      | tail _ hit => exact h2.skips_length it hit
  · intro p hp
    rw [ha] at hp
    cases hr with
    | nil => simp at hp
    | cons h1 h2 => simp at hp; subst hp; rfl

/-- Element `j` of `get_matched()` is the value returned by the run of element `j` of the
sequence, started where the skips after element `j-1` ended. -/
theorem C17_seq_elem (g : NodeGrammar) (uni : Uni) (fuel : Nat) (inh : Bool) (sk : Flag) (items : List Node)
    (i : Inp) (m : M) (i' : Inp) (m' : M) (w : Val)
    (h : parse g uni (fuel+1) inh (.seq sk items) i m = .ok i' m' w) :
    ∀ (j : Nat) (n : Node) (x : Val), items[j]? = some n → w.seqMatched[j]? = some x →
      ∃ ij mj ij' mj', i.Adv ij ∧ ij'.Adv i' ∧ parse g uni fuel inh n ij mj = .ok ij' mj' x := by
  obtain ⟨l, hr, hm, _⟩ := C17_seq_matched _ _ _ _ _ _ _ _ _ _ _ h
  intro j n x hn hx
  rw [hm, List.getElem?_map] at hx
  cases hl : l[j]? with
  | none => rw [hl] at hx; cases hx
  | some it =>
    rw [hl] at hx; simp at hx; subst hx
    obtain ⟨_, mj1, mj2, hrun, _⟩ := hr.getElem j n it hn hl
    have hord := (hr.order (parse_adv g uni fuel inh)
      (fun i m i' m' a hh => skipLoop_adv _ (parse_adv g uni fuel false g.skipped) _ _ _ _ _ _ _ hh)).2.1
      it (List.mem_of_getElem? hl)
    exact ⟨it.mid, mj1, it.stop, mj2, hord.1.trans hord.2.1, hord.2.2.2, hrun⟩

/-- The elements were matched one after the other in the input: element `a` before element `b`
in the list ends at or before the cursor where (the skips before) `b` start. -/
theorem C17_seq_order (g : NodeGrammar) (uni : Uni) (fuel : Nat) (inh : Bool) (sk : Flag) (items : List Node)
    (i : Inp) (m : M) (i' : Inp) (m' : M) (l : List Iter)
    (h : SeqRunAll (parse g uni fuel inh) (skipFn g uni fuel (skipCount sk inh))
          (List.replicate (skipCount sk inh) (defaultSkipVal g)) items i m l i' m') :
    l.Pairwise (fun a b => a.stop.pos ≤ b.start.pos) ∧
    ∀ it, it ∈ l → i.pos ≤ it.start.pos ∧ it.start.pos ≤ it.mid.pos ∧ it.mid.pos ≤ it.stop.pos ∧
      it.stop.pos ≤ i'.pos := by
  obtain ⟨_, hall, hp⟩ := h.order (parse_adv g uni fuel inh)
    (fun i m i' m' a hh => skipLoop_adv _ (parse_adv g uni fuel false g.skipped) _ _ _ _ _ _ _ hh)
  refine ⟨hp.imp (fun h => h.pos_le), ?_⟩
  intro it hit
  obtain ⟨a, b, c, d⟩ := hall it hit
  exact ⟨a.pos_le, b.pos_le, c.pos_le, d.pos_le⟩

/-! ### repetitions -/

/-- A successful repetition is a run of successful iterations `0, 1, …` in input order
(`RepRun`); `iter_matched` lists their values, `iter_all` pairs each with its skip values:
`skipCount sk inh` of them, `Skip::default()` for iteration 0 (no skip runs before it); the
number of iterations respects the bounds. -/
theorem C17_rep (g : NodeGrammar) (uni : Uni) (fuel : Nat) (inh : Bool) (sk : Flag) (min : Nat)
    (max : Option Nat) (n : Node) (i : Inp) (m : M) (i' : Inp) (m' : M) (w : Val)
    (h : parse g uni (fuel+1) inh (.rep sk min max n) i m = .ok i' m' w) :
    ∃ l mL, RepRun (skipFn g uni fuel (skipCount sk inh)) (parse g uni fuel inh n)
          (List.replicate (skipCount sk inh) (defaultSkipVal g)) 0 i m l i' mL ∧
      m'.stk = mL.stk ∧
      w = .mk (.rep min max) (l.map Iter.val) ∧
      w.repMatched = l.map Iter.matched ∧
      w.repAll = l.map (fun it => (it.skips, it.matched)) ∧
      min ≤ l.length ∧ (∀ mx, max = some mx → l.length ≤ mx) ∧
      (∀ p, p ∈ w.repAll → p.1.length = skipCount sk inh) ∧
      (∀ p, w.repAll.head? = some p → p.1 = List.replicate (skipCount sk inh) (defaultSkipVal g)) := by
  simp only [parse] at h
  split at h
  · cases h
  · cases h
  · next i1 m1 vs hl =>
    injection h with a b c; subst a b c
    obtain ⟨l, mL, hr, ho, hmin, hmx, hstop⟩ := repLoop_unitP_ok _ _ _ _ _ _ _ 0 _ _ [] _ _ _ rfl hl
    simp only [List.reverse_nil, List.nil_append] at ho
    subst ho
    have hm : (Val.mk (.rep min max) (l.map Iter.val)).repMatched = l.map Iter.matched :=
      filterMap_matched_iters l
    have ha : (Val.mk (.rep min max) (l.map Iter.val)).repAll = l.map (fun it => (it.skips, it.matched)) :=
      filterMap_pair_iters l
    refine ⟨l, mL, hr, ?_, rfl, hm, ha, by simpa using hmin, ?_, ?_, ?_⟩
    · rcases hstop with ⟨_, rfl⟩ | ⟨_, mf, _, rfl⟩ <;> rfl
    · intro mx hmax; simpa using hmx mx hmax (Nat.zero_le _)
    · intro p hp
      rw [ha] at hp
      obtain ⟨it, hit, rfl⟩ := List.mem_map.mp hp
      exact hr.skips_length it hit
    · intro p hp
      rw [ha] at hp
      cases hr with
      | nil => simp at hp
      | first _ _ => simp at hp; subst hp; rfl
      | next h0 _ _ _ => exact absurd rfl h0

/-- Iteration `j` of `iter_matched()` is the value the element returned in the `j`-th iteration;
iteration 0 ran no skip, every later one ran the skips first. -/
theorem C17_rep_iter (g : NodeGrammar) (uni : Uni) (fuel : Nat) (inh : Bool) (sk : Flag)
    (n : Node) (i : Inp) (m : M) (i' : Inp) (mL : M) (l : List Iter)
    (h : RepRun (skipFn g uni fuel (skipCount sk inh)) (parse g uni fuel inh n)
          (List.replicate (skipCount sk inh) (defaultSkipVal g)) 0 i m l i' mL) :
    ∀ (j : Nat) (it : Iter), l[j]? = some it →
      ∃ mj mj1 mj2, parse g uni fuel inh n it.mid mj1 = .ok it.stop mj2 it.matched ∧
        ((j = 0 ∧ it.skips = List.replicate (skipCount sk inh) (defaultSkipVal g) ∧ it.mid = it.start) ∨
         (j ≠ 0 ∧ skipFn g uni fuel (skipCount sk inh) it.start mj = .ok it.mid mj1 it.skips)) := by
  intro j it hl
  obtain ⟨mj, mj1, mj2, a, b⟩ := h.skips j it hl
  refine ⟨mj, mj1, mj2, a, ?_⟩
  rcases b with ⟨b1, b2, b3, _⟩ | ⟨b1, b2⟩
  · exact Or.inl ⟨by omega, b2, b3⟩
  · exact Or.inr ⟨by omega, b2⟩

/-- The iterations are listed in input order: an earlier iteration ends at or before the cursor
where a later one (its skips) starts; cursors never move backwards. -/
theorem C17_rep_order (g : NodeGrammar) (uni : Uni) (fuel : Nat) (inh : Bool) (sk : Flag)
    (n : Node) (i : Inp) (m : M) (i' : Inp) (mL : M) (l : List Iter) (idx : Nat)
    (h : RepRun (skipFn g uni fuel (skipCount sk inh)) (parse g uni fuel inh n)
          (List.replicate (skipCount sk inh) (defaultSkipVal g)) idx i m l i' mL) :
    l.Pairwise (fun a b => a.stop.pos ≤ b.start.pos) ∧
    ∀ it, it ∈ l → i.pos ≤ it.start.pos ∧ it.start.pos ≤ it.mid.pos ∧ it.mid.pos ≤ it.stop.pos ∧
      it.stop.pos ≤ i'.pos := by
  obtain ⟨_, hall, hp⟩ := h.order
    (fun i m i' m' a hh => skipLoop_adv _ (parse_adv g uni fuel false g.skipped) _ _ _ _ _ _ _ hh)
    (parse_adv g uni fuel inh n)
  refine ⟨hp.imp (fun h => h.pos_le), ?_⟩
  intro it hit
  obtain ⟨a, b, c, d⟩ := hall it hit
  exact ⟨a.pos_le, b.pos_le, c.pos_le, d.pos_le⟩

/-! ### leaves -/

/-- `CharRange::content` is the character consumed, and it is in the range. -/
theorem C17_leaf_range (g : NodeGrammar) (uni : Uni) (fuel : Nat) (inh : Bool) (lo hi : Char)
    (i : Inp) (m : M) (i' : Inp) (m' : M) (w : Val)
    (h : parse g uni fuel inh (.range lo hi) i m = .ok i' m' w) :
    ∃ c, w.leafChar? = some c ∧ i.rest = c :: i'.rest ∧ lo ≤ c ∧ c ≤ hi ∧ m' = m := by
  cases fuel with
  | zero => cases h
  | succ fuel =>
    simp only [parse] at h
    split at h
    · next i1 c h1 =>
      injection h with a b d; subst a b d
      obtain ⟨hr, hp⟩ := Inp.matchCharBy_spec h1
      exact ⟨c, rfl, hr, (by simpa using hp : lo ≤ c ∧ c ≤ hi).1, (by simpa using hp : lo ≤ c ∧ c ≤ hi).2, rfl⟩
    · cases h

/-- `ANY::content` is the character consumed. -/
theorem C17_leaf_any (g : NodeGrammar) (uni : Uni) (fuel : Nat) (inh : Bool)
    (i : Inp) (m : M) (i' : Inp) (m' : M) (w : Val)
    (h : parse g uni fuel inh .any i m = .ok i' m' w) :
    ∃ c, w.leafChar? = some c ∧ i.rest = c :: i'.rest ∧ m' = m := by
  cases fuel with
  | zero => cases h
  | succ fuel =>
    simp only [parse] at h
    split at h
    · next i1 c h1 =>
      injection h with a b d; subst a b d
      exact ⟨c, rfl, (Inp.matchCharBy_spec h1).1, rfl⟩
    · cases h

/-- The content of a Unicode-property node is the character consumed, and it has the property. -/
theorem C17_leaf_charBy (g : NodeGrammar) (uni : Uni) (fuel : Nat) (inh : Bool) (p : String)
    (i : Inp) (m : M) (i' : Inp) (m' : M) (w : Val)
    (h : parse g uni fuel inh (.charBy p) i m = .ok i' m' w) :
    ∃ c, w.leafChar? = some c ∧ i.rest = c :: i'.rest ∧ uni p c = true ∧ m' = m := by
  cases fuel with
  | zero => cases h
  | succ fuel =>
    simp only [parse] at h
    split at h
    · next i1 c h1 =>
      injection h with a b d; subst a b d
      obtain ⟨hr, hp⟩ := Inp.matchCharBy_spec h1
      exact ⟨c, rfl, hr, hp, rfl⟩
    · cases h

/-- `Insens::content` is the slice consumed (the actual spelling); it equals the pattern up to
ASCII case and has its byte length. -/
theorem C17_leaf_insens (g : NodeGrammar) (uni : Uni) (fuel : Nat) (inh : Bool) (s : List Char)
    (i : Inp) (m : M) (i' : Inp) (m' : M) (w : Val)
    (h : parse g uni fuel inh (.insens s) i m = .ok i' m' w) :
    ∃ content, w.insensContent? = some content ∧ content ++ i'.rest = i.rest ∧
      content.map asciiLower = s.map asciiLower ∧ blen content = blen s ∧ m' = m := by
  cases fuel with
  | zero => cases h
  | succ fuel =>
    simp only [parse] at h
    split at h
    · next i1 h1 =>
      injection h with a b d; subst a b d
      obtain ⟨x, y, z⟩ := Inp.matchInsens_spec h1
      exact ⟨_, rfl, x, y, z, rfl⟩
    · cases h

/-- `NEWLINE`'s kind tells which of `"\r\n"`, `"\n"`, `"\r"` was consumed (`"\r\n"` is preferred to `"\r"`). -/
theorem C17_leaf_newline (g : NodeGrammar) (uni : Uni) (fuel : Nat) (inh : Bool)
    (i : Inp) (m : M) (i' : Inp) (m' : M) (w : Val)
    (h : parse g uni fuel inh .newline i m = .ok i' m' w) :
    ∃ k, w.newlineKind? = some k ∧ (k = 0 ∨ k = 1 ∨ k = 2) ∧ i.rest = newlineText k ++ i'.rest ∧
      (k = 2 → ∀ t, i.rest ≠ '\r' :: '\n' :: t) ∧ m' = m := by
  cases fuel with
  | zero => cases h
  | succ fuel =>
    simp only [parse] at h
    split at h
    · next i1 k h1 =>
      injection h with a b d; subst a b d
      obtain ⟨x, y, z⟩ := newlineMatch_spec h1
      refine ⟨k, rfl, x, y, ?_, rfl⟩
      intro hk t ht
      have := z hk
      simp [Inp.matchString, ht] at this
    · cases h

/-- What a span-carrying leaf stores when its span is the consumed range. -/
def ConsumedSpan (i i' : Inp) (w : Val) : Prop :=
  w.spanOf? = some (i.spanTo i') ∧ (i.spanTo i').txt ++ i'.rest = i.rest ∧
    (i.spanTo i').s = i.pos ∧ (i.spanTo i').e = i'.pos ∧ i'.pos = i.pos + blen (i.spanTo i').txt

theorem ConsumedSpan.of_adv {i i' : Inp} {w : Val} (h : i.Adv i') (hw : w.spanOf? = some (i.spanTo i')) :
    ConsumedSpan i i' w :=
  ⟨hw, h.spanTo_spec.1, h.spanTo_spec.2.1, h.spanTo_spec.2.2.1, h.spanTo_spec.2.2.2⟩

theorem C17_leaf_skipUntil (g : NodeGrammar) (uni : Uni) (fuel : Nat) (inh : Bool) (needles : List (List Char))
    (i : Inp) (m : M) (i' : Inp) (m' : M) (w : Val)
    (h : parse g uni fuel inh (.skipUntil needles) i m = .ok i' m' w) : ConsumedSpan i i' w := by
  cases fuel with
  | zero => cases h
  | succ fuel =>
    simp only [parse] at h
    injection h with a b d; subst a b d
    exact ConsumedSpan.of_adv (Inp.skipUntil_adv _ _) rfl

theorem C17_leaf_skipChars (g : NodeGrammar) (uni : Uni) (fuel : Nat) (inh : Bool) (k : Nat)
    (i : Inp) (m : M) (i' : Inp) (m' : M) (w : Val)
    (h : parse g uni fuel inh (.skipChars k) i m = .ok i' m' w) :
    ConsumedSpan i i' w ∧ (i.spanTo i').txt.length = k := by
  cases fuel with
  | zero => cases h
  | succ fuel =>
    simp only [parse] at h
    split at h
    · next i1 h1 =>
      injection h with a b d; subst a b d
      refine ⟨ConsumedSpan.of_adv (Inp.skipN_adv h1) rfl, ?_⟩
      unfold Inp.skipN at h1
      split at h1
      · next hk =>
        injection h1 with h1; subst h1
        simp [Inp.spanTo, Inp.adv]; omega
      · cases h1
    · cases h

/-- `PEEK::span` is the consumed range; its text is the text of the top of the stack. -/
theorem C17_leaf_peek (g : NodeGrammar) (uni : Uni) (fuel : Nat) (inh : Bool)
    (i : Inp) (m : M) (i' : Inp) (m' : M) (w : Val)
    (h : parse g uni fuel inh .peek i m = .ok i' m' w) :
    ConsumedSpan i i' w ∧ ∃ sp rest, m.stk = sp :: rest ∧ (i.spanTo i').txt = sp.txt ∧ m' = m := by
  cases fuel with
  | zero => cases h
  | succ fuel =>
    simp only [parse] at h
    split at h
    · cases h
    · next sp rest hs =>
      split at h
      · next i1 h1 =>
        injection h with a b d; subst a b d
        exact ⟨ConsumedSpan.of_adv (Inp.matchString_adv h1) rfl, sp, rest, hs, (Inp.matchString_spec h1).2, rfl⟩
      · cases h

/-- `PEEK_ALL::span` is the consumed range: the texts of the stack from top to bottom. -/
theorem C17_leaf_peekAll (g : NodeGrammar) (uni : Uni) (fuel : Nat) (inh : Bool)
    (i : Inp) (m : M) (i' : Inp) (m' : M) (w : Val)
    (h : parse g uni fuel inh .peekAll i m = .ok i' m' w) :
    ConsumedSpan i i' w ∧ i.rest = (m.stk.map Sp.txt).flatten ++ i'.rest ∧ m' = m := by
  cases fuel with
  | zero => cases h
  | succ fuel =>
    simp only [parse] at h
    split at h
    · next i1 h1 =>
      injection h with a b d; subst a b d
      exact ⟨ConsumedSpan.of_adv (peekSpans_adv _ _ _ h1) rfl, peekSpans_spec _ _ _ h1, rfl⟩
    · cases h

/-- `POP_ALL::span` is the consumed range. -/
theorem C17_leaf_popAll (g : NodeGrammar) (uni : Uni) (fuel : Nat) (inh : Bool)
    (i : Inp) (m : M) (i' : Inp) (m' : M) (w : Val)
    (h : parse g uni fuel inh .popAll i m = .ok i' m' w) :
    ConsumedSpan i i' w ∧ i.rest = (m.stk.map Sp.txt).flatten ++ i'.rest ∧ m'.stk = [] := by
  cases fuel with
  | zero => cases h
  | succ fuel =>
    simp only [parse] at h
    split at h
    · next i1 h1 =>
      injection h with a b d; subst a b d
      exact ⟨ConsumedSpan.of_adv (peekSpans_adv _ _ _ h1) rfl, peekSpans_spec _ _ _ h1, rfl⟩
    · cases h

/-- `POP::span` is the POPPED span (`Self::from(span)` with the span taken off the stack): its text
is the text consumed, its offsets are those of the place where it was pushed, not of the place
where `POP` matched. -/
theorem C17_leaf_pop (g : NodeGrammar) (uni : Uni) (fuel : Nat) (inh : Bool)
    (i : Inp) (m : M) (i' : Inp) (m' : M) (w : Val)
    (h : parse g uni fuel inh .pop i m = .ok i' m' w) :
    ∃ sp rest, m.stk = sp :: rest ∧ w.spanOf? = some sp ∧ i.rest = sp.txt ++ i'.rest ∧
      (i.spanTo i').txt = sp.txt ∧ m'.stk = rest := by
  cases fuel with
  | zero => cases h
  | succ fuel =>
    simp only [parse] at h
    split at h
    · cases h
    · next sp rest hs =>
      split at h
      · next i1 h1 =>
        injection h with a b d; subst a b d
        exact ⟨sp, rest, hs, rfl, (Inp.matchString_spec h1).1, (Inp.matchString_spec h1).2, rfl⟩
      · cases h

/-! ### non-vacuity: concrete runs on which the theorems' hypotheses hold and the accessors do real work -/

/-- `WHITESPACE = _{ " " }`, no `COMMENT`. -/
def c17Grammar : NodeGrammar :=
  { rules := [eoiDef,
      { name := "WHITESPACE", atom := .inherited, emit := .expression, boxed := true, body := .str [' '] }],
    skipped := .atomicRepeat (.ref 1 .zero) }

def c17In (s : List Char) : Inp := { start := 0, pos := 0, rest := s, after := [] }

def c17Run (node : Node) (s : List Char) : R Val :=
  parse c17Grammar (fun _ _ => false) 10 true node (c17In s) (M.init (c17In s))

/-- `"abc" | "ab" | "a"`: overlapping alternatives; on `"abd"` the second AND the third match. -/
def c17Choice : Node := .choice [.str ['a', 'b', 'c'], .str ['a', 'b'], .str ['a']]

-- first match wins: `_1` is `Some`, `_0` and `_2` are `None`, although alternative 2 matches too
example : ((c17Run c17Choice ['a', 'b', 'd']).val?.bind (Val.choiceAcc 1)).map Val.tag = some .str := by decide
example : ((c17Run c17Choice ['a', 'b', 'd']).val?.bind (Val.choiceAcc 0)).isNone = true := by decide
example : ((c17Run c17Choice ['a', 'b', 'd']).val?.bind (Val.choiceAcc 2)).isNone = true := by decide
example : (c17Run c17Choice ['a', 'b', 'd']).rest? = some ['d'] := by decide
example : (c17Run (.str ['a']) ['a', 'b', 'd']).rest? = some ['b', 'd'] := by decide
example : ((c17Run c17Choice ['a', 'b', 'd']).val?.map Val.tag) = some (.choice 3 1) := by decide
-- the chain runs closure 1, once
example : ((c17Run c17Choice ['a', 'b', 'd']).val?.bind
    (chainLog [fun _ => 10, fun _ => 11, fun _ => 12])).map (fun p => (p.1, p.2.map Prod.fst)) =
    some (11, [1]) := by decide
example : ((c17Run c17Choice ['a', 'b', 'd']).val?.bind (chain [fun _ => 10, fun _ => 11, fun _ => 12])) =
    some 11 := by decide
example : ((c17Run c17Choice ['a', 'b', 'd']).val?.bind (matchChoices [fun _ => 10, fun _ => 11, fun _ => 12])) =
    some 11 := by decide
example : (c17Run c17Choice ['b']).isFail = true := by decide

/-- `"a" ~ "b" ~ 'c'..'d'` in a non-atomic rule. -/
def c17Seq : Node := .seq .one [.str ['a'], .str ['b'], .range 'c' 'd']

example : ((c17Run c17Seq ['a', ' ', ' ', 'b', 'c', '!']).val?.map (fun w => w.seqMatched.map Val.tag)) =
    some [.str, .str, .charRange 'c'] := by decide
-- `get_all`: one skip value each; the first is the default (no iterations), the second skipped two blanks
example : ((c17Run c17Seq ['a', ' ', ' ', 'b', 'c', '!']).val?.map
    (fun w => w.seqAll.map (fun p => p.1.map (fun v => v.kids.length)))) = some [[0], [2], [0]] := by decide

/-- `('a'..'z')*` in a non-atomic rule. -/
def c17Rep : Node := .rep .one 0 none (.range 'a' 'z')

example : ((c17Run c17Rep ['x', ' ', 'y', ' ', ' ', 'z', '!']).val?.map (fun w => w.repMatched.map Val.leafChar?)) =
    some [some 'x', some 'y', some 'z'] := by decide
example : ((c17Run c17Rep ['x', ' ', 'y', ' ', ' ', 'z', '!']).val?.map
    (fun w => w.repAll.map (fun p => p.1.map (fun v => v.kids.length)))) = some [[0], [1], [2]] := by decide

-- leaves
example : ((c17Run (.insens ['a', 'B']) ['A', 'b', 'x']).val?.bind Val.insensContent?) = some ['A', 'b'] := by decide
example : ((c17Run .newline ['\r', '\n', 'x']).val?.bind Val.newlineKind?) = some 0 := by decide
example : ((c17Run .newline ['\n', 'x']).val?.bind Val.newlineKind?) = some 1 := by decide
example : ((c17Run .newline ['\r', 'x']).val?.bind Val.newlineKind?) = some 2 := by decide
example : ((c17Run .any ['é', 'x']).val?.bind Val.leafChar?) = some 'é' := by decide
example : ((c17Run (.skipUntil [['*', '/']]) ['a', 'b', '*', '/']).val?.bind Val.spanOf?) =
    some ⟨0, 2, ['a', 'b']⟩ := by decide
-- `POP` stores the popped span (offsets 0..2 of the push site), not the range 3..5 it consumed
example : ((c17Run (.seq .zero [.push (.str ['a', 'b']), .str ['-'], .pop]) ['a', 'b', '-', 'a', 'b']).val?.bind
    (fun w => w.seqMatched[2]?.bind Val.spanOf?)) = some ⟨0, 2, ['a', 'b']⟩ := by decide
example : ((c17Run (.seq .zero [.push (.str ['a', 'b']), .str ['-'], .peek]) ['a', 'b', '-', 'a', 'b']).val?.bind
    (fun w => w.seqMatched[2]?.bind Val.spanOf?)) = some ⟨3, 5, ['a', 'b']⟩ := by decide

end PestTyped
