/-
Props.C11 — Ill-formed grammars are rejected at generation time; sound ones terminate.

Property (fixed text): "The generator refuses (panics at macro expansion) every grammar that pest's
validator rejects for left recursion, for a repetition whose body cannot fail or cannot make
progress, for an unreachable alternative or for a non-progressing WHITESPACE/COMMENT; for every
grammar pest accepts it emits code that compiles.  For every accepted grammar that is well-founded
(no rule reaches itself and no repetition repeats without consuming input) every parse of every
input returns."

What is proved here (about the model of the runtime, `Model/Run.lean`, for ALL generated modules,
nodes, inputs, states, skip modes — no size bounds):

* `C11_nullable_sound`        a node the static analysis calls non-nullable strictly consumes
                              input whenever it succeeds.
* `C11_terminates_bound`      well-foundedness (`NulOK`, `NoLeftRecBy rank`, `Progressing`) gives a
                              definite answer (never "out of fuel") for every fuel above the explicit
                              bound `fuelBound G rank |rest| (depth node)`, linear in the input length.
* `C11_terminates`            the same in the planned form: `∃ n, ∀ n' ≥ n, parse … n' … ≠ .oof` for every
                              node occurring in the grammar (or any rule reference).
* `C11_terminates_check`, `C11_terminates_tryParse`, `C11_terminates_tryCheck`,
  `C11_terminates_tryParsePartial`, `C11_terminates_tryCheckPartial`   the other entry points.
* `C11_terminates_checked`    the decision procedure `wfCheck` is sound: `wfCheck G = true` implies
                              termination with the bound computed from the candidate rank (this is the
                              statement the correspondence tie runs: `Driver/WF.lean`).
* `C11_diverges_example`      `(("a")?)*` has no finite fuel on any input (the repetition loops of
                              `repetition.rs:184-200,334-350` have no progress guard): the
                              `Progressing` hypothesis is necessary.
* `C11_leftrec_example`       a left-recursive rule has no finite fuel: `NoLeftRec` is necessary.
* `C11_pred_leftrec_example`  `a = @{ !"x" ~ a }`, which pest's validator accepts, has no finite fuel on
                              inputs not starting with `x`: acceptance by pest does not imply
                              well-foundedness, even without stack operations.
* `C11_pipeline_no_output_without_validation`, `C11_pipeline_output`
                              the derive pipeline `parse ▸ validate ▸ optimize? ▸ generate`
                              (`generator/src/typed.rs:49-75`) modelled as a function: no module is
                              produced unless the validator accepted the grammar.  This part is
                              definitional in the model; it is tied to the code by the runner
                              `harness/gen_runner` (`checks/c11.py`: `derive_typed_parser` under
                              `catch_unwind` panics iff `pest_meta::parser::consume_rules` reports
                              errors), not by proof.

NOT proved (named limits):
* "emits code that compiles" is a fact about rustc: validated on the corpus by `checks/c11.py`.
* `C11_validator_sound_partial` (pest_meta's `is_non_failing` / `is_non_progressing` / left-recursion
  check imply `Progressing ∧ NoLeftRec` on the stack-free fragment) is not stated: pest_meta is
  external code; which accepted grammars satisfy the hypotheses is decided per grammar by `wfCheck`
  (proved sound) and compared with the python filter `corpus.analyse` on the corpus.  The full
  statement is false of pest (its source documents `PEEK_ALL*` on an empty stack as a blind spot),
  which is why the property restricts the second sentence to well-founded grammars.
* The analysis is conservative in one place: a sequence flagged `INHERITED` is assumed to run the
  implicit skip (so `WHITESPACE = { "a"? ~ "b" }` is reported as recursive through the skip although
  the generated reference disables it).  Bounded repetitions (`RepeatMinMax`, e.g. `e{,3}`) may have
  a nullable body: `Progressing` only constrains unbounded repetitions and `AtomicRepeat`.
-/
import PestTyped.Lemmas.Termination
import PestTyped.Model.Gen
namespace PestTyped

/-! ### termination -/

/-- A non-nullable node strictly consumes input when it succeeds. -/
theorem C11_nullable_sound (G : NodeGrammar) (uni : Uni) (nul : RuleId → Bool) (hN : NulOK G nul)
    (n : Nat) (inh : Bool) (node : Node) (hnul : nullable nul node = false)
    (i : Inp) (m : M) (i' : Inp) (m' : M) (v : Val)
    (h : parse G uni n inh node i m = .ok i' m' v) : i'.rest.length < i.rest.length :=
  nullable_sound G uni nul hN n inh node hnul i m i' m' v h

/-- Explicit bound: any fuel `≥ fuelBound G rank |rest| (depthN node)` gives a definite answer. -/
theorem C11_terminates_bound (G : NodeGrammar) (uni : Uni) (nul : RuleId → Bool) (rank : RuleId → Nat)
    (hN : NulOK G nul) (hR : NoLeftRecBy G nul rank) (hP : Progressing G nul)
    (inh : Bool) (node : Node) (hnode : OccursIn G node) (i : Inp) (m : M) (n : Nat)
    (hn : fuelBound G rank i.rest.length (depthN node) ≤ n) :
    parse G uni n inh node i m ≠ .oof :=
  parse_ne_oof G uni nul rank hN hR hP n inh node i m (repsOK_of_occurs hP hnode) hn

/-- Every parse returns: some fuel (and then every larger one) yields `.ok` or `.fail`. -/
theorem C11_terminates (G : NodeGrammar) (uni : Uni) (nul : RuleId → Bool)
    (hN : NulOK G nul) (hR : NoLeftRec G nul) (hP : Progressing G nul) :
    ∀ (inh : Bool) (node : Node) (i : Inp) (m : M), OccursIn G node →
      ∃ n, ∀ n', n ≤ n' → parse G uni n' inh node i m ≠ .oof := by
  intro inh node i m hnode
  obtain ⟨rank, hR⟩ := hR
  exact ⟨fuelBound G rank i.rest.length (depthN node), fun n' hn' =>
    C11_terminates_bound G uni nul rank hN hR hP inh node hnode i m n' hn'⟩

theorem C11_terminates_check (G : NodeGrammar) (uni : Uni) (nul : RuleId → Bool)
    (hN : NulOK G nul) (hR : NoLeftRec G nul) (hP : Progressing G nul) :
    ∀ (inh : Bool) (node : Node) (i : Inp) (m : M), OccursIn G node →
      ∃ n, ∀ n', n ≤ n' → check G uni n' inh node i m ≠ .oof := by
  intro inh node i m hnode
  obtain ⟨rank, hR⟩ := hR
  exact ⟨fuelBound G rank i.rest.length (depthN node), fun n' hn' =>
    check_ne_oof G uni nul rank hN hR hP n' inh node i m (repsOK_of_occurs hP hnode) hn'⟩

/-- `R::try_parse` (trailing skip and end-of-input test included), with the explicit bound. -/
theorem C11_terminates_tryParse (G : NodeGrammar) (uni : Uni) (nul : RuleId → Bool) (rank : RuleId → Nat)
    (hN : NulOK G nul) (hR : NoLeftRecBy G nul rank) (hP : Progressing G nul) (r : RuleId) (i : Inp) (n : Nat)
    (hn : entryFuel G rank i.rest.length ≤ n) : tryParse G uni n r i ≠ .oof :=
  tryParse_ne_oof G uni nul rank hN hR hP r i n hn

theorem C11_terminates_tryCheck (G : NodeGrammar) (uni : Uni) (nul : RuleId → Bool) (rank : RuleId → Nat)
    (hN : NulOK G nul) (hR : NoLeftRecBy G nul rank) (hP : Progressing G nul) (r : RuleId) (i : Inp) (n : Nat)
    (hn : entryFuel G rank i.rest.length ≤ n) : tryCheck G uni n r i ≠ .oof :=
  tryCheck_ne_oof G uni nul rank hN hR hP r i n hn

theorem C11_terminates_tryParsePartial (G : NodeGrammar) (uni : Uni) (nul : RuleId → Bool) (rank : RuleId → Nat)
    (hN : NulOK G nul) (hR : NoLeftRecBy G nul rank) (hP : Progressing G nul) (r : RuleId) (i : Inp) (n : Nat)
    (hn : entryFuel G rank i.rest.length ≤ n) : tryParsePartial G uni n r i ≠ .oof := by
  unfold tryParsePartial
  exact parse_ne_oof G uni nul rank hN hR hP n true (.ref r .one) i (M.init i) (by simp [repsOK])
    (Nat.le_trans (entryFuel_ref G rank _ r .one) hn)

theorem C11_terminates_tryCheckPartial (G : NodeGrammar) (uni : Uni) (nul : RuleId → Bool) (rank : RuleId → Nat)
    (hN : NulOK G nul) (hR : NoLeftRecBy G nul rank) (hP : Progressing G nul) (r : RuleId) (i : Inp) (n : Nat)
    (hn : entryFuel G rank i.rest.length ≤ n) : tryCheckPartial G uni n r i ≠ .oof := by
  unfold tryCheckPartial
  exact check_ne_oof G uni nul rank hN hR hP n true (.ref r .one) i (M.init i) (by simp [repsOK])
    (Nat.le_trans (entryFuel_ref G rank _ r .one) hn)

/-- The decision procedure is sound: a module accepted by `wfCheck` answers every entry point with
the fuel computed from its candidate rank. -/
theorem C11_terminates_checked (G : NodeGrammar) (uni : Uni) (h : wfCheck G = true) (r : RuleId) (i : Inp)
    (n : Nat) (hn : entryFuel G (wfRank G) i.rest.length ≤ n) :
    tryParse G uni n r i ≠ .oof ∧ tryCheck G uni n r i ≠ .oof ∧
    tryParsePartial G uni n r i ≠ .oof ∧ tryCheckPartial G uni n r i ≠ .oof := by
  obtain ⟨hN, hR, hP⟩ := wfCheck_sound h
  exact ⟨C11_terminates_tryParse G uni _ _ hN hR hP r i n hn, C11_terminates_tryCheck G uni _ _ hN hR hP r i n hn,
    C11_terminates_tryParsePartial G uni _ _ hN hR hP r i n hn,
    C11_terminates_tryCheckPartial G uni _ _ hN hR hP r i n hn⟩

/-! ### non-vacuity: a recursive grammar with an implicit skip satisfies the hypotheses -/

/-- `expr = { "(" ~ expr* ~ ")" | "x" }   WHITESPACE = _{ " " }` as generated (rule 0 is `EOI`). -/
def c11Grammar : NodeGrammar :=
  { rules := [eoiDef,
      { name := "expr", atom := .inherited, emit := .both, boxed := true,
        body := .choice [.seq .inh [.str ['('], .rep .inh 0 none (.ref 1 .inh), .str [')']], .str ['x']] },
      { name := "WHITESPACE", atom := .inherited, emit := .expression, boxed := true,
        body := .str [' '] }],
    skipped := .atomicRepeat (.ref 2 .zero) }

/-- Explicit witnesses: only `EOI` is nullable; `expr` and `WHITESPACE` have no heads, the skip type
(pseudo id 3) reaches `WHITESPACE`. -/
def c11Nul : RuleId → Bool := fun r => r == 0
def c11Rank : RuleId → Nat := fun r => if r == 3 then 1 else 0

example : nulOKb c11Grammar c11Nul = true := by decide
example : noLeftRecb c11Grammar c11Nul c11Rank = true := by decide
example : progressingb c11Grammar c11Nul = true := by decide
example : NulOK c11Grammar c11Nul ∧ NoLeftRecBy c11Grammar c11Nul c11Rank ∧ Progressing c11Grammar c11Nul :=
  ⟨nulOKb_sound (by decide), noLeftRecb_sound (by decide), progressingb_sound (by decide)⟩
example : wfCheck c11Grammar = true := by decide
/-- The bound is small: 110 units of fuel for a 6-character input. -/
example : entryFuel c11Grammar c11Rank 6 = 110 := by decide

def c11Input : Inp := { start := 0, pos := 0, rest := ['(', ' ', 'x', '(', ')', ')'], after := [] }

def c11IsOk {σ α} : Res σ α → Bool
  | .ok _ _ _ => true
  | _ => false

/-- The parse really recurses and skips, and succeeds within the bound. -/
example : c11IsOk (tryParse c11Grammar (fun _ _ => false) 110 1 c11Input) = true := by decide

/-! ### the hypotheses are necessary -/

/-- `(("a")?)*` — a repetition whose body matches the empty string — has NO sufficient fuel, on any
input, in any state: the loop of `RepeatMin::try_parse_partial_with` has no progress guard. -/
theorem C11_diverges_example (G : NodeGrammar) (uni : Uni) (inh : Bool) (i : Inp) (m : M) :
    ∀ n, parse G uni n inh (.rep .zero 0 none (.opt (.str ['a']))) i m = .oof := by
  intro n
  cases n with
  | zero => rfl
  | succ n =>
    simp only [parse]
    rw [repLoop_never_stops]
    intro j i m m'
    unfold repUnitP
    split
    · split
      · exact nofun
      · next h => exact absurd h (opt_never_fails G uni _ _ _ _ _ _)
      · exact nofun
    · rw [skipCount_zero]
      simp only [skipLoop, List.reverse_nil]
      split
      · exact nofun
      · next h => exact absurd h (opt_never_fails G uni _ _ _ _ _ _)
      · exact nofun

/-- The diverging node violates exactly the `Progressing` hypothesis. -/
example : repsOK (fun _ => false) (.rep .zero 0 none (.opt (.str ['a']))) = false := by decide
/-- … while the bounded form `(("a")?){,3}` satisfies it (and is covered by the theorem). -/
example : repsOK (fun _ => false) (.rep .zero 0 (some 3) (.opt (.str ['a']))) = true := by decide

/-- `a = { a ~ "x" }` (rule 1 refers to itself at its own start). -/
def c11LeftRecDef : RuleDef :=
  { name := "a", atom := .inherited, emit := .both, boxed := true,
    body := .seq .inh [.ref 1 .inh, .str ['x']] }

def c11LeftRec : NodeGrammar := { rules := [eoiDef, c11LeftRecDef], skipped := .empty }

theorem c11LeftRec_rule : c11LeftRec.rule? 1 = some c11LeftRecDef := rfl

/-- A left-recursive rule has no sufficient fuel either (on any input, in any state). -/
theorem C11_leftrec_example (uni : Uni) (i : Inp) :
    ∀ n inh m, parse c11LeftRec uni n inh (.ref 1 .inh) i m = .oof ∧
      parse c11LeftRec uni n inh (.seq .inh [.ref 1 .inh, .str ['x']]) i m = .oof := by
  intro n
  induction n with
  | zero => intros; exact ⟨rfl, rfl⟩
  | succ n ih =>
    intro inh m
    constructor
    · simp only [parse, c11LeftRec_rule, c11LeftRecDef]
      rw [(ih _ _).2]
    · simp only [parse]
      rw [(ih _ _).1]

example : wfCheck c11LeftRec = false := by decide

/-- `a = @{ !"x" ~ a }`: pest_meta 2.7.14's validator ACCEPTS this grammar (its left-recursion check
only looks past a *non-failing* prefix, and a negative predicate can fail), so the generator emits a
module for it (observed by `checks/c11.py`, class "accepted, not well-founded"). -/
def c11PredRecDef : RuleDef :=
  { name := "a", atom := .atomic, emit := .span, boxed := true,
    body := .seq .zero [.neg (.str ['x']), .ref 1 .zero] }

def c11PredRec : NodeGrammar := { rules := [eoiDef, c11PredRecDef], skipped := .empty }

theorem c11PredRec_rule : c11PredRec.rule? 1 = some c11PredRecDef := rfl

/-- … and that module recurses forever on every input that does not start with `x`: a rule that
reaches itself through a predicate is outside the well-founded fragment, which is why the second
sentence of the property is restricted to it (and why "pest's validator accepts ⇒ well-founded" is
false even without stack operations). -/
theorem C11_pred_leftrec_example (uni : Uni) (i : Inp) (hx : i.matchString ['x'] = none) :
    ∀ n inh m, check c11PredRec uni n inh (.ref 1 .zero) i m = .oof ∧
      check c11PredRec uni n inh (.seq .zero [.neg (.str ['x']), .ref 1 .zero]) i m = .oof := by
  intro n
  induction n with
  | zero => intros; exact ⟨rfl, rfl⟩
  | succ n ih =>
    intro inh m
    constructor
    · simp only [check, c11PredRec_rule, c11PredRecDef]
      rw [(ih _ _).2]
    · rw [check_seq2_zero]
      cases n with
      | zero => rfl
      | succ n =>
        cases n with
        | zero => rfl
        | succ n =>
          rw [check_neg_str_none _ _ _ _ _ _ _ hx]
          simp only []
          rw [(ih _ _).1]

example : wfCheck c11PredRec = false := by decide
example : ({ start := 0, pos := 0, rest := ['y'], after := [] } : Inp).matchString ['x'] = none := by decide

/-! ### the derive pipeline -/

/-- `derive_typed_parser` after the grammar text has been parsed: `consume_rules` (which runs
`validate_ast`) ▸ `optimize` (when `pest_optimizer` is on) ▸ generate.  `validate` and `optimize`
are pest_meta's (external, parameters). -/
def derive (validate : PGrammar → Bool) (optimize : PGrammar → PGrammar) (optimizer : Bool)
    (g : PGrammar) : Option NodeGrammar :=
  if validate g then some (gen (if optimizer then optimize g else g)) else none

/-- No module is produced for a grammar the validator rejects (`unwrap_or_report` panics). -/
theorem C11_pipeline_no_output_without_validation (validate : PGrammar → Bool)
    (optimize : PGrammar → PGrammar) (optimizer : Bool) (g : PGrammar) (h : validate g = false) :
    derive validate optimize optimizer g = none := by
  simp [derive, h]

/-- Every produced module comes from a validated grammar. -/
theorem C11_pipeline_output (validate : PGrammar → Bool) (optimize : PGrammar → PGrammar) (optimizer : Bool)
    (g : PGrammar) (G : NodeGrammar) (h : derive validate optimize optimizer g = some G) :
    validate g = true ∧ G = gen (if optimizer then optimize g else g) := by
  unfold derive at h
  split at h
  · next hv => injection h with h; exact ⟨hv, h.symm⟩
  · cases h

example : derive (fun _ => false) id true [] = none := by decide

end PestTyped
