/-
Props.C14 — Displaying any Span or Position never panics and marks the right text.

"Formatting any valid Span or Position (default or custom FormatOption) returns without
panicking, for every input including the empty one and every offset including end of input.
The numbered lines shown carry their correct 1-based numbers and the text of those input lines
with control characters replaced by their pictures.  The first and last of them are the lines
holding the first and the last character of the span (for an empty span or a Position: the line
holding that offset, the last line at end of input), and the markers point at the display cells
of exactly those characters."

The model (`Model/Text.lean`) is `formatter.rs` as written: the two peekable scans with `>=`, the
`unwrap`s, `split_at`, the `Vec` indexing, the four snippet printers.  `spanSnippet` /
`positionSnippet` compute WHAT is printed (`Snippet`: width of the number column and the rows:
gutter, numbered text with its highlighted part, marker at a column, ellipsis); `render opt` writes
it through the three callbacks of a `FormatOption`, so every statement below holds for the default
and for every custom option; `displaySpan opt w sp = (spanSnippet w sp).map (render opt)` by
definition.  The display width of a character is a parameter `width`.

THE FULL PROPERTY IS FALSE of the unchanged code, in exactly three ways (DESIGN §7):

  F-FMT-1  `Span::new("",0,0).to_string()` panics           → `C14_counterexample_empty_input`
  F-FMT-2  `Position::new(s, s.len()).to_string()` is empty → `C14_counterexample_position_eoi`,
           for every `s`: `C14_position_eoi_renders_nothing`
  F-FMT-3  a span whose start is the first byte of a line other than the first is drawn from the
           previous line                                    → `C14_counterexample_line_start`,
           in general: `C14_line_start_drawn_from_previous_line`

Full statement, for reference (false as it stands):
  ∀ s a b, Valid ⟨s,a,b⟩ → ∃ sn, spanSnippet w ⟨s,a,b⟩ = .ok sn ∧ rows numbered correctly ∧
     first numbered row = line of the first character (of the offset if a = b; last line at end
     of input) ∧ last numbered row = line of the last character ∧ markers on their cells;
  ∀ s p, IsBoundary s p → ∃ sn, positionSnippet w s p = .ok (some sn) ∧ the same for the offset.

Proved, each with the excluded region as an explicit hypothesis:

* `C14_table`                 every control character < 0x20 ↦ U+2400+c, 0x7f ↦ U+2421, others fixed
* `C14_position_no_panic`     Display of a Position never panics: every input, every position — FULL
* `C14_span_no_panic_partial` Display of a Span never panics — excluded: the empty input (F-FMT-1)
* `C14_numbers_partial`       every numbered row carries the 1-based number of a line of the input and
                              that line's text with control pictures — every valid span, F-FMT-3 cases
                              included; excluded: only the empty input (nothing is printed there)
* `C14_single_line_partial`   span inside one line (also empty spans, also at end of input): exactly
                              gutter / that line with its number, the span highlighted / carets under
                              exactly the cells of the span — excluded: start on the first byte of a
                              later line (F-FMT-3)
* `C14_multi_line_partial`    span over several lines: `v` over the first cell of the first character on
                              its line, the fully covered lines (all if ≤ 3, else first, `...`, last),
                              the line of the last character, `^` under the last cell of the last
                              character — excluded: F-FMT-3
* `C14_partial_coverage`      the two theorems above cover every valid span of a non-empty input outside
                              F-FMT-3: the excluded region is exactly that defect
* `C14_position_partial`      position inside a line: that line with its number and `^` under the cell
                              of the character at the offset — excluded: end of input (F-FMT-2)
* `C14_position_coverage`     … and nothing else is excluded
-/
import PestTyped.Lemmas.TextDisplay
namespace PestTyped
open Text

/-- The control-picture table: every `c < 0x20` maps to `U+2400 + c`, `0x7f` to `U+2421`, every
other character to itself; `visualize` applies it to each character. -/
theorem C14_table (c : Char) (line : List Char) :
    visChar c = (if c.toNat < 0x20 then Char.ofNat (0x2400 + c.toNat)
      else if c.toNat = 0x7f then Char.ofNat 0x2421 else c) ∧
    visualize line = line.map visChar :=
  ⟨visChar_spec c, rfl⟩

example : visualize ['a', '\t', '\r', '\n', '\x7f', ' ', '中'] = ['a', '␉', '␍', '␊', '␡', ' ', '中'] := by
  decide

/-- Displaying a `Position` never panics: any input (the empty one included), any position (end
of input included), any option, any width function. -/
theorem C14_position_no_panic (opt : FormatOption) (width : Char → Nat) (s : List Char) (p : Nat)
    (hp : IsBoundary s p) : ∃ out, displayPosition opt width s p = .ok out := by
  obtain ⟨r, hr⟩ := positionSnippet_ok width s p hp
  unfold displayPosition
  rw [hr]
  cases r with
  | none => exact ⟨_, rfl⟩
  | some sn => exact ⟨_, rfl⟩

example : displayPosition .default (fun _ => 1) [] 0 = .ok [] := by decide
example : (displayPosition .default (fun _ => 1) ['a', '\n', 'b'] 2).isOk = true := by decide

/-- F-FMT-1: displaying the only span of the empty input panics (`start.unwrap()` on `None`:
`lines()` of the empty input yields nothing). -/
theorem C14_counterexample_empty_input :
    displaySpan .default (fun _ => 1) ⟨[], 0, 0⟩ = .panic ∧ (⟨[], 0, 0⟩ : Span).start ≤ 0 := by
  decide

/-- Displaying a `Span` never panics — PARTIAL: the input must not be empty (F-FMT-1 above is the
only exception: `""` has the single span `0..0`). -/
theorem C14_span_no_panic_partial (opt : FormatOption) (width : Char → Nat) (s : List Char)
    (hs : s ≠ []) (a b : Nat) (hv : (⟨s, a, b⟩ : Span).Valid) :
    ∃ out, displaySpan opt width ⟨s, a, b⟩ = .ok out := by
  obtain ⟨sn, hsn⟩ := spanSnippet_ok width s hs a b hv
  exact ⟨render opt sn, by unfold displaySpan; rw [hsn]⟩

example : (displaySpan .default (fun _ => 1) ⟨['a', '\n', 'b'], 0, 3⟩).isOk = true := by decide
example : (⟨['a', '\n', 'b'], 0, 3⟩ : Span).Valid :=
  ⟨by decide, isBoundary_zero _, ⟨['a', '\n', 'b'], [], rfl, by decide⟩⟩

/-- Every numbered row of the display of a valid span carries a 1-based line number `n` of the
input and, split into the parts before / inside / after the highlight, the text of line `n` with
control pictures.  Holds in the F-FMT-3 cases too.  PARTIAL only in that the input is not empty
(nothing is printed for the empty input, see F-FMT-1). -/
theorem C14_numbers_partial (width : Char → Nat) (s : List Char) (hs : s ≠ []) (a b : Nat)
    (hv : (⟨s, a, b⟩ : Span).Valid) (sn : Snippet) (h : spanSnippet width ⟨s, a, b⟩ = .ok sn) :
    ∀ n pre hl post, Row.text n pre hl post ∈ sn.rows →
      1 ≤ n ∧ ∃ line, (splitLines s)[n - 1]? = some line ∧
        visualize line = pre ++ hl.getD [] ++ post := by
  intro n pre hl post hmem
  exact spanSnippet_rows_ok width s hs a b hv sn h _ hmem

example : spanSnippet (fun _ => 1) ⟨['a', '\n', 'b', '\t'], 0, 3⟩ =
    .ok ⟨1, [.mark 0 ['v'], .text 1 [] (some ['a', '␊']) [], .text 2 [] (some ['b']) ['␉'], .mark 0 ['^']]⟩ := by
  decide

/-- A span inside one line.  The input's lines are `before ++ [f ++ m ++ r] ++ after`, the span
is `m` (possibly empty) and this is the line that holds it: `m ++ r ≠ []` (the start is strictly
inside the line) or it is the last line (end of input).  Then exactly three rows are printed: a
gutter, the line under its 1-based number with `m` highlighted, and carets under exactly the
display cells of `m`, starting after the cells of `f`.
PARTIAL — excluded by `hf`: the start is the first byte (`f = []`) of a line other than the first
(`before ≠ []`), where the code draws the previous line instead (F-FMT-3). -/
theorem C14_single_line_partial (width : Char → Nat) (s : List Char)
    (before after : List (List Char)) (f m r : List Char)
    (hsplit : splitLines s = before ++ (f ++ m ++ r) :: after)
    (hline : m ++ r ≠ [] ∨ after = [])
    (hf : f ≠ [] ∨ before = []) :
    spanSnippet width ⟨s, blen before.flatten + blen f, blen before.flatten + blen f + blen m⟩ =
      .ok ⟨ceilLog10 (before.length + 1),
        [.gutter,
         .text (before.length + 1) (visualize f) (some (visualize m)) (visualize r),
         .mark (strWidth width (visualize f)) (List.replicate (strWidth width (visualize m)) '^')]⟩ := by
  -- `hline` is what makes this line the one the property names; the equation itself is the code's
  -- behaviour and needs only `hf`
  have _ := hline
  exact spanSnippet_single width s before after f m r hsplit hf

example : splitLines ['a', 'b', '\n', 'c', '中', 'd'] = [['a', 'b', '\n']] ++ (['c'] ++ ['中'] ++ ['d']) :: [] := by
  decide
example : spanSnippet (fun c => if c = '中' then 2 else 1) ⟨['a', 'b', '\n', 'c', '中', 'd'], 4, 7⟩ =
    .ok ⟨1, [.gutter, .text 2 ['c'] (some ['中']) ['d'], .mark 1 ['^', '^']]⟩ := by decide

/-- A span over several lines.  The input's lines are
`before ++ [f ++ m1] ++ mid ++ [m2 ++ r] ++ after`; the span is `m1 ++ mid ++ m2` with its first
character in the line `f ++ m1` (`m1 ≠ []`) and its last character in the line `m2 ++ r`
(`m2 ≠ []`).  Then: a `v` over the first cell of the first character; that line under its number,
`m1` highlighted; the fully covered lines under their numbers (all of them when at most three,
otherwise the first, `...`, the last); the last line under its number, `m2` highlighted; a `^`
under the last cell of the last character.
PARTIAL — excluded by `hf`: F-FMT-3 as above. -/
theorem C14_multi_line_partial (width : Char → Nat) (s : List Char)
    (before mid after : List (List Char)) (f m1 m2 r : List Char)
    (hsplit : splitLines s = before ++ (f ++ m1) :: (mid ++ (m2 ++ r) :: after))
    (hm1 : m1 ≠ []) (hm2 : m2 ≠ [])
    (hf : f ≠ [] ∨ before = []) :
    spanSnippet width ⟨s, blen before.flatten + blen f,
        blen before.flatten + blen (f ++ m1) + blen mid.flatten + blen m2⟩ =
      .ok ⟨ceilLog10 (before.length + mid.length + 2),
        [.mark (strWidth width (visualize f)) ['v'],
         .text (before.length + 1) (visualize f) (some (visualize m1)) []]
        ++ (match (innerOf mid).1 with
            | some l => [Row.text (before.length + 2) [] (some l) []]
            | none => [])
        ++ (match (innerOf mid).2.1 with
            | some l => [Row.text (before.length + 3) [] (some l) []]
            | none => if (innerOf mid).2.2.1 then [Row.dots] else [])
        ++ (match (innerOf mid).2.2.2 with
            | some l => [Row.text (before.length + mid.length + 1) [] (some l) []]
            | none => [])
        ++ [.text (before.length + mid.length + 2) [] (some (visualize m2)) (visualize r),
            .mark (strWidth width (visualize m2) - 1) ['^']]⟩ := by
  -- `hm1` is what makes the first line the one holding the first character (cf. `hline` above)
  have _ := hm1
  exact spanSnippet_multi width s before mid after f m1 m2 r hsplit hf hm2

/-- `innerOf`: which of the fully covered lines are shown. -/
example (a b c d e : List Char) :
    innerOf [] = (none, none, false, none) ∧
    innerOf [a] = (some (visualize a), none, false, none) ∧
    innerOf [a, b] = (some (visualize a), none, false, some (visualize b)) ∧
    innerOf [a, b, c] = (some (visualize a), some (visualize b), false, some (visualize c)) ∧
    innerOf [a, b, c, d, e] = (some (visualize a), none, true, some (visualize e)) :=
  ⟨rfl, rfl, rfl, rfl, rfl⟩

example : splitLines ['x', 'a', '\n', 'b', '\n', '中', 'y'] =
    [] ++ (['x'] ++ ['a', '\n']) :: ([['b', '\n']] ++ (['中'] ++ ['y']) :: []) := by decide
example : spanSnippet (fun c => if c = '中' then 2 else 1) ⟨['x', 'a', '\n', 'b', '\n', '中', 'y'], 1, 8⟩ =
    .ok ⟨1, [.mark 1 ['v'], .text 1 ['x'] (some ['a', '␊']) [], .text 2 [] (some ['b', '␊']) [],
      .text 3 [] (some ['中']) ['y'], .mark 1 ['^']]⟩ := by decide

/-- The two `_partial` theorems above leave out exactly F-FMT-3: every valid span of a non-empty
input whose start is NOT the first byte of a line other than the first satisfies the hypotheses
of `C14_single_line_partial` or of `C14_multi_line_partial`. -/
theorem C14_partial_coverage (s : List Char) (hs : s ≠ []) (a b : Nat)
    (hv : (⟨s, a, b⟩ : Span).Valid) (hnot : ¬ LaterLineStart s a) :
    (∃ before after f m r, splitLines s = before ++ (f ++ m ++ r) :: after ∧
      (m ++ r ≠ [] ∨ after = []) ∧ (f ≠ [] ∨ before = []) ∧ a = blen before.flatten + blen f ∧
      b = blen before.flatten + blen f + blen m) ∨
    (∃ before mid after f m1 m2 r,
      splitLines s = before ++ (f ++ m1) :: (mid ++ (m2 ++ r) :: after) ∧
      m1 ≠ [] ∧ m2 ≠ [] ∧ (f ≠ [] ∨ before = []) ∧ a = blen before.flatten + blen f ∧
      b = blen before.flatten + blen (f ++ m1) + blen mid.flatten + blen m2) :=
  span_decomp_canonical s hs a b hv hnot

example : LaterLineStart ['a', 'b', 'c', '\n', 'd', 'e', 'f'] 4 :=
  ⟨[['a', 'b', 'c', '\n']], ['d', 'e', 'f'], [], by decide, by decide, by decide⟩

/-- F-FMT-3 on the witness of DESIGN §7: `Span("abc\ndef", 4, 7)` = `def` is wholly on line 2, but
the display starts on line 1 with `v` after `abc␊`. -/
theorem C14_counterexample_line_start :
    spanSnippet (fun _ => 1) ⟨['a', 'b', 'c', '\n', 'd', 'e', 'f'], 4, 7⟩ =
      .ok ⟨1, [.mark 4 ['v'], .text 1 ['a', 'b', 'c', '␊'] (some []) [],
               .text 2 [] (some ['d', 'e', 'f']) [], .mark 2 ['^']]⟩ ∧
    splitLines ['a', 'b', 'c', '\n', 'd', 'e', 'f'] = [['a', 'b', 'c', '\n'], ['d', 'e', 'f']] := by
  decide

/-- F-FMT-3 in general: a non-empty span that starts on the first byte of the line after `prev` is
drawn from `prev` — whose number is shown first, with nothing highlighted and the `v` after its
last cell — although its first character is on the next line. -/
theorem C14_line_start_drawn_from_previous_line (width : Char → Nat) (s : List Char)
    (before mid after : List (List Char)) (prev m2 r : List Char)
    (hsplit : splitLines s = before ++ prev :: (mid ++ (m2 ++ r) :: after))
    (hprev : prev ≠ []) (hm2 : m2 ≠ []) :
    ∃ rest, spanSnippet width ⟨s, blen before.flatten + blen prev,
        blen before.flatten + blen prev + blen mid.flatten + blen m2⟩ =
      .ok ⟨ceilLog10 (before.length + mid.length + 2),
        .mark (strWidth width (visualize prev)) ['v'] ::
        .text (before.length + 1) (visualize prev) (some []) [] :: rest⟩ := by
  have h := spanSnippet_multi width s before mid after prev [] m2 r (by simpa using hsplit)
    (Or.inl hprev) hm2
  simp only [List.append_nil] at h
  exact ⟨_, by rw [h]; rfl⟩

example : splitLines ['a', 'b', 'c', '\n', 'd', 'e', 'f'] =
    [] ++ ['a', 'b', 'c', '\n'] :: ([] ++ (['d', 'e', 'f'] ++ []) :: []) := by decide

/-- A position strictly inside a line `f ++ r` (`r ≠ []`: the offset is not the end of input):
a gutter, the line under its 1-based number (nothing highlighted), and one `^` under the first
cell of the character at the offset.
PARTIAL — excluded by `hr`: the end of input (F-FMT-2 below). -/
theorem C14_position_partial (width : Char → Nat) (s : List Char) (before after : List (List Char))
    (f r : List Char) (hsplit : splitLines s = before ++ (f ++ r) :: after) (hr : r ≠ []) :
    positionSnippet width s (blen before.flatten + blen f) =
      .ok (some ⟨ceilLog10 (before.length + 1),
        [.gutter, .text (before.length + 1) (visualize f) none (visualize r),
         .mark (strWidth width (visualize f)) ['^']]⟩) := by
  unfold positionSnippet
  rw [allLines_eq, hsplit]
  simp only []
  have := positionLoop_of_decomp width (blen before.flatten + blen f) before f r after 0 0 hr (by omega)
  simpa [snippetSinglePos] using this

example : positionSnippet (fun c => if c = '中' then 2 else 1) ['a', '\n', '中', 'b'] 5 =
    .ok (some ⟨1, [.gutter, .text 2 ['中'] none ['b'], .mark 2 ['^']]⟩) := by decide
example : splitLines ['a', '\n', '中', 'b'] = [['a', '\n']] ++ (['中'] ++ ['b']) :: [] := by decide

/-- `C14_position_partial` leaves out exactly the end of input: every other position satisfies its
hypotheses. -/
theorem C14_position_coverage (s : List Char) (p : Nat) (hp : IsBoundary s p) (hlt : p < blen s) :
    ∃ before after f r, splitLines s = before ++ (f ++ r) :: after ∧ r ≠ [] ∧
      p = blen before.flatten + blen f :=
  position_decomp s p hp hlt

example : IsBoundary ['a', '\n', '中', 'b'] 5 ∧ 5 < blen ['a', '\n', '中', 'b'] :=
  ⟨⟨['a', '\n', '中'], ['b'], rfl, by decide⟩, by decide⟩

/-- F-FMT-2 on the witness of DESIGN §7: `Position::new("abc", 3).to_string()` is empty. -/
theorem C14_counterexample_position_eoi :
    displayPosition .default (fun _ => 1) ['a', 'b', 'c'] 3 = .ok [] ∧ blen ['a', 'b', 'c'] = 3 := by
  decide

/-- F-FMT-2 in general: at end of input nothing at all is rendered, for every input, option
and width (`pos + line.len() > position.pos()` is never true there). -/
theorem C14_position_eoi_renders_nothing (opt : FormatOption) (width : Char → Nat) (s : List Char) :
    displayPosition opt width s (blen s) = .ok [] := by
  unfold displayPosition
  rw [positionSnippet_eoi]

example : displayPosition .bracket (fun _ => 2) ['a', '\n'] 2 = .ok [] := by decide

end PestTyped
