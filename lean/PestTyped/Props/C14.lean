/-
Props.C14 — Displaying any Span or Position never panics and marks the right text.

"Formatting any valid Span or Position (default or custom FormatOption) returns without
panicking, for every input including the empty one and every offset including end of input.
The numbered lines shown carry their correct 1-based numbers and the text of those input lines
with control characters replaced by their pictures.  The first and last of them are the lines
holding the first and the last character of the span (for an empty span or a Position: the line
holding that offset, the last line at end of input), and the markers point at the display cells
of exactly those characters."

The model (`Model/Text.lean`) is `formatter.rs` as written (after the repair of F-FMT-1 and
F-FMT-2: the empty input is displayed as one empty line, and in `display_position` the end of
input belongs to the last line): the two peekable scans with `>=`, the `unwrap`s, `split_at`, the
`Vec` indexing, `last_index`, the four snippet printers.  `spanSnippet` / `positionSnippet`
compute WHAT is printed (`Snippet`: width of the number column and the rows: gutter, numbered text
with its highlighted part, marker at a column, ellipsis); `render opt` writes it through the three
callbacks of a `FormatOption`, so every statement below holds for the default and for every
custom option; `displaySpan opt w sp = (spanSnippet w sp).map (render opt)` by definition.  The
display width of a character is a parameter `width`.  `dispLines s` are the lines the formatter
works on: `splitLines s` (C13_line_table), and one empty line for the empty input.

THE FULL PROPERTY IS STILL FALSE of the code in one way (DESIGN §7, not repairable: pinned by the
snapshot test `display_span_single_line_far`):

  F-FMT-3  a span whose start is the first byte of a line other than the first is drawn from the
           previous line                                    → `C14_counterexample_line_start`,
           in general: `C14_line_start_drawn_from_previous_line`

Full statement of the clause that fails, for reference (false as it stands):
  ∀ s a b, Valid ⟨s,a,b⟩ → the first numbered row is the line of the first character of the span
     (of the offset if a = b; the last line at end of input) and the start marker is on its cell.

Proved at full strength:

* `C14_table`                 every control character < 0x20 ↦ U+2400+c, 0x7f ↦ U+2421, others fixed
* `C14_span_no_panic`         Display of a Span never panics: every input (the empty one too), every span
* `C14_position_no_panic`     Display of a Position never panics and prints a snippet: every input, every
                              position (end of input too)
* `C14_numbers`               every numbered row carries the 1-based number of a displayed line and that
                              line's text with control pictures — every input, every valid span, F-FMT-3
                              cases included
* `C14_position`              a position in the line that holds it (strictly inside, or at the end of the
                              last line = end of input): exactly gutter / that line with its number / one
                              `^` under the cell at the offset
* `C14_position_coverage`     … and every position of every input is in that situation

Proved with the F-FMT-3 region as the only exclusion (explicit hypothesis `hf`):

* `C14_single_line_partial`   span inside one line (also empty spans, at end of input, the empty input):
                              exactly gutter / that line with its number, the span highlighted / carets
                              under exactly the cells of the span
* `C14_multi_line_partial`    span over several lines: `v` over the first cell of the first character on
                              its line, the fully covered lines (all if ≤ 3, else first, `...`, last),
                              the line of the last character, `^` under the last cell of the last
                              character
* `C14_partial_coverage`      the two theorems above cover every valid span of every input outside
                              F-FMT-3: the excluded region is exactly that defect
-/
import PestTyped.Lemmas.TextDisplay
namespace PestTyped
open Text

/-- The control-picture table: every `c < 0x20` maps to `U+2400 + c`, `0x7f` to `U+2421`, every
other character to itself; `visualize` applies it to each character. -/
theorem C14_table (c : Char) (line : List Char) :
    visChar c = (if c.toNat < 0x20 then Char.ofNat (0x2400 + c.toNat)
      else if c.toNat = 0x7f then Char.ofNat 0x2421 else c) ∧
    visualize line = line.map visChar :=
  ⟨visChar_spec c, rfl⟩

example : visualize ['a', '\t', '\r', '\n', '\x7f', ' ', '中'] = ['a', '␉', '␍', '␊', '␡', ' ', '中'] := by
  decide

/-- Displaying a `Span` never panics: any input (the empty one included), any valid span, any
option, any width function. -/
theorem C14_span_no_panic (opt : FormatOption) (width : Char → Nat) (s : List Char)
    (a b : Nat) (hv : (⟨s, a, b⟩ : Span).Valid) :
    ∃ out, displaySpan opt width ⟨s, a, b⟩ = .ok out := by
  obtain ⟨sn, hsn⟩ := spanSnippet_ok width s a b hv
  exact ⟨render opt sn, by unfold displaySpan; rw [hsn]⟩

example : (displaySpan .default (fun _ => 1) ⟨['a', '\n', 'b'], 0, 3⟩).isOk = true := by decide
example : (⟨['a', '\n', 'b'], 0, 3⟩ : Span).Valid :=
  ⟨by decide, isBoundary_zero _, ⟨['a', '\n', 'b'], [], rfl, by decide⟩⟩
/-- The empty input (F-FMT-1 before its repair): one empty line, numbered 1. -/
example : spanSnippet (fun _ => 1) ⟨[], 0, 0⟩ =
    .ok ⟨1, [.gutter, .text 1 [] (some []) [], .mark 0 []]⟩ := by decide
example : displaySpan .default (fun _ => 1) ⟨[], 0, 0⟩ =
    .ok [' ', ' ', '|', '\n', '1', ' ', '|', ' ', '\n', ' ', ' ', '|', ' ', '\n'] := by decide

/-- Displaying a `Position` never panics and always prints a snippet: any input (the empty one
included), any position (end of input included), any option, any width function. -/
theorem C14_position_no_panic (opt : FormatOption) (width : Char → Nat) (s : List Char) (p : Nat)
    (hp : IsBoundary s p) :
    ∃ sn, positionSnippet width s p = .ok (some sn) ∧
      displayPosition opt width s p = .ok (render opt sn) := by
  obtain ⟨sn, hsn⟩ := positionSnippet_ok width s p hp
  exact ⟨sn, hsn, by unfold displayPosition; rw [hsn]⟩

example : (displayPosition .default (fun _ => 1) ['a', '\n', 'b'] 3).isOk = true := by decide
example : positionSnippet (fun _ => 1) [] 0 = .ok (some ⟨1, [.gutter, .text 1 [] none [], .mark 0 ['^']]⟩) := by
  decide

/-- Every numbered row of the display of a valid span carries a 1-based number `n` of a displayed
line and, split into the parts before / inside / after the highlight, the text of line `n` with
control pictures.  Every input, every valid span; holds in the F-FMT-3 cases too. -/
theorem C14_numbers (width : Char → Nat) (s : List Char) (a b : Nat)
    (hv : (⟨s, a, b⟩ : Span).Valid) (sn : Snippet) (h : spanSnippet width ⟨s, a, b⟩ = .ok sn) :
    ∀ n pre hl post, Row.text n pre hl post ∈ sn.rows →
      1 ≤ n ∧ ∃ line, (dispLines s)[n - 1]? = some line ∧
        visualize line = pre ++ hl.getD [] ++ post := by
  intro n pre hl post hmem
  exact spanSnippet_rows_ok width s a b hv sn h _ hmem

example : spanSnippet (fun _ => 1) ⟨['a', '\n', 'b', '\t'], 0, 3⟩ =
    .ok ⟨1, [.mark 0 ['v'], .text 1 [] (some ['a', '␊']) [], .text 2 [] (some ['b']) ['␉'], .mark 0 ['^']]⟩ := by
  decide
example : dispLines ['a', '\n', 'b', '\t'] = [['a', '\n'], ['b', '\t']] ∧ dispLines [] = [[]] := by decide

/-- A position in the line that holds it.  The displayed lines are
`before ++ [f ++ r] ++ after` and the offset is after `f`: strictly inside the line (`r ≠ []`),
or at the end of the last line (`after = []`), which is where the end of input belongs.  Then
exactly: a gutter, the line under its 1-based number (nothing highlighted), and one `^` under
the first cell after `f` — the cell of the character at the offset. -/
theorem C14_position (width : Char → Nat) (s : List Char) (before after : List (List Char))
    (f r : List Char) (hsplit : dispLines s = before ++ (f ++ r) :: after)
    (hline : r ≠ [] ∨ after = []) :
    positionSnippet width s (blen before.flatten + blen f) =
      .ok (some ⟨ceilLog10 (before.length + 1),
        [.gutter, .text (before.length + 1) (visualize f) none (visualize r),
         .mark (strWidth width (visualize f)) ['^']]⟩) :=
  positionSnippet_of_decomp width s before after f r hsplit hline

example : positionSnippet (fun c => if c = '中' then 2 else 1) ['a', '\n', '中', 'b'] 5 =
    .ok (some ⟨1, [.gutter, .text 2 ['中'] none ['b'], .mark 2 ['^']]⟩) := by decide
example : dispLines ['a', '\n', '中', 'b'] = [['a', '\n']] ++ (['中'] ++ ['b']) :: [] := by decide
/-- End of input (F-FMT-2 before its repair): `Position::new("abc", 3)` shows line 1 with `^`
after `c`; after a final LF the last line is the one that ends with it. -/
example : positionSnippet (fun _ => 1) ['a', 'b', 'c'] 3 =
    .ok (some ⟨1, [.gutter, .text 1 ['a', 'b', 'c'] none [], .mark 3 ['^']]⟩) := by decide
example : positionSnippet (fun _ => 1) ['a', '\n'] 2 =
    .ok (some ⟨1, [.gutter, .text 1 ['a', '␊'] none [], .mark 2 ['^']]⟩) := by decide

/-- Every position of every input satisfies the hypotheses of `C14_position`. -/
theorem C14_position_coverage (s : List Char) (p : Nat) (hp : IsBoundary s p) :
    ∃ before after f r, dispLines s = before ++ (f ++ r) :: after ∧ (r ≠ [] ∨ after = []) ∧
      p = blen before.flatten + blen f :=
  position_decomp s p hp

example : IsBoundary ['a', '\n', '中', 'b'] 6 := ⟨['a', '\n', '中', 'b'], [], rfl, by decide⟩

/-- A span inside one line.  The displayed lines are `before ++ [f ++ m ++ r] ++ after`, the span
is `m` (possibly empty) and this is the line that holds it: `m ++ r ≠ []` (the start is strictly
inside the line) or it is the last line (end of input; the empty input).  Then exactly three rows
are printed: a gutter, the line under its 1-based number with `m` highlighted, and carets under
exactly the display cells of `m`, starting after the cells of `f`.
PARTIAL — excluded by `hf`: the start is the first byte (`f = []`) of a line other than the first
(`before ≠ []`), where the code draws the previous line instead (F-FMT-3). -/
theorem C14_single_line_partial (width : Char → Nat) (s : List Char)
    (before after : List (List Char)) (f m r : List Char)
    (hsplit : dispLines s = before ++ (f ++ m ++ r) :: after)
    (hline : m ++ r ≠ [] ∨ after = [])
    (hf : f ≠ [] ∨ before = []) :
    spanSnippet width ⟨s, blen before.flatten + blen f, blen before.flatten + blen f + blen m⟩ =
      .ok ⟨ceilLog10 (before.length + 1),
        [.gutter,
         .text (before.length + 1) (visualize f) (some (visualize m)) (visualize r),
         .mark (strWidth width (visualize f)) (List.replicate (strWidth width (visualize m)) '^')]⟩ := by
  -- `hline` is what makes this line the one the property names; the equation itself is the code's
  -- behaviour and needs only `hf`
  have _ := hline
  exact spanSnippet_single width s before after f m r hsplit hf

example : dispLines ['a', 'b', '\n', 'c', '中', 'd'] = [['a', 'b', '\n']] ++ (['c'] ++ ['中'] ++ ['d']) :: [] := by
  decide
example : spanSnippet (fun c => if c = '中' then 2 else 1) ⟨['a', 'b', '\n', 'c', '中', 'd'], 4, 7⟩ =
    .ok ⟨1, [.gutter, .text 2 ['c'] (some ['中']) ['d'], .mark 1 ['^', '^']]⟩ := by decide

/-- A span over several lines.  The displayed lines are
`before ++ [f ++ m1] ++ mid ++ [m2 ++ r] ++ after`; the span is `m1 ++ mid ++ m2` with its first
character in the line `f ++ m1` (`m1 ≠ []`) and its last character in the line `m2 ++ r`
(`m2 ≠ []`).  Then: a `v` over the first cell of the first character; that line under its number,
`m1` highlighted; the fully covered lines under their numbers (all of them when at most three,
otherwise the first, `...`, the last); the last line under its number, `m2` highlighted; a `^`
under the last cell of the last character.
PARTIAL — excluded by `hf`: F-FMT-3 as above. -/
theorem C14_multi_line_partial (width : Char → Nat) (s : List Char)
    (before mid after : List (List Char)) (f m1 m2 r : List Char)
    (hsplit : dispLines s = before ++ (f ++ m1) :: (mid ++ (m2 ++ r) :: after))
    (hm1 : m1 ≠ []) (hm2 : m2 ≠ [])
    (hf : f ≠ [] ∨ before = []) :
    spanSnippet width ⟨s, blen before.flatten + blen f,
        blen before.flatten + blen (f ++ m1) + blen mid.flatten + blen m2⟩ =
      .ok ⟨ceilLog10 (before.length + mid.length + 2),
        [.mark (strWidth width (visualize f)) ['v'],
         .text (before.length + 1) (visualize f) (some (visualize m1)) []]
        ++ (match (innerOf mid).1 with
            | some l => [Row.text (before.length + 2) [] (some l) []]
            | none => [])
        ++ (match (innerOf mid).2.1 with
            | some l => [Row.text (before.length + 3) [] (some l) []]
            | none => if (innerOf mid).2.2.1 then [Row.dots] else [])
        ++ (match (innerOf mid).2.2.2 with
            | some l => [Row.text (before.length + mid.length + 1) [] (some l) []]
            | none => [])
        ++ [.text (before.length + mid.length + 2) [] (some (visualize m2)) (visualize r),
            .mark (strWidth width (visualize m2) - 1) ['^']]⟩ := by
  -- `hm1` is what makes the first line the one holding the first character (cf. `hline` above)
  have _ := hm1
  exact spanSnippet_multi width s before mid after f m1 m2 r hsplit hf hm2

/-- `innerOf`: which of the fully covered lines are shown. -/
example (a b c d e : List Char) :
    innerOf [] = (none, none, false, none) ∧
    innerOf [a] = (some (visualize a), none, false, none) ∧
    innerOf [a, b] = (some (visualize a), none, false, some (visualize b)) ∧
    innerOf [a, b, c] = (some (visualize a), some (visualize b), false, some (visualize c)) ∧
    innerOf [a, b, c, d, e] = (some (visualize a), none, true, some (visualize e)) :=
  ⟨rfl, rfl, rfl, rfl, rfl⟩

example : dispLines ['x', 'a', '\n', 'b', '\n', '中', 'y'] =
    [] ++ (['x'] ++ ['a', '\n']) :: ([['b', '\n']] ++ (['中'] ++ ['y']) :: []) := by decide
example : spanSnippet (fun c => if c = '中' then 2 else 1) ⟨['x', 'a', '\n', 'b', '\n', '中', 'y'], 1, 8⟩ =
    .ok ⟨1, [.mark 1 ['v'], .text 1 ['x'] (some ['a', '␊']) [], .text 2 [] (some ['b', '␊']) [],
      .text 3 [] (some ['中']) ['y'], .mark 1 ['^']]⟩ := by decide

/-- The two `_partial` theorems above leave out exactly F-FMT-3: every valid span of every input
whose start is NOT the first byte of a line other than the first satisfies the hypotheses of
`C14_single_line_partial` or of `C14_multi_line_partial`. -/
theorem C14_partial_coverage (s : List Char) (a b : Nat)
    (hv : (⟨s, a, b⟩ : Span).Valid) (hnot : ¬ LaterLineStart s a) :
    (∃ before after f m r, dispLines s = before ++ (f ++ m ++ r) :: after ∧
      (m ++ r ≠ [] ∨ after = []) ∧ (f ≠ [] ∨ before = []) ∧ a = blen before.flatten + blen f ∧
      b = blen before.flatten + blen f + blen m) ∨
    (∃ before mid after f m1 m2 r,
      dispLines s = before ++ (f ++ m1) :: (mid ++ (m2 ++ r) :: after) ∧
      m1 ≠ [] ∧ m2 ≠ [] ∧ (f ≠ [] ∨ before = []) ∧ a = blen before.flatten + blen f ∧
      b = blen before.flatten + blen (f ++ m1) + blen mid.flatten + blen m2) :=
  span_decomp_canonical s a b hv hnot

example : LaterLineStart ['a', 'b', 'c', '\n', 'd', 'e', 'f'] 4 :=
  ⟨[['a', 'b', 'c', '\n']], ['d', 'e', 'f'], [], by decide, by decide, by decide⟩

/-- F-FMT-3 on the witness of DESIGN §7: `Span("abc\ndef", 4, 7)` = `def` is wholly on line 2, but
the display starts on line 1 with `v` after `abc␊`. -/
theorem C14_counterexample_line_start :
    spanSnippet (fun _ => 1) ⟨['a', 'b', 'c', '\n', 'd', 'e', 'f'], 4, 7⟩ =
      .ok ⟨1, [.mark 4 ['v'], .text 1 ['a', 'b', 'c', '␊'] (some []) [],
               .text 2 [] (some ['d', 'e', 'f']) [], .mark 2 ['^']]⟩ ∧
    dispLines ['a', 'b', 'c', '\n', 'd', 'e', 'f'] = [['a', 'b', 'c', '\n'], ['d', 'e', 'f']] := by
  decide

/-- F-FMT-3 in general: a non-empty span that starts on the first byte of the line after `prev` is
drawn from `prev` — whose number is shown first, with nothing highlighted and the `v` after its
last cell — although its first character is on the next line. -/
theorem C14_line_start_drawn_from_previous_line (width : Char → Nat) (s : List Char)
    (before mid after : List (List Char)) (prev m2 r : List Char)
    (hsplit : dispLines s = before ++ prev :: (mid ++ (m2 ++ r) :: after))
    (hprev : prev ≠ []) (hm2 : m2 ≠ []) :
    ∃ rest, spanSnippet width ⟨s, blen before.flatten + blen prev,
        blen before.flatten + blen prev + blen mid.flatten + blen m2⟩ =
      .ok ⟨ceilLog10 (before.length + mid.length + 2),
        .mark (strWidth width (visualize prev)) ['v'] ::
        .text (before.length + 1) (visualize prev) (some []) [] :: rest⟩ := by
  have h := spanSnippet_multi width s before mid after prev [] m2 r (by simpa using hsplit)
    (Or.inl hprev) hm2
  simp only [List.append_nil] at h
  exact ⟨_, by rw [h]; rfl⟩

example : dispLines ['a', 'b', 'c', '\n', 'd', 'e', 'f'] =
    [] ++ ['a', 'b', 'c', '\n'] :: ([] ++ (['d', 'e', 'f'] ++ []) :: []) := by decide

end PestTyped
