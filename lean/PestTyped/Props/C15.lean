/-
Props.C15 — Traversal helpers enumerate exactly the tokens of the pair tree.

"For any parsed non-silent rule, children() are the direct child tokens in input order and the thin
tokens carry the same rules and offsets as the spanned ones; for rules that carry content (every
kind but atomic) pre-order iteration visits every token of the tree exactly once depth-first with
its depth, level-order iteration visits every token exactly once level by level, and
format_as_tree renders that pre-order with four spaces per level and the matched text on leaves.
All spans are nested in their parent and ordered among siblings."

The traversal theorems are about ARBITRARY finite `Token` trees (no reference to parsing, no size
bound); `preOrder` / `levelOrder` are the queue algorithms of `iterators.rs` with a loop budget, and
the theorems include that the budget is never exhausted (termination of the Rust loops).

* `C15_pre`, `C15_pre_terminates`, `C15_pre_once`          pre-order = depth-first enumeration `dfs` with depths
* `C15_level`, `C15_level_remaining`, `C15_level_is_depth`,
  `C15_level_once`, `C15_level_terminates`                 level order = concatenation of the levels
* `C15_format`, `C15_format_rec`, `C15_indent`             rendering
* `C15_thin`, `C15_as_thin_token`                          `to_thin` keeps rules, offsets and shape
* `C15_children`, `C15_silent_transparent`,
  `C15_lookahead_none`                                     `children()` / `as_token()` / `for_self_or_each_child`
* `C15_nested_ordered`, `C15_nested_ordered_explicit`,
  `C15_nested_descendants`, `C15_rule_token`,
  `C15_nested_ordered_tryParse`                            span discipline of the tokens of a parse result
Nothing is `_partial`: `C15_nested_ordered` covers every `Node` constructor.
-/
import PestTyped.Lemmas.TokensLemmas
namespace PestTyped

/-! ### pre-order -/

/-- `iterate_pre_order` calls `f` on exactly the depth-first enumeration of the tree, each token
with its depth (root 0): in particular the budget `2 * size + 2` of the model is never exhausted. -/
theorem C15_pre (t : Token) : preOrder t = dfs t := preOrder_eq_dfs t

/-- Termination of the Rust loop: from ANY stack of sibling queues, `preCost` iterations (two per
token still to visit plus one per queue) are enough, more fuel changes nothing, and the visits are
the depth-first enumeration of what the stack holds (depth = number of queues below). -/
theorem C15_pre_terminates (fuel : Nat) (qs : List (List Token)) (acc : List (Token × Nat))
    (h : preCost qs ≤ fuel) : preOrderLoop fuel qs acc = acc.reverse ++ dfsStack qs :=
  preOrderLoop_spec fuel qs acc h

/-- `dfs` lists every token of the tree once: as many visits as tokens, the root first. -/
theorem C15_pre_once (t : Token) : (preOrder t).length = t.size ∧ (preOrder t).head? = some (t, 0) := by
  rw [C15_pre]
  refine ⟨dfs_length t, ?_⟩
  cases t; simp [dfs, dfsAt]

/-! ### level order -/

/-- `iterate_level_order` visits the tokens level by level, each level left to right. -/
theorem C15_level (t : Token) : (levelOrder t).map (·.1) = (levels t).flatten := levelOrder_fst t

/-- The same with the callback's second argument as the code computes it: the number of tokens of
the same level still queued (NOT the depth). -/
theorem C15_level_remaining (t : Token) : levelOrder t = ((levels t).map withRemaining).flatten :=
  levelOrder_eq t

/-- Level `k` is what the name says: the tokens that `dfs` reports at depth `k`, in `dfs` order. -/
theorem C15_level_is_depth (t : Token) (k : Nat) :
    levelAt k t = ((dfs t).filter (fun p => p.2 == k)).map (·.1) := by
  have := levelAt_eq_filter 0 k t
  simpa [dfs] using this

/-- Every token exactly once: level order is a permutation of pre-order. -/
theorem C15_level_once (t : Token) :
    (levelOrder t).length = t.size ∧ ((levelOrder t).map (·.1)).Perm ((preOrder t).map (·.1)) := by
  rw [C15_pre]; exact ⟨levelOrder_length t, levelOrder_perm t⟩

/-- Termination of the Rust loop from any pair of queues: `levelCost` iterations suffice. -/
theorem C15_level_terminates (fuel : Nat) (q next : List Token) (acc : List (Token × Nat)) (n : Nat)
    (h : levelCost q next ≤ fuel) (hn : Token.heightList (next ++ kidsOf q) ≤ n) :
    levelOrderLoop fuel q next acc = acc.reverse ++ withRemaining q ++ bfsR n (next ++ kidsOf q) :=
  levelOrderLoop_spec fuel q next acc n h hn

/-! ### `format_as_tree` -/

/-- The rendering is one line per pre-order visit, in order: `indent depth`, the rule, and the text
only when the token has no children. -/
theorem C15_format (ruleName : RuleId → List Char) (dbgText : Token → List Char) (t : Token) :
    formatAsTree ruleName dbgText t = ((dfs t).map (writeTreeLine ruleName dbgText)).flatten := by
  unfold formatAsTree; rw [C15_pre]

/-- … which is the plain recursive rendering (children one level deeper than their parent). -/
theorem C15_format_rec (ruleName : RuleId → List Char) (dbgText : Token → List Char) (t : Token) :
    formatAsTree ruleName dbgText t = renderAt ruleName dbgText 0 t := by
  rw [C15_format, renderAt_eq]; rfl

/-- Four spaces per level. -/
theorem C15_indent (d : Nat) : (indent d).length = 4 * d ∧ ∀ c ∈ indent d, c = ' ' :=
  ⟨indent_length d, indent_spaces d⟩

/-! ### thin tokens -/

/-- `to_thin` keeps the rule, both offsets and the shape of the tree. -/
theorem C15_thin (t : Token) :
    t.toThin.rule = t.rule ∧ t.toThin.s = t.s ∧ t.toThin.e = t.e ∧
    t.toThin.kids = t.kids.map Token.toThin ∧ t.toThin.size = t.size := by
  refine ⟨?_, ?_, ?_, ?_, toThin_size t⟩ <;> cases t <;>
    simp [Token.toThin, ThinToken.rule, ThinToken.s, ThinToken.e, ThinToken.kids, Token.rule, Token.s,
      Token.e, Token.kids, toThinList_eq_map]

/-- `as_thin_token` is `to_thin` of `as_token`. -/
theorem C15_as_thin_token (g : NodeGrammar) (v : Val) (t : Token) (h : asToken g v = some t) :
    asThinToken g v = some t.toThin := by
  simp [asThinToken, h]

/-! ### `children()` / `as_token()` / `for_self_or_each_child` -/

/-- A non-silent rule value is one token: its rule, its span, and as children the tokens of its
content in order — none for the `impl_pair_with_empty` arm (atomic rules, `EOI`). -/
theorem C15_children (g : NodeGrammar) (r : RuleId) (emit : Emission) (boxed : Bool) (s e : Nat)
    (kids : List Val) (hemit : emit ≠ .expression) :
    let v := Val.mk (.rule r emit boxed s e) kids
    let ch := if hasContentPairs g r then tokensList g kids else []
    pairChildren g v = ch ∧ asToken g v = some (.mk r s e ch) ∧ tokens g v = [.mk r s e ch] := by
  cases emit <;> simp [pairChildren, asToken, tokens] at hemit ⊢

/-- Silent rules are transparent: their content's tokens are handed to the parent. -/
theorem C15_silent_transparent (g : NodeGrammar) (r : RuleId) (boxed : Bool) (s e : Nat) (kids : List Val) :
    tokens g (.mk (.rule r .expression boxed s e) kids) = tokensList g kids ∧
    asToken g (.mk (.rule r .expression boxed s e) kids) = none := by
  simp [tokens, asToken]

/-- Lookahead contributes no tokens. -/
theorem C15_lookahead_none (g : NodeGrammar) (kids : List Val) :
    tokens g (.mk .pos kids) = [] ∧ tokens g (.mk .neg kids) = [] := by
  simp [tokens]

/-! ### spans -/

/-- Every node, every state: the tokens of a successful parse lie between the cursor before and
after, are ordered and do not overlap, and recursively the children of each token lie inside its
span in the same way (`WellNested`, spelled out in `C15_nested_ordered_explicit`). -/
theorem C15_nested_ordered (g : NodeGrammar) (uni : Uni) (n : Nat) (inh : Bool) (node : Node)
    (i : Inp) (m : M) (i' : Inp) (m' : M) (v : Val)
    (h : parse g uni n inh node i m = .ok i' m' v) :
    WellNested (tokens g v) i.pos i'.pos :=
  parse_nested g uni n inh node i m i' m' v h

theorem C15_nested_ordered_explicit (g : NodeGrammar) (uni : Uni) (n : Nat) (inh : Bool) (node : Node)
    (i : Inp) (m : M) (i' : Inp) (m' : M) (v : Val)
    (h : parse g uni n inh node i m = .ok i' m' v) :
    (∀ t ∈ tokens g v, i.pos ≤ t.s ∧ t.s ≤ t.e ∧ t.e ≤ i'.pos ∧ WellNested t.kids t.s t.e) ∧
    (tokens g v).Pairwise (fun a b => a.e ≤ b.s) :=
  ((WellNested.iff _ _ _).mp (C15_nested_ordered g uni n inh node i m i' m' v h)).2

/-- What `WellNested` means. -/
theorem C15_wellNested_iff (ts : List Token) (lo hi : Nat) :
    WellNested ts lo hi ↔
      lo ≤ hi ∧ (∀ t ∈ ts, lo ≤ t.s ∧ t.s ≤ t.e ∧ t.e ≤ hi ∧ WellNested t.kids t.s t.e) ∧
      ts.Pairwise (fun a b => a.e ≤ b.s) :=
  WellNested.iff ts lo hi

/-- Hereditarily: EVERY token at any depth below a token of the result (every pre-order visit `p`)
has `s ≤ e`, lies in the parse's range, and has its children ordered inside its own span. -/
theorem C15_nested_descendants (g : NodeGrammar) (uni : Uni) (n : Nat) (inh : Bool) (node : Node)
    (i : Inp) (m : M) (i' : Inp) (m' : M) (v : Val)
    (h : parse g uni n inh node i m = .ok i' m' v) :
    ∀ t ∈ tokens g v, ∀ p ∈ preOrder t,
      i.pos ≤ p.1.s ∧ p.1.s ≤ p.1.e ∧ p.1.e ≤ i'.pos ∧ t.s ≤ p.1.s ∧ p.1.e ≤ t.e ∧
      WellNested p.1.kids p.1.s p.1.e ∧ p.1.kids.Pairwise (fun a b => a.e ≤ b.s) := by
  intro t ht p hp
  rw [C15_pre] at hp
  have hw := C15_nested_ordered g uni n inh node i m i' m' v h
  have ht1 := (Token.Nested.iff t _ _).mp (hw.mem t ht)
  have ht2 : Token.Nested t t.s t.e :=
    (Token.Nested.iff t _ _).mpr ⟨Nat.le_refl _, ht1.2.1, Nat.le_refl _, ht1.2.2.2⟩
  have hp1 := (Token.Nested.iff p.1 _ _).mp (Token.Nested.deep t t.s t.e 0 ht2 p hp)
  exact ⟨by omega, hp1.2.1, by omega, hp1.1, hp1.2.2.1, hp1.2.2.2, hp1.2.2.2.pairwise⟩

/-- A parsed non-silent rule is a `Pair` whose token spans exactly the rule's own run and whose
`children()` are well nested in that span. -/
theorem C15_rule_token (g : NodeGrammar) (uni : Uni) (n : Nat) (inh : Bool) (r : RuleId) (f : Flag)
    (d : RuleDef) (i : Inp) (m : M) (i' : Inp) (m' : M) (v : Val)
    (hd : g.rule? r = some d) (hemit : d.emit ≠ .expression)
    (h : parse g uni n inh (.ref r f) i m = .ok i' m' v) :
    asToken g v = some (.mk r i.pos i'.pos (pairChildren g v)) ∧
    tokens g v = [.mk r i.pos i'.pos (pairChildren g v)] ∧
    WellNested (pairChildren g v) i.pos i'.pos := by
  have hw := C15_nested_ordered g uni n inh (.ref r f) i m i' m' v h
  cases n with
  | zero => simp [parse] at h
  | succ n =>
    simp only [parse, hd] at h
    split at h
    · next he => exact absurd he hemit
    · split at h
      · cases h
      · cases h
      · injection h with h0 _ hv; subst hv
        have h0' := h0.symm; subst h0'
        have hc := C15_children g r .span d.boxed i.pos i'.pos [] (by simp)
        simp only [] at hc
        rw [hc.2.2] at hw
        simp only [WellNested, Token.Nested] at hw
        exact ⟨by rw [hc.1]; exact hc.2.1, by rw [hc.1]; exact hc.2.2, by rw [hc.1]; exact hw.1.2.2.2⟩
    · split at h
      · cases h
      · cases h
      · next i1 m1 v1 h1 =>
        injection h with h0 _ hv; subst hv
        have h0' := h0.symm; subst h0'
        have hc := C15_children g r .both d.boxed i.pos i'.pos [v1] (by simp)
        simp only [] at hc
        rw [hc.2.2] at hw
        simp only [WellNested, Token.Nested] at hw
        exact ⟨by rw [hc.1]; exact hc.2.1, by rw [hc.1]; exact hc.2.2, by rw [hc.1]; exact hw.1.2.2.2⟩

/-- The entry point `R::try_parse` (trailing skip and end-of-input test included). -/
theorem C15_nested_ordered_tryParse (g : NodeGrammar) (uni : Uni) (n : Nat) (r : RuleId)
    (i i' : Inp) (m' : M) (v : Val) (h : tryParse g uni n r i = .ok i' m' v) :
    WellNested (tokens g v) i.pos i'.pos := by
  unfold tryParse at h
  split at h
  · cases h
  · next d hd =>
    split at h
    · cases h
    · cases h
    · next i1 m1 v1 h1 =>
      have hw := C15_nested_ordered g uni n true (.ref r .one) i (M.init i) i1 m1 v1 h1
      split at h
      · cases hb : i1.atEnd <;> simp [eoiStep, hb] at h
        obtain ⟨h0, _, hv⟩ := h; subst h0 hv; exact hw
      · split at h
        · cases h
        · cases h
        · next i2 m2 v2 h2 =>
          cases hb : i2.atEnd <;> simp [eoiStep, hb] at h
          obtain ⟨h0, _, hv⟩ := h; subst h0 hv
          have := (parse_adv g uni n false g.skipped _ _ _ _ _ h2).pos_le
          simpa using hw.append (WellNested.nil this)

/-! ### non-vacuity -/

/-- Depth 4, a node with three children, three childless tokens (one in the middle of a level). -/
def c15Tree : Token :=
  .mk 1 0 6 [.mk 2 0 1 [], .mk 3 1 5 [.mk 4 1 2 [], .mk 5 2 5 [.mk 6 3 4 []]], .mk 7 5 6 []]

def c15Name (r : RuleId) : List Char := List.replicate r 'r'
def c15Text (t : Token) : List Char := ['"'] ++ List.replicate (t.e - t.s) 'x' ++ ['"']

example : (preOrder c15Tree).map (fun p => (p.1.rule, p.2)) =
    [(1, 0), (2, 1), (3, 1), (4, 2), (5, 2), (6, 3), (7, 1)] := by decide
example : preOrder c15Tree = dfs c15Tree := by decide
example : c15Tree.size = 7 ∧ c15Tree.height = 4 := by decide
example : (levelOrder c15Tree).map (fun p => (p.1.rule, p.2)) =
    [(1, 0), (2, 2), (3, 1), (7, 0), (4, 1), (5, 0), (6, 0)] := by decide
example : (levels c15Tree).map (·.map Token.rule) = [[1], [2, 3, 7], [4, 5], [6]] := by decide
/-- The loop budget is a real bound: the 7th token is reached at iteration 12 (level order: 10). -/
example : (preOrderLoop 12 [[c15Tree]] []).length = 7 ∧ (preOrderLoop 11 [[c15Tree]] []).length = 6 := by decide
example : (levelOrderLoop 10 [c15Tree] [] []).length = 7 ∧ (levelOrderLoop 9 [c15Tree] [] []).length = 6 := by decide
example : formatAsTree c15Name c15Text c15Tree =
    ['r', '\n',
     ' ', ' ', ' ', ' ', 'r', 'r', ' ', '"', 'x', '"', '\n',
     ' ', ' ', ' ', ' ', 'r', 'r', 'r', '\n',
     ' ', ' ', ' ', ' ', ' ', ' ', ' ', ' ', 'r', 'r', 'r', 'r', ' ', '"', 'x', '"', '\n',
     ' ', ' ', ' ', ' ', ' ', ' ', ' ', ' ', 'r', 'r', 'r', 'r', 'r', '\n',
     ' ', ' ', ' ', ' ', ' ', ' ', ' ', ' ', ' ', ' ', ' ', ' ', 'r', 'r', 'r', 'r', 'r', 'r', ' ', '"', 'x', '"', '\n',
     ' ', ' ', ' ', ' ', 'r', 'r', 'r', 'r', 'r', 'r', 'r', ' ', '"', 'x', '"', '\n'] := by decide
example : c15Tree.toThin.kids.map ThinToken.rule = [2, 3, 7] ∧ c15Tree.toThin.size = 7 := by decide
example : WellNested [c15Tree] 0 6 := by simp [c15Tree, WellNested, Token.Nested, Token.e]
/-- `WellNested` is not vacuous: overlapping siblings and a child sticking out are rejected. -/
example : ¬ WellNested [.mk 1 0 2 [], .mk 2 1 3 []] 0 3 := by simp [WellNested, Token.Nested, Token.e]
example : ¬ WellNested [.mk 1 0 2 [.mk 2 1 3 []]] 0 3 := by simp [WellNested, Token.Nested, Token.e]

/-- `a = { "x" ~ &b ~ b* }  b = { "y" | c ~ c }  c = @{ "z" }  WHITESPACE = _{ " " }` as generated. -/
def c15Grammar : NodeGrammar :=
  { rules := [
      { name := "EOI", atom := .inherited, emit := .both, boxed := false, body := .eoi },
      { name := "a", atom := .inherited, emit := .both, boxed := true,
        body := .seq .inh [.str ['x'], .pos (.ref 2 .inh), .rep .inh 0 none (.ref 2 .inh)] },
      { name := "b", atom := .inherited, emit := .both, boxed := true,
        body := .choice [.str ['y'], .seq .inh [.ref 3 .inh, .ref 3 .inh]] },
      { name := "c", atom := .atomic, emit := .span, boxed := true, body := .str ['z'] },
      { name := "WHITESPACE", atom := .inherited, emit := .expression, boxed := true,
        body := .str [' '] }],
    skipped := .atomicRepeat (.ref 4 .zero) }

def c15Input : Inp := { start := 0, pos := 0, rest := ['x', ' ', 'y', ' ', 'z', 'z', '!'], after := [] }

def c15Tokens : R Val → List Token
  | .ok _ _ v => tokens c15Grammar v
  | _ => []

/-- A concrete parse satisfying the hypotheses of `C15_nested_ordered` / `C15_rule_token`: the
lookahead's `b` is dropped, the silent WHITESPACE is transparent, the atomic `c` has no children. -/
example : c15Tokens (tryParsePartial c15Grammar (fun _ _ => false) 20 1 c15Input) =
    [.mk 1 0 6 [.mk 2 2 3 [], .mk 2 4 6 [.mk 3 4 5 [], .mk 3 5 6 []]]] := by decide

end PestTyped
