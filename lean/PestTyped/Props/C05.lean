/-
Props.C05 — A failed alternative, optional, iteration or lookahead leaves no trace.

Property (properties.jsonl, C05): when an alternative of a choice, the body of an optional, one
iteration of a repetition or the operand of a predicate does not contribute to the match, parsing
continues from exactly the position and stack contents that held before it was tried: the result is
the same as if that attempt had never been made.  Predicates restore the stack even when their
operand matches.

Model: `restoreOnNone` (the repaired `restore_on_none`: the stack content is saved and put back by
hand; the stack is a plain `List Sp`, top at the head) as used by `.opt`, `choiceLoop`, `repLoop`;
`.pos`/`.neg` put `m.stk` back on every exit.  The cursor is a value (`Inp`), so position is restored
by construction; the tracker is *meant* to remember failed attempts, so it is threaded, not restored
(only its `positive` flag is, by the predicates).  All theorems hold for every grammar, node, fuel,
`inh`, cursor and state (any stack depth, any nesting).

Theorems
* optional: `C05_opt_fail`, `C05_opt_ne_fail`.
* choice: `C05_choice_skip_failed` (loop), `C05_choice_skip_failed_parse` (node, modulo value),
  `C05_choice_fail_iff`, `C05_choice_fail_stk`, `C05_choice_ok_iff`, `C05_choice_ok_from_original`.
* repetition: `C05_rep_giveback`, `C05_rep_fail`, `C05_rep_fail_first`, `C05_rep_min0_ne_fail`,
  `C05_atomicRepeat_giveback`; the witness `C05_counterexample_rep_fail_whole_restore` shows that a
  *whole* `.rep` with `MIN ≥ 2` that fails does not put back what its earlier, successful iterations
  pushed (the enclosing restore point does; the property speaks of one iteration).
* predicates: `C05_pos_ok_iff`, `C05_pos_fail_iff`, `C05_neg_ok_iff`, `C05_neg_fail_iff`, `C05_pred`.
* compositional: `C05_no_trace`, `C05_never_fail`, `C05_check_no_trace`, `C05_check_never_fail`.
-/
import PestTyped.Lemmas.RepLoop
import PestTyped.Model.Gen
namespace PestTyped

/-! ### concrete instances for non-vacuity -/

/-- `WHITESPACE = _{ " " }`; the nodes under test are given directly. -/
def c05Grammar : NodeGrammar :=
  { rules := [eoiDef,
      { name := "WHITESPACE", atom := .inherited, emit := .expression, boxed := true,
        body := .str [' '] }],
    skipped := .atomicRepeat (.ref 1 .zero) }

def c05Uni : Uni := fun _ _ => false
def c05In (s : List Char) : Inp := { start := 0, pos := 0, rest := s, after := [] }
/-- A state whose stack already holds one entry `"z"`. -/
def c05M (s : List Char) : M := { stk := [⟨0, 1, ['z']⟩], trk := Tracker.new (c05In s) }
def c05Run (n : Node) (s : List Char) : R Val := parse c05Grammar c05Uni 8 true n (c05In s) (c05M s)
def c05Chk (n : Node) (s : List Char) : R Unit := check c05Grammar c05Uni 8 true n (c05In s) (c05M s)

/-- `PUSH("a") ~ "x"` (as a raw pair): pushes, then fails unless an `x` follows. -/
def c05PushAx : Node := .pair (.push (.str ['a'])) (.str ['x'])
/-- `DROP ~ "q"`: removes the top entry, then fails unless a `q` follows. -/
def c05DropQ : Node := .pair .drop (.str ['q'])

def c05ab : List Char := ['a', 'b']
def c05axab : List Char := ['a', 'x', ' ', 'a', 'x', ' ', 'a', 'b']

/-! ### optional -/

/-- A failed optional body: success at the original cursor with the original stack. -/
theorem C05_opt_fail (g : NodeGrammar) (uni : Uni) (fuel : Nat) (inh : Bool) (x : Node) (i : Inp) (m m' : M)
    (h : parse g uni fuel inh x i m = .fail m') :
    parse g uni (fuel+1) inh (.opt x) i m = .ok i { m' with stk := m.stk } (.leaf .optNone) := by
  simp only [parse, h, restoreOnNone]

example : (parse c05Grammar c05Uni 7 true c05PushAx (c05In c05ab) (c05M c05ab)).stkTxt? = some [['a'], ['z']] ∧
    (parse c05Grammar c05Uni 7 true c05PushAx (c05In c05ab) (c05M c05ab)).isFail = true := by decide
example : (c05Run (.opt c05PushAx) c05ab).okPos? = some 0 ∧
    (c05Run (.opt c05PushAx) c05ab).stkTxt? = some [['z']] := by decide

/-- An optional never fails. -/
theorem C05_opt_ne_fail (g : NodeGrammar) (uni : Uni) (fuel : Nat) (inh : Bool) (x : Node)
    (i : Inp) (m : M) (m' : M) :
    parse g uni fuel inh (.opt x) i m ≠ .fail m' := by
  cases fuel with
  | zero => simp [parse]
  | succ fuel =>
    simp only [parse]
    cases parse g uni fuel inh x i m <;> simp [restoreOnNone]

example : (c05Run (.opt c05DropQ) c05ab).isOk = true := by decide

/-! ### choice -/

/-- A failed first alternative is skipped: the remaining alternatives run from the same cursor and
the original stack (the tracker is that of the failed attempt). -/
theorem C05_choice_skip_failed {α} (f : Node → Inp → M → R α) (a : Node) (as : List Node) (k : Nat)
    (i : Inp) (m m' : M) (h : f a i m = .fail m') :
    choiceLoop f (a :: as) k i m = choiceLoop f as (k+1) i { m' with stk := m.stk } := by
  rw [choiceLoop]; simp only [h, restoreOnNone]

example : (parse c05Grammar c05Uni 7 true c05PushAx (c05In c05ab) (c05M c05ab)).isFail = true := by decide

/-- Node form: up to the value built (whose index/arity name the alternative), `a | as…` with `a`
failing is `as…` run from the original cursor and stack. -/
theorem C05_choice_skip_failed_parse (g : NodeGrammar) (uni : Uni) (fuel : Nat) (inh : Bool) (a : Node)
    (as : List Node) (i : Inp) (m m' : M) (h : parse g uni fuel inh a i m = .fail m') :
    (parse g uni (fuel+1) inh (.choice (a :: as)) i m).forget =
      (parse g uni (fuel+1) inh (.choice as) i { m' with stk := m.stk }).forget := by
  simp only [parse]
  rw [C05_choice_skip_failed _ a as 0 i m m' h]
  have := choiceLoop_forget_idx (parse g uni fuel inh) as (0+1) 0 i { m' with stk := m.stk }
  rcases forget_eq_cases this with ⟨hc, hp⟩ | ⟨mf, hc, hp⟩ | ⟨i', mf, ⟨k, v⟩, ⟨k', v'⟩, hc, hp⟩
  · rw [hc, hp]
  · rw [hc, hp]
  · rw [hc, hp]; rfl

example : (c05Run (.choice [c05PushAx, c05DropQ, .str ['a']]) c05ab).okPos? = some 1 ∧
    (c05Run (.choice [c05PushAx, c05DropQ, .str ['a']]) c05ab).stkTxt? = some [['z']] := by decide

/-- A choice fails iff every alternative fails in turn, each tried from the original cursor and
the original stack. -/
theorem C05_choice_fail_iff (g : NodeGrammar) (uni : Uni) (fuel : Nat) (inh : Bool) (alts : List Node)
    (i : Inp) (m m' : M) :
    parse g uni (fuel+1) inh (.choice alts) i m = .fail m' ↔ AltsFail (parse g uni fuel inh) i alts m m' := by
  simp only [parse]
  rw [← choiceLoop_fail_iff_altsFail (parse g uni fuel inh) alts 0 i m m']
  cases choiceLoop (parse g uni fuel inh) alts 0 i m with
  | oof => simp
  | fail mf => simp
  | ok i' mm kv => cases kv; simp

example : (c05Run (.choice [c05PushAx, c05DropQ]) c05ab).isFail = true := by decide

/-- A failed choice leaves the stack it found. -/
theorem C05_choice_fail_stk (g : NodeGrammar) (uni : Uni) (fuel : Nat) (inh : Bool) (alts : List Node)
    (i : Inp) (m m' : M) (h : parse g uni fuel inh (.choice alts) i m = .fail m') : m'.stk = m.stk := by
  cases fuel with
  | zero => simp [parse] at h
  | succ fuel => exact ((C05_choice_fail_iff g uni fuel inh alts i m m').mp h).stk

example : (c05Run (.choice [c05PushAx, c05DropQ]) c05ab).stkTxt? = some [['z']] := by decide

/-- A choice succeeds iff some alternative `a` (number `pre.length`) succeeds from the original
cursor `i` in a state `m1` reached by the failures of all earlier alternatives — each of them tried
from cursor `i` and the original stack, `m1.stk = m.stk` (`AltsFail.stk`), tracker threaded. -/
theorem C05_choice_ok_iff (g : NodeGrammar) (uni : Uni) (fuel : Nat) (inh : Bool) (alts : List Node)
    (i : Inp) (m : M) (i' : Inp) (m' : M) (v : Val) :
    parse g uni (fuel+1) inh (.choice alts) i m = .ok i' m' v ↔
      ∃ pre a post m1 v0, alts = pre ++ a :: post ∧ AltsFail (parse g uni fuel inh) i pre m m1 ∧
        parse g uni fuel inh a i m1 = .ok i' m' v0 ∧ v = .mk (.choice alts.length pre.length) [v0] := by
  simp only [parse]
  have key := choiceLoop_ok_iff_altsFail (parse g uni fuel inh) alts 0 i m
  cases hr : choiceLoop (parse g uni fuel inh) alts 0 i m with
  | oof =>
    simp only [reduceCtorEq, false_iff, not_exists, not_and]
    rintro pre a post m1 v0 e hA ha
    have := (key i' m' pre.length v0).mpr ⟨pre, a, post, m1, e, by simp, hA, ha⟩
    rw [hr] at this; cases this
  | fail mf =>
    simp only [reduceCtorEq, false_iff, not_exists, not_and]
    rintro pre a post m1 v0 e hA ha
    have := (key i' m' pre.length v0).mpr ⟨pre, a, post, m1, e, by simp, hA, ha⟩
    rw [hr] at this; cases this
  | ok i1 mm kv =>
    obtain ⟨k, v1⟩ := kv
    simp only [Res.ok.injEq]
    constructor
    · rintro ⟨rfl, rfl, rfl⟩
      obtain ⟨pre, a, post, m1, e, hk, hA, ha⟩ := (key i1 mm k v1).mp hr
      simp only [Nat.zero_add] at hk; subst hk
      exact ⟨pre, a, post, m1, v1, e, hA, ha, rfl⟩
    · rintro ⟨pre, a, post, m1, v0, e, hA, ha, rfl⟩
      have := (key i' m' pre.length v0).mpr ⟨pre, a, post, m1, e, by simp, hA, ha⟩
      rw [hr] at this
      injection this with e1 e2 e3
      injection e3 with e4 e5
      subst e1; subst e2; subst e4; subst e5
      exact ⟨rfl, rfl, rfl⟩

example : (c05Run (.choice [c05PushAx, c05DropQ, .str ['a']]) c05ab).okPos? = some 1 := by decide

/-- The alternative that matched ran from the original cursor and the original stack. -/
theorem C05_choice_ok_from_original (g : NodeGrammar) (uni : Uni) (fuel : Nat) (inh : Bool)
    (alts : List Node) (i : Inp) (m : M) (i' : Inp) (m' : M) (v : Val)
    (h : parse g uni (fuel+1) inh (.choice alts) i m = .ok i' m' v) :
    ∃ k a m1 v0, alts[k]? = some a ∧ m1.stk = m.stk ∧ parse g uni fuel inh a i m1 = .ok i' m' v0 ∧
      v = .mk (.choice alts.length k) [v0] := by
  obtain ⟨pre, a, post, m1, v0, rfl, hA, ha, rfl⟩ := (C05_choice_ok_iff g uni fuel inh alts i m i' m' v).mp h
  exact ⟨pre.length, a, m1, v0, by simp, hA.stk, ha, rfl⟩

/-- Alternative 0 pushes and fails, alternative 1 drops `"z"` and fails, alternative 2 (`PEEK`)
still finds `"z"` on top. -/
example : (c05Run (.choice [c05PushAx, c05DropQ, .peek]) ['z', 'b']).okPos? = some 1 ∧
    (c05Run (.choice [c05PushAx, c05DropQ, .peek]) ['z', 'b']).stkTxt? = some [['z']] := by decide

/-! ### repetition -/

/-- Give-back: the cursor and the stack of a successful repetition are those reached by the
successful iterations only (`RepIters … i' m1 vs`, `m'.stk = m1.stk`).  Either `MAX` stopped the loop
and nothing more was tried (`m' = m1`), or iteration `vs.length` was tried from `(i', m1)` and failed:
whatever it consumed (the implicit skip in front of it included) or did to the stack is undone; only
the tracker keeps its record. -/
theorem C05_rep_giveback (g : NodeGrammar) (uni : Uni) (fuel : Nat) (inh : Bool) (sk : Flag)
    (min : Nat) (max : Option Nat) (x : Node) (i : Inp) (m : M) (i' : Inp) (m' : M) (vs : List Val)
    (h : parse g uni (fuel+1) inh (.rep sk min max x) i m = .ok i' m' (.mk (.rep min max) vs)) :
    ∃ m1, RepIters (parseRepUnit g uni fuel inh sk x) max 0 i m i' m1 vs ∧ m'.stk = m1.stk ∧
      ((max = some vs.length ∧ m' = m1) ∨
       (∃ mf, parseRepUnit g uni fuel inh sk x vs.length i' m1 = .fail mf ∧ m'.trk = mf.trk)) := by
  obtain ⟨vs', m1, e, hI, hS, _, _⟩ := (parse_rep_ok_iff g uni fuel inh sk min max x i m i' m' _).mp h
  injection e with _ e; subst e
  refine ⟨m1, hI, hS.stk, ?_⟩
  rcases hS with ⟨hM, rfl⟩ | ⟨_, mf, hf, rfl⟩
  · exact Or.inl ⟨hM, rfl⟩
  · exact Or.inr ⟨mf, hf, rfl⟩

/-- `(PUSH("a") ~ "x")*` with implicit blanks on `"ax ax ab"`: two iterations; the third skips a
blank, pushes `a`, fails on `b`: cursor 5 (not 6 or 7), two pushed entries (not three). -/
example : (c05Run (.rep .one 0 none c05PushAx) c05axab).okPos? = some 5 ∧
    (c05Run (.rep .one 0 none c05PushAx) c05axab).stkTxt? = some [['a'], ['a'], ['z']] ∧
    (c05Run (.rep .one 0 none c05PushAx) c05axab).nKids? = some 2 := by decide

/-- A failed repetition (fewer than `MIN` iterations): the stack is the one at the start of the
failing iteration, i.e. the one the successful iterations built. -/
theorem C05_rep_fail (g : NodeGrammar) (uni : Uni) (fuel : Nat) (inh : Bool) (sk : Flag)
    (min : Nat) (max : Option Nat) (x : Node) (i : Inp) (m : M) (m' : M)
    (h : parse g uni (fuel+1) inh (.rep sk min max x) i m = .fail m') :
    ∃ vs i1 m1, RepIters (parseRepUnit g uni fuel inh sk x) max 0 i m i1 m1 vs ∧ vs.length < min ∧
      m'.stk = m1.stk := by
  obtain ⟨vs, i1, m1, hI, hS, hmin, _⟩ := (parse_rep_fail_iff g uni fuel inh sk min max x i m m').mp h
  exact ⟨vs, i1, m1, hI, hmin, hS.stk⟩

example : (c05Run (.rep .one 3 none c05PushAx) c05axab).isFail = true := by decide

/-- With `MIN ≤ 1` only the first iteration can make the repetition fail: the original stack. -/
theorem C05_rep_fail_first (g : NodeGrammar) (uni : Uni) (fuel : Nat) (inh : Bool) (sk : Flag)
    (min : Nat) (max : Option Nat) (x : Node) (i : Inp) (m : M) (m' : M) (hmin : min ≤ 1)
    (h : parse g uni fuel inh (.rep sk min max x) i m = .fail m') : m'.stk = m.stk := by
  cases fuel with
  | zero => simp [parse] at h
  | succ fuel =>
    obtain ⟨vs, i1, m1, hI, hlt, hs⟩ := C05_rep_fail g uni fuel inh sk min max x i m m' h
    cases vs with
    | nil => obtain ⟨_, rfl⟩ := hI.nil_inv; exact hs
    | cons a vs => simp only [List.length_cons] at hlt; omega

example : (c05Run (.rep .one 1 none c05PushAx) c05ab).isFail = true ∧
    (c05Run (.rep .one 1 none c05PushAx) c05ab).stkTxt? = some [['z']] := by decide

/-- With `MIN = 0` a repetition never fails. -/
theorem C05_rep_min0_ne_fail (g : NodeGrammar) (uni : Uni) (fuel : Nat) (inh : Bool) (sk : Flag)
    (max : Option Nat) (x : Node) (i : Inp) (m : M) (m' : M) :
    parse g uni fuel inh (.rep sk 0 max x) i m ≠ .fail m' := by
  cases fuel with
  | zero => simp [parse]
  | succ fuel =>
    intro h
    obtain ⟨vs, _, _, _, hlt, _⟩ := C05_rep_fail g uni fuel inh sk 0 max x i m m' h
    omega

example : (c05Run (.rep .one 0 none c05PushAx) c05ab).okPos? = some 0 ∧
    (c05Run (.rep .one 0 none c05PushAx) c05ab).stkTxt? = some [['z']] := by decide

/-- The same give-back for the skip-repeat node: cursor and stack are those of the successful
iterations; the failed last attempt is undone; the caller's tracker is untouched. -/
theorem C05_atomicRepeat_giveback (g : NodeGrammar) (uni : Uni) (fuel : Nat) (inh : Bool)
    (x : Node) (i : Inp) (m : M) (i' : Inp) (m' : M) (v : Val)
    (h : parse g uni (fuel+1) inh (.atomicRepeat x) i m = .ok i' m' v) :
    ∃ vs m1 mf, v = .mk .atomicRepeat vs ∧
      RepIters (fun _ i m => parse g uni fuel inh x i m) none 0 i { m with trk := Tracker.new i } i' m1 vs ∧
      parse g uni fuel inh x i' m1 = .fail mf ∧ m'.stk = m1.stk ∧ m'.trk = m.trk := by
  obtain ⟨vs, m1, mf, rfl, hI, hf, rfl, _⟩ := (parse_atomicRepeat_ok_iff g uni fuel inh x i m i' m' v).mp h
  exact ⟨vs, m1, mf, rfl, hI, hf, rfl, rfl⟩

example : (c05Run (.atomicRepeat (.pair (.push (.str ['a'])) (.str ['x', ' ']))) c05axab).okPos? = some 6 ∧
    (c05Run (.atomicRepeat (.pair (.push (.str ['a'])) (.str ['x', ' ']))) c05axab).stkTxt? =
      some [['a'], ['a'], ['z']] := by decide

/-- NOT a theorem: "a failed `.rep` leaves the stack it found".  A repetition as a whole is not a
restore point: with `MIN = 3`, `(PUSH("a") ~ "x"){3,}` on `"ax ax ab"` fails in its third iteration
and leaves the two entries its first two iterations pushed (each *iteration* is undone, as the
property says; undoing the earlier ones is the job of the enclosing choice / optional / predicate).
This mirrors `RepeatMin::try_parse_partial_with` returning `None` without restoring. -/
theorem C05_counterexample_rep_fail_whole_restore :
    ∃ (g : NodeGrammar) (uni : Uni) (fuel : Nat) (inh : Bool) (sk : Flag) (min : Nat) (max : Option Nat)
      (x : Node) (i : Inp) (m : M),
      (parse g uni fuel inh (.rep sk min max x) i m).isFail = true ∧
      (parse g uni fuel inh (.rep sk min max x) i m).stk? ≠ some m.stk :=
  ⟨c05Grammar, c05Uni, 8, true, .one, 3, none, c05PushAx, c05In c05axab, c05M c05axab, by decide⟩

/-- … and the enclosing optional puts everything back. -/
example : (c05Run (.opt (.rep .one 3 none c05PushAx)) c05axab).okPos? = some 0 ∧
    (c05Run (.opt (.rep .one 3 none c05PushAx)) c05axab).stkTxt? = some [['z']] := by decide

/-! ### predicates -/

/-- `&x` succeeds iff `x` does (run with polarity `true`); it consumes nothing, puts the stack back
(even though `x` matched) and restores the polarity flag; the tracker keeps what `x` recorded. -/
theorem C05_pos_ok_iff (g : NodeGrammar) (uni : Uni) (fuel : Nat) (inh : Bool) (x : Node)
    (i : Inp) (m : M) (i' : Inp) (m' : M) (v : Val) :
    parse g uni (fuel+1) inh (.pos x) i m = .ok i' m' v ↔
      ∃ i1 m1 v0, parse g uni fuel inh x i { m with trk := { m.trk with positive := true } } = .ok i1 m1 v0 ∧
        i' = i ∧ m' = { stk := m.stk, trk := { m1.trk with positive := m.trk.positive } } ∧
        v = .mk .pos [v0] := by
  simp only [parse]
  cases parse g uni fuel inh x i { m with trk := { m.trk with positive := true } } with
  | oof => simp
  | fail mf => simp
  | ok i1 m1 v0 =>
    simp only [Res.ok.injEq]
    constructor
    · rintro ⟨rfl, rfl, rfl⟩; exact ⟨i1, m1, v0, ⟨rfl, rfl, rfl⟩, rfl, rfl, rfl⟩
    · rintro ⟨i2, m2, v2, ⟨rfl, rfl, rfl⟩, rfl, rfl, rfl⟩; exact ⟨rfl, rfl, rfl⟩

example : (c05Run (.pos (.push (.str ['a']))) c05ab).okPos? = some 0 ∧
    (c05Run (.pos (.push (.str ['a']))) c05ab).stkTxt? = some [['z']] := by decide

/-- `&x` fails iff `x` does; stack and polarity are put back. -/
theorem C05_pos_fail_iff (g : NodeGrammar) (uni : Uni) (fuel : Nat) (inh : Bool) (x : Node)
    (i : Inp) (m : M) (m' : M) :
    parse g uni (fuel+1) inh (.pos x) i m = .fail m' ↔
      ∃ m1, parse g uni fuel inh x i { m with trk := { m.trk with positive := true } } = .fail m1 ∧
        m' = { stk := m.stk, trk := { m1.trk with positive := m.trk.positive } } := by
  simp only [parse]
  cases parse g uni fuel inh x i { m with trk := { m.trk with positive := true } } with
  | oof => simp
  | ok i1 m1 v0 => simp
  | fail mf =>
    simp only [Res.fail.injEq]
    constructor
    · rintro rfl; exact ⟨mf, rfl, rfl⟩
    · rintro ⟨m1, rfl, rfl⟩; rfl

example : (c05Run (.pos c05PushAx) c05ab).isFail = true ∧
    (c05Run (.pos c05PushAx) c05ab).stkTxt? = some [['z']] := by decide

/-- `!x` succeeds iff `x` fails (run with polarity `false`, through the check path, which computes
what the parse path computes); nothing consumed, stack and polarity put back. -/
theorem C05_neg_ok_iff (g : NodeGrammar) (uni : Uni) (fuel : Nat) (inh : Bool) (x : Node)
    (i : Inp) (m : M) (i' : Inp) (m' : M) (v : Val) :
    parse g uni (fuel+1) inh (.neg x) i m = .ok i' m' v ↔
      ∃ m1, parse g uni fuel inh x i { m with trk := { m.trk with positive := false } } = .fail m1 ∧
        i' = i ∧ m' = { stk := m.stk, trk := { m1.trk with positive := m.trk.positive } } ∧
        v = .leaf .neg := by
  simp only [parse]
  rw [check_eq_parse_forget]
  cases parse g uni fuel inh x i { m with trk := { m.trk with positive := false } } with
  | oof => simp [Res.forget]
  | ok i1 m1 v0 => simp [Res.forget]
  | fail mf =>
    simp only [Res.forget, Res.ok.injEq, Res.fail.injEq]
    constructor
    · rintro ⟨rfl, rfl, rfl⟩; exact ⟨mf, rfl, rfl, rfl, rfl⟩
    · rintro ⟨m1, rfl, rfl, rfl, rfl⟩; exact ⟨rfl, rfl, rfl⟩

example : (c05Run (.neg c05DropQ) c05ab).okPos? = some 0 ∧
    (c05Run (.neg c05DropQ) c05ab).stkTxt? = some [['z']] := by decide

/-- `!x` fails iff `x` matches; the stack is put back although `x` matched. -/
theorem C05_neg_fail_iff (g : NodeGrammar) (uni : Uni) (fuel : Nat) (inh : Bool) (x : Node)
    (i : Inp) (m : M) (m' : M) :
    parse g uni (fuel+1) inh (.neg x) i m = .fail m' ↔
      ∃ i1 m1 v0, parse g uni fuel inh x i { m with trk := { m.trk with positive := false } } = .ok i1 m1 v0 ∧
        m' = { stk := m.stk, trk := { m1.trk with positive := m.trk.positive } } := by
  simp only [parse]
  rw [check_eq_parse_forget]
  cases parse g uni fuel inh x i { m with trk := { m.trk with positive := false } } with
  | oof => simp [Res.forget]
  | fail mf => simp [Res.forget]
  | ok i1 m1 v0 =>
    simp only [Res.forget, Res.fail.injEq, Res.ok.injEq]
    constructor
    · rintro rfl; exact ⟨i1, m1, v0, ⟨rfl, rfl, rfl⟩, rfl⟩
    · rintro ⟨i2, m2, v2, ⟨rfl, rfl, rfl⟩, rfl⟩; rfl

example : (c05Run (.neg (.pair .drop (.str ['a']))) c05ab).isFail = true ∧
    (c05Run (.neg (.pair .drop (.str ['a']))) c05ab).stkTxt? = some [['z']] := by decide

/-- Both predicates, every exit: the stack is the original one, the polarity flag is the original
one, and on success the cursor is the original one. -/
theorem C05_pred (g : NodeGrammar) (uni : Uni) (fuel : Nat) (inh : Bool) (x : Node) (i : Inp) (m : M)
    (p : Node) (hp : p = .pos x ∨ p = .neg x) :
    (∀ m', parse g uni fuel inh p i m = .fail m' → m'.stk = m.stk ∧ m'.trk.positive = m.trk.positive) ∧
    (∀ i' m' v, parse g uni fuel inh p i m = .ok i' m' v →
      i' = i ∧ m'.stk = m.stk ∧ m'.trk.positive = m.trk.positive) := by
  cases fuel with
  | zero => constructor <;> (intros; rename_i h; rcases hp with rfl | rfl <;> simp [parse] at h)
  | succ fuel =>
    rcases hp with rfl | rfl
    · constructor
      · intro m' h
        obtain ⟨m1, _, rfl⟩ := (C05_pos_fail_iff g uni fuel inh x i m m').mp h
        exact ⟨rfl, rfl⟩
      · intro i' m' v h
        obtain ⟨i1, m1, v0, _, rfl, rfl, _⟩ := (C05_pos_ok_iff g uni fuel inh x i m i' m' v).mp h
        exact ⟨rfl, rfl, rfl⟩
    · constructor
      · intro m' h
        obtain ⟨i1, m1, v0, _, rfl⟩ := (C05_neg_fail_iff g uni fuel inh x i m m').mp h
        exact ⟨rfl, rfl⟩
      · intro i' m' v h
        obtain ⟨m1, _, rfl, rfl, _⟩ := (C05_neg_ok_iff g uni fuel inh x i m i' m' v).mp h
        exact ⟨rfl, rfl, rfl⟩

example : (c05Run (.neg (.pos (.push (.str ['a'])))) c05ab).isFail = true ∧
    (c05Run (.neg (.pos (.push (.str ['a'])))) c05ab).stkTxt? = some [['z']] ∧
    (c05Run (.neg (.pos (.push (.str ['a'])))) c05ab).positive? = some true := by decide

/-! ### compositional form -/

/-- No trace: a failure of a restore point (`.opt`, `.choice`, `.atomicRepeat`, `.pos`, `.neg`, and
`.rep` with `MIN ≤ 1`) leaves the stack exactly as it was before the attempt, whatever stack
operations ran inside it and however deeply they are nested. -/
theorem C05_no_trace (g : NodeGrammar) (uni : Uni) (fuel : Nat) (inh : Bool) (n : Node) (i : Inp) (m m' : M)
    (hn : n.restoresOnFail = true) (h : parse g uni fuel inh n i m = .fail m') : m'.stk = m.stk := by
  cases n with
  | opt x => exact absurd h (C05_opt_ne_fail g uni fuel inh x i m m')
  | choice alts => exact C05_choice_fail_stk g uni fuel inh alts i m m' h
  | atomicRepeat x => exact absurd h (parse_atomicRepeat_ne_fail g uni fuel inh x i m m')
  | pos x => exact ((C05_pred g uni fuel inh x i m _ (Or.inl rfl)).1 m' h).1
  | neg x => exact ((C05_pred g uni fuel inh x i m _ (Or.inr rfl)).1 m' h).1
  | rep sk min max x =>
    simp only [Node.restoresOnFail, decide_eq_true_eq] at hn
    exact C05_rep_fail_first g uni fuel inh sk min max x i m m' hn h
  | _ => simp [Node.restoresOnFail] at hn

example : (c05Run (.choice [.pair (.opt (.push (.str ['a']))) c05DropQ, c05DropQ]) c05ab).isFail = true ∧
    (c05Run (.choice [.pair (.opt (.push (.str ['a']))) c05DropQ, c05DropQ]) c05ab).stkTxt? = some [['z']] := by
  decide

/-- Optionals, repetitions with `MIN = 0` and the skip-repeat node never fail. -/
theorem C05_never_fail (g : NodeGrammar) (uni : Uni) (fuel : Nat) (inh : Bool) (sk : Flag)
    (max : Option Nat) (x : Node) (i : Inp) (m m' : M) :
    parse g uni fuel inh (.opt x) i m ≠ .fail m' ∧
    parse g uni fuel inh (.rep sk 0 max x) i m ≠ .fail m' ∧
    parse g uni fuel inh (.atomicRepeat x) i m ≠ .fail m' :=
  ⟨C05_opt_ne_fail g uni fuel inh x i m m', C05_rep_min0_ne_fail g uni fuel inh sk max x i m m',
   parse_atomicRepeat_ne_fail g uni fuel inh x i m m'⟩

example : (c05Run (.rep .zero 0 (some 2) c05DropQ) c05ab).isOk = true := by decide

/-- The same on the check path. -/
theorem C05_check_no_trace (g : NodeGrammar) (uni : Uni) (fuel : Nat) (inh : Bool) (n : Node) (i : Inp)
    (m m' : M) (hn : n.restoresOnFail = true) (h : check g uni fuel inh n i m = .fail m') :
    m'.stk = m.stk :=
  C05_no_trace g uni fuel inh n i m m' hn ((check_fail_iff g uni fuel inh n i m m').mp h)

example : (c05Chk (.choice [c05PushAx, c05DropQ]) c05ab).isFail = true ∧
    (c05Chk (.choice [c05PushAx, c05DropQ]) c05ab).stkTxt? = some [['z']] := by decide

theorem C05_check_never_fail (g : NodeGrammar) (uni : Uni) (fuel : Nat) (inh : Bool) (sk : Flag)
    (max : Option Nat) (x : Node) (i : Inp) (m m' : M) :
    check g uni fuel inh (.opt x) i m ≠ .fail m' ∧
    check g uni fuel inh (.rep sk 0 max x) i m ≠ .fail m' ∧
    check g uni fuel inh (.atomicRepeat x) i m ≠ .fail m' := by
  have := C05_never_fail g uni fuel inh sk max x i m m'
  refine ⟨fun h => this.1 ((check_fail_iff ..).mp h), fun h => this.2.1 ((check_fail_iff ..).mp h),
    fun h => this.2.2 ((check_fail_iff ..).mp h)⟩

example : (c05Chk (.opt c05PushAx) c05ab).okPos? = some 0 ∧
    (c05Chk (.opt c05PushAx) c05ab).stkTxt? = some [['z']] := by decide

end PestTyped
