/-
Props.C19Never — C19 for the counted repetitions used as `NeverFailedTypedNode`s.

Property (properties.jsonl, C19): "a bounded repetition matches greedily, yields between MIN and MAX
elements, fails exactly when fewer than MIN iterations match, never consumes a skip that is not
followed by a matched iteration, and stops at MAX even if more could match; … Parse and check agree
for all of them."

`Props/C19.lean` proves these clauses for the `TypedNode` loops (`Node.rep`).  The same two types
have a SECOND pair of loops in `main/src/predefined_node/repetition.rs`:
`impl NeverFailedTypedNode for RepeatMin<Skipped<T,Skip,SKIP>,0>` and
`for RepeatMinMax<Skipped<T,Skip,SKIP>,0,MAX>` (`parse_with`, `check_with`) — what runs when such a
type is the `Skip` parameter of `Skipped<_,Skip,_>` or the `$ignored` of `rule!`.  They are modelled
in `Model/NeverFailed.lean` (`nfRepParse` / `nfRepCheck`, loops `nfLoop` / `nfLoopC`, `max = none` for
`RepeatMin`, `max = some MAX` for `RepeatMinMax`, `SKIP = k`, `Skip = g.skipped`, `T = x`).  Here `MIN`
is 0 by type, so "between MIN and MAX" is "at most MAX" and "fails exactly when fewer than MIN
match" is "never fails".  All theorems hold for every grammar `g`, unicode table `uni`, fuel, flag
`inh`, skip count `k`, bound `max`, element `x`, cursor `i`, state `m` (any stack, any tracker).

The iterated unit is `nfUnit g uni fuel inh k x` (`try_parse_unit`: for iteration `idx > 0` the `k`
implicit skips, then the element).  The loop runs on a private tracker `Tracker.new i`; a run is
described by `RepIters U max 0 i {m with trk := Tracker.new i} i' m1 vs` and `RepStop U max k i' m1 ms`
(`Lemmas/RepLoop.lean`).

Theorems (clause of C19)
* `C19_nf_parse_ok_iff`, `C19_nf_check_ok_iff` — exact characterisation of the successful runs.
* `C19_nf_parse_never_fails`, `C19_nf_check_never_fails` — "fails exactly when fewer than MIN match", MIN = 0.
* `C19_nf_value_shape`, `C19_nf_count_le_max` — "yields between MIN and MAX elements".
* `C19_nf_stops_at_max` — "stops at MAX even if more could match".
* `C19_nf_greedy` — "matches greedily".
* `C19_nf_restore`, `C19_nf_no_dangling_skip` — "never consumes a skip that is not followed by a matched
  iteration" (and the stack effects of the failed last attempt are undone).
* `C19_nf_check_eq_parse`, `C19_nf_tryParse_check_agree` — "parse and check agree".
* `C19_nf_tracker_independent`, `C19_nf_check_tracker_independent`, `C19_nf_caller_tracker_untouched`,
  `C19_nf_check_caller_tracker_untouched` — the loops run on a private tracker.
* `C19_nf_adv` — the cursor only advances.
* `C19_nf_parse_oof_iff`, `C19_nf_bounded_no_budget_oof`, `C19_nf_bounded_ne_oof` — fuel: for
  `RepeatMinMax` the model's iteration budget is never the reason for running out of fuel.
* `C19_nf_skip0_eq_atomicRepeat` — with `SKIP = 0` and no `MAX` the node is the skip-repeat node.
-/
import PestTyped.Lemmas.NeverFailedLemmas
import PestTyped.Lemmas.Consumed
import PestTyped.Props.C19
namespace PestTyped

/-- The unit iterated by the never-failed loops (`try_parse_unit::<_, _, T, Skip, K>`). -/
def nfUnit (g : NodeGrammar) (uni : Uni) (fuel : Nat) (inh : Bool) (k : Nat) (x : Node) :
    Nat → Inp → M → R Val :=
  repUnitP (parse g uni fuel false g.skipped) (parse g uni fuel inh x) (defaultSkipVal g) k

theorem nfUnit_adv (g : NodeGrammar) (uni : Uni) (fuel : Nat) (inh : Bool) (k : Nat) (x : Node)
    (idx : Nat) : AdvFn (nfUnit g uni fuel inh k x idx) :=
  repUnitP_adv _ _ (parse_adv g uni fuel false g.skipped) (parse_adv g uni fuel inh x) _ _ idx

/-! ### concrete instances (grammar `c19Grammar`: WHITESPACE = `" "`, skip type `AtomicRepeat<WHITESPACE>`) -/

/-- `RepeatMinMax<Skipped<"a", Skip, 1>, 0, 2>::parse_with` / `RepeatMin<Skipped<"a", Skip, 1>, 0>::parse_with`. -/
def c19NfRun (k : Nat) (max : Option Nat) (x : Node) (s : List Char) : R Val :=
  nfRepParse c19Grammar c19Uni 8 false k max x (c19In s) (c19M s)

def c19NfChk (k : Nat) (max : Option Nat) (x : Node) (s : List Char) : R Unit :=
  nfRepCheck c19Grammar c19Uni 8 false k max x (c19In s) (c19M s)

/-! ### exact characterisation -/

/-- `parse_with` returns `v` at `(i', m')` iff `v` holds the values `vs` of a run of successful
iterations `0 … vs.length-1` on a fresh tracker, which left `(i', m1)`; the loop stopped there (`MAX`
reached, or iteration `vs.length` failed and its stack effects were undone: state `ms`); the stack
returned is that of `ms` (= that of `m1`) and the tracker returned is the caller's. -/
theorem C19_nf_parse_ok_iff (g : NodeGrammar) (uni : Uni) (fuel : Nat) (inh : Bool) (k : Nat)
    (max : Option Nat) (x : Node) (i : Inp) (m : M) (i' : Inp) (m' : M) (v : Val) :
    nfRepParse g uni (fuel+1) inh k max x i m = .ok i' m' v ↔
      ∃ vs m1 ms, v = .mk (.rep 0 max) vs ∧
        RepIters (nfUnit g uni fuel inh k x) max 0 i { m with trk := Tracker.new i } i' m1 vs ∧
        RepStop (nfUnit g uni fuel inh k x) max vs.length i' m1 ms ∧
        m' = { stk := ms.stk, trk := m.trk } ∧ vs.length < nfBudget fuel max := by
  simp only [nfRepParse]
  have key := nfLoop_ok_iff0 (nfUnit g uni fuel inh k x) max (nfBudget fuel max) i
    { m with trk := Tracker.new i }
  unfold nfUnit at key ⊢
  cases hr : nfLoop (repUnitP (parse g uni fuel false g.skipped) (parse g uni fuel inh x)
      (defaultSkipVal g) k) max (nfBudget fuel max) 0 i { m with trk := Tracker.new i } [] with
  | oof =>
    simp only [reduceCtorEq, false_iff, not_exists, not_and]
    rintro vs m1 ms rfl hI hS rfl hb
    have := (key i' ms vs).mpr ⟨m1, hI, hS, hb⟩
    rw [hr] at this; cases this
  | fail mf0 =>
    simp only [reduceCtorEq, false_iff, not_exists, not_and]
    rintro vs m1 ms rfl hI hS rfl hb
    have := (key i' ms vs).mpr ⟨m1, hI, hS, hb⟩
    rw [hr] at this; cases this
  | ok i1 mo vs =>
    simp only [Res.ok.injEq]
    constructor
    · rintro ⟨rfl, rfl, rfl⟩
      obtain ⟨m2, hI, hS, hb⟩ := (key i1 mo vs).mp hr
      exact ⟨vs, m2, mo, rfl, hI, hS, rfl, hb⟩
    · rintro ⟨vs', m2, ms, rfl, hI, hS, rfl, hb⟩
      have := (key i' ms vs').mpr ⟨m2, hI, hS, hb⟩
      rw [hr] at this
      injection this with e1 e2 e3
      subst e1; subst e2; subst e3
      exact ⟨rfl, rfl, rfl⟩

/-- `"a"{0,2}` with one implicit skip on `"a a a a"`: 2 elements, cursor after the second `a`;
`"a"*`: 4 elements, cursor 7. -/
example : (c19NfRun 1 (some 2) (.str ['a']) c19aaaa).okPos? = some 3 ∧
    (c19NfRun 1 (some 2) (.str ['a']) c19aaaa).nKids? = some 2 ∧
    (c19NfRun 1 none (.str ['a']) c19aaaa).okPos? = some 7 ∧
    (c19NfRun 1 none (.str ['a']) c19aaaa).nKids? = some 4 := by decide

/-- The value built is a `.rep 0 max` node. -/
theorem C19_nf_value_shape (g : NodeGrammar) (uni : Uni) (fuel : Nat) (inh : Bool) (k : Nat)
    (max : Option Nat) (x : Node) (i : Inp) (m : M) (i' : Inp) (m' : M) (v : Val)
    (h : nfRepParse g uni fuel inh k max x i m = .ok i' m' v) : ∃ vs, v = .mk (.rep 0 max) vs := by
  cases fuel with
  | zero => simp [nfRepParse] at h
  | succ fuel =>
    obtain ⟨vs, _, _, rfl, _⟩ := (C19_nf_parse_ok_iff g uni fuel inh k max x i m i' m' v).mp h
    exact ⟨vs, rfl⟩

example : (c19NfRun 1 (some 2) (.str ['a']) c19aaaa).isOk = true := by decide

/-! ### never a failure (`MIN = 0`) -/

/-- `parse_with` has no failure exit: the `.fail` arm of the model is unreachable, for every fuel. -/
theorem C19_nf_parse_never_fails (g : NodeGrammar) (uni : Uni) (fuel : Nat) (inh : Bool) (k : Nat)
    (max : Option Nat) (x : Node) (i : Inp) (m : M) (mf : M) :
    nfRepParse g uni fuel inh k max x i m ≠ .fail mf := by
  cases fuel with
  | zero => simp [nfRepParse]
  | succ fuel =>
    simp only [nfRepParse]
    cases hr : nfLoop (repUnitP (parse g uni fuel false g.skipped) (parse g uni fuel inh x)
        (defaultSkipVal g) k) max (nfBudget fuel max) 0 i { m with trk := Tracker.new i } [] with
    | oof => simp
    | fail mf0 => exact absurd hr (nfLoop_ne_fail _ _ _ _ _ _ _ _)
    | ok i1 m1 vs => simp

/-- Element `"b"` on `"a a a a"`: zero iterations, success at the entry cursor. -/
example : (c19NfRun 1 (some 2) (.str ['b']) c19aaaa).okPos? = some 0 ∧
    (c19NfRun 1 (some 2) (.str ['b']) c19aaaa).nKids? = some 0 ∧
    (c19NfRun 1 (some 0) (.str ['a']) c19aaaa).okPos? = some 0 := by decide

/-- `check_with` has no failure exit either. -/
theorem C19_nf_check_never_fails (g : NodeGrammar) (uni : Uni) (fuel : Nat) (inh : Bool) (k : Nat)
    (max : Option Nat) (x : Node) (i : Inp) (m : M) (mf : M) :
    nfRepCheck g uni fuel inh k max x i m ≠ .fail mf := by
  cases fuel with
  | zero => simp [nfRepCheck]
  | succ fuel =>
    simp only [nfRepCheck]
    cases hr : nfLoopC (repUnitC (check g uni fuel false g.skipped) (check g uni fuel inh x) k)
        max (nfBudget fuel max) 0 i { m with trk := Tracker.new i } with
    | oof => simp
    | fail mf0 => exact absurd hr (nfLoopC_ne_fail _ _ _ _ _ _ _)
    | ok i1 m1 u => simp

example : (c19NfChk 1 (some 2) (.str ['b']) c19aaaa).okPos? = some 0 := by decide

/-! ### bounds -/

/-- At most `MAX` elements. -/
theorem C19_nf_count_le_max (g : NodeGrammar) (uni : Uni) (fuel : Nat) (inh : Bool) (k : Nat)
    (mx : Nat) (x : Node) (i : Inp) (m : M) (i' : Inp) (m' : M) (vs : List Val)
    (h : nfRepParse g uni fuel inh k (some mx) x i m = .ok i' m' (.mk (.rep 0 (some mx)) vs)) :
    vs.length ≤ mx := by
  cases fuel with
  | zero => simp [nfRepParse] at h
  | succ fuel =>
    obtain ⟨vs', m1, ms, e, hI, _⟩ := (C19_nf_parse_ok_iff g uni fuel inh k _ x i m i' m' _).mp h
    injection e with _ e; subst e
    simpa using hI.max_bound mx rfl (Nat.zero_le _)

example : (c19NfRun 1 (some 2) (.str ['a']) c19aaaa).nKids? = some 2 ∧
    (c19NfRun 1 (some 3) (.str ['a']) c19ab).nKids? = some 1 := by decide

/-- Stops at `MAX`: when `MAX` elements were matched nothing further is attempted — the state
returned is exactly the stack the `MAX`-th iteration left (with the caller's tracker), the cursor is
the cursor that iteration returned — even if more could match. -/
theorem C19_nf_stops_at_max (g : NodeGrammar) (uni : Uni) (fuel : Nat) (inh : Bool) (k : Nat)
    (mx : Nat) (x : Node) (i : Inp) (m : M) (i' : Inp) (m' : M) (vs : List Val)
    (h : nfRepParse g uni (fuel+1) inh k (some mx) x i m = .ok i' m' (.mk (.rep 0 (some mx)) vs))
    (hl : vs.length = mx) :
    ∃ m1, RepIters (nfUnit g uni fuel inh k x) (some mx) 0 i { m with trk := Tracker.new i } i' m1 vs ∧
      RepStop (nfUnit g uni fuel inh k x) (some mx) vs.length i' m1 m1 ∧
      m' = { stk := m1.stk, trk := m.trk } ∧
      (vs ≠ [] → ∃ i0 m0 a, nfUnit g uni fuel inh k x (mx - 1) i0 m0 = .ok i' m1 a ∧
        vs.getLast? = some a) := by
  obtain ⟨vs', m1, ms, e, hI, hS, rfl, _⟩ := (C19_nf_parse_ok_iff g uni fuel inh k _ x i m i' m' _).mp h
  injection e with _ e; subst e
  rcases hS with ⟨_, hms⟩ | ⟨hne, _⟩
  · refine ⟨m1, hI, Or.inl ⟨by rw [hl], rfl⟩, by rw [hms], fun hne => ?_⟩
    obtain ⟨i0, m0, a, hu, hlast⟩ := hI.last hne
    refine ⟨i0, m0, a, ?_, hlast⟩
    rw [← hl]; simpa using hu
  · exact absurd (by rw [hl]) hne

/-- Element `"a"`, no skip, `MAX = 2`, input `"aaaa"`: cursor 2, two elements — although two more
`a` follow; with `MAX = 3` the same input gives 3. -/
example : (c19NfRun 0 (some 2) (.str ['a']) ['a', 'a', 'a', 'a']).okPos? = some 2 ∧
    (c19NfRun 0 (some 2) (.str ['a']) ['a', 'a', 'a', 'a']).nKids? = some 2 ∧
    (c19NfRun 0 (some 3) (.str ['a']) ['a', 'a', 'a', 'a']).okPos? = some 3 := by decide

/-- Greedy: if the loop stopped below `MAX` (or there is no `MAX`), the next unit — iteration
`vs.length`, run from the cursor returned and the state the last successful iteration left — fails:
the chain of iterations is maximal. -/
theorem C19_nf_greedy (g : NodeGrammar) (uni : Uni) (fuel : Nat) (inh : Bool) (k : Nat)
    (max : Option Nat) (x : Node) (i : Inp) (m : M) (i' : Inp) (m' : M) (vs : List Val)
    (h : nfRepParse g uni (fuel+1) inh k max x i m = .ok i' m' (.mk (.rep 0 max) vs))
    (hmax : ∀ mx, max = some mx → vs.length < mx) :
    ∃ m1 mf, RepIters (nfUnit g uni fuel inh k x) max 0 i { m with trk := Tracker.new i } i' m1 vs ∧
      nfUnit g uni fuel inh k x vs.length i' m1 = .fail mf ∧ m' = { stk := m1.stk, trk := m.trk } := by
  obtain ⟨vs', m1, ms, e, hI, hS, rfl, _⟩ := (C19_nf_parse_ok_iff g uni fuel inh k max x i m i' m' _).mp h
  injection e with _ e; subst e
  rcases hS with ⟨hM, _⟩ | ⟨_, mf, hf, rfl⟩
  · exact absurd (hmax _ hM) (Nat.lt_irrefl _)
  · exact ⟨m1, mf, hI, hf, rfl⟩

/-- `"a"{0,3}` on `"a a b"`: two elements (below `MAX`), the third unit fails at `b`. -/
example : (c19NfRun 1 (some 3) (.str ['a']) c19aab).okPos? = some 3 ∧
    (c19NfRun 1 (some 3) (.str ['a']) c19aab).nKids? = some 2 ∧
    (nfUnit c19Grammar c19Uni 7 false 1 (.str ['a']) 2 ((c19In c19aab).adv 3) (c19M c19aab)).isFail = true := by
  decide

/-! ### per-iteration restore, no dangling skip -/

/-- Per-iteration `restore_on_none`: the stack returned is the stack the last successful iteration
left (the effects of the failed attempt after it are undone), the cursor returned is the cursor the
last successful iteration returned (the failed attempt's cursor movements, its implicit skip
included, are given back); with zero successful iterations cursor and stack are the caller's. -/
theorem C19_nf_restore (g : NodeGrammar) (uni : Uni) (fuel : Nat) (inh : Bool) (k : Nat)
    (max : Option Nat) (x : Node) (i : Inp) (m : M) (i' : Inp) (m' : M) (vs : List Val)
    (h : nfRepParse g uni (fuel+1) inh k max x i m = .ok i' m' (.mk (.rep 0 max) vs)) :
    ∃ m1, RepIters (nfUnit g uni fuel inh k x) max 0 i { m with trk := Tracker.new i } i' m1 vs ∧
      m'.stk = m1.stk ∧ m'.trk = m.trk ∧
      (vs = [] → i' = i ∧ m'.stk = m.stk) ∧
      (vs ≠ [] → ∃ i0 m0 a, nfUnit g uni fuel inh k x (vs.length - 1) i0 m0 = .ok i' m1 a ∧
        vs.getLast? = some a) := by
  obtain ⟨vs', m1, ms, e, hI, hS, rfl, _⟩ := (C19_nf_parse_ok_iff g uni fuel inh k max x i m i' m' _).mp h
  injection e with _ e; subst e
  refine ⟨m1, hI, hS.stk, rfl, ?_, ?_⟩
  · rintro rfl
    obtain ⟨rfl, rfl⟩ := hI.nil_inv
    exact ⟨rfl, hS.stk⟩
  · intro hne
    obtain ⟨i0, m0, a, hu, hlast⟩ := hI.last hne
    exact ⟨i0, m0, a, by simpa using hu, hlast⟩

example : (c19NfRun 1 none (.str ['b']) c19ab).okPos? = some 0 ∧
    (c19NfRun 1 none (.str ['b']) c19ab).stk? = some [] := by decide

/-- No dangling skip: either nothing matched (cursor and stack untouched) or `vs = vs0 ++ [a]` and:
the first `vs0.length` iterations lead to `(iP, mP)`; from there the `k` implicit skips of the last
iteration run to `(iS, mS)` (none for the very first iteration); the element `x` run from `(iS, mS)`
ends EXACTLY at the returned cursor `i'` (state `mb`); the returned stack is `mb.stk`; and the loop
stopped there (`RepStop` at `(i', mb)`).  Whatever the attempt after the last match consumed — its
skip included — was given back. -/
theorem C19_nf_no_dangling_skip (g : NodeGrammar) (uni : Uni) (fuel : Nat) (inh : Bool) (k : Nat)
    (max : Option Nat) (x : Node) (i : Inp) (m : M) (i' : Inp) (m' : M) (vs : List Val)
    (h : nfRepParse g uni (fuel+1) inh k max x i m = .ok i' m' (.mk (.rep 0 max) vs)) :
    (vs = [] ∧ i' = i ∧ m'.stk = m.stk) ∨
    (∃ vs0 a iP mP iS mS mb ms skv v,
      vs = vs0 ++ [a] ∧
      RepIters (nfUnit g uni fuel inh k x) max 0 i { m with trk := Tracker.new i } iP mP vs0 ∧
      ((vs0 = [] ∧ iP = i ∧ iS = iP ∧ mS = mP ∧ skv = List.replicate k (defaultSkipVal g)) ∨
       (vs0 ≠ [] ∧ skipLoop (parse g uni fuel false g.skipped) k iP mP [] = .ok iS mS skv)) ∧
      parse g uni fuel inh x iS mS = .ok i' mb v ∧
      a = mkSkipped skv v ∧
      RepStop (nfUnit g uni fuel inh k x) max vs.length i' mb ms ∧
      m' = { stk := mb.stk, trk := m.trk } ∧
      i.Adv iP ∧ iP.Adv iS ∧ iS.Adv i') := by
  obtain ⟨vs', m1, ms, e, hI, hS, rfl, _⟩ := (C19_nf_parse_ok_iff g uni fuel inh k max x i m i' m' _).mp h
  injection e with _ e; subst e
  rcases List.eq_nil_or_concat vs with rfl | ⟨vs0, a, hvs⟩
  · obtain ⟨rfl, rfl⟩ := hI.nil_inv
    exact Or.inl ⟨rfl, rfl, hS.stk⟩
  · right
    rw [List.concat_eq_append] at hvs
    subst hvs
    obtain ⟨iP, mP, hI0, _, hU⟩ := RepIters.snoc_inv vs0 hI
    simp only [Nat.zero_add] at hU
    have hadv0 : i.Adv iP := hI0.adv (nfUnit_adv g uni fuel inh k x)
    have hbody := parse_adv g uni fuel inh x
    have hstk : ({ stk := ms.stk, trk := m.trk } : M) = { stk := m1.stk, trk := m.trk } := by rw [hS.stk]
    unfold nfUnit at hU
    rcases (repUnitP_ok_iff _ _ _ _ _ _ _ _ _ _).mp hU with ⟨h0, v0, hb, hv⟩ | ⟨h0, iS, mS, skv, v0, hs, hb, hv⟩
    · have hnil : vs0 = [] := List.eq_nil_of_length_eq_zero h0
      subst hnil
      obtain ⟨rfl, rfl⟩ := hI0.nil_inv
      exact ⟨[], a, iP, _, iP, _, m1, ms, _, v0, rfl, hI0, Or.inl ⟨rfl, rfl, rfl, rfl, rfl⟩, hb, hv,
        hS, hstk, hadv0, Inp.Adv.refl _, hbody _ _ _ _ _ hb⟩
    · have hne : vs0 ≠ [] := by intro e; rw [e] at h0; exact h0 rfl
      exact ⟨vs0, a, iP, mP, iS, mS, m1, ms, skv, v0, rfl, hI0, Or.inr ⟨hne, hs⟩, hb, hv, hS, hstk, hadv0,
        skipLoop_adv _ (parse_adv g uni fuel false g.skipped) _ _ _ _ _ _ _ hs, hbody _ _ _ _ _ hb⟩

/-- `"a"*` with one implicit skip on `"a b"`: one element, cursor 1 (after `a`) — not 2, where the
skip of the second, failed, attempt ended. -/
example : (c19NfRun 1 none (.str ['a']) c19ab).okPos? = some 1 ∧
    (c19NfRun 1 none (.str ['a']) c19ab).nKids? = some 1 ∧
    (c19NfRun 1 (some 3) (.str ['a']) c19aab).okPos? = some 3 := by decide

/-! ### parse and check agree -/

/-- `check_with` computes exactly what `parse_with` computes, value forgotten: same verdict, cursor,
stack and tracker, for every fuel. -/
theorem C19_nf_check_eq_parse (g : NodeGrammar) (uni : Uni) (fuel : Nat) (inh : Bool) (k : Nat)
    (max : Option Nat) (x : Node) (i : Inp) (m : M) :
    nfRepCheck g uni fuel inh k max x i m = (nfRepParse g uni fuel inh k max x i m).forget := by
  cases fuel with
  | zero => rfl
  | succ fuel =>
    simp only [nfRepCheck, nfRepParse]
    rw [nfLoopC_eq0 _ (repUnitP (parse g uni fuel false g.skipped) (parse g uni fuel inh x)
      (defaultSkipVal g) k)
      (repUnitC_eq _ _ _ _ _ _ (check_eq_parse_forget g uni fuel false g.skipped)
        (check_eq_parse_forget g uni fuel inh x))]
    cases nfLoop (repUnitP (parse g uni fuel false g.skipped) (parse g uni fuel inh x)
        (defaultSkipVal g) k) max (nfBudget fuel max) 0 i { m with trk := Tracker.new i } [] <;> rfl

example : (c19NfChk 1 (some 2) (.str ['a']) c19aaaa).okPos? = some 3 ∧
    (c19NfChk 1 none (.str ['a']) c19aaaa).okPos? = some 7 ∧
    (c19NfChk 1 none (.str ['a']) c19ab).okPos? = some 1 := by decide

/-- The successful runs of `check_with`. -/
theorem C19_nf_check_ok_iff (g : NodeGrammar) (uni : Uni) (fuel : Nat) (inh : Bool) (k : Nat)
    (max : Option Nat) (x : Node) (i : Inp) (m : M) (i' : Inp) (m' : M) :
    nfRepCheck g uni (fuel+1) inh k max x i m = .ok i' m' () ↔
      ∃ vs m1 ms,
        RepIters (nfUnit g uni fuel inh k x) max 0 i { m with trk := Tracker.new i } i' m1 vs ∧
        RepStop (nfUnit g uni fuel inh k x) max vs.length i' m1 ms ∧
        m' = { stk := ms.stk, trk := m.trk } ∧ vs.length < nfBudget fuel max := by
  rw [C19_nf_check_eq_parse]
  constructor
  · intro h
    cases hp : nfRepParse g uni (fuel+1) inh k max x i m with
    | oof => rw [hp] at h; cases h
    | fail mf => rw [hp] at h; cases h
    | ok i1 m1 v =>
      rw [hp] at h
      simp only [Res.forget_ok, Res.ok.injEq] at h
      obtain ⟨rfl, rfl, _⟩ := h
      obtain ⟨vs, m2, ms, _, h'⟩ := (C19_nf_parse_ok_iff g uni fuel inh k max x i m _ _ v).mp hp
      exact ⟨vs, m2, ms, h'⟩
  · rintro ⟨vs, m1, ms, h'⟩
    rw [(C19_nf_parse_ok_iff g uni fuel inh k max x i m i' m' _).mpr ⟨vs, m1, ms, rfl, h'⟩]
    rfl

example : (c19NfChk 1 (some 2) (.str ['a']) c19aaaa).isOk = true := by decide

/-- `try_check` and `try_parse` of a rule whose `$ignored` is one of the two never-failed repetition
types agree. -/
theorem C19_nf_tryParse_check_agree (g : NodeGrammar) (uni : Uni) (fuel : Nat) (r : RuleId) (k : Nat)
    (max : Option Nat) (x : Node) (i : Inp) :
    tryCheckNF g uni fuel r k max x i = (tryParseNF g uni fuel r k max x i).forget := by
  unfold tryCheckNF tryParseNF
  cases g.rule? r with
  | none => rfl
  | some d =>
    simp only []
    rw [check_eq_parse_forget]
    cases parse g uni fuel true (.ref r .one) i (M.init i) with
    | oof => rfl
    | fail m => rfl
    | ok i' m v =>
      simp only [Res.forget]
      split
      · split <;> rfl
      · rw [C19_nf_check_eq_parse]
        cases nfRepParse g uni fuel false k max x i' m with
        | oof => rfl
        | fail m' => rfl
        | ok i'' m' sv => simp only [Res.forget]; split <;> rfl

/-- Rule `r = "a"{1,3}` with `$ignored = RepeatMin<Skipped<WHITESPACE, _, 0>, 0>` on `"a a "`: the
trailing blank is taken by the never-failed loop, then `EOI` matches; with `MAX = 0` it does not. -/
example : (tryParseNF c19Grammar c19Uni 8 1 0 none (.ref 2 .zero) (c19In ['a', ' ', 'a', ' '])).okPos? = some 4 ∧
    (tryCheckNF c19Grammar c19Uni 8 1 0 none (.ref 2 .zero) (c19In ['a', ' ', 'a', ' '])).okPos? = some 4 ∧
    (tryParseNF c19Grammar c19Uni 8 1 0 (some 0) (.ref 2 .zero) (c19In ['a', ' ', 'a', ' '])).isFail = true ∧
    (tryCheckNF c19Grammar c19Uni 8 1 0 (some 0) (.ref 2 .zero) (c19In ['a', ' ', 'a', ' '])).isFail = true := by
  decide

/-! ### the private tracker -/

/-- The loop runs on a tracker of its own: the caller's tracker has no influence on verdict, cursor,
value or stack, and is handed back unchanged. -/
theorem C19_nf_tracker_independent (g : NodeGrammar) (uni : Uni) (fuel : Nat) (inh : Bool) (k : Nat)
    (max : Option Nat) (x : Node) (i : Inp) (s : List Sp) (t1 t2 : Tracker) :
    nfRepParse g uni fuel inh k max x i { stk := s, trk := t2 } =
      (nfRepParse g uni fuel inh k max x i { stk := s, trk := t1 }).nfSetTrk t2 := by
  cases fuel with
  | zero => rfl
  | succ fuel =>
    simp only [nfRepParse]
    cases nfLoop (repUnitP (parse g uni fuel false g.skipped) (parse g uni fuel inh x)
        (defaultSkipVal g) k) max (nfBudget fuel max) 0 i { stk := s, trk := Tracker.new i } [] <;> rfl

theorem C19_nf_check_tracker_independent (g : NodeGrammar) (uni : Uni) (fuel : Nat) (inh : Bool) (k : Nat)
    (max : Option Nat) (x : Node) (i : Inp) (s : List Sp) (t1 t2 : Tracker) :
    nfRepCheck g uni fuel inh k max x i { stk := s, trk := t2 } =
      (nfRepCheck g uni fuel inh k max x i { stk := s, trk := t1 }).nfSetTrk t2 := by
  cases fuel with
  | zero => rfl
  | succ fuel =>
    simp only [nfRepCheck]
    cases nfLoopC (repUnitC (check g uni fuel false g.skipped) (check g uni fuel inh x) k)
        max (nfBudget fuel max) 0 i { stk := s, trk := Tracker.new i } <;> rfl

/-- The tracker returned is the caller's (whatever the loop recorded is dropped). -/
theorem C19_nf_caller_tracker_untouched (g : NodeGrammar) (uni : Uni) (fuel : Nat) (inh : Bool) (k : Nat)
    (max : Option Nat) (x : Node) (i : Inp) (m : M) (i' : Inp) (m' : M) (v : Val)
    (h : nfRepParse g uni fuel inh k max x i m = .ok i' m' v) : m'.trk = m.trk := by
  cases fuel with
  | zero => simp [nfRepParse] at h
  | succ fuel =>
    obtain ⟨_, _, _, _, _, _, rfl, _⟩ := (C19_nf_parse_ok_iff g uni fuel inh k max x i m i' m' v).mp h
    rfl

theorem C19_nf_check_caller_tracker_untouched (g : NodeGrammar) (uni : Uni) (fuel : Nat) (inh : Bool) (k : Nat)
    (max : Option Nat) (x : Node) (i : Inp) (m : M) (i' : Inp) (m' : M)
    (h : nfRepCheck g uni fuel inh k max x i m = .ok i' m' ()) : m'.trk = m.trk := by
  rw [C19_nf_check_eq_parse] at h
  cases hp : nfRepParse g uni fuel inh k max x i m with
  | oof => rw [hp] at h; cases h
  | fail mf => rw [hp] at h; cases h
  | ok i1 m1 v =>
    rw [hp] at h
    simp only [Res.forget_ok, Res.ok.injEq] at h
    obtain ⟨_, rfl, _⟩ := h
    exact C19_nf_caller_tracker_untouched g uni fuel inh k max x i m _ _ v hp

/-- A caller's tracker that is not the initial one (negative polarity) comes back as it was — the
failing last unit of the loop records its attempt in the private tracker only — and verdict, cursor
and value are those obtained with the initial tracker. -/
example : (nfRepParse c19Grammar c19Uni 8 false 1 none (.str ['a']) (c19In c19ab)
      { stk := [], trk := { (Tracker.new (c19In c19ab)) with positive := false } }).nfTrk? =
    some { (Tracker.new (c19In c19ab)) with positive := false } ∧
    (nfRepCheck c19Grammar c19Uni 8 false 1 none (.str ['a']) (c19In c19ab)
      { stk := [], trk := { (Tracker.new (c19In c19ab)) with positive := false } }).nfTrk? =
    some { (Tracker.new (c19In c19ab)) with positive := false } ∧
    (nfRepParse c19Grammar c19Uni 8 false 1 none (.str ['a']) (c19In c19ab)
      { stk := [], trk := { (Tracker.new (c19In c19ab)) with positive := false } }).okPos? = some 1 ∧
    (c19NfRun 1 none (.str ['a']) c19ab).nfTrk? = some (Tracker.new (c19In c19ab)) := by decide

/-! ### cursor -/

/-- The cursor only advances, over whole characters. -/
theorem C19_nf_adv (g : NodeGrammar) (uni : Uni) (fuel : Nat) (inh : Bool) (k : Nat)
    (max : Option Nat) (x : Node) (i : Inp) (m : M) (i' : Inp) (m' : M) (v : Val)
    (h : nfRepParse g uni fuel inh k max x i m = .ok i' m' v) : i.Adv i' := by
  cases fuel with
  | zero => simp [nfRepParse] at h
  | succ fuel =>
    obtain ⟨_, _, _, _, hI, _⟩ := (C19_nf_parse_ok_iff g uni fuel inh k max x i m i' m' v).mp h
    exact hI.adv (nfUnit_adv g uni fuel inh k x)

example : (c19NfRun 1 none (.str ['a']) c19aaaa).cur? = some ((c19In c19aaaa).adv 7) := by decide

/-! ### fuel -/

/-- Out of fuel, exactly: after a successful prefix shorter than the budget a unit run (not
iteration `MAX`) is out of fuel, or `nfBudget fuel max` iterations succeed. -/
theorem C19_nf_parse_oof_iff (g : NodeGrammar) (uni : Uni) (fuel : Nat) (inh : Bool) (k : Nat)
    (max : Option Nat) (x : Node) (i : Inp) (m : M) :
    nfRepParse g uni (fuel+1) inh k max x i m = .oof ↔
      (∃ vs i1 m1, RepIters (nfUnit g uni fuel inh k x) max 0 i { m with trk := Tracker.new i } i1 m1 vs ∧
        max ≠ some vs.length ∧ nfUnit g uni fuel inh k x vs.length i1 m1 = .oof ∧
        vs.length < nfBudget fuel max) ∨
      (∃ vs i1 m1, RepIters (nfUnit g uni fuel inh k x) max 0 i { m with trk := Tracker.new i } i1 m1 vs ∧
        vs.length = nfBudget fuel max) := by
  have key := nfLoop_oof_iff (nfUnit g uni fuel inh k x) max (nfBudget fuel max) 0 i
    { m with trk := Tracker.new i } []
  simp only [Nat.zero_add] at key
  rw [← key]
  simp only [nfRepParse]
  unfold nfUnit
  cases nfLoop (repUnitP (parse g uni fuel false g.skipped) (parse g uni fuel inh x)
      (defaultSkipVal g) k) max (nfBudget fuel max) 0 i { m with trk := Tracker.new i } [] <;> simp

/-- `RepeatMinMax<_, 0, MAX>`: the iteration budget `MAX + 1` of the model is never the reason for an
out-of-fuel result — `nfRepParse … (fuel+1) … = .oof` iff one of the iterations `0 … MAX-1`, reached
through successful iterations, is itself out of fuel at `fuel`. -/
theorem C19_nf_bounded_no_budget_oof (g : NodeGrammar) (uni : Uni) (fuel : Nat) (inh : Bool) (k : Nat)
    (mx : Nat) (x : Node) (i : Inp) (m : M) :
    nfRepParse g uni (fuel+1) inh k (some mx) x i m = .oof ↔
      ∃ vs i1 m1,
        RepIters (nfUnit g uni fuel inh k x) (some mx) 0 i { m with trk := Tracker.new i } i1 m1 vs ∧
        vs.length < mx ∧ nfUnit g uni fuel inh k x vs.length i1 m1 = .oof := by
  have key := nfLoop_bounded_oof_iff (nfUnit g uni fuel inh k x) mx i { m with trk := Tracker.new i }
  rw [← key]
  simp only [nfRepParse, nfBudget]
  unfold nfUnit
  cases nfLoop (repUnitP (parse g uni fuel false g.skipped) (parse g uni fuel inh x)
      (defaultSkipVal g) k) (some mx) (mx + 1) 0 i { m with trk := Tracker.new i } [] <;> simp

/-- Consequence: if no unit run is out of fuel at `fuel`, the bounded loop is not at `fuel + 1`. -/
theorem C19_nf_bounded_ne_oof (g : NodeGrammar) (uni : Uni) (fuel : Nat) (inh : Bool) (k : Nat)
    (mx : Nat) (x : Node) (i : Inp) (m : M)
    (hu : ∀ idx i1 m1, nfUnit g uni fuel inh k x idx i1 m1 ≠ .oof) :
    nfRepParse g uni (fuel+1) inh k (some mx) x i m ≠ .oof := by
  intro h
  obtain ⟨vs, i1, m1, _, _, ho⟩ := (C19_nf_bounded_no_budget_oof g uni fuel inh k mx x i m).mp h
  exact hu _ _ _ ho

/-- A unit that is never out of fuel: element `"a"`, `SKIP = 0`, fuel 1 (hypothesis of
`C19_nf_bounded_ne_oof`). -/
example : ∀ idx i1 m1, nfUnit c19Grammar c19Uni 1 false 0 (.str ['a']) idx i1 m1 ≠ .oof := by
  intro idx i1 m1
  unfold nfUnit repUnitP
  by_cases h : idx = 0
  · simp only [h, if_true, parse]; cases Inp.matchString ['a'] i1 <;> simp
  · simp only [h, if_false, skipLoop, parse]; cases Inp.matchString ['a'] i1 <;> simp

/-- The budget `MAX + 1` does not depend on the fuel: `"a"{0,7}` without skips on `"aaaaaaaa"` yields 7
elements at fuel 2 already (and `"a"{0,5}` with skips on `"a a a a"` 4 elements at fuel 5); at fuel 1
the unit itself is out of fuel, and so is the loop. -/
example : (nfRepParse c19Grammar c19Uni 5 false 1 (some 5) (.str ['a']) (c19In c19aaaa) (c19M c19aaaa)).nKids? = some 4 ∧
    (nfRepParse c19Grammar c19Uni 2 false 0 (some 7) (.str ['a']) (c19In ['a', 'a', 'a', 'a', 'a', 'a', 'a', 'a'])
      (c19M [])).nKids? = some 7 ∧
    (nfRepParse c19Grammar c19Uni 1 false 0 (some 7) (.str ['a']) (c19In ['a']) (c19M [])).isOof = true := by
  decide

/-! ### relation to the skip-repeat node -/

/-- With `SKIP = 0` and no `MAX` (`RepeatMin<Skipped<T, _, 0>, 0>`) the never-failed repetition
computes what the skip-repeat node `AtomicRepeat<T>` computes (verdict, cursor, stack, tracker; the
values differ in shape only). -/
theorem C19_nf_skip0_eq_atomicRepeat (g : NodeGrammar) (uni : Uni) (fuel : Nat) (inh : Bool)
    (x : Node) (i : Inp) (m : M) :
    (nfRepParse g uni fuel inh 0 none x i m).forget = (parse g uni fuel inh (.atomicRepeat x) i m).forget := by
  cases fuel with
  | zero => rfl
  | succ fuel =>
    simp only [nfRepParse, parse, nfBudget]
    have hl := nfLoop_forget
      (repUnitP (parse g uni fuel false g.skipped) (parse g uni fuel inh x) (defaultSkipVal g) 0)
      (fun _ i m => parse g uni fuel inh x i m)
      (fun idx i m => nfUnit0_forget _ _ _ idx i m) none (atomicBudget fuel) 0 i
      { m with trk := Tracker.new i } [] [] rfl
    rw [nfLoop_eq_repLoop (fun _ i m => parse g uni fuel inh x i m)] at hl
    rcases forget_eq_cases hl with ⟨hc, hp⟩ | ⟨mf, hc, hp⟩ | ⟨i1, m1, a, b, hc, hp⟩
    · rw [hc, hp]
    · rw [hc, hp]
    · rw [hc, hp]; rfl

example : (c19NfRun 0 none (.str ['a', ' ']) c19aaaa).okPos? = some 6 ∧
    (c19Run (.atomicRepeat (.str ['a', ' '])) c19aaaa).okPos? = some 6 := by decide

end PestTyped
