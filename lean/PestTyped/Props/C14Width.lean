/-
Props.C14Width — characters without a display cell (review rev2-E, C14 (b)1).

`display_snippet_multi_line` puts the end marker at `width(end.former).saturating_sub(1)`.  The
highlighted part of the last line can have display width 0 (zero-width space, combining marks
only: `"a\n\u{200b}b"`, span `0..5`); `C14_span_no_panic` already covers this (it holds for EVERY
width function), and `C14_zero_width_end_marker` spells out what is printed there: the `^` at the
left edge, no panic.  An edit of `saturating_sub(1)` to `- 1` panics exactly on these inputs; the
tie T-text:display renders them (extended alphabet of checks/text.py contains U+200B, U+0301).
-/
import PestTyped.Lemmas.TextDisplay
namespace PestTyped
open Text

/-- A span over several lines whose highlighted part of the last line has no display cell: the
display does not panic and its last row is the end marker at column 0. -/
theorem C14_zero_width_end_marker (width : Char → Nat) (s : List Char)
    (before mid after : List (List Char)) (f m1 m2 r : List Char)
    (hsplit : dispLines s = before ++ (f ++ m1) :: (mid ++ (m2 ++ r) :: after))
    (hm2 : m2 ≠ []) (hf : f ≠ [] ∨ before = [])
    (hz : strWidth width (visualize m2) = 0) :
    ∃ sn, spanSnippet width ⟨s, blen before.flatten + blen f,
        blen before.flatten + blen (f ++ m1) + blen mid.flatten + blen m2⟩ = .ok sn ∧
      sn.rows.getLast? = some (.mark 0 ['^']) := by
  refine ⟨_, spanSnippet_multi width s before mid after f m1 m2 r hsplit hf hm2, ?_⟩
  simp only [snippetMultiLine, hz]
  rw [List.getLast?_append]
  rfl

/-- `"a\n\u{200b}b"`, span `0..5`, with the zero-width space measured as 0 cells. -/
example : spanSnippet (fun c => if c = '\u200b' then 0 else 1) ⟨['a', '\n', '\u200b', 'b'], 0, 5⟩ =
    .ok ⟨1, [.mark 0 ['v'], .text 1 [] (some ['a', '␊']) [], .text 2 [] (some ['\u200b']) ['b'], .mark 0 ['^']]⟩ := by
  decide
example : dispLines ['a', '\n', '\u200b', 'b'] = [] ++ ([] ++ ['a', '\n']) :: ([] ++ (['\u200b'] ++ ['b']) :: []) := by decide
example : strWidth (fun c => if c = '\u200b' then 0 else 1) (visualize ['\u200b']) = 0 := by decide

end PestTyped
