/-
Props.C08 — Parsing a Span / Position sub-input equals parsing that slice.

Property (fixed text): "Parsing Span(s, a, b) gives the result of parsing a fresh copy of s[a..b]
with all offsets shifted by a, and parsing Position(s, a) gives the result for s[a..]: same
verdict, consumed length, spans and tree, for the partial and the full entry points.  SOI holds
only at a, EOI only at b, and nothing at or beyond b influences the outcome."

The three cursor types of `main/src/input.rs` are the record `Inp = (start, pos, rest, after)`:
`&str` s is `⟨0, 0, s, []⟩`, `Position(s, a)` is `⟨a, a, s[a..], []⟩`, `Span(s, a, b)` is
`⟨a, a, s[a..b], s[b..]⟩`.  "Shift by `a`" adds `a` to every byte offset carried by a result: the
cursor (`Inp.shift`), the spans on the stack and the positions in the tracker (`M.shift`, hence
the rendered error position), and every span inside the value tree (`Val.shift`).

Theorems (all for every grammar, node, rule, input, state, fuel; no side conditions):
* `C08_parse_shift`, `C08_check_shift` — node level: shifting the input and the state by `a`
  shifts the result by `a` (verdict unchanged, cursor/stack/tracker/value shifted).
* `C08_tryParsePartial_shift`, `C08_tryParse_shift`, `C08_tryCheckPartial_shift`,
  `C08_tryCheck_shift` — the four entry points.
* `C08_after_set`, `C08_check_after_set`, `C08_entry_after_set` — replacing the text at and beyond
  the end of the input changes nothing except that same field of the returned cursor;
  `C08_after_irrelevant`, `C08_check_after_irrelevant`, `C08_entry_after_irrelevant` — hence two
  inputs that differ only beyond `b` give the same result.
* `C08_span`, `C08_pos` — the property in its own terms, for the four entry points.
* `C08_span_node` — the same at node level, for an arbitrary (shifted) state.
* `C08_soi_eoi` — `SOI` succeeds iff the cursor is at `start` (= a), `EOI` iff it is at the end
  of the input (= b), whatever lies beyond.
* `C08_tokens_shift` — the token tree (`Pairs` API) of a shifted value is the shifted token tree.
No counterexample: `skip_until` (repaired) scans `[pos, end)` only, and the model follows it.
-/
import PestTyped.Lemmas.Shift
import PestTyped.Lemmas.ResProj
import PestTyped.Model.Gen
namespace PestTyped

/-! ### node level -/

/-- Shifting input and state by `a` shifts the parse result by `a`. -/
theorem C08_parse_shift (g : NodeGrammar) (uni : Uni) (n : Nat) (inh : Bool) (node : Node)
    (i : Inp) (m : M) (a : Nat) :
    parse g uni n inh node (i.shift a) (m.shift a) = (parse g uni n inh node i m).shift a :=
  parse_tr g uni a id n inh node i m

theorem C08_check_shift (g : NodeGrammar) (uni : Uni) (n : Nat) (inh : Bool) (node : Node)
    (i : Inp) (m : M) (a : Nat) :
    check g uni n inh node (i.shift a) (m.shift a) = (check g uni n inh node i m).shiftU a :=
  check_tr g uni a id n inh node i m

/-! ### entry points -/

theorem C08_tryParsePartial_shift (g : NodeGrammar) (uni : Uni) (n : Nat) (r : RuleId) (i : Inp) (a : Nat) :
    tryParsePartial g uni n r (i.shift a) = (tryParsePartial g uni n r i).shift a :=
  tryParsePartial_tr g uni a id n r i

theorem C08_tryParse_shift (g : NodeGrammar) (uni : Uni) (n : Nat) (r : RuleId) (i : Inp) (a : Nat) :
    tryParse g uni n r (i.shift a) = (tryParse g uni n r i).shift a :=
  tryParse_tr g uni a id n r i

theorem C08_tryCheckPartial_shift (g : NodeGrammar) (uni : Uni) (n : Nat) (r : RuleId) (i : Inp) (a : Nat) :
    tryCheckPartial g uni n r (i.shift a) = (tryCheckPartial g uni n r i).shiftU a :=
  tryCheckPartial_tr g uni a id n r i

theorem C08_tryCheck_shift (g : NodeGrammar) (uni : Uni) (n : Nat) (r : RuleId) (i : Inp) (a : Nat) :
    tryCheck g uni n r (i.shift a) = (tryCheck g uni n r i).shiftU a :=
  tryCheck_tr g uni a id n r i

/-! ### nothing at or beyond the end influences the outcome -/

/-- Replacing the text beyond the end of the input by `y` only replaces it in the returned cursor. -/
theorem C08_after_set (g : NodeGrammar) (uni : Uni) (n : Nat) (inh : Bool) (node : Node)
    (i : Inp) (m : M) (y : List Char) :
    parse g uni n inh node (i.setAfter y) m = (parse g uni n inh node i m).mapInp (Inp.setAfter y) := by
  have h := parse_tr g uni 0 (fun _ => y) n inh node i m
  rw [M.shift_zero] at h
  exact h.trans (Res.tr_zero _ _ Val.shift_zero _)

theorem C08_check_after_set (g : NodeGrammar) (uni : Uni) (n : Nat) (inh : Bool) (node : Node)
    (i : Inp) (m : M) (y : List Char) :
    check g uni n inh node (i.setAfter y) m = (check g uni n inh node i m).mapInp (Inp.setAfter y) := by
  have h := check_tr g uni 0 (fun _ => y) n inh node i m
  rw [M.shift_zero] at h
  exact h.trans (Res.tr_zero _ _ (fun _ => rfl) _)

theorem C08_entry_after_set (g : NodeGrammar) (uni : Uni) (n : Nat) (r : RuleId) (i : Inp) (y : List Char) :
    tryParsePartial g uni n r (i.setAfter y) = (tryParsePartial g uni n r i).mapInp (Inp.setAfter y) ∧
    tryParse g uni n r (i.setAfter y) = (tryParse g uni n r i).mapInp (Inp.setAfter y) ∧
    tryCheckPartial g uni n r (i.setAfter y) = (tryCheckPartial g uni n r i).mapInp (Inp.setAfter y) ∧
    tryCheck g uni n r (i.setAfter y) = (tryCheck g uni n r i).mapInp (Inp.setAfter y) :=
  ⟨(tryParsePartial_tr g uni 0 (fun _ => y) n r i).trans (Res.tr_zero _ _ Val.shift_zero _),
   (tryParse_tr g uni 0 (fun _ => y) n r i).trans (Res.tr_zero _ _ Val.shift_zero _),
   (tryCheckPartial_tr g uni 0 (fun _ => y) n r i).trans (Res.tr_zero _ _ (fun _ => rfl) _),
   (tryCheck_tr g uni 0 (fun _ => y) n r i).trans (Res.tr_zero _ _ (fun _ => rfl) _)⟩

/-- Two inputs that differ only in the text at and beyond the end give the same result
(the returned cursors, which carry that text along, are compared without it). -/
theorem C08_after_irrelevant (g : NodeGrammar) (uni : Uni) (n : Nat) (inh : Bool) (node : Node)
    (i : Inp) (m : M) (x y : List Char) :
    (parse g uni n inh node { i with after := x } m).mapInp Inp.dropAfter =
      (parse g uni n inh node { i with after := y } m).mapInp Inp.dropAfter :=
  after_irrelevant_of_set (fun i => parse g uni n inh node i m)
    (fun i y => C08_after_set g uni n inh node i m y) i x y

theorem C08_check_after_irrelevant (g : NodeGrammar) (uni : Uni) (n : Nat) (inh : Bool) (node : Node)
    (i : Inp) (m : M) (x y : List Char) :
    (check g uni n inh node { i with after := x } m).mapInp Inp.dropAfter =
      (check g uni n inh node { i with after := y } m).mapInp Inp.dropAfter :=
  after_irrelevant_of_set (fun i => check g uni n inh node i m)
    (fun i y => C08_check_after_set g uni n inh node i m y) i x y

theorem C08_entry_after_irrelevant (g : NodeGrammar) (uni : Uni) (n : Nat) (r : RuleId) (i : Inp)
    (x y : List Char) :
    (tryParsePartial g uni n r { i with after := x }).mapInp Inp.dropAfter =
      (tryParsePartial g uni n r { i with after := y }).mapInp Inp.dropAfter ∧
    (tryParse g uni n r { i with after := x }).mapInp Inp.dropAfter =
      (tryParse g uni n r { i with after := y }).mapInp Inp.dropAfter ∧
    (tryCheckPartial g uni n r { i with after := x }).mapInp Inp.dropAfter =
      (tryCheckPartial g uni n r { i with after := y }).mapInp Inp.dropAfter ∧
    (tryCheck g uni n r { i with after := x }).mapInp Inp.dropAfter =
      (tryCheck g uni n r { i with after := y }).mapInp Inp.dropAfter :=
  ⟨after_irrelevant_of_set _ (fun i y => (C08_entry_after_set g uni n r i y).1) i x y,
   after_irrelevant_of_set _ (fun i y => (C08_entry_after_set g uni n r i y).2.1) i x y,
   after_irrelevant_of_set _ (fun i y => (C08_entry_after_set g uni n r i y).2.2.1) i x y,
   after_irrelevant_of_set _ (fun i y => (C08_entry_after_set g uni n r i y).2.2.2) i x y⟩

/-! ### the property in its own terms -/

/-- `&str` input: a fresh string `s`. -/
def strInput (s : List Char) : Inp := { start := 0, pos := 0, rest := s, after := [] }
/-- `Span::new(pre ++ mid ++ post, a, b)` with `a = |pre|`, `b = |pre| + |mid|` (byte lengths). -/
def spanInput (pre mid post : List Char) : Inp :=
  { start := blen pre, pos := blen pre, rest := mid, after := post }
/-- `Position::new(pre ++ rest, a)` with `a = |pre|`. -/
def posInput (pre rest : List Char) : Inp := { start := blen pre, pos := blen pre, rest := rest, after := [] }

theorem spanInput_eq (pre mid post : List Char) :
    spanInput pre mid post = (strInput mid).tr (blen pre) (fun _ => post) := by
  simp [spanInput, strInput, Inp.tr]

theorem posInput_eq (pre rest : List Char) : posInput pre rest = (strInput rest).shift (blen pre) := by
  simp [posInput, strInput, Inp.shift]

/-- Parsing `Span(pre ++ mid ++ post, a, b)` is parsing a fresh copy of `mid`, shifted by `a`
(the returned cursor additionally remembers `post`, which no operation reads). -/
theorem C08_span (g : NodeGrammar) (uni : Uni) (n : Nat) (r : RuleId) (pre mid post : List Char) :
    tryParsePartial g uni n r (spanInput pre mid post) =
      ((tryParsePartial g uni n r (strInput mid)).shift (blen pre)).mapInp (Inp.setAfter post) ∧
    tryParse g uni n r (spanInput pre mid post) =
      ((tryParse g uni n r (strInput mid)).shift (blen pre)).mapInp (Inp.setAfter post) ∧
    tryCheckPartial g uni n r (spanInput pre mid post) =
      ((tryCheckPartial g uni n r (strInput mid)).shiftU (blen pre)).mapInp (Inp.setAfter post) ∧
    tryCheck g uni n r (spanInput pre mid post) =
      ((tryCheck g uni n r (strInput mid)).shiftU (blen pre)).mapInp (Inp.setAfter post) := by
  rw [spanInput_eq]
  exact ⟨(tryParsePartial_tr g uni _ _ n r _).trans (Res.tr_const _ _ _),
    (tryParse_tr g uni _ _ n r _).trans (Res.tr_const _ _ _),
    (tryCheckPartial_tr g uni _ _ n r _).trans (Res.tr_constU _ _ _),
    (tryCheck_tr g uni _ _ n r _).trans (Res.tr_constU _ _ _)⟩

/-- The same for any node run on a Span input from any state whose offsets live in the slice. -/
theorem C08_span_node (g : NodeGrammar) (uni : Uni) (n : Nat) (inh : Bool) (node : Node) (m : M)
    (pre mid post : List Char) :
    parse g uni n inh node (spanInput pre mid post) (m.shift (blen pre)) =
      ((parse g uni n inh node (strInput mid) m).shift (blen pre)).mapInp (Inp.setAfter post) ∧
    check g uni n inh node (spanInput pre mid post) (m.shift (blen pre)) =
      ((check g uni n inh node (strInput mid) m).shiftU (blen pre)).mapInp (Inp.setAfter post) := by
  rw [spanInput_eq]
  exact ⟨(parse_tr g uni _ _ n inh node _ m).trans (Res.tr_const _ _ _),
    (check_tr g uni _ _ n inh node _ m).trans (Res.tr_constU _ _ _)⟩

/-- Parsing `Position(pre ++ rest, a)` is parsing a fresh copy of `rest`, shifted by `a`. -/
theorem C08_pos (g : NodeGrammar) (uni : Uni) (n : Nat) (r : RuleId) (pre rest : List Char) :
    tryParsePartial g uni n r (posInput pre rest) = (tryParsePartial g uni n r (strInput rest)).shift (blen pre) ∧
    tryParse g uni n r (posInput pre rest) = (tryParse g uni n r (strInput rest)).shift (blen pre) ∧
    tryCheckPartial g uni n r (posInput pre rest) = (tryCheckPartial g uni n r (strInput rest)).shiftU (blen pre) ∧
    tryCheck g uni n r (posInput pre rest) = (tryCheck g uni n r (strInput rest)).shiftU (blen pre) := by
  rw [posInput_eq]
  exact ⟨C08_tryParsePartial_shift .., C08_tryParse_shift .., C08_tryCheckPartial_shift ..,
    C08_tryCheck_shift ..⟩

/-- `SOI` succeeds exactly when the cursor is at the start of the input (offset `a`), `EOI` exactly
when it is at its end (offset `b = pos + |rest|`), in every state, whatever text lies beyond `b`;
neither moves the cursor nor touches the state. -/
theorem C08_soi_eoi (g : NodeGrammar) (uni : Uni) (n : Nat) (inh : Bool) (i : Inp) (m : M) :
    parse g uni (n+1) inh .soi i m = (if i.pos = i.start then .ok i m (.leaf .soi) else .fail m) ∧
    parse g uni (n+1) inh .eoi i m = (if i.pos = i.endPos then .ok i m (.leaf .eoi) else .fail m) ∧
    check g uni (n+1) inh .soi i m = (if i.pos = i.start then .ok i m () else .fail m) ∧
    check g uni (n+1) inh .eoi i m = (if i.pos = i.endPos then .ok i m () else .fail m) := by
  simp only [parse, check]
  have hs := Inp.atStart_iff i
  have he := Inp.atEnd_iff i
  refine ⟨?_, ?_, ?_, ?_⟩
  · by_cases h : i.pos = i.start
    · rw [if_pos (hs.mpr h), if_pos h]
    · rw [if_neg (mt hs.mp h), if_neg h]
  · by_cases h : i.pos = i.endPos
    · rw [if_pos (he.mpr h), if_pos h]
    · rw [if_neg (mt he.mp h), if_neg h]
  · by_cases h : i.pos = i.start
    · rw [if_pos (hs.mpr h), if_pos h]
    · rw [if_neg (mt hs.mp h), if_neg h]
  · by_cases h : i.pos = i.endPos
    · rw [if_pos (he.mpr h), if_pos h]
    · rw [if_neg (mt he.mp h), if_neg h]

/-- The token tree (`Pairs` API: rule, start, end, children) of a shifted value is the shifted token
tree; with `C08_span` / `C08_pos`: the tokens of a Span / Position parse are those of the fresh
copy shifted by `a`. -/
theorem C08_tokens_shift (g : NodeGrammar) (a : Nat) (v : Val) :
    tokens g (v.shift a) = Token.shiftList a (tokens g v) :=
  tokens_shift g a v

/-- On a Span input the two offsets of `C08_soi_eoi` are `a` and `b`. -/
theorem C08_span_bounds (pre mid post : List Char) :
    (spanInput pre mid post).start = blen pre ∧ (spanInput pre mid post).endPos = blen pre + blen mid :=
  ⟨rfl, rfl⟩

/-! ### non-vacuity: a concrete grammar exercising SOI, EOI, the stack, skip-until and an
insensitive literal, on a Span cut out of a longer string with a multi-byte prefix -/

-- `Res.okPos?`: see `Lemmas/ResProj`.

def Res.okStk? {α} : R α → Option (List Sp)
  | .ok _ m _ => some m.stk
  | _ => none

def Res.okTrkPos? {α} : R α → Option Nat
  | .ok _ m _ => some m.trk.position
  | _ => none

def Res.failTrkPos? {α} : R α → Option Nat
  | .fail m => some m.trk.position
  | _ => none

/-- The spans of `rule` nodes in a value, in pre-order. -/
def Val.ruleSpans : Val → List (RuleId × Nat × Nat)
  | .mk (.rule r _ _ s e) [v] => (r, s, e) :: v.ruleSpans
  | .mk (.rule r _ _ s e) _ => [(r, s, e)]
  | .mk _ [v] => v.ruleSpans
  | .mk _ _ => []

def Res.okRuleSpans? : R Val → Option (List (RuleId × Nat × Nat))
  | .ok _ _ v => some v.ruleSpans
  | _ => none

def Res.okTokens? (g : NodeGrammar) : R Val → Option (List (RuleId × Nat × Nat))
  | .ok _ _ v => some ((tokens g v).map (fun t => (t.rule, t.s, t.e)))
  | _ => none

/-- `a = { SOI ~ PUSH(^"ab") ~ skip_until("x") ~ "x" ~ POP ~ EOI }`,
`b = { SOI ~ PUSH(^"ab") ~ skip_until("x") ~ "x" }` (leaves the stack non-empty), no skipping. -/
def c08Grammar : NodeGrammar :=
  { rules := [eoiDef,
      { name := "a", atom := .nonAtomic, emit := .both, boxed := true,
        body := .seq .zero [.soi, .push (.insens ['a', 'b']), .skipUntil [['x']], .str ['x'], .pop, .eoi] },
      { name := "b", atom := .nonAtomic, emit := .both, boxed := true,
        body := .seq .zero [.soi, .push (.insens ['a', 'b']), .skipUntil [['x']], .str ['x']] }],
    skipped := .empty }

def c08Pre : List Char := ['é', 'z']                       -- 3 bytes
def c08Mid : List Char := ['A', 'b', 'q', 'x', 'A', 'b']   -- 6 bytes
def c08Post : List Char := ['x', 'A', 'b']
def c08Uni : Uni := fun _ _ => false

example : blen c08Pre = 3 := by decide
-- full entry point: Span result ends at 3 + 6, fresh copy at 6; `EOI` holds at `b` although text follows
example : (tryParse c08Grammar c08Uni 20 1 (spanInput c08Pre c08Mid c08Post)).okPos? = some 9 := by decide
example : (tryParse c08Grammar c08Uni 20 1 (strInput c08Mid)).okPos? = some 6 := by decide
example : (tryCheck c08Grammar c08Uni 20 1 (spanInput c08Pre c08Mid c08Post)).okPos? = some 9 := by decide
example : (tryParse c08Grammar c08Uni 20 1 (spanInput c08Pre c08Mid c08Post)).okRuleSpans? = some [(1, 3, 9)] := by
  decide
example : (tryParse c08Grammar c08Uni 20 1 (strInput c08Mid)).okRuleSpans? = some [(1, 0, 6)] := by decide
example : (tryParse c08Grammar c08Uni 20 1 (spanInput c08Pre c08Mid c08Post)).okTokens? c08Grammar =
    some [(1, 3, 9)] := by decide
example : (tryParse c08Grammar c08Uni 20 1 (strInput c08Mid)).okTokens? c08Grammar = some [(1, 0, 6)] := by decide
-- partial entry point, stack left behind: the pushed span is shifted, its text is not
example : (tryParsePartial c08Grammar c08Uni 20 2 (spanInput c08Pre c08Mid c08Post)).okStk? =
    some [⟨3, 5, ['A', 'b']⟩] := by decide
example : (tryParsePartial c08Grammar c08Uni 20 2 (strInput c08Mid)).okStk? =
    some [⟨0, 2, ['A', 'b']⟩] := by decide
example : (tryParsePartial c08Grammar c08Uni 20 2 (spanInput c08Pre c08Mid c08Post)).okPos? = some 7 := by decide
example : (tryParsePartial c08Grammar c08Uni 20 2 (strInput c08Mid)).okPos? = some 4 := by decide
-- Position input: the text beyond the Span end now belongs to the input, so rule `a` fails at `EOI`
-- (the failure is attributed to rule `a` at its start position, shifted by 3)
example : (tryParse c08Grammar c08Uni 20 1 (posInput c08Pre (c08Mid ++ c08Post))).failTrkPos? = some 3 := by decide
example : (tryParse c08Grammar c08Uni 20 1 (strInput (c08Mid ++ c08Post))).failTrkPos? = some 0 := by decide
example : (tryParsePartial c08Grammar c08Uni 20 2 (posInput c08Pre (c08Mid ++ c08Post))).okPos? = some 7 := by decide
-- `SOI` away from `a` fails; `skip_until` stops at the end of the Span although the needle follows it
example : (parse c08Grammar c08Uni 5 true .soi { spanInput c08Pre c08Mid c08Post with pos := 4 }
    (M.init (spanInput c08Pre c08Mid c08Post))).okPos? = none := by decide
example : (parse c08Grammar c08Uni 5 true (.skipUntil [['x', 'A', 'b', 'x']])
    (spanInput c08Pre c08Mid c08Post) (M.init (spanInput c08Pre c08Mid c08Post))).okPos? = some 9 := by decide
example : (parse c08Grammar c08Uni 5 true (.skipUntil [['x', 'A', 'b', 'x']])
    (posInput c08Pre (c08Mid ++ c08Post)) (M.init (posInput c08Pre (c08Mid ++ c08Post)))).okPos? = some 6 := by
  decide

end PestTyped
