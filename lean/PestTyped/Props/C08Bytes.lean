/-
Props.C08Bytes — C08's three input forms are what `as_input` really builds (byte level).

Props/C08.lean states the property about the character-level cursors `strInput s`,
`posInput pre rest`, `spanInput pre mid post` and says in a comment that these are
`<&str>::as_input`, `Position::as_input`, `Span::as_input`.  This file ties them to the byte-level
model of `main/src/input.rs` (`Model/InputL0.lean`): the cursor records `as_input` builds
(`input.rs:265-311`), as `Inp0 = (bytes, start, pos, end)`,

* `&str` / `&String`:  `Position::from_start(s)`        = `(s, 0, 0, s.len())`,
* `Position(s, a)`:     `SubInput1 { input, start: a, cursor: a }`         = `(s, a, a, s.len())`,
* `Span(s, a, b)`:      `SubInput2 { input, start: a, end: b, cursor: a }` = `(s, a, a, b)`,

abstract (`Abs`, `Lemmas/L0.lean`: the relation under which every byte-level primitive simulates the
character-level one in both build profiles, `C09_L0_*`) to exactly the cursors C08 talks about.

Theorems
* `C08_as_input_abs` — `Span::new(s, a, b).as_input()` with `s = pre ++ mid ++ post`, `a = |pre|`,
  `b = a + |mid|` (byte lengths) abstracts to `spanInput pre mid post`.
* `C08_as_input_abs_position` — `Position::new(s, a).as_input()` with `s = pre ++ rest`, `a = |pre|`
  abstracts to `posInput pre rest`.
* `C08_as_input_abs_str` — `s.as_input()` abstracts to `strInput s`.
* `C08_as_input_unique` — and these are the ONLY character cursors they abstract to.
* `C08_span_decompose`, `C08_position_decompose` — every VALID `Span` / `Position` of a string (the
  condition of `Span::new` / `Position::new`: `input.get(a..b).is_some()` / `input.get(a..).is_some()`)
  is of that form: C08's quantification over `pre mid post` covers every span the public
  constructors hand out.
* `C08_span_bytes`, `C08_position_bytes` — the property in terms of the Rust objects: for every valid
  `(s, a, b)` the byte cursor `as_input` builds abstracts to a cursor to which `C08_span` applies.
* `C08_as_input_get` — the first `get()` on the cursor `as_input` built returns the slice `s[a..b]`
  in both profiles (no panic, no undefined behaviour).
-/
import PestTyped.Props.C08
import PestTyped.Lemmas.L0
namespace PestTyped

/-! ### the records `as_input` builds -/

/-- `<&str as AsInput>::as_input` = `Position::from_start(s)` (`start() = 0`, `end() = len`). -/
def strAsInput0 (bytes : List UInt8) : Inp0 := ⟨bytes, 0, 0, bytes.length⟩
/-- `<Position as AsInput>::as_input` = `SubInput1 { input, start: pos, cursor: pos }` (`end() = len`). -/
def positionAsInput0 (bytes : List UInt8) (pos : Nat) : Inp0 := ⟨bytes, pos, pos, bytes.length⟩
/-- `<Span as AsInput>::as_input` = `SubInput2 { input, start, end, cursor: start }`. -/
def spanAsInput0 (bytes : List UInt8) (s e : Nat) : Inp0 := ⟨bytes, s, s, e⟩

/-! ### the abstraction -/

/-- `Span::new(pre ++ mid ++ post, |pre|, |pre| + |mid|).as_input()` is C08's `spanInput pre mid post`. -/
theorem C08_as_input_abs (pre mid post : List Char) :
    Abs (spanAsInput0 (enc (pre ++ mid ++ post)) (blen pre) (blen pre + blen mid))
      (spanInput pre mid post) :=
  ⟨pre, by simp only [spanAsInput0, spanInput, enc_append], rfl, rfl, rfl, rfl⟩

example : Abs (spanAsInput0 (enc ['é', 'a', 'b', 'λ']) 2 4) (spanInput ['é'] ['a', 'b'] ['λ']) :=
  C08_as_input_abs ['é'] ['a', 'b'] ['λ']

/-- `Position::new(pre ++ rest, |pre|).as_input()` is C08's `posInput pre rest`. -/
theorem C08_as_input_abs_position (pre rest : List Char) :
    Abs (positionAsInput0 (enc (pre ++ rest)) (blen pre)) (posInput pre rest) := by
  refine ⟨pre, ?_, rfl, ?_, rfl, rfl⟩
  · simp only [positionAsInput0, posInput, enc_append, enc_nil, List.append_nil]
  · simp only [positionAsInput0, posInput, length_enc, blen_append]

example : Abs (positionAsInput0 (enc ['é', 'a', 'b']) 2) (posInput ['é'] ['a', 'b']) :=
  C08_as_input_abs_position ['é'] ['a', 'b']

/-- `s.as_input()` for a `&str` is C08's `strInput s`. -/
theorem C08_as_input_abs_str (s : List Char) : Abs (strAsInput0 (enc s)) (strInput s) := by
  refine ⟨[], ?_, rfl, ?_, rfl, rfl⟩
  · simp only [strAsInput0, strInput, enc_nil, List.nil_append, List.append_nil]
  · simp only [strAsInput0, strInput, length_enc, blen, Nat.zero_add]

example : Abs (strAsInput0 (enc ['é', 'a'])) (strInput ['é', 'a']) := C08_as_input_abs_str _

/-- The character cursor is determined by the byte cursor: whatever else the three records abstract
to is the cursor of C08. -/
theorem C08_as_input_unique (pre mid post : List Char) (i : Inp) :
    (Abs (spanAsInput0 (enc (pre ++ mid ++ post)) (blen pre) (blen pre + blen mid)) i →
      i = spanInput pre mid post) ∧
    (Abs (positionAsInput0 (enc (pre ++ mid)) (blen pre)) i → i = posInput pre mid) ∧
    (Abs (strAsInput0 (enc mid)) i → i = strInput mid) :=
  ⟨fun h => h.unique (C08_as_input_abs pre mid post),
   fun h => h.unique (C08_as_input_abs_position pre mid),
   fun h => h.unique (C08_as_input_abs_str mid)⟩

example : ∀ i, Abs (spanAsInput0 (enc (['é'] ++ ['a'] ++ ['λ'])) (blen ['é']) (blen ['é'] + blen ['a'])) i →
    i = spanInput ['é'] ['a'] ['λ'] :=
  fun i => (C08_as_input_unique ['é'] ['a'] ['λ'] i).1

/-! ### every valid `Span` / `Position` is of that form -/

/-- `Span::new(s, a, b)` succeeds iff `s.get(a..b).is_some()`; then `s` splits at character level as
`pre ++ mid ++ post` with `a = |pre|` and `b = a + |mid|`. -/
theorem C08_span_decompose (s : List Char) (a b : Nat) (sl : List UInt8)
    (h : strGet (enc s) a b = some sl) :
    ∃ pre mid post, s = pre ++ mid ++ post ∧ a = blen pre ∧ b = blen pre + blen mid ∧ sl = enc mid := by
  unfold strGet at h
  split at h
  · next hc =>
    simp only [Bool.and_eq_true, decide_eq_true_eq] at hc
    obtain ⟨⟨⟨hab, hbl⟩, hba⟩, hbb⟩ := hc
    obtain ⟨q, ⟨post, hq⟩, hqb⟩ := prefix_of_isBoundary s b hbl hbb
    have hal : a ≤ (enc q).length := by rw [length_enc]; omega
    have hba' : isBoundary (enc q) a = true := by
      -- a boundary of the whole text below `|q|` is a boundary of the prefix `q`
      obtain ⟨p, ⟨r, hp⟩, hpa⟩ := prefix_of_isBoundary s a (by omega) hba
      have hpq : p <+: q := by
        have h1 : p <+: s := ⟨r, hp⟩
        have h2 : q <+: s := ⟨post, hq⟩
        refine List.prefix_of_prefix_length_le h1 h2 ?_
        rcases Nat.le_total p.length q.length with hl | hl
        · exact hl
        · obtain ⟨x, hx⟩ := List.prefix_of_prefix_length_le h2 h1 hl
          have : blen q + blen x = blen p := by rw [← blen_append, hx]
          have hx0 := blen_eq_zero (x := x) (by omega)
          rw [hx0, List.append_nil] at hx
          rw [hx]; exact Nat.le_refl _
      obtain ⟨mid, hmid⟩ := hpq
      rw [← hmid, enc_append, ← hpa, ← length_enc]
      exact isBoundary_enc_split _ _
    obtain ⟨pre, ⟨mid, hpm⟩, hpa⟩ := prefix_of_isBoundary q a hal hba'
    refine ⟨pre, mid, post, by rw [hpm, hq], hpa.symm, ?_, ?_⟩
    · rw [← hqb, ← hpm, blen_append]
    · injection h with h
      have hs : enc s = enc pre ++ enc mid ++ enc post := by rw [← hq, ← hpm]; simp only [enc_append]
      have hg := strGet_enc_mid pre mid post
      unfold strGet at hg
      split at hg
      · injection hg with hg
        rw [← h, ← hg, hs, ← hpa, ← hqb, ← hpm, blen_append]
      · cases hg
  · cases h

example : ∃ pre mid post, ['é', 'a', 'b', 'λ'] = pre ++ mid ++ post ∧ 2 = blen pre ∧ 4 = blen pre + blen mid ∧
    [97, 98] = enc mid :=
  C08_span_decompose ['é', 'a', 'b', 'λ'] 2 4 [97, 98] (by decide)

/-- `Position::new(s, a)` succeeds iff `s.get(a..).is_some()`; then `s = pre ++ rest` with `a = |pre|`. -/
theorem C08_position_decompose (s : List Char) (a : Nat) (sl : List UInt8)
    (h : strGet (enc s) a (enc s).length = some sl) :
    ∃ pre rest, s = pre ++ rest ∧ a = blen pre ∧ sl = enc rest := by
  obtain ⟨pre, mid, post, hs, ha, hb, hsl⟩ := C08_span_decompose s a _ sl h
  have hpost : post = [] := by
    apply blen_eq_zero
    have : blen s = blen pre + blen mid + blen post := by rw [hs, blen_append, blen_append]
    rw [length_enc] at hb; omega
  subst hpost
  exact ⟨pre, mid, by rw [hs, List.append_nil], ha, hsl⟩

example : ∃ pre rest, ['é', 'a', 'b'] = pre ++ rest ∧ 2 = blen pre ∧ [97, 98] = enc rest :=
  C08_position_decompose ['é', 'a', 'b'] 2 [97, 98] (by decide)

/-! ### the property in terms of the Rust objects -/

/-- For every string `s` and every valid span `(a, b)` of it, the cursor `Span::as_input` builds
represents a character cursor `spanInput pre mid post` with `s = pre ++ mid ++ post`, `mid = s[a..b]`;
parsing it is, by `C08_span`, parsing a fresh copy of `mid` shifted by `a`. -/
theorem C08_span_bytes (g : NodeGrammar) (uni : Uni) (n : Nat) (r : RuleId) (s : List Char) (a b : Nat)
    (sl : List UInt8) (h : strGet (enc s) a b = some sl) :
    ∃ pre mid post, s = pre ++ mid ++ post ∧ sl = enc mid ∧ a = blen pre ∧
      Abs (spanAsInput0 (enc s) a b) (spanInput pre mid post) ∧
      tryParsePartial g uni n r (spanInput pre mid post) =
        ((tryParsePartial g uni n r (strInput mid)).shift a).mapInp (Inp.setAfter post) ∧
      tryParse g uni n r (spanInput pre mid post) =
        ((tryParse g uni n r (strInput mid)).shift a).mapInp (Inp.setAfter post) := by
  obtain ⟨pre, mid, post, hs, ha, hb, hsl⟩ := C08_span_decompose s a b sl h
  refine ⟨pre, mid, post, hs, hsl, ha, ?_, ?_, ?_⟩
  · rw [hs, ha, hb]; exact C08_as_input_abs pre mid post
  · rw [ha]; exact (C08_span g uni n r pre mid post).1
  · rw [ha]; exact (C08_span g uni n r pre mid post).2.1

example : ∃ pre mid post, ['é', 'a', 'b', 'λ'] = pre ++ mid ++ post ∧ [97, 98] = enc mid ∧ 2 = blen pre ∧
    Abs (spanAsInput0 (enc ['é', 'a', 'b', 'λ']) 2 4) (spanInput pre mid post) := by
  obtain ⟨pre, mid, post, h1, h2, h3, h4, _⟩ :=
    C08_span_bytes { rules := [], skipped := .empty } (fun _ _ => false) 3 0 ['é', 'a', 'b', 'λ'] 2 4 [97, 98]
      (by decide)
  exact ⟨pre, mid, post, h1, h2, h3, h4⟩

/-- The same for a `Position`. -/
theorem C08_position_bytes (s : List Char) (a : Nat) (sl : List UInt8)
    (h : strGet (enc s) a (enc s).length = some sl) :
    ∃ pre rest, s = pre ++ rest ∧ sl = enc rest ∧ a = blen pre ∧
      Abs (positionAsInput0 (enc s) a) (posInput pre rest) := by
  obtain ⟨pre, rest, hs, ha, hsl⟩ := C08_position_decompose s a sl h
  refine ⟨pre, rest, hs, hsl, ha, ?_⟩
  rw [hs, ha]; exact C08_as_input_abs_position pre rest

example : ∃ pre rest, ['é', 'a'] = pre ++ rest ∧ [97] = enc rest ∧ 2 = blen pre ∧
    Abs (positionAsInput0 (enc ['é', 'a']) 2) (posInput pre rest) :=
  C08_position_bytes ['é', 'a'] 2 [97] (by decide)

/-- The first `get()` on the cursor just built returns the slice the sub-input denotes, identically
in the debug (`checked = true`) and release (`checked = false`) profiles. -/
theorem C08_as_input_get (pre mid post : List Char) (checked : Bool) :
    (spanAsInput0 (enc (pre ++ mid ++ post)) (blen pre) (blen pre + blen mid)).get checked = .ok (enc mid) ∧
    (positionAsInput0 (enc (pre ++ mid)) (blen pre)).get checked = .ok (enc mid) ∧
    (strAsInput0 (enc mid)).get checked = .ok (enc mid) :=
  ⟨(C08_as_input_abs pre mid post).get checked, (C08_as_input_abs_position pre mid).get checked,
   (C08_as_input_abs_str mid).get checked⟩

example : (spanAsInput0 (enc ['é', 'a', 'b', 'λ']) 2 4).get true = .ok [97, 98] := by decide

end PestTyped
