/-
Props.C13 — Span operations agree with pest's Span for every span.

"For every string and every valid span in it, Span::new/get (all range forms), start/end/split,
as_str, lines, lines_span and merge_spans return what pest's Span returns: invalid or
non-boundary ranges give None, lines yields every line the span touches exactly once and in
order, merging succeeds exactly for overlapping or adjacent spans and yields their hull."

As for C12, "what pest returns" is carried by the tie T-text (model vs pest-typed vs pest 2.7.14,
exhaustively on short strings x spans x sub-ranges x pairs); the theorems say what the code
computes for ALL strings, offsets and ranges.  `Span.Valid` is the invariant of every `Span`
(ordered offsets on character boundaries); `lineTable s` are the byte ranges of the lines of `s`
(`splitLines`: each line ends with its LF, a final line without LF is kept, none after a final
LF); `C13_line_table` proves that this is the division into lines.

* `C13_new`          Span::new = Some(span with these offsets) iff ordered and on boundaries
* `C13_get`          get(range) for every form of start / end bound: Some(sub-span at the resolved
                     offsets) iff ordered, inside the span and on boundaries; None otherwise
* `C13_split`        split / start / end give the two offsets
* `C13_as_str`       the text between the offsets; panics exactly for an invalid span
* `C13_line_table`   `splitLines` divides a text into its maximal lines
* `C13_lines_span`   the iterator: the line around `start`, then the following lines up to the first
                     one that starts beyond `end` (nothing when `start` is the end of input)
* `C13_lines`        `lines` are the texts of those spans, first one = C12's `line_of(start)`
* `C13_lines_table`  … which are exactly the lines of the table meeting `[start, end]`, in order,
                     each once — closed at `end`: a line that starts exactly at `end` is included
                     (pest's behaviour, stated, not hidden)
* `C13_lines_fuel`   the model's fuel is not binding
* `C13_merge`        merge_spans = Some(hull) iff overlapping or adjacent

Not covered: `PartialEq`/`Hash` (pointer identity of the input is not modelled), `usize` overflow
of `offset + 1`.
-/
import PestTyped.Lemmas.TextSpan
namespace PestTyped
open Text

/-- `Span::new(s, a, b)` is `Some` — with exactly these offsets — iff `a ≤ b` and both are
character boundaries of `s` (so `b ≤ s.len()`); otherwise `None`. -/
theorem C13_new (s : List Char) (a b : Nat) :
    (∀ sp, Span.new s a b = some sp ↔ sp = ⟨s, a, b⟩ ∧ a ≤ b ∧ IsBoundary s a ∧ IsBoundary s b) ∧
    (Span.new s a b = none ↔ ¬ (a ≤ b ∧ IsBoundary s a ∧ IsBoundary s b)) :=
  ⟨fun _ => Span.new_eq_some, Span.new_eq_none⟩

example : Span.new ['a', '中', '\n'] 1 4 = some ⟨['a', '中', '\n'], 1, 4⟩ := by decide
example : Span.new ['a', '中', '\n'] 2 4 = none ∧ Span.new ['a', '中', '\n'] 4 1 = none ∧
    Span.new ['a', '中', '\n'] 4 6 = none := by decide

/-- `get` with any start bound (`Included a` → `a`, `Excluded a` → `a+1`, `Unbounded` → `0`)
and any end bound (`Included b` → `b+1`, `Excluded b` → `b`, `Unbounded` → length of the span),
relative to the span's start: the sub-span at those offsets when they are ordered, inside the
span and on boundaries of the input; `None` otherwise; never a panic on a valid span. -/
theorem C13_get (sp : Span) (h : sp.Valid) (lo hi : Bound) :
    let st := lo.startOff
    let en := hi.endOff (sp.stop - sp.start)
    (st ≤ en ∧ sp.start + en ≤ sp.stop ∧ IsBoundary sp.input (sp.start + st) ∧
        IsBoundary sp.input (sp.start + en) →
      sp.get lo hi = .ok (some ⟨sp.input, sp.start + st, sp.start + en⟩)) ∧
    (¬ (st ≤ en ∧ sp.start + en ≤ sp.stop ∧ IsBoundary sp.input (sp.start + st) ∧
        IsBoundary sp.input (sp.start + en)) →
      sp.get lo hi = .ok none) :=
  Span.get_of_valid h lo hi

/-- "Hello World!"[6..].get(1..=3) = "orl"; the six Rust range forms on a multi-byte text. -/
example : (Span.mk ['a', '中', 'b', 'c', '\n'] 1 6).get (.incl 3) (.incl 3) =
    .ok (some ⟨['a', '中', 'b', 'c', '\n'], 4, 5⟩) := by decide
example : (Span.mk ['a', '中', 'b', 'c', '\n'] 1 6).get (.incl 3) (.excl 5) =
    .ok (some ⟨['a', '中', 'b', 'c', '\n'], 4, 6⟩) := by decide
example : (Span.mk ['a', '中', 'b', 'c', '\n'] 1 6).get (.incl 3) .unb =
    .ok (some ⟨['a', '中', 'b', 'c', '\n'], 4, 6⟩) := by decide
example : (Span.mk ['a', '中', 'b', 'c', '\n'] 1 6).get .unb (.excl 3) =
    .ok (some ⟨['a', '中', 'b', 'c', '\n'], 1, 4⟩) := by decide
example : (Span.mk ['a', '中', 'b', 'c', '\n'] 1 6).get .unb (.incl 3) =
    .ok (some ⟨['a', '中', 'b', 'c', '\n'], 1, 5⟩) := by decide
example : (Span.mk ['a', '中', 'b', 'c', '\n'] 1 6).get .unb .unb =
    .ok (some ⟨['a', '中', 'b', 'c', '\n'], 1, 6⟩) := by decide
example : (Span.mk ['a', '中', 'b', 'c', '\n'] 1 6).get (.incl 1) (.excl 4) = .ok none ∧
    (Span.mk ['a', '中', 'b', 'c', '\n'] 1 6).get (.incl 4) (.excl 3) = .ok none ∧
    (Span.mk ['a', '中', 'b', 'c', '\n'] 1 6).get (.incl 0) (.incl 5) = .ok none := by decide
example : (Span.mk ['a', '中', 'b', 'c', '\n'] 1 6).Valid :=
  ⟨by decide, ⟨['a'], ['中', 'b', 'c', '\n'], rfl, by decide⟩, ⟨['a', '中', 'b', 'c'], ['\n'], rfl, by decide⟩⟩

/-- `split` (and `start`, `end`, `start_pos`, `end_pos`) are the two offsets. -/
theorem C13_split (sp : Span) : sp.split = (sp.start, sp.stop) := rfl

example : (Span.mk ['a', 'b'] 1 2).split = (1, 2) := by decide

/-- `as_str` of a valid span is the text between its offsets; it panics exactly when the span is
not valid (which no constructor produces). -/
theorem C13_as_str (sp : Span) :
    (sp.Valid → ∃ pre t post, sp.input = pre ++ t ++ post ∧ blen pre = sp.start ∧
        sp.start + blen t = sp.stop ∧ sp.asStr = .ok t) ∧
    (sp.asStr = .panic ↔ ¬ sp.Valid) := by
  constructor
  · intro h
    obtain ⟨pre, t, post, h1, h2, h3⟩ := h.split
    exact ⟨pre, t, post, h1, h2, h3, Span.asStr_of_split h1 h2 h3⟩
  · exact Span.asStr_panic_iff sp

example : (Span.mk ['a', '中', 'b'] 1 4).asStr = .ok ['中'] ∧ (Span.mk ['a', '中', 'b'] 2 4).asStr = .panic := by
  decide

/-- `splitLines` is the division of a text into its lines: concatenated they give the text, no
line is empty, an LF can only be the last character of a line, and every line but the last ends
with LF. -/
theorem C13_line_table (s : List Char) :
    (splitLines s).flatten = s ∧
    (∀ l ∈ splitLines s, l ≠ [] ∧ '\n' ∉ l.dropLast) ∧
    (∀ l ∈ (splitLines s).dropLast, l.getLast? = some '\n') :=
  ⟨flatten_splitLines s, splitLines_props s⟩

example : splitLines ['a', '\n', '\r', '\n', 'b'] = [['a', '\n'], ['\r', '\n'], ['b']] ∧
    lineTable ['a', '\n', '\r', '\n', 'b'] = [(0, 2), (2, 4), (4, 5)] ∧
    lineTable ['a', '\n'] = [(0, 2)] := by decide

/-- `lines_span`, for the split `input = pre ++ suf` at the span's start: nothing when the
start is the end of input; otherwise first the whole line around `start` (C12's `line_of`),
then the lines that follow it as long as they do not start beyond `end`. -/
theorem C13_lines_span (sp : Span) (pre suf : List Char) (hin : sp.input = pre ++ suf)
    (hs : blen pre = sp.start) (hv : sp.start ≤ sp.stop) :
    sp.linesSpan =
      if suf = [] then []
      else ⟨sp.input, sp.start - blen (afterLastLF pre), sp.start + blen (throughLF suf)⟩ ::
        (linesFromSpec sp.stop (sp.start + blen (throughLF suf)) (splitLines (afterLF suf))).map
          (mkLine sp.input) :=
  linesSpan_of_split sp pre suf hin hs hv

example : (Span.mk ['a', 'b', '\n', 'c', '\n', 'd', '\n', 'e'] 1 4).linesSpan =
    [⟨['a', 'b', '\n', 'c', '\n', 'd', '\n', 'e'], 0, 3⟩, ⟨['a', 'b', '\n', 'c', '\n', 'd', '\n', 'e'], 3, 5⟩] := by
  decide

/-- `lines` are the texts of those spans (no panic). -/
theorem C13_lines (sp : Span) (pre suf : List Char) (hin : sp.input = pre ++ suf)
    (hs : blen pre = sp.start) (hv : sp.start ≤ sp.stop) :
    sp.lines = .ok (
      if suf = [] then []
      else (afterLastLF pre ++ throughLF suf) ::
        (linesFromSpec sp.stop (sp.start + blen (throughLF suf)) (splitLines (afterLF suf))).map (·.2)) :=
  lines_of_split sp pre suf hin hs hv

example : (Span.mk ['a', 'b', '\n', 'c', '\n', 'd', '\n', 'e'] 1 4).lines =
    .ok [['a', 'b', '\n'], ['c', '\n']] := by decide

/-- Read off the line table of the input: `lines_span` yields, in order and once each, exactly
the lines `[u, v)` with `start < v` and `u ≤ end`, all on the same input.  The interval is
closed at `end`: when `end` is the first byte of a line, that line is yielded as well
(`"a\nb"[0..2]` yields both lines) — this is pest's behaviour. -/
theorem C13_lines_table (sp : Span) (hv : sp.Valid) :
    sp.linesSpan.map (fun l => (l.start, l.stop)) =
      (lineTable sp.input).filter (fun r => decide (sp.start < r.2 ∧ r.1 ≤ sp.stop)) ∧
    ∀ l ∈ sp.linesSpan, l.input = sp.input :=
  linesSpan_eq_filter sp hv

example : (Span.mk ['a', '\n', 'b'] 0 2).linesSpan.map (fun l => (l.start, l.stop)) = [(0, 2), (2, 3)] ∧
    (lineTable ['a', '\n', 'b']).filter (fun r => decide (0 < r.2 ∧ r.1 ≤ 2)) = [(0, 2), (2, 3)] := by decide

/-- The fuel of the model's collection loop is not binding: any larger fuel gives the same list. -/
theorem C13_lines_fuel (sp : Span) (hv : sp.Valid) (fuel : Nat) (hf : blen sp.input + 2 ≤ fuel) :
    linesSpanGo fuel sp sp.start = some sp.linesSpan := by
  obtain ⟨hle, ⟨pre, suf, hin, hs⟩, _⟩ := hv
  rw [linesSpanGo_of_split sp fuel pre suf hin hs hle hf, linesSpan_of_split sp pre suf hin hs hle]

example : linesSpanGo 100 ⟨['a', '\n', 'b'], 0, 2⟩ 0 = some (Span.mk ['a', '\n', 'b'] 0 2).linesSpan := by decide

/-- `merge_spans` of two valid spans of one input: `Some(hull)` iff they overlap or touch
(`a.end ≥ b.start ∧ a.start ≤ b.end`), `None` otherwise. -/
theorem C13_merge (a b : Span) (ha : a.Valid) (hb : b.Valid) (hi : a.input = b.input) :
    mergeSpans a b =
      if a.stop ≥ b.start ∧ a.start ≤ b.stop then
        some ⟨a.input, min a.start b.start, max a.stop b.stop⟩
      else none :=
  mergeSpans_of_valid ha hb hi

example : mergeSpans ⟨['a', 'b', 'c', 'd'], 1, 2⟩ ⟨['a', 'b', 'c', 'd'], 2, 4⟩ = some ⟨['a', 'b', 'c', 'd'], 1, 4⟩ ∧
    mergeSpans ⟨['a', 'b', 'c', 'd'], 3, 4⟩ ⟨['a', 'b', 'c', 'd'], 0, 3⟩ = some ⟨['a', 'b', 'c', 'd'], 0, 4⟩ ∧
    mergeSpans ⟨['a', 'b', 'c', 'd'], 0, 1⟩ ⟨['a', 'b', 'c', 'd'], 2, 4⟩ = none := by decide

end PestTyped
