/-
Props.C18 — `==`, `Hash`, `Clone`, `Debug` of parse results; no state between calls.

Property (fixed text): "Parsing the same input object twice yields trees that compare equal and hash
equally, and a clone equals its original and hashes equally.  Two results obtained from the same
input object (also through different sub-ranges of it) compare equal exactly when they are
structurally identical - same nodes, same spans, same skipped items, i.e. same Debug rendering - and
then they hash equally too.  No entry point keeps state between calls, so a result does not depend on
what was parsed before."

Vocabulary (`Model/ValEq.lean`, written field by field from the Rust impls): `valEq a c` is `a == c`
for two values whose spans point into ONE input object (`valEqOn same`: `same` is the outcome of the
pointer comparison in `Span::eq`); `hashFeed` is the sequence of writes `Hash::hash` makes;
`Val.clone` is the derived `Clone`; `debugTree` is the tree of `Formatter` calls of `{:?}`.
"Structurally identical" is `a.norm = c.norm`: equality of tags (hence of all offsets AND texts of all
spans, of characters, `Insens` contents, choice indices), of child lists (hence `Vec` lengths, skipped
items, element order) — `norm` only erases the offsets the MODEL keeps in the tag of an `Expression`
rule struct, which has no span field in Rust.  "From the same input object, also through different
sub-ranges" is `Inp.Window b0 i` (`Lemmas/ValEqLemmas.lean`): the cursor `i` an entry point is given
ranges over a piece of `b0`'s text at the right offset (the `&str`, `Position`, `Span` input forms).

Theorems (all for every grammar, Unicode table, fuel, node, cursor, state, value)
* `C18_eq_refl`, `C18_eq_symm`, `C18_eq_trans`               — `==` is an equivalence (trans: on one input).
* `C18_eq_of_norm_eq`                                         — structurally identical ⇒ equal (any values).
* `C18_eq_iff_spans`                                          — values made of pieces of one input: `==` ⇔ structurally identical.
* `C18_span_text`                                             — the key fact: offsets determine the text within one input.
* `C18_eq_iff`, `C18_eq_iff_tryParse`, `C18_eq_iff_tryParsePartial`, `C18_eq_iff_mixed`
                                                              — the same for any two results of runs over windows of one input.
* `C18_hash`, `C18_hash_on`, `C18_hash_iff_struct`            — `a == c ⇒ hash a == hash c` (the `Hash`/`Eq` contract).
* `C18_clone`, `C18_clone_eq`                                 — a clone is the same value; equal and hashes equally.
* `C18_debug_norm`, `C18_debug_of_eq`, `C18_debug_of_eq_parse` — equal results print the same `{:?}`.
* `C18_det`, `C18_det_partial`, `C18_det_fuel`, `C18_det_fuel_partial`
                                                              — parsing the same input twice: the same value (whatever the fuel), so equal, same hash.
* `C18_fresh_state`, `C18_fresh_state_full`, `C18_init_stk`, `runSession`, `C18_history`,
  `C18_history_nth`, `C18_history_indep`                      — S8: entry points take no state; results do not depend on earlier calls.
* `C18_other_input`, `C18_other_input_span`, `C18_other_input_imp`
                                                              — spans of different input objects never compare equal.
* STRETCH, complete (converse of `C18_debug_of_eq` for values of one type expression): `C18_typed`
  (every result is a value of its type expression, `Val.TypedT`), `C18_eq_of_debug`, `C18_debug_iff`,
  `C18_debug_iff_tryParse`, `C18_debug_iff_tryParsePartial` — `==` ⇔ same `{:?}` ⇔ structurally identical;
  witnesses that "of one type expression" cannot be dropped.
-/
import PestTyped.Lemmas.ValEqLemmas
import PestTyped.Lemmas.Choice
import PestTyped.Lemmas.Mono
import PestTyped.Model.Gen
namespace PestTyped

/-! ### concrete material for the non-vacuity examples -/

/-- rule 1 `WHITESPACE = _{ " " }`, rule 2 `ab = { "a" ~ "b" }` (emission `Both`), rule 3
`sil = _{ "ab" }` (silent: emission `Expression`), rule 4 `tok = @{ "ab" }` (emission `Span`),
rule 5 `ci = _{ ^"ab" }`, rule 6 `alt = { "ab" | "a" }`, rule 7 `many = { "a"* }`. -/
def c18Grammar : NodeGrammar :=
  { rules := [eoiDef,
      { name := "WHITESPACE", atom := .inherited, emit := .expression, boxed := true, body := .str [' '] },
      { name := "ab", atom := .nonAtomic, emit := .both, boxed := false, body := .seq .one [.str ['a'], .str ['b']] },
      { name := "sil", atom := .inherited, emit := .expression, boxed := false, body := .str ['a', 'b'] },
      { name := "tok", atom := .atomic, emit := .span, boxed := false, body := .str ['a', 'b'] },
      { name := "ci", atom := .inherited, emit := .expression, boxed := false, body := .insens ['a', 'b'] },
      { name := "alt", atom := .inherited, emit := .both, boxed := false,
        body := .choice [.str ['a', 'b'], .str ['a']] },
      { name := "many", atom := .nonAtomic, emit := .both, boxed := false,
        body := .rep .one 0 none (.str ['a']) }],
    skipped := .atomicRepeat (.ref 1 .zero) }

def c18Uni : Uni := fun _ _ => false

/-- The input object `"abab"` given as `&str`. -/
def c18B0 : Inp := { start := 0, pos := 0, rest := ['a', 'b', 'a', 'b'], after := [] }
/-- The `Span` `0..2` of it. -/
def c18Pre : Inp := { start := 0, pos := 0, rest := ['a', 'b'], after := ['a', 'b'] }
/-- The `Position` / `Span` `2..4` of it. -/
def c18Sub : Inp := { start := 2, pos := 2, rest := ['a', 'b'], after := [] }

theorem c18Pre_window : c18B0.Window c18Pre := ⟨[], ['a', 'b'], by decide, by decide⟩
theorem c18Sub_window : c18B0.Window c18Sub := ⟨['a', 'b'], [], by decide, by decide⟩

/-- Value of a partial parse of rule `r` at `i` (fuel 10). -/
def c18P (r : RuleId) (i : Inp) : Option Val := (tryParsePartial c18Grammar c18Uni 10 r i).val?
/-- Value of a full parse. -/
def c18F (r : RuleId) (i : Inp) : Option Val := (tryParse c18Grammar c18Uni 10 r i).val?

/-- `==` lifted to optional results (`none == _` is `false`). -/
def optEq : Option Val → Option Val → Bool
  | some a, some c => valEq a c
  | _, _ => false

/-! ### `==` is an equivalence -/

theorem C18_eq_refl (v : Val) : valEq v v = true := valEqOn_refl v

example : (c18P 2 c18B0).isSome = true ∧ optEq (c18P 2 c18B0) (c18P 2 c18B0) = true := by decide

theorem C18_eq_symm (a b : Val) : valEq a b = valEq b a := valEqOn_symm true a b

example : optEq (c18P 2 c18B0) (c18P 2 c18Sub) = false ∧ optEq (c18P 2 c18Sub) (c18P 2 c18B0) = false := by decide

/-- Structurally identical values compare equal — whatever their spans are pieces of. -/
theorem C18_eq_of_norm_eq (a c : Val) (h : a.norm = c.norm) : valEq a c = true := valEqOn_of_norm_eq a c h

/-- Within one input object the offsets of a span determine its text, so `Span::eq`, which compares
(pointer, start, end), compares the texts too. -/
theorem C18_span_text (b : Inp) (sp1 sp2 : Sp) (h1 : sp1.In b) (h2 : sp2.In b) (hs : sp1.s = sp2.s)
    (he : sp1.e = sp2.e) : sp1 = sp2 := h1.eq_of_offsets h2 hs he

example : (⟨2, 4, ['a', 'b']⟩ : Sp).In c18B0 := ⟨['a', 'b'], [], by decide, by decide, by decide⟩

/-! ### `==` ⇔ structural identity -/

/-- For two values all of whose spans are pieces of one input `b`: `a == c` exactly when they are
structurally identical. -/
theorem C18_eq_iff_spans (b : Inp) (a c : Val) (ha : a.SpansIn b) (hc : c.SpansIn b) :
    valEq a c = true ↔ a.norm = c.norm := valEqOn_iff_norm b a c ha hc

theorem C18_eq_trans (b : Inp) (a c d : Val) (ha : a.SpansIn b) (hc : c.SpansIn b) (hd : d.SpansIn b)
    (h1 : valEq a c = true) (h2 : valEq c d = true) : valEq a d = true :=
  (C18_eq_iff_spans b a d ha hd).mpr
    (((C18_eq_iff_spans b a c ha hc).mp h1).trans ((C18_eq_iff_spans b c d hc hd).mp h2))

/-- Two runs (any nodes, fuels, atomicity flags, start states) whose cursors range over windows of
one input object `b0`: their results compare equal exactly when they are structurally identical. -/
theorem C18_eq_iff (g : NodeGrammar) (uni : Uni) (b0 : Inp) (n1 n2 : Nat) (inh1 inh2 : Bool)
    (node1 node2 : Node) (i1 i2 : Inp) (m1 m2 : M) (i1' i2' : Inp) (m1' m2' : M) (v1 v2 : Val)
    (hw1 : b0.Window i1) (hw2 : b0.Window i2) (hs1 : StkIn i1 m1.stk) (hs2 : StkIn i2 m2.stk)
    (h1 : parse g uni n1 inh1 node1 i1 m1 = .ok i1' m1' v1)
    (h2 : parse g uni n2 inh2 node2 i2 m2 = .ok i2' m2' v2) :
    valEq v1 v2 = true ↔ v1.norm = v2.norm := by
  have s1 := parse_spans g uni i1 n1 inh1 node1 i1 m1 (Inp.Adv.refl _) hs1
  have s2 := parse_spans g uni i2 n2 inh2 node2 i2 m2 (Inp.Adv.refl _) hs2
  rw [h1] at s1; rw [h2] at s2
  exact C18_eq_iff_spans b0 v1 v2 (Val.SpansIn.window hw1 _ s1.2) (Val.SpansIn.window hw2 _ s2.2)

/-- The spans of a `try_parse` result are pieces of the input it was given. -/
theorem tryParse_spans {g : NodeGrammar} {uni : Uni} {n : Nat} {r : RuleId} {i i' : Inp} {m' : M} {v : Val}
    (h : tryParse g uni n r i = .ok i' m' v) : v.SpansIn i := by
  obtain ⟨i1, m1, hp⟩ := tryParse_ok_parse h
  have s := parse_spans g uni i n true (.ref r .one) i (M.init i) (Inp.Adv.refl _) (StkIn.nil _)
  rw [hp] at s; exact s.2

theorem tryParsePartial_spans {g : NodeGrammar} {uni : Uni} {n : Nat} {r : RuleId} {i i' : Inp} {m' : M}
    {v : Val} (h : tryParsePartial g uni n r i = .ok i' m' v) : v.SpansIn i := by
  have s := parse_spans g uni i n true (.ref r .one) i (M.init i) (Inp.Adv.refl _) (StkIn.nil _)
  unfold tryParsePartial at h
  rw [h] at s; exact s.2

/-- Entry point `try_parse`, two calls (any rules, any fuels) on sub-ranges of one input object. -/
theorem C18_eq_iff_tryParse (g : NodeGrammar) (uni : Uni) (b0 : Inp) (n1 n2 : Nat) (r1 r2 : RuleId)
    (i1 i2 : Inp) (i1' i2' : Inp) (m1' m2' : M) (v1 v2 : Val)
    (hw1 : b0.Window i1) (hw2 : b0.Window i2)
    (h1 : tryParse g uni n1 r1 i1 = .ok i1' m1' v1) (h2 : tryParse g uni n2 r2 i2 = .ok i2' m2' v2) :
    valEq v1 v2 = true ↔ v1.norm = v2.norm :=
  C18_eq_iff_spans b0 v1 v2 (Val.SpansIn.window hw1 _ (tryParse_spans h1))
    (Val.SpansIn.window hw2 _ (tryParse_spans h2))

-- both hypotheses hold for `ab` on the `Span`s 0..2 and 2..4 of "abab"; same shape, different spans: not equal
example : (tryParse c18Grammar c18Uni 10 2 c18Pre).isOk = true ∧ (tryParse c18Grammar c18Uni 10 2 c18Sub).isOk = true := by
  decide
example : optEq (c18F 2 c18Pre) (c18F 2 c18Sub) = false ∧ (c18F 2 c18Pre).map Val.norm ≠ (c18F 2 c18Sub).map Val.norm := by
  decide
example : c18F 2 c18Pre = some (.mk (.rule 2 .both false 0 2) [.mk .seq
    [.mk (.skipped 1) [.mk .atomicRepeat [], .mk .str []], .mk (.skipped 1) [.mk .atomicRepeat [], .mk .str []]]]) := by
  decide
example : c18F 2 c18Sub = some (.mk (.rule 2 .both false 2 4) [.mk .seq
    [.mk (.skipped 1) [.mk .atomicRepeat [], .mk .str []], .mk (.skipped 1) [.mk .atomicRepeat [], .mk .str []]]]) := by
  decide
-- the same range twice: equal
example : optEq (c18F 2 c18Sub) (c18F 2 c18Sub) = true := by decide

/-- Entry point `try_parse_partial`. -/
theorem C18_eq_iff_tryParsePartial (g : NodeGrammar) (uni : Uni) (b0 : Inp) (n1 n2 : Nat) (r1 r2 : RuleId)
    (i1 i2 : Inp) (i1' i2' : Inp) (m1' m2' : M) (v1 v2 : Val)
    (hw1 : b0.Window i1) (hw2 : b0.Window i2)
    (h1 : tryParsePartial g uni n1 r1 i1 = .ok i1' m1' v1)
    (h2 : tryParsePartial g uni n2 r2 i2 = .ok i2' m2' v2) :
    valEq v1 v2 = true ↔ v1.norm = v2.norm :=
  C18_eq_iff_spans b0 v1 v2 (Val.SpansIn.window hw1 _ (tryParsePartial_spans h1))
    (Val.SpansIn.window hw2 _ (tryParsePartial_spans h2))

/-- One result from `try_parse`, one from `try_parse_partial`. -/
theorem C18_eq_iff_mixed (g : NodeGrammar) (uni : Uni) (b0 : Inp) (n1 n2 : Nat) (r1 r2 : RuleId)
    (i1 i2 : Inp) (i1' i2' : Inp) (m1' m2' : M) (v1 v2 : Val)
    (hw1 : b0.Window i1) (hw2 : b0.Window i2)
    (h1 : tryParse g uni n1 r1 i1 = .ok i1' m1' v1)
    (h2 : tryParsePartial g uni n2 r2 i2 = .ok i2' m2' v2) :
    valEq v1 v2 = true ↔ v1.norm = v2.norm :=
  C18_eq_iff_spans b0 v1 v2 (Val.SpansIn.window hw1 _ (tryParse_spans h1))
    (Val.SpansIn.window hw2 _ (tryParsePartial_spans h2))

-- `&str` "abab" (partial) against its `Span` 0..2 (full): the same range through two input forms: equal
example : optEq (c18P 2 c18B0) (c18F 2 c18Pre) = true ∧ c18P 2 c18B0 = c18F 2 c18Pre := by decide
-- against the range 2..4: not equal, not structurally identical
example : optEq (c18P 2 c18B0) (c18P 2 c18Sub) = false ∧ (c18P 2 c18B0).map Val.norm ≠ (c18P 2 c18Sub).map Val.norm := by
  decide
-- a silent rule (`Expression` struct: no span field) at offsets 0 and 2: equal, structurally identical,
-- although the model's bookkeeping offsets differ
example : optEq (c18P 3 c18B0) (c18P 3 c18Sub) = true ∧ c18P 3 c18B0 ≠ c18P 3 c18Sub ∧
    (c18P 3 c18B0).map Val.norm = (c18P 3 c18Sub).map Val.norm := by decide
example : c18P 3 c18Sub = some (.mk (.rule 3 .expression false 2 4) [.mk .str []]) := by decide
-- an atomic rule (`Span` emission) at offsets 0 and 2: different spans
example : optEq (c18P 4 c18B0) (c18P 4 c18Sub) = false ∧ optEq (c18P 4 c18B0) (c18P 4 c18Pre) = true := by decide
-- different rules at the same range: not equal
example : optEq (c18P 2 c18B0) (c18P 4 c18B0) = false := by decide

/-! Every field matters: values differing in one place only are not equal. -/

-- (a) the last element of a sequence
example : valEq (.mk .seq [.mk (.skipped 0) [.mk (.charRange 'a') []], .mk (.skipped 0) [.mk (.charRange 'b') []]])
    (.mk .seq [.mk (.skipped 0) [.mk (.charRange 'a') []], .mk (.skipped 0) [.mk (.charRange 'c') []]]) = false := by decide
-- (b) a span end
example : valEq (.mk (.rule 4 .span false 0 2) []) (.mk (.rule 4 .span false 0 3) []) = false := by decide
example : valEq (.mk (.skipUntil ⟨0, 2, ['a', 'b']⟩) []) (.mk (.skipUntil ⟨0, 3, ['a', 'b', 'c']⟩) []) = false := by decide
example : valEq (.mk (.rule 2 .both false 1 2) [.mk .str []]) (.mk (.rule 2 .both false 0 2) [.mk .str []]) = false := by decide
-- (c) a skipped item: `"a" ~ "b"` on "a b" and on "ab" (parsed: bare nodes, no enclosing rule span)
def c18SeqAt (s : List Char) : Option Val :=
  (parse c18Grammar c18Uni 10 true (.seq .one [.str ['a'], .str ['b']]) ⟨0, 0, s, []⟩ (M.init ⟨0, 0, s, []⟩)).val?
example : optEq (c18SeqAt ['a', ' ', 'b']) (c18SeqAt ['a', 'b']) = false ∧
    optEq (c18SeqAt ['a', ' ', 'b']) (c18SeqAt ['a', ' ', 'b']) = true := by decide
example : valEq (.mk (.skipped 1) [.mk .atomicRepeat [.mk (.rule 1 .expression true 1 2) [.mk .str []]], .mk .str []])
    (.mk (.skipped 1) [.mk .atomicRepeat [], .mk .str []]) = false := by decide
-- (d) the choice index: `alt = { "ab" | "a" }` on "ab…" and (same start, window "a") on "a"
example : valEq (.mk (.choice 2 0) [.mk .str []]) (.mk (.choice 2 1) [.mk .str []]) = false := by decide
example : c18P 6 c18B0 = some (.mk (.rule 6 .both false 0 2) [.mk (.choice 2 0) [.mk .str []]]) ∧
    c18P 6 ⟨0, 0, ['a'], ['b', 'a', 'b']⟩ = some (.mk (.rule 6 .both false 0 1) [.mk (.choice 2 1) [.mk .str []]]) := by
  decide
-- (e) `Vec` length
example : valEq (.mk (.rep 0 none) [.mk (.skipped 0) [.mk .str []]])
    (.mk (.rep 0 none) [.mk (.skipped 0) [.mk .str []], .mk (.skipped 0) [.mk .str []]]) = false := by decide
example : optEq (c18P 7 ⟨0, 0, ['a', 'a'], []⟩) (c18P 7 ⟨0, 0, ['a', ' ', 'a'], []⟩) = false := by decide
-- (f) `Insens` content: `^"ab"` on "Ab" and on "ab" (silent rule: nothing but the content differs)
example : valEq (.mk (.insens ['A', 'b']) []) (.mk (.insens ['a', 'b']) []) = false := by decide
example : optEq (c18P 5 ⟨0, 0, ['A', 'b', 'a', 'b'], []⟩) (c18P 5 ⟨2, 2, ['a', 'b'], []⟩) = false ∧
    optEq (c18P 5 ⟨0, 0, ['a', 'b', 'a', 'b'], []⟩) (c18P 5 ⟨2, 2, ['a', 'b'], []⟩) = true := by decide
-- a character; a rule number; the boxing flag; `NEWLINE`'s variant
example : valEq (.mk (.any 'a') []) (.mk (.any 'b') []) = false := by decide
example : valEq (.mk (.rule 3 .expression false 0 2) [.mk .str []]) (.mk (.rule 5 .expression false 0 2) [.mk .str []]) = false := by
  decide
example : valEq (.mk (.newline 0) []) (.mk (.newline 2) []) = false := by decide

/-! ### `Hash` -/

/-- `a == c ⇒ hash(a) == hash(c)`, whatever the pointer comparison said. -/
theorem C18_hash_on (same : Bool) (a c : Val) (h : valEqOn same a c = true) : hashFeed a = hashFeed c :=
  hashFeed_of_valEqOn same a c h

theorem C18_hash (a c : Val) (h : valEq a c = true) : hashFeed a = hashFeed c := C18_hash_on true a c h

/-- Structurally identical results of runs over one input object hash equally. -/
theorem C18_hash_iff_struct (b : Inp) (a c : Val) (ha : a.SpansIn b) (hc : c.SpansIn b) (h : a.norm = c.norm) :
    hashFeed a = hashFeed c := C18_hash a c ((C18_eq_iff_spans b a c ha hc).mpr h)

-- a value with a skipped item: `ab` on "a b": [Skip;1] length prefixes, `Vec` lengths, then the span
example : (tryParsePartial c18Grammar c18Uni 10 2 ⟨0, 0, ['a', ' ', 'b'], []⟩).val?.map hashFeed =
    some [.len 1, .len 0, .len 1, .len 1, .ptr, .usize 0, .usize 3] := by decide
example : (c18P 2 c18B0).map hashFeed = some [.len 1, .len 0, .len 1, .len 0, .ptr, .usize 0, .usize 2] := by decide
-- equal values (silent rule at 0 and 2), equal feeds; unequal values here have different feeds
example : (c18P 3 c18B0).map hashFeed = (c18P 3 c18Sub).map hashFeed := by decide
example : (c18P 2 c18B0).map hashFeed ≠ (c18P 2 c18Sub).map hashFeed := by decide

/-! ### `Clone` -/

theorem C18_clone (v : Val) : v.clone = v := Val.clone_eq v

theorem C18_clone_eq (v : Val) : valEq v.clone v = true ∧ hashFeed v.clone = hashFeed v := by
  rw [C18_clone]; exact ⟨C18_eq_refl v, rfl⟩

example : (c18P 2 c18B0).map Val.clone = c18P 2 c18B0 ∧ optEq ((c18P 2 c18B0).map Val.clone) (c18P 2 c18B0) = true := by
  decide

/-! ### `Debug` -/

theorem C18_debug_norm (name : RuleId → String) (slice : Nat → Nat → List Char) (v : Val) :
    debugTree name slice v.norm = debugTree name slice v := debugTree_norm name slice v

/-- Equal results of runs over one input object have the same `{:?}` rendering. -/
theorem C18_debug_of_eq (name : RuleId → String) (slice : Nat → Nat → List Char) (b : Inp) (a c : Val)
    (ha : a.SpansIn b) (hc : c.SpansIn b) (h : valEq a c = true) :
    debugTree name slice a = debugTree name slice c := by
  rw [← C18_debug_norm name slice a, (C18_eq_iff_spans b a c ha hc).mp h, C18_debug_norm]

theorem C18_debug_of_eq_parse (name : RuleId → String) (slice : Nat → Nat → List Char)
    (g : NodeGrammar) (uni : Uni) (b0 : Inp) (n1 n2 : Nat) (r1 r2 : RuleId)
    (i1 i2 : Inp) (i1' i2' : Inp) (m1' m2' : M) (v1 v2 : Val)
    (hw1 : b0.Window i1) (hw2 : b0.Window i2)
    (h1 : tryParse g uni n1 r1 i1 = .ok i1' m1' v1) (h2 : tryParse g uni n2 r2 i2 = .ok i2' m2' v2)
    (h : valEq v1 v2 = true) : debugTree name slice v1 = debugTree name slice v2 :=
  C18_debug_of_eq name slice b0 v1 v2 (Val.SpansIn.window hw1 _ (tryParse_spans h1))
    (Val.SpansIn.window hw2 _ (tryParse_spans h2)) h

/-- `Span::as_str` on the input object "abab". -/
def c18Slice (s e : Nat) : List Char := (['a', 'b', 'a', 'b'].drop s).take (e - s)
def c18Name (r : RuleId) : String := (c18Grammar.rules[r]?.map RuleDef.name).getD ""

-- the silent rule at offsets 0 and 2 (equal values) prints the same
example : debugTree c18Name c18Slice (.mk (.rule 3 .expression false 0 2) [.mk .str []]) =
    debugTree c18Name c18Slice (.mk (.rule 3 .expression false 2 4) [.mk .str []]) := rfl
-- the span-bearing rule at 0..2 and 2..4 (unequal values) prints differently: `start: 0` / `start: 2`
example : debugTree c18Name c18Slice (.mk (.rule 4 .span false 0 2) []) ≠
    debugTree c18Name c18Slice (.mk (.rule 4 .span false 2 4) []) := by
  intro h
  simp only [debugTree, dbgSpan, Dbg.struct.injEq, List.cons.injEq, Dbg.num.injEq] at h
  exact absurd h.2.2.1.2.2.2.1 (by decide)

/-! ### determinism: parsing the same input object twice -/

/-- Two `try_parse` calls with the same arguments return the same tree: it compares equal and
hashes equally. -/
theorem C18_det (g : NodeGrammar) (uni : Uni) (n : Nat) (r : RuleId) (i : Inp)
    (i1' i2' : Inp) (m1' m2' : M) (v1 v2 : Val)
    (h1 : tryParse g uni n r i = .ok i1' m1' v1) (h2 : tryParse g uni n r i = .ok i2' m2' v2) :
    v1 = v2 ∧ valEq v1 v2 = true ∧ hashFeed v1 = hashFeed v2 := by
  rw [h1] at h2; injection h2 with _ _ hv
  subst hv; exact ⟨rfl, C18_eq_refl _, rfl⟩

theorem C18_det_partial (g : NodeGrammar) (uni : Uni) (n : Nat) (r : RuleId) (i : Inp)
    (i1' i2' : Inp) (m1' m2' : M) (v1 v2 : Val)
    (h1 : tryParsePartial g uni n r i = .ok i1' m1' v1) (h2 : tryParsePartial g uni n r i = .ok i2' m2' v2) :
    v1 = v2 ∧ valEq v1 v2 = true ∧ hashFeed v1 = hashFeed v2 := by
  rw [h1] at h2; injection h2 with _ _ hv
  subst hv; exact ⟨rfl, C18_eq_refl _, rfl⟩

/-- Fuel is an artefact of the model: the tree does not depend on it either (S1). -/
theorem C18_det_fuel (g : NodeGrammar) (uni : Uni) (n1 n2 : Nat) (r : RuleId) (i : Inp)
    (i1' i2' : Inp) (m1' m2' : M) (v1 v2 : Val)
    (h1 : tryParse g uni n1 r i = .ok i1' m1' v1) (h2 : tryParse g uni n2 r i = .ok i2' m2' v2) :
    v1 = v2 ∧ valEq v1 v2 = true ∧ hashFeed v1 = hashFeed v2 := by
  have hv : v1 = v2 := by
    rcases Nat.le_total n1 n2 with hle | hle
    · obtain ⟨k, rfl⟩ := Nat.exists_eq_add_of_le hle
      have := tryParse_mono h1 (by intro hh; cases hh) k
      rw [this] at h2; injection h2
    · obtain ⟨k, rfl⟩ := Nat.exists_eq_add_of_le hle
      have := tryParse_mono h2 (by intro hh; cases hh) k
      rw [this] at h1; injection h1 with _ _ hv; exact hv.symm
  subst hv; exact ⟨rfl, C18_eq_refl _, rfl⟩

theorem C18_det_fuel_partial (g : NodeGrammar) (uni : Uni) (n1 n2 : Nat) (r : RuleId) (i : Inp)
    (i1' i2' : Inp) (m1' m2' : M) (v1 v2 : Val)
    (h1 : tryParsePartial g uni n1 r i = .ok i1' m1' v1) (h2 : tryParsePartial g uni n2 r i = .ok i2' m2' v2) :
    v1 = v2 ∧ valEq v1 v2 = true ∧ hashFeed v1 = hashFeed v2 := by
  have hv : v1 = v2 := by
    rcases Nat.le_total n1 n2 with hle | hle
    · obtain ⟨k, rfl⟩ := Nat.exists_eq_add_of_le hle
      have := tryParsePartial_mono h1 (by intro hh; cases hh) k
      rw [this] at h2; injection h2
    · obtain ⟨k, rfl⟩ := Nat.exists_eq_add_of_le hle
      have := tryParsePartial_mono h2 (by intro hh; cases hh) k
      rw [this] at h1; injection h1 with _ _ hv; exact hv.symm
  subst hv; exact ⟨rfl, C18_eq_refl _, rfl⟩

example : (tryParse c18Grammar c18Uni 10 2 c18Sub).isOk = true ∧ (tryParse c18Grammar c18Uni 7 2 c18Sub).isOk = true ∧
    (tryParse c18Grammar c18Uni 10 2 c18Sub).val? = (tryParse c18Grammar c18Uni 7 2 c18Sub).val? := by decide

/-! ### S8: no state between calls

The entry points of the model take (grammar, rule, input) and nothing else: each call builds its own
initial state `M.init i` (empty stack, fresh tracker), exactly as the Rust entry points create a new
`Stack` and `Tracker` per call (`typed_node.rs:60-107`, `rule.rs:739-840`) and use no `static` /
thread-local state.  A "session" is therefore a `map` over the list of calls, and history
independence holds by construction; what the theorems below pin down is that this is indeed how the
entry points are defined. -/

theorem C18_fresh_state (g : NodeGrammar) (uni : Uni) (n : Nat) (r : RuleId) (i : Inp) :
    tryParsePartial g uni n r i = parse g uni n true (.ref r .one) i (M.init i) := rfl

theorem C18_init_stk (i : Inp) : (M.init i).stk = [] ∧ (M.init i).trk = Tracker.new i := ⟨rfl, rfl⟩

/-- `try_parse` starts from the same fresh state: its value is the one `parse` returns from `M.init i`. -/
theorem C18_fresh_state_full (g : NodeGrammar) (uni : Uni) (n : Nat) (r : RuleId) (i i' : Inp) (m' : M) (v : Val)
    (h : tryParse g uni n r i = .ok i' m' v) :
    ∃ i1 m1, parse g uni n true (.ref r .one) i (M.init i) = .ok i1 m1 v := tryParse_ok_parse h

/-- A sequence of `try_parse` calls, in order; the list of their results. -/
def runSession (g : NodeGrammar) (uni : Uni) (n : Nat) (es : List (RuleId × Inp)) : List (R Val) :=
  es.map fun e => tryParse g uni n e.1 e.2

/-- Whatever was parsed before, the last call returns what it returns on its own. -/
theorem C18_history (g : NodeGrammar) (uni : Uni) (n : Nat) (hist : List (RuleId × Inp)) (r : RuleId) (i : Inp) :
    (runSession g uni n (hist ++ [(r, i)])).getLast? = some (tryParse g uni n r i) := by
  simp [runSession]

/-- The `k`-th result of a session depends on the `k`-th call only. -/
theorem C18_history_nth (g : NodeGrammar) (uni : Uni) (n : Nat) (es : List (RuleId × Inp)) (k : Nat) :
    (runSession g uni n es)[k]? = es[k]?.map (fun e => tryParse g uni n e.1 e.2) := by
  simp [runSession]

theorem C18_history_indep (g : NodeGrammar) (uni : Uni) (n : Nat) (hist1 hist2 : List (RuleId × Inp))
    (r : RuleId) (i : Inp) :
    (runSession g uni n (hist1 ++ [(r, i)])).getLast? = (runSession g uni n (hist2 ++ [(r, i)])).getLast? := by
  rw [C18_history, C18_history]

example : ((runSession c18Grammar c18Uni 10 ([(4, c18B0), (2, c18Sub), (9, c18Pre)] ++ [(2, c18Pre)])).getLast?.bind Res.val?) =
    c18F 2 c18Pre ∧ (c18F 2 c18Pre).isSome = true := by decide
example : (runSession c18Grammar c18Uni 10 [(4, c18B0), (2, c18Sub), (9, c18Pre)]).map Res.isOk = [false, true, false] := by
  decide

/-! ### spans of different input objects -/

/-- `Span::eq` compares the input pointers first: with `same = false` a value that carries a span is
not even equal to a structurally identical one. -/
theorem C18_other_input (r : RuleId) (bx : Bool) (s e : Nat) (kids : List Val) :
    valEqOn false (.mk (.rule r .both bx s e) kids) (.mk (.rule r .both bx s e) kids) = false := by
  simp [valEqOn, tagEq, ruleSpanEq]

theorem C18_other_input_span (r : RuleId) (bx : Bool) (s e : Nat) (sp : Sp) :
    valEqOn false (.mk (.rule r .span bx s e) []) (.mk (.rule r .span bx s e) []) = false ∧
    valEqOn false (.mk (.skipUntil sp) []) (.mk (.skipUntil sp) []) = false ∧
    valEqOn false (.mk (.skipChars sp) []) (.mk (.skipChars sp) []) = false ∧
    valEqOn false (.mk (.peek sp) []) (.mk (.peek sp) []) = false ∧
    valEqOn false (.mk (.peekAll sp) []) (.mk (.peekAll sp) []) = false ∧
    valEqOn false (.mk (.pop sp) []) (.mk (.pop sp) []) = false ∧
    valEqOn false (.mk (.popAll sp) []) (.mk (.popAll sp) []) = false := by
  simp [valEqOn, tagEq, ruleSpanEq, spEq]

/-- Equality across input objects implies equality within one (same offsets): it is the stronger relation. -/
theorem C18_other_input_imp (a c : Val) (h : valEqOn false a c = true) : valEqOn true a c = true :=
  valEqOn_mono false a c h

example : ((c18P 2 c18B0).map fun v => valEqOn false v v) = some false ∧
    ((c18P 2 c18B0).map fun v => valEqOn true v v) = some true := by decide
-- a span-free value (silent rule over a literal) is equal to its like from ANY input object
example : ((c18P 3 c18B0).bind fun v => (c18P 3 c18Sub).map fun w => valEqOn false v w) = some true := by decide

/-! ### STRETCH — the converse: for two values of ONE type expression the `{:?}` rendering determines `==`

`debugTree` alone is not injective: `Skipped` with `SKIP = 0` prints its `matched` field alone, the
struct name of a rule is an arbitrary string, `MIN` / `MAX`, the boxing flag and the emission are not
printed.  All of these are parameters of the Rust TYPE, so they coincide for two values of one type
expression.  `Val.TypedT g v (.plain inh node)` (`Lemmas/ValEqLemmas.lean`) says that `v` is a value of
the type expression `node` (with `INHERITED = inh`); `parse_typed`: every result of `parse … node` is.
No hypothesis on the grammar, on `name` or on `slice` is needed. -/

/-- Every result is a value of the type expression it was parsed with. -/
theorem C18_typed (g : NodeGrammar) (uni : Uni) (n : Nat) (inh : Bool) (node : Node) (i : Inp) (m : M)
    (i' : Inp) (m' : M) (v : Val) (h : parse g uni n inh node i m = .ok i' m' v) :
    Val.TypedT g v (.plain inh node) := by
  have := parse_typed g uni n inh node i m
  rw [h] at this; exact this

/-- Two values of one type expression with the same `{:?}` rendering compare equal (the rendering
shows the offsets AND the text of every span, so no hypothesis on the spans is needed here). -/
theorem C18_eq_of_debug (name : RuleId → String) (slice : Nat → Nat → List Char) (g : NodeGrammar)
    (inh : Bool) (node : Node) (a c : Val) (ha : Val.TypedT g a (.plain inh node))
    (hc : Val.TypedT g c (.plain inh node)) (h : debugTree name slice a = debugTree name slice c) :
    valEq a c = true := debugTree_inj g name slice a c _ ha hc h

/-- Two runs of ONE type expression (any fuels, start states) over windows of one input object:
the results compare equal exactly when their `{:?}` renderings coincide, exactly when they are
structurally identical. -/
theorem C18_debug_iff (name : RuleId → String) (slice : Nat → Nat → List Char)
    (g : NodeGrammar) (uni : Uni) (b0 : Inp) (n1 n2 : Nat) (inh : Bool) (node : Node)
    (i1 i2 : Inp) (m1 m2 : M) (i1' i2' : Inp) (m1' m2' : M) (v1 v2 : Val)
    (hw1 : b0.Window i1) (hw2 : b0.Window i2) (hs1 : StkIn i1 m1.stk) (hs2 : StkIn i2 m2.stk)
    (h1 : parse g uni n1 inh node i1 m1 = .ok i1' m1' v1)
    (h2 : parse g uni n2 inh node i2 m2 = .ok i2' m2' v2) :
    (valEq v1 v2 = true ↔ debugTree name slice v1 = debugTree name slice v2) ∧
    (v1.norm = v2.norm ↔ debugTree name slice v1 = debugTree name slice v2) := by
  have s1 := parse_spans g uni i1 n1 inh node i1 m1 (Inp.Adv.refl _) hs1
  have s2 := parse_spans g uni i2 n2 inh node i2 m2 (Inp.Adv.refl _) hs2
  rw [h1] at s1; rw [h2] at s2
  have sp1 := Val.SpansIn.window hw1 _ s1.2
  have sp2 := Val.SpansIn.window hw2 _ s2.2
  have key : valEq v1 v2 = true ↔ debugTree name slice v1 = debugTree name slice v2 :=
    ⟨C18_debug_of_eq name slice b0 v1 v2 sp1 sp2,
     C18_eq_of_debug name slice g inh node v1 v2 (C18_typed _ _ _ _ _ _ _ _ _ _ h1) (C18_typed _ _ _ _ _ _ _ _ _ _ h2)⟩
  exact ⟨key, (C18_eq_iff_spans b0 v1 v2 sp1 sp2).symm.trans key⟩

/-- Entry point `try_parse_partial`, the same rule on two sub-ranges of one input object. -/
theorem C18_debug_iff_tryParsePartial (name : RuleId → String) (slice : Nat → Nat → List Char)
    (g : NodeGrammar) (uni : Uni) (b0 : Inp) (n1 n2 : Nat) (r : RuleId)
    (i1 i2 : Inp) (i1' i2' : Inp) (m1' m2' : M) (v1 v2 : Val)
    (hw1 : b0.Window i1) (hw2 : b0.Window i2)
    (h1 : tryParsePartial g uni n1 r i1 = .ok i1' m1' v1)
    (h2 : tryParsePartial g uni n2 r i2 = .ok i2' m2' v2) :
    (valEq v1 v2 = true ↔ debugTree name slice v1 = debugTree name slice v2) ∧
    (v1.norm = v2.norm ↔ debugTree name slice v1 = debugTree name slice v2) :=
  C18_debug_iff name slice g uni b0 n1 n2 true (.ref r .one) i1 i2 (M.init i1) (M.init i2) i1' i2' m1' m2' v1 v2
    hw1 hw2 (StkIn.nil _) (StkIn.nil _) h1 h2

/-- Entry point `try_parse`. -/
theorem C18_debug_iff_tryParse (name : RuleId → String) (slice : Nat → Nat → List Char)
    (g : NodeGrammar) (uni : Uni) (b0 : Inp) (n1 n2 : Nat) (r : RuleId)
    (i1 i2 : Inp) (i1' i2' : Inp) (m1' m2' : M) (v1 v2 : Val)
    (hw1 : b0.Window i1) (hw2 : b0.Window i2)
    (h1 : tryParse g uni n1 r i1 = .ok i1' m1' v1) (h2 : tryParse g uni n2 r i2 = .ok i2' m2' v2) :
    (valEq v1 v2 = true ↔ debugTree name slice v1 = debugTree name slice v2) ∧
    (v1.norm = v2.norm ↔ debugTree name slice v1 = debugTree name slice v2) := by
  obtain ⟨j1, k1, p1⟩ := tryParse_ok_parse h1
  obtain ⟨j2, k2, p2⟩ := tryParse_ok_parse h2
  exact C18_debug_iff name slice g uni b0 n1 n2 true (.ref r .one) i1 i2 (M.init i1) (M.init i2) j1 j2 k1 k2 v1 v2
    hw1 hw2 (StkIn.nil _) (StkIn.nil _) p1 p2

-- `ab` on the ranges 0..2 and 2..4 of "abab": not equal, hence (by the theorem) different renderings
example (v1 v2 : Val) (h1 : c18P 2 c18B0 = some v1) (h2 : c18P 2 c18Sub = some v2) :
    debugTree c18Name c18Slice v1 ≠ debugTree c18Name c18Slice v2 := by
  intro hd
  have e : optEq (c18P 2 c18B0) (c18P 2 c18Sub) = false := by decide
  rw [h1, h2] at e
  simp only [optEq] at e
  unfold c18P at h1 h2
  cases hr1 : tryParsePartial c18Grammar c18Uni 10 2 c18B0 with
  | ok j1 k1 w1 =>
    cases hr2 : tryParsePartial c18Grammar c18Uni 10 2 c18Sub with
    | ok j2 k2 w2 =>
      rw [hr1] at h1; rw [hr2] at h2
      simp only [Res.val?, Option.some.injEq] at h1 h2
      subst h1 h2
      have := (C18_debug_iff_tryParsePartial c18Name c18Slice c18Grammar c18Uni c18B0 10 10 2 c18B0 c18Sub
        j1 j2 k1 k2 w1 w2 (Inp.Window.refl _) c18Sub_window hr1 hr2).1.mpr hd
      rw [e] at this; cases this
    | oof => rw [hr2] at h2; cases h2
    | fail _ => rw [hr2] at h2; cases h2
  | oof => rw [hr1] at h1; cases h1
  | fail _ => rw [hr1] at h1; cases h1
example : (c18P 2 c18B0).isSome = true ∧ (c18P 2 c18Sub).isSome = true := by decide

/-! Without "of one type expression" the rendering does not determine `==`: -/

-- `Skipped<T, _, 0>` prints as its `matched` field
example : debugTree c18Name c18Slice (.mk (.skipped 0) [.mk .str []]) = debugTree c18Name c18Slice (.mk .str []) ∧
    valEq (.mk (.skipped 0) [.mk .str []]) (.mk .str []) = false := ⟨rfl, by decide⟩
-- `MIN` is not printed
example : debugTree c18Name c18Slice (.mk (.rep 0 none) []) = debugTree c18Name c18Slice (.mk (.rep 1 none) []) ∧
    valEq (.mk (.rep 0 none) []) (.mk (.rep 1 none) []) = false := ⟨rfl, by decide⟩
-- two rules whose structs have the same name (here: rules 8 and 9 do not exist, `c18Name` gives "")
example : debugTree c18Name c18Slice (.mk (.rule 8 .expression false 0 0) []) =
    debugTree c18Name c18Slice (.mk (.rule 9 .expression false 0 0) []) ∧
    valEq (.mk (.rule 8 .expression false 0 0) []) (.mk (.rule 9 .expression false 0 0) []) = false := ⟨rfl, by decide⟩

end PestTyped
