/-
Props.C09Sites — C09 ("never panics"): the panic sites on the parse path that compare the IDENTITY of two
input strings, and the trivially in-bounds full slice.

The other C09 files work in models where a position is an offset: `Model/Tracker.lean` has
`position : Nat`, the byte-level cursor `Inp0` of `Model/RunL0.lean` carries the bytes along.  Neither has
a notion of WHICH `&'i str` a position points into, so these sites of the Rust code were covered by no
theorem (`Model/RunL0.lean` lists them as "not modelled"):

(1) `impl Ord for Position { fn cmp }` (`position.rs`): `assert_eq!(self.input, other.input, ..)` — compares
    the CONTENT of the two `&str`, active in debug AND release —, executed by `Tracker::prepare`
    (`tracker.rs`) through `pos.cmp(&self.position)`, hence by `record`, `empty_stack`, `out_of_bound`,
    `repeat_too_many_times` and the second half of `record_during_with`;
(2) `Tracker::prepare` and `Tracker::record_during_with`: `debug_assert_eq!(pos.input(), self.position.input())`
    (content, debug builds only);
(3) `Position::span`: `if ptr::eq(self.input, other.input) {..} else { panic!(..) }` — fat-pointer equality:
    address AND length —, reached from `Input::span(&self, end: Self)` = `self.as_position().span(&end.as_position())`
    wherever the parse path builds a span;
(4) `stack[0..stack.len()]` in `predefined_node/mod.rs` (`PEEK_ALL`, `save_stack`): a full slice.

PART A re-states the Rust arms WITH references.  `StrRef` is a `&str` as the three comparisons see it (an
address and the bytes); `Cur` is a cursor of any of the three input types with its `input` field; `PosR` is
`Position<'i>`; `TrackerR` is the model's `Tracker` plus the reference inside its `position` field.
`PosR.cmp?`, `PosR.span?`, `Cur.span?`, `TrackerR.prepare? / special? / record? / enter? / leave?` follow
`position.rs` / `input.rs` / `tracker.rs` line by line, `checked = cfg!(debug_assertions)`, `none` = panic.
  * `C09_cmp_same_input`, `C09_cmp_other_input_panics` — (1) alone.
  * `C09_prepare_same_input`, `C09_prepare_other_input_panics`, `C09_prepare_panics_iff` — `prepare`: (1)+(2).
    With the same reference it is the model's total `Tracker.prepare` and the tracker keeps its reference;
    it panics — in BOTH profiles — exactly when the contents differ.
  * `C09_special_same_input`, `C09_record_same_input`, `C09_enter_same_input`, `C09_leave_same_input`,
    `C09_leave_same_input_nonempty` — the other tracker operations that take a cursor.
  * `C09_ops_erase_refs` — whenever one of the five partial operations returns, erasing the references gives
    exactly the model's operation (`Model/Tracker.lean`): the model is the Rust code minus the identity checks.
  * `C09_span_same_input`, `C09_span_other_input_panics` — (3).
  * `C09_full_slice_in_bounds` — (4).
PART B: a run holds ONE reference, as far as the models can say it.
  * `C09_cursor_same_input`, `C09_cursor_same_input_check`, `C09_cursor_same_input_entry` — the cursor a
    byte-level run (`parse0`, `check0`, the four entry points) returns is the entry cursor with another `pos`:
    bytes, `start`, `end` unchanged.  `C09_cur_at_same_input`: hence it is `Cur.at s ·` of the entry reference.
  * `C09_calls_reachable` — every framed-rule call a run logs (`evs`), whether or not the run returns, is made
    at a cursor reachable (`Inp.Adv`) from the base; `C09_call_cursor_abs` — the base byte cursor with that
    offset represents it.
  * `C09_reachable_cursor_same_input` — at any cursor reachable from the base, all five partial operations on
    a tracker holding the run's reference are the model's (`empty_stack` / `out_of_bound` are called at the
    current cursor of a leaf, which is not an event of the log).
  * `C09_run_same_input`, `C09_run_same_input_entry` — the combination: at every logged call the Rust cursor
    is `Cur.at s {b0 with pos := ev.i.pos}`; with a tracker holding `s`, `enter?` and `leave?` do not panic and
    are the model's `enter` / `leave` (for `leave?` on the tracker the run actually passes, `Ev.leaveArg`, with
    no further hypothesis, by `C09_leave_never_empty_run`), the tracker still holds `s`; `span?` to any other
    cursor of the run is defined.
  * `C09_fresh_tracker_same_input` — `Tracker::new(input)` from a cursor of the run holds the run's reference.

WHAT IS AND IS NOT PROVED.  Pointer identity cannot be DERIVED in a model without addresses.  Proved is:
(i) each Rust arm with its identity check succeeds and equals the model's total operation when both sides
hold the same reference, and does panic otherwise (the sites are real; the model's totality is not the
reason the theorems hold); (ii) every cursor of a byte-level run is the entry cursor with another offset
(`C09_cursor_same_input*`), every tracker call is made at such a cursor (`C09_calls_reachable`,
`C09_call_cursor_abs`).  (iii) The remaining link — that the RUST cursors differ from the entry cursor only
in the field behind `Input::cursor()` (so that `Cur.at s ·` is the right reading of (ii)), and that no other
`Position` / `Span` / `SubInput` over a different string is constructed on the parse path — is a fact about
the source text.  It is tied by the source inventory `checks/panic_sites.py` (kinds `ctor:*`,
`call:from_start`, `call:as_input`, `field-write:*`, `unsafe-block`), NOT by Lean.
The body of an `AtomicRepeat` runs on a fresh tracker `Tracker::new(input)` built from the current cursor: it
holds the same reference by (ii) (`C09_fresh_tracker_same_input`); the calls made inside that body are not in
`evs` (documented in `Lemmas/TrackerTrace.lean`), so `C09_run_same_input` does not enumerate them — they are
runs of `parse` from a reachable cursor, to which `C09_calls_reachable` applies with the same base.
-/
import PestTyped.Lemmas.InputIdentity
import PestTyped.Props.C04
import PestTyped.Props.C09Run
import PestTyped.Props.C09Panic
namespace PestTyped

/-! ## PART A — the Rust arms with their identity checks -/

/-- A `&'i str` as the three comparisons of the Rust code see it: `ptr::eq` (in `Position::span`) compares
address and length, `assert_eq!` / `debug_assert_eq!` (in `Ord::cmp`, `Tracker::prepare`,
`record_during_with`) compare the content. -/
structure StrRef where
  addr : Nat
  bytes : List UInt8
  deriving DecidableEq, Repr

/-- `ptr::eq` on `&str` (a fat pointer): same address and same length. -/
def StrRef.ptrEq (a b : StrRef) : Bool := a.addr == b.addr && a.bytes.length == b.bytes.length

/-- A cursor of any of the three input types (`Position`, `SubInput1`, `SubInput2`) with the reference in
its `input` field. -/
structure Cur where
  input : StrRef
  start : Nat
  pos : Nat
  «end» : Nat
  deriving DecidableEq, Repr

/-- Forget the address: the byte-level cursor of `Model/InputL0.lean`. -/
def Cur.toInp0 (c : Cur) : Inp0 := ⟨c.input.bytes, c.start, c.pos, c.end⟩

/-- The Rust cursor standing where the byte-level model's cursor `i` stands, in a run whose entry cursor
holds `s`: the entry cursor with another value in the one field `Input::cursor()` gives write access to. -/
def Cur.at (s : StrRef) (i : Inp0) : Cur := ⟨s, i.start, i.pos, i.end⟩

/-- `Position<'i>`. -/
structure PosR where
  input : StrRef
  pos : Nat
  deriving DecidableEq, Repr

/-- `Input::as_position` (its `debug_assert!` is `asPosition0` of `Model/RunL0.lean`). -/
def Cur.asPosition (c : Cur) : PosR := ⟨c.input, c.pos⟩

/-- `Ord::cmp`: `assert_eq!(self.input, other.input)` in every profile (`none` = panic), then compare the
offsets. -/
def PosR.cmp? (a b : PosR) : Option Ordering :=
  if a.input.bytes = b.input.bytes then some (compare a.pos b.pos) else none

/-- `Position::span`: `ptr::eq`, else `panic!`. -/
def PosR.span? (a b : PosR) : Option (Nat × Nat) :=
  if a.input.ptrEq b.input then some (a.pos, b.pos) else none

/-- `Input::span(&self, end)` = `self.as_position().span(&end.as_position())` (the `debug_assert!`s of the
two `new_unchecked` are `span0` of `Model/RunL0.lean`). -/
def Cur.span? (a b : Cur) : Option (Nat × Nat) := a.asPosition.span? b.asPosition

/-- The Rust tracker: the model's `Tracker` plus the reference inside its `position : Position<'i>` field. -/
structure TrackerR where
  input : StrRef
  t : Tracker
  deriving DecidableEq, Repr

namespace TrackerR

/-- The field `position : Position<'i>`. -/
def position (T : TrackerR) : PosR := ⟨T.input, T.t.position⟩

/-- `Tracker::new(pos)`: `position: pos.as_position()`. -/
def new (c : Cur) : TrackerR := ⟨c.asPosition.input, { position := c.asPosition.pos }⟩

/-- `Tracker::prepare`:
```
debug_assert_eq!(pos.input(), self.position.input());
let pos = pos.as_position();
match pos.cmp(&self.position) {            // assert_eq! inside, every profile
    Less => false, Equal => true,
    Greater => { self.clear(); self.position = pos; true }
}
``` -/
def prepare? (checked : Bool) (T : TrackerR) (c : Cur) : Option (TrackerR × Bool) :=
  if checked = true ∧ c.input.bytes ≠ T.input.bytes then none
  else
    match c.asPosition.cmp? T.position with
    | none => none
    | some .lt => some (T, false)
    | some .eq => some (T, true)
    | some .gt => some (⟨c.asPosition.input, { T.t with attempts := [], position := c.asPosition.pos }⟩, true)

/-- `empty_stack` / `out_of_bound` / `repeat_too_many_times`:
`if self.prepare(pos) { self.get_entry(pos).2.push(..) }` (`get_entry` reads `pos.byte_offset()` only). -/
def special? (checked : Bool) (T : TrackerR) (c : Cur) (s : Special) : Option TrackerR :=
  match T.prepare? checked c with
  | none => none
  | some (T', ok) =>
    let att := Tracker.modifyEntry (fun e => { e with specials := e.specials ++ [s] }) (T'.t.upper c.pos) T'.t.attempts
    some (if ok then ⟨T'.input, { T'.t with attempts := att }⟩ else T')

/-- `record`: `if self.prepare(pos) && succeeded != self.positive { .. get_entry(pos) .. push unless last }`. -/
def record? (checked : Bool) (T : TrackerR) (rule : RuleId) (c : Cur) (succeeded : Bool) : Option TrackerR :=
  match T.prepare? checked c with
  | none => none
  | some (T', ok) =>
    let k := T'.t.upper c.pos
    let pos := Tracker.modifyEntry (fun e => { e with positives := Tracker.pushNoDup e.positives rule }) k T'.t.attempts
    let neg := Tracker.modifyEntry (fun e => { e with negatives := Tracker.pushNoDup e.negatives rule }) k T'.t.attempts
    some (if ok && (succeeded != T'.t.positive) then
        (if T'.t.positive then ⟨T'.input, { T'.t with attempts := pos }⟩
         else ⟨T'.input, { T'.t with attempts := neg }⟩)
      else T')

/-- First half of `record_during_with`: mark the parent frame,
`debug_assert_eq!(pos.input(), self.position.input())`, push `(rule, pos.byte_offset(), false)`. -/
def enter? (checked : Bool) (T : TrackerR) (c : Cur) (rule : RuleId) : Option TrackerR :=
  let st := match T.t.stack with
    | [] => []
    | (r, p, _) :: rest => (r, p, true) :: rest
  if checked = true ∧ c.input.bytes ≠ T.input.bytes then none
  else some ⟨T.input, { T.t with stack := (rule, c.pos, false) :: st }⟩

/-- Second half of `record_during_with`: `self.stack.pop().unwrap()` (`none` on an empty stack), then
`if !has_children { self.record(rule, pos, succeeded) }`. -/
def leave? (checked : Bool) (T : TrackerR) (rule : RuleId) (c : Cur) (succeeded : Bool) : Option TrackerR :=
  match T.t.stack with
  | [] => none
  | (_, _, hasChildren) :: rest =>
    let T' : TrackerR := ⟨T.input, { T.t with stack := rest }⟩
    if hasChildren then some T' else T'.record? checked rule c succeeded

end TrackerR

/-! ### instances for the examples

The same five bytes at two addresses, and other bytes at the first address. -/

def c09sBytes : List UInt8 := [0x78, 0x79, 0x7a, 0x7a, 0x71]
def c09sS : StrRef := ⟨4096, c09sBytes⟩
/-- An equal string somewhere else (say a `String::clone`). -/
def c09sCopy : StrRef := ⟨8192, c09sBytes⟩
/-- Another text of the same length. -/
def c09sOther : StrRef := ⟨12288, [0x78, 0x79, 0x7a, 0x7a, 0x70]⟩
/-- A tracker holding `c09sS` with one open frame. -/
def c09sT : TrackerR := ⟨c09sS, { position := 1, stack := [(2, 1, false)] }⟩

/-! ### (1) `Ord::cmp` -/

/-- Two positions into the same reference compare by offset: the `assert_eq!` holds. -/
theorem C09_cmp_same_input (a b : PosR) (h : a.input = b.input) : a.cmp? b = some (compare a.pos b.pos) := by
  unfold PosR.cmp?; rw [if_pos (by rw [h])]

/-- Two positions into strings of different content: `cmp` panics (in every profile — the site is real). -/
theorem C09_cmp_other_input_panics (a b : PosR) (h : a.input.bytes ≠ b.input.bytes) : a.cmp? b = none := by
  unfold PosR.cmp?; rw [if_neg h]

example : (⟨c09sS, 3⟩ : PosR).cmp? ⟨c09sS, 1⟩ = some .gt := by decide
example : (⟨c09sS, 3⟩ : PosR).cmp? ⟨c09sOther, 1⟩ = none := by decide
/-- `assert_eq!` compares content: an equal string at another address does not trip it. -/
example : (⟨c09sS, 3⟩ : PosR).cmp? ⟨c09sCopy, 3⟩ = some .eq := by decide

/-! ### (1)+(2) `Tracker::prepare` and the operations built on it -/

/-- `prepare` on a cursor holding the tracker's own reference: neither the `debug_assert_eq!` nor the
`assert_eq!` of `cmp` fires, in either profile; the result is the model's total `Tracker.prepare`; the
tracker still holds its reference. -/
theorem C09_prepare_same_input (checked : Bool) (T : TrackerR) (c : Cur) (h : c.input = T.input) :
    T.prepare? checked c = some (⟨T.input, (T.t.prepare c.pos).1⟩, (T.t.prepare c.pos).2) := by
  unfold TrackerR.prepare?
  rw [if_neg (by rw [h]; simp)]
  rw [C09_cmp_same_input _ _ (show c.asPosition.input = T.position.input from h)]
  show (match some (compare c.pos T.t.position) with
    | none => none
    | some .lt => some (T, false)
    | some .eq => some (T, true)
    | some .gt => some (⟨c.input, { T.t with attempts := [], position := c.pos }⟩, true)) = _
  unfold Tracker.prepare
  rcases Nat.lt_trichotomy c.pos T.t.position with hlt | heq | hgt
  · rw [Nat.compare_eq_lt.mpr hlt, if_pos hlt]
  · rw [Nat.compare_eq_eq.mpr heq, if_neg (by omega), if_pos heq]
  · rw [Nat.compare_eq_gt.mpr hgt, if_neg (by omega), if_neg (by omega), h]

/-- `prepare` panics exactly when the contents differ — for BOTH values of `checked`: in release builds the
`assert_eq!` of `Ord::cmp` is still there. -/
theorem C09_prepare_panics_iff (checked : Bool) (T : TrackerR) (c : Cur) :
    T.prepare? checked c = none ↔ c.input.bytes ≠ T.input.bytes := by
  unfold TrackerR.prepare?
  by_cases hb : c.input.bytes = T.input.bytes
  · rw [if_neg (by simp [hb])]
    have : c.asPosition.cmp? T.position = some (compare c.pos T.t.position) := by
      unfold PosR.cmp?; exact if_pos hb
    rw [this]
    cases compare c.pos T.t.position <;> simp [hb]
  · have : c.asPosition.cmp? T.position = none := C09_cmp_other_input_panics _ _ hb
    rw [this]
    simp [hb]

theorem C09_prepare_other_input_panics (checked : Bool) (T : TrackerR) (c : Cur)
    (h : c.input.bytes ≠ T.input.bytes) : T.prepare? checked c = none :=
  (C09_prepare_panics_iff checked T c).mpr h

/-- The three arms (`Less`, `Equal`, `Greater`: clear and advance) with the tracker's own reference. -/
example : (c09sT.prepare? true ⟨c09sS, 0, 0, 5⟩).map (·.2) = some false ∧
    (c09sT.prepare? false ⟨c09sS, 0, 1, 5⟩).map (·.2) = some true ∧
    c09sT.prepare? true ⟨c09sS, 0, 4, 5⟩ = some (⟨c09sS, { c09sT.t with position := 4 }⟩, true) := by decide
/-- Two different strings: `prepare` panics in the debug AND in the release profile. -/
example : c09sT.prepare? true ⟨c09sOther, 0, 1, 5⟩ = none ∧ c09sT.prepare? false ⟨c09sOther, 0, 1, 5⟩ = none := by
  decide

/-- `empty_stack` / `out_of_bound` / `repeat_too_many_times`. -/
theorem C09_special_same_input (checked : Bool) (T : TrackerR) (c : Cur) (s : Special) (h : c.input = T.input) :
    T.special? checked c s = some ⟨T.input, T.t.special c.pos s⟩ := by
  unfold TrackerR.special?
  rw [C09_prepare_same_input checked T c h]
  unfold Tracker.special
  cases T.t.prepare c.pos with
  | mk t ok => cases ok <;> rfl

/-- `record`. -/
theorem C09_record_same_input (checked : Bool) (T : TrackerR) (rule : RuleId) (c : Cur) (succeeded : Bool)
    (h : c.input = T.input) :
    T.record? checked rule c succeeded = some ⟨T.input, T.t.record rule c.pos succeeded⟩ := by
  unfold TrackerR.record?
  rw [C09_prepare_same_input checked T c h]
  unfold Tracker.record
  cases T.t.prepare c.pos with
  | mk t ok =>
    simp only []
    cases ok
    · simp
    · cases succeeded <;> cases t.positive <;> simp

/-- `record_during_with`, first half. -/
theorem C09_enter_same_input (checked : Bool) (T : TrackerR) (c : Cur) (rule : RuleId) (h : c.input = T.input) :
    T.enter? checked c rule = some ⟨T.input, T.t.enter rule c.pos⟩ := by
  unfold TrackerR.enter?
  simp only []
  rw [if_neg (by rw [h]; simp)]
  rfl

/-- `record_during_with`, second half: with the tracker's own reference the only way to panic is the
`unwrap` on an empty rule stack — the arm is the reference-free `Tracker.leave?` of `Lemmas/NoPanic.lean`. -/
theorem C09_leave_same_input (checked : Bool) (T : TrackerR) (rule : RuleId) (c : Cur) (succeeded : Bool)
    (h : c.input = T.input) :
    T.leave? checked rule c succeeded = (T.t.leave? rule c.pos succeeded).map (fun t => ⟨T.input, t⟩) := by
  unfold TrackerR.leave? Tracker.leave?
  cases hs : T.t.stack with
  | nil => rfl
  | cons x rest =>
    obtain ⟨r0, p0, hc⟩ := x
    cases hc
    · simp only [Bool.false_eq_true, if_false]
      rw [C09_record_same_input checked ⟨T.input, { T.t with stack := rest }⟩ rule c succeeded h]
      rfl
    · rfl

/-- … and on a non-empty rule stack (what runs guarantee: `C09_leave_never_empty_run`) it is the model's
total `Tracker.leave`. -/
theorem C09_leave_same_input_nonempty (checked : Bool) (T : TrackerR) (rule : RuleId) (c : Cur) (succeeded : Bool)
    (h : c.input = T.input) (hne : T.t.stack ≠ []) :
    T.leave? checked rule c succeeded = some ⟨T.input, T.t.leave rule c.pos succeeded⟩ := by
  rw [C09_leave_same_input checked T rule c succeeded h, Tracker.leave?_eq_some hne]; rfl

example : c09sT.special? true ⟨c09sS, 0, 1, 5⟩ .emptyStack =
    some ⟨c09sS, c09sT.t.special 1 .emptyStack⟩ := by decide
example : c09sT.record? false 7 ⟨c09sS, 0, 3, 5⟩ false = some ⟨c09sS, c09sT.t.record 7 3 false⟩ := by decide
example : c09sT.enter? true ⟨c09sS, 0, 2, 5⟩ 3 = some ⟨c09sS, c09sT.t.enter 3 2⟩ := by decide
example : c09sT.leave? true 2 ⟨c09sS, 0, 1, 5⟩ false = some ⟨c09sS, c09sT.t.leave 2 1 false⟩ ∧
    c09sT.t.leave 2 1 false ≠ c09sT.t := by decide
/-- The sites are real: a cursor over another text makes every one of them panic (`enter?`: debug only —
its only check is the `debug_assert_eq!`). -/
example : c09sT.special? false ⟨c09sOther, 0, 1, 5⟩ .emptyStack = none ∧
    c09sT.record? false 7 ⟨c09sOther, 0, 3, 5⟩ false = none ∧
    c09sT.enter? true ⟨c09sOther, 0, 2, 5⟩ 3 = none ∧ (c09sT.enter? false ⟨c09sOther, 0, 2, 5⟩ 3).isSome = true ∧
    c09sT.leave? false 2 ⟨c09sOther, 0, 1, 5⟩ false = none := by decide
/-- … and an empty rule stack makes `leave?` panic whatever the references. -/
example : (⟨c09sS, { position := 1 }⟩ : TrackerR).leave? false 2 ⟨c09sS, 0, 1, 5⟩ false = none := by decide

/-- The model is the Rust code minus the identity checks: WHENEVER one of the partial operations returns
(same reference or merely equal content), forgetting the references gives the model's total operation. -/
theorem C09_ops_erase_refs (checked : Bool) (T : TrackerR) (c : Cur) :
    (∀ R, T.prepare? checked c = some R → (R.1.t, R.2) = T.t.prepare c.pos) ∧
    (∀ s T', T.special? checked c s = some T' → T'.t = T.t.special c.pos s) ∧
    (∀ rule succeeded T', T.record? checked rule c succeeded = some T' → T'.t = T.t.record rule c.pos succeeded) ∧
    (∀ rule T', T.enter? checked c rule = some T' → T'.t = T.t.enter rule c.pos) ∧
    (∀ rule succeeded T', T.leave? checked rule c succeeded = some T' → T'.t = T.t.leave rule c.pos succeeded) := by
  have hprep : ∀ (T : TrackerR) R, T.prepare? checked c = some R → (R.1.t, R.2) = T.t.prepare c.pos := by
    intro T R hR
    unfold TrackerR.prepare? at hR
    split at hR
    · cases hR
    · by_cases hb : c.asPosition.input.bytes = T.position.input.bytes
      · have hc : c.asPosition.cmp? T.position = some (compare c.pos T.t.position) := by
          unfold PosR.cmp?; exact if_pos hb
        rw [hc] at hR
        unfold Tracker.prepare
        rcases Nat.lt_trichotomy c.pos T.t.position with hlt | heq | hgt
        · rw [Nat.compare_eq_lt.mpr hlt] at hR
          have hR' : some (T, false) = some R := hR
          injection hR' with hR'; subst hR'
          rw [if_pos hlt]
        · rw [Nat.compare_eq_eq.mpr heq] at hR
          have hR' : some (T, true) = some R := hR
          injection hR' with hR'; subst hR'
          rw [if_neg (by omega), if_pos heq]
        · rw [Nat.compare_eq_gt.mpr hgt] at hR
          have hR' : some ((⟨c.input, { T.t with attempts := [], position := c.pos }⟩ : TrackerR), true) = some R := hR
          injection hR' with hR'; subst hR'
          rw [if_neg (by omega), if_neg (by omega)]
      · have hc : c.asPosition.cmp? T.position = none := by
          unfold PosR.cmp?; exact if_neg hb
        rw [hc] at hR; cases hR
  have hrec : ∀ (T : TrackerR) rule succeeded T', T.record? checked rule c succeeded = some T' →
      T'.t = T.t.record rule c.pos succeeded := by
    intro T rule succeeded T' h
    unfold TrackerR.record? at h
    cases hp : T.prepare? checked c with
    | none => rw [hp] at h; cases h
    | some R =>
      obtain ⟨T1, ok⟩ := R
      have := hprep T _ hp
      rw [hp] at h; simp only [] at h this
      injection h with h; subst h
      unfold Tracker.record; rw [← this]
      simp only []
      cases ok
      · simp
      · cases succeeded <;> cases T1.t.positive <;> simp
  refine ⟨hprep T, ?_, hrec T, ?_, ?_⟩
  · intro s T' h
    unfold TrackerR.special? at h
    cases hp : T.prepare? checked c with
    | none => rw [hp] at h; cases h
    | some R =>
      obtain ⟨T1, ok⟩ := R
      have := hprep T _ hp
      rw [hp] at h; simp only [] at h this
      injection h with h; subst h
      unfold Tracker.special; rw [← this]
      cases ok <;> rfl
  · intro rule T' h
    unfold TrackerR.enter? at h
    simp only [] at h
    split at h
    · cases h
    · injection h with h; subst h; rfl
  · intro rule succeeded T' h
    unfold TrackerR.leave? at h
    unfold Tracker.leave
    cases hs : T.t.stack with
    | nil => rw [hs] at h; cases h
    | cons x rest =>
      obtain ⟨r0, p0, hc⟩ := x
      rw [hs] at h
      cases hc
      · simp only [Bool.false_eq_true, if_false] at h ⊢
        exact hrec _ _ _ _ h
      · simp only [if_true] at h ⊢
        injection h with h; subst h; rfl

/-- An equal string at another address passes the content checks; the `Greater` arm then stores the
CURSOR's reference in the tracker (`self.position = pos`); the offsets are the model's. -/
example : (c09sT.prepare? true ⟨c09sCopy, 0, 4, 5⟩).map (fun R => (R.1.input.addr, R.1.t.position, R.2)) =
    some (8192, 4, true) := by decide

/-! ### (3) `Position::span` -/

/-- `start.span(end)` between two cursors holding the same reference: `ptr::eq` holds. -/
theorem C09_span_same_input (a b : Cur) (h : a.input = b.input) : a.span? b = some (a.pos, b.pos) := by
  unfold Cur.span? PosR.span?
  rw [if_pos (by simp [Cur.asPosition, StrRef.ptrEq, h])]; rfl

/-- Between cursors into strings at different addresses it panics — equal content does not help. -/
theorem C09_span_other_input_panics (a b : Cur) (h : a.input.addr ≠ b.input.addr) : a.span? b = none := by
  unfold Cur.span? PosR.span?
  rw [if_neg (by simp [Cur.asPosition, StrRef.ptrEq, h])]

example : (⟨c09sS, 0, 1, 5⟩ : Cur).span? ⟨c09sS, 0, 4, 5⟩ = some (1, 4) := by decide
example : (⟨c09sS, 0, 1, 5⟩ : Cur).span? ⟨c09sCopy, 0, 4, 5⟩ = none := by decide
/-- Same address, another length (a sub-slice `&s[..4]`): `ptr::eq` on fat pointers is false as well. -/
example : (⟨c09sS, 0, 1, 5⟩ : Cur).span? ⟨⟨4096, c09sBytes.take 4⟩, 0, 4, 4⟩ = none := by decide

/-! ### (4) `stack[0..stack.len()]` -/

/-- The full slice `stack[0..stack.len()]` of `PEEK_ALL` / `save_stack` is in bounds and is the whole
vector (`sliceIdx?` of `Lemmas/NoPanic.lean`: `none` = the index expression panics). -/
theorem C09_full_slice_in_bounds {α} (v : List α) : sliceIdx? v 0 v.length = some v := by
  rw [sliceIdx?_eq_some v (Nat.zero_le _) (Nat.le_refl _)]
  simp

example : sliceIdx? c09pM.stk.reverse 0 c09pM.stk.reverse.length = some c09pM.stk.reverse := by decide
example : sliceIdx? ([] : List Sp) 0 0 = some [] := by decide
example : sliceIdx? c09pM.stk.reverse 0 4 = none := by decide

/-! ## PART B — a run holds one reference -/

/-- Parse path, node level: the cursor a byte-level run returns is the cursor it was entered at with
another value in the `pos` field — same bytes, same `start`, same `end`. -/
theorem C09_cursor_same_input (checked : Bool) (g : NodeGrammar) (uni : Uni) (fuel : Nat) (inh : Bool)
    (node : Node) {i0 i0' : Inp0} {i : Inp} {m0 m0' : M0} {m : M} {v : Val} (hi : Abs i0 i)
    (hm : AbsM i0.bytes m0 m) (h : parse0 checked g uni fuel inh node i0 m0 = .ok i0' m0' v) :
    i0' = { i0 with pos := i0'.pos } := by
  have hr := C09_run_sim checked g uni fuel inh node hi hm
  rw [h] at hr
  cases hp : parse g uni fuel inh node i m with
  | oof => rw [hp] at hr; exact hr.elim
  | fail _ => rw [hp] at hr; exact hr.elim
  | ok i' m' v' =>
    rw [hp] at hr
    exact hi.same_cursor hr.1 hr.2.1 (parse_adv g uni fuel inh node _ _ _ _ _ hp)

/-- Check path. -/
theorem C09_cursor_same_input_check (checked : Bool) (g : NodeGrammar) (uni : Uni) (fuel : Nat) (inh : Bool)
    (node : Node) {i0 i0' : Inp0} {i : Inp} {m0 m0' : M0} {m : M} (hi : Abs i0 i)
    (hm : AbsM i0.bytes m0 m) (h : check0 checked g uni fuel inh node i0 m0 = .ok i0' m0' ()) :
    i0' = { i0 with pos := i0'.pos } := by
  have hr := C09_run_sim_check checked g uni fuel inh node hi hm
  rw [h] at hr
  cases hp : check g uni fuel inh node i m with
  | oof => rw [hp] at hr; exact hr.elim
  | fail _ => rw [hp] at hr; exact hr.elim
  | ok i' m' v' =>
    rw [hp] at hr
    exact hi.same_cursor hr.1 hr.2.1 (check_adv g uni fuel inh node _ _ _ _ _ hp)

/-- A successful full / partial parse / check returns a cursor reachable from the entry cursor. -/
theorem C09_entry_adv (g : NodeGrammar) (uni : Uni) (n : Nat) (r : RuleId) (i i' : Inp) (m' : M) :
    (∀ v, tryParse g uni n r i = .ok i' m' v → i.Adv i') ∧
    (tryCheck g uni n r i = .ok i' m' () → i.Adv i') ∧
    (∀ v, tryParsePartial g uni n r i = .ok i' m' v → i.Adv i') ∧
    (tryCheckPartial g uni n r i = .ok i' m' () → i.Adv i') := by
  have hP : ∀ v, tryParsePartial g uni n r i = .ok i' m' v → i.Adv i' :=
    fun v h => parse_adv g uni n true (.ref r .one) _ _ _ _ _ h
  have hF : ∀ (i' : Inp) (m' : M) v, tryParse g uni n r i = .ok i' m' v → i.Adv i' := by
    intro i' m' v h
    obtain ⟨i1, m1, h1, ha⟩ := C04_same_tree g uni n r i i' m' v h
    exact (parse_adv g uni n true (.ref r .one) _ _ _ _ _ h1).trans ha
  refine ⟨hF i' m', ?_, hP, fun h => check_adv g uni n true (.ref r .one) _ _ _ _ _ h⟩
  intro h
  rw [C03_full_agree] at h
  cases hp : tryParse g uni n r i with
  | oof => rw [hp] at h; cases h
  | fail _ => rw [hp] at h; cases h
  | ok i2 m2 v2 =>
    rw [hp] at h; simp only [Res.forget] at h
    injection h with h1 h2; subst h1
    exact hF _ _ _ hp

/-- The four entry points (`try_parse`, `try_check`, `try_parse_partial`, `try_check_partial`), from a fresh
state on any byte cursor satisfying the invariant: the returned cursor is the entry cursor with another `pos`. -/
theorem C09_cursor_same_input_entry (checked : Bool) (g : NodeGrammar) (uni : Uni) (fuel : Nat) (r : RuleId)
    {i0 i0' : Inp0} {i : Inp} {m0' : M0} (hi : Abs i0 i) :
    (∀ v, tryParse0 checked g uni fuel r i0 = .ok i0' m0' v → i0' = { i0 with pos := i0'.pos }) ∧
    (tryCheck0 checked g uni fuel r i0 = .ok i0' m0' () → i0' = { i0 with pos := i0'.pos }) ∧
    (∀ v, tryParsePartial0 checked g uni fuel r i0 = .ok i0' m0' v → i0' = { i0 with pos := i0'.pos }) ∧
    (tryCheckPartial0 checked g uni fuel r i0 = .ok i0' m0' () → i0' = { i0 with pos := i0'.pos }) := by
  obtain ⟨h1, h2, h3, h4⟩ := C09_run_entry_sim checked g uni fuel r hi
  have key : ∀ {α} {r0 : R0 α} {rr : R α} (a : α), Rel0 i0.bytes r0 rr → r0 = .ok i0' m0' a →
      (∀ i' m' a', rr = .ok i' m' a' → i.Adv i') → i0' = { i0 with pos := i0'.pos } := by
    intro α r0 rr a hr h hadv
    rw [h] at hr
    cases hp : rr with
    | oof => rw [hp] at hr; exact hr.elim
    | fail _ => rw [hp] at hr; exact hr.elim
    | ok i' m' a' =>
      rw [hp] at hr
      exact hi.same_cursor hr.1 hr.2.1 (hadv _ _ _ hp)
  refine ⟨fun v h => key v h1 h ?_, fun h => key () h2 h ?_, fun v h => key v h3 h ?_, fun h => key () h4 h ?_⟩
  · intro i' m' a' hp; exact (C09_entry_adv g uni fuel r i i' m').1 a' hp
  · intro i' m' a' hp; exact (C09_entry_adv g uni fuel r i i' m').2.1 hp
  · intro i' m' a' hp; exact (C09_entry_adv g uni fuel r i i' m').2.2.1 a' hp
  · intro i' m' a' hp; exact (C09_entry_adv g uni fuel r i i' m').2.2.2 hp

/-- Hence, reading the byte-level cursors of a run entered with the reference `s` as Rust cursors: the
cursor at `i0'` is `Cur.at s i0'`; it forgets to `i0'` and it is the entry cursor `Cur.at s i0` with
another value in the one field behind `Input::cursor()`. -/
theorem C09_cur_at_same_input (s : StrRef) {i0 i0' : Inp0} (hs : s.bytes = i0.bytes)
    (h : i0' = { i0 with pos := i0'.pos }) :
    (Cur.at s i0').toInp0 = i0' ∧ Cur.at s i0' = { Cur.at s i0 with pos := i0'.pos } ∧
    (Cur.at s i0').input = (Cur.at s i0).input := by
  refine ⟨?_, ?_, rfl⟩
  · rw [h]; simp only [Cur.at, Cur.toInp0, hs]
  · rw [h]; rfl

/-- `"xyzzq".as_input()`, the entry cursor of the examples, and what the entry point returns. -/
def c09sI0 : Inp0 := ⟨c09sBytes, 0, 0, 5⟩

example : Abs c09sI0 c03Input := by
  have : c09sI0 = strAsInput0 (enc ['x', 'y', 'z', 'z', 'q']) := by decide
  rw [this]; exact C08_as_input_abs_str _

example : (match tryParsePartial0 true c03Grammar c09pU 20 1 c09sI0 with
    | .ok i0' _ _ => some (i0', decide (i0' = { c09sI0 with pos := i0'.pos }), Cur.at c09sS i0')
    | _ => none) = some (⟨c09sBytes, 0, 4, 5⟩, true, ⟨c09sS, 0, 4, 5⟩) := by decide

/-- Every call of a framed rule logged by a run — any node, any state, any fuel, whether the run returns
or runs out of fuel — is made at a cursor reachable from the base cursor `b`. -/
theorem C09_calls_reachable (g : NodeGrammar) (uni : Uni) (n : Nat) (inh : Bool) (node : Node) (b i : Inp) (m : M)
    (hb : b.Adv i) (ev : Ev) (h : ev ∈ evs g uni n inh node i m) : b.Adv ev.i :=
  evs_adv g uni b n inh node i m hb ev h

/-- The base byte cursor with the offset of a cursor reachable from the base represents that cursor: it is
the byte-level cursor of the call. -/
theorem C09_call_cursor_abs {b0 : Inp0} {b i : Inp} (h : Abs b0 b) (ha : b.Adv i) :
    Abs { b0 with pos := i.pos } i :=
  h.at_adv ha

example : c03Input.Adv (c03Input.adv 2) ∧ ({ c09sI0 with pos := (c03Input.adv 2).pos } : Inp0) = ⟨c09sBytes, 0, 2, 5⟩ :=
  ⟨⟨2, by decide, rfl⟩, by decide⟩

/-- Every tracker operation that takes a cursor, at ANY cursor `i` reachable from the base (where the
model calls `t.special i.pos ..`, `t.record .. i.pos ..`, `t.enter .. i.pos`, `t.leave .. i.pos ..`): the Rust
cursor there is `c = Cur.at s {b0 with pos := i.pos}`, and on a tracker holding `s` no identity check fires, the
result is the model's, the tracker still holds `s`. -/
theorem C09_reachable_cursor_same_input (checked : Bool) (s : StrRef) {b0 : Inp0} {b : Inp} (i : Inp)
    (hs : s.bytes = b0.bytes) (hab : Abs b0 b) (hb : b.Adv i) :
    let c := Cur.at s { b0 with pos := i.pos }
    Abs c.toInp0 i ∧ ∀ T : TrackerR, T.input = s →
      T.prepare? checked c = some (⟨s, (T.t.prepare i.pos).1⟩, (T.t.prepare i.pos).2) ∧
      (∀ sp, T.special? checked c sp = some ⟨s, T.t.special i.pos sp⟩) ∧
      (∀ rule succeeded, T.record? checked rule c succeeded = some ⟨s, T.t.record rule i.pos succeeded⟩) ∧
      (∀ rule, T.enter? checked c rule = some ⟨s, T.t.enter rule i.pos⟩) ∧
      (∀ rule succeeded, T.leave? checked rule c succeeded =
        (T.t.leave? rule i.pos succeeded).map (fun t => ⟨s, t⟩)) := by
  intro c
  have hc : c.toInp0 = { b0 with pos := i.pos } := by simp only [c, Cur.at, Cur.toInp0, hs]
  refine ⟨by rw [hc]; exact C09_call_cursor_abs hab hb, ?_⟩
  intro T hT
  subst hT
  exact ⟨C09_prepare_same_input checked T c rfl, fun sp => C09_special_same_input checked T c sp rfl,
    fun rule succeeded => C09_record_same_input checked T rule c succeeded rfl,
    fun rule => C09_enter_same_input checked T c rule rfl,
    fun rule succeeded => C09_leave_same_input checked T rule c succeeded rfl⟩

/-- `POP` on an empty stack at offset 2 of `"xyzzq"`: `tracker.empty_stack(input)` with the run's reference. -/
example : (⟨c09sS, Tracker.new c03Input⟩ : TrackerR).special? true (Cur.at c09sS { c09sI0 with pos := 2 }) .emptyStack =
    some ⟨c09sS, (Tracker.new c03Input).special 2 .emptyStack⟩ := by decide

/-- THE COMBINATION.  A run entered at a cursor reachable from the base `b` (byte level: `b0`, reference `s`).
At every call of a framed rule the run logs, the Rust cursor is `c = Cur.at s {b0 with pos := ev.i.pos}` (it
forgets to the byte cursor representing `ev.i`).  For every Rust tracker holding `s`: `enter?` at `c` is
defined, is the model's `enter` and the tracker still holds `s`; `leave?` at `c` is defined on a non-empty
rule stack — in particular (no hypothesis) on the tracker the run actually hands to `leave` (`Ev.leaveArg`) —,
is the model's `leave` and the tracker still holds `s`; `start.span(end)` from `c` to any cursor `Cur.at s i0'`
of the run is defined. -/
theorem C09_run_same_input (checked : Bool) (g : NodeGrammar) (uni : Uni) (n : Nat) (inh : Bool) (node : Node)
    (s : StrRef) {b0 : Inp0} {b : Inp} (i : Inp) (m : M) (hs : s.bytes = b0.bytes) (hab : Abs b0 b) (hb : b.Adv i)
    (ev : Ev) (hev : ev ∈ evs g uni n inh node i m) :
    let c := Cur.at s { b0 with pos := ev.i.pos }
    Abs c.toInp0 ev.i ∧ c.toInp0 = { b0 with pos := ev.i.pos } ∧
    (∀ T : TrackerR, T.input = s →
      T.enter? checked c ev.r = some ⟨s, T.t.enter ev.r ev.i.pos⟩ ∧
      ∀ succeeded, T.t.stack ≠ [] →
        T.leave? checked ev.r c succeeded = some ⟨s, T.t.leave ev.r ev.i.pos succeeded⟩) ∧
    (∀ t succeeded, ev.leaveArg g uni = some (t, succeeded) →
      TrackerR.leave? checked ⟨s, t⟩ ev.r c succeeded = some ⟨s, t.leave ev.r ev.i.pos succeeded⟩) ∧
    (∀ i0' : Inp0, c.span? (Cur.at s i0') = some (ev.i.pos, i0'.pos) ∧
      (Cur.at s i0').span? c = some (i0'.pos, ev.i.pos)) := by
  intro c
  have hc : c.toInp0 = { b0 with pos := ev.i.pos } := by simp only [c, Cur.at, Cur.toInp0, hs]
  have hadv := C09_calls_reachable g uni n inh node b i m hb ev hev
  refine ⟨by rw [hc]; exact C09_call_cursor_abs hab hadv, hc, ?_, ?_, ?_⟩
  · intro T hT
    subst hT
    exact ⟨C09_enter_same_input checked T c ev.r rfl,
      fun succeeded hne => C09_leave_same_input_nonempty checked T ev.r c succeeded rfl hne⟩
  · intro t succeeded hl
    obtain ⟨⟨hcf, hst⟩, _⟩ := C09_leave_never_empty_run g uni n inh node i m ev hev t succeeded hl
    exact C09_leave_same_input_nonempty checked ⟨s, t⟩ ev.r c succeeded rfl (by rw [hst]; simp)
  · intro i0'
    exact ⟨C09_span_same_input c (Cur.at s i0') rfl, C09_span_same_input (Cur.at s i0') c rfl⟩

/-- Entry level: the calls of `try_parse_partial` (and of the first phase of `try_parse`; the check entry
points make the same calls, `check = parse.forget`) from `input.as_input()` holding `s`. -/
theorem C09_run_same_input_entry (checked : Bool) (g : NodeGrammar) (uni : Uni) (n : Nat) (r : RuleId)
    (s : StrRef) {b0 : Inp0} {b : Inp} (hs : s.bytes = b0.bytes) (hab : Abs b0 b)
    (ev : Ev) (hev : ev ∈ evs g uni n true (.ref r .one) b (M.init b)) :
    let c := Cur.at s { b0 with pos := ev.i.pos }
    Abs c.toInp0 ev.i ∧
    (∀ T : TrackerR, T.input = s →
      T.enter? checked c ev.r = some ⟨s, T.t.enter ev.r ev.i.pos⟩ ∧
      ∀ succeeded, T.t.stack ≠ [] →
        T.leave? checked ev.r c succeeded = some ⟨s, T.t.leave ev.r ev.i.pos succeeded⟩) ∧
    (∀ t succeeded, ev.leaveArg g uni = some (t, succeeded) →
      TrackerR.leave? checked ⟨s, t⟩ ev.r c succeeded = some ⟨s, t.leave ev.r ev.i.pos succeeded⟩) ∧
    (∀ i0' : Inp0, c.span? (Cur.at s i0') = some (ev.i.pos, i0'.pos)) := by
  have h := C09_run_same_input checked g uni n true (.ref r .one) s b (M.init b) hs hab (Inp.Adv.refl b) ev hev
  exact ⟨h.1, h.2.2.1, h.2.2.2.1, fun i0' => (h.2.2.2.2 i0').1⟩

/-- `Tracker::new(input)` from a cursor of the run (the entry points; the fresh tracker of `AtomicRepeat`):
holds the run's reference, and is the model's `Tracker.new`. -/
theorem C09_fresh_tracker_same_input (s : StrRef) (i0 : Inp0) (i : Inp) (h : Abs i0 i) :
    TrackerR.new (Cur.at s i0) = ⟨s, Tracker.new i⟩ := by
  show (⟨s, { position := i0.pos }⟩ : TrackerR) = ⟨s, { position := i.pos }⟩
  rw [h.pos_eq]

/-- Not vacuous: the run of rule `a` of `c03Grammar` on `"xyzzq"` logs four calls, at offsets 0, 1, 2, 4;
at each of them, with the entry tracker's reference, `enter?` is defined in both profiles, and the `leave?`
on the tracker the run hands over is defined; with a reference to another text the first `enter?` of a
debug build panics. -/
example :
    let L := evs c03Grammar c09pU 20 true (.ref 1 .one) c03Input (M.init c03Input)
    L.map (fun ev => (ev.r, ev.i.pos)) = [(1, 0), (2, 1), (2, 2), (2, 4)] ∧
    L.map (fun ev => ((TrackerR.enter? true ⟨c09sS, ev.m.trk⟩
        (Cur.at c09sS { c09sI0 with pos := ev.i.pos }) ev.r).map (·.t.stack.length))) =
      [some 1, some 2, some 2, some 2] ∧
    L.map (fun ev => ((ev.leaveArg c03Grammar c09pU).bind (fun p => TrackerR.leave? false ⟨c09sS, p.1⟩ ev.r
        (Cur.at c09sS { c09sI0 with pos := ev.i.pos }) p.2)).map (fun T => (T.input.addr, T.t.stack.length))) =
      [some (4096, 0), some (4096, 1), some (4096, 1), some (4096, 1)] ∧
    L.map (fun ev => (TrackerR.enter? true ⟨c09sOther, ev.m.trk⟩
        (Cur.at c09sS { c09sI0 with pos := ev.i.pos }) ev.r).isSome) = [false, false, false, false] := by
  decide

example : TrackerR.new (Cur.at c09sS c09sI0) = ⟨c09sS, Tracker.new c03Input⟩ := by decide

end PestTyped
