/-
Props.C03 — Check-only entry points give the same verdict, offset and error as parsing.

`check` and `parse` are two independently written interpreters mirroring the two Rust copies of
every combinator; the theorems below are the machine-checked statement that the copies agree on
everything observable: verdict, cursor, final stack and final tracker state (hence the rendered
error), for every grammar, rule, node, input form (`Inp` covers &str / Position / Span) and state.
-/
import PestTyped.Lemmas.CheckParse
import PestTyped.Model.Gen
namespace PestTyped

/-- Every node, every state: the check path is the parse path with the value forgotten. -/
theorem C03_node_agree (g : NodeGrammar) (uni : Uni) (n : Nat) (inh : Bool) (node : Node)
    (i : Inp) (m : M) :
    check g uni n inh node i m = (parse g uni n inh node i m).forget :=
  check_eq_parse_forget g uni n inh node i m

/-- `try_check_partial` vs `try_parse_partial`. -/
theorem C03_partial_agree (g : NodeGrammar) (uni : Uni) (n : Nat) (r : RuleId) (i : Inp) :
    tryCheckPartial g uni n r i = (tryParsePartial g uni n r i).forget := by
  unfold tryCheckPartial tryParsePartial
  exact check_eq_parse_forget g uni n true (.ref r .one) i (M.init i)

/-- `try_check` vs `try_parse` (trailing skip and end-of-input test included). -/
theorem C03_full_agree (g : NodeGrammar) (uni : Uni) (n : Nat) (r : RuleId) (i : Inp) :
    tryCheck g uni n r i = (tryParse g uni n r i).forget := by
  unfold tryCheck tryParse
  cases g.rule? r with
  | none => rfl
  | some d =>
    simp only []
    rw [check_eq_parse_forget]
    cases parse g uni n true (.ref r .one) i (M.init i) with
    | oof => rfl
    | fail m => rfl
    | ok i' m v =>
      simp only [Res.forget]
      split
      · split <;> rfl
      · rw [check_eq_parse_forget]
        cases parse g uni n false g.skipped i' m with
        | oof => rfl
        | fail m' => rfl
        | ok i'' m' sv => simp only [Res.forget]; split <;> rfl

/-- Atomic rules (emission `Span`) are matched through the check path even while parsing; they
cover exactly the span their content would cover if it were parsed, and leave the same stack and
tracker. -/
theorem C03_atomic_span (g : NodeGrammar) (uni : Uni) (n : Nat) (inh : Bool) (r : RuleId) (f : Flag)
    (d : RuleDef) (i : Inp) (m : M) (hd : g.rule? r = some d) (he : d.emit = .span) :
    (parse g uni (n+1) inh (.ref r f) i m).forget =
      (match parse g uni n (f.eval inh) d.body i { m with trk := m.trk.enter r i.pos } with
       | .oof => (.oof : R Unit)
       | .fail m' => .fail { m' with trk := m'.trk.leave r i.pos false }
       | .ok i' m' _ => .ok i' { m' with trk := m'.trk.leave r i.pos true } ()) := by
  simp only [parse, hd, he]
  rw [check_eq_parse_forget]
  cases parse g uni n (f.eval inh) d.body i { m with trk := m.trk.enter r i.pos } <;> rfl

/-! ### non-vacuity: a concrete grammar on which both paths do real work -/

def Res.endPos? {σ α} : Res σ α → Option Nat
  | .ok i _ _ => some i.pos
  | _ => none

def Res.failPos? {α} : R α → Option Nat
  | .fail m => some m.trk.position
  | _ => none

/-- `a = @{ "x" ~ b* }  b = { "y" | PUSH("z") ~ POP }  WHITESPACE = _{ " " }` as generated. -/
def c03Grammar : NodeGrammar :=
  { rules := [eoiDef,
      { name := "a", atom := .atomic, emit := .span, boxed := true,
        body := .seq .zero [.str ['x'], .rep .zero 0 none (.ref 2 .zero)] },
      { name := "b", atom := .inherited, emit := .both, boxed := true,
        body := .choice [.str ['y'], .seq .inh [.push (.str ['z']), .pop]] },
      { name := "WHITESPACE", atom := .inherited, emit := .expression, boxed := true,
        body := .str [' '] }],
    skipped := .atomicRepeat (.ref 3 .zero) }

def c03Input : Inp := { start := 0, pos := 0, rest := ['x', 'y', 'z', 'z', 'q'], after := [] }

example : (tryParsePartial c03Grammar (fun _ _ => false) 20 1 c03Input).endPos? = some 4 := by decide
example : (tryCheckPartial c03Grammar (fun _ _ => false) 20 1 c03Input).endPos? = some 4 := by decide
example : (tryCheck c03Grammar (fun _ _ => false) 20 1 c03Input).failPos? = some 4 := by decide
example : (tryParse c03Grammar (fun _ _ => false) 20 1 c03Input).failPos? = some 4 := by decide

end PestTyped
