/-
Props.C03 — Check-only entry points give the same verdict, offset and error as parsing.

`check` and `parse` are two independently written interpreters mirroring the two Rust copies of
every combinator; the theorems below are the machine-checked statement that the copies agree on
everything observable: verdict, cursor, final stack and final tracker state (hence the rendered
error), for every grammar, rule, node, input form (`Inp` covers &str / Position / Span) and state.

The list and iteration loops exist in two copies as well (`Model/Run.lean`: `seqLoop`/`seqLoopC`,
`choiceLoop`/`choiceLoopC`, `repLoop`/`repLoopC`, `arrayLoop`/`arrayLoopC`, `skipLoop`/`skipLoopC`,
`repUnitP`/`repUnitC`), each check copy written after the Rust check copy.  Their agreement is an
obligation of its own, stated for ARBITRARY element functions that agree:
`C03_rep_loops_agree` (with `C03_rep_loops_agree_inv` from any loop state satisfying the Rust loop
invariants, and `C03_rep_unit_agree` for `try_check_unit` / `try_parse_unit`), `C03_seq_loops_agree`,
`C03_choice_loops_agree`, `C03_array_loops_agree`, `C03_skip_loops_agree`.  In particular the two
different tests after the `RepeatMinMax` loop (`MAX < MIN` in `try_check_partial_with`,
`vec.len() < MIN` in `try_parse_partial_with`) are proved to decide alike.  `C03_node_agree` is proved
from these by induction on the fuel.

Theorems: `C03_node_agree`, `C03_partial_agree`, `C03_full_agree`, `C03_atomic_span`,
`C03_rep_loops_agree`, `C03_rep_loops_agree_inv`, `C03_rep_unit_agree`, `C03_seq_loops_agree`,
`C03_choice_loops_agree`, `C03_array_loops_agree`, `C03_skip_loops_agree`.
-/
import PestTyped.Lemmas.CheckParse
import PestTyped.Lemmas.ResProj
import PestTyped.Model.Gen
namespace PestTyped

/-- Every node, every state: the check path is the parse path with the value forgotten. -/
theorem C03_node_agree (g : NodeGrammar) (uni : Uni) (n : Nat) (inh : Bool) (node : Node)
    (i : Inp) (m : M) :
    check g uni n inh node i m = (parse g uni n inh node i m).forget :=
  check_eq_parse_forget g uni n inh node i m

/-- `try_check_partial` vs `try_parse_partial`. -/
theorem C03_partial_agree (g : NodeGrammar) (uni : Uni) (n : Nat) (r : RuleId) (i : Inp) :
    tryCheckPartial g uni n r i = (tryParsePartial g uni n r i).forget := by
  unfold tryCheckPartial tryParsePartial
  exact check_eq_parse_forget g uni n true (.ref r .one) i (M.init i)

/-- `try_check` vs `try_parse` (trailing skip and end-of-input test included). -/
theorem C03_full_agree (g : NodeGrammar) (uni : Uni) (n : Nat) (r : RuleId) (i : Inp) :
    tryCheck g uni n r i = (tryParse g uni n r i).forget := by
  unfold tryCheck tryParse
  cases g.rule? r with
  | none => rfl
  | some d =>
    simp only []
    rw [check_eq_parse_forget]
    cases parse g uni n true (.ref r .one) i (M.init i) with
    | oof => rfl
    | fail m => rfl
    | ok i' m v =>
      simp only [Res.forget]
      split
      · split <;> rfl
      · rw [check_eq_parse_forget]
        cases parse g uni n false g.skipped i' m with
        | oof => rfl
        | fail m' => rfl
        | ok i'' m' sv => simp only [Res.forget]; split <;> rfl

/-- Atomic rules (emission `Span`) are matched through the check path even while parsing; they
cover exactly the span their content would cover if it were parsed, and leave the same stack and
tracker. -/
theorem C03_atomic_span (g : NodeGrammar) (uni : Uni) (n : Nat) (inh : Bool) (r : RuleId) (f : Flag)
    (d : RuleDef) (i : Inp) (m : M) (hd : g.rule? r = some d) (he : d.emit = .span) :
    (parse g uni (n+1) inh (.ref r f) i m).forget =
      (match parse g uni n (f.eval inh) d.body i { m with trk := m.trk.enter r i.pos } with
       | .oof => (.oof : R Unit)
       | .fail m' => .fail { m' with trk := m'.trk.leave r i.pos false }
       | .ok i' m' _ => .ok i' { m' with trk := m'.trk.leave r i.pos true } ()) := by
  simp only [parse, hd, he]
  rw [check_eq_parse_forget]
  cases parse g uni n (f.eval inh) d.body i { m with trk := m.trk.enter r i.pos } <;> rfl

/-! ### the loops: check copy = parse copy with the values forgotten -/

/-- `RepeatMin` / `RepeatMinMax` (`max = none` / `some MAX`), from the loop entry (`i = 0`, empty
`vec`): the check loop (`repLoopC`: nothing collected, `MAX < MIN` tested after the loop) equals the
parse loop (`repLoop`: values collected, `vec.len() < MIN` tested after the loop) with the values
forgotten, for arbitrary unit functions that agree, every `MIN`, `MAX` (also `MAX < MIN`), budget,
cursor and state. -/
theorem C03_rep_loops_agree {α} (uc : Nat → Inp → M → R Unit) (up : Nat → Inp → M → R α)
    (hu : ∀ idx i m, uc idx i m = (up idx i m).forget) (min : Nat) (max : Option Nat)
    (budget : Nat) (i : Inp) (m : M) :
    repLoopC uc min max budget 0 i m = (repLoop up min max budget 0 i m []).forget :=
  repLoopC_eq0 uc up hu min max budget i m

/-- The same from any loop state that satisfies the invariants of the Rust loop: `vec.len() = i`
and `i ≤ MAX`.  (Without them the two tests after the loop do differ.) -/
theorem C03_rep_loops_agree_inv {α} (uc : Nat → Inp → M → R Unit) (up : Nat → Inp → M → R α)
    (hu : ∀ idx i m, uc idx i m = (up idx i m).forget) (min : Nat) (max : Option Nat)
    (budget idx : Nat) (i : Inp) (m : M) (acc : List α)
    (hlen : acc.length = idx) (hle : ∀ mx, max = some mx → idx ≤ mx) :
    repLoopC uc min max budget idx i m = (repLoop up min max budget idx i m acc).forget :=
  repLoopC_eq uc up hu min max budget idx i m acc hlen hle

/-- `try_check_unit` (the test `i > 0` made in each of the `SKIP` iterations) against
`try_parse_unit`, for arbitrary skip and element functions that agree. -/
theorem C03_rep_unit_agree (sc bc : Inp → M → R Unit) (sp bp : Inp → M → R Val) (dflt : Val) (k : Nat)
    (hs : ∀ i m, sc i m = (sp i m).forget) (hb : ∀ i m, bc i m = (bp i m).forget)
    (idx : Nat) (i : Inp) (m : M) :
    repUnitC sc bc k idx i m = (repUnitP sp bp dflt k idx i m).forget :=
  repUnitC_eq sc bc sp bp dflt k hs hb idx i m

/-- The elements of a `SeqN` after the first (skips, then the element), for arbitrary element and
skip functions that agree. -/
theorem C03_seq_loops_agree {α β} (fc : Node → Inp → M → R Unit) (fp : Node → Inp → M → R α)
    (skc : Inp → M → R Unit) (skp : Inp → M → R (List β)) (mkp : List β → α → α)
    (hf : ∀ n i m, fc n i m = (fp n i m).forget) (hs : ∀ i m, skc i m = (skp i m).forget)
    (ns : List Node) (i : Inp) (m : M) :
    seqLoopC fc skc ns i m = (seqLoop fp skp mkp ns i m []).forget :=
  seqLoopC_eq fc fp skc skp mkp hf hs ns i m []

/-- The alternatives of a `ChoiceN` (each under `restore_on_none`), for arbitrary element functions
that agree; the check copy keeps no branch index. -/
theorem C03_choice_loops_agree {α} (fc : Node → Inp → M → R Unit) (fp : Node → Inp → M → R α)
    (hf : ∀ n i m, fc n i m = (fp n i m).forget) (ns : List Node) (i : Inp) (m : M) :
    choiceLoopC fc ns i m = (choiceLoop fp ns 0 i m).forget :=
  choiceLoopC_eq fc fp hf ns 0 i m

/-- `[T; N]`: the check copy (the loop only) against the parse copy (the loop collecting a `Vec`,
then `vec.try_into()`, whose `Err(_) => None` arm is never taken). -/
theorem C03_array_loops_agree {α} (fc : Inp → M → R Unit) (fp : Inp → M → R α)
    (hf : ∀ i m, fc i m = (fp i m).forget) (k : Nat) (i : Inp) (m : M) :
    arrayLoopC fc k i m = (arrayTryInto k (arrayLoop fp k i m [])).forget :=
  arrayLoopC_eq_tryInto fc fp hf k i m

/-- The `SKIP` runs of the skip type between the elements of a sequence. -/
theorem C03_skip_loops_agree {α} (fc : Inp → M → R Unit) (fp : Inp → M → R α)
    (hf : ∀ i m, fc i m = (fp i m).forget) (k : Nat) (i : Inp) (m : M) :
    skipLoopC fc k i m = (skipLoop fp k i m []).forget :=
  skipLoopC_eq fc fp hf k i m []

/-! ### non-vacuity: a concrete grammar on which both paths do real work -/

def Res.endPos? {σ α} : Res σ α → Option Nat
  | .ok i _ _ => some i.pos
  | _ => none

def Res.failPos? {α} : R α → Option Nat
  | .fail m => some m.trk.position
  | _ => none

/-- `a = @{ "x" ~ b* }  b = { "y" | PUSH("z") ~ POP }  WHITESPACE = _{ " " }` as generated. -/
def c03Grammar : NodeGrammar :=
  { rules := [eoiDef,
      { name := "a", atom := .atomic, emit := .span, boxed := true,
        body := .seq .zero [.str ['x'], .rep .zero 0 none (.ref 2 .zero)] },
      { name := "b", atom := .inherited, emit := .both, boxed := true,
        body := .choice [.str ['y'], .seq .inh [.push (.str ['z']), .pop]] },
      { name := "WHITESPACE", atom := .inherited, emit := .expression, boxed := true,
        body := .str [' '] }],
    skipped := .atomicRepeat (.ref 3 .zero) }

def c03Input : Inp := { start := 0, pos := 0, rest := ['x', 'y', 'z', 'z', 'q'], after := [] }

example : (tryParsePartial c03Grammar (fun _ _ => false) 20 1 c03Input).endPos? = some 4 := by decide
example : (tryCheckPartial c03Grammar (fun _ _ => false) 20 1 c03Input).endPos? = some 4 := by decide
example : (tryCheck c03Grammar (fun _ _ => false) 20 1 c03Input).failPos? = some 4 := by decide
example : (tryParse c03Grammar (fun _ _ => false) 20 1 c03Input).failPos? = some 4 := by decide

/-! ### non-vacuity of the loop theorems: hand-written element functions that agree, on which the
two copies of each loop do real work -/

/-- An element function of the parse kind (returns the length of the literal matched) … -/
def c03ElemP : Node → Inp → M → R Nat
  | .str s, i, m => (match i.matchString s with | some i' => .ok i' m s.length | none => .fail m)
  | _, _, m => .fail m

/-- … and its twin of the check kind, written separately. -/
def c03ElemC : Node → Inp → M → R Unit
  | .str s, i, m => (match i.matchString s with | some i' => .ok i' m () | none => .fail m)
  | _, _, m => .fail m

theorem c03Elem_agree : ∀ n i m, c03ElemC n i m = (c03ElemP n i m).forget := by
  intro n i m
  cases n <;> simp only [c03ElemC, c03ElemP] <;> first | rfl | (split <;> rfl)

/-- Repetition units: iteration `idx` matches `"y"` (the parse twin returns `idx`). -/
def c03UnitP (idx : Nat) (i : Inp) (m : M) : R Nat :=
  match i.matchString ['y'] with | some i' => .ok i' m idx | none => .fail m

def c03UnitC (_ : Nat) (i : Inp) (m : M) : R Unit :=
  match i.matchString ['y'] with | some i' => .ok i' m () | none => .fail m

theorem c03Unit_agree : ∀ idx i m, c03UnitC idx i m = (c03UnitP idx i m).forget := by
  intro idx i m; simp only [c03UnitC, c03UnitP]; split <;> rfl

def c03Ys : Inp := { start := 0, pos := 0, rest := ['y', 'y', 'y', 'q'], after := [] }

def Res.c03Val? {σ α} : Res σ α → Option α
  | .ok _ _ a => some a
  | _ => none

-- `y{1,2}` on `yyyq`: the range `0..MAX` is exhausted after two iterations; both copies stop at 2
example : (repLoop c03UnitP 1 (some 2) 10 0 c03Ys (M.init c03Ys) []).c03Val? = some [0, 1] := by decide
example : (repLoop c03UnitP 1 (some 2) 10 0 c03Ys (M.init c03Ys) []).endPos? = some 2 := by decide
example : (repLoopC c03UnitC 1 (some 2) 10 0 c03Ys (M.init c03Ys)).endPos? = some 2 := by decide
-- `y{3,2}` (`MAX < MIN`): the loop falls through, then the parse copy finds `vec.len() = 2 < 3`
-- and the check copy finds `MAX = 2 < 3`; both fail
example : (repLoop c03UnitP 3 (some 2) 10 0 c03Ys (M.init c03Ys) []).isFail = true := by decide
example : (repLoopC c03UnitC 3 (some 2) 10 0 c03Ys (M.init c03Ys)).isFail = true := by decide
-- `y{2,}` on `yyyq`: left by `break` in iteration 3 (`MIN ≤ 3`), no test after the loop
example : (repLoop c03UnitP 2 none 10 0 c03Ys (M.init c03Ys) []).c03Val? = some [0, 1, 2] := by decide
example : (repLoopC c03UnitC 2 none 10 0 c03Ys (M.init c03Ys)).endPos? = some 3 := by decide
-- `y{2,5}`: left by `break` in iteration 3 with `MIN ≤ 3 < MAX`: neither test fires
example : (repLoop c03UnitP 2 (some 5) 10 0 c03Ys (M.init c03Ys) []).endPos? = some 3 := by decide
example : (repLoopC c03UnitC 2 (some 5) 10 0 c03Ys (M.init c03Ys)).endPos? = some 3 := by decide
-- `y{4,}`: `return None` inside the loop (iteration 3 fails, `3 < MIN`)
example : (repLoopC c03UnitC 4 none 10 0 c03Ys (M.init c03Ys)).isFail = true := by decide
-- the instance of the theorem
example : repLoopC c03UnitC 3 (some 2) 10 0 c03Ys (M.init c03Ys) =
    (repLoop c03UnitP 3 (some 2) 10 0 c03Ys (M.init c03Ys) []).forget :=
  C03_rep_loops_agree c03UnitC c03UnitP c03Unit_agree 3 (some 2) 10 c03Ys (M.init c03Ys)
-- outside the loop invariant (`vec` shorter than `i`) the two tests after the loop DO differ: the
-- hypotheses of `C03_rep_loops_agree_inv` cannot be dropped
example : (repLoopC c03UnitC 1 (some 1) 10 1 c03Ys (M.init c03Ys)).isFail = false := by decide
example : (repLoop c03UnitP 1 (some 1) 10 1 c03Ys (M.init c03Ys) []).isFail = true := by decide

-- sequence tail `~ "y" ~ "y"` with one skip run of `"y"?`-like skips (here: the literal `"y"`), on `yyyyq`
def c03Ys4 : Inp := { start := 0, pos := 0, rest := ['y', 'y', 'y', 'y', 'q'], after := [] }

example : (seqLoop c03ElemP (fun i m => skipLoop (c03ElemP (.str ['y'])) 1 i m []) (fun sk a => sk.length + a)
    [.str ['y'], .str ['y']] c03Ys4 (M.init c03Ys4) []).c03Val? = some [2, 2] := by decide
example : (seqLoopC c03ElemC (skipLoopC (c03ElemC (.str ['y'])) 1)
    [.str ['y'], .str ['y']] c03Ys4 (M.init c03Ys4)).endPos? = some 4 := by decide
example : seqLoopC c03ElemC (skipLoopC (c03ElemC (.str ['y'])) 1) [.str ['y'], .str ['y']] c03Ys4 (M.init c03Ys4) =
    (seqLoop c03ElemP (fun i m => skipLoop (c03ElemP (.str ['y'])) 1 i m []) (fun sk a => sk.length + a)
      [.str ['y'], .str ['y']] c03Ys4 (M.init c03Ys4) []).forget :=
  C03_seq_loops_agree c03ElemC c03ElemP _ _ _ c03Elem_agree
    (fun i m => skipLoopC_eq _ _ (c03Elem_agree (.str ['y'])) 1 i m []) _ _ _

-- choice `"q" | "yy" | "y"` on `yyyq`: the second alternative matches (index 1 on the parse path)
example : (choiceLoop c03ElemP [.str ['q'], .str ['y', 'y'], .str ['y']] 0 c03Ys (M.init c03Ys)).c03Val? =
    some (1, 2) := by decide
example : (choiceLoopC c03ElemC [.str ['q'], .str ['y', 'y'], .str ['y']] c03Ys (M.init c03Ys)).endPos? =
    some 2 := by decide
example : (choiceLoopC c03ElemC [.str ['q'], .str ['x']] c03Ys (M.init c03Ys)).isFail = true := by decide
example : choiceLoopC c03ElemC [.str ['q'], .str ['y', 'y'], .str ['y']] c03Ys (M.init c03Ys) =
    (choiceLoop c03ElemP [.str ['q'], .str ['y', 'y'], .str ['y']] 0 c03Ys (M.init c03Ys)).forget :=
  C03_choice_loops_agree c03ElemC c03ElemP c03Elem_agree _ _ _

-- `["y"; 3]` and `SKIP = 2` runs
example : (arrayTryInto 3 (arrayLoop (c03ElemP (.str ['y'])) 3 c03Ys (M.init c03Ys) [])).c03Val? =
    some [1, 1, 1] := by decide
-- `try_into` does reject a `Vec` of another length (it is the loop that never produces one)
example : (arrayTryInto 4 (arrayLoop (c03ElemP (.str ['y'])) 3 c03Ys (M.init c03Ys) [])).isFail = true := by
  decide
example : (arrayLoopC (c03ElemC (.str ['y'])) 3 c03Ys (M.init c03Ys)).endPos? = some 3 := by decide
example : (arrayLoopC (c03ElemC (.str ['y'])) 4 c03Ys (M.init c03Ys)).isFail = true := by decide
example : (skipLoopC (c03ElemC (.str ['y'])) 2 c03Ys (M.init c03Ys)).endPos? = some 2 := by decide

-- `try_check_unit` / `try_parse_unit` with `SKIP = 1`: no skip in iteration 0, one in iteration 1
example : (repUnitC (c03ElemC (.str [' '])) (c03ElemC (.str ['y'])) 1 0 c03Ys (M.init c03Ys)).endPos? = some 1 := by
  decide
example : (repUnitC (c03ElemC (.str ['y'])) (c03ElemC (.str ['y'])) 1 1 c03Ys (M.init c03Ys)).endPos? = some 2 := by
  decide

-- the whole interpreters on a bounded repetition with `MAX < MIN` and on one left by `break`
example : (check c03Grammar (fun _ _ => false) 5 false (.rep .zero 3 (some 2) (.str ['y'])) c03Ys
    (M.init c03Ys)).isFail = true := by decide
example : (parse c03Grammar (fun _ _ => false) 5 false (.rep .zero 3 (some 2) (.str ['y'])) c03Ys
    (M.init c03Ys)).isFail = true := by decide
example : (check c03Grammar (fun _ _ => false) 5 false (.rep .zero 1 (some 7) (.str ['y'])) c03Ys
    (M.init c03Ys)).endPos? = some 3 := by decide

end PestTyped
