/-
Props.C09Panic — "never panics" beyond what the result type gives by construction.

The character-level model's result type `Res` has no panic constructor, so `C09_total` is true by
the shape of the type.  Four places of the Rust code could panic (or take a branch its author
calls impossible) where the model has a TOTAL definition; this file proves each of them
unreachable, for every grammar, node, fuel, input and state (no hypothesis on the state: the
statements hold for every call, hence for every call a run makes).  For each site the Rust arm is
re-stated with an explicit failure outcome (`none` = panic) — `Tracker.leave?`/`recordDuring?`,
`sliceIdx?`/`peekSliceArm?`, `charRangeArm?` (`Lemmas/NoPanic.lean`) — and proved to be `some` of
what the model computes.

(a) `self.stack.pop().unwrap()` in `Tracker::record_during_with` (`tracker.rs:170`); model:
    `Tracker.leave` returns `t` on an empty rule stack.
  * `C09_frame_balance`, `C09_frame_balance_check` — FRAME BALANCE: a run that returns leaves the
    frames `(rule, pos)` of the tracker's rule stack (and its length) exactly as it found them.
  * `C09_frame_balance_entry` — the four entry points start and end with an empty rule stack.
  * `C09_leave_finds_frame` — the body of a framed rule returns with the frame `(r, i.pos, _)` its
    `enter` pushed on top of the caller's stack.
  * `C09_leave_never_empty`, `C09_leave_never_empty_check` — the framed `.ref` arm written with the
    partial `leave?` never yields `none` and equals the model's arm.
  * `C09_leave_never_empty_run` — for every call of a framed rule logged by a run (`evs`, any
    depth), the tracker `leave` is applied to has that call's frame on top: `leave?` is `some`.
  * `C09_eoi_leave_never_empty` — the end-of-input attempt of `try_parse` / `try_check`.
(b) `stack[range]` in `stack_slice` (`predefined_node/mod.rs:279`); model: `stackSlice` = `drop`/`take`.
  * `C09_slice_in_bounds` — `constrain_idxs` returns offsets `≤ len`; in the slicing branch
    (`¬ end ≤ start`) therefore `start < end ≤ len`: the index expression is in bounds.
  * `C09_slice_never_panics`, `C09_slice_never_panics_check` — the arm written with the partial
    `sliceIdx?` on the Rust `Vec` (`m.stk.reverse`) is `some` of the model's result.
(c) `span.as_str().chars().next().unwrap()` in `CharRange::try_parse_partial_with` (`mod.rs:239`).
  * `C09_charRange_nonempty` — after a successful `match_range` the span text is `[c]`, `c` in range,
    and decoding the first character of its UTF-8 bytes gives `c` (the stored `content`).
  * `C09_charRange_never_panics`.
(d) `vec.try_into()` "Actually impossible" branch of `[T; N]` (`typed_node.rs:173`).
  * `C09_array_exact` — a successful `[T; N]` holds exactly `N` values.
-/
import PestTyped.Lemmas.NoPanic
import PestTyped.Lemmas.L0
import PestTyped.Props.C03
namespace PestTyped

/-! ### instances for the non-vacuity examples

`c03Grammar`: `a = @{ "x" ~ b* }  b = { "y" | PUSH("z") ~ POP }  WHITESPACE = _{ " " }`; on `"xyzzq"`
rule `a` (framed, emission `Span`) calls the framed rule `b` three times (two successes, one failure). -/

def c09pU : Uni := fun _ _ => false
def c09pIn (s : List Char) : Inp := { start := 0, pos := 0, rest := s, after := [] }
/-- A state with three spans on the stack (top first) and two open frames in the tracker. -/
def c09pM : M :=
  { stk := [⟨2, 3, ['c']⟩, ⟨1, 2, ['b']⟩, ⟨0, 1, ['a']⟩],
    trk := { position := 0, stack := [(7, 0, false), (5, 0, true)] } }

/-! ## (a) frame balance; `pop().unwrap()` -/

/-- FRAME BALANCE.  Whatever the node and the state, a run that returns — failing or succeeding —
leaves the tracker's rule stack with the same frames `(rule, pos)`, in particular with the same
length: every frame pushed during the run was popped during the run, no frame of the caller was
popped. -/
theorem C09_frame_balance (g : NodeGrammar) (uni : Uni) (n : Nat) (inh : Bool) (node : Node) (i : Inp) (m : M) :
    (∀ m', parse g uni n inh node i m = .fail m' →
      frames m'.trk.stack = frames m.trk.stack ∧ m'.trk.stack.length = m.trk.stack.length) ∧
    (∀ i' m' v, parse g uni n inh node i m = .ok i' m' v →
      frames m'.trk.stack = frames m.trk.stack ∧ m'.trk.stack.length = m.trk.stack.length) := by
  have h := parse_frames g uni n inh node i m
  have hl : ∀ t : Tracker, frames t.stack = frames m.trk.stack → t.stack.length = m.trk.stack.length := by
    intro t ht; rw [← frames_length, ht, frames_length]
  constructor
  · intro m' e; rw [e] at h; exact ⟨h, hl _ h⟩
  · intro i' m' v e; rw [e] at h; exact ⟨h, hl _ h⟩

theorem C09_frame_balance_check (g : NodeGrammar) (uni : Uni) (n : Nat) (inh : Bool) (node : Node) (i : Inp)
    (m : M) :
    (∀ m', check g uni n inh node i m = .fail m' →
      frames m'.trk.stack = frames m.trk.stack ∧ m'.trk.stack.length = m.trk.stack.length) ∧
    (∀ i' m', check g uni n inh node i m = .ok i' m' () →
      frames m'.trk.stack = frames m.trk.stack ∧ m'.trk.stack.length = m.trk.stack.length) := by
  have h := check_frames g uni n inh node i m
  have hl : ∀ t : Tracker, frames t.stack = frames m.trk.stack → t.stack.length = m.trk.stack.length := by
    intro t ht; rw [← frames_length, ht, frames_length]
  constructor
  · intro m' e; rw [e] at h; exact ⟨h, hl _ h⟩
  · intro i' m' e; rw [e] at h; exact ⟨h, hl _ h⟩

/-- A run from a state with two open frames, through a framed rule that calls framed rules (success
and failure inside): the two frames are there afterwards (the top one marked `has_children`). -/
example :
    (match parse c03Grammar c09pU 20 true (.ref 1 .one) (c09pIn ['x', 'y', 'z', 'z', 'q']) c09pM with
     | .ok _ m' _ => some m'.trk.stack
     | _ => none) = some [(7, 0, true), (5, 0, true)] := by decide

/-- The public entry points (`M.init`: empty rule stack) return with an empty rule stack. -/
theorem C09_frame_balance_entry (g : NodeGrammar) (uni : Uni) (n : Nat) (r : RuleId) (i : Inp) :
    RlOk (fun t => t.stack = []) (tryParse g uni n r i) ∧
    RlOk (fun t => t.stack = []) (tryParsePartial g uni n r i) ∧
    RlOk (fun t => t.stack = []) (tryCheck g uni n r i) ∧
    RlOk (fun t => t.stack = []) (tryCheckPartial g uni n r i) := by
  refine ⟨tryParse_stack_empty g uni n r i, tryParsePartial_stack_empty g uni n r i, ?_, ?_⟩
  · rw [C03_full_agree]; exact (tryParse_stack_empty g uni n r i).forget
  · rw [C03_partial_agree]; exact (tryParsePartial_stack_empty g uni n r i).forget

example : (match tryParse c03Grammar c09pU 20 1 c03Input with
    | .fail m' => some m'.trk.stack | _ => none) = some [] := by decide

/-- The body of a framed rule (emission `Span` or `Both`) is entered through `enter`; when it
returns, the rule stack is the frame `(r, i.pos, _)` on top of the caller's (marked) stack: the
`leave` that follows pops the frame its matching `enter` pushed. -/
theorem C09_leave_finds_frame (g : NodeGrammar) (uni : Uni) (n : Nat) (inh' : Bool) (body : Node) (r : RuleId)
    (i : Inp) (m : M) :
    (∀ m', parse g uni n inh' body i { m with trk := m.trk.enter r i.pos } = .fail m' →
      ∃ hc, m'.trk.stack = (r, i.pos, hc) :: markIf true m.trk.stack) ∧
    (∀ i' m' v, parse g uni n inh' body i { m with trk := m.trk.enter r i.pos } = .ok i' m' v →
      ∃ hc, m'.trk.stack = (r, i.pos, hc) :: markIf true m.trk.stack) := by
  have h := body_frame g uni n inh' body r i m
  constructor
  · intro m' e; rw [e] at h; exact ⟨_, h⟩
  · intro i' m' v e; rw [e] at h; exact ⟨_, h⟩

example :
    (match parse c03Grammar c09pU 19 false (.seq .zero [.str ['x'], .rep .zero 0 none (.ref 2 .zero)])
        (c09pIn ['x', 'y', 'q']) { c09pM with trk := c09pM.trk.enter 1 0 } with
     | .ok _ m' _ => some m'.trk.stack
     | _ => none) = some [(1, 0, true), (7, 0, true), (5, 0, true)] := by decide

/-- `pop().unwrap()` never panics: the framed `.ref` arm executed with the PARTIAL `leave?`
(`recordDuring?`; `none` = panic) on the result of the body run is `some` of what the model's
total arm returns — for every rule, fuel, flag, cursor and state. -/
theorem C09_leave_never_empty (g : NodeGrammar) (uni : Uni) (n : Nat) (inh : Bool) (r : RuleId) (f : Flag)
    (d : RuleDef) (i : Inp) (m : M) (hd : g.rule? r = some d) (he : d.emit ≠ .expression) :
    recordDuring? (parse g uni n (f.eval inh) d.body i { m with trk := m.trk.enter r i.pos }).forget r i.pos =
      some (parse g uni (n+1) inh (.ref r f) i m).forget :=
  recordDuring?_ref g uni n inh r f d i m hd he

/-- The same on the check path. -/
theorem C09_leave_never_empty_check (g : NodeGrammar) (uni : Uni) (n : Nat) (inh : Bool) (r : RuleId) (f : Flag)
    (d : RuleDef) (i : Inp) (m : M) (hd : g.rule? r = some d) (he : d.emit ≠ .expression) :
    recordDuring? (check g uni n (f.eval inh) d.body i { m with trk := m.trk.enter r i.pos }) r i.pos =
      some (check g uni (n+1) inh (.ref r f) i m) := by
  rw [check_eq_parse_forget, check_eq_parse_forget]
  exact recordDuring?_ref g uni n inh r f d i m hd he

/-- Rule `a` of `c03Grammar` on `"xyzzq"`: the panic-aware arm gives a result (position 4). -/
example : ((recordDuring? (parse c03Grammar c09pU 19 false
      (.seq .zero [.str ['x'], .rep .zero 0 none (.ref 2 .zero)]) c03Input
      { M.init c03Input with trk := (M.init c03Input).trk.enter 1 0 }).forget 1 0).map Res.okPos?) =
    some (some 4) := by decide

/-- Every `leave` executed during a run finds its frame: for every call of a framed rule the run
`parse g uni n inh node i m` makes, at any depth (`evs`, the log of `Lemmas/TrackerTrace`), the
tracker that `leave` is applied to at the end of that call has the call's own frame on top of the
caller's stack, and the partial `leave?` is defined. -/
theorem C09_leave_never_empty_run (g : NodeGrammar) (uni : Uni) (n : Nat) (inh : Bool) (node : Node)
    (i : Inp) (m : M) (ev : Ev) (_ : ev ∈ evs g uni n inh node i m) (t : Tracker) (s : Bool)
    (h : ev.leaveArg g uni = some (t, s)) :
    (∃ hc, t.stack = (ev.r, ev.i.pos, hc) :: markIf true ev.m.trk.stack) ∧
    t.leave? ev.r ev.i.pos s = some (t.leave ev.r ev.i.pos s) := by
  obtain ⟨hc, hst⟩ := Ev.leaveArg_frame g uni ev t s h
  exact ⟨⟨hc, hst⟩, Tracker.leave?_eq_some (by rw [hst]; simp) _ _ _⟩

/-- The run of rule `a` on `"xyzzq"` logs four calls of framed rules (`a`, `b`, `b`, `b`); each of
them reaches its `leave`, the last one after a failure. -/
example :
    let L := evs c03Grammar c09pU 20 true (.ref 1 .one) c03Input (M.init c03Input)
    L.map (·.r) = [1, 2, 2, 2] ∧
    L.map (fun ev => (ev.leaveArg c03Grammar c09pU).map (fun p => (p.1.stack.length, p.2))) =
      [some (1, true), some (2, true), some (2, true), some (2, false)] := by decide

/-- The end-of-input attempt of `try_parse` / `try_check` (`eoiStep`) applies `leave` right after
`enter`. -/
theorem C09_eoi_leave_never_empty (i : Inp) (m : M) :
    (m.trk.enter 0 i.pos).leave? 0 i.pos i.atEnd = some (eoiStep i m).1.trk :=
  Tracker.enter_leave? m.trk 0 i.pos i.atEnd

example : ((Tracker.new (c09pIn [])).enter 0 0).leave? 0 0 true =
    some (eoiStep (c09pIn []) (M.init (c09pIn []))).1.trk := by decide

/-! ## (b) `stack[range]` -/

/-- `constrain_idxs(start, end, len) = Some(lo..hi)` implies `lo ≤ len` and `hi ≤ len`; the Rust
slices only when `¬ hi ≤ lo`, so there `lo < hi ≤ len` — exactly the precondition of `stack[lo..hi]`. -/
theorem C09_slice_in_bounds (a : Int) (b : Option Int) (len lo hi : Nat)
    (h : constrainIdxs a b len = some (lo, hi)) :
    lo ≤ len ∧ hi ≤ len ∧ (¬ hi ≤ lo → lo < hi ∧ hi ≤ len) := by
  obtain ⟨h1, h2⟩ := constrainIdxs_le h
  exact ⟨h1, h2, fun hn => ⟨by omega, h2⟩⟩

example : constrainIdxs 1 (some (-1)) 3 = some (1, 2) := by decide
example : constrainIdxs (-3) none 3 = some (0, 3) := by decide

/-- Whenever the model takes the slicing branch of `.peekSlice a b`, the Rust index expression
`stack[lo..hi]` (on the bottom-first `Vec`, `m.stk.reverse`) is in bounds and denotes the model's
`stackSlice`: the arm written with the partial `sliceIdx?` (`none` = panic) is `some` of the model's
result, for every `a`, `b`, cursor and stack. -/
theorem C09_slice_never_panics (g : NodeGrammar) (uni : Uni) (n : Nat) (inh : Bool) (a : Int) (b : Option Int)
    (i : Inp) (m : M) :
    peekSliceArm? a b i m = some (parse g uni (n+1) inh (.peekSlice a b) i m) ∧
    ∀ lo hi, constrainIdxs a b m.stk.length = some (lo, hi) → ¬ hi ≤ lo →
      sliceIdx? m.stk.reverse lo hi = some (stackSlice m.stk lo hi) := by
  refine ⟨peekSliceArm?_eq g uni n inh a b i m, fun lo hi hc hn => ?_⟩
  have hb := constrainIdxs_le hc
  rw [sliceIdx?_eq_some _ (by omega) (by rw [List.length_reverse]; exact hb.2)]
  rfl

theorem C09_slice_never_panics_check (g : NodeGrammar) (uni : Uni) (n : Nat) (inh : Bool) (a : Int)
    (b : Option Int) (i : Inp) (m : M) :
    (peekSliceArm? a b i m).map Res.forget = some (check g uni (n+1) inh (.peekSlice a b) i m) := by
  rw [check_eq_parse_forget, peekSliceArm?_eq g uni n inh a b i m]; rfl

/-- `PEEK[1..-1]` on the stack `a b c` (bottom first): the slicing branch is taken with `1..2`,
the slice is `[b]`, the run consumes `"b"`. -/
example : constrainIdxs 1 (some (-1)) c09pM.stk.length = some (1, 2) ∧
    (sliceIdx? c09pM.stk.reverse 1 2).map (·.map (·.txt)) = some [['b']] ∧
    (parse c03Grammar c09pU 1 true (.peekSlice 1 (some (-1))) (c09pIn ['b', 'x']) c09pM).okPos? = some 1 := by
  decide

/-! ## (c) `chars().next().unwrap()` -/

/-- After a successful `match_range` the text of `start.span(input)` is the single character `c`
that the model stores as `content`; `c` is in the range; and `span.as_str().chars().next()` on the
UTF-8 bytes of that text decodes `c`: the `unwrap` does not panic and yields the stored value. -/
theorem C09_charRange_nonempty (g : NodeGrammar) (uni : Uni) (n : Nat) (inh : Bool) (lo hi : Char)
    (i i' : Inp) (m m' : M) (v : Val) (h : parse g uni n inh (.range lo hi) i m = .ok i' m' v) :
    ∃ c, (i.spanTo i').txt = [c] ∧ v = .leaf (.charRange c) ∧ (lo ≤ c ∧ c ≤ hi) ∧
      nextChar (enc (i.spanTo i').txt) = some c ∧ i'.pos = i.pos + c.utf8Size := by
  cases n with
  | zero => cases h
  | succ n =>
    simp only [parse] at h
    split at h
    · next i1 c hm =>
      injection h with h1 h2 h3; subst h1; subst h2; subst h3
      obtain ⟨cs, hr, hi', ht, hrange⟩ := matchRange_one hm
      refine ⟨c, ht, rfl, hrange, by rw [ht]; exact nextChar_enc_cons c [], ?_⟩
      rw [hi']; simp [Inp.adv, hr, blen]
    · cases h

example : ∃ c, ((c09pIn ['é', 'x']).spanTo ((c09pIn ['é', 'x']).adv 1)).txt = [c] ∧
    nextChar (enc ((c09pIn ['é', 'x']).spanTo ((c09pIn ['é', 'x']).adv 1)).txt) = some c := by
  have h : parse c03Grammar c09pU 1 true (.range 'a' 'ÿ') (c09pIn ['é', 'x']) c09pM =
      .ok ((c09pIn ['é', 'x']).adv 1) c09pM (.leaf (.charRange 'é')) := by rfl
  obtain ⟨c, h1, _, _, h2, _⟩ := C09_charRange_nonempty _ _ _ _ _ _ _ _ _ _ _ h
  exact ⟨c, h1, h2⟩

/-- The arm written with the partial `head?` (`chars().next()`, `none` = the `unwrap` panics) is
`some` of the model's result. -/
theorem C09_charRange_never_panics (g : NodeGrammar) (uni : Uni) (n : Nat) (inh : Bool) (lo hi : Char)
    (i : Inp) (m : M) :
    charRangeArm? lo hi i m = some (parse g uni (n+1) inh (.range lo hi) i m) :=
  charRangeArm?_eq g uni n inh lo hi i m

example : ((charRangeArm? 'a' 'z' (c09pIn ['q', 'x']) c09pM).map Res.okPos?) = some (some 1) := by decide

/-! ## (d) `vec.try_into()` -/

/-- A successful `[T; N]` holds exactly `N` element values: `vec.try_into()` cannot fail. -/
theorem C09_array_exact (g : NodeGrammar) (uni : Uni) (n : Nat) (inh : Bool) (k : Nat) (x : Node)
    (i i' : Inp) (m m' : M) (v : Val) (h : parse g uni n inh (.array k x) i m = .ok i' m' v) :
    ∃ vs, v = .mk .array vs ∧ vs.length = k := by
  cases n with
  | zero => cases h
  | succ n =>
    simp only [parse, arrayTryInto_arrayLoop] at h
    split at h
    · cases h
    · cases h
    · next i1 m1 vs hl =>
      injection h with h1 h2 h3
      exact ⟨vs, h3.symm, arrayLoop_length _ k i m i1 m1 vs hl⟩

example : (parse c03Grammar c09pU 3 true (.array 3 (.str ['a'])) (c09pIn ['a', 'a', 'a', 'a']) c09pM).nKids? =
    some 3 := by decide

end PestTyped
