/-
Props.C18More — additions to C18 answering the review (/verif/build/review/REVIEW.md, "C18"):

  "Debug is a tree of formatter calls with `name` / `slice` parameters; 'same rendering' as strings
   needs an unproved injectivity."

`Lemmas/DebugString.lean` defines the STRING a tree of formatter calls writes
(`Dbg.render`: `Name { field: value, … }`, `Name(value, …)`, `[a, b]`, `Some(x)` / `None`, `(a, b)`,
chars `'c'` and strs `"…"` with Rust's `escape_debug` (`Lemmas/RustDebug.lean`), numbers in
decimal) — the format of `core::fmt::builders` without the `#` flag; it is compared with rustc's
derived `Debug` on fourteen shapes and with rustc's `{:?}` of every ASCII `char` / one-character
`&str` (`/verif/build/textmore`).  `debugString up name slice v` is the string `format!("{:?}", v)`.

* `C18_debug_string_injective`   FULL (every constructor, `Insens` and `char` leaves included): two
                                 values of ONE type expression (`Val.TypedT`, any node of any grammar)
                                 with the same `{:?}` STRING have the same tree of formatter calls, and
                                 compare equal (`valEq`).  Hypothesis on the names only: rule struct
                                 names and Unicode property names do not begin with `]` (Rust
                                 identifiers never do) — `Val.namesGood`, a decidable check.
* `C18_debug_string_readable`    the stronger fact behind it: the string is uniquely readable even
                                 when followed by more text, provided that text starts with one of the
                                 delimiters `,` ` ` `)` `]` `}`
* `C18_debug_string_iff`         two runs of one type expression over windows of ONE input object:
                                 `==`  ⇔  same `{:?}` string  ⇔  structurally identical
* `C18_debug_string_iff_tryParsePartial`, `C18_debug_string_iff_tryParse`   at the entry points
* `C18_debug_string_needs_type`  "of one type expression" cannot be dropped: a `Str` and a silent rule
                                 struct called `Str` whose content prints nothing have the same string
* `C18_str_char_debug_injective` `{:?}` of `&str` and of `char` alone are injective (any `uprint`)

Nothing is `_partial`.  Not covered (as in C18): the identity of the input object is still the
Boolean parameter of `valEqOn`; `{:#?}` (alternate) is not modelled.
-/
import PestTyped.Lemmas.DebugString
import PestTyped.Props.C18
namespace PestTyped
open RustDebug

/-- `format!("{:?}", v)`: the string written by the formatter calls of `debugTree`. -/
def debugString (up : Char → Bool) (name : RuleId → String) (slice : Nat → Nat → List Char)
    (v : Val) : List Char :=
  (debugTree name slice v).render up

/-- `{:?}` of a `&str` and of a `char` are injective, whatever the Unicode tables say. -/
theorem C18_str_char_debug_injective (up : Char → Bool) :
    (∀ s s' : List Char, strDebug up s = strDebug up s' → s = s') ∧
    (∀ c c' : Char, charDebug up c = charDebug up c' → c = c') := by
  constructor
  · intro s s' h
    exact (strDebug_inj up (r1 := []) (r2 := []) (by simpa using h)).1
  · intro c c' h
    exact (charDebug_inj up (r1 := []) (r2 := []) (by simpa using h)).1

example : strDebug (fun _ => true) ['\\', 'n'] ≠ strDebug (fun _ => true) ['\n'] ∧
    charDebug (fun _ => true) '"' = ['\'', '"', '\''] ∧
    charDebug (fun _ => true) '\'' = ['\'', '\\', '\'', '\''] := by decide

/-- Unique readability.  Two values of one type expression whose names are good: if the `{:?}`
string of the one followed by `r1` equals that of the other followed by `r2`, and `r1`, `r2` are
empty or begin with a delimiter, then the trees of formatter calls are the same and `r1 = r2`. -/
theorem C18_debug_string_readable (up : Char → Bool) (name : RuleId → String)
    (slice : Nat → Nat → List Char) (g : NodeGrammar) (ty : Ty) (a c : Val)
    (ha : Val.TypedT g a ty) (hc : Val.TypedT g c ty)
    (na : a.namesGood name = true) (nc : c.namesGood name = true)
    (r1 r2 : List Char) (D1 : Delim r1) (D2 : Delim r2)
    (h : debugString up name slice a ++ r1 = debugString up name slice c ++ r2) :
    debugTree name slice a = debugTree name slice c ∧ r1 = r2 :=
  (debugTree_sim g name slice a c ty ha hc).render_inj up (debugTree_namesOK name slice a na)
    (debugTree_namesOK name slice c nc) r1 r2 D1 D2 h

/-- `{:?}` as a STRING is injective on the values of one type expression, up to `==`: same string
⇒ same formatter calls ⇒ `valEq`.  Every node kind, every grammar; `name`, `slice`, `uprint`
arbitrary; only: names do not begin with `]`. -/
theorem C18_debug_string_injective (up : Char → Bool) (name : RuleId → String)
    (slice : Nat → Nat → List Char) (g : NodeGrammar) (inh : Bool) (node : Node) (a c : Val)
    (ha : Val.TypedT g a (.plain inh node)) (hc : Val.TypedT g c (.plain inh node))
    (na : a.namesGood name = true) (nc : c.namesGood name = true)
    (h : debugString up name slice a = debugString up name slice c) :
    debugTree name slice a = debugTree name slice c ∧ valEq a c = true := by
  have h1 := (C18_debug_string_readable up name slice g _ a c ha hc na nc [] [] Delim.nil Delim.nil
    (by simpa using h)).1
  exact ⟨h1, C18_eq_of_debug name slice g inh node a c ha hc h1⟩

/-- Two runs of ONE type expression (any fuels, start states) over windows of one input object:
the results compare equal exactly when their `{:?}` STRINGS coincide, exactly when they are
structurally identical. -/
theorem C18_debug_string_iff (up : Char → Bool) (name : RuleId → String) (slice : Nat → Nat → List Char)
    (g : NodeGrammar) (uni : Uni) (b0 : Inp) (n1 n2 : Nat) (inh : Bool) (node : Node)
    (i1 i2 : Inp) (m1 m2 : M) (i1' i2' : Inp) (m1' m2' : M) (v1 v2 : Val)
    (hw1 : b0.Window i1) (hw2 : b0.Window i2) (hs1 : StkIn i1 m1.stk) (hs2 : StkIn i2 m2.stk)
    (h1 : parse g uni n1 inh node i1 m1 = .ok i1' m1' v1)
    (h2 : parse g uni n2 inh node i2 m2 = .ok i2' m2' v2)
    (na : v1.namesGood name = true) (nc : v2.namesGood name = true) :
    (valEq v1 v2 = true ↔ debugString up name slice v1 = debugString up name slice v2) ∧
    (v1.norm = v2.norm ↔ debugString up name slice v1 = debugString up name slice v2) := by
  have hd := C18_debug_iff name slice g uni b0 n1 n2 inh node i1 i2 m1 m2 i1' i2' m1' m2' v1 v2
    hw1 hw2 hs1 hs2 h1 h2
  have t1 := C18_typed _ _ _ _ _ _ _ _ _ _ h1
  have t2 := C18_typed _ _ _ _ _ _ _ _ _ _ h2
  have key : debugTree name slice v1 = debugTree name slice v2 ↔
      debugString up name slice v1 = debugString up name slice v2 :=
    ⟨fun e => by unfold debugString; rw [e],
     fun e => (C18_debug_string_injective up name slice g inh node v1 v2 t1 t2 na nc e).1⟩
  exact ⟨hd.1.trans key, hd.2.trans key⟩

/-- Entry point `try_parse_partial`, the same rule on two sub-ranges of one input object. -/
theorem C18_debug_string_iff_tryParsePartial (up : Char → Bool) (name : RuleId → String)
    (slice : Nat → Nat → List Char) (g : NodeGrammar) (uni : Uni) (b0 : Inp) (n1 n2 : Nat) (r : RuleId)
    (i1 i2 : Inp) (i1' i2' : Inp) (m1' m2' : M) (v1 v2 : Val)
    (hw1 : b0.Window i1) (hw2 : b0.Window i2)
    (h1 : tryParsePartial g uni n1 r i1 = .ok i1' m1' v1)
    (h2 : tryParsePartial g uni n2 r i2 = .ok i2' m2' v2)
    (na : v1.namesGood name = true) (nc : v2.namesGood name = true) :
    (valEq v1 v2 = true ↔ debugString up name slice v1 = debugString up name slice v2) ∧
    (v1.norm = v2.norm ↔ debugString up name slice v1 = debugString up name slice v2) :=
  C18_debug_string_iff up name slice g uni b0 n1 n2 true (.ref r .one) i1 i2 (M.init i1) (M.init i2)
    i1' i2' m1' m2' v1 v2 hw1 hw2 (StkIn.nil _) (StkIn.nil _) h1 h2 na nc

/-- Entry point `try_parse`. -/
theorem C18_debug_string_iff_tryParse (up : Char → Bool) (name : RuleId → String)
    (slice : Nat → Nat → List Char) (g : NodeGrammar) (uni : Uni) (b0 : Inp) (n1 n2 : Nat) (r : RuleId)
    (i1 i2 : Inp) (i1' i2' : Inp) (m1' m2' : M) (v1 v2 : Val)
    (hw1 : b0.Window i1) (hw2 : b0.Window i2)
    (h1 : tryParse g uni n1 r i1 = .ok i1' m1' v1) (h2 : tryParse g uni n2 r i2 = .ok i2' m2' v2)
    (na : v1.namesGood name = true) (nc : v2.namesGood name = true) :
    (valEq v1 v2 = true ↔ debugString up name slice v1 = debugString up name slice v2) ∧
    (v1.norm = v2.norm ↔ debugString up name slice v1 = debugString up name slice v2) := by
  obtain ⟨j1, k1, p1⟩ := tryParse_ok_parse h1
  obtain ⟨j2, k2, p2⟩ := tryParse_ok_parse h2
  exact C18_debug_string_iff up name slice g uni b0 n1 n2 true (.ref r .one) i1 i2 (M.init i1) (M.init i2)
    j1 j2 k1 k2 v1 v2 hw1 hw2 (StkIn.nil _) (StkIn.nil _) p1 p2 na nc

/-! ### non-vacuity -/

/-- `ab = { "a" ~ "b" }` on the ranges 0..2 and 2..4 of `"abab"` (`c18Grammar`, Props/C18): the
strings rustc would print (`c18Name` = the rule names), differing in `start: 0, end: 2` /
`start: 2, end: 4`; the values are not `==`. -/
example : (c18P 4 c18Sub).map (debugString (fun _ => true) c18Name c18Slice) =
    some "tok { span: Span { str: \"ab\", start: 2, end: 4 } }".toList := by decide
example : (c18P 6 c18B0).map (debugString (fun _ => true) c18Name c18Slice) =
    some "alt { content: Choice2 { _0: Str }, span: Span { str: \"ab\", start: 0, end: 2 } }".toList := by
  decide
set_option maxRecDepth 8000 in
example : (c18P 7 c18B0).map (debugString (fun _ => true) c18Name c18Slice) =
    some ("many { content: RepeatMin { content: [Skipped { skipped: [AtomicRepeat { content: [] }], " ++
      "matched: Str }] }, span: Span { str: \"a\", start: 0, end: 1 } }").toList := by decide
example : (c18P 5 c18B0).map (debugString (fun _ => true) c18Name c18Slice) =
    some "ci { content: Insens { content: \"ab\" } }".toList := by decide
set_option maxRecDepth 8000 in
example : (c18P 2 c18B0).map (Val.namesGood c18Name) = some true ∧
    (c18P 2 c18Sub).map (Val.namesGood c18Name) = some true ∧
    optEq (c18P 2 c18B0) (c18P 2 c18Sub) = false ∧
    (c18P 2 c18B0).map (debugString (fun _ => true) c18Name c18Slice) ≠
      (c18P 2 c18Sub).map (debugString (fun _ => true) c18Name c18Slice) := by decide
/-- Equal values, equal strings: the silent rule at 0 and at 2. -/
example : optEq (c18P 3 c18B0) (c18P 3 c18Sub) = true ∧
    (c18P 3 c18B0).map (debugString (fun _ => true) c18Name c18Slice) =
      (c18P 3 c18Sub).map (debugString (fun _ => true) c18Name c18Slice) := by decide

/-- "Of one type expression" is needed: the unit struct `Str` and a silent rule struct that
happens to be called `Str`, with no content shown, print the same string and are not `==`. -/
theorem C18_debug_string_needs_type :
    debugString (fun _ => true) (fun _ => "Str") (fun _ _ => []) (.mk .str []) =
      debugString (fun _ => true) (fun _ => "Str") (fun _ _ => []) (.mk (.rule 1 .expression false 0 0) []) ∧
    valEq (.mk .str []) (.mk (.rule 1 .expression false 0 0) []) = false ∧
    debugTree (fun _ => "Str") (fun _ _ => []) (.mk .str []) ≠
      debugTree (fun _ => "Str") (fun _ _ => []) (.mk (.rule 1 .expression false 0 0) []) := by
  refine ⟨by decide, by decide, ?_⟩
  simp [debugTree, debugTreeList]

end PestTyped
