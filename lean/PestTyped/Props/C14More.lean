/-
Props.C14More — additions to C14 answering the review (/verif/build/review/REVIEW.md, "C12 / C13 /
C14" and ranked repair 10):

  "marker / first / last-line clauses only in the `_partial` theorems, which EXCLUDE every span starting
   at the first byte of a line other than the first (F-FMT-3 region) — there only one `decide` instance
   and the first two rows are characterised, empty spans not at all";  "no theorem reaches `render`
   (gutter alignment, `ceilLog10`, `padNum`); `ceilLog10Go` / `digitsGo` stop silently on fuel";
  "quantifying over `FormatOption` is vacuous for panics (model callbacks are total pure functions;
   Rust's are `FnMut … -> fmt::Result`)".

(a) the F-FMT-3 region, exactly (the known finding is pinned: any OTHER behaviour there is now a
    contradiction with a theorem):
* `C14_later_line_start_exact`        non-empty span starting on the first byte of the line after
                                      `prev`: ALL rows (`v` after the last cell of `prev`, `prev` under
                                      its number with nothing highlighted, the covered lines / ellipsis,
                                      the last line, `^` under the last cell of the last character)
* `C14_later_line_start_empty_exact`  EMPTY span there: gutter / `prev` under its number, nothing
                                      highlighted / an EMPTY marker after the last cell of `prev`
* `C14_later_line_start_coverage`     every valid span in the region is one of these two; with
                                      `C14_partial_coverage` every valid span of every input is computed
(b) the characters written:
* `C14_ceilLog10_digits`   `ceil_log10(n)` = number of decimal digits of `n` = `(Nat.repr n).length`;
                           the model's loop budget never runs out (any larger fuel, same value)
* `C14_nat_str`            `format!("{}", n)` of the model = `Nat.repr n`; the digit loop's fuel suffices
* `C14_pad_num`            `format!("{:w$}", n)`: right-aligned, exactly `w` characters when `n` fits
* `C14_rows_shape`         the rows of every span snippet: one of two shapes, the markers at the display
                           width of the visualised text before the highlight; every number shown is
                           between 1 and the largest one `N`; the number column is as wide as `N`
* `C14_render_text`        `displaySpan` = the concatenation of the rows, each row spelled out: numbered
                           rows start with the right-aligned number (exactly `digits` wide) passed to
                           the number callback, ` `, the callback on `|`, ` `; marker rows with `digits`
                           spaces, ` `, `|`, ` `, then `col` spaces, then the marker callback on the marks
* `C14_render_default_single`  default option, single-line snippet: the full string; text and carets
                           are both preceded by exactly `digits + 3` characters
* `C14_render_text_position`   the same for `displayPosition`
(c) what quantifying over the option means:
* `C14_option_total`       with callbacks that may return `Err` (`FormatOptionE`: text written and
                           result): displaying a valid span never panics WHATEVER the callbacks do; if
                           none fails the output is that of `displaySpan` on their texts, `Ok`; otherwise
                           the output is what was written up to and including the first failing call,
                           `Err`, and nothing after it is called.  `FormatOption` = the options that
                           never fail (`toE`).
* `C14_option_total_position`  the same for positions
-/
import PestTyped.Lemmas.TextDisplayMore
namespace PestTyped
open Text

/-! ### (a) the F-FMT-3 region -/

/-- A NON-EMPTY span that starts on the first byte of the line following `prev` (the displayed
lines are `bb ++ [prev] ++ mid ++ [m2 ++ r] ++ after`; the span is `mid ++ m2`, `m2 ≠ []`).
Exactly: `v` after the last cell of `prev`; `prev` under its number with an EMPTY highlight; the
lines `mid` (all if at most three, else first / `...` / last); the line `m2 ++ r` under its number
with `m2` highlighted; `^` under the last cell of `m2`.  The width of the number column is that of
the last number. -/
theorem C14_later_line_start_exact (width : Char → Nat) (s : List Char)
    (bb mid after : List (List Char)) (prev m2 r : List Char)
    (hsplit : dispLines s = bb ++ prev :: (mid ++ (m2 ++ r) :: after)) (hm2 : m2 ≠ []) :
    spanSnippet width ⟨s, blen bb.flatten + blen prev,
        blen bb.flatten + blen prev + blen mid.flatten + blen m2⟩ =
      .ok ⟨ceilLog10 (bb.length + mid.length + 2),
        [.mark (strWidth width (visualize prev)) ['v'],
         .text (bb.length + 1) (visualize prev) (some []) []]
        ++ (match (innerOf mid).1 with
            | some l => [Row.text (bb.length + 2) [] (some l) []]
            | none => [])
        ++ (match (innerOf mid).2.1 with
            | some l => [Row.text (bb.length + 3) [] (some l) []]
            | none => if (innerOf mid).2.2.1 then [Row.dots] else [])
        ++ (match (innerOf mid).2.2.2 with
            | some l => [Row.text (bb.length + mid.length + 1) [] (some l) []]
            | none => [])
        ++ [.text (bb.length + mid.length + 2) [] (some (visualize m2)) (visualize r),
            .mark (strWidth width (visualize m2) - 1) ['^']]⟩ :=
  spanSnippet_later_nonempty width s bb mid after prev m2 r hsplit hm2

/-- `"abc\ndef"[4..7]` (DESIGN §7) and a span with an ellipsis: lines 2–7 of eight lines. -/
example : spanSnippet (fun _ => 1) ⟨['a', 'b', 'c', '\n', 'd', 'e', 'f'], 4, 7⟩ =
    .ok ⟨1, [.mark 4 ['v'], .text 1 ['a', 'b', 'c', '␊'] (some []) [],
             .text 2 [] (some ['d', 'e', 'f']) [], .mark 2 ['^']]⟩ := by decide
example : dispLines ['a', 'b', 'c', '\n', 'd', 'e', 'f'] =
    [] ++ ['a', 'b', 'c', '\n'] :: ([] ++ (['d', 'e', 'f'] ++ []) :: []) := by decide
example : spanSnippet (fun _ => 1)
    ⟨['0', '\n', '1', '\n', '2', '\n', '3', '\n', '4', '\n', '5', '\n', '6', 'x', '\n', '7'], 2, 13⟩ =
    .ok ⟨1, [.mark 2 ['v'], .text 1 ['0', '␊'] (some []) [], .text 2 [] (some ['1', '␊']) [], .dots,
             .text 6 [] (some ['5', '␊']) [], .text 7 [] (some ['6']) ['x', '␊'], .mark 0 ['^']]⟩ := by decide

/-- An EMPTY span on the first byte of the line following `prev`: gutter; `prev` under its
number, nothing highlighted; a marker row with NO caret (the marker callback is called on the
empty string), positioned after the last cell of `prev`. -/
theorem C14_later_line_start_empty_exact (width : Char → Nat) (s : List Char)
    (bb after : List (List Char)) (prev l : List Char)
    (hsplit : dispLines s = bb ++ prev :: l :: after) :
    spanSnippet width ⟨s, blen bb.flatten + blen prev, blen bb.flatten + blen prev⟩ =
      .ok ⟨ceilLog10 (bb.length + 1),
        [.gutter, .text (bb.length + 1) (visualize prev) (some []) [],
         .mark (strWidth width (visualize prev)) []]⟩ :=
  spanSnippet_later_empty width s bb after prev l hsplit

example : spanSnippet (fun _ => 1) ⟨['a', 'b', 'c', '\n', 'd', 'e', 'f'], 4, 4⟩ =
    .ok ⟨1, [.gutter, .text 1 ['a', 'b', 'c', '␊'] (some []) [], .mark 4 []]⟩ := by decide
example : displaySpan .default (fun _ => 1) ⟨['a', 'b', 'c', '\n', 'd', 'e', 'f'], 4, 4⟩ =
    .ok [' ', ' ', '|', '\n', '1', ' ', '|', ' ', 'a', 'b', 'c', '␊', '\n',
         ' ', ' ', '|', ' ', ' ', ' ', ' ', ' ', '\n'] := by decide

/-- The two theorems above cover the whole region: every valid span whose start is the first
byte of a line other than the first. -/
theorem C14_later_line_start_coverage (s : List Char) (a b : Nat)
    (hv : (⟨s, a, b⟩ : Span).Valid) (hl : LaterLineStart s a) :
    (∃ bb after prev l, dispLines s = bb ++ prev :: l :: after ∧
      a = blen bb.flatten + blen prev ∧ b = a) ∨
    (∃ bb mid after prev m2 r, dispLines s = bb ++ prev :: (mid ++ (m2 ++ r) :: after) ∧ m2 ≠ [] ∧
      a = blen bb.flatten + blen prev ∧
      b = blen bb.flatten + blen prev + blen mid.flatten + blen m2) :=
  later_decomp s a b hv hl

example : LaterLineStart ['a', 'b', 'c', '\n', 'd', 'e', 'f'] 4 ∧
    (⟨['a', 'b', 'c', '\n', 'd', 'e', 'f'], 4, 4⟩ : Span).Valid :=
  ⟨⟨[['a', 'b', 'c', '\n']], ['d', 'e', 'f'], [], by decide, by decide, by decide⟩,
   Nat.le_refl _, ⟨['a', 'b', 'c', '\n'], ['d', 'e', 'f'], rfl, by decide⟩,
   ⟨['a', 'b', 'c', '\n'], ['d', 'e', 'f'], rfl, by decide⟩⟩

/-! ### (b) the characters written -/

/-- `ceil_log10(n)` is the number of decimal digits of `n`, and the loop budget of the model is
not binding: any fuel `≥ n` gives the same value. -/
theorem C14_ceilLog10_digits (n : Nat) :
    ceilLog10 n = (Nat.toDigits 10 n).length ∧ ceilLog10 n = (Nat.repr n).length ∧
    ∀ fuel, n ≤ fuel → ceilLog10Go fuel 1 n = ceilLog10 n := by
  refine ⟨ceilLog10_eq n, ?_, ?_⟩
  · rw [ceilLog10_eq, Nat.repr_eq_ofList_toDigits, String.length_ofList]
  · intro fuel hf
    rw [ceilLog10_eq, ceilLog10Go_eq fuel 1 n hf]
    have := Nat.length_toDigits_pos (b := 10) (n := n)
    omega

example : ceilLog10 0 = 1 ∧ ceilLog10 9 = 1 ∧ ceilLog10 10 = 2 ∧ ceilLog10 99 = 2 ∧ ceilLog10 100 = 3 ∧
    ceilLog10 12345 = 5 := by decide

/-- `format!("{}", n)`: the digits of `Nat.repr n`; the digit loop never runs out of fuel. -/
theorem C14_nat_str (n : Nat) :
    natStr n = Nat.toDigits 10 n ∧ String.ofList (natStr n) = Nat.repr n ∧
    ∀ fuel, n < fuel → digitsGo fuel n [] = natStr n := by
  refine ⟨natStr_eq n, by rw [natStr_eq]; rfl, ?_⟩
  intro fuel hf
  rw [digitsGo_eq fuel n [] hf, natStr_eq]; simp

example : natStr 0 = ['0'] ∧ natStr 1203 = ['1', '2', '0', '3'] := by decide

/-- `format!("{:w$}", n)`: spaces then the digits; exactly `w` characters when `n` has at most
`w` digits. -/
theorem C14_pad_num (w n : Nat) :
    padNum w n = List.replicate (w - (Nat.toDigits 10 n).length) ' ' ++ Nat.toDigits 10 n ∧
    ((Nat.toDigits 10 n).length ≤ w → (padNum w n).length = w) :=
  ⟨padNum_eq w n, length_padNum w n⟩

example : padNum 3 7 = [' ', ' ', '7'] ∧ padNum 2 10 = ['1', '0'] := by decide

/-- The rows of the display of any valid span: one of the two shapes of `RowsShape` (markers at
the display width of the visualised text before the highlight); `N` is the largest number shown,
every number shown is between 1 and `N`, and the number column is as wide as `N`: every number
cell has exactly `digits` characters. -/
theorem C14_rows_shape (width : Char → Nat) (s : List Char) (a b : Nat)
    (hv : (⟨s, a, b⟩ : Span).Valid) (sn : Snippet) (h : spanSnippet width ⟨s, a, b⟩ = .ok sn) :
    ∃ N, sn.digits = (Nat.toDigits 10 N).length ∧ RowsShape width sn.rows N ∧
      ∀ n pre hl post, Row.text n pre hl post ∈ sn.rows →
        1 ≤ n ∧ n ≤ N ∧ (padNum sn.digits n).length = sn.digits := by
  obtain ⟨N, hd, hs⟩ := spanSnippet_shape width s a b hv sn h
  rw [ceilLog10_eq] at hd
  refine ⟨N, hd, hs, ?_⟩
  intro n pre hl post hm
  obtain ⟨h1, h2⟩ := hs.numbers_le n pre hl post hm
  exact ⟨h1, h2, length_padNum _ _ (by rw [hd]; exact length_toDigits_mono h2)⟩

/-- What `RowsShape` says, for reference. -/
example (width : Char → Nat) (rows : List Row) (N : Nat) :
    RowsShape width rows N ↔
      (∃ pre hl post, rows = [.gutter, .text N pre (some hl) post,
          .mark (strWidth width pre) (List.replicate (strWidth width hl) '^')] ∧ 1 ≤ N) ∨
      (∃ n1 pre1 hl1 inner hlN postN,
        rows = .mark (strWidth width pre1) ['v'] :: .text n1 pre1 (some hl1) [] :: inner ++
          [.text N [] (some hlN) postN, .mark (strWidth width hlN - 1) ['^']] ∧
        1 ≤ n1 ∧ n1 < N ∧ ∀ r ∈ inner, InnerRow n1 N r) := Iff.rfl

/-- The string written for one row, spelled out. -/
def rowString (opt : FormatOption) (d : Nat) : Row → List Char
  | .gutter => List.replicate d ' ' ++ [' '] ++ opt.number ['|'] ++ ['\n']
  | .text n pre hl post =>
    opt.number (List.replicate (d - (Nat.toDigits 10 n).length) ' ' ++ Nat.toDigits 10 n) ++ [' '] ++
      opt.number ['|'] ++ [' '] ++ pre ++ (match hl with | some h => opt.span h | none => []) ++
      post ++ ['\n']
  | .mark col m =>
    List.replicate d ' ' ++ [' '] ++ opt.number ['|'] ++ [' '] ++ List.replicate col ' ' ++
      opt.marker m ++ ['\n']
  | .dots => List.replicate d ' ' ++ [' '] ++ opt.number ['|'] ++ [' ', '.', '.', '.', '\n']

/-- `Span::display` / `impl Display for Span`, down to the characters: for every valid span and
every option the output is the concatenation of the strings of the rows (`rowString`): numbered
rows begin with the number, right-aligned in exactly `digits` characters (`digits` = number of
decimal digits of the largest number shown) and handed to the number callback, then ` `, the
callback on `|`, ` `, the text with the highlighted part through the span callback; marker rows
with `digits` spaces, ` `, `|`, ` `, `col` spaces and the marker callback on the marks, where
`col` is the display width given by `C14_rows_shape`. -/
theorem C14_render_text (opt : FormatOption) (width : Char → Nat) (s : List Char) (a b : Nat)
    (hv : (⟨s, a, b⟩ : Span).Valid) :
    ∃ sn N, spanSnippet width ⟨s, a, b⟩ = .ok sn ∧
      displaySpan opt width ⟨s, a, b⟩ = .ok (sn.rows.map (rowString opt sn.digits)).flatten ∧
      sn.digits = (Nat.toDigits 10 N).length ∧ RowsShape width sn.rows N ∧
      ∀ n pre hl post, Row.text n pre hl post ∈ sn.rows →
        1 ≤ n ∧ n ≤ N ∧
        (List.replicate (sn.digits - (Nat.toDigits 10 n).length) ' ' ++ Nat.toDigits 10 n).length =
          sn.digits := by
  obtain ⟨sn, hsn⟩ := spanSnippet_ok width s a b hv
  obtain ⟨N, hd, hs, hnum⟩ := C14_rows_shape width s a b hv sn hsn
  refine ⟨sn, N, hsn, ?_, hd, hs, ?_⟩
  · unfold displaySpan render
    rw [hsn]
    simp only []
    congr 2
    apply List.map_congr_left
    intro row _
    cases row with
    | gutter => rfl
    | text n pre hl post => cases hl <;> simp only [renderRow, rowString, padNum_eq]
    | mark col m => rfl
    | dots => rfl
  · intro n pre hl post hm
    obtain ⟨h1, h2, h3⟩ := hnum n pre hl post hm
    rw [padNum_eq] at h3
    exact ⟨h1, h2, h3⟩

/-- A two-digit number column, an ellipsis and the recording option `bracket`: lines 9–14 of 14. -/
example : displaySpan .bracket (fun _ => 1)
    ⟨['1', '\n', '2', '\n', '3', '\n', '4', '\n', '5', '\n', '6', '\n', '7', '\n', '8', '\n', 'a', 'b', '\n',
      'c', '\n', 'd', '\n', 'e', '\n', 'f', '\n', 'g', 'h'], 17, 28⟩ =
    .ok ([' ', ' ', ' ', '<', 'N', ':', '|', '>', ' ', ' ', '<', 'M', ':', 'v', '>', '\n'] ++
         ['<', 'N', ':', ' ', '9', '>', ' ', '<', 'N', ':', '|', '>', ' ', 'a', '<', 'S', ':', 'b', '␊', '>', '\n'] ++
         ['<', 'N', ':', '1', '0', '>', ' ', '<', 'N', ':', '|', '>', ' ', '<', 'S', ':', 'c', '␊', '>', '\n'] ++
         [' ', ' ', ' ', '<', 'N', ':', '|', '>', ' ', '.', '.', '.', '\n'] ++
         ['<', 'N', ':', '1', '3', '>', ' ', '<', 'N', ':', '|', '>', ' ', '<', 'S', ':', 'f', '␊', '>', '\n'] ++
         ['<', 'N', ':', '1', '4', '>', ' ', '<', 'N', ':', '|', '>', ' ', '<', 'S', ':', 'g', '>', 'h', '\n'] ++
         [' ', ' ', ' ', '<', 'N', ':', '|', '>', ' ', '<', 'M', ':', '^', '>', '\n']) := by decide

/-- Default option, single-line snippet, the whole string: gutter; the number (as wide as the
column: it IS the largest), ` | `, the line with its highlight; `digits` spaces, ` | `, as many
spaces as the display width of the text before the highlight, one caret per display cell of the
highlight.  Text and carets are both preceded by exactly `digits + 3` characters. -/
theorem C14_render_default_single (width : Char → Nat) (N : Nat) (pre hl post : List Char) :
    render .default ⟨(Nat.toDigits 10 N).length,
      [.gutter, .text N pre (some hl) post,
       .mark (strWidth width pre) (List.replicate (strWidth width hl) '^')]⟩ =
      (List.replicate (Nat.toDigits 10 N).length ' ' ++ [' ', '|', '\n']) ++
      ((Nat.toDigits 10 N ++ [' ', '|', ' ']) ++ pre ++ hl ++ post ++ ['\n']) ++
      ((List.replicate (Nat.toDigits 10 N).length ' ' ++ [' ', '|', ' ']) ++
        List.replicate (strWidth width pre) ' ' ++ List.replicate (strWidth width hl) '^' ++ ['\n']) ∧
    (Nat.toDigits 10 N ++ [' ', '|', ' ']).length = (Nat.toDigits 10 N).length + 3 ∧
    (List.replicate (Nat.toDigits 10 N).length ' ' ++ [' ', '|', ' ']).length =
      (Nat.toDigits 10 N).length + 3 := by
  refine ⟨?_, by simp, by simp⟩
  simp [render, renderRow, padNum_eq, FormatOption.default]

example : displaySpan .default (fun c => if c = '中' then 2 else 1) ⟨['a', 'b', '\n', 'c', '中', 'd'], 4, 7⟩ =
    .ok [' ', ' ', '|', '\n', '2', ' ', '|', ' ', 'c', '中', 'd', '\n', ' ', ' ', '|', ' ', ' ', '^', '^', '\n'] := by
  decide

/-- `Position::display`: for every position of every input, the three rows of the line `f ++ r`
that holds it (`C14_position`), written out: gutter; the line under its number `N` (the column is
exactly as wide as `N`), nothing through the span callback; `^` through the marker callback under
the cell at the offset. -/
theorem C14_render_text_position (opt : FormatOption) (width : Char → Nat) (s : List Char)
    (before after : List (List Char)) (f r : List Char)
    (hsplit : dispLines s = before ++ (f ++ r) :: after) (hline : r ≠ [] ∨ after = []) :
    let N := before.length + 1
    let d := (Nat.toDigits 10 N).length
    displayPosition opt width s (blen before.flatten + blen f) =
      .ok ((List.replicate d ' ' ++ [' '] ++ opt.number ['|'] ++ ['\n']) ++
           (opt.number (Nat.toDigits 10 N) ++ [' '] ++ opt.number ['|'] ++ [' '] ++ visualize f ++
             visualize r ++ ['\n']) ++
           (List.replicate d ' ' ++ [' '] ++ opt.number ['|'] ++ [' '] ++
             List.replicate (strWidth width (visualize f)) ' ' ++ opt.marker ['^'] ++ ['\n'])) := by
  intro N d
  unfold displayPosition
  rw [positionSnippet_of_decomp width s before after f r hsplit hline]
  simp only [render, snippetSinglePos, List.map_cons, List.map_nil, renderRow, padNum_eq, ceilLog10_eq]
  simp [N, d]

example : displayPosition .default (fun _ => 1) ['a', '\n', 'b', 'c'] 3 =
    .ok [' ', ' ', '|', '\n', '2', ' ', '|', ' ', 'b', 'c', '\n', ' ', ' ', '|', ' ', ' ', '^', '\n'] := by decide

/-! ### (c) options whose callbacks can fail -/

/-- Quantifying over the option, made explicit.  `FormatOptionE`: each callback returns the text
it wrote and `Ok` / `Err`.  For every valid span:
* no panic, whatever the callbacks do (all panics of `display_span` precede the first write);
* the writes are `snippetActs sn`, run in order with `?`;
* if no callback fails: the text of `displaySpan` for the callbacks' texts, and `Ok`;
* if there is a first failing write: everything written before it, what it wrote, `Err` —
  nothing after it is run; and one of the two is the case.
A `FormatOption` of the model is an option that never fails (`toE`). -/
theorem C14_option_total (optE : FormatOptionE) (width : Char → Nat) (s : List Char) (a b : Nat)
    (hv : (⟨s, a, b⟩ : Span).Valid) :
    ∃ sn, spanSnippet width ⟨s, a, b⟩ = .ok sn ∧
      displaySpanE optE width ⟨s, a, b⟩ = .ok (runActsE optE (snippetActs sn)) ∧
      (optE.NeverFails →
        displaySpanE optE width ⟨s, a, b⟩ = .ok (render optE.texts sn, true) ∧
        displaySpan optE.texts width ⟨s, a, b⟩ = .ok (render optE.texts sn)) ∧
      (∀ pre x post, snippetActs sn = pre ++ x :: post →
        (∀ y ∈ pre, (runActE optE y).2 = true) → (runActE optE x).2 = false →
        displaySpanE optE width ⟨s, a, b⟩ =
          .ok (pre.flatMap (fun y => (runActE optE y).1) ++ (runActE optE x).1, false)) ∧
      ((∀ y ∈ snippetActs sn, (runActE optE y).2 = true) ∨
        ∃ pre x post, snippetActs sn = pre ++ x :: post ∧
          (∀ y ∈ pre, (runActE optE y).2 = true) ∧ (runActE optE x).2 = false) ∧
      ∀ opt : FormatOption, displaySpanE opt.toE width ⟨s, a, b⟩ = .ok (render opt sn, true) ∧
        displaySpan opt width ⟨s, a, b⟩ = .ok (render opt sn) := by
  obtain ⟨sn, hsn⟩ := spanSnippet_ok width s a b hv
  have hE : displaySpanE optE width ⟨s, a, b⟩ = .ok (runActsE optE (snippetActs sn)) := by
    unfold displaySpanE; rw [hsn]; rfl
  refine ⟨sn, hsn, hE, ?_, ?_, acts_split optE _, ?_⟩
  · intro hnf
    refine ⟨?_, by unfold displaySpan; rw [hsn]⟩
    rw [hE]; exact congrArg _ (renderE_of_neverFails optE hnf sn)
  · intro pre x post hsplit hpre hx
    rw [hE, hsplit, runActsE_fail optE pre x post hpre hx]
  · intro opt
    refine ⟨?_, by unfold displaySpan; rw [hsn]⟩
    unfold displaySpanE; rw [hsn]
    exact congrArg _ (renderE_toE opt sn)

/-- The same for positions. -/
theorem C14_option_total_position (optE : FormatOptionE) (width : Char → Nat) (s : List Char) (p : Nat)
    (hp : IsBoundary s p) :
    ∃ sn, positionSnippet width s p = .ok (some sn) ∧
      displayPositionE optE width s p = .ok (runActsE optE (snippetActs sn)) ∧
      (optE.NeverFails →
        displayPositionE optE width s p = .ok (render optE.texts sn, true) ∧
        displayPosition optE.texts width s p = .ok (render optE.texts sn)) ∧
      (∀ pre x post, snippetActs sn = pre ++ x :: post →
        (∀ y ∈ pre, (runActE optE y).2 = true) → (runActE optE x).2 = false →
        displayPositionE optE width s p =
          .ok (pre.flatMap (fun y => (runActE optE y).1) ++ (runActE optE x).1, false)) ∧
      ((∀ y ∈ snippetActs sn, (runActE optE y).2 = true) ∨
        ∃ pre x post, snippetActs sn = pre ++ x :: post ∧
          (∀ y ∈ pre, (runActE optE y).2 = true) ∧ (runActE optE x).2 = false) := by
  obtain ⟨sn, hsn⟩ := positionSnippet_ok width s p hp
  have hE : displayPositionE optE width s p = .ok (runActsE optE (snippetActs sn)) := by
    unfold displayPositionE; rw [hsn]; rfl
  refine ⟨sn, hsn, hE, ?_, ?_, acts_split optE _⟩
  · intro hnf
    refine ⟨?_, by unfold displayPosition; rw [hsn]⟩
    rw [hE]; exact congrArg _ (renderE_of_neverFails optE hnf sn)
  · intro pre x post hsplit hpre hx
    rw [hE, hsplit, runActsE_fail optE pre x post hpre hx]

/-- A span callback that writes `<` and fails: the output stops there, `Err`; the marker
callback is never called. -/
def c14FailSpan : FormatOptionE :=
  ⟨fun _ => (['<'], false), fun m => (m, true), fun n => (n, true)⟩

example : displaySpanE c14FailSpan (fun _ => 1) ⟨['a', 'b', 'c'], 1, 2⟩ =
    .ok ([' ', ' ', '|', '\n', '1', ' ', '|', ' ', 'a', '<'], false) := by decide
example : displaySpanE FormatOption.default.toE (fun _ => 1) ⟨['a', 'b', 'c'], 1, 2⟩ =
    .ok ([' ', ' ', '|', '\n', '1', ' ', '|', ' ', 'a', 'b', 'c', '\n', ' ', ' ', '|', ' ', ' ', '^', '\n'], true) := by
  decide
example : displayPositionE c14FailSpan (fun _ => 1) ['a', 'b'] 1 =
    .ok ([' ', ' ', '|', '\n', '1', ' ', '|', ' ', 'a', 'b', '\n', ' ', ' ', '|', ' ', ' ', '^', '\n'], true) := by decide

end PestTyped
