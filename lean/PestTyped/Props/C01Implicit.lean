/-
Props.C01Implicit — C01 (the typed parser recognises exactly what pest recognises, same prefix) under the
WEAK hypothesis on the skip rules: WHITESPACE / COMMENT may have ANY body (block comments, `" "+`, …) as
long as they are used IMPLICITLY (or explicitly only where skipping is already off).

Background (finding F-WS).  pest forces `Atomic` inside rules named WHITESPACE / COMMENT; pest-typed
gives them their declared kind.  `Props/C01.lean` proves C01 under `SkipRulesAtomicLike g` (skip rules are
`@` / `$` or have a body without sequence / repetition / rule reference), which excludes the idiomatic
`COMMENT = _{ "/*" ~ (!"*/" ~ ANY)* ~ "*/" }` and the repository's own `COMMENT = _{ "$"+ }`.  But the two
sides differ on such grammars only when the skip rule is entered with skipping ON: as entry rule, or
through an explicit reference from a non-atomic context (or when it is declared `!`).  At the implicit
skip site both run it with skipping off (`Skipped` refers to `WHITESPACE<0>` / `COMMENT<0>`).

Hypothesis (Lemmas/SkipImplicit.lean, all `Bool`-valued, executable, `decide`-able):
* `refOk g name r na`     — at a reference to `name` (resolving to rule `r`) made under atomicity `na`:
                            `bodyNa name r.kind na = flagNa r.kind na` (pest's atomicity inside the body is
                            the value of pest-typed's `#skip` flag) or `r.expr` is a simple body;
* `exprOk g R na e`       — every reference in `e` is `refOk` under `na` and its target state
                            `(index, bodyNa …)` is in `R`;
* `ImplicitOk g R na e`    — `exprOk g R na e`, the implicit-skip references `WHITESPACE`, `COMMENT` are
                            `exprOk` under `na = false`, and `R` is closed (`closedOk`: the body of every
                            state of `R` is `exprOk` under the state's atomicity);
* `SkipRulesImplicitOnly g entry` — `ImplicitOk g (reach g true (.ident entry)) true (.ident entry)`, with
                            `reach` the states found by iterating from the entry and the skip rules.
It is WEAKER than `SkipRulesAtomicLike g` (`C01_implicit_of_like`), and the F-WS witnesses violate it
(`C01_counterexample_F_WS_implicit`).

Proof: the typed parser of `gen g` computes, for EVERY grammar, the "declared-kind" semantics `U.spec`
(pest's `spec` without the forcing; `U.sim_all`, `U.back_all` in Lemmas/SkipImplicitSim.lean), and
`U.spec = spec` under the hypothesis (`specU_eq`, Lemmas/SkipImplicitSpec.lean).

Theorems (every grammar, fuel, cursor, stack, tracker; `R`, `na`, `e`, `sk`, `inh` with `sk.eval inh = na`)
* `C01_forward_implicit(_eventually/_check)`  — whenever the Spec answers, some (every large) typed fuel
  gives the same answer (verdict, end cursor, stack).
* `C01_backward_implicit(_check)`             — whenever the typed run answers, the Spec gives that answer
  at every sufficiently large fuel.
* `C01_agree_implicit(_check)`                — two definite answers never differ.
* `C01_iff_implicit`                          — a definite outcome is reached by one iff by the other.
* `…_entry` / `…_entry_check` variants        — `try_parse_partial` / `try_check_partial` of rule `name`
  against `specPartial`, under `SkipRulesImplicitOnly g name = true`.
* `C01_implicit_of_like`, `C01_implicit_unconditional_*` (the declared-kind semantics, no hypothesis),
  `C01_counterexample_F_WS_implicit`.
-/
import PestTyped.Lemmas.SkipImplicitSim
import PestTyped.Props.C01
namespace PestTyped

/-! ### no hypothesis at all: the typed parser computes the declared-kind semantics -/

/-- For EVERY grammar: whenever the declared-kind semantics `U.spec` (pest's semantics without the
forced `Atomic` inside WHITESPACE / COMMENT) answers, the typed parser gives that answer from some fuel on. -/
theorem C01_implicit_unconditional_forward (g : PGrammar) (uni : Uni) :
    ∀ n na e i S, U.spec g uni n na e i S ≠ .oof →
      ∀ inh sk trk, Flag.eval sk inh = na →
        ∃ n0 r, Rel r (U.spec g uni n na e i S) ∧
          ∀ n', n0 ≤ n' → parse (gen g) uni n' inh (genExpr g sk e) i ⟨S, trk⟩ = r :=
  fun n na e i S hne inh sk trk hsk => U.sim_all n na e i S hne inh sk trk hsk

/-- For EVERY grammar: whenever the typed parser answers, `U.spec` gives that answer at every
sufficiently large fuel. -/
theorem C01_implicit_unconditional_backward (g : PGrammar) (uni : Uni) :
    ∀ k inh sk na e i S trk, Flag.eval sk inh = na →
      parse (gen g) uni k inh (genExpr g sk e) i ⟨S, trk⟩ ≠ .oof →
      ∃ n0, ∀ n, n0 ≤ n →
        U.spec g uni n na e i S = (parse (gen g) uni k inh (genExpr g sk e) i ⟨S, trk⟩).outcome :=
  fun k inh sk na e i S trk hsk hne => U.back_all k inh sk na e i S trk hsk hne

/-! ### forward -/

/-- C01 (forward, weak hypothesis), all large fuels. -/
theorem C01_forward_implicit_eventually (g : PGrammar) (uni : Uni) (St : List (Nat × Bool)) (na : Bool) (e : PExpr)
    (h : ImplicitOk g St na e = true) :
    ∀ n i S, spec g uni n na e i S ≠ .oof →
      ∀ inh sk trk, Flag.eval sk inh = na →
        ∃ n0 r, Rel r (spec g uni n na e i S) ∧
          ∀ n', n0 ≤ n' → parse (gen g) uni n' inh (genExpr g sk e) i ⟨S, trk⟩ = r := by
  intro n i S hne inh sk trk hsk
  rw [← specU_eq_of_implicitOk h uni n i S] at hne ⊢
  exact U.sim_all n na e i S hne inh sk trk hsk

/-- C01 (forward, weak hypothesis).  Whenever the reference semantics answers for `e` under atomicity
`na`, the generated node answers the same, given enough fuel: same verdict, end cursor, final stack. -/
theorem C01_forward_implicit (g : PGrammar) (uni : Uni) (St : List (Nat × Bool)) (na : Bool) (e : PExpr)
    (h : ImplicitOk g St na e = true) :
    ∀ n i S, spec g uni n na e i S ≠ .oof →
      ∀ inh sk trk, Flag.eval sk inh = na →
        ∃ n', Rel (parse (gen g) uni n' inh (genExpr g sk e) i ⟨S, trk⟩) (spec g uni n na e i S) := by
  intro n i S hne inh sk trk hsk
  obtain ⟨n0, r, hr, hc⟩ := C01_forward_implicit_eventually g uni St na e h n i S hne inh sk trk hsk
  exact ⟨n0, by rw [hc n0 (Nat.le_refl _)]; exact hr⟩

/-- C01 (forward, weak hypothesis, check path). -/
theorem C01_forward_implicit_check (g : PGrammar) (uni : Uni) (St : List (Nat × Bool)) (na : Bool) (e : PExpr)
    (h : ImplicitOk g St na e = true) :
    ∀ n i S, spec g uni n na e i S ≠ .oof →
      ∀ inh sk trk, Flag.eval sk inh = na →
        ∃ n', Rel (check (gen g) uni n' inh (genExpr g sk e) i ⟨S, trk⟩) (spec g uni n na e i S) := by
  intro n i S hne inh sk trk hsk
  obtain ⟨n', h'⟩ := C01_forward_implicit g uni St na e h n i S hne inh sk trk hsk
  exact ⟨n', by rw [check_eq_parse_forget]; exact h'.forget⟩

/-! ### backward -/

/-- C01 (backward, weak hypothesis).  Whenever the typed run answers at some fuel `k`, the reference
semantics answers at every sufficiently large fuel, with the typed answer. -/
theorem C01_backward_implicit (g : PGrammar) (uni : Uni) (St : List (Nat × Bool)) (na : Bool) (e : PExpr)
    (h : ImplicitOk g St na e = true) :
    ∀ k inh sk i S trk, Flag.eval sk inh = na →
      parse (gen g) uni k inh (genExpr g sk e) i ⟨S, trk⟩ ≠ .oof →
      ∃ n0, ∀ n, n0 ≤ n →
        spec g uni n na e i S = (parse (gen g) uni k inh (genExpr g sk e) i ⟨S, trk⟩).outcome := by
  intro k inh sk i S trk hsk hne
  obtain ⟨n0, h0⟩ := U.back_all k inh sk na e i S trk hsk hne
  exact ⟨n0, fun n hn => by rw [← specU_eq_of_implicitOk h uni n i S]; exact h0 n hn⟩

/-- C01 (backward, weak hypothesis, check path). -/
theorem C01_backward_implicit_check (g : PGrammar) (uni : Uni) (St : List (Nat × Bool)) (na : Bool) (e : PExpr)
    (h : ImplicitOk g St na e = true) :
    ∀ k inh sk i S trk, Flag.eval sk inh = na →
      check (gen g) uni k inh (genExpr g sk e) i ⟨S, trk⟩ ≠ .oof →
      ∃ n0, ∀ n, n0 ≤ n →
        spec g uni n na e i S = (check (gen g) uni k inh (genExpr g sk e) i ⟨S, trk⟩).outcome := by
  intro k inh sk i S trk hsk hne
  rw [check_eq_parse_forget] at hne ⊢
  rw [outcome_forget]
  refine C01_backward_implicit g uni St na e h k inh sk i S trk hsk ?_
  intro h0
  rw [h0] at hne
  exact hne rfl

/-! ### agreement, exactly when -/

/-- C01 (agreement, weak hypothesis): a definite typed answer and a definite Spec answer (any two
fuels) show the same verdict, end cursor and stack. -/
theorem C01_agree_implicit (g : PGrammar) (uni : Uni) (St : List (Nat × Bool)) (na : Bool) (e : PExpr)
    (h : ImplicitOk g St na e = true) (n1 n2 : Nat) (i : Inp) (S : List Sp) (inh : Bool) (sk : Flag) (trk : Tracker)
    (hsk : Flag.eval sk inh = na) (a : R Val) (b : SR)
    (ha : parse (gen g) uni n1 inh (genExpr g sk e) i ⟨S, trk⟩ = a) (hb : spec g uni n2 na e i S = b)
    (hane : a ≠ .oof) (hbne : b ≠ .oof) : a.outcome = b := by
  subst hb
  obtain ⟨n', hrel⟩ := C01_forward_implicit g uni St na e h n2 i S hbne inh sk trk hsk
  have h1 := parse_mono ha hane n'
  have h2 := parse_mono (g := gen g) (uni := uni) (n := n') (inh := inh) (node := genExpr g sk e) (i := i)
    (m := ⟨S, trk⟩) rfl (hrel.ne_oof hbne) n1
  rw [Nat.add_comm] at h2
  rw [h1] at h2
  rw [← h2] at hrel
  exact hrel.outcome_eq hbne

/-- C01 (agreement, weak hypothesis, check path). -/
theorem C01_agree_implicit_check (g : PGrammar) (uni : Uni) (St : List (Nat × Bool)) (na : Bool) (e : PExpr)
    (h : ImplicitOk g St na e = true) (n1 n2 : Nat) (i : Inp) (S : List Sp) (inh : Bool) (sk : Flag) (trk : Tracker)
    (hsk : Flag.eval sk inh = na) (a : R Unit) (b : SR)
    (ha : check (gen g) uni n1 inh (genExpr g sk e) i ⟨S, trk⟩ = a) (hb : spec g uni n2 na e i S = b)
    (hane : a ≠ .oof) (hbne : b ≠ .oof) : a.outcome = b := by
  rw [check_eq_parse_forget] at ha
  subst ha
  rw [outcome_forget]
  refine C01_agree_implicit g uni St na e h n1 n2 i S inh sk trk hsk _ b rfl hb ?_ hbne
  intro h0
  rw [h0] at hane
  exact hane rfl

/-- C01 ("exactly when", weak hypothesis).  A definite outcome `o` is what the typed run gives at some
fuel if and only if it is what the reference semantics gives at some fuel. -/
theorem C01_iff_implicit (g : PGrammar) (uni : Uni) (St : List (Nat × Bool)) (na : Bool) (e : PExpr)
    (h : ImplicitOk g St na e = true) (inh : Bool) (sk : Flag) (hsk : Flag.eval sk inh = na) (i : Inp) (S : List Sp)
    (trk : Tracker) (o : SR) (ho : o ≠ .oof) :
    (∃ k, (parse (gen g) uni k inh (genExpr g sk e) i ⟨S, trk⟩).outcome = o) ↔ (∃ n, spec g uni n na e i S = o) := by
  constructor
  · rintro ⟨k, hk⟩
    have hne : parse (gen g) uni k inh (genExpr g sk e) i ⟨S, trk⟩ ≠ .oof := by
      intro h0; rw [h0] at hk; exact ho hk.symm
    obtain ⟨n0, h0⟩ := C01_backward_implicit g uni St na e h k inh sk i S trk hsk hne
    exact ⟨n0, by rw [h0 n0 (Nat.le_refl _), hk]⟩
  · rintro ⟨n, hn⟩
    obtain ⟨k, hk⟩ := C01_forward_implicit g uni St na e h n i S (by rw [hn]; exact ho) inh sk trk hsk
    rw [hn] at hk
    exact ⟨k, hk.outcome_eq ho⟩

/-! ### entry points -/

/-- C01 (forward, weak hypothesis, entry point): `R::try_parse_partial(input)` for the rule named
`name` against pest's parse of `name`. -/
theorem C01_forward_implicit_entry (g : PGrammar) (uni : Uni) (name : String) (k : Nat)
    (h : SkipRulesImplicitOnly g name = true) (hk : g.indexOf name = some k) (n : Nat) (i : Inp)
    (hne : specPartial g uni n name i ≠ .oof) :
    ∃ n', Rel (tryParsePartial (gen g) uni n' (k+1) i) (specPartial g uni n name i) := by
  have := C01_forward_implicit g uni _ true (.ident name) h n i [] hne true .one (Tracker.new i) rfl
  simp only [genExpr, hk] at this
  exact this

/-- C01 (forward, weak hypothesis, entry point, check path). -/
theorem C01_forward_implicit_entry_check (g : PGrammar) (uni : Uni) (name : String) (k : Nat)
    (h : SkipRulesImplicitOnly g name = true) (hk : g.indexOf name = some k) (n : Nat) (i : Inp)
    (hne : specPartial g uni n name i ≠ .oof) :
    ∃ n', Rel (tryCheckPartial (gen g) uni n' (k+1) i) (specPartial g uni n name i) := by
  have := C01_forward_implicit_check g uni _ true (.ident name) h n i [] hne true .one (Tracker.new i) rfl
  simp only [genExpr, hk] at this
  exact this

/-- C01 (backward, weak hypothesis, entry point). -/
theorem C01_backward_implicit_entry (g : PGrammar) (uni : Uni) (name : String) (r : Nat)
    (h : SkipRulesImplicitOnly g name = true) (hr : g.indexOf name = some r) (k : Nat) (i : Inp)
    (hne : tryParsePartial (gen g) uni k (r+1) i ≠ .oof) :
    ∃ n0, ∀ n, n0 ≤ n → specPartial g uni n name i = (tryParsePartial (gen g) uni k (r+1) i).outcome := by
  have := C01_backward_implicit g uni _ true (.ident name) h k true .one i [] (Tracker.new i) rfl
  simp only [genExpr, hr] at this
  exact this hne

/-- C01 (backward, weak hypothesis, entry point, check path). -/
theorem C01_backward_implicit_entry_check (g : PGrammar) (uni : Uni) (name : String) (r : Nat)
    (h : SkipRulesImplicitOnly g name = true) (hr : g.indexOf name = some r) (k : Nat) (i : Inp)
    (hne : tryCheckPartial (gen g) uni k (r+1) i ≠ .oof) :
    ∃ n0, ∀ n, n0 ≤ n → specPartial g uni n name i = (tryCheckPartial (gen g) uni k (r+1) i).outcome := by
  have := C01_backward_implicit_check g uni _ true (.ident name) h k true .one i [] (Tracker.new i) rfl
  simp only [genExpr, hr] at this
  exact this hne

/-- C01 (agreement, weak hypothesis, entry point). -/
theorem C01_agree_implicit_entry (g : PGrammar) (uni : Uni) (name : String) (k : Nat)
    (h : SkipRulesImplicitOnly g name = true) (hk : g.indexOf name = some k) (n1 n2 : Nat) (i : Inp) (a : R Val)
    (b : SR) (ha : tryParsePartial (gen g) uni n1 (k+1) i = a) (hb : specPartial g uni n2 name i = b)
    (hane : a ≠ .oof) (hbne : b ≠ .oof) : a.outcome = b := by
  refine C01_agree_implicit g uni _ true (.ident name) h n1 n2 i [] true .one (Tracker.new i) rfl a b ?_ hb hane hbne
  simp only [genExpr, hk]
  exact ha

/-- C01 (agreement, weak hypothesis, entry point, check path). -/
theorem C01_agree_implicit_entry_check (g : PGrammar) (uni : Uni) (name : String) (k : Nat)
    (h : SkipRulesImplicitOnly g name = true) (hk : g.indexOf name = some k) (n1 n2 : Nat) (i : Inp) (a : R Unit)
    (b : SR) (ha : tryCheckPartial (gen g) uni n1 (k+1) i = a) (hb : specPartial g uni n2 name i = b)
    (hane : a ≠ .oof) (hbne : b ≠ .oof) : a.outcome = b := by
  refine C01_agree_implicit_check g uni _ true (.ident name) h n1 n2 i [] true .one (Tracker.new i) rfl a b ?_ hb
    hane hbne
  simp only [genExpr, hk]
  exact ha

/-- C01 ("exactly when", weak hypothesis, entry point).  `R::try_parse_partial(input)` for the rule
named `name` matches and stops at a given offset (resp. does not match) at some fuel exactly when
pest's parse of `name` does at some fuel. -/
theorem C01_iff_implicit_entry (g : PGrammar) (uni : Uni) (name : String) (r : Nat)
    (h : SkipRulesImplicitOnly g name = true) (hr : g.indexOf name = some r) (i : Inp) (o : SR) (ho : o ≠ .oof) :
    (∃ k, (tryParsePartial (gen g) uni k (r+1) i).outcome = o) ↔ (∃ n, specPartial g uni n name i = o) := by
  have := C01_iff_implicit g uni _ true (.ident name) h true .one rfl i [] (Tracker.new i) o ho
  simp only [genExpr, hr] at this
  exact this

/-! ### the weak hypothesis is weaker -/

/-- `SkipRulesAtomicLike g` (the hypothesis of `Props/C01.lean`) implies the weak hypothesis, for every
expression and atomicity, with the set of all states as witness: the theorems above subsume `C01_*`. -/
theorem C01_implicit_of_like (g : PGrammar) (hws : SkipRulesAtomicLike g) (na : Bool) (e : PExpr) :
    ImplicitOk g (allStates g) na e = true :=
  implicitOk_of_like hws na e

example (g : PGrammar) (uni : Uni) (hws : SkipRulesAtomicLike g) (n : Nat) (na : Bool) (e : PExpr) (i : Inp)
    (S : List Sp) (hne : spec g uni n na e i S ≠ .oof) (inh : Bool) (sk : Flag) (trk : Tracker)
    (hsk : Flag.eval sk inh = na) :
    ∃ n', Rel (parse (gen g) uni n' inh (genExpr g sk e) i ⟨S, trk⟩) (spec g uni n na e i S) :=
  C01_forward_implicit g uni _ na e (C01_implicit_of_like g hws na e) n i S hne inh sk trk hsk

/-! ### non-vacuity: block comments and `" "+`, silent, used implicitly -/

/-- `WHITESPACE = _{ " "+ }  COMMENT = _{ "/*" ~ (!"*/" ~ ANY)* ~ "*/" }  word = @{ "b"+ ~ WHITESPACE? }
main = { "a" ~ word ~ EOI }`: skip rules with sequences and repetitions, silent; WHITESPACE is also
referenced explicitly, from an atomic rule. -/
def c01BG : PGrammar :=
  [ ⟨"WHITESPACE", .silent, .repOnce (.str [' '])⟩,
    ⟨"COMMENT", .silent,
      .seq (.str ['/', '*']) (.seq (.rep (.seq (.negPred (.str ['*', '/'])) (.ident "ANY"))) (.str ['*', '/']))⟩,
    ⟨"word", .atomic, .seq (.repOnce (.str ['b'])) (.opt (.ident "WHITESPACE"))⟩,
    ⟨"main", .normal, .seq (.str ['a']) (.seq (.ident "word") (.ident "EOI"))⟩ ]

/-- The weak hypothesis holds for the entry `main` (and for `word`) … -/
theorem c01BG_implicit : SkipRulesImplicitOnly c01BG "main" = true := by decide

example : SkipRulesImplicitOnly c01BG "word" = true := by decide

/-- … but not for the skip rules as entry rules (they would run with skipping on) … -/
theorem c01BG_entry_ws : SkipRulesImplicitOnly c01BG "WHITESPACE" = false ∧
    SkipRulesImplicitOnly c01BG "COMMENT" = false := by decide

/-- … and `SkipRulesAtomicLike` does not hold (sequence / repetition in a silent skip rule). -/
theorem c01BG_not_like : ¬ SkipRulesAtomicLike c01BG := by
  rw [← skipRulesAtomicLikeB_iff]
  decide

theorem c01BG_main : c01BG.indexOf "main" = some 3 := by decide

/-- The input `a /* */ bb `. -/
def c01BI : Inp := ⟨0, 0, ['a', ' ', '/', '*', ' ', '*', '/', ' ', 'b', 'b', ' '], []⟩

def c01BNG : NodeGrammar :=
  { rules := [eoiDef,
      { name := "WHITESPACE", atom := .inherited, emit := .expression, boxed := true,
        body := .rep .inh 1 none (.str [' ']) },
      { name := "COMMENT", atom := .inherited, emit := .expression, boxed := true,
        body := .seq .inh [.str ['/', '*'], .rep .inh 0 none (.seq .inh [.neg (.str ['*', '/']), .any]),
          .str ['*', '/']] },
      { name := "word", atom := .atomic, emit := .span, boxed := true,
        body := .seq .zero [.rep .zero 1 none (.str ['b']), .opt (.ref 1 .zero)] },
      { name := "main", atom := .inherited, emit := .both, boxed := true,
        body := .seq .inh [.str ['a'], .ref 3 .inh, .ref 0 .one] }],
    skipped := .atomicRepeat (.choice [.ref 1 .zero, .ref 2 .zero]) }

theorem c01B_gen : gen c01BG = c01BNG := by
  simp [gen, c01BG, c01BNG, genRule, genExpr, genSeqSpine, genSkipped, PGrammar.indexOf, PGrammar.indexOf.go,
    kindAtomicity, kindEmission, atomFlag, builtinNode]

set_option maxRecDepth 1000000 in
/-- pest's answer on `a /* */ bb `: all eleven bytes (blank, comment, blank skipped; the trailing
blank is taken by the explicit `WHITESPACE?` inside the atomic `word`). -/
theorem c01B_spec_main : specPartial c01BG c01Uni 12 "main" c01BI = .ok ⟨0, 11, [], []⟩ [] := by decide

set_option maxRecDepth 1000000 in
theorem c01B_typed_main : (tryParsePartial (gen c01BG) c01Uni 12 4 c01BI).outcome = .ok ⟨0, 11, [], []⟩ [] := by
  rw [c01B_gen]
  decide

theorem c01B_typed_ne_oof : tryParsePartial (gen c01BG) c01Uni 12 4 c01BI ≠ .oof := by
  intro h0; have := c01B_typed_main; rw [h0] at this; cases this

theorem c01B_spec_ne_oof : specPartial c01BG c01Uni 12 "main" c01BI ≠ .oof := by
  rw [c01B_spec_main]; nofun

example : ∃ n', Rel (tryParsePartial (gen c01BG) c01Uni n' 4 c01BI) (specPartial c01BG c01Uni 12 "main" c01BI) :=
  C01_forward_implicit_entry c01BG c01Uni "main" 3 c01BG_implicit c01BG_main 12 c01BI c01B_spec_ne_oof

example : ∃ n', Rel (tryCheckPartial (gen c01BG) c01Uni n' 4 c01BI) (specPartial c01BG c01Uni 12 "main" c01BI) :=
  C01_forward_implicit_entry_check c01BG c01Uni "main" 3 c01BG_implicit c01BG_main 12 c01BI c01B_spec_ne_oof

example : ∃ n0, ∀ n, n0 ≤ n →
    specPartial c01BG c01Uni n "main" c01BI = (tryParsePartial (gen c01BG) c01Uni 12 4 c01BI).outcome :=
  C01_backward_implicit_entry c01BG c01Uni "main" 3 c01BG_implicit c01BG_main 12 c01BI c01B_typed_ne_oof

example : (tryParsePartial (gen c01BG) c01Uni 12 4 c01BI).outcome = specPartial c01BG c01Uni 12 "main" c01BI :=
  C01_agree_implicit_entry c01BG c01Uni "main" 3 c01BG_implicit c01BG_main 12 12 c01BI _ _ rfl rfl
    c01B_typed_ne_oof c01B_spec_ne_oof

example : (∃ k, (tryParsePartial (gen c01BG) c01Uni k 4 c01BI).outcome = .ok ⟨0, 11, [], []⟩ []) ↔
    (∃ n, specPartial c01BG c01Uni n "main" c01BI = .ok ⟨0, 11, [], []⟩ []) :=
  C01_iff_implicit_entry c01BG c01Uni "main" 3 c01BG_implicit c01BG_main c01BI _ (by nofun)

example : ∃ n', Rel (parse (gen c01BG) c01Uni n' true (genExpr c01BG .one (.ident "main")) c01BI ⟨[], Tracker.new c01BI⟩)
    (spec c01BG c01Uni 12 true (.ident "main") c01BI []) :=
  C01_forward_implicit c01BG c01Uni _ true (.ident "main") c01BG_implicit 12 c01BI []
    (by have := c01B_spec_main; unfold specPartial at this; rw [this]; nofun) true .one _ rfl

example : ∃ n0, ∀ n, n0 ≤ n → spec c01BG c01Uni n true (.ident "main") c01BI [] =
    (parse (gen c01BG) c01Uni 12 true (genExpr c01BG .one (.ident "main")) c01BI ⟨[], Tracker.new c01BI⟩).outcome :=
  C01_backward_implicit c01BG c01Uni _ true (.ident "main") c01BG_implicit 12 true .one c01BI [] _ rfl
    (by
      have h : genExpr c01BG .one (.ident "main") = .ref 4 .one := by simp only [genExpr, c01BG_main]
      have := c01B_typed_main
      unfold tryParsePartial M.init at this
      rw [h]
      intro h0; rw [h0] at this; cases this)

/-! ### the F-WS witnesses violate the weak hypothesis -/

/-- The witness of `C01_counterexample_F_WS` (`COMMENT = !{ "/" ~ "/" }`, used implicitly only) violates
the weak hypothesis too — a skip rule declared `!` runs with skipping ON inside in pest-typed even at
the implicit site — and the two sides do differ on it: the hypothesis cannot be dropped. -/
theorem C01_counterexample_F_WS_implicit :
    SkipRulesImplicitOnly c01WsG "main" = false ∧
    specPartial c01WsG c01Uni 5 "main" c01WsI = .fail ∧
    (tryParsePartial (gen c01WsG) c01Uni 15 3 c01WsI).outcome = .ok ⟨0, 5, [], []⟩ [] :=
  ⟨by decide, C01_counterexample_F_WS.2.1, C01_counterexample_F_WS.2.2⟩

/-- `WHITESPACE = _{ "a" ~ "b" }  r = { "x" ~ WHITESPACE }`: an EXPLICIT reference to a skip rule with a
sequence body from a non-atomic rule. -/
def c01ExG : PGrammar :=
  [ ⟨"WHITESPACE", .silent, .seq (.str ['a']) (.str ['b'])⟩,
    ⟨"r", .normal, .seq (.str ['x']) (.ident "WHITESPACE")⟩ ]

/-- The input `xaabb`. -/
def c01ExI : Inp := ⟨0, 0, ['x', 'a', 'a', 'b', 'b'], []⟩

set_option maxRecDepth 1000000 in
/-- The explicit reference violates the weak hypothesis, and the two sides differ: pest (atomic inside
WHITESPACE) rejects `xaabb` (`x`, skip fails to find `ab`, then `a` `b` needed: `a` `a`), pest-typed, which
skips inside the explicitly referenced WHITESPACE, accepts `x` · skip · `a` · skip · … . -/
theorem C01_counterexample_explicit_ref :
    SkipRulesImplicitOnly c01ExG "r" = false ∧
    specPartial c01ExG c01Uni 12 "r" c01ExI ≠
      (tryParsePartial (gen c01ExG) c01Uni 12 2 c01ExI).outcome := by
  have hgen : gen c01ExG =
      { rules := [eoiDef,
          { name := "WHITESPACE", atom := .inherited, emit := .expression, boxed := true,
            body := .seq .inh [.str ['a'], .str ['b']] },
          { name := "r", atom := .inherited, emit := .both, boxed := true,
            body := .seq .inh [.str ['x'], .ref 1 .inh] }],
        skipped := .atomicRepeat (.ref 1 .zero) } := by
    simp [gen, c01ExG, genRule, genExpr, genSeqSpine, genSkipped, PGrammar.indexOf, PGrammar.indexOf.go,
      kindAtomicity, kindEmission, atomFlag]
  refine ⟨by decide, ?_⟩
  rw [hgen]
  decide

end PestTyped
