/-
Props.C15More — additions to C15 answering the review (/verif/build/review/REVIEW.md, "C15"):

  "matched text on leaves: `dbgText` / `ruleName` are free parameters of `formatAsTree`; `C15_format`
   holds for a constant `dbgText`";  "`tokens`' catch-all arm would invent tokens for ill-formed
   values; no reachability lemma".

`write_tree_to` (`iterators.rs:148-164`) prints `"{indent}{rule:?} {text:?}\n"` on a token without
children, where `text = p.span.as_str()`, i.e. `&input[start..end]` printed with `<str as Debug>`.
Here `dbgTextOf uprint w tk = strDebug uprint (sliceOf w tk.s tk.e)` (`Lemmas/RustDebug.lean`,
`Lemmas/TokensMore.lean`): the slice of the whole input string `w` between the token's byte
offsets, escaped as Rust's `{:?}` escapes a `&str` (quotes; `\0 \t \r \n \\ \"`; NOT `'`;
`\u{hex}` for the other control characters and DEL; above ASCII the standard library's
printable / grapheme-extend tables are the parameter `uprint`).

* `C15_str_debug`             the escape table of `{:?}` on `&str`, character by character
* `C15_format_text`           for every successful `parse` from cursor `i` of the string
                              `w = pre ++ i.rest ++ i.after`, every token `t` of the result and every
                              pre-order visit `p` of `t`: the slice `&w[p.s..p.e]` exists (no panic, on
                              character boundaries), is the piece of `w` between the offsets, lies in
                              the range of the run; a childless token's line is
                              `indent ++ rule ++ " " ++ {:?} of that piece ++ "\n"`, any other token's
                              line `indent ++ rule ++ "\n"`; the rendering is these lines in pre-order
* `C15_format_text_tryParsePartial`, `C15_format_text_tryParse`   the same at the entry points
                              (no hypothesis on the state: it is `M.init`)
* `C15_tokens_total`          the token forest against the value, for every `Val`:
                              (sound) every token at any depth is the token of a non-silent rule value
                              that is visible in the value; (complete) every non-silent rule value
                              visible in the value has its token in the forest.  Visible = not below a
                              lookahead (`.pos` / `.neg`) and not below a non-silent rule whose `Pair`
                              impl has no children (`@`, `$`, `EOI`: `hasContentPairs = false`)
* `C15_tokens_catch_all`      the catch-all arm of `tokens` is reached exactly for the tags that are
                              neither a rule nor a lookahead, and forwards to the children; for a value
                              of `parse`, every sub-value whose tag is one whose Rust type has an EMPTY
                              `for_self_or_each_child` (`Tag.isLeaf`) has NO children, so there the arm
                              yields no token, as the Rust impl; a rule of emission `Span` has none either
-/
import PestTyped.Lemmas.TokensMore
import PestTyped.Lemmas.ResProj
namespace PestTyped
open RustDebug

/-! ### `{:?}` of a `&str` -/

/-- `<str as Debug>`: a `"`, every character escaped by `escape_debug_ext` with
`escape_double_quote` (and not `escape_single_quote`), a `"`.  The ASCII table in full;
above ASCII `uprint` decides between the character itself and `\u{hex}`. -/
theorem C15_str_debug (uprint : Char → Bool) (s : List Char) (c : Char) :
    strDebug uprint s = ['"'] ++ s.flatMap (escapeDebugExt uprint true false) ++ ['"'] ∧
    escapeDebugExt uprint true false '\x00' = ['\\', '0'] ∧
    escapeDebugExt uprint true false '\t' = ['\\', 't'] ∧
    escapeDebugExt uprint true false '\r' = ['\\', 'r'] ∧
    escapeDebugExt uprint true false '\n' = ['\\', 'n'] ∧
    escapeDebugExt uprint true false '\\' = ['\\', '\\'] ∧
    escapeDebugExt uprint true false '"' = ['\\', '"'] ∧
    escapeDebugExt uprint true false '\'' = ['\''] ∧
    (c ≠ '\x00' → c ≠ '\t' → c ≠ '\r' → c ≠ '\n' → c ≠ '\\' → c ≠ '"' →
      escapeDebugExt uprint true false c =
        if c.toNat < 128 then
          (if 0x20 ≤ c.toNat ∧ c.toNat ≠ 0x7f then [c]
           else ['\\', 'u', '{'] ++ Nat.toDigits 16 c.toNat ++ ['}'])
        else if uprint c then [c] else ['\\', 'u', '{'] ++ Nat.toDigits 16 c.toNat ++ ['}']) := by
  refine ⟨rfl, rfl, rfl, rfl, rfl, rfl, rfl, rfl, ?_⟩
  intro h0 h1 h2 h3 h4 h5
  simp [escapeDebugExt, h0, h1, h2, h3, h4, h5, escapePlain, escapeUnicode]

/-- `format!("{:?}", "a\"b'\n\\\u{1}\u{7f} ")` = `"a\"b'\n\\\u{1}\u{7f} "` (as rustc prints it). -/
example : strDebug (fun _ => true) ['a', '"', 'b', '\'', '\n', '\\', '\x01', '\x7f', ' '] =
    ['"', 'a', '\\', '"', 'b', '\'', '\\', 'n', '\\', '\\', '\\', 'u', '{', '1', '}',
     '\\', 'u', '{', '7', 'f', '}', ' ', '"'] := by decide
example : strDebug (fun c => c == '中') ['中', '̀'] =
    ['"', '中', '\\', 'u', '{', '3', '0', '0', '}', '"'] := by decide

/-! ### `format_as_tree` prints the matched text on leaves -/

/-- Every successful run of any node from a cursor `i` (at byte `blen pre` of the string
`w = pre ++ i.rest ++ i.after`) whose stack holds pieces of the input.  For every token `t` of the
result: `format_as_tree` is the lines of the pre-order visits; and for every visit `p`
* `&w[p.s..p.e]` does not panic and is `txt`, the piece of `w` between the two offsets, which
  lies between the cursors before and after the run;
* if the token has no children its line is `indent`, the rule, a space, `{:?}` of `txt`, LF;
* otherwise `indent`, the rule, LF. -/
theorem C15_format_text (g : NodeGrammar) (uni : Uni) (n : Nat) (inh : Bool) (node : Node)
    (i : Inp) (m : M) (i' : Inp) (m' : M) (v : Val)
    (h : parse g uni n inh node i m = .ok i' m' v) (hst : StkIn i m.stk)
    (pre : List Char) (hpre : blen pre = i.pos)
    (ruleName : RuleId → List Char) (uprint : Char → Bool) :
    let w := pre ++ i.rest ++ i.after
    ∀ t ∈ tokens g v,
      formatAsTree ruleName (dbgTextOf uprint w) t =
        ((preOrder t).map (writeTreeLine ruleName (dbgTextOf uprint w))).flatten ∧
      ∀ p ∈ preOrder t,
        ∃ a txt c, w = a ++ txt ++ c ∧ blen a = p.1.s ∧ p.1.s + blen txt = p.1.e ∧
          Text.slice w p.1.s p.1.e = .ok txt ∧ i.pos ≤ p.1.s ∧ p.1.e ≤ i'.pos ∧
          (p.1.kids = [] →
            writeTreeLine ruleName (dbgTextOf uprint w) p =
              indent p.2 ++ ruleName p.1.rule ++ [' '] ++ strDebug uprint txt ++ ['\n']) ∧
          (p.1.kids ≠ [] →
            writeTreeLine ruleName (dbgTextOf uprint w) p = indent p.2 ++ ruleName p.1.rule ++ ['\n']) := by
  intro w t ht
  refine ⟨rfl, ?_⟩
  intro p hp
  have hsp := parse_spans g uni i n inh node i m (Inp.Adv.refl i) hst
  rw [h] at hsp
  have hpieces := mem_of_mem_PiecesOfList (tokens_pieces g i v hsp.2) t ht
  rw [preOrder_eq_dfs] at hp
  obtain ⟨txt, hin⟩ := dfsAt_pieces i 0 t hpieces p hp
  have hval := Sp.In.span_valid hin pre hpre
  have hslice : Text.slice w p.1.s p.1.e = .ok txt := hval.2
  have hget : Text.getRange w p.1.s p.1.e = some txt := by
    unfold Text.slice at hslice
    cases hg : Text.getRange w p.1.s p.1.e with
    | none => rw [hg] at hslice; cases hslice
    | some x => rw [hg] at hslice; injection hslice with e; rw [e]
  obtain ⟨a, c, hw, ha, hb⟩ := Text.getRange_eq_some.mp hget
  have hw' := parse_nested g uni n inh node i m i' m' v h
  have hn := (Token.Nested.iff p.1 _ _).mp (Token.Nested.deep t i.pos i'.pos 0 (hw'.mem t ht) p hp)
  refine ⟨a, txt, c, hw, ha, hb, hslice, hn.1, hn.2.2.1, ?_, ?_⟩
  · intro hk
    simp [writeTreeLine, hk, dbgTextOf, sliceOf_of_slice hslice]
  · intro hk
    have : p.1.kids.isEmpty = false := by
      cases hkk : p.1.kids with
      | nil => exact absurd hkk hk
      | cons _ _ => rfl
    simp [writeTreeLine, this]

/-- Entry point `R::try_parse_partial(input)`: fresh state, nothing to assume. -/
theorem C15_format_text_tryParsePartial (g : NodeGrammar) (uni : Uni) (n : Nat) (r : RuleId)
    (i i' : Inp) (m' : M) (v : Val) (h : tryParsePartial g uni n r i = .ok i' m' v)
    (pre : List Char) (hpre : blen pre = i.pos)
    (ruleName : RuleId → List Char) (uprint : Char → Bool) :
    let w := pre ++ i.rest ++ i.after
    ∀ t ∈ tokens g v, ∀ p ∈ preOrder t,
      ∃ a txt c, w = a ++ txt ++ c ∧ blen a = p.1.s ∧ p.1.s + blen txt = p.1.e ∧
        Text.slice w p.1.s p.1.e = .ok txt ∧ i.pos ≤ p.1.s ∧ p.1.e ≤ i'.pos ∧
        (p.1.kids = [] →
          writeTreeLine ruleName (dbgTextOf uprint w) p =
            indent p.2 ++ ruleName p.1.rule ++ [' '] ++ strDebug uprint txt ++ ['\n']) ∧
        (p.1.kids ≠ [] →
          writeTreeLine ruleName (dbgTextOf uprint w) p = indent p.2 ++ ruleName p.1.rule ++ ['\n']) := by
  intro w t ht
  exact (C15_format_text g uni n true (.ref r .one) i (M.init i) i' m' v h (StkIn.nil _) pre hpre
    ruleName uprint t ht).2

/-- Entry point `R::try_parse(input)` (the value is the rule's; the cursor `i1` after the rule is
before the trailing skip and the end-of-input test). -/
theorem C15_format_text_tryParse (g : NodeGrammar) (uni : Uni) (n : Nat) (r : RuleId)
    (i i' : Inp) (m' : M) (v : Val) (h : tryParse g uni n r i = .ok i' m' v)
    (pre : List Char) (hpre : blen pre = i.pos)
    (ruleName : RuleId → List Char) (uprint : Char → Bool) :
    let w := pre ++ i.rest ++ i.after
    ∀ t ∈ tokens g v, ∀ p ∈ preOrder t,
      ∃ a txt c, w = a ++ txt ++ c ∧ blen a = p.1.s ∧ p.1.s + blen txt = p.1.e ∧
        Text.slice w p.1.s p.1.e = .ok txt ∧ i.pos ≤ p.1.s ∧
        (p.1.kids = [] →
          writeTreeLine ruleName (dbgTextOf uprint w) p =
            indent p.2 ++ ruleName p.1.rule ++ [' '] ++ strDebug uprint txt ++ ['\n']) ∧
        (p.1.kids ≠ [] →
          writeTreeLine ruleName (dbgTextOf uprint w) p = indent p.2 ++ ruleName p.1.rule ++ ['\n']) := by
  intro w t ht p hp
  obtain ⟨i1, m1, h1⟩ := tryParse_ok_parse h
  obtain ⟨a, txt, c, k1, k2, k3, k4, k5, _, k7, k8⟩ :=
    (C15_format_text g uni n true (.ref r .one) i (M.init i) i1 m1 v h1 (StkIn.nil _) pre hpre
      ruleName uprint t ht).2 p hp
  exact ⟨a, txt, c, k1, k2, k3, k4, k5, k7, k8⟩

/-- `a = { "x" ~ b }  b = { "\"" ~ "\n" }` on the string `zx"⏎!` from byte 1 (`pre = "z"`). -/
def c15mGrammar : NodeGrammar :=
  { rules := [
      { name := "EOI", atom := .inherited, emit := .both, boxed := false, body := .eoi },
      { name := "a", atom := .inherited, emit := .both, boxed := true,
        body := .seq .inh [.str ['x'], .ref 2 .inh] },
      { name := "b", atom := .inherited, emit := .both, boxed := true,
        body := .seq .inh [.str ['"'], .str ['\n']] }],
    skipped := .empty }

def c15mInput : Inp := { start := 1, pos := 1, rest := ['x', '"', '\n', '!'], after := [] }

def c15mName (r : RuleId) : List Char := if r = 1 then ['a'] else ['b']

def c15mOut : R Val → List (List Char)
  | .ok _ _ v => (tokens c15mGrammar v).map
      (formatAsTree c15mName (dbgTextOf (fun _ => true) (['z'] ++ c15mInput.rest ++ c15mInput.after)))
  | _ => []

/-- The rendering is `a⏎    b "\"\n"⏎`: the leaf carries the slice `[2, 4)` of `zx"⏎!`, escaped. -/
example : c15mOut (tryParsePartial c15mGrammar (fun _ _ => false) 10 1 c15mInput) =
    [['a', '\n', ' ', ' ', ' ', ' ', 'b', ' ', '"', '\\', '"', '\\', 'n', '"', '\n']] ∧
    blen ['z'] = c15mInput.pos ∧
    sliceOf (['z'] ++ c15mInput.rest ++ c15mInput.after) 2 4 = ['"', '\n'] := by decide

/-! ### the token tree against the value -/

/-- Soundness and completeness of `tokens` w.r.t. the value, for EVERY `Val`:
* every token of the forest, at any depth `p ∈ preOrder t`, `t ∈ tokens g v`, is `ruleToken` of a
  non-silent rule value `(.rule r emit _ s e, ks)` that is visible in `v`;
* conversely every non-silent rule value visible in `v` has its token somewhere in the forest.
`VisibleIn`: reachable from `v` through children without passing below a tag that `hidesKids`:
`.pos`, `.neg`, or a non-silent rule with `hasContentPairs = false` (atomic `@` / `$` rules, `EOI`). -/
theorem C15_tokens_total (g : NodeGrammar) (v : Val) :
    (∀ t ∈ tokens g v, ∀ p ∈ preOrder t,
      ∃ r emit bx s e ks, Val.VisibleIn g (.mk (.rule r emit bx s e) ks) v ∧ emit ≠ .expression ∧
        p.1 = ruleToken g r s e ks) ∧
    (∀ r emit bx s e ks, Val.VisibleIn g (.mk (.rule r emit bx s e) ks) v → emit ≠ .expression →
      ∃ t ∈ tokens g v, ∃ p ∈ preOrder t, p.1 = ruleToken g r s e ks) ∧
    (∀ r s e ks, ruleToken g r s e ks = .mk r s e (if hasContentPairs g r then tokensList g ks else [])) := by
  refine ⟨?_, ?_, fun _ _ _ _ => rfl⟩
  · intro t ht p hp
    rw [preOrder_eq_dfs] at hp
    apply tokens_sound g v 0 p
    -- `p` is in the depth-first enumeration of the forest
    have : ∀ L : List Token, t ∈ L → p ∈ dfsListAt 0 L := by
      intro L
      induction L with
      | nil => intro h; cases h
      | cons x xs ih =>
        intro h
        simp only [dfsListAt, List.mem_append]
        rcases List.mem_cons.mp h with rfl | h
        · exact Or.inl hp
        · exact Or.inr (ih h)
    exact this _ ht
  · intro r emit bx s e ks hv hemit
    obtain ⟨p, hp, hpe⟩ := visible_rule_token g hv r emit bx s e ks rfl hemit 0
    have : ∀ L : List Token, p ∈ dfsListAt 0 L → ∃ t ∈ L, p ∈ dfsAt 0 t := by
      intro L
      induction L with
      | nil => intro h; simp [dfsListAt] at h
      | cons x xs ih =>
        intro h
        simp only [dfsListAt, List.mem_append] at h
        rcases h with h | h
        · exact ⟨x, by simp, h⟩
        · obtain ⟨t, ht, hpt⟩ := ih h
          exact ⟨t, by simp [ht], hpt⟩
    obtain ⟨t, ht, hpt⟩ := this _ hp
    exact ⟨t, ht, p, by rw [preOrder_eq_dfs]; exact hpt, hpe⟩

/-- In `c15Grammar`-like values: the `b` under the lookahead and the content of the atomic `c` are
not visible, everything else is a token.  Here: `a = { &b ~ b }`, `b = @{ c }`, `c = { "z" }`. -/
def c15mVal : Val :=
  .mk (.rule 1 .both true 0 1) [.mk .seq [
    .mk (.skipped 0) [.mk .pos [.mk (.rule 2 .both true 0 1) [.mk (.rule 3 .both true 0 1) [.leaf .str]]]],
    .mk (.skipped 0) [.mk (.rule 2 .both true 0 1) [.mk (.rule 3 .both true 0 1) [.leaf .str]]]]]

def c15mG2 : NodeGrammar :=
  { rules := [
      { name := "EOI", atom := .inherited, emit := .both, boxed := false, body := .eoi },
      { name := "a", atom := .inherited, emit := .both, boxed := true,
        body := .seq .inh [.pos (.ref 2 .inh), .ref 2 .inh] },
      { name := "b", atom := .atomic, emit := .both, boxed := true, body := .ref 3 .inh },
      { name := "c", atom := .inherited, emit := .both, boxed := true, body := .str ['z'] }],
    skipped := .empty }

example : tokens c15mG2 c15mVal = [.mk 1 0 1 [.mk 2 0 1 []]] := by decide
example : Val.VisibleIn c15mG2 (.mk (.rule 2 .both true 0 1) [.mk (.rule 3 .both true 0 1) [.leaf .str]]) c15mVal :=
  .kid rfl (List.mem_singleton.mpr rfl) (.kid rfl (List.mem_cons_of_mem _ (List.mem_singleton.mpr rfl))
    (.kid rfl (List.mem_singleton.mpr rfl) (.refl _)))
example : (parse c15mG2 (fun _ _ => false) 10 false (.ref 1 .inh) ⟨0, 0, ['z'], []⟩ (M.init ⟨0, 0, ['z'], []⟩)).okPos? =
    some 1 := by decide

/-- The catch-all arm of `tokens`:
* it is the arm of exactly the tags that are neither a rule nor a lookahead, and it forwards to
  the children (as `impl_forward_inner!`, the tuple / array / `Option` / `Skipped` / `Vec` impls);
* in a value produced by `parse`, every sub-value (at any depth) whose tag is a leaf tag — the
  types with an empty `for_self_or_each_child` — has NO children, and so yields no token;
  likewise a rule value of emission `Span` has no content. -/
theorem C15_tokens_catch_all (g : NodeGrammar) (uni : Uni) (n : Nat) (inh : Bool) (node : Node)
    (i : Inp) (m : M) (i' : Inp) (m' : M) (v : Val)
    (h : parse g uni n inh node i m = .ok i' m' v) :
    (∀ t kids, (∀ r em bx s e, t ≠ .rule r em bx s e) → t ≠ .pos → t ≠ .neg →
      tokens g (.mk t kids) = tokensList g kids) ∧
    (∀ t kids, Val.SubVal (.mk t kids) v → t.isLeaf = true → kids = [] ∧ tokens g (.mk t kids) = []) ∧
    (∀ r bx s e kids, Val.SubVal (.mk (.rule r .span bx s e) kids) v → kids = []) := by
  have hty := parse_typed g uni n inh node i m
  rw [h] at hty
  refine ⟨tokens_catch_all g, ?_, ?_⟩
  · intro t kids hsub hleaf
    obtain ⟨ty', hty'⟩ := hsub.typed _ hty
    have hk := hty'.shape.2 (Or.inl hleaf)
    subst hk
    refine ⟨rfl, ?_⟩
    rw [tokens_catch_all g t [] (by intro r em bx s e he; subst he; simp [Tag.isLeaf] at hleaf)
      (by intro he; subst he; simp [Tag.isLeaf] at hleaf)
      (by intro he; subst he; simp [Tag.isLeaf] at hleaf)]
    rfl
  · intro r bx s e kids hsub
    obtain ⟨ty', hty'⟩ := hsub.typed _ hty
    exact hty'.shape.2 (Or.inr ⟨r, bx, s, e, rfl⟩)

/-- The arm WOULD forward on an ill-formed value (a `Str` with a child), which `parse` never builds. -/
example : tokens c15mG2 (.mk .str [.mk (.rule 3 .both true 0 1) [.leaf .str]]) = [.mk 3 0 1 []] := by decide

end PestTyped
