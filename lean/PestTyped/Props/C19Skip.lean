/-
Props.C19Skip — C19, the clause "never consumes a skip that is not followed by a matched iteration",
at full strength, and the text-level clause "match exactly the concatenation they denote".

`C19_no_dangling_skip` (Props/C19.lean) says the returned cursor is the end cursor of SOME
successful run of the element from an unconstrained state; here the state is the one the run itself
reached:

* `C19_no_dangling_skip_strong` — a successful `.rep sk min max x` with values `vs` either matched
  nothing (`vs = []`, cursor and stack untouched) or `vs = vs0 ++ [a]` and: the first `vs0.length`
  iterations lead from the entry state `(i, m)` to `(iP, mP)` (`RepIters`, index 0); from there the
  implicit skips of the last iteration run to `(iS, mS)` (none for the very first iteration); the
  element `x` run from `(iS, mS)` ends EXACTLY at the returned cursor `i'` (state `mb`); the
  returned stack is `mb.stk`; and the loop stopped there (`RepStop` at `(i', mb)`): whatever the
  attempt after the last match consumed — its skip included — was given back.
* `C19_concat` (`.rep`), `C19_concat_array`, `C19_concat_pair`, `C19_concat_seq` — with
  `consumedText i i'` the text `t` such that `i.rest = t ++ i'.rest` (`Lemmas/Consumed.lean`): the
  text consumed by a successful repetition / array / pair / sequence is the concatenation, in
  order, of the texts consumed by its skips and its elements, each of these being the text consumed
  by the very sub-run recorded in the trace (`RepRun` / `ArrayTexts` / `SeqRunAll`); byte offsets
  follow (`i'.pos = i.pos + blen …`).
* `C19_concat_check` — the check path consumes the same text.
-/
import PestTyped.Lemmas.Consumed
import PestTyped.Props.C19
namespace PestTyped

/-! ### no dangling skip -/

/-- See the header.  Every grammar, fuel, flag, bounds, element, cursor and state. -/
theorem C19_no_dangling_skip_strong (g : NodeGrammar) (uni : Uni) (fuel : Nat) (inh : Bool) (sk : Flag)
    (min : Nat) (max : Option Nat) (x : Node) (i : Inp) (m : M) (i' : Inp) (m' : M) (vs : List Val)
    (h : parse g uni (fuel+1) inh (.rep sk min max x) i m = .ok i' m' (.mk (.rep min max) vs)) :
    (vs = [] ∧ i' = i ∧ m'.stk = m.stk) ∨
    (∃ vs0 a iP mP iS mS mb skv v,
      vs = vs0 ++ [a] ∧
      RepIters (parseRepUnit g uni fuel inh sk x) max 0 i m iP mP vs0 ∧
      ((vs0 = [] ∧ iP = i ∧ mP = m ∧ iS = iP ∧ mS = mP ∧
          skv = List.replicate (skipCount sk inh) (defaultSkipVal g)) ∨
       (vs0 ≠ [] ∧
          skipLoop (parse g uni fuel false g.skipped) (skipCount sk inh) iP mP [] = .ok iS mS skv)) ∧
      parse g uni fuel inh x iS mS = .ok i' mb v ∧
      a = mkSkipped skv v ∧
      m'.stk = mb.stk ∧
      RepStop (parseRepUnit g uni fuel inh sk x) max vs.length i' mb m' ∧
      i.Adv iP ∧ iP.Adv iS ∧ iS.Adv i') := by
  obtain ⟨vs', m1, e, hI, hS, _, _⟩ := (parse_rep_ok_iff g uni fuel inh sk min max x i m i' m' _).mp h
  injection e with _ e; subst e
  rcases List.eq_nil_or_concat vs with rfl | ⟨vs0, a, hvs⟩
  · obtain ⟨rfl, rfl⟩ := hI.nil_inv
    exact Or.inl ⟨rfl, rfl, hS.stk⟩
  · right
    rw [List.concat_eq_append] at hvs
    subst hvs
    obtain ⟨iP, mP, hI0, _, hU⟩ := RepIters.snoc_inv vs0 hI
    simp only [Nat.zero_add] at hU
    have hadv0 : i.Adv iP := hI0.adv (parseRepUnit_adv g uni fuel inh sk x)
    have hbody := parse_adv g uni fuel inh x
    unfold parseRepUnit at hU
    rcases (repUnitP_ok_iff _ _ _ _ _ _ _ _ _ _).mp hU with ⟨h0, v0, hb, hv⟩ | ⟨h0, iS, mS, skv, v0, hs, hb, hv⟩
    · have hnil : vs0 = [] := List.eq_nil_of_length_eq_zero h0
      subst hnil
      obtain ⟨rfl, rfl⟩ := hI0.nil_inv
      exact ⟨[], a, iP, mP, iP, mP, m1, _, v0, rfl, hI0, Or.inl ⟨rfl, rfl, rfl, rfl, rfl, rfl⟩, hb, hv,
        hS.stk, hS, hadv0, Inp.Adv.refl _, hbody _ _ _ _ _ hb⟩
    · have hne : vs0 ≠ [] := by intro e; rw [e] at h0; exact h0 rfl
      exact ⟨vs0, a, iP, mP, iS, mS, m1, skv, v0, rfl, hI0, Or.inr ⟨hne, hs⟩, hb, hv, hS.stk, hS, hadv0,
        skipLoop_adv _ (parse_adv g uni fuel false g.skipped) _ _ _ _ _ _ _ hs, hbody _ _ _ _ _ hb⟩

/-- `"a"{1,3}` on `"a a b"`: two iterations; the last element run starts at 2 (after the blank the
skip consumed) and ends at 3, which is the returned cursor — not 4, where the skip of the third,
failed, attempt ended. -/
example : ∃ vs0 a iP mP iS mS mb skv v i' m',
    c19Run c19Rep13 c19aab = .ok i' m' (.mk (.rep 1 (some 3)) (vs0 ++ [a])) ∧ vs0.length = 1 ∧
    skipLoop (parse c19Grammar c19Uni 7 false c19Grammar.skipped) 1 iP mP [] = .ok iS mS skv ∧
    parse c19Grammar c19Uni 7 true (.str ['a']) iS mS = .ok i' mb v ∧
    iP.pos = 1 ∧ iS.pos = 2 ∧ i'.pos = 3 := by
  have hrun : ∃ i' m' vs, c19Run c19Rep13 c19aab = .ok i' m' (.mk (.rep 1 (some 3)) vs) ∧ vs.length = 2 ∧
      i'.pos = 3 := ⟨_, _, _, rfl, rfl, rfl⟩
  obtain ⟨i', m', vs, hr, hl, hp⟩ := hrun
  rcases C19_no_dangling_skip_strong _ _ _ _ _ _ _ _ _ _ _ _ _ hr with ⟨rfl, _⟩ |
    ⟨vs0, a, iP, mP, iS, mS, mb, skv, v, rfl, hI, hsk, hb, _, _, _, _, _, _⟩
  · cases hl
  · have hl0 : vs0.length = 1 := by simpa using hl
    rcases hsk with ⟨rfl, _⟩ | ⟨_, hs⟩
    · cases hl0
    · -- the prefix is the first iteration: `"a"` from 0 to 1
      match vs0, hl0, hI with
      | [b], _, hI =>
        cases hI with
        | cons _ hu hrest =>
          obtain ⟨rfl, rfl⟩ := hrest.nil_inv
          have hu' : parseRepUnit c19Grammar c19Uni 7 true .one (.str ['a']) 0 (c19In c19aab) (c19M c19aab) =
              .ok ((c19In c19aab).adv 1) (c19M c19aab) (mkSkipped [defaultSkipVal c19Grammar] (.leaf .str)) := rfl
          rw [hu'] at hu
          injection hu with e1 e2 _
          subst e1; subst e2
          have hs' : skipLoop (parse c19Grammar c19Uni 7 false c19Grammar.skipped) 1 ((c19In c19aab).adv 1)
              (c19M c19aab) [] = .ok ((c19In c19aab).adv 2) (c19M c19aab) [.mk .atomicRepeat [.mk (.rule 2 .expression true 1 2) [.leaf .str]]] := rfl
          rw [show skipCount Flag.one true = 1 from rfl, hs'] at hs
          injection hs with e1 e2 _
          subst e1; subst e2
          exact ⟨_, _, _, _, _, _, _, _, _, _, _, hr, rfl, hs', hb, rfl, rfl, hp⟩

/-! ### consumed text -/

/-- `.rep`: the run is tiled by its iterations `l` (`RepRun`: iteration 0 without skip, every later
one = the implicit skips from `it.start` to `it.mid`, then the element from `it.mid` to `it.stop`);
the text consumed is the concatenation, in order, of skip text and element text of every
iteration, and nothing else (in particular not the skip of a failed last attempt). -/
theorem C19_concat (g : NodeGrammar) (uni : Uni) (fuel : Nat) (inh : Bool) (sk : Flag) (min : Nat)
    (max : Option Nat) (x : Node) (i : Inp) (m : M) (i' : Inp) (m' : M) (w : Val)
    (h : parse g uni (fuel+1) inh (.rep sk min max x) i m = .ok i' m' w) :
    ∃ l mL,
      RepRun (skipRuns (parse g uni fuel false g.skipped) (skipCount sk inh)) (parse g uni fuel inh x)
        (List.replicate (skipCount sk inh) (defaultSkipVal g)) 0 i m l i' mL ∧
      w = .mk (.rep min max) (l.map Iter.val) ∧ m'.stk = mL.stk ∧
      consumedText i i' = (l.map Iter.text).flatten ∧
      i.rest = (l.map Iter.text).flatten ++ i'.rest ∧
      i'.pos = i.pos + blen (l.map Iter.text).flatten ∧
      (∀ it, it ∈ l → it.start.rest = it.skipText ++ it.mid.rest ∧ it.mid.rest = it.elemText ++ it.stop.rest) := by
  obtain ⟨l, mL, hr, hstk, hw, _, _, _⟩ := parse_rep_run g uni fuel inh sk min max x i m i' m' w h
  have hsA : AdvFn (skipRuns (parse g uni fuel false g.skipped) (skipCount sk inh)) :=
    fun i m i' m' a hh => skipLoop_adv _ (parse_adv g uni fuel false g.skipped) _ _ _ _ _ _ _ hh
  obtain ⟨_, hall, _⟩ := hr.order hsA (parse_adv g uni fuel inh x)
  obtain ⟨ha, hc⟩ := hr.linked.concat (fun it hit => ⟨(hall it hit).2.1, (hall it hit).2.2.1⟩)
  refine ⟨l, mL, hr, hw, hstk, hc, ?_, ?_, ?_⟩
  · rw [← hc]; exact ha.rest_eq
  · rw [← hc]; exact ha.pos_eq
  · intro it hit
    exact ⟨(hall it hit).2.1.rest_eq, (hall it hit).2.2.1.rest_eq⟩

/-- `"a"{1,3}` on `"a a b"` consumes `"a a"`; on `"a a a a"` it consumes `"a a a"` (stops at `MAX`). -/
example : (c19Run c19Rep13 c19aab).cur?.map (consumedText (c19In c19aab)) = some ['a', ' ', 'a'] ∧
    (c19Run c19Rep13 c19aaaa).cur?.map (consumedText (c19In c19aaaa)) = some ['a', ' ', 'a', ' ', 'a'] := by
  decide

/-- `[T; k]`: the text consumed is the concatenation of the `k` texts consumed by the `k` element
runs, each started where the previous one ended. -/
theorem C19_concat_array (g : NodeGrammar) (uni : Uni) (fuel : Nat) (inh : Bool) (k : Nat) (x : Node)
    (i : Inp) (m : M) (i' : Inp) (m' : M) (w : Val)
    (h : parse g uni (fuel+1) inh (.array k x) i m = .ok i' m' w) :
    ∃ vs ts, w = .mk .array vs ∧ vs.length = k ∧ ts.length = k ∧
      ArrayTexts (parse g uni fuel inh x) i m i' m' vs ts ∧
      consumedText i i' = ts.flatten ∧ i.rest = ts.flatten ++ i'.rest ∧ i'.pos = i.pos + blen ts.flatten := by
  obtain ⟨vs, hw, hl, hC⟩ := (C19_array_ok_iff g uni fuel inh k x i m i' m' w).mp h
  obtain ⟨ts, hT, ha, hc⟩ := hC.texts (parse_adv g uni fuel inh x)
  refine ⟨vs, ts, hw, hl, by rw [hT.length, hl], hT, hc, ?_, ?_⟩
  · rw [← hc]; exact ha.rest_eq
  · rw [← hc]; exact ha.pos_eq

example : (c19Run (.array 2 (.str ['a', ' '])) c19aaaa).cur?.map (consumedText (c19In c19aaaa)) =
    some (([['a', ' '], ['a', ' ']] : List (List Char)).flatten) := by decide

/-- `(T1, T2)`: the text of `a`, then the text of `b`. -/
theorem C19_concat_pair (g : NodeGrammar) (uni : Uni) (fuel : Nat) (inh : Bool) (a b : Node)
    (i : Inp) (m : M) (i'' : Inp) (m'' : M) (w : Val)
    (h : parse g uni (fuel+1) inh (.pair a b) i m = .ok i'' m'' w) :
    ∃ i' m' va vb, parse g uni fuel inh a i m = .ok i' m' va ∧ parse g uni fuel inh b i' m' = .ok i'' m'' vb ∧
      w = .mk .pair [va, vb] ∧
      consumedText i i'' = consumedText i i' ++ consumedText i' i'' ∧
      i.rest = consumedText i i' ++ consumedText i' i'' ++ i''.rest ∧
      i''.pos = i.pos + blen (consumedText i i') + blen (consumedText i' i'') := by
  obtain ⟨i', m', va, vb, ha, hb, hw⟩ := (C19_pair_ok_iff g uni fuel inh a b i m i'' m'' w).mp h
  have a1 := parse_adv g uni fuel inh a _ _ _ _ _ ha
  have a2 := parse_adv g uni fuel inh b _ _ _ _ _ hb
  have hc := consumedText_trans a1 a2
  refine ⟨i', m', va, vb, ha, hb, hw, hc, ?_, ?_⟩
  · rw [← hc]; exact (a1.trans a2).rest_eq
  · rw [a2.pos_eq, a1.pos_eq]

example : (c19Run (.pair (.str ['a']) (.str [' ', 'a'])) c19aaaa).cur?.map (consumedText (c19In c19aaaa)) =
    some (['a'] ++ [' ', 'a']) := by decide

/-- `SeqN`: the first element, then for every further element its implicit skips and the element. -/
theorem C19_concat_seq (g : NodeGrammar) (uni : Uni) (fuel : Nat) (inh : Bool) (sk : Flag) (items : List Node)
    (i : Inp) (m : M) (i' : Inp) (m' : M) (w : Val)
    (h : parse g uni (fuel+1) inh (.seq sk items) i m = .ok i' m' w) :
    ∃ l, SeqRunAll (parse g uni fuel inh) (skipRuns (parse g uni fuel false g.skipped) (skipCount sk inh))
        (List.replicate (skipCount sk inh) (defaultSkipVal g)) items i m l i' m' ∧
      w = .mk .seq (l.map Iter.val) ∧ l.length = items.length ∧
      consumedText i i' = (l.map Iter.text).flatten ∧
      i.rest = (l.map Iter.text).flatten ++ i'.rest ∧
      i'.pos = i.pos + blen (l.map Iter.text).flatten := by
  obtain ⟨l, hr, hw⟩ := (parse_seq_run_iff g uni fuel inh sk items i m i' m' w).mp h
  have hsA : AdvFn (skipRuns (parse g uni fuel false g.skipped) (skipCount sk inh)) :=
    fun i m i' m' a hh => skipLoop_adv _ (parse_adv g uni fuel false g.skipped) _ _ _ _ _ _ _ hh
  have hall : ∀ it, it ∈ l → it.start.Adv it.mid ∧ it.mid.Adv it.stop := by
    cases hr with
    | nil => intro it hit; cases hit
    | cons h1 h2 =>
      obtain ⟨_, hall, _⟩ := h2.order (parse_adv g uni fuel inh) hsA
      intro it hit
      cases hit with
      | head => exact ⟨Inp.Adv.refl _, parse_adv g uni fuel inh _ _ _ _ _ _ h1⟩
      | tail _ hit => exact ⟨(hall it hit).2.1, (hall it hit).2.2.1⟩
  obtain ⟨ha, hc⟩ := hr.linked.concat hall
  refine ⟨l, hr, hw, hr.length, hc, ?_, ?_⟩
  · rw [← hc]; exact ha.rest_eq
  · rw [← hc]; exact ha.pos_eq

example : (c19Run (.seq .one [.str ['a'], .str ['a'], .str ['b']]) c19aab).cur?.map
    (consumedText (c19In c19aab)) = some (['a'] ++ ([' '] ++ ['a']) ++ ([' '] ++ ['b'])) := by decide

/-- The check path consumes the same text as the parse path (any node). -/
theorem C19_concat_check (g : NodeGrammar) (uni : Uni) (n : Nat) (inh : Bool) (node : Node) (i : Inp) (m : M)
    (i' : Inp) (m' : M) (h : check g uni n inh node i m = .ok i' m' ()) :
    (∃ v, parse g uni n inh node i m = .ok i' m' v) ∧ i.rest = consumedText i i' ++ i'.rest ∧
      i'.pos = i.pos + blen (consumedText i i') := by
  obtain ⟨v, hv⟩ := (check_ok_iff g uni n inh node i m i' m').mp h
  have ha := parse_adv g uni n inh node _ _ _ _ _ hv
  exact ⟨⟨v, hv⟩, ha.rest_eq, ha.pos_eq⟩

example : (check c19Grammar c19Uni 8 true c19Rep13 (c19In c19aab) (c19M c19aab)).cur?.map
    (consumedText (c19In c19aab)) = some ['a', ' ', 'a'] := by decide

end PestTyped
