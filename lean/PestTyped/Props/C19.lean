/-
Props.C19 — Counted repetition and the raw combinators obey their stated bounds.

Property (properties.jsonl, C19): used directly from the runtime crate, a bounded repetition matches
greedily, yields between MIN and MAX elements, fails exactly when fewer than MIN iterations match,
never consumes a skip that is not followed by a matched iteration, and stops at MAX even if more
could match; fixed arrays, pairs, optionals, skip-n-chars and the skip-repeat node match exactly the
concatenation they denote.  Parse and check agree for all of them.

Model: `.rep sk min max x` (`RepeatMin` for `max = none`, `RepeatMinMax` for `max = some MAX`),
`.array`, `.pair`, `.opt`, `.skipChars`, `.atomicRepeat` of `Model.Run`.  All theorems hold for every
grammar `g`, unicode table `uni`, fuel, inherited-atomicity flag `inh`, node `x`, cursor `i : Inp`
(covers &str / Position / Span) and state `m : M` (any stack, any tracker); no hypothesis `min ≤ max`.

The repetition is described by `RepIters U max 0 i m i' m1 vs` (`Lemmas/RepLoop.lean`: iterations
`0 … vs.length-1` of the unit `U = parseRepUnit …` succeed, each from the state the previous one
left, values `vs`, final state `(i', m1)`) and `RepStop U max k i' m1 m'` (iteration `k` is `MAX`, or
the unit fails there and its stack effects are undone).

Theorems
* `C19_rep_ok_iff`, `C19_rep_fail_iff` (= `C19_fail_iff`): exact characterisation of the results.
* `C19_rep_value_shape`, `C19_count`, `C19_min_gt_max_fails`, `C19_greedy`, `C19_unit_fail_iff`,
  `C19_stops_at_max`, `C19_fail_lt_min`, `C19_no_fail_after_min`, `C19_no_dangling_skip`,
  `C19_rep_adv`.
* `C19_array_ok_iff`, `C19_array_fail_iff`, `C19_pair_ok_iff`, `C19_pair_fail_iff`, `C19_opt_ok_iff`,
  `C19_opt_ne_fail`, `C19_skipChars_ok_iff`, `C19_skipChars_fail_iff`, `C19_atomicRepeat_ok_iff`,
  `C19_atomicRepeat_ne_fail`.
* `C19_check`, `C19_check_rep_ok_iff`, `C19_check_rep_fail_iff`, `C19_check_count_agree`.
-/
import PestTyped.Lemmas.RepLoop
import PestTyped.Model.Gen
namespace PestTyped

/-! ### the concrete instances used for non-vacuity -/

/-- `r = { "a"{1,3} }  WHITESPACE = _{ " " }` as written by hand from the runtime generics. -/
def c19Grammar : NodeGrammar :=
  { rules := [eoiDef,
      { name := "r", atom := .nonAtomic, emit := .both, boxed := true,
        body := .rep .one 1 (some 3) (.str ['a']) },
      { name := "WHITESPACE", atom := .inherited, emit := .expression, boxed := true,
        body := .str [' '] }],
    skipped := .atomicRepeat (.ref 2 .zero) }

def c19Uni : Uni := fun _ _ => false
def c19In (s : List Char) : Inp := { start := 0, pos := 0, rest := s, after := [] }
def c19M (s : List Char) : M := M.init (c19In s)

/-- `"a"{1,3}` with implicit whitespace between iterations. -/
def c19Rep13 : Node := .rep .one 1 (some 3) (.str ['a'])
/-- `"a"{2,}`. -/
def c19Rep2 : Node := .rep .one 2 none (.str ['a'])
/-- `RepMinMax<_, 3, 1>`: MIN > MAX. -/
def c19Rep31 : Node := .rep .one 3 (some 1) (.str ['a'])

def c19aaaa : List Char := ['a', ' ', 'a', ' ', 'a', ' ', 'a']
def c19aab : List Char := ['a', ' ', 'a', ' ', 'b']
def c19ab : List Char := ['a', ' ', 'b']

def c19Run (n : Node) (s : List Char) : R Val := parse c19Grammar c19Uni 8 true n (c19In s) (c19M s)

/-! ### `.rep`: exact characterisation -/

/-- A repetition succeeds with value `v` at `(i', m')` iff `v` holds the values `vs` of a maximal
run of successful iterations `0 … vs.length-1`, which left `(i', m1)`, the loop stopped there
(`MAX` reached, or iteration `vs.length` failed and was undone: `m'` is `m1` with the tracker of the
failed attempt), and at least `MIN` iterations matched.  (`vs.length < fuel`: the iteration budget
of the model.) -/
theorem C19_rep_ok_iff (g : NodeGrammar) (uni : Uni) (fuel : Nat) (inh : Bool) (sk : Flag)
    (min : Nat) (max : Option Nat) (x : Node) (i : Inp) (m : M) (i' : Inp) (m' : M) (v : Val) :
    parse g uni (fuel+1) inh (.rep sk min max x) i m = .ok i' m' v ↔
      ∃ vs m1, v = .mk (.rep min max) vs ∧
        RepIters (parseRepUnit g uni fuel inh sk x) max 0 i m i' m1 vs ∧
        RepStop (parseRepUnit g uni fuel inh sk x) max vs.length i' m1 m' ∧
        min ≤ vs.length ∧ vs.length < fuel :=
  parse_rep_ok_iff g uni fuel inh sk min max x i m i' m' v

example : (c19Run c19Rep13 c19aaaa).okPos? = some 5 ∧ (c19Run c19Rep13 c19aaaa).nKids? = some 3 := by decide

/-- `C19_fail_iff`: the repetition fails iff a maximal run of successful iterations is shorter than
`MIN` — it stopped before `MIN` because the unit failed there or because `MAX < MIN` was reached. -/
theorem C19_rep_fail_iff (g : NodeGrammar) (uni : Uni) (fuel : Nat) (inh : Bool) (sk : Flag)
    (min : Nat) (max : Option Nat) (x : Node) (i : Inp) (m : M) (m' : M) :
    parse g uni (fuel+1) inh (.rep sk min max x) i m = .fail m' ↔
      ∃ vs i1 m1,
        RepIters (parseRepUnit g uni fuel inh sk x) max 0 i m i1 m1 vs ∧
        RepStop (parseRepUnit g uni fuel inh sk x) max vs.length i1 m1 m' ∧
        vs.length < min ∧ vs.length < fuel :=
  parse_rep_fail_iff g uni fuel inh sk min max x i m m'

example : (c19Run c19Rep2 c19ab).isFail = true := by decide
example : (c19Run c19Rep2 c19aab).okPos? = some 3 := by decide

/-- The value of a successful repetition is a `.rep min max` node. -/
theorem C19_rep_value_shape (g : NodeGrammar) (uni : Uni) (fuel : Nat) (inh : Bool) (sk : Flag)
    (min : Nat) (max : Option Nat) (x : Node) (i : Inp) (m : M) (i' : Inp) (m' : M) (v : Val)
    (h : parse g uni fuel inh (.rep sk min max x) i m = .ok i' m' v) :
    ∃ vs, v = .mk (.rep min max) vs := by
  cases fuel with
  | zero => simp [parse] at h
  | succ fuel =>
    obtain ⟨vs, _, rfl, _⟩ := (parse_rep_ok_iff g uni fuel inh sk min max x i m i' m' v).mp h
    exact ⟨vs, rfl⟩

example : (c19Run c19Rep13 c19aaaa).isOk = true := by decide

/-! ### bounds -/

/-- Between `MIN` and `MAX` elements — without assuming `MIN ≤ MAX`. -/
theorem C19_count (g : NodeGrammar) (uni : Uni) (fuel : Nat) (inh : Bool) (sk : Flag)
    (min : Nat) (max : Option Nat) (x : Node) (i : Inp) (m : M) (i' : Inp) (m' : M) (vs : List Val)
    (h : parse g uni fuel inh (.rep sk min max x) i m = .ok i' m' (.mk (.rep min max) vs)) :
    min ≤ vs.length ∧ ∀ M, max = some M → vs.length ≤ M := by
  cases fuel with
  | zero => simp [parse] at h
  | succ fuel =>
    obtain ⟨vs', m1, e, hI, _, hmin, _⟩ := (parse_rep_ok_iff g uni fuel inh sk min max x i m i' m' _).mp h
    injection e with _ e; subst e
    refine ⟨hmin, fun M hM => ?_⟩
    simpa using hI.max_bound M hM (Nat.zero_le _)

example : (c19Run c19Rep13 c19aaaa).nKids? = some 3 := by decide
example : (c19Run c19Rep13 c19ab).nKids? = some 1 := by decide

/-- With `MAX < MIN` the repetition never succeeds: it fails (or the model runs out of fuel). -/
theorem C19_min_gt_max_fails (g : NodeGrammar) (uni : Uni) (fuel : Nat) (inh : Bool) (sk : Flag)
    (min mx : Nat) (x : Node) (i : Inp) (m : M) (hlt : mx < min) :
    parse g uni fuel inh (.rep sk min (some mx) x) i m = .oof ∨
      ∃ m', parse g uni fuel inh (.rep sk min (some mx) x) i m = .fail m' := by
  cases h : parse g uni fuel inh (.rep sk min (some mx) x) i m with
  | oof => exact Or.inl rfl
  | fail m' => exact Or.inr ⟨m', rfl⟩
  | ok i' m' v =>
    obtain ⟨vs, rfl⟩ := C19_rep_value_shape g uni fuel inh sk min (some mx) x i m i' m' v h
    have := C19_count g uni fuel inh sk min (some mx) x i m i' m' vs h
    have h2 := this.2 mx rfl
    omega

/-- `RepMinMax<"a", 3, 1>` on `"a a a a"`: one iteration matches, MAX stops the loop, the result is a
failure (before the repair it was a success with one element). -/
example : (c19Run c19Rep31 c19aaaa).isFail = true := by decide

/-- The unit of the repetition fails iff its element fails — directly for iteration 0, after the
implicit skips otherwise (the skip type itself never fails in generated code). -/
theorem C19_unit_fail_iff (g : NodeGrammar) (uni : Uni) (fuel : Nat) (inh : Bool) (sk : Flag) (x : Node)
    (idx : Nat) (i : Inp) (m m' : M) :
    parseRepUnit g uni fuel inh sk x idx i m = .fail m' ↔
      (idx = 0 ∧ parse g uni fuel inh x i m = .fail m') ∨
      (idx ≠ 0 ∧ (skipLoop (parse g uni fuel false g.skipped) (skipCount sk inh) i m [] = .fail m' ∨
        ∃ i1 m1 skv, skipLoop (parse g uni fuel false g.skipped) (skipCount sk inh) i m [] = .ok i1 m1 skv ∧
          parse g uni fuel inh x i1 m1 = .fail m')) :=
  repUnitP_fail_iff _ _ _ _ idx i m m'

example : (parseRepUnit c19Grammar c19Uni 7 true .one (.str ['a']) 1
    ((c19In c19ab).adv 1) (c19M c19ab)).isFail = true := by decide

/-- Greedy: if the repetition stopped below `MAX` (or there is no `MAX`), the next unit fails at
the result state: from the cursor `i'` returned and the state `m0` the last successful iteration
left (same stack as the result `m'`; `m'` is `m0` plus what the failed attempt recorded in the
tracker). -/
theorem C19_greedy (g : NodeGrammar) (uni : Uni) (fuel : Nat) (inh : Bool) (sk : Flag)
    (min : Nat) (max : Option Nat) (x : Node) (i : Inp) (m : M) (i' : Inp) (m' : M) (vs : List Val)
    (h : parse g uni (fuel+1) inh (.rep sk min max x) i m = .ok i' m' (.mk (.rep min max) vs))
    (hmax : ∀ M, max = some M → vs.length < M) :
    ∃ m0 mf, RepIters (parseRepUnit g uni fuel inh sk x) max 0 i m i' m0 vs ∧ m0.stk = m'.stk ∧
      parseRepUnit g uni fuel inh sk x vs.length i' m0 = .fail mf ∧ m' = { mf with stk := m0.stk } := by
  obtain ⟨vs', m1, e, hI, hS, _, _⟩ := (parse_rep_ok_iff g uni fuel inh sk min max x i m i' m' _).mp h
  injection e with _ e; subst e
  rcases hS with ⟨hM, _⟩ | ⟨_, mf, hf, rfl⟩
  · exact absurd (hmax _ hM) (Nat.lt_irrefl _)
  · exact ⟨m1, mf, hI, rfl, hf, rfl⟩

example : (c19Run c19Rep13 c19aab).okPos? = some 3 ∧ (c19Run c19Rep13 c19aab).nKids? = some 2 := by decide

/-- Stops at `MAX`: when `MAX` elements were matched no further unit is attempted — the result
state `m'` is exactly the state the last iteration left (even if more could match). -/
theorem C19_stops_at_max (g : NodeGrammar) (uni : Uni) (fuel : Nat) (inh : Bool) (sk : Flag)
    (min : Nat) (x : Node) (i : Inp) (m : M) (i' : Inp) (m' : M) (vs : List Val)
    (h : parse g uni (fuel+1) inh (.rep sk min (some vs.length) x) i m =
      .ok i' m' (.mk (.rep min (some vs.length)) vs)) :
    RepIters (parseRepUnit g uni fuel inh sk x) (some vs.length) 0 i m i' m' vs := by
  obtain ⟨vs', m1, e, hI, hS, _, _⟩ := (parse_rep_ok_iff g uni fuel inh sk min _ x i m i' m' _).mp h
  injection e with _ e; subst e
  rcases hS with ⟨_, rfl⟩ | ⟨hne, _⟩
  · exact hI
  · exact absurd rfl hne

/-- `"a"{1,3}` on `"a a a a"`: three elements, the cursor is after the third `a` (offset 5 of 7). -/
example : (c19Run c19Rep13 c19aaaa).okPos? = some 5 ∧ (c19Run c19Rep13 c19aaaa).nKids? = some 3 := by decide

/-- A failure means fewer than `MIN` iterations matched. -/
theorem C19_fail_lt_min (g : NodeGrammar) (uni : Uni) (fuel : Nat) (inh : Bool) (sk : Flag)
    (min : Nat) (max : Option Nat) (x : Node) (i : Inp) (m : M) (m' : M)
    (h : parse g uni fuel inh (.rep sk min max x) i m = .fail m') :
    ∃ vs i1 m1, RepIters (parseRepUnit g uni (fuel-1) inh sk x) max 0 i m i1 m1 vs ∧ vs.length < min ∧
      m'.stk = m1.stk ∧
      (max = some vs.length ∨ ∃ mf, parseRepUnit g uni (fuel-1) inh sk x vs.length i1 m1 = .fail mf) := by
  cases fuel with
  | zero => simp [parse] at h
  | succ fuel =>
    obtain ⟨vs, i1, m1, hI, hS, hmin, _⟩ := (parse_rep_fail_iff g uni fuel inh sk min max x i m m').mp h
    refine ⟨vs, i1, m1, hI, hmin, hS.stk, ?_⟩
    rcases hS with ⟨hM, _⟩ | ⟨_, mf, hf, _⟩
    · exact Or.inl hM
    · exact Or.inr ⟨mf, hf⟩

example : (c19Run c19Rep2 c19ab).isFail = true := by decide

/-- Never a failure after `MIN` successes: if the repetition fails, no run of `MIN` (or more)
successful iterations exists. -/
theorem C19_no_fail_after_min (g : NodeGrammar) (uni : Uni) (fuel : Nat) (inh : Bool) (sk : Flag)
    (min : Nat) (max : Option Nat) (x : Node) (i : Inp) (m : M) (m' : M)
    (h : parse g uni (fuel+1) inh (.rep sk min max x) i m = .fail m') :
    ¬ ∃ vs i1 m1, RepIters (parseRepUnit g uni fuel inh sk x) max 0 i m i1 m1 vs ∧ min ≤ vs.length := by
  rintro ⟨vs, i1, m1, hI, hmin⟩
  obtain ⟨vs', i2, m2, hI', hS, hlt, _⟩ := (parse_rep_fail_iff g uni fuel inh sk min max x i m m').mp h
  exact hI.no_stop_of_longer hI' (by omega) m' (by simpa using hS)

example : (c19Run c19Rep2 c19ab).isFail = true := by decide

/-- No dangling skip: the cursor returned is the original one (no iteration matched) or exactly
the cursor at which a successful match of the element `x` ended — never a position reached only by
the implicit skip in front of a failed iteration; likewise for the stack. -/
theorem C19_no_dangling_skip (g : NodeGrammar) (uni : Uni) (fuel : Nat) (inh : Bool) (sk : Flag)
    (min : Nat) (max : Option Nat) (x : Node) (i : Inp) (m : M) (i' : Inp) (m' : M) (vs : List Val)
    (h : parse g uni (fuel+1) inh (.rep sk min max x) i m = .ok i' m' (.mk (.rep min max) vs)) :
    (vs = [] ∧ i' = i ∧ m'.stk = m.stk) ∨
    (vs ≠ [] ∧ ∃ i0 m0 mb v, parse g uni fuel inh x i0 m0 = .ok i' mb v ∧ mb.stk = m'.stk) := by
  obtain ⟨vs', m1, e, hI, hS, _, _⟩ := (parse_rep_ok_iff g uni fuel inh sk min max x i m i' m' _).mp h
  injection e with _ e; subst e
  cases vs with
  | nil =>
    obtain ⟨rfl, rfl⟩ := hI.nil_inv
    exact Or.inl ⟨rfl, rfl, hS.stk⟩
  | cons a vs =>
    right
    refine ⟨by simp, ?_⟩
    obtain ⟨i0, m0, a0, hu, _⟩ := hI.last (by simp)
    rcases (repUnitP_ok_iff _ _ _ _ _ _ _ _ _ _).mp hu with ⟨_, v0, hb, _⟩ | ⟨_, i2, m2, skv, v0, _, hb, _⟩
    · exact ⟨i0, m0, m1, v0, hb, hS.stk.symm⟩
    · exact ⟨i2, m2, m1, v0, hb, hS.stk.symm⟩

/-- `"a"{1,3}` on `"a a b"`: the cursor is 3 (after the second `a`), not 4 (after the blank). -/
example : (c19Run c19Rep13 c19aab).okPos? = some 3 := by decide

/-- A repetition only moves the cursor forward over whole characters. -/
theorem C19_rep_adv (g : NodeGrammar) (uni : Uni) (fuel : Nat) (inh : Bool) (sk : Flag)
    (min : Nat) (max : Option Nat) (x : Node) (i : Inp) (m : M) (i' : Inp) (m' : M) (v : Val)
    (h : parse g uni fuel inh (.rep sk min max x) i m = .ok i' m' v) : i.Adv i' :=
  parse_adv g uni fuel inh _ i m i' m' v h

example : (c19Run c19Rep2 c19aaaa).cur? = some ((c19In c19aaaa).adv 7) := by decide

/-! ### arrays, pairs, optionals, skip-n-chars, skip-repeat -/

/-- `[T; k]` succeeds iff `k` consecutive matches of `x` succeed, each starting where the previous
one ended; the value lists them. -/
theorem C19_array_ok_iff (g : NodeGrammar) (uni : Uni) (fuel : Nat) (inh : Bool) (k : Nat) (x : Node)
    (i : Inp) (m : M) (i' : Inp) (m' : M) (v : Val) :
    parse g uni (fuel+1) inh (.array k x) i m = .ok i' m' v ↔
      ∃ vs, v = .mk .array vs ∧ vs.length = k ∧ ArrayChain (parse g uni fuel inh x) i m i' m' vs := by
  simp only [parse, arrayTryInto_arrayLoop]
  have key := arrayLoop_ok_iff (parse g uni fuel inh x) k i m []
  cases hr : arrayLoop (parse g uni fuel inh x) k i m [] with
  | oof =>
    simp only [reduceCtorEq, false_iff, not_exists, not_and]
    rintro vs rfl hl hC
    have := (key i' m' vs).mpr ⟨vs, by simp, hl, hC⟩
    rw [hr] at this; cases this
  | fail mf =>
    simp only [reduceCtorEq, false_iff, not_exists, not_and]
    rintro vs rfl hl hC
    have := (key i' m' vs).mpr ⟨vs, by simp, hl, hC⟩
    rw [hr] at this; cases this
  | ok i1 m1 vs =>
    simp only [Res.ok.injEq]
    constructor
    · rintro ⟨rfl, rfl, rfl⟩
      obtain ⟨vs', e, hl, hC⟩ := (key i1 m1 vs).mp hr
      simp only [List.reverse_nil, List.nil_append] at e; subst e
      exact ⟨vs, rfl, hl, hC⟩
    · rintro ⟨vs', rfl, hl, hC⟩
      have := (key i' m' vs').mpr ⟨vs', by simp, hl, hC⟩
      rw [hr] at this
      injection this with e1 e2 e3
      subst e1; subst e2; subst e3
      exact ⟨rfl, rfl, rfl⟩

example : (c19Run (.array 2 (.str ['a', ' '])) c19aaaa).okPos? = some 4 ∧
    (c19Run (.array 2 (.str ['a', ' '])) c19aaaa).nKids? = some 2 := by decide

/-- `[T; k]` fails iff one of the `k` matches fails (after the earlier ones succeeded); the state
left is that of the failing element. -/
theorem C19_array_fail_iff (g : NodeGrammar) (uni : Uni) (fuel : Nat) (inh : Bool) (k : Nat) (x : Node)
    (i : Inp) (m : M) (m' : M) :
    parse g uni (fuel+1) inh (.array k x) i m = .fail m' ↔
      ∃ vs i1 m1, vs.length < k ∧ ArrayChain (parse g uni fuel inh x) i m i1 m1 vs ∧
        parse g uni fuel inh x i1 m1 = .fail m' := by
  simp only [parse, arrayTryInto_arrayLoop]
  rw [← arrayLoop_fail_iff (parse g uni fuel inh x) k i m [] m']
  cases arrayLoop (parse g uni fuel inh x) k i m [] <;> simp

example : (c19Run (.array 4 (.str ['a', ' '])) c19aaaa).isFail = true := by decide

/-- `(T1, T2)` is `a` then `b`. -/
theorem C19_pair_ok_iff (g : NodeGrammar) (uni : Uni) (fuel : Nat) (inh : Bool) (a b : Node)
    (i : Inp) (m : M) (i'' : Inp) (m'' : M) (v : Val) :
    parse g uni (fuel+1) inh (.pair a b) i m = .ok i'' m'' v ↔
      ∃ i' m' va vb, parse g uni fuel inh a i m = .ok i' m' va ∧
        parse g uni fuel inh b i' m' = .ok i'' m'' vb ∧ v = .mk .pair [va, vb] := by
  simp only [parse]
  cases ha : parse g uni fuel inh a i m with
  | oof => simp
  | fail mf => simp
  | ok i1 m1 va =>
    simp only [Res.ok.injEq]
    cases hb : parse g uni fuel inh b i1 m1 with
    | oof =>
      simp only [reduceCtorEq, false_iff, not_exists, not_and]
      rintro i2 m2 va2 vb2 ⟨rfl, rfl, rfl⟩ h; rw [hb] at h; cases h
    | fail mf =>
      simp only [reduceCtorEq, false_iff, not_exists, not_and]
      rintro i2 m2 va2 vb2 ⟨rfl, rfl, rfl⟩ h; rw [hb] at h; cases h
    | ok i2 m2 vb =>
      simp only [Res.ok.injEq]
      constructor
      · rintro ⟨rfl, rfl, rfl⟩; exact ⟨i1, m1, va, vb, ⟨rfl, rfl, rfl⟩, hb, rfl⟩
      · rintro ⟨i3, m3, va3, vb3, ⟨rfl, rfl, rfl⟩, h, rfl⟩
        rw [hb] at h; injection h with e1 e2 e3; subst e1; subst e2; subst e3
        exact ⟨rfl, rfl, rfl⟩

example : (c19Run (.pair (.str ['a']) (.str [' ', 'a'])) c19aaaa).okPos? = some 3 := by decide

/-- `(T1, T2)` fails iff `a` fails, or `a` matches and `b` fails where `a` ended. -/
theorem C19_pair_fail_iff (g : NodeGrammar) (uni : Uni) (fuel : Nat) (inh : Bool) (a b : Node)
    (i : Inp) (m : M) (mf : M) :
    parse g uni (fuel+1) inh (.pair a b) i m = .fail mf ↔
      parse g uni fuel inh a i m = .fail mf ∨
      ∃ i' m' va, parse g uni fuel inh a i m = .ok i' m' va ∧ parse g uni fuel inh b i' m' = .fail mf := by
  simp only [parse]
  cases ha : parse g uni fuel inh a i m with
  | oof => simp
  | fail mf' => simp
  | ok i1 m1 va =>
    simp only [reduceCtorEq, Res.ok.injEq, false_or]
    constructor
    · intro h
      refine ⟨i1, m1, va, ⟨rfl, rfl, rfl⟩, ?_⟩
      cases hb : parse g uni fuel inh b i1 m1 <;> rw [hb] at h <;> first | exact h | cases h
    · rintro ⟨i2, m2, va2, ⟨rfl, rfl, rfl⟩, h⟩
      rw [h]

example : (c19Run (.pair (.str ['a']) (.str ['a'])) c19aaaa).isFail = true := by decide

/-- `Option<T>`: the element's match, or nothing consumed (and the stack put back) when it fails. -/
theorem C19_opt_ok_iff (g : NodeGrammar) (uni : Uni) (fuel : Nat) (inh : Bool) (x : Node)
    (i : Inp) (m : M) (i' : Inp) (m' : M) (v : Val) :
    parse g uni (fuel+1) inh (.opt x) i m = .ok i' m' v ↔
      (∃ v0, parse g uni fuel inh x i m = .ok i' m' v0 ∧ v = .mk .optSome [v0]) ∨
      (∃ mf, parse g uni fuel inh x i m = .fail mf ∧ i' = i ∧ m' = { mf with stk := m.stk } ∧
        v = .leaf .optNone) := by
  simp only [parse]
  cases hx : parse g uni fuel inh x i m with
  | oof => simp [restoreOnNone]
  | fail mf =>
    simp only [restoreOnNone, Res.ok.injEq, reduceCtorEq, false_and, exists_false, false_or,
      Res.fail.injEq]
    constructor
    · rintro ⟨rfl, rfl, rfl⟩; exact ⟨mf, rfl, rfl, rfl, rfl⟩
    · rintro ⟨mf', rfl, rfl, rfl, rfl⟩; exact ⟨rfl, rfl, rfl⟩
  | ok i1 m1 v0 =>
    simp only [restoreOnNone, Res.ok.injEq, reduceCtorEq, false_and, exists_false, or_false]
    constructor
    · rintro ⟨rfl, rfl, rfl⟩; exact ⟨v0, ⟨rfl, rfl, rfl⟩, rfl⟩
    · rintro ⟨v1, ⟨rfl, rfl, rfl⟩, rfl⟩; exact ⟨rfl, rfl, rfl⟩

example : (c19Run (.opt (.str ['a'])) c19aaaa).okPos? = some 1 := by decide
example : (c19Run (.opt (.str ['b'])) c19aaaa).okPos? = some 0 := by decide

/-- `Option<T>` never fails. -/
theorem C19_opt_ne_fail (g : NodeGrammar) (uni : Uni) (fuel : Nat) (inh : Bool) (x : Node)
    (i : Inp) (m : M) (m' : M) :
    parse g uni fuel inh (.opt x) i m ≠ .fail m' := by
  cases fuel with
  | zero => simp [parse]
  | succ fuel =>
    simp only [parse]
    cases parse g uni fuel inh x i m <;> simp [restoreOnNone]

example : (c19Run (.opt (.str ['b'])) c19aaaa).isOk = true := by decide

/-- `SkipChar<n>` succeeds iff at least `n` characters remain and then advances exactly `n`. -/
theorem C19_skipChars_ok_iff (g : NodeGrammar) (uni : Uni) (fuel : Nat) (inh : Bool) (n : Nat)
    (i : Inp) (m : M) (i' : Inp) (m' : M) (v : Val) :
    parse g uni (fuel+1) inh (.skipChars n) i m = .ok i' m' v ↔
      n ≤ i.rest.length ∧ i' = i.adv n ∧ m' = m ∧ v = .leaf (.skipChars (i.spanTo (i.adv n))) := by
  simp only [parse, Inp.skipN]
  by_cases hn : n ≤ i.rest.length
  · simp only [hn, if_true, Res.ok.injEq, true_and]
    constructor
    · rintro ⟨rfl, rfl, rfl⟩; exact ⟨rfl, rfl, rfl⟩
    · rintro ⟨rfl, rfl, rfl⟩; exact ⟨rfl, rfl, rfl⟩
  · simp [hn]

example : (c19Run (.skipChars 3) c19aaaa).cur? = some ((c19In c19aaaa).adv 3) := by decide

/-- `SkipChar<n>` fails (leaving the state untouched) iff fewer than `n` characters remain. -/
theorem C19_skipChars_fail_iff (g : NodeGrammar) (uni : Uni) (fuel : Nat) (inh : Bool) (n : Nat)
    (i : Inp) (m : M) (m' : M) :
    parse g uni (fuel+1) inh (.skipChars n) i m = .fail m' ↔ i.rest.length < n ∧ m' = m := by
  simp only [parse, Inp.skipN]
  by_cases hn : n ≤ i.rest.length
  · simp only [hn, if_true, reduceCtorEq, false_iff, not_and]
    intro h; omega
  · simp only [hn, if_false, Res.fail.injEq]
    constructor
    · rintro rfl; exact ⟨by omega, rfl⟩
    · rintro ⟨_, rfl⟩; rfl

example : (c19Run (.skipChars 8) c19aaaa).isFail = true := by decide

/-- The skip-repeat node `AtomicRepeat<T>` is the repetition loop with `MIN = 0`, no `MAX`, no
implicit skips, run on a private tracker (the caller's tracker is untouched): it matches a maximal
run of consecutive `x`, the next `x` fails, and the stack effects of that failure are undone. -/
theorem C19_atomicRepeat_ok_iff (g : NodeGrammar) (uni : Uni) (fuel : Nat) (inh : Bool)
    (x : Node) (i : Inp) (m : M) (i' : Inp) (m' : M) (v : Val) :
    parse g uni (fuel+1) inh (.atomicRepeat x) i m = .ok i' m' v ↔
      ∃ vs m1 mf, v = .mk .atomicRepeat vs ∧
        RepIters (fun _ i m => parse g uni fuel inh x i m) none 0 i { m with trk := Tracker.new i } i' m1 vs ∧
        parse g uni fuel inh x i' m1 = .fail mf ∧ m' = { stk := m1.stk, trk := m.trk } ∧
        vs.length < atomicBudget fuel :=
  parse_atomicRepeat_ok_iff g uni fuel inh x i m i' m' v

example : (c19Run (.atomicRepeat (.str ['a', ' '])) c19aaaa).okPos? = some 6 ∧
    (c19Run (.atomicRepeat (.str ['a', ' '])) c19aaaa).nKids? = some 3 := by decide

/-- The skip-repeat node never fails. -/
theorem C19_atomicRepeat_ne_fail (g : NodeGrammar) (uni : Uni) (fuel : Nat) (inh : Bool)
    (x : Node) (i : Inp) (m : M) (m' : M) :
    parse g uni fuel inh (.atomicRepeat x) i m ≠ .fail m' :=
  parse_atomicRepeat_ne_fail g uni fuel inh x i m m'

example : (c19Run (.atomicRepeat (.str ['b'])) c19aaaa).okPos? = some 0 := by decide

/-! ### check path -/

/-- Parse and check agree (verdict, cursor, stack, tracker) on all of these nodes — instance of
`check_eq_parse_forget` (C03). -/
theorem C19_check (g : NodeGrammar) (uni : Uni) (fuel : Nat) (inh : Bool) (i : Inp) (m : M)
    (sk : Flag) (min k n : Nat) (max : Option Nat) (x y : Node) :
    check g uni fuel inh (.rep sk min max x) i m = (parse g uni fuel inh (.rep sk min max x) i m).forget ∧
    check g uni fuel inh (.array k x) i m = (parse g uni fuel inh (.array k x) i m).forget ∧
    check g uni fuel inh (.pair x y) i m = (parse g uni fuel inh (.pair x y) i m).forget ∧
    check g uni fuel inh (.opt x) i m = (parse g uni fuel inh (.opt x) i m).forget ∧
    check g uni fuel inh (.skipChars n) i m = (parse g uni fuel inh (.skipChars n) i m).forget ∧
    check g uni fuel inh (.atomicRepeat x) i m = (parse g uni fuel inh (.atomicRepeat x) i m).forget :=
  ⟨check_eq_parse_forget .., check_eq_parse_forget .., check_eq_parse_forget ..,
   check_eq_parse_forget .., check_eq_parse_forget .., check_eq_parse_forget ..⟩

example : (check c19Grammar c19Uni 8 true c19Rep13 (c19In c19aab) (c19M c19aab)).okPos? = some 3 := by decide

/-- The check path of a repetition succeeds exactly when the parse-path iterations do. -/
theorem C19_check_rep_ok_iff (g : NodeGrammar) (uni : Uni) (fuel : Nat) (inh : Bool) (sk : Flag)
    (min : Nat) (max : Option Nat) (x : Node) (i : Inp) (m : M) (i' : Inp) (m' : M) :
    check g uni (fuel+1) inh (.rep sk min max x) i m = .ok i' m' () ↔
      ∃ vs m1,
        RepIters (parseRepUnit g uni fuel inh sk x) max 0 i m i' m1 vs ∧
        RepStop (parseRepUnit g uni fuel inh sk x) max vs.length i' m1 m' ∧
        min ≤ vs.length ∧ vs.length < fuel := by
  rw [check_ok_iff]
  constructor
  · rintro ⟨v, h⟩
    obtain ⟨vs, m1, _, h⟩ := (parse_rep_ok_iff g uni fuel inh sk min max x i m i' m' v).mp h
    exact ⟨vs, m1, h⟩
  · rintro ⟨vs, m1, h⟩
    exact ⟨_, (parse_rep_ok_iff g uni fuel inh sk min max x i m i' m' _).mpr ⟨vs, m1, rfl, h⟩⟩

example : (check c19Grammar c19Uni 8 true c19Rep13 (c19In c19aaaa) (c19M c19aaaa)).okPos? = some 5 := by decide

theorem C19_check_rep_fail_iff (g : NodeGrammar) (uni : Uni) (fuel : Nat) (inh : Bool) (sk : Flag)
    (min : Nat) (max : Option Nat) (x : Node) (i : Inp) (m : M) (m' : M) :
    check g uni (fuel+1) inh (.rep sk min max x) i m = .fail m' ↔
      ∃ vs i1 m1,
        RepIters (parseRepUnit g uni fuel inh sk x) max 0 i m i1 m1 vs ∧
        RepStop (parseRepUnit g uni fuel inh sk x) max vs.length i1 m1 m' ∧
        vs.length < min ∧ vs.length < fuel := by
  rw [check_fail_iff]
  exact parse_rep_fail_iff g uni fuel inh sk min max x i m m'

example : (check c19Grammar c19Uni 8 true c19Rep31 (c19In c19aaaa) (c19M c19aaaa)).isFail = true := by decide

/-- The check path accepts a repetition only with an element count within the bounds: whenever
check succeeds, parse succeeds at the same cursor and state with `MIN ≤ count ≤ MAX`. -/
theorem C19_check_count_agree (g : NodeGrammar) (uni : Uni) (fuel : Nat) (inh : Bool) (sk : Flag)
    (min : Nat) (max : Option Nat) (x : Node) (i : Inp) (m : M) (i' : Inp) (m' : M)
    (h : check g uni fuel inh (.rep sk min max x) i m = .ok i' m' ()) :
    ∃ vs, parse g uni fuel inh (.rep sk min max x) i m = .ok i' m' (.mk (.rep min max) vs) ∧
      min ≤ vs.length ∧ ∀ M, max = some M → vs.length ≤ M := by
  obtain ⟨v, hp⟩ := (check_ok_iff g uni fuel inh _ i m i' m').mp h
  obtain ⟨vs, rfl⟩ := C19_rep_value_shape g uni fuel inh sk min max x i m i' m' v hp
  exact ⟨vs, hp, C19_count g uni fuel inh sk min max x i m i' m' vs hp⟩

example : (check c19Grammar c19Uni 8 true c19Rep13 (c19In c19ab) (c19M c19ab)).okPos? = some 1 := by decide

end PestTyped
