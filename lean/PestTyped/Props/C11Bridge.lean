/-
Props.C11Bridge — property C11, third sentence ("for every accepted grammar that is well-founded every
parse of every input returns"), for the modules the derive REALLY emits.

`Props/C11.lean` proves termination of an arbitrary generated module from a well-foundedness certificate
(`C11_terminates`, `C11_terminates_checked`); `Props/C11Validator.lean` derives the certificate from
"pest's validator accepts" — but only for `gen g`, the module generated from the RAW AST
(`#[pest_optimizer = false]`, default boxing).  The DEFAULT derive emits `genWith cfg (optimize g) g` with
`cfg.pest_optimizer = true`, i.e. the module of the OPTIMIZED AST.  This file closes that gap as far as the
existing results reach.

What is proved here.
1. Per emitted module (every option set, raw or optimized AST, no fragment hypothesis at all):
   * `C11_wfCheck_sound_emitted`   the decidable check `wfCheck` evaluated on the module
                                   `genWith cfg o r` yields the three hypotheses of `C11_terminates`;
   * `C11_emitted_terminates`      … hence all four entry points (`try_parse`, `try_check`,
                                   `try_parse_partial`, `try_check_partial`) answer for every rule, every
                                   input and every fuel above the explicit bound `entryFuel`;
   * `C11_derived_terminates`      the same phrased on the derive pipeline `deriveTyped` (mirrored validator,
                                   mirrored optimizer): a produced module `G` is
                                   `genWith cfg (optimize g) g` of an accepted grammar, and `wfCheck G = true`
                                   gives termination of all four entry points.
   `wfCheck` is what the corpus check evaluates (through `model_driver`, on the module emitted under every
   option set): for a grammar outside the fragments below, termination is decided PER GRAMMAR by this check.
2. From "pest accepts" (no per-grammar certificate), on the decidable syntactic fragments:
   * `C11_accepts_terminates_raw`  every configuration with `pest_optimizer = false` (any boxing): all four
                                   entry points of the module `deriveTyped` produces answer for every fuel
                                   from some point on (`ValFragment`, `LRFragment`);
   * `C11_accepts_terminates_optimized_partial`, `…_atomic_partial`
                                   THE BRIDGE: `try_parse_partial` of `gen (optimize g)` — the module of the
                                   optimized AST — answers, for every rule and input (`ValFragment`, `LRFragment`,
                                   `OptSafe`, `SkipRulesAtomicLike`);
   * `C11_accepts_terminates_optimized_check_partial`   the same for `try_check_partial`;
   * `C11_accepts_terminates_optimized_mono_partial`    monotone form `∃ k, ∀ k' ≥ k, …` for both;
   * `C11_accepts_terminates_derived_partial`           lifted through box transparency (`C20_box_transparent`)
                                   to the module `deriveTyped cfg g` produces for EVERY configuration with
                                   `cfg.pest_optimizer = true` (default boxing or `box_only_if_needed`);
   * `C11_accepts_terminates_derived_all_partial`       every configuration, raw or optimized, in one statement.

`_partial` (items of 2 that mention the optimized AST) means exactly:
   (a) hypotheses `ValFragment g`, `LRFragment g (valNul g)` — outside them "pest accepts ⇒ well-founded" is
       FALSE (`C11_validator_blindspot_*`);
   (b) hypothesis `OptSafe g` — outside it pest's optimizer changes the semantics (C20 findings F-OPT-1/3/4) and
       the typed equivalence `C20_raw_eq_opt_typed_partial` is not available;
   (c) hypothesis `SkipRulesAtomicLike` for `g` and `optimize g` (finding F-WS; it follows from `SkipRulesAtomic g`
       alone: the `_atomic` variant);
   (d) only the entries `try_parse_partial` / `try_check_partial`: the typed equivalence theorem of C20 is stated
       for that entry.  For `try_parse` / `try_check` of the optimized module one additionally needs termination
       of the trailing implicit skip `parse G false G.skipped` in `gen (optimize g)`; that needs the transfer
       `C01_iff` ∘ `C20_raw_eq_opt_spec_partial` at the skip node (which is not of the form `genExpr g sk e`) and
       is not assembled.
   The full statement ("∀ g accepted by pest and well-founded, ∀ cfg, all four entries of the emitted module
   answer") is kept in the comment before `C11_accepts_terminates_optimized_partial`.
   For a concrete grammar outside (a)–(d) item 1 applies: `wfCheck` on the emitted module.
-/
import PestTyped.Props.C11Validator
import PestTyped.Props.C20Opt
import PestTyped.Props.C03
namespace PestTyped

/-! ### small facts about results -/

theorem Res.outcome_ne_oof {α} {r : R α} (h : r ≠ .oof) : r.outcome ≠ .oof := by
  cases r with
  | oof => exact absurd rfl h
  | fail m => exact nofun
  | ok i m v => exact nofun

theorem Res.ne_oof_of_outcome {α} {r : R α} {o : SR} (h : r.outcome = o) (ho : o ≠ .oof) : r ≠ .oof := by
  intro h0
  rw [h0] at h
  exact ho h.symm

theorem Res.forget_ne_oof {σ α} {r : Res σ α} (h : r ≠ .oof) : r.forget ≠ .oof := by
  cases r with
  | oof => exact absurd rfl h
  | fail m => exact nofun
  | ok i m v => exact nofun

theorem Res.ne_oof_of_forget {σ α} {r : Res σ α} (h : r.forget ≠ .oof) : r ≠ .oof := by
  intro h0
  rw [h0] at h
  exact h rfl

/-- Two results with the same observable state are out of fuel together. -/
theorem Res.ne_oof_of_state_eq {α β} {a : R α} {b : R β} (h : a.forget = b.forget) (ha : a ≠ .oof) : b ≠ .oof :=
  Res.ne_oof_of_forget (h ▸ Res.forget_ne_oof ha)

/-! ### 1. the per-module decision procedure, on the modules the derive emits -/

/-- `wfCheck`, evaluated on the module emitted under ANY option set from ANY pair of ASTs, is sound: it
yields the three hypotheses of `C11_terminates` (with the rank it computed as the witness of `NoLeftRec`). -/
theorem C11_wfCheck_sound_emitted (cfg : Config) (o r : PGrammar) (h : wfCheck (genWith cfg o r) = true) :
    NulOK (genWith cfg o r) (wfNul (genWith cfg o r)) ∧
    NoLeftRec (genWith cfg o r) (wfNul (genWith cfg o r)) ∧
    Progressing (genWith cfg o r) (wfNul (genWith cfg o r)) :=
  let ⟨hN, hR, hP⟩ := wfCheck_sound h
  ⟨hN, ⟨wfRank (genWith cfg o r), hR⟩, hP⟩

/-- … hence every entry point of that module answers, for every rule, every input, and every fuel above the
explicit bound. -/
theorem C11_emitted_terminates (cfg : Config) (o r : PGrammar) (uni : Uni) (h : wfCheck (genWith cfg o r) = true)
    (rule : RuleId) (i : Inp) (n : Nat)
    (hn : entryFuel (genWith cfg o r) (wfRank (genWith cfg o r)) i.rest.length ≤ n) :
    tryParse (genWith cfg o r) uni n rule i ≠ .oof ∧ tryCheck (genWith cfg o r) uni n rule i ≠ .oof ∧
    tryParsePartial (genWith cfg o r) uni n rule i ≠ .oof ∧ tryCheckPartial (genWith cfg o r) uni n rule i ≠ .oof :=
  C11_terminates_checked (genWith cfg o r) uni h rule i n hn

/-- The same on the derive pipeline (mirrored validator and optimizer): a module that `deriveTyped` produces is
the generator's output for an ACCEPTED grammar, and if `wfCheck` accepts it every entry point answers. -/
theorem C11_derived_terminates (cfg : Config) (g : PGrammar) (G : NodeGrammar) (uni : Uni)
    (hd : deriveTyped cfg g = some G) (h : wfCheck G = true) (rule : RuleId) (i : Inp) (n : Nat)
    (hn : entryFuel G (wfRank G) i.rest.length ≤ n) :
    (G = genWith cfg (optimize g) g ∧ pestValidate g = []) ∧
    tryParse G uni n rule i ≠ .oof ∧ tryCheck G uni n rule i ≠ .oof ∧
    tryParsePartial G uni n rule i ≠ .oof ∧ tryCheckPartial G uni n rule i ≠ .oof :=
  let hd' := (C11_derive_iff cfg g G).1 hd
  ⟨⟨hd'.2, hd'.1⟩, C11_terminates_checked G uni h rule i n hn⟩

/-! non-vacuity of 1: graph.rs's `inter_reference` grammar `a = { "a" ~ b* }  b = { "b" ~ c? }  c = { a+ }`
under reduced boxing (a non-default option set), and the accepted recursive grammar `c11vGood` with an implicit
skip on the default path (optimized AST). -/

theorem c11b_cycle_genWith (cfg : Config) (o r : PGrammar) (h : pickAst cfg o r = c20Cycle) :
    genWith cfg o r = c20CycleNG cfg := by
  unfold genWith
  rw [h, c20Cycle_gen]

example : wfCheck (genWith { box_only_if_needed := true } c20Cycle c20Cycle) = true := by
  rw [c11b_cycle_genWith _ _ _ rfl]; decide

example (uni : Uni) (rule : RuleId) (i : Inp) (n : Nat)
    (hn : entryFuel (genWith { box_only_if_needed := true } c20Cycle c20Cycle)
      (wfRank (genWith { box_only_if_needed := true } c20Cycle c20Cycle)) i.rest.length ≤ n) :=
  C11_emitted_terminates { box_only_if_needed := true } c20Cycle c20Cycle uni
    (by rw [c11b_cycle_genWith _ _ _ rfl]; decide) rule i n hn

/-- `optimize` only rotates the sequence of `c11vGood`. -/
def c11bGoodOpt : PGrammar :=
  [{ name := "expr", kind := .normal,
     expr := .choice (.seq (.str ['(']) (.seq (.rep (.ident "expr")) (.str [')']))) (.str ['x']) },
   { name := "WHITESPACE", kind := .silent, expr := .str [' '] }]

theorem c11bGood_optimize : optimize c11vGood = c11bGoodOpt := by rfl

/-- The module the default derive emits for `c11vGood` is `c11Grammar` of `Props/C11.lean`. -/
theorem c11bGood_gen : gen c11bGoodOpt = c11Grammar := by
  simp [gen, genRule, genExpr, genSeqSpine, genChoiceSpine, genSkipped, PGrammar.indexOf, PGrammar.indexOf.go,
    c11bGoodOpt, c11Grammar, kindAtomicity, kindEmission, atomFlag]

theorem c11bGood_derive : deriveTyped {} c11vGood = some c11Grammar := by
  rw [C11_derive_iff]
  exact ⟨by decide, by rw [C20_default, c11bGood_optimize, c11bGood_gen]⟩

example (uni : Uni) (rule : RuleId) (i : Inp) (n : Nat)
    (hn : entryFuel c11Grammar (wfRank c11Grammar) i.rest.length ≤ n) :=
  C11_derived_terminates {} c11vGood c11Grammar uni c11bGood_derive (by decide) rule i n hn

/-! ### 2a. "pest accepts" ⇒ termination, raw AST, every boxing -/

/-- Termination does not depend on the `$boxed` flags: if two modules differ in `boxed` only, all four entry
points run out of fuel together, at every fuel. -/
theorem terminates_of_eraseBoxed_eq {G G' : NodeGrammar} (h : G.eraseBoxed = G'.eraseBoxed) (uni : Uni) (n : Nat)
    (r : RuleId) (i : Inp) :
    (tryParse G uni n r i ≠ .oof → tryParse G' uni n r i ≠ .oof) ∧
    (tryCheck G uni n r i ≠ .oof → tryCheck G' uni n r i ≠ .oof) ∧
    (tryParsePartial G uni n r i ≠ .oof → tryParsePartial G' uni n r i ≠ .oof) ∧
    (tryCheckPartial G uni n r i ≠ .oof → tryCheckPartial G' uni n r i ≠ .oof) := by
  obtain ⟨_, _, _, h4, h5, h6, h7⟩ := C20_box_transparent G G' h uni n
  exact ⟨Res.ne_oof_of_state_eq (h5 r i).1, fun hne => h7 r i ▸ hne,
    Res.ne_oof_of_state_eq (h4 r i).1, fun hne => h6 r i ▸ hne⟩

/-- On the two fragments, a grammar that pest accepts yields — under EVERY configuration that walks the raw
AST (`pest_optimizer = false`; any setting of `box_only_if_needed` and of the accessor options) — a module all
of whose entry points answer, for every rule, every input and every fuel from some point on.  (Not `_partial`
in the sense of entries or options; the fragment hypotheses are those of `C11_validator_sound_partial`.) -/
theorem C11_accepts_terminates_raw (cfg : Config) (hraw : cfg.pest_optimizer = false) (g : PGrammar) (G : NodeGrammar)
    (uni : Uni) (hf : ValFragment g = true) (hl : LRFragment g (valNul g) = true)
    (hd : deriveTyped cfg g = some G) (rule : RuleId) (i : Inp) :
    ∃ n, ∀ n', n ≤ n' →
      tryParse G uni n' rule i ≠ .oof ∧ tryCheck G uni n' rule i ≠ .oof ∧
      tryParsePartial G uni n' rule i ≠ .oof ∧ tryCheckPartial G uni n' rule i ≠ .oof := by
  obtain ⟨hv, rfl⟩ := (C11_derive_iff cfg g G).1 hd
  obtain ⟨hN, ⟨rank, hR⟩, hP⟩ := C11_validator_sound_partial g hf hl hv
  have he : (gen g).eraseBoxed = (genWith cfg (optimize g) g).eraseBoxed := by
    rw [C20_structure_gen]
    simp [pickAst, hraw]
  refine ⟨entryFuel (gen g) rank i.rest.length, fun n' hn' => ?_⟩
  obtain ⟨t1, t2, t3, t4⟩ := terminates_of_eraseBoxed_eq he uni n' rule i
  exact ⟨t1 (C11_terminates_tryParse _ uni _ _ hN hR hP rule i n' hn'),
    t2 (C11_terminates_tryCheck _ uni _ _ hN hR hP rule i n' hn'),
    t3 (C11_terminates_tryParsePartial _ uni _ _ hN hR hP rule i n' hn'),
    t4 (C11_terminates_tryCheckPartial _ uni _ _ hN hR hP rule i n' hn')⟩

/-- Non-vacuity: the JSON-like grammar `lrG4`, raw AST, reduced boxing. -/
example (uni : Uni) (rule : RuleId) (i : Inp) :=
  C11_accepts_terminates_raw { pest_optimizer := false, box_only_if_needed := true } rfl lrG4
    (genWith { pest_optimizer := false, box_only_if_needed := true } (optimize lrG4) lrG4) uni
    (by decide) (by decide)
    ((C11_derive_iff _ _ _).2 ⟨by decide, rfl⟩) rule i

/-! ### 2b. the bridge to the optimized AST (the default path) -/

/-
FULL STATEMENT (not proved; what the third sentence of the property says of the emitted module):

  theorem C11_accepts_terminates_emitted (cfg : Config) (g : PGrammar) (G : NodeGrammar) (uni : Uni)
      (hd : deriveTyped cfg g = some G) (hwf : <g is well-founded>) (rule : RuleId) (i : Inp) :
      ∃ n, ∀ n', n ≤ n' → tryParse G uni n' rule i ≠ .oof ∧ tryCheck G uni n' rule i ≠ .oof ∧
        tryParsePartial G uni n' rule i ≠ .oof ∧ tryCheckPartial G uni n' rule i ≠ .oof

Proved below: for `cfg.pest_optimizer = false` in full (`C11_accepts_terminates_raw`, with "well-founded" read
as the two fragments); for `cfg.pest_optimizer = true` with the additional hypotheses `OptSafe g`,
`SkipRulesAtomicLike g`, `SkipRulesAtomicLike (optimize g)`, for the rules `rule = r+1` of the grammar (every rule
of the module other than the built-in `EOI`), and for the two `…_partial` entries only.  Missing: the entries
`try_parse` / `try_check` of the optimized module (termination of the trailing implicit skip there), and
grammars outside `OptSafe` / `SkipRulesAtomicLike` (for which the statement must go through a certificate for the
optimized module itself: `C11_derived_terminates` with `wfCheck`).
-/

/-- THE BRIDGE.  A grammar that pest's validator accepts, inside the decidable syntactic fragments
`ValFragment`, `LRFragment` (outside them acceptance does not imply termination: `C11_validator_blindspot_*`),
`OptSafe` (outside it the optimizer changes the semantics: F-OPT-1/3/4) and `SkipRulesAtomicLike` for both ASTs
(F-WS): `try_parse_partial` of the module generated from the OPTIMIZED AST — the one the default derive emits —
answers for every rule of the grammar and every input.
`_partial`: fragment hypotheses as listed, and only the `try_parse_partial` entry (see the file header, (a)–(d)). -/
theorem C11_accepts_terminates_optimized_partial (g : PGrammar) (uni : Uni) (hf : ValFragment g = true)
    (hl : LRFragment g (valNul g) = true) (hv : pestValidate g = []) (hs : OptSafe g = true)
    (hws : SkipRulesAtomicLike g) (hws' : SkipRulesAtomicLike (optimize g))
    (name : String) (r : Nat) (hr : g.indexOf name = some r) (i : Inp) :
    ∃ k, tryParsePartial (gen (optimize g)) uni k (r+1) i ≠ .oof := by
  obtain ⟨n, hn⟩ := C11_validator_accepts_terminates_partial g uni hf hl hv true (.ref (r+1) .one) i (M.init i)
    (Or.inr (Or.inr ⟨r+1, .one, rfl⟩))
  have hraw : tryParsePartial (gen g) uni n (r+1) i ≠ .oof := hn n (Nat.le_refl n)
  have ho : (tryParsePartial (gen g) uni n (r+1) i).outcome ≠ .oof := Res.outcome_ne_oof hraw
  obtain ⟨k, hk⟩ := (C20_raw_eq_opt_typed_partial g uni hs hws hws' name r hr i _ ho).1 ⟨n, rfl⟩
  exact ⟨k, Res.ne_oof_of_outcome hk ho⟩

/-- The same with the hypothesis on the skip rules stated for the raw grammar only: WHITESPACE / COMMENT
declared `@` / `$` (or not defined). -/
theorem C11_accepts_terminates_optimized_atomic_partial (g : PGrammar) (uni : Uni) (hf : ValFragment g = true)
    (hl : LRFragment g (valNul g) = true) (hv : pestValidate g = []) (hs : OptSafe g = true)
    (hws : SkipRulesAtomic g) (name : String) (r : Nat) (hr : g.indexOf name = some r) (i : Inp) :
    ∃ k, tryParsePartial (gen (optimize g)) uni k (r+1) i ≠ .oof := by
  obtain ⟨n, hn⟩ := C11_validator_accepts_terminates_partial g uni hf hl hv true (.ref (r+1) .one) i (M.init i)
    (Or.inr (Or.inr ⟨r+1, .one, rfl⟩))
  have hraw : tryParsePartial (gen g) uni n (r+1) i ≠ .oof := hn n (Nat.le_refl n)
  have ho : (tryParsePartial (gen g) uni n (r+1) i).outcome ≠ .oof := Res.outcome_ne_oof hraw
  obtain ⟨k, hk⟩ := (C20_raw_eq_opt_typed_partial_atomic g uni hs hws name r hr i _ ho).1 ⟨n, rfl⟩
  exact ⟨k, Res.ne_oof_of_outcome hk ho⟩

/-- `try_check_partial` of the optimized module (`C03_partial_agree`: it is `try_parse_partial` with the value
forgotten). -/
theorem C11_accepts_terminates_optimized_check_partial (g : PGrammar) (uni : Uni) (hf : ValFragment g = true)
    (hl : LRFragment g (valNul g) = true) (hv : pestValidate g = []) (hs : OptSafe g = true)
    (hws : SkipRulesAtomicLike g) (hws' : SkipRulesAtomicLike (optimize g))
    (name : String) (r : Nat) (hr : g.indexOf name = some r) (i : Inp) :
    ∃ k, tryCheckPartial (gen (optimize g)) uni k (r+1) i ≠ .oof := by
  obtain ⟨k, hk⟩ := C11_accepts_terminates_optimized_partial g uni hf hl hv hs hws hws' name r hr i
  exact ⟨k, by rw [C03_partial_agree]; exact Res.forget_ne_oof hk⟩

/-! ### 3. monotone form -/

/-- One definite answer of `try_parse_partial` makes every larger fuel, and `try_check_partial`, answer. -/
theorem tryParsePartial_eventually {G : NodeGrammar} {uni : Uni} {r : RuleId} {i : Inp}
    (h : ∃ k, tryParsePartial G uni k r i ≠ .oof) :
    ∃ k, ∀ k', k ≤ k' → tryParsePartial G uni k' r i ≠ .oof ∧ tryCheckPartial G uni k' r i ≠ .oof := by
  obtain ⟨k, hk⟩ := h
  refine ⟨k, fun k' hk' => ?_⟩
  have hm := tryParsePartial_mono (rfl : tryParsePartial G uni k r i = _) hk (k' - k)
  rw [Nat.add_sub_cancel' hk'] at hm
  have hp : tryParsePartial G uni k' r i ≠ .oof := hm ▸ hk
  exact ⟨hp, by rw [C03_partial_agree]; exact Res.forget_ne_oof hp⟩

/-- The bridge in the form of `C11_terminates`: some fuel, and then every larger one. -/
theorem C11_accepts_terminates_optimized_mono_partial (g : PGrammar) (uni : Uni) (hf : ValFragment g = true)
    (hl : LRFragment g (valNul g) = true) (hv : pestValidate g = []) (hs : OptSafe g = true)
    (hws : SkipRulesAtomicLike g) (hws' : SkipRulesAtomicLike (optimize g))
    (name : String) (r : Nat) (hr : g.indexOf name = some r) (i : Inp) :
    ∃ k, ∀ k', k ≤ k' →
      tryParsePartial (gen (optimize g)) uni k' (r+1) i ≠ .oof ∧
      tryCheckPartial (gen (optimize g)) uni k' (r+1) i ≠ .oof :=
  tryParsePartial_eventually (C11_accepts_terminates_optimized_partial g uni hf hl hv hs hws hws' name r hr i)

/-! ### 4. the module `deriveTyped` produces, every configuration -/

/-- Lifted through box transparency to the module the derive produces under EVERY configuration that walks the
optimized AST (`pest_optimizer = true`, the default; any `box_only_if_needed` and accessor options).
`_partial` as for `C11_accepts_terminates_optimized_partial`. -/
theorem C11_accepts_terminates_derived_partial (cfg : Config) (hopt : cfg.pest_optimizer = true)
    (g : PGrammar) (G : NodeGrammar) (uni : Uni) (hd : deriveTyped cfg g = some G)
    (hf : ValFragment g = true) (hl : LRFragment g (valNul g) = true) (hs : OptSafe g = true)
    (hws : SkipRulesAtomicLike g) (hws' : SkipRulesAtomicLike (optimize g))
    (name : String) (r : Nat) (hr : g.indexOf name = some r) (i : Inp) :
    ∃ k, ∀ k', k ≤ k' →
      tryParsePartial G uni k' (r+1) i ≠ .oof ∧ tryCheckPartial G uni k' (r+1) i ≠ .oof := by
  obtain ⟨hv, rfl⟩ := (C11_derive_iff cfg g G).1 hd
  obtain ⟨k, hk⟩ := C11_accepts_terminates_optimized_mono_partial g uni hf hl hv hs hws hws' name r hr i
  have he : (gen (optimize g)).eraseBoxed = (genWith cfg (optimize g) g).eraseBoxed := by
    rw [C20_structure_gen]
    simp [pickAst, hopt]
  refine ⟨k, fun k' hk' => ?_⟩
  obtain ⟨_, _, t3, t4⟩ := terminates_of_eraseBoxed_eq he uni k' (r+1) i
  exact ⟨t3 (hk k' hk').1, t4 (hk k' hk').2⟩

/-- Every configuration at once: whatever the options, the two `…_partial` entries of the module the derive
produces for an accepted grammar of the fragments answer, for every rule of the grammar and every input. -/
theorem C11_accepts_terminates_derived_all_partial (cfg : Config)
    (g : PGrammar) (G : NodeGrammar) (uni : Uni) (hd : deriveTyped cfg g = some G)
    (hf : ValFragment g = true) (hl : LRFragment g (valNul g) = true) (hs : OptSafe g = true)
    (hws : SkipRulesAtomicLike g) (hws' : SkipRulesAtomicLike (optimize g))
    (name : String) (r : Nat) (hr : g.indexOf name = some r) (i : Inp) :
    ∃ k, ∀ k', k ≤ k' →
      tryParsePartial G uni k' (r+1) i ≠ .oof ∧ tryCheckPartial G uni k' (r+1) i ≠ .oof := by
  cases hopt : cfg.pest_optimizer with
  | true => exact C11_accepts_terminates_derived_partial cfg hopt g G uni hd hf hl hs hws hws' name r hr i
  | false =>
    obtain ⟨n, hn⟩ := C11_accepts_terminates_raw cfg hopt g G uni hf hl hd (r+1) i
    exact ⟨n, fun n' hn' => ⟨(hn n' hn').2.2.1, (hn n' hn').2.2.2⟩⟩

/-! ### non-vacuity of 2b–4: the JSON-like grammar `lrG4`

`string = ${ "\"" ~ (!"\"" ~ ANY)* ~ "\"" }  value = { string | "[" ~ (value ~ ("," ~ value)*)? ~ "]" }`
`file = { SOI ~ value ~ EOI }  WHITESPACE = _{ " " }`: recursive, with an implicit skip that is NOT declared
`@` / `$` (so `SkipRulesAtomicLike` is used in its weaker form), and `optimize` really changes it (`rotate`
re-nests every sequence). -/

example : ValFragment lrG4 = true ∧ LRFragment lrG4 (valNul lrG4) = true ∧ pestValidate lrG4 = [] ∧
    OptSafe lrG4 = true ∧ lrG4.indexOf "file" = some 2 := by decide
example : (optimize lrG4).map (·.expr) ≠ lrG4.map (·.expr) := by decide

theorem c11b_lrG4_like : SkipRulesAtomicLike lrG4 := by
  intro nm r hnm hf
  rcases hnm with rfl | rfl
  · simp [PGrammar.find?, PGrammar.indexOf, PGrammar.indexOf.go, lrG4] at hf
    subst hf
    exact Or.inr (by simp [SimpleSkipBody])
  · simp [PGrammar.find?, PGrammar.indexOf, PGrammar.indexOf.go, lrG4] at hf

/-- The optimized AST of `lrG4`. -/
def c11bLrOpt : PGrammar :=
  [⟨"string", .compoundAtomic,
      .seq (.str ['"']) (.seq (.rep (.seq (.negPred (.str ['"'])) (.ident "ANY"))) (.str ['"']))⟩,
   ⟨"value", .normal,
      .choice (.ident "string")
        (.seq (.str ['['])
          (.seq (.opt (.seq (.ident "value") (.rep (.seq (.str [',']) (.ident "value"))))) (.str [']'])))⟩,
   ⟨"file", .normal, .seq (.ident "SOI") (.seq (.ident "value") (.ident "EOI"))⟩,
   ⟨"WHITESPACE", .silent, .str [' ']⟩]

theorem c11b_lrG4_optimize : optimize lrG4 = c11bLrOpt := by rfl

theorem c11b_lrG4_like_opt : SkipRulesAtomicLike (optimize lrG4) := by
  rw [c11b_lrG4_optimize]
  intro nm r hnm hf
  rcases hnm with rfl | rfl
  · simp [PGrammar.find?, PGrammar.indexOf, PGrammar.indexOf.go, c11bLrOpt] at hf
    subst hf
    exact Or.inr (by simp [SimpleSkipBody])
  · simp [PGrammar.find?, PGrammar.indexOf, PGrammar.indexOf.go, c11bLrOpt] at hf

/-- The bridge instantiated at rule `file` (index 2, generated rule id 3). -/
example (uni : Uni) (i : Inp) : ∃ k, tryParsePartial (gen (optimize lrG4)) uni k 3 i ≠ .oof :=
  C11_accepts_terminates_optimized_partial lrG4 uni (by decide) (by decide) (by decide) (by decide)
    c11b_lrG4_like c11b_lrG4_like_opt "file" 2 (by decide) i

example (uni : Uni) (i : Inp) : ∃ k, tryCheckPartial (gen (optimize lrG4)) uni k 3 i ≠ .oof :=
  C11_accepts_terminates_optimized_check_partial lrG4 uni (by decide) (by decide) (by decide) (by decide)
    c11b_lrG4_like c11b_lrG4_like_opt "file" 2 (by decide) i

example (uni : Uni) (i : Inp) :=
  C11_accepts_terminates_optimized_mono_partial lrG4 uni (by decide) (by decide) (by decide) (by decide)
    c11b_lrG4_like c11b_lrG4_like_opt "file" 2 (by decide) i

/-- The default derive and the derive with reduced boxing both produce a module for `lrG4`, and its `file` rule
answers on every input. -/
example (cfg : Config) (uni : Uni) (i : Inp) :
    ∃ G, deriveTyped cfg lrG4 = some G ∧
      ∃ k, ∀ k', k ≤ k' → tryParsePartial G uni k' 3 i ≠ .oof ∧ tryCheckPartial G uni k' 3 i ≠ .oof :=
  ⟨genWith cfg (optimize lrG4) lrG4, (C11_derive_iff _ _ _).2 ⟨by decide, rfl⟩,
    C11_accepts_terminates_derived_all_partial cfg lrG4 _ uni ((C11_derive_iff _ _ _).2 ⟨by decide, rfl⟩)
      (by decide) (by decide) (by decide) c11b_lrG4_like c11b_lrG4_like_opt "file" 2 (by decide) i⟩

/-- The `_atomic` variant on `c20oG` (no skip rules; `skip`, `unroll`, `concatenate`, `rotate` all fire). -/
example : ValFragment c20oG = true ∧ LRFragment c20oG (valNul c20oG) = true ∧ pestValidate c20oG = [] ∧
    OptSafe c20oG = true := by decide
example (uni : Uni) (i : Inp) : ∃ k, tryParsePartial (gen (optimize c20oG)) uni k 2 i ≠ .oof :=
  C11_accepts_terminates_optimized_atomic_partial c20oG uni (by decide) (by decide) (by decide) (by decide)
    c20oG_skipAtomic "list" 1 (by decide) i

end PestTyped
