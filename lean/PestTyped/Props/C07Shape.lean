/-
Props.C07Shape — the Spec's implicit skip `(WHITESPACE | COMMENT)*` and pest's literal shape
`WHITESPACE* ~ (COMMENT ~ WHITESPACE*)*` are the same function.

`Model/Spec.lean` defines the implicit skip as ONE loop whose unit is "WHITESPACE if it matches,
else COMMENT" (`specSkip` / `specSkipUnit` / `specRepLoop`); pest 2.7.14's `generate_skip` emits the
nested term `pestSkip` (Lemmas/SkipShape.lean: `repeat(W) ~ repeat(sequence(C ~ repeat(W)))`, and
`repeat(W)` / `repeat(C)` / `Ok(state)` when only one / none of the two rules is defined).  Until now
DESIGN.md §0 said "validated by the pest oracle, not proved".  Here it is proved, for EVERY
`call : String → Inp → List Sp → SR` (any grammar, any fuel, any atomicity discipline behind the
call; the only thing used is that `call` is a function), every cursor, every stack, every budget:

* `C07_skip_shapes_agree` — whenever both are definite (≠ `.oof`) they are equal (same verdict —
  always `.ok` — same cursor, same stack).
* `C07_skip_shape_never_fails` — neither shape ever answers `.fail`.
* `C07_skip_shape_pest_of_spec` — if the single loop is definite with budget `b`, the nested shape is
  definite (and equal) with budgets `bo, bw ≥ b`.
* `C07_skip_shape_spec_of_pest` — if the nested shape is definite with budgets `bo` (outer `repeat`)
  and `bw` (each `repeat(WHITESPACE)`), the single loop is definite (and equal) with any budget
  `≥ bo * (bw + 1) + 1`; `C07_skip_shape_spec_of_pest_both` — `≥ bo * bw` when both rules exist.
* `C07_skip_shape_counts` — the exact iteration counts (both rules defined): on a skip that matches
  `nW` WHITESPACEs and `nC` COMMENTs with WHITESPACE runs of length `≤ m`, the single loop answers
  with any budget `> nW + nC` (its last iteration is the failing one), the nested shape with any
  `bo > nC` and `bw > m`; `C07_skip_shape_counts_exist` — every definite single loop has such a
  trace with `nW + nC < b`.
* `C07_skip_shape_specSkip` — the same agreement stated for `specSkip` itself (the `PExpr`
  interface `spec` uses).

Each theorem has a concrete instance next to it (`callEx`: WHITESPACE = one blank, COMMENT = one
`#`, on `␠␠#␠#x`), by `decide`.
-/
import PestTyped.Lemmas.SkipShape
namespace PestTyped

/-- Neither shape fails. -/
theorem C07_skip_shape_never_fails (call : String → Inp → List Sp → SR) (hasW hasC : Bool) (b bo bw : Nat)
    (i : Inp) (S : List Sp) :
    specSkipS call hasW hasC b i S ≠ .fail ∧ pestSkip call hasW hasC bo bw i S ≠ .fail := by
  cases hasW <;> cases hasC
  · refine ⟨?_, by simp [pestSkip]⟩
    cases b with
    | zero => simp [specSkipS, specRepLoop]
    | succ b => simp [specSkipS_ff]
  · rw [specSkipS_ft, pestSkip_ft]; exact ⟨starLoop_ne_fail _ _ _ _, starLoop_ne_fail _ _ _ _⟩
  · rw [specSkipS_tf, pestSkip_tf]; exact ⟨starLoop_ne_fail _ _ _ _, starLoop_ne_fail _ _ _ _⟩
  · rw [specSkipS_tt, pestSkip_tt]
    refine ⟨starLoop_ne_fail _ _ _ _, ?_⟩
    cases h : starLoop (call "WHITESPACE") bw i S with
    | oof => simp
    | fail => exact absurd h (starLoop_ne_fail _ _ _ _)
    | ok i1 S1 => exact starLoop_ne_fail _ _ _ _

/-- Exact counts (both rules defined): a trace with `nW` WHITESPACE and `nC` COMMENT matches, every
WHITESPACE run of length `≤ m`, is computed by the single loop with any budget `> nW + nC` and by the
nested shape with any `bo > nC`, `bw > m`. -/
theorem C07_skip_shape_counts (call : String → Inp → List Sp → SR) (m nC nW : Nat) (i : Inp) (S : List Sp)
    (i' : Inp) (S' : List Sp) (h : PestTrace call m nC nW i S i' S') :
    (∀ b, nW + nC < b → specSkipS call true true b i S = .ok i' S') ∧
    (∀ bo bw, nC < bo → m < bw → pestSkip call true true bo bw i S = .ok i' S') := by
  refine ⟨fun b hb => ?_, fun bo bw hbo hbw => pestSkip_of_trace h hbo hbw⟩
  rw [specSkipS_tt]
  exact starLoop_of_steps (unitSteps_of_pestTrace h) b hb

/-- Every definite single loop has such a trace, with `nW + nC < b` (so every WHITESPACE run and the
number of COMMENTs are below `b` as well). -/
theorem C07_skip_shape_counts_exist (call : String → Inp → List Sp → SR) (b : Nat) (i : Inp) (S : List Sp)
    (h : specSkipS call true true b i S ≠ .oof) :
    ∃ nC nW i' S', nW + nC < b ∧ PestTrace call (nW + nC) nC nW i S i' S' ∧
      specSkipS call true true b i S = .ok i' S' := by
  rw [specSkipS_tt] at h ⊢
  obtain ⟨n, i', S', hn, hs, he⟩ := starLoop_definite h
  obtain ⟨nC, nW, hsum, ht⟩ := pestTrace_of_unitSteps hs
  exact ⟨nC, nW, i', S', by omega, hsum ▸ ht, he⟩

/-- Single loop definite with budget `b` ⇒ nested shape definite and equal with budgets `≥ b`. -/
theorem C07_skip_shape_pest_of_spec (call : String → Inp → List Sp → SR) (hasW hasC : Bool) (b bo bw : Nat)
    (i : Inp) (S : List Sp) (hbo : b ≤ bo) (hbw : b ≤ bw)
    (h : specSkipS call hasW hasC b i S ≠ .oof) :
    pestSkip call hasW hasC bo bw i S = specSkipS call hasW hasC b i S := by
  cases hasW <;> cases hasC
  · cases b with
    | zero => simp [specSkipS, specRepLoop] at h
    | succ b => simp [specSkipS_ff, pestSkip]
  · rw [specSkipS_ft] at h ⊢; rw [pestSkip_ft]
    obtain ⟨k, i', S', hk, hs, he⟩ := starLoop_definite h
    rw [he]; exact starLoop_of_steps hs bo (by omega)
  · rw [specSkipS_tf] at h ⊢; rw [pestSkip_tf]
    obtain ⟨k, i', S', hk, hs, he⟩ := starLoop_definite h
    rw [he]; exact starLoop_of_steps hs bo (by omega)
  · obtain ⟨nC, nW, i', S', hlt, ht, he⟩ := C07_skip_shape_counts_exist call b i S h
    rw [he]
    exact pestSkip_of_trace ht (by omega) (by omega)

/-- Nested shape definite with budgets `bo`, `bw`, both rules defined ⇒ single loop definite and equal
with any budget `≥ bo * bw`. -/
theorem C07_skip_shape_spec_of_pest_both (call : String → Inp → List Sp → SR) (bo bw b : Nat)
    (i : Inp) (S : List Sp) (hb : bo * bw ≤ b)
    (h : pestSkip call true true bo bw i S ≠ .oof) :
    specSkipS call true true b i S = pestSkip call true true bo bw i S := by
  obtain ⟨nC, nW, i', S', ht, hC, hw0, hW, he⟩ := trace_of_pestSkip h
  rw [he]
  refine (C07_skip_shape_counts call _ nC nW i S i' S' ht).1 b ?_
  -- nW + nC ≤ (nC+1)*(bw-1) + nC < (nC+1)*bw ≤ bo*bw
  obtain ⟨c, rfl⟩ : ∃ c, bw = c+1 := ⟨bw-1, by omega⟩
  have h1 : (nC+1) * (c+1) ≤ bo * (c+1) := Nat.mul_le_mul_right _ hC
  have h2 : (nC+1) * (c+1) = (nC+1) * c + (nC+1) := Nat.mul_succ _ _
  simp only [Nat.add_sub_cancel] at hW
  omega

/-- Nested shape definite with budgets `bo`, `bw` ⇒ single loop definite and equal with any budget
`≥ bo * (bw + 1) + 1` (uniform in which of the two rules exist). -/
theorem C07_skip_shape_spec_of_pest (call : String → Inp → List Sp → SR) (hasW hasC : Bool) (bo bw b : Nat)
    (i : Inp) (S : List Sp) (hb : bo * (bw + 1) + 1 ≤ b)
    (h : pestSkip call hasW hasC bo bw i S ≠ .oof) :
    specSkipS call hasW hasC b i S = pestSkip call hasW hasC bo bw i S := by
  have hbo : bo ≤ bo * (bw + 1) := Nat.le_mul_of_pos_right _ (Nat.succ_pos _)
  cases hasW <;> cases hasC
  · obtain ⟨b, rfl⟩ : ∃ c, b = c+1 := ⟨b-1, by omega⟩
    simp [specSkipS_ff, pestSkip]
  · rw [pestSkip_ft] at h ⊢; rw [specSkipS_ft]
    obtain ⟨k, i', S', hk, hs, he⟩ := starLoop_definite h
    rw [he]; exact starLoop_of_steps hs b (by omega)
  · rw [pestSkip_tf] at h ⊢; rw [specSkipS_tf]
    obtain ⟨k, i', S', hk, hs, he⟩ := starLoop_definite h
    rw [he]; exact starLoop_of_steps hs b (by omega)
  · refine C07_skip_shape_spec_of_pest_both call bo bw b i S ?_ h
    have : bo * (bw + 1) = bo * bw + bo := Nat.mul_succ _ _
    omega

/-- THE agreement: for every `call`, flags, budgets, cursor and stack, whenever the Spec's single loop
and pest's nested shape are both definite they return the same cursor and the same stack. -/
theorem C07_skip_shapes_agree (call : String → Inp → List Sp → SR) (hasW hasC : Bool) (b bo bw : Nat)
    (i : Inp) (S : List Sp)
    (hs : specSkipS call hasW hasC b i S ≠ .oof) (hp : pestSkip call hasW hasC bo bw i S ≠ .oof) :
    specSkipS call hasW hasC b i S = pestSkip call hasW hasC bo bw i S := by
  -- both equal the single loop at a large budget
  have h1 := C07_skip_shape_spec_of_pest call hasW hasC bo bw (b + (bo * (bw + 1) + 1)) i S (by omega) hp
  have h2 := C07_skip_shape_pest_of_spec call hasW hasC b (b + bo) (b + bw) i S (by omega) (by omega) hs
  -- the single loop is budget-independent once definite: go through the nested shape at (b+bo, b+bw)
  have hp2 : pestSkip call hasW hasC (b+bo) (b+bw) i S ≠ .oof := by rw [h2]; exact hs
  have h3 := C07_skip_shape_spec_of_pest call hasW hasC (b+bo) (b+bw)
    (b + (bo * (bw + 1) + 1) + ((b+bo) * (b+bw+1) + 1)) i S (by omega) hp2
  have h4 := C07_skip_shape_spec_of_pest call hasW hasC bo bw
    (b + (bo * (bw + 1) + 1) + ((b+bo) * (b+bw+1) + 1)) i S (by omega) hp
  rw [← h2, ← h3, h4]

/-- The same for `specSkip` as `spec` calls it (rule references through `PExpr.ident`). -/
theorem C07_skip_shape_specSkip (call : PExpr → Inp → List Sp → SR) (hasW hasC : Bool) (b bo bw : Nat)
    (i : Inp) (S : List Sp)
    (hs : specSkip call hasW hasC b i S ≠ .oof)
    (hp : pestSkip (fun nm i S => call (.ident nm) i S) hasW hasC bo bw i S ≠ .oof) :
    specSkip call hasW hasC b i S = pestSkip (fun nm i S => call (.ident nm) i S) hasW hasC bo bw i S := by
  rw [specSkip_eq_specSkipS] at hs ⊢
  exact C07_skip_shapes_agree _ hasW hasC b bo bw i S hs hp

/-! ### Non-vacuity: WHITESPACE = one blank, COMMENT = one `#` (and a PUSH-like COMMENT that grows the stack) -/

def oneCharEx (c : Char) (push : Bool) (i : Inp) (S : List Sp) : SR :=
  match i.rest with
  | d :: _ => if d = c then .ok (i.adv 1) (if push then i.spanTo (i.adv 1) :: S else S) else .fail
  | [] => .fail

/-- WHITESPACE = `" "`, COMMENT = `PUSH("#")` (so the stack is observable too). -/
def callEx (nm : String) (i : Inp) (S : List Sp) : SR :=
  if nm = "WHITESPACE" then oneCharEx ' ' false i S
  else if nm = "COMMENT" then oneCharEx '#' true i S
  else .fail

def inpEx : Inp := ⟨0, 0, [' ', ' ', '#', ' ', '#', 'x'], []⟩

/-- Both shapes are definite on `␠␠#␠#x` and stop at 5 having matched 3 WHITESPACEs and 2 COMMENTs
(two stack entries): the hypotheses of `C07_skip_shapes_agree` are satisfiable on a non-trivial run. -/
example : specSkipS callEx true true 6 inpEx [] = .ok ⟨0, 5, ['x'], []⟩ [⟨4, 5, ['#']⟩, ⟨2, 3, ['#']⟩]
    ∧ pestSkip callEx true true 3 3 inpEx [] = .ok ⟨0, 5, ['x'], []⟩ [⟨4, 5, ['#']⟩, ⟨2, 3, ['#']⟩] := by decide

/-- The budgets of `C07_skip_shape_counts` are sharp on that run: `nW + nC = 5`, `nC = 2`, longest
WHITESPACE run `2`; one less on any budget and the answer is `.oof`. -/
example : specSkipS callEx true true 5 inpEx [] = .oof
    ∧ pestSkip callEx true true 2 3 inpEx [] = .oof ∧ pestSkip callEx true true 3 2 inpEx [] = .oof := by decide

/-- The trace hypothesis of `C07_skip_shape_counts` on that run. -/
example : PestTrace callEx 2 2 3 inpEx [] ⟨0, 5, ['x'], []⟩ [⟨4, 5, ['#']⟩, ⟨2, 3, ['#']⟩] :=
  ⟨2, 1, ⟨0, 2, ['#', ' ', '#', 'x'], []⟩, [],
    .step (i1 := ⟨0, 1, [' ', '#', ' ', '#', 'x'], []⟩) (S1 := []) (by decide) (.step (by decide) (.done (by decide))),
    by decide,
    .step (k := 1) (w := 0) (ia := ⟨0, 3, [' ', '#', 'x'], []⟩) (Sa := [⟨2, 3, ['#']⟩]) (by decide)
      (.step (i1 := ⟨0, 4, ['#', 'x'], []⟩) (S1 := [⟨2, 3, ['#']⟩]) (by decide) (.done (by decide))) (by decide)
      (.step (k := 0) (w := 0) (ia := ⟨0, 5, ['x'], []⟩) (Sa := [⟨4, 5, ['#']⟩, ⟨2, 3, ['#']⟩]) (by decide)
        (.done (by decide)) (by decide) (.done (by decide))),
    by decide⟩

/-- Degenerate forms are exercised too (only WHITESPACE / only COMMENT / none). -/
example : specSkipS callEx true false 3 inpEx [] = .ok ⟨0, 2, ['#', ' ', '#', 'x'], []⟩ []
    ∧ pestSkip callEx true false 3 0 inpEx [] = .ok ⟨0, 2, ['#', ' ', '#', 'x'], []⟩ []
    ∧ specSkipS callEx false true 1 inpEx [] = .ok inpEx []
    ∧ pestSkip callEx false true 1 0 inpEx [] = .ok inpEx []
    ∧ specSkipS callEx false false 1 inpEx [] = .ok inpEx []
    ∧ pestSkip callEx false false 0 0 inpEx [] = .ok inpEx [] := by decide

end PestTyped
