/-
Props.C01 — The typed parser recognises exactly what pest recognises, consuming the same prefix.

Property (properties.jsonl, C01): for any grammar pest accepts and any of its rules used as entry
point, parsing a prefix of an input with the generated typed parser succeeds exactly when the parser
pest itself generates from that grammar succeeds, and both stop at the same byte offset.  Where pest
has no defined answer (it panics on PEEK/POP of an empty stack, or its optimizer leaves out a stack
restore) the answer is the one PEG semantics with full backtracking gives, with empty-stack
operations failing instead of panicking.

Model.  pest's meaning of a grammar is `spec g` (Model/Spec.lean: dynamic atomicity `na`, implicit
skip between sequence elements and repetition iterations, IMMUTABLE stack, failing empty-stack
operations).  The code under test is the generator `gen g` / `genExpr g sk e` (Model/Gen.lean: static
skip flag `0 | 1 | INHERITED` from the rule kind, right-spine flattening of `~` and `|`, built-in
aliases, the `Skipped` type) run by the runtime interpreter `parse` / `check` (Model/Run.lean).
Both are fuel-indexed total functions; fuel is only a totalisation device, `oof` = "no answer at
this fuel".  `Rel rt rs` (Lemmas/Sim.lean): the typed result `rt` shows the Spec outcome `rs` — same
verdict, same end cursor (hence same byte offset), same final stack; `Res.outcome` is the Spec's view
of a typed result (`Rel rt rs ↔ rs = oof ∨ rt.outcome = rs`).

Hypothesis `SkipRulesAtomicLike g` (Lemmas/SkipLike.lean; the same as C02's): the rule the name
WHITESPACE (resp. COMMENT) resolves to, if any, is declared `@` or `$`, OR its body is "simple"
(`SimpleSkipBody`: no sequence, no repetition, no reference to a rule of the grammar, no `EOI`).
pest forces the bodies of rules with these names to be atomic whatever their declared kind;
pest-typed gives them their declared kind (known finding F-WS).  In a simple body nothing consults
the atomicity (`spec_simple_na`), so the idiomatic `WHITESPACE = _{ " " }`, `{ " " | "\t" | NEWLINE }`,
`COMMENT = !{ "#" }` are covered (`c01SG` below).  The hypothesis is strictly weaker than the earlier
`SkipRulesAtomic g` (every rule NAMED WHITESPACE / COMMENT is `@` / `$`): `SkipRulesAtomic.like`,
`c01SG_like`, `c01SG_not_atomic`; every theorem below therefore also holds under `SkipRulesAtomic g`
(pass `hws.like`).  `C01_counterexample_F_WS` shows on a concrete grammar that the theorem is false
without the hypothesis.  No other hypothesis on the grammar is needed
(duplicate rule names, undefined names, left recursion … are all covered: both sides resolve a name
with the same `indexOf`, undefined names are built-ins / Unicode properties, divergence is `oof`).

Theorems (all for every grammar, expression, flag, cursor, stack, tracker, fuel)
* `C01_forward`            — whenever the Spec answers, some typed fuel gives the same answer.
* `C01_forward_eventually` — … and so does every larger typed fuel (one and the same result).
* `C01_forward_check`      — the same for the check path.
* `C01_forward_entry`, `C01_forward_entry_check` — entry points `try_parse_partial` /
  `try_check_partial` of rule `name` (index `k`, rule id `k+1`) against `specPartial`.
* `C01_agree`, `C01_agree_check`, `C01_agree_entry`, `C01_agree_entry_check` — two definite answers
  (typed at any fuel, Spec at any fuel) never disagree: verdict, end cursor and stack are equal.
* `C01_backward`, `C01_backward_check`, `C01_backward_entry`, `C01_backward_entry_check` — the
  converse: whenever the typed run answers (at some fuel), the Spec answers the same at every
  sufficiently large fuel (so the typed parser never has a definite answer where pest diverges).
* `C01_iff`, `C01_iff_entry` — "exactly when": a definite outcome `o` (match at a cursor with a
  stack, or no match) is reached by the typed parser at some fuel iff it is reached by the Spec at
  some fuel.
* `C01_counterexample_F_WS` — the hypothesis cannot be dropped.
Each theorem is instantiated on `c01G` (`WHITESPACE = @{ " " }`) next to it and on `c01SG` (`WHITESPACE = _{ " " }`,
silent: the case the weaker hypothesis adds) in the section after `C01_iff_entry`.
-/
import PestTyped.Lemmas.SimMain
import PestTyped.Lemmas.SimBack
namespace PestTyped

/-! ### concrete instances for non-vacuity -/

/-- `WHITESPACE = @{ " " }  item = { "a" ~ "b"* }  main = { PUSH(item) ~ POP ~ EOI }`. -/
def c01G : PGrammar :=
  [ ⟨"WHITESPACE", .atomic, .str [' ']⟩,
    ⟨"item", .normal, .seq (.str ['a']) (.rep (.str ['b']))⟩,
    ⟨"main", .normal, .seq (.push (.ident "item")) (.seq (.ident "POP") (.ident "EOI"))⟩ ]

def c01Uni : Uni := fun _ _ => false
/-- The input `a b a b`. -/
def c01I : Inp := ⟨0, 0, ['a', ' ', 'b', ' ', 'a', ' ', 'b'], []⟩

theorem c01G_ws : SkipRulesAtomic c01G := by
  intro r hr h
  simp only [c01G, List.mem_cons, List.not_mem_nil, or_false] at hr
  rcases hr with rfl | rfl | rfl
  · exact Or.inl rfl
  · simp at h
  · simp at h

/-- … hence the (weaker) hypothesis of the theorems. -/
theorem c01G_like : SkipRulesAtomicLike c01G := c01G_ws.like

theorem c01G_main : c01G.indexOf "main" = some 2 := by decide

set_option maxRecDepth 100000 in
theorem c01_spec_main : specPartial c01G c01Uni 8 "main" c01I = .ok ⟨0, 7, [], []⟩ [] := by decide

/-- The module generated for `c01G`, written out (`genExpr` is defined by well-founded recursion and
does not reduce in the kernel; `simp` computes it). -/
def c01NG : NodeGrammar :=
  { rules := [eoiDef,
      { name := "WHITESPACE", atom := .atomic, emit := .span, boxed := true, body := .str [' '] },
      { name := "item", atom := .inherited, emit := .both, boxed := true,
        body := .seq .inh [.str ['a'], .rep .inh 0 none (.str ['b'])] },
      { name := "main", atom := .inherited, emit := .both, boxed := true,
        body := .seq .inh [.push (.ref 2 .inh), .pop, .ref 0 .one] }],
    skipped := .atomicRepeat (.ref 1 .zero) }

theorem c01_gen : gen c01G = c01NG := by
  simp [gen, c01G, c01NG, genRule, genExpr, genSeqSpine, genSkipped, PGrammar.indexOf, PGrammar.indexOf.go,
    kindAtomicity, kindEmission, atomFlag, builtinNode]

set_option maxRecDepth 100000 in
theorem c01_typed_main : (tryParsePartial (gen c01G) c01Uni 9 3 c01I).outcome = .ok ⟨0, 7, [], []⟩ [] := by
  rw [c01_gen]
  decide

set_option maxRecDepth 100000 in
theorem c01_check_main : (tryCheckPartial (gen c01G) c01Uni 9 3 c01I).outcome = .ok ⟨0, 7, [], []⟩ [] := by
  rw [c01_gen]
  decide

theorem c01_typed_ne_oof : tryParsePartial (gen c01G) c01Uni 9 3 c01I ≠ .oof := by
  intro h0; have := c01_typed_main; rw [h0] at this; cases this

theorem c01_check_ne_oof : tryCheckPartial (gen c01G) c01Uni 9 3 c01I ≠ .oof := by
  intro h0; have := c01_check_main; rw [h0] at this; cases this

theorem c01_spec_ne_oof : specPartial c01G c01Uni 8 "main" c01I ≠ .oof := by
  rw [c01_spec_main]; nofun

theorem c01_genExpr_main : genExpr c01G .one (.ident "main") = .ref 3 .one := by
  simp only [genExpr, c01G_main]

/-! ### forward: the typed parser computes the Spec's answer -/

/-- C01 (forward).  Whenever the reference semantics answers (match or no match) for expression `e`
under atomicity `na` from cursor `i` and stack `S`, the generated node `genExpr g sk e`, run with an
`INHERITED` argument such that the static flag means `na`, answers the same from any tracker, given
enough fuel: same verdict, same end cursor, same final stack. -/
theorem C01_forward (g : PGrammar) (uni : Uni) (hws : SkipRulesAtomicLike g) :
    ∀ n na e i S, spec g uni n na e i S ≠ .oof →
      ∀ inh sk trk, Flag.eval sk inh = na →
        ∃ n', Rel (parse (gen g) uni n' inh (genExpr g sk e) i ⟨S, trk⟩) (spec g uni n na e i S) :=
  fun n na e i S hne inh sk trk hsk => (sim_all hws n na e i S hne inh sk trk hsk).exists

example : ∃ n', Rel (parse (gen c01G) c01Uni n' true (genExpr c01G .one (.ident "main")) c01I ⟨[], Tracker.new c01I⟩)
    (spec c01G c01Uni 8 true (.ident "main") c01I []) :=
  C01_forward c01G c01Uni c01G_like 8 true (.ident "main") c01I []
    (by have := c01_spec_main; unfold specPartial at this; rw [this]; nofun) true .one _ rfl

/-- C01 (forward, all large fuels).  From some typed fuel on the typed result is one and the same
and shows the Spec's answer. -/
theorem C01_forward_eventually (g : PGrammar) (uni : Uni) (hws : SkipRulesAtomicLike g) :
    ∀ n na e i S, spec g uni n na e i S ≠ .oof →
      ∀ inh sk trk, Flag.eval sk inh = na →
        ∃ n0 r, Rel r (spec g uni n na e i S) ∧
          ∀ n', n0 ≤ n' → parse (gen g) uni n' inh (genExpr g sk e) i ⟨S, trk⟩ = r :=
  fun n na e i S hne inh sk trk hsk => sim_all hws n na e i S hne inh sk trk hsk

example : ∃ n0 r, Rel r (spec c01G c01Uni 8 true (.ident "main") c01I []) ∧
    ∀ n', n0 ≤ n' →
      parse (gen c01G) c01Uni n' true (genExpr c01G .one (.ident "main")) c01I ⟨[], Tracker.new c01I⟩ = r :=
  C01_forward_eventually c01G c01Uni c01G_like 8 true (.ident "main") c01I []
    (by have := c01_spec_main; unfold specPartial at this; rw [this]; nofun) true .one _ rfl

/-- C01 (forward, check path). -/
theorem C01_forward_check (g : PGrammar) (uni : Uni) (hws : SkipRulesAtomicLike g) :
    ∀ n na e i S, spec g uni n na e i S ≠ .oof →
      ∀ inh sk trk, Flag.eval sk inh = na →
        ∃ n', Rel (check (gen g) uni n' inh (genExpr g sk e) i ⟨S, trk⟩) (spec g uni n na e i S) := by
  intro n na e i S hne inh sk trk hsk
  obtain ⟨n', h⟩ := C01_forward g uni hws n na e i S hne inh sk trk hsk
  exact ⟨n', by rw [check_eq_parse_forget]; exact h.forget⟩

example : ∃ n', Rel (check (gen c01G) c01Uni n' true (genExpr c01G .one (.ident "main")) c01I ⟨[], Tracker.new c01I⟩)
    (spec c01G c01Uni 8 true (.ident "main") c01I []) :=
  C01_forward_check c01G c01Uni c01G_like 8 true (.ident "main") c01I []
    (by have := c01_spec_main; unfold specPartial at this; rw [this]; nofun) true .one _ rfl

/-- C01 (forward, entry point).  `R::try_parse_partial(input)` for the rule named `name` (the
`k`-th rule, rule id `k+1`) against pest's parse of `name` from an empty stack in NonAtomic mode. -/
theorem C01_forward_entry (g : PGrammar) (uni : Uni) (hws : SkipRulesAtomicLike g) (name : String) (k : Nat)
    (hk : g.indexOf name = some k) (n : Nat) (i : Inp) (hne : specPartial g uni n name i ≠ .oof) :
    ∃ n', Rel (tryParsePartial (gen g) uni n' (k+1) i) (specPartial g uni n name i) := by
  have := C01_forward g uni hws n true (.ident name) i [] hne true .one (Tracker.new i) rfl
  simp only [genExpr, hk] at this
  exact this

example : ∃ n', Rel (tryParsePartial (gen c01G) c01Uni n' 3 c01I) (specPartial c01G c01Uni 8 "main" c01I) :=
  C01_forward_entry c01G c01Uni c01G_like "main" 2 c01G_main 8 c01I (by rw [c01_spec_main]; nofun)

/-- C01 (forward, entry point, check path): `R::try_check_partial(input)`. -/
theorem C01_forward_entry_check (g : PGrammar) (uni : Uni) (hws : SkipRulesAtomicLike g) (name : String) (k : Nat)
    (hk : g.indexOf name = some k) (n : Nat) (i : Inp) (hne : specPartial g uni n name i ≠ .oof) :
    ∃ n', Rel (tryCheckPartial (gen g) uni n' (k+1) i) (specPartial g uni n name i) := by
  have := C01_forward_check g uni hws n true (.ident name) i [] hne true .one (Tracker.new i) rfl
  simp only [genExpr, hk] at this
  exact this

example : ∃ n', Rel (tryCheckPartial (gen c01G) c01Uni n' 3 c01I) (specPartial c01G c01Uni 8 "main" c01I) :=
  C01_forward_entry_check c01G c01Uni c01G_like "main" 2 c01G_main 8 c01I (by rw [c01_spec_main]; nofun)

/-! ### agreement: two definite answers never differ -/

/-- C01 (agreement).  If the typed run answers `a` at some fuel and the Spec answers `b` at some
(other) fuel, then `a` shows exactly `b`: same verdict, same end cursor, same stack. -/
theorem C01_agree (g : PGrammar) (uni : Uni) (hws : SkipRulesAtomicLike g) (n1 n2 : Nat) (na : Bool) (e : PExpr)
    (i : Inp) (S : List Sp) (inh : Bool) (sk : Flag) (trk : Tracker) (hsk : Flag.eval sk inh = na)
    (a : R Val) (b : SR)
    (ha : parse (gen g) uni n1 inh (genExpr g sk e) i ⟨S, trk⟩ = a) (hb : spec g uni n2 na e i S = b)
    (hane : a ≠ .oof) (hbne : b ≠ .oof) : a.outcome = b := by
  subst hb
  obtain ⟨n', hrel⟩ := C01_forward g uni hws n2 na e i S hbne inh sk trk hsk
  have h1 := parse_mono ha hane n'
  have h2 := parse_mono (g := gen g) (uni := uni) (n := n') (inh := inh) (node := genExpr g sk e) (i := i)
    (m := ⟨S, trk⟩) rfl (hrel.ne_oof hbne) n1
  rw [Nat.add_comm] at h2
  rw [h1] at h2
  rw [← h2] at hrel
  exact hrel.outcome_eq hbne

example : (parse (gen c01G) c01Uni 9 true (genExpr c01G .one (.ident "main")) c01I ⟨[], Tracker.new c01I⟩).outcome
    = spec c01G c01Uni 8 true (.ident "main") c01I [] :=
  C01_agree c01G c01Uni c01G_like 9 8 true (.ident "main") c01I [] true .one _ rfl _ _ rfl rfl
    (by
      have h : genExpr c01G .one (.ident "main") = .ref 3 .one := by simp only [genExpr, c01G_main]
      have := c01_typed_main
      unfold tryParsePartial M.init at this
      rw [h]
      intro h0; rw [h0] at this; cases this)
    (by have := c01_spec_main; unfold specPartial at this; rw [this]; nofun)

/-- C01 (agreement, check path). -/
theorem C01_agree_check (g : PGrammar) (uni : Uni) (hws : SkipRulesAtomicLike g) (n1 n2 : Nat) (na : Bool)
    (e : PExpr) (i : Inp) (S : List Sp) (inh : Bool) (sk : Flag) (trk : Tracker) (hsk : Flag.eval sk inh = na)
    (a : R Unit) (b : SR)
    (ha : check (gen g) uni n1 inh (genExpr g sk e) i ⟨S, trk⟩ = a) (hb : spec g uni n2 na e i S = b)
    (hane : a ≠ .oof) (hbne : b ≠ .oof) : a.outcome = b := by
  rw [check_eq_parse_forget] at ha
  subst ha
  rw [outcome_forget]
  refine C01_agree g uni hws n1 n2 na e i S inh sk trk hsk _ b rfl hb ?_ hbne
  intro h0
  rw [h0] at hane
  exact hane rfl

example : (check (gen c01G) c01Uni 9 true (genExpr c01G .one (.ident "main")) c01I ⟨[], Tracker.new c01I⟩).outcome
    = spec c01G c01Uni 8 true (.ident "main") c01I [] :=
  C01_agree_check c01G c01Uni c01G_like 9 8 true (.ident "main") c01I [] true .one _ rfl _ _ rfl rfl
    (by rw [c01_genExpr_main]; exact c01_check_ne_oof) c01_spec_ne_oof

/-- C01 (agreement, entry point): `try_parse_partial` of rule `name` and pest's parse of `name`,
each at a fuel where it answers, give the same verdict, end offset and stack. -/
theorem C01_agree_entry (g : PGrammar) (uni : Uni) (hws : SkipRulesAtomicLike g) (name : String) (k : Nat)
    (hk : g.indexOf name = some k) (n1 n2 : Nat) (i : Inp) (a : R Val) (b : SR)
    (ha : tryParsePartial (gen g) uni n1 (k+1) i = a) (hb : specPartial g uni n2 name i = b)
    (hane : a ≠ .oof) (hbne : b ≠ .oof) : a.outcome = b := by
  refine C01_agree g uni hws n1 n2 true (.ident name) i [] true .one (Tracker.new i) rfl a b ?_ hb hane hbne
  simp only [genExpr, hk]
  exact ha

example : (tryParsePartial (gen c01G) c01Uni 9 3 c01I).outcome = specPartial c01G c01Uni 8 "main" c01I :=
  C01_agree_entry c01G c01Uni c01G_like "main" 2 c01G_main 9 8 c01I _ _ rfl rfl
    (by intro h0; have := c01_typed_main; rw [h0] at this; cases this)
    (by rw [c01_spec_main]; nofun)

/-- C01 (agreement, entry point, check path). -/
theorem C01_agree_entry_check (g : PGrammar) (uni : Uni) (hws : SkipRulesAtomicLike g) (name : String) (k : Nat)
    (hk : g.indexOf name = some k) (n1 n2 : Nat) (i : Inp) (a : R Unit) (b : SR)
    (ha : tryCheckPartial (gen g) uni n1 (k+1) i = a) (hb : specPartial g uni n2 name i = b)
    (hane : a ≠ .oof) (hbne : b ≠ .oof) : a.outcome = b := by
  refine C01_agree_check g uni hws n1 n2 true (.ident name) i [] true .one (Tracker.new i) rfl a b ?_ hb hane hbne
  simp only [genExpr, hk]
  exact ha

/-! ### backward: a definite typed answer is the Spec's answer -/

/-- C01 (backward).  Whenever the typed run of the generated node answers at some fuel `k`, the
reference semantics answers at every sufficiently large fuel, and its answer is the typed one:
same verdict, same end cursor, same final stack. -/
theorem C01_backward (g : PGrammar) (uni : Uni) (hws : SkipRulesAtomicLike g) :
    ∀ k inh sk na e i S trk, Flag.eval sk inh = na →
      parse (gen g) uni k inh (genExpr g sk e) i ⟨S, trk⟩ ≠ .oof →
      ∃ n0, ∀ n, n0 ≤ n →
        spec g uni n na e i S = (parse (gen g) uni k inh (genExpr g sk e) i ⟨S, trk⟩).outcome :=
  fun k inh sk na e i S trk hsk hne => back_all hws k inh sk na e i S trk hsk hne

example : ∃ n0, ∀ n, n0 ≤ n → spec c01G c01Uni n true (.ident "main") c01I [] =
    (parse (gen c01G) c01Uni 9 true (genExpr c01G .one (.ident "main")) c01I ⟨[], Tracker.new c01I⟩).outcome :=
  C01_backward c01G c01Uni c01G_like 9 true .one true (.ident "main") c01I [] _ rfl
    (by
      have h : genExpr c01G .one (.ident "main") = .ref 3 .one := by simp only [genExpr, c01G_main]
      have := c01_typed_main
      unfold tryParsePartial M.init at this
      rw [h]
      intro h0; rw [h0] at this; cases this)

/-- C01 (backward, check path). -/
theorem C01_backward_check (g : PGrammar) (uni : Uni) (hws : SkipRulesAtomicLike g) :
    ∀ k inh sk na e i S trk, Flag.eval sk inh = na →
      check (gen g) uni k inh (genExpr g sk e) i ⟨S, trk⟩ ≠ .oof →
      ∃ n0, ∀ n, n0 ≤ n →
        spec g uni n na e i S = (check (gen g) uni k inh (genExpr g sk e) i ⟨S, trk⟩).outcome := by
  intro k inh sk na e i S trk hsk hne
  rw [check_eq_parse_forget] at hne ⊢
  rw [outcome_forget]
  refine C01_backward g uni hws k inh sk na e i S trk hsk ?_
  intro h0
  rw [h0] at hne
  exact hne rfl

/-- C01 (backward, entry point): a definite answer of `R::try_parse_partial` for the rule named
`name` is pest's answer for `name`. -/
theorem C01_backward_entry (g : PGrammar) (uni : Uni) (hws : SkipRulesAtomicLike g) (name : String) (r : Nat)
    (hr : g.indexOf name = some r) (k : Nat) (i : Inp) (hne : tryParsePartial (gen g) uni k (r+1) i ≠ .oof) :
    ∃ n0, ∀ n, n0 ≤ n → specPartial g uni n name i = (tryParsePartial (gen g) uni k (r+1) i).outcome := by
  have := C01_backward g uni hws k true .one true (.ident name) i [] (Tracker.new i) rfl
  simp only [genExpr, hr] at this
  exact this hne

example : ∃ n0, ∀ n, n0 ≤ n → specPartial c01G c01Uni n "main" c01I = (tryParsePartial (gen c01G) c01Uni 9 3 c01I).outcome :=
  C01_backward_entry c01G c01Uni c01G_like "main" 2 c01G_main 9 c01I
    (by intro h0; have := c01_typed_main; rw [h0] at this; cases this)

/-- C01 (backward, entry point, check path). -/
theorem C01_backward_entry_check (g : PGrammar) (uni : Uni) (hws : SkipRulesAtomicLike g) (name : String) (r : Nat)
    (hr : g.indexOf name = some r) (k : Nat) (i : Inp) (hne : tryCheckPartial (gen g) uni k (r+1) i ≠ .oof) :
    ∃ n0, ∀ n, n0 ≤ n → specPartial g uni n name i = (tryCheckPartial (gen g) uni k (r+1) i).outcome := by
  have := C01_backward_check g uni hws k true .one true (.ident name) i [] (Tracker.new i) rfl
  simp only [genExpr, hr] at this
  exact this hne

/-! ### exactly when -/

/-- C01 ("exactly when").  A definite outcome `o` — a match ending at a given cursor with a given
stack, or no match — is what the typed run of the generated node gives at some fuel if and only if it
is what the reference semantics gives at some fuel. -/
theorem C01_iff (g : PGrammar) (uni : Uni) (hws : SkipRulesAtomicLike g) (inh : Bool) (sk : Flag) (na : Bool)
    (hsk : Flag.eval sk inh = na) (e : PExpr) (i : Inp) (S : List Sp) (trk : Tracker) (o : SR) (ho : o ≠ .oof) :
    (∃ k, (parse (gen g) uni k inh (genExpr g sk e) i ⟨S, trk⟩).outcome = o) ↔ (∃ n, spec g uni n na e i S = o) := by
  constructor
  · rintro ⟨k, hk⟩
    have hne : parse (gen g) uni k inh (genExpr g sk e) i ⟨S, trk⟩ ≠ .oof := by
      intro h0; rw [h0] at hk; exact ho hk.symm
    obtain ⟨n0, h0⟩ := C01_backward g uni hws k inh sk na e i S trk hsk hne
    exact ⟨n0, by rw [h0 n0 (Nat.le_refl _), hk]⟩
  · rintro ⟨n, hn⟩
    obtain ⟨k, hk⟩ := C01_forward g uni hws n na e i S (by rw [hn]; exact ho) inh sk trk hsk
    rw [hn] at hk
    exact ⟨k, hk.outcome_eq ho⟩

/-- C01 ("exactly when", entry point).  `R::try_parse_partial(input)` for the rule named `name`
matches and stops at a given offset (resp. does not match) at some fuel exactly when pest's parse of
`name` does at some fuel. -/
theorem C01_iff_entry (g : PGrammar) (uni : Uni) (hws : SkipRulesAtomicLike g) (name : String) (r : Nat)
    (hr : g.indexOf name = some r) (i : Inp) (o : SR) (ho : o ≠ .oof) :
    (∃ k, (tryParsePartial (gen g) uni k (r+1) i).outcome = o) ↔ (∃ n, specPartial g uni n name i = o) := by
  have := C01_iff g uni hws true .one true rfl (.ident name) i [] (Tracker.new i) o ho
  simp only [genExpr, hr] at this
  exact this

example : (∃ k, (tryParsePartial (gen c01G) c01Uni k 3 c01I).outcome = .ok ⟨0, 7, [], []⟩ []) ↔
    (∃ n, specPartial c01G c01Uni n "main" c01I = .ok ⟨0, 7, [], []⟩ []) :=
  C01_iff_entry c01G c01Uni c01G_like "main" 2 c01G_main c01I _ (by nofun)

example : ∃ n, specPartial c01G c01Uni n "main" c01I = .ok ⟨0, 7, [], []⟩ [] := ⟨8, c01_spec_main⟩

example : ∃ n0, ∀ n, n0 ≤ n → spec c01G c01Uni n true (.ident "main") c01I [] =
    (check (gen c01G) c01Uni 9 true (genExpr c01G .one (.ident "main")) c01I ⟨[], Tracker.new c01I⟩).outcome :=
  C01_backward_check c01G c01Uni c01G_like 9 true .one true (.ident "main") c01I [] _ rfl
    (by rw [c01_genExpr_main]; exact c01_check_ne_oof)

example : ∃ n0, ∀ n, n0 ≤ n → specPartial c01G c01Uni n "main" c01I = (tryCheckPartial (gen c01G) c01Uni 9 3 c01I).outcome :=
  C01_backward_entry_check c01G c01Uni c01G_like "main" 2 c01G_main 9 c01I c01_check_ne_oof

example : (tryCheckPartial (gen c01G) c01Uni 9 3 c01I).outcome = specPartial c01G c01Uni 8 "main" c01I :=
  C01_agree_entry_check c01G c01Uni c01G_like "main" 2 c01G_main 9 8 c01I _ _ rfl rfl c01_check_ne_oof c01_spec_ne_oof

example : (∃ k, (parse (gen c01G) c01Uni k true (genExpr c01G .one (.ident "main")) c01I ⟨[], Tracker.new c01I⟩).outcome
      = .ok ⟨0, 7, [], []⟩ []) ↔ (∃ n, spec c01G c01Uni n true (.ident "main") c01I [] = .ok ⟨0, 7, [], []⟩ []) :=
  C01_iff c01G c01Uni c01G_like true .one true rfl (.ident "main") c01I [] _ _ (by nofun)

/-! ### non-vacuity of the weaker hypothesis: the idiomatic silent `WHITESPACE = _{ " " }` -/

/-- `WHITESPACE = _{ " " }  item = { "a" ~ "b"* }  main = { PUSH(item) ~ POP ~ EOI }`: `c01G` with
WHITESPACE declared SILENT (the form the test corpus uses). -/
def c01SG : PGrammar :=
  [ ⟨"WHITESPACE", .silent, .str [' ']⟩,
    ⟨"item", .normal, .seq (.str ['a']) (.rep (.str ['b']))⟩,
    ⟨"main", .normal, .seq (.push (.ident "item")) (.seq (.ident "POP") (.ident "EOI"))⟩ ]

/-- The hypothesis of the theorems holds: WHITESPACE has a simple body; COMMENT is not defined. -/
theorem c01SG_like : SkipRulesAtomicLike c01SG := by
  intro nm r hnm hf
  rcases hnm with rfl | rfl
  · simp [PGrammar.find?, PGrammar.indexOf, PGrammar.indexOf.go, c01SG] at hf
    subst hf
    exact Or.inr (by simp [SimpleSkipBody])
  · simp [PGrammar.find?, PGrammar.indexOf, PGrammar.indexOf.go, c01SG] at hf

/-- … while the earlier, stronger hypothesis does not (WHITESPACE is neither `@` nor `$`). -/
theorem c01SG_not_atomic : ¬ SkipRulesAtomic c01SG := by
  intro h
  have := h ⟨"WHITESPACE", .silent, .str [' ']⟩ (by simp [c01SG]) (Or.inl rfl)
  simp at this

theorem c01SG_main : c01SG.indexOf "main" = some 2 := by decide
theorem c01SG_wsIdx : c01SG.indexOf "WHITESPACE" = some 0 := by decide

/-- The module generated for `c01SG`: WHITESPACE keeps its declared kind (inherited atomicity,
transparent emission). -/
def c01SNG : NodeGrammar :=
  { rules := [eoiDef,
      { name := "WHITESPACE", atom := .inherited, emit := .expression, boxed := true, body := .str [' '] },
      { name := "item", atom := .inherited, emit := .both, boxed := true,
        body := .seq .inh [.str ['a'], .rep .inh 0 none (.str ['b'])] },
      { name := "main", atom := .inherited, emit := .both, boxed := true,
        body := .seq .inh [.push (.ref 2 .inh), .pop, .ref 0 .one] }],
    skipped := .atomicRepeat (.ref 1 .zero) }

theorem c01S_gen : gen c01SG = c01SNG := by
  simp [gen, c01SG, c01SNG, genRule, genExpr, genSeqSpine, genSkipped, PGrammar.indexOf, PGrammar.indexOf.go,
    kindAtomicity, kindEmission, atomFlag, builtinNode]

set_option maxRecDepth 100000 in
/-- pest's answer on `a b a b`: all seven bytes, stack empty again. -/
theorem c01S_spec_main : specPartial c01SG c01Uni 8 "main" c01I = .ok ⟨0, 7, [], []⟩ [] := by decide

set_option maxRecDepth 100000 in
theorem c01S_typed_main : (tryParsePartial (gen c01SG) c01Uni 9 3 c01I).outcome = .ok ⟨0, 7, [], []⟩ [] := by
  rw [c01S_gen]
  decide

set_option maxRecDepth 100000 in
theorem c01S_check_main : (tryCheckPartial (gen c01SG) c01Uni 9 3 c01I).outcome = .ok ⟨0, 7, [], []⟩ [] := by
  rw [c01S_gen]
  decide

theorem c01S_typed_ne_oof : tryParsePartial (gen c01SG) c01Uni 9 3 c01I ≠ .oof := by
  intro h0; have := c01S_typed_main; rw [h0] at this; cases this

theorem c01S_check_ne_oof : tryCheckPartial (gen c01SG) c01Uni 9 3 c01I ≠ .oof := by
  intro h0; have := c01S_check_main; rw [h0] at this; cases this

theorem c01S_spec_ne_oof : specPartial c01SG c01Uni 8 "main" c01I ≠ .oof := by
  rw [c01S_spec_main]; nofun

example : ∃ n', Rel (tryParsePartial (gen c01SG) c01Uni n' 3 c01I) (specPartial c01SG c01Uni 8 "main" c01I) :=
  C01_forward_entry c01SG c01Uni c01SG_like "main" 2 c01SG_main 8 c01I c01S_spec_ne_oof

example : ∃ n', Rel (tryCheckPartial (gen c01SG) c01Uni n' 3 c01I) (specPartial c01SG c01Uni 8 "main" c01I) :=
  C01_forward_entry_check c01SG c01Uni c01SG_like "main" 2 c01SG_main 8 c01I c01S_spec_ne_oof

example : (tryParsePartial (gen c01SG) c01Uni 9 3 c01I).outcome = specPartial c01SG c01Uni 8 "main" c01I :=
  C01_agree_entry c01SG c01Uni c01SG_like "main" 2 c01SG_main 9 8 c01I _ _ rfl rfl c01S_typed_ne_oof c01S_spec_ne_oof

example : (tryCheckPartial (gen c01SG) c01Uni 9 3 c01I).outcome = specPartial c01SG c01Uni 8 "main" c01I :=
  C01_agree_entry_check c01SG c01Uni c01SG_like "main" 2 c01SG_main 9 8 c01I _ _ rfl rfl c01S_check_ne_oof
    c01S_spec_ne_oof

example : ∃ n0, ∀ n, n0 ≤ n → specPartial c01SG c01Uni n "main" c01I = (tryParsePartial (gen c01SG) c01Uni 9 3 c01I).outcome :=
  C01_backward_entry c01SG c01Uni c01SG_like "main" 2 c01SG_main 9 c01I c01S_typed_ne_oof

example : ∃ n0, ∀ n, n0 ≤ n → specPartial c01SG c01Uni n "main" c01I = (tryCheckPartial (gen c01SG) c01Uni 9 3 c01I).outcome :=
  C01_backward_entry_check c01SG c01Uni c01SG_like "main" 2 c01SG_main 9 c01I c01S_check_ne_oof

example : (∃ k, (tryParsePartial (gen c01SG) c01Uni k 3 c01I).outcome = .ok ⟨0, 7, [], []⟩ []) ↔
    (∃ n, specPartial c01SG c01Uni n "main" c01I = .ok ⟨0, 7, [], []⟩ []) :=
  C01_iff_entry c01SG c01Uni c01SG_like "main" 2 c01SG_main c01I _ (by nofun)

/-- The input ` x` (a blank, then `x`). -/
def c01SI : Inp := ⟨0, 0, [' ', 'x'], []⟩

set_option maxRecDepth 100000 in
/-- The case the weaker hypothesis adds, hit directly: WHITESPACE itself as entry rule.  pest enters
it in NonAtomic mode and forces Atomic inside (`bodyNa … = false`); the typed parser runs the body
with `INHERITED = true`.  The body is simple, so both match the one blank. -/
theorem c01S_ws_entry :
    specPartial c01SG c01Uni 2 "WHITESPACE" c01SI = .ok ⟨0, 1, ['x'], []⟩ [] ∧
    (tryParsePartial (gen c01SG) c01Uni 2 1 c01SI).outcome = .ok ⟨0, 1, ['x'], []⟩ [] ∧
    bodyNa "WHITESPACE" .silent true = false ∧ (atomFlag (kindAtomicity .silent)).eval true = true := by
  rw [c01S_gen]; decide

example : (∃ k, (tryParsePartial (gen c01SG) c01Uni k 1 c01SI).outcome = .ok ⟨0, 1, ['x'], []⟩ []) ↔
    (∃ n, specPartial c01SG c01Uni n "WHITESPACE" c01SI = .ok ⟨0, 1, ['x'], []⟩ []) :=
  C01_iff_entry c01SG c01Uni c01SG_like "WHITESPACE" 0 c01SG_wsIdx c01SI _ (by nofun)

example : ∃ n0, ∀ n, n0 ≤ n → spec c01SG c01Uni n true (.ident "main") c01I [] =
    (parse (gen c01SG) c01Uni 9 true (genExpr c01SG .one (.ident "main")) c01I ⟨[], Tracker.new c01I⟩).outcome :=
  C01_backward c01SG c01Uni c01SG_like 9 true .one true (.ident "main") c01I [] _ rfl
    (by
      have h : genExpr c01SG .one (.ident "main") = .ref 3 .one := by simp only [genExpr, c01SG_main]
      have := c01S_typed_main
      unfold tryParsePartial M.init at this
      rw [h]
      intro h0; rw [h0] at this; cases this)

example : ∃ n', Rel (parse (gen c01SG) c01Uni n' true (genExpr c01SG .one (.ident "main")) c01I ⟨[], Tracker.new c01I⟩)
    (spec c01SG c01Uni 8 true (.ident "main") c01I []) :=
  C01_forward c01SG c01Uni c01SG_like 8 true (.ident "main") c01I []
    (by have := c01S_spec_main; unfold specPartial at this; rw [this]; nofun) true .one _ rfl

/-! ### the hypothesis cannot be dropped (known finding F-WS) -/

/-- `WHITESPACE = @{ " " }  COMMENT = !{ "/" ~ "/" }  main = { "x" ~ "y" }`. -/
def c01WsG : PGrammar :=
  [ ⟨"WHITESPACE", .atomic, .str [' ']⟩,
    ⟨"COMMENT", .nonAtomic, .seq (.str ['/']) (.str ['/'])⟩,
    ⟨"main", .normal, .seq (.str ['x']) (.str ['y'])⟩ ]

/-- The input `x/ /y`. -/
def c01WsI : Inp := ⟨0, 0, ['x', '/', ' ', '/', 'y'], []⟩

set_option maxRecDepth 100000 in
/-- Without `SkipRulesAtomicLike` the theorems are false: with `COMMENT` declared non-atomic (`!`) and a
body that is a SEQUENCE (a skip site: not a simple body), pest (which forces COMMENT to be atomic) does
not take `/ /` for a comment and `main` fails on `x/ /y`, while the typed parser, which gives COMMENT
its declared kind, skips inside the comment, takes `/ /` for one and matches all five bytes.
(`¬ SkipRulesAtomicLike` is the stronger statement: it implies `¬ SkipRulesAtomic` by
`SkipRulesAtomic.like`.) -/
theorem C01_counterexample_F_WS :
    ¬ SkipRulesAtomicLike c01WsG ∧
    specPartial c01WsG c01Uni 5 "main" c01WsI = .fail ∧
    (tryParsePartial (gen c01WsG) c01Uni 15 3 c01WsI).outcome = .ok ⟨0, 5, [], []⟩ [] := by
  have hgen : gen c01WsG =
      { rules := [eoiDef,
          { name := "WHITESPACE", atom := .atomic, emit := .span, boxed := true, body := .str [' '] },
          { name := "COMMENT", atom := .nonAtomic, emit := .both, boxed := true,
            body := .seq .one [.str ['/'], .str ['/']] },
          { name := "main", atom := .inherited, emit := .both, boxed := true,
            body := .seq .inh [.str ['x'], .str ['y']] }],
        skipped := .atomicRepeat (.choice [.ref 1 .zero, .ref 2 .zero]) } := by
    simp [gen, c01WsG, genRule, genExpr, genSeqSpine, genSkipped, PGrammar.indexOf, PGrammar.indexOf.go,
      kindAtomicity, kindEmission, atomFlag]
  refine ⟨?_, by decide, by rw [hgen]; decide⟩
  intro h
  have := h "COMMENT" ⟨"COMMENT", .nonAtomic, .seq (.str ['/']) (.str ['/'])⟩ (Or.inr rfl)
    (by simp [PGrammar.find?, PGrammar.indexOf, PGrammar.indexOf.go, c01WsG])
  simp [SimpleSkipBody] at this

/-- In particular the earlier hypothesis fails on it too. -/
example : ¬ SkipRulesAtomic c01WsG := fun h => C01_counterexample_F_WS.1 h.like

end PestTyped
