/-
Props.C04 — Full parse succeeds only when the whole input is consumed.

Property (fixed text): `try_parse` (and `TypedParser::try_parse / try_check`) returns Ok exactly
when the rule matches a prefix and the rest of the input is empty after skipping trailing
WHITESPACE/COMMENT (no trailing skip when the rule is atomic or compound-atomic); the tree returned
is the one the prefix parse returns.  It never reports success with unread input and never rejects
an input whose prefix parse already ends at the end of input.

Entry points: `tryParse`, `tryCheck`, `tryParsePartial`, `tryCheckPartial` of `Model/Run.lean`
(`typed_node.rs:60-107` with a fresh stack and tracker, `rule.rs:739-840`, `impl_parse!`
`rule.rs:276-327`).  `noTrailingSkip r d` says that `impl_parse!` took its `true` arm.
All theorems: every grammar, Unicode table, fuel, rule id, input form (`Inp` = &str / Position /
Span; for a Span input `rest` is the text up to the END OF THE SPAN, so `rest = []` is "at the
span's end", not "at the end of the underlying string").

Theorems
* `C04_iff` — Ok ⇔ prefix parse Ok, then (kind-dependent) one run of the skip type, then at end;
  the tracker effect of the final EOI test is `eoiStep_spec`.
* `C04_same_tree` — the value is the value of the prefix parse.
* `C04_no_unread` — on Ok nothing is left: `rest = []`, the cursor is the end position of the input.
* `C04_not_rejected_atomic`, `C04_not_rejected`, `C04_not_rejected_gen` — a prefix parse that ends at
  the end of input is not rejected (given the trailing skip returns, i.e. is not out of fuel).
* `C04_kind`, `C04_kind_eoi`, `C04_gen_skipType` — under the generator the no-skip arm is taken exactly for `@` and
  `$` rules (and EOI); `generics::Skipped` never fails.
* `C04_check_iff`, `C04_check_iff_partial`, `C04_check_no_unread`, `C04_check_not_rejected` — the same
  for `try_check` (through C03).
-/
import PestTyped.Lemmas.Choice
import PestTyped.Props.C03
namespace PestTyped

/-- The final `record_during_with(input, EOI::…, Rule::EOI)`: the verdict is `at_end`, the stack
is untouched, the tracker enters and leaves a frame for rule 0 (`EOI`) at the cursor. -/
theorem eoiStep_spec (i : Inp) (m : M) :
    (eoiStep i m).2 = i.atEnd ∧ (eoiStep i m).1.stk = m.stk ∧
      (eoiStep i m).1.trk = (m.trk.enter 0 i.pos).leave 0 i.pos i.atEnd :=
  ⟨rfl, rfl, rfl⟩

/-- `try_parse` returns `Ok(v)` exactly when the rule exists, `try_parse_partial` returns `v` at some
cursor `i1`, and — for a rule with the no-skip arm — `i1` is at the end; otherwise one run of the
skip type from `i1` (which must return) ends at a cursor `i2` that is at the end. -/
theorem C04_iff (g : NodeGrammar) (uni : Uni) (n : Nat) (r : RuleId) (i i2 : Inp) (m2 : M) (v : Val) :
    tryParse g uni n r i = .ok i2 m2 v ↔
      ∃ d i1 m1, g.rule? r = some d ∧ tryParsePartial g uni n r i = .ok i1 m1 v ∧
        (if noTrailingSkip r d = true then i2 = i1 ∧ m2 = (eoiStep i1 m1).1
         else ∃ m1' sv, parse g uni n false g.skipped i1 m1 = .ok i2 m1' sv ∧ m2 = (eoiStep i2 m1').1) ∧
        i2.atEnd = true := by
  unfold tryParse tryParsePartial
  cases hd : g.rule? r with
  | none =>
    constructor
    · intro h; cases h
    · rintro ⟨d, _, _, h, _⟩; cases h
  | some d =>
    simp only []
    cases hp : parse g uni n true (.ref r .one) i (M.init i) with
    | oof =>
      constructor
      · intro h; cases h
      · rintro ⟨_, _, _, _, h, _⟩; cases h
    | fail mf =>
      constructor
      · intro h; cases h
      · rintro ⟨_, _, _, _, h, _⟩; cases h
    | ok i1 m1 v1 =>
      simp only []
      by_cases hk : noTrailingSkip r d = true
      · simp only [hk, if_true]
        constructor
        · intro h
          by_cases he : i1.atEnd = true
          · simp only [eoiStep, he, if_true] at h
            injection h with a b c; subst a b c
            exact ⟨d, i1, m1, rfl, rfl, by simp [hk, eoiStep, he], he⟩
          · simp [eoiStep, he] at h
        · rintro ⟨d', i1', m1', hd', hp', hc, he⟩
          injection hd' with hd'; subst hd'
          injection hp' with a b c; subst a b c
          simp only [hk, if_true] at hc
          obtain ⟨rfl, rfl⟩ := hc
          simp [eoiStep, he]
      · simp only [hk]
        constructor
        · intro h
          simp only [Bool.false_eq_true, if_false] at h
          split at h
          · cases h
          · cases h
          · next i3 m3 sv hs =>
            by_cases he : i3.atEnd = true
            · simp only [eoiStep, he, if_true] at h
              injection h with a b c; subst a b c
              refine ⟨d, i1, m1, rfl, rfl, ?_, he⟩
              simp only [hk, Bool.false_eq_true, if_false]
              exact ⟨m3, sv, hs, by simp [eoiStep, he]⟩
            · simp [eoiStep, he] at h
        · rintro ⟨d', i1', m1', hd', hp', hc, he⟩
          injection hd' with hd'; subst hd'
          injection hp' with a b c; subst a b c
          simp only [hk, Bool.false_eq_true, if_false] at hc ⊢
          obtain ⟨m3, sv, hs, rfl⟩ := hc
          rw [hs]
          simp [eoiStep, he]

/-- The tree returned by a full parse is the tree returned by the prefix parse. -/
theorem C04_same_tree (g : NodeGrammar) (uni : Uni) (n : Nat) (r : RuleId) (i i2 : Inp) (m2 : M) (v : Val)
    (h : tryParse g uni n r i = .ok i2 m2 v) :
    ∃ i1 m1, tryParsePartial g uni n r i = .ok i1 m1 v ∧ i1.Adv i2 := by
  obtain ⟨d, i1, m1, _, hp, hc, _⟩ := (C04_iff _ _ _ _ _ _ _ _).mp h
  refine ⟨i1, m1, hp, ?_⟩
  split at hc
  · rw [hc.1]; exact Inp.Adv.refl _
  · obtain ⟨m3, sv, hs, _⟩ := hc
    exact parse_adv _ _ _ _ _ _ _ _ _ _ hs

/-- … in particular two successful entry points cannot disagree on the tree. -/
theorem C04_same_tree' (g : NodeGrammar) (uni : Uni) (n : Nat) (r : RuleId) (i i1 i2 : Inp) (m1 m2 : M)
    (v v' : Val) (h : tryParse g uni n r i = .ok i2 m2 v) (h' : tryParsePartial g uni n r i = .ok i1 m1 v') :
    v = v' := by
  obtain ⟨_, _, hp, _⟩ := C04_same_tree _ _ _ _ _ _ _ _ h
  rw [hp] at h'; injection h' with _ _ c

/-- Success is never reported with unread input: nothing remains, and the cursor is the end
position of the input (for a `Span` input: the end of the span). -/
theorem C04_no_unread (g : NodeGrammar) (uni : Uni) (n : Nat) (r : RuleId) (i i2 : Inp) (m2 : M) (v : Val)
    (h : tryParse g uni n r i = .ok i2 m2 v) :
    i2.rest = [] ∧ i2.pos = i.endPos ∧ i.Adv i2 := by
  obtain ⟨i1, m1, hp, ha⟩ := C04_same_tree _ _ _ _ _ _ _ _ h
  obtain ⟨_, _, _, _, _, _, he⟩ := (C04_iff _ _ _ _ _ _ _ _).mp h
  have hr : i2.rest = [] := by simpa [Inp.atEnd] using he
  have hadv : i.Adv i2 := (parse_adv _ _ _ _ _ _ _ _ _ _ hp).trans ha
  refine ⟨hr, ?_, hadv⟩
  have := hadv.endPos_eq
  simp only [Inp.endPos, hr, blen] at this
  simpa [Inp.endPos] using this

/-- A successful prefix parse names an existing rule. -/
theorem tryParsePartial_rule (g : NodeGrammar) (uni : Uni) (n : Nat) (r : RuleId) (i i1 : Inp) (m1 : M) (v : Val)
    (h : tryParsePartial g uni n r i = .ok i1 m1 v) : ∃ d, g.rule? r = some d := by
  unfold tryParsePartial at h
  cases n with
  | zero => cases h
  | succ n =>
    simp only [parse] at h
    split at h
    · cases h
    · next d hd => exact ⟨d, hd⟩

/-- A rule with the no-skip arm whose prefix parse ends at the end of input is accepted. -/
theorem C04_not_rejected_atomic (g : NodeGrammar) (uni : Uni) (n : Nat) (r : RuleId) (d : RuleDef)
    (i i1 : Inp) (m1 : M) (v : Val)
    (hd : g.rule? r = some d) (hk : noTrailingSkip r d = true)
    (hp : tryParsePartial g uni n r i = .ok i1 m1 v) (hend : i1.rest = []) :
    tryParse g uni n r i = .ok i1 (eoiStep i1 m1).1 v :=
  (C04_iff _ _ _ _ _ _ _ _).mpr ⟨d, i1, m1, hd, hp, by simp [hk], by simp [Inp.atEnd, hend]⟩

/-- An input whose prefix parse already ends at the end of input is never rejected: whatever the
rule kind, `try_parse` returns the same tree at the same cursor.  Hypotheses: the skip type is of
the never-failing shape (true of every generated `Skipped`, `C04_gen_skipType`) and its run at the
end of input returns (is not out of fuel; a skip rule that loops without consuming diverges in
Rust). -/
theorem C04_not_rejected (g : NodeGrammar) (uni : Uni) (n : Nat) (r : RuleId) (i i1 : Inp) (m1 : M) (v : Val)
    (hskip : IsSkipType g.skipped)
    (hp : tryParsePartial g uni n r i = .ok i1 m1 v) (hend : i1.rest = [])
    (hfuel : parse g uni n false g.skipped i1 m1 ≠ .oof) :
    ∃ m2, tryParse g uni n r i = .ok i1 m2 v := by
  obtain ⟨d, hd⟩ := tryParsePartial_rule _ _ _ _ _ _ _ _ hp
  by_cases hk : noTrailingSkip r d = true
  · exact ⟨_, C04_not_rejected_atomic _ _ _ _ _ _ _ _ _ hd hk hp hend⟩
  · cases hs : parse g uni n false g.skipped i1 m1 with
    | oof => exact absurd hs hfuel
    | fail mf => exact absurd hs (parse_skipType_not_fail _ _ _ _ _ hskip _ _ _)
    | ok i3 m3 sv =>
      have : i3 = i1 := parse_at_end _ _ _ _ _ _ _ _ _ _ hend hs
      subst this
      refine ⟨(eoiStep i3 m3).1, (C04_iff _ _ _ _ _ _ _ _).mpr ⟨d, i3, m1, hd, hp, ?_, by simp [Inp.atEnd, hend]⟩⟩
      simp only [hk, Bool.false_eq_true, if_false]
      exact ⟨m3, sv, hs, rfl⟩

/-- … in particular it is not `Err`. -/
theorem C04_not_rejected' (g : NodeGrammar) (uni : Uni) (n : Nat) (r : RuleId) (i i1 : Inp) (m1 : M) (v : Val)
    (hskip : IsSkipType g.skipped)
    (hp : tryParsePartial g uni n r i = .ok i1 m1 v) (hend : i1.rest = [])
    (hfuel : parse g uni n false g.skipped i1 m1 ≠ .oof) (mf : M) :
    tryParse g uni n r i ≠ .fail mf := by
  obtain ⟨m2, h⟩ := C04_not_rejected _ _ _ _ _ _ _ _ hskip hp hend hfuel
  rw [h]; intro hh; cases hh

/-! ### which arm the generator selects -/

/-- The generated `Skipped` alias is always of the never-failing shape. -/
theorem C04_gen_skipType (pg : PGrammar) : IsSkipType (gen pg).skipped := by
  simp only [gen, genSkipped]
  split
  · exact Or.inr ⟨_, rfl⟩
  · exact Or.inr ⟨_, rfl⟩
  · exact Or.inr ⟨_, rfl⟩
  · exact Or.inl rfl

/-- Under the generator, the no-trailing-skip arm is selected exactly for atomic (`@`) and
compound-atomic (`$`) rules. -/
theorem C04_kind (pg : PGrammar) (k : Nat) (d : RuleDef) (pr : PRule)
    (hd : (gen pg).rule? (k+1) = some d) (hr : pg[k]? = some pr) :
    noTrailingSkip (k+1) d = true ↔ pr.kind = .atomic ∨ pr.kind = .compoundAtomic := by
  have : d = genRule pg pr := by
    simp only [NodeGrammar.rule?, gen, List.getElem?_cons_succ, List.getElem?_map, hr, Option.map_some] at hd
    injection hd with hd; exact hd.symm
  subst this
  simp only [noTrailingSkip, genRule]
  cases pr.kind <;> simp [kindAtomicity]

/-- Rule 0 is `EOI`, which also takes the no-skip arm. -/
theorem C04_kind_eoi (pg : PGrammar) :
    (gen pg).rule? 0 = some eoiDef ∧ ∀ d, noTrailingSkip 0 d = true := by
  refine ⟨rfl, ?_⟩
  intro d; simp [noTrailingSkip]

/-- For generated grammars: never rejected (only the fuel hypothesis remains). -/
theorem C04_not_rejected_gen (pg : PGrammar) (uni : Uni) (n : Nat) (r : RuleId) (i i1 : Inp) (m1 : M) (v : Val)
    (hp : tryParsePartial (gen pg) uni n r i = .ok i1 m1 v) (hend : i1.rest = [])
    (hfuel : parse (gen pg) uni n false (gen pg).skipped i1 m1 ≠ .oof) :
    ∃ m2, tryParse (gen pg) uni n r i = .ok i1 m2 v :=
  C04_not_rejected _ _ _ _ _ _ _ _ (C04_gen_skipType pg) hp hend hfuel

/-! ### `try_check` -/

/-- `try_check` succeeds exactly when `try_parse` does, at the same cursor and state. -/
theorem C04_check_iff (g : NodeGrammar) (uni : Uni) (n : Nat) (r : RuleId) (i i2 : Inp) (m2 : M) :
    tryCheck g uni n r i = .ok i2 m2 () ↔ ∃ v, tryParse g uni n r i = .ok i2 m2 v := by
  rw [C03_full_agree]
  cases tryParse g uni n r i with
  | oof => simp [Res.forget]
  | fail mf => simp [Res.forget]
  | ok i3 m3 v =>
    simp only [Res.forget]
    constructor
    · intro h; injection h with a b; subst a b; exact ⟨v, rfl⟩
    · rintro ⟨v', h⟩; injection h with a b c; subst a b; rfl

/-- `C04_iff` for the check path, in terms of `try_check_partial` and the check run of the skip type. -/
theorem C04_check_iff_partial (g : NodeGrammar) (uni : Uni) (n : Nat) (r : RuleId) (i i2 : Inp) (m2 : M) :
    tryCheck g uni n r i = .ok i2 m2 () ↔
      ∃ d i1 m1, g.rule? r = some d ∧ tryCheckPartial g uni n r i = .ok i1 m1 () ∧
        (if noTrailingSkip r d = true then i2 = i1 ∧ m2 = (eoiStep i1 m1).1
         else ∃ m1', check g uni n false g.skipped i1 m1 = .ok i2 m1' () ∧ m2 = (eoiStep i2 m1').1) ∧
        i2.atEnd = true := by
  rw [C04_check_iff]
  constructor
  · rintro ⟨v, h⟩
    obtain ⟨d, i1, m1, hd, hp, hc, he⟩ := (C04_iff _ _ _ _ _ _ _ _).mp h
    refine ⟨d, i1, m1, hd, by rw [C03_partial_agree, hp]; rfl, ?_, he⟩
    split at hc
    · next hk => simp only [hk, if_true]; exact hc
    · next hk =>
      simp only [hk]
      obtain ⟨m3, sv, hs, hm⟩ := hc
      exact ⟨m3, by rw [check_eq_parse_forget, hs]; rfl, hm⟩
  · rintro ⟨d, i1, m1, hd, hp, hc, he⟩
    rw [C03_partial_agree] at hp
    cases hpp : tryParsePartial g uni n r i with
    | oof => rw [hpp] at hp; cases hp
    | fail mf => rw [hpp] at hp; cases hp
    | ok i1' m1' v =>
      rw [hpp] at hp; simp only [Res.forget] at hp
      injection hp with a b; subst a b
      refine ⟨v, (C04_iff _ _ _ _ _ _ _ _).mpr ⟨d, i1', m1', hd, hpp, ?_, he⟩⟩
      split at hc
      · next hk => simp only [hk, if_true]; exact hc
      · next hk =>
        simp only [hk]
        obtain ⟨m3, hs, hm⟩ := hc
        rw [check_eq_parse_forget] at hs
        cases hps : parse g uni n false g.skipped i1' m1' with
        | oof => rw [hps] at hs; cases hs
        | fail mf => rw [hps] at hs; cases hs
        | ok i3 m3' sv =>
          rw [hps] at hs; simp only [Res.forget] at hs
          injection hs with a b; subst a b
          exact ⟨m3', sv, rfl, hm⟩

theorem C04_check_no_unread (g : NodeGrammar) (uni : Uni) (n : Nat) (r : RuleId) (i i2 : Inp) (m2 : M)
    (h : tryCheck g uni n r i = .ok i2 m2 ()) :
    i2.rest = [] ∧ i2.pos = i.endPos ∧ i.Adv i2 := by
  obtain ⟨v, hv⟩ := (C04_check_iff _ _ _ _ _ _ _).mp h
  exact C04_no_unread _ _ _ _ _ _ _ _ hv

theorem C04_check_not_rejected (g : NodeGrammar) (uni : Uni) (n : Nat) (r : RuleId) (i i1 : Inp) (m1 : M)
    (hskip : IsSkipType g.skipped)
    (hp : tryCheckPartial g uni n r i = .ok i1 m1 ()) (hend : i1.rest = [])
    (hfuel : check g uni n false g.skipped i1 m1 ≠ .oof) :
    ∃ m2, tryCheck g uni n r i = .ok i1 m2 () := by
  rw [C03_partial_agree] at hp
  cases hpp : tryParsePartial g uni n r i with
  | oof => rw [hpp] at hp; cases hp
  | fail mf => rw [hpp] at hp; cases hp
  | ok i1' m1' v =>
    rw [hpp] at hp; simp only [Res.forget] at hp
    injection hp with a b; subst a b
    have hf : parse g uni n false g.skipped i1' m1' ≠ .oof := by
      intro hh; apply hfuel; rw [check_eq_parse_forget, hh]; rfl
    obtain ⟨m2, h⟩ := C04_not_rejected _ _ _ _ _ _ _ _ hskip hpp hend hf
    exact ⟨m2, (C04_check_iff _ _ _ _ _ _ _).mpr ⟨v, h⟩⟩

/-! ### non-vacuity -/

/-- ```
main = { "x" }   at = @{ "x" }   cat = ${ "x" }
WHITESPACE = _{ " " }   COMMENT = _{ "/*" ~ (!"*/" ~ ANY)* ~ "*/" }
``` as generated. -/
def c04Grammar : NodeGrammar :=
  { rules := [eoiDef,
      { name := "main", atom := .inherited, emit := .both, boxed := true, body := .str ['x'] },
      { name := "at", atom := .atomic, emit := .span, boxed := true, body := .str ['x'] },
      { name := "cat", atom := .atomic, emit := .both, boxed := true, body := .str ['x'] },
      { name := "WHITESPACE", atom := .inherited, emit := .expression, boxed := true, body := .str [' '] },
      { name := "COMMENT", atom := .inherited, emit := .expression, boxed := true,
        body := .seq .inh [.str ['/', '*'],
          .rep .inh 0 none (.seq .inh [.neg (.str ['*', '/']), .any]), .str ['*', '/']] }],
    skipped := .atomicRepeat (.choice [.ref 4 .zero, .ref 5 .zero]) }

def c04In (s : List Char) : Inp := { start := 0, pos := 0, rest := s, after := [] }
def c04U : Uni := fun _ _ => false

-- input ending in skippable text: accepted by the normal rule, rejected by the atomic ones
example : (tryParse c04Grammar c04U 20 1 (c04In ['x', ' ', ' '])).rest? = some [] := by decide
example : (tryParsePartial c04Grammar c04U 20 1 (c04In ['x', ' ', ' '])).rest? = some [' ', ' '] := by decide
example : (tryParse c04Grammar c04U 20 1 (c04In ['x', ' ', '/', '*', 'c', '*', '/', ' '])).rest? = some [] := by decide
example : (tryCheck c04Grammar c04U 20 1 (c04In ['x', ' ', '/', '*', 'c', '*', '/', ' '])).rest? = some [] := by decide
example : (tryParse c04Grammar c04U 20 2 (c04In ['x', ' ', ' '])).isFail = true := by decide
example : (tryParse c04Grammar c04U 20 3 (c04In ['x', ' ', ' '])).isFail = true := by decide
example : (tryParsePartial c04Grammar c04U 20 2 (c04In ['x', ' ', ' '])).rest? = some [' ', ' '] := by decide
example : (tryParse c04Grammar c04U 20 2 (c04In ['x'])).rest? = some [] := by decide
example : (tryParse c04Grammar c04U 20 3 (c04In ['x'])).rest? = some [] := by decide
-- text that only looks skippable: an unterminated comment, a lone slash
example : (tryParse c04Grammar c04U 20 1 (c04In ['x', ' ', '/', '*', 'c'])).isFail = true := by decide
example : (tryCheck c04Grammar c04U 20 1 (c04In ['x', ' ', '/', '*', 'c'])).isFail = true := by decide
example : (tryParsePartial c04Grammar c04U 20 1 (c04In ['x', ' ', '/', '*', 'c'])).isOk = true := by decide
example : (tryParse c04Grammar c04U 20 1 (c04In ['x', ' ', '/'])).isFail = true := by decide
-- prefix parse ending at the end of input: accepted, same tree (same rule tag and span)
example : (tryParse c04Grammar c04U 20 1 (c04In ['x'])).val?.map Val.tag =
    (tryParsePartial c04Grammar c04U 20 1 (c04In ['x'])).val?.map Val.tag := by decide
example : (tryParse c04Grammar c04U 20 1 (c04In ['x'])).isOk = true := by decide
-- a Span-form input (text beyond the span's end is not input): accepted at the span's end
example : (tryParse c04Grammar c04U 20 1 { start := 2, pos := 2, rest := ['x', ' '], after := ['y'] }).rest? = some [] := by decide
-- the hypotheses of `C04_not_rejected` hold here
example : IsSkipType c04Grammar.skipped := Or.inr ⟨_, rfl⟩
example : (parse c04Grammar c04U 20 false c04Grammar.skipped (c04In []) (M.init (c04In []))).isOk = true := by decide
-- `C04_kind` on a generated grammar: `a = @{ "x" }  b = { "x" }  c = ${ "x" }`
example : ∃ d, (gen [⟨"a", .atomic, .str ['x']⟩, ⟨"b", .normal, .str ['x']⟩, ⟨"c", .compoundAtomic, .str ['x']⟩]).rule? 1 = some d ∧
    noTrailingSkip 1 d = true := ⟨_, rfl, rfl⟩
example : ∃ d, (gen [⟨"a", .atomic, .str ['x']⟩, ⟨"b", .normal, .str ['x']⟩, ⟨"c", .compoundAtomic, .str ['x']⟩]).rule? 2 = some d ∧
    noTrailingSkip 2 d = false := ⟨_, rfl, rfl⟩
example : ∃ d, (gen [⟨"a", .atomic, .str ['x']⟩, ⟨"b", .normal, .str ['x']⟩, ⟨"c", .compoundAtomic, .str ['x']⟩]).rule? 3 = some d ∧
    noTrailingSkip 3 d = true := ⟨_, rfl, rfl⟩

-- the shape hypothesis of `C04_not_rejected` is needed in the model: a hand-made `NodeGrammar` whose
-- skip type can fail (not expressible in Rust: `$ignored: NeverFailedTypedNode`) would reject
example : (tryParsePartial { c04Grammar with skipped := .alwaysFail } c04U 20 1 (c04In ['x'])).rest? = some [] ∧
    (tryParse { c04Grammar with skipped := .alwaysFail } c04U 20 1 (c04In ['x'])).isFail = true := by decide

end PestTyped
