/-
Props.C16 — Generated getters return exactly the referenced sub-nodes that matched.

Property (fixed text): "With emit_rule_reference, for every rule r and every rule x that r's expression
mentions outside a negative predicate, r.x() yields, in the order of the mentions in r's expression (which
is input order outside lookahead) and wrapped in Option / Vec / tuple according to where x is mentioned,
exactly those x nodes that r's own expression matched directly (not those reached through other rules),
each being the very node stored in r's content."

Model (`Model/Getters.lean`): `genGetters e` is the getter forest `generate_graph_node` builds for the
expression `e` (optimized and raw constructors), `evalGetter t v` runs the path `Node::expand` emits for the
tree `t` on a value, `GNode.typeOf t` is the return type emitted next to it, `ruleGetter` starts at
`self.content`.  `directRefs x v` (specification side, by recursion on the value only) lists the values of
rule `x` that `v` stores itself: not below another rule value, not under `!` (which stores nothing), not in
the `skipped` part of a `Skipped` (implicit WHITESPACE / COMMENT), values under `&` included, left to right.

All theorems hold for EVERY pest grammar `g`, skip flag, expression `e` (any nesting of the 19 constructors),
name `x` standing for a rule (`refId`: a rule of the grammar, or the built-in `EOI`), and EVERY value that a
successful `parse` of the type expression `genExpr g sk e` returns — under any `NodeGrammar` for the rule
table, any Unicode table, fuel, `inh`, cursor and state (no size bounds).  Nothing is `_partial`: repeated
names (tuple merges) are covered in full.

* `C16_flatten`         the references inside `r.x()`'s result, left to right, are exactly `directRefs x` of
                        the parsed value (in particular the accessor never gets stuck);
* `C16_absent`          a name without accessor has no direct reference in any parsed value ("exactly": nothing
                        is left unreachable);
* `C16_shape`           the path applies (never stuck) and the result inhabits the announced return type;
  `C16_wrapper`         that type is `Option<_>` under optional / choice edges — not doubled when the inner
                        path already yields an `Option` (`flattenable`) —, `Vec<_>` under repetitions, the inner
                        type under sequence / PUSH / `&` edges, and a tuple of the components in mention order for
                        a repeated name (`merge`);
* `C16_identity`        every returned reference is a sub-value of the parsed value and is a value of rule `x`;
  `C16_identity_path`   for ANY tree and ANY value: whatever a path returns is a sub-value of the value it was
                        run on (paths are projections; no copies are built);
* `C16_order`           without positive lookahead (`noLook`) the returned nodes lie inside the parsed range, each
                        starting at or after the end of the previous one (mention order = input order);
* `C16_no_neg`, `C16_getter_iff_mentioned`, `C16_names_once`
                        the accessors of an expression are exactly the names it mentions outside negative
                        predicates, each once; a name mentioned only under `!` has none;
* `C16_rule`            the same at the level of a rule struct: for a rule of the grammar whose kind emits
                        accessors (every kind but atomic), every accessor of the rule applied to a parsed rule
                        value returns exactly the direct references stored in the rule's content, and atomic rules
                        get none (`C16_atomic_none`).
Names of built-ins other than `EOI` (`ANY`, `PEEK`, …) also get accessors in the code; their values carry no
rule id in the model, so `directRefs` (and every theorem here with the hypothesis `refId g x = some xid`) does not
speak about them; only `C16_identity_path` applies.  They are covered by `Props/C16Slots.lean` (`C16_slots`,
`C16_any_name_never_stuck`: never stuck, typed, slot k = matches of mention site k — for every NAME), which also
states the SLOT assignment that the theorems of this file leave open (they fix results only up to `flatten`).
-/
import PestTyped.Lemmas.GettersLemmas
namespace PestTyped

/-! ### exactly the direct references, in mention order -/

/-- `flatten (evalGetter (getter e x) v) = directRefs x v` for every value a parse of `e`'s type returns. -/
theorem C16_flatten (g : PGrammar) (sk : Flag) (e : PExpr) (x : String) (xid : RuleId) (t : GNode)
    (hx : refId g x = some xid) (ht : (genGetters e).get? x = some t)
    (G : NodeGrammar) (uni : Uni) (fuel : Nat) (inh : Bool) (i : Inp) (m : M) (i' : Inp) (m' : M) (v : Val)
    (h : parse G uni fuel inh (genExpr g sk e) i m = .ok i' m' v) :
    ∃ gv, evalGetter t v = some gv ∧ gv.flatten = directRefs xid v := by
  have hs := parse_shape G uni fuel inh _ _ _ _ _ _ h
  have := genGetters_good g sk hx e _ _ _ hs
  simp only [ForestGood, ht, OptGood] at this
  obtain ⟨gv, h1, _, h3⟩ := this
  exact ⟨gv, h1, h3⟩

/-- No accessor for `x` ⇒ no value of rule `x` is stored directly: the accessors miss nothing. -/
theorem C16_absent (g : PGrammar) (sk : Flag) (e : PExpr) (x : String) (xid : RuleId)
    (hx : refId g x = some xid) (ht : (genGetters e).get? x = none)
    (G : NodeGrammar) (uni : Uni) (fuel : Nat) (inh : Bool) (i : Inp) (m : M) (i' : Inp) (m' : M) (v : Val)
    (h : parse G uni fuel inh (genExpr g sk e) i m = .ok i' m' v) :
    directRefs xid v = [] := by
  have hs := parse_shape G uni fuel inh _ _ _ _ _ _ h
  have := genGetters_good g sk hx e _ _ _ hs
  simpa only [ForestGood, ht, OptGood] using this

/-! ### wrapper types -/

/-- The path never gets stuck on a parsed value and its result has the return type `expand` emits. -/
theorem C16_shape (g : PGrammar) (sk : Flag) (e : PExpr) (x : String) (xid : RuleId) (t : GNode)
    (hx : refId g x = some xid) (ht : (genGetters e).get? x = some t)
    (G : NodeGrammar) (uni : Uni) (fuel : Nat) (inh : Bool) (i : Inp) (m : M) (i' : Inp) (m' : M) (v : Val)
    (h : parse G uni fuel inh (genExpr g sk e) i m = .ok i' m' v) :
    ∃ gv, evalGetter t v = some gv ∧ gv.hasTy t.typeOf = true := by
  have hs := parse_shape G uni fuel inh _ _ _ _ _ _ h
  have := genGetters_good g sk hx e _ _ _ hs
  simp only [ForestGood, ht, OptGood] at this
  obtain ⟨gv, h1, h2, _⟩ := this
  exact ⟨gv, h1, h2⟩

/-- How the edges and `merge` shape the return type: a reference for a mention; unchanged under sequence /
PUSH / `&` edges; `Option<_>` under optional and choice edges unless the inner type is already an `Option`
(then unchanged: `.flatten()`), which is exactly when `flattenable` holds; `Vec<_>` under repetition; a tuple
of the components, left operand first, for `merge`. -/
theorem C16_wrapper (t u : GNode) (name : String) (i : Nat) :
    (GNode.rule name).typeOf = .ref ∧
    (t.wrap .content).typeOf = t.typeOf ∧
    (t.wrap (.contentI i)).typeOf = t.typeOf ∧
    (t.wrap .optional).typeOf = (if t.flattenable then t.typeOf else .opt t.typeOf) ∧
    (t.wrap (.choiceI i)).typeOf = (if t.flattenable then t.typeOf else .opt t.typeOf) ∧
    (t.wrap .contents).typeOf = .vec t.typeOf ∧
    (t.flattenable = true → ∃ ty, t.typeOf = .opt ty) ∧
    (∃ ty, (t.wrap .optional).typeOf = .opt ty) ∧ (∃ ty, (t.wrap (.choiceI i)).typeOf = .opt ty) ∧
    (t.merge u).typeOf = .tuple (GNode.typeOfL t.asList ++ GNode.typeOfL u.asList) := by
  have hopt : ∃ ty, (if t.flattenable then t.typeOf else GTy.opt t.typeOf) = .opt ty := by
    cases hf : t.flattenable with
    | false => exact ⟨_, rfl⟩
    | true => simpa using GNode.flattenable_typeOf t hf
  refine ⟨rfl, rfl, rfl, rfl, rfl, rfl, GNode.flattenable_typeOf t, hopt, hopt, ?_⟩
  rw [GNode.merge_eq, GNode.typeOf, GNode.typeOfL_append]

/-! ### identity -/

/-- Every returned reference is a sub-value of the parsed value, and a value of rule `x`. -/
theorem C16_identity (g : PGrammar) (sk : Flag) (e : PExpr) (x : String) (xid : RuleId) (t : GNode)
    (hx : refId g x = some xid) (ht : (genGetters e).get? x = some t)
    (G : NodeGrammar) (uni : Uni) (fuel : Nat) (inh : Bool) (i : Inp) (m : M) (i' : Inp) (m' : M) (v : Val)
    (h : parse G uni fuel inh (genExpr g sk e) i m = .ok i' m' v) :
    ∃ gv, evalGetter t v = some gv ∧ ∀ w, w ∈ gv.flatten → w ∈ v.subvalues ∧ IsRuleVal xid w := by
  obtain ⟨gv, h1, h2⟩ := C16_flatten g sk e x xid t hx ht G uni fuel inh i m i' m' v h
  refine ⟨gv, h1, fun w hw => ?_⟩
  rw [h2] at hw
  exact directRefs_sub xid v w hw

/-- Paths are projections: for any getter tree and any value, every reference in the result is a sub-value of
the value the path was run on. -/
theorem C16_identity_path (t : GNode) (v : Val) (gv : GVal) (h : evalGetter t v = some gv) :
    ∀ w, w ∈ gv.flatten → w ∈ v.subvalues :=
  evalGetter_projects t v gv h

/-! ### order -/

/-- Without positive lookahead the returned nodes lie in the parsed range `[i.pos, i'.pos]`, every one starts
at or after the end of the one before (mention order is input order). -/
theorem C16_order (g : PGrammar) (sk : Flag) (e : PExpr) (x : String) (xid : RuleId) (t : GNode)
    (hx : refId g x = some xid) (ht : (genGetters e).get? x = some t) (hl : e.noLook = true)
    (G : NodeGrammar) (uni : Uni) (fuel : Nat) (inh : Bool) (i : Inp) (m : M) (i' : Inp) (m' : M) (v : Val)
    (h : parse G uni fuel inh (genExpr g sk e) i m = .ok i' m' v) :
    ∃ gv, evalGetter t v = some gv ∧
      (∀ w, w ∈ gv.flatten → ∃ s e, w.ruleSpan? = some (s, e) ∧ i.pos ≤ s ∧ s ≤ e ∧ e ≤ i'.pos) ∧
      gv.flatten.Pairwise (fun a b => ∃ sa ea sb eb,
        a.ruleSpan? = some (sa, ea) ∧ b.ruleSpan? = some (sb, eb) ∧ ea ≤ sb) := by
  obtain ⟨gv, h1, h2⟩ := C16_flatten g sk e x xid t hx ht G uni fuel inh i m i' m' v h
  have hs := parse_shape G uni fuel inh _ _ _ _ _ _ h
  have := (directRefs_ordered g sk xid e hl _ _ _ hs).pairwise
  rw [← h2] at this
  exact ⟨gv, h1, this.1, this.2⟩

/-! ### which accessors exist -/

/-- The accessors of `e` are the names `e` mentions outside negative predicates. -/
theorem C16_getter_iff_mentioned (e : PExpr) (x : String) :
    ((genGetters e).get? x).isSome ↔ x ∈ e.mentions := by
  rw [Forest.get?_isSome_iff]; exact (genGetters_keys e).2 x

/-- … each exactly once (the `BTreeMap` holds one entry per name). -/
theorem C16_names_once (e : PExpr) : (genGetters e).keys.Nodup := (genGetters_keys e).1

/-- A negative predicate contributes no accessor, whatever it contains; a name mentioned only under negative
predicates has none. -/
theorem C16_no_neg (e : PExpr) (x : String) :
    (genGetters (.negPred e)).get? x = none ∧
    (∀ e' : PExpr, x ∉ e'.mentions → (genGetters e').get? x = none) := by
  refine ⟨by simp [genGetters, Forest.get?], fun e' hx => ?_⟩
  rw [Forest.get?_eq_none_iff]
  exact fun h => hx (((genGetters_keys e').2 x).mp h)

/-! ### at the level of a rule struct -/

theorem gen_rule? (g : PGrammar) (k : Nat) (r : PRule) (hr : g[k]? = some r) :
    (gen g).rule? (k+1) = some (genRule g r) := by
  simp [gen, NodeGrammar.rule?, hr]

/-- `r.x()` on a parsed value of rule `r` (any kind that emits accessors): defined, and its references are
exactly the values of rule `x` stored directly in `r`'s content, in order. -/
theorem C16_rule (g : PGrammar) (k : Nat) (r : PRule) (hr : g[k]? = some r) (x : String) (xid : RuleId) (t : GNode)
    (hx : refId g x = some xid) (ht : (ruleGetters r).get? x = some t)
    (uni : Uni) (fuel : Nat) (inh : Bool) (f : Flag) (i : Inp) (m : M) (i' : Inp) (m' : M) (v : Val)
    (h : parse (gen g) uni fuel inh (.ref (k+1) f) i m = .ok i' m' v) :
    ∃ em bx c gv, v = .mk (.rule (k+1) em bx i.pos i'.pos) [c] ∧ ruleGetter t v = some gv ∧
      gv.hasTy t.typeOf = true ∧ gv.flatten = directRefs xid c ∧
      (∀ w, w ∈ gv.flatten → w ∈ c.subvalues ∧ IsRuleVal xid w) := by
  have hk : emitsGetters r.kind = true := by
    unfold ruleGetters at ht
    cases hk : emitsGetters r.kind with
    | true => rfl
    | false => simp [hk, Forest.get?] at ht
  have ht' : (genGetters r.expr).get? x = some t := by simpa [ruleGetters, hk] using ht
  cases fuel with
  | zero => simp [parse] at h
  | succ n =>
    simp only [parse, gen_rule? g k r hr] at h
    have key : ∀ (i1 : Inp) (m1 m0 : M) (c : Val) (inh' : Bool),
        parse (gen g) uni n inh' (genExpr g (atomFlag (kindAtomicity r.kind)) r.expr) i m0 = .ok i1 m1 c →
        ∃ gv, evalGetter t c = some gv ∧ gv.hasTy t.typeOf = true ∧ gv.flatten = directRefs xid c ∧
          (∀ w, w ∈ gv.flatten → w ∈ c.subvalues ∧ IsRuleVal xid w) := by
      intro i1 m1 m0 c inh' hc
      have hs := parse_shape (gen g) uni n inh' _ _ _ _ _ _ hc
      have := genGetters_good g _ hx r.expr _ _ _ hs
      simp only [ForestGood, ht', OptGood] at this
      obtain ⟨gv, h1, h2, h3⟩ := this
      refine ⟨gv, h1, h2, h3, fun w hw => ?_⟩
      rw [h3] at hw
      exact directRefs_sub xid c w hw
    cases hkind : r.kind <;> simp only [genRule, kindEmission, hkind] at h <;>
      simp only [hkind, emitsGetters] at hk
    all_goals first
      | (split at h
         · cases h
         · cases h
         · next i1 m1 c hc =>
           injection h with h0 _ hv; subst h0 hv
           simp only [hkind] at key
           obtain ⟨gv, h1, h2, h3, h4⟩ := key _ _ _ _ _ hc
           exact ⟨_, _, c, gv, rfl, by simp [ruleGetter, h1], h2, h3, h4⟩)
      | cases hk

/-- Atomic rules (emission `Span`: no content is stored) get no accessors. -/
theorem C16_atomic_none (r : PRule) (h : r.kind = .atomic) : ruleGetters r = [] := by
  simp [ruleGetters, emitsGetters, h]

/-! ### non-vacuity: a concrete grammar, input and parse result

`a = { "a" }   b = _{ a }   r = { a ~ a? ~ (b | a)* ~ !a }` on the input `aaaa`: `r`'s expression matches `a`
twice directly (elements 0 and 1) and twice THROUGH the silent rule `b` (iterations of the repetition), and
mentions `a` a fourth time under `!`.  The accessor `r.a()` has type `(&a, Option<&a>, Vec<Option<&a>>)`; it
returns the two direct nodes, not the two inside `b`. -/

def c16E : PExpr :=
  .seq (.ident "a") (.seq (.opt (.ident "a")) (.seq (.rep (.choice (.ident "b") (.ident "a"))) (.negPred (.ident "a"))))

def c16R : PRule := ⟨"r", .normal, c16E⟩

def c16G : PGrammar := [⟨"a", .normal, .str ['a']⟩, ⟨"b", .silent, .ident "a"⟩, c16R]

def c16Node : Node :=
  .seq .inh [.ref 1 .inh, .opt (.ref 1 .inh), .rep .inh 0 none (.choice [.ref 2 .inh, .ref 1 .inh]), .neg (.ref 1 .inh)]

def c16NG : NodeGrammar :=
  { rules := [eoiDef,
      { name := "a", atom := .inherited, emit := .both, boxed := true, body := .str ['a'] },
      { name := "b", atom := .inherited, emit := .expression, boxed := true, body := .ref 1 .inh },
      { name := "r", atom := .inherited, emit := .both, boxed := true, body := c16Node }],
    skipped := .empty }

theorem c16_node : genExpr c16G .inh c16E = c16Node := by
  simp [c16G, c16R, c16E, c16Node, genExpr, genSeqSpine, genChoiceSpine, PGrammar.indexOf, PGrammar.indexOf.go]

theorem c16_gen : gen c16G = c16NG := by
  simp [gen, genRule, genSkipped, c16NG, c16G, c16R, kindAtomicity, kindEmission, atomFlag, ← c16_node, c16E, genExpr,
    genSeqSpine, genChoiceSpine, PGrammar.indexOf, PGrammar.indexOf.go]

/-- The getter tree of `a` in `r`: a tuple in mention order (the mention under `!` contributes nothing). -/
def c16T : GNode :=
  .tuple [.sequenceI 0 (.rule "a"), .sequenceI 1 (.optional false (.rule "a")),
          .sequenceI 2 (.contents (.choiceI 1 false (.rule "a")))]

theorem c16_getter : (genGetters c16E).get? "a" = some c16T := by
  simp [c16E, c16T, genGetters, genSeqGetters, genChoiceGetters, Forest.join, Forest.prepend, Forest.upsert, Forest.get?,
    Forest.insertSorted, Forest.modify, GNode.wrap, GNode.merge, GNode.flattenable]

theorem c16_refId : refId c16G "a" = some 1 := by
  simp [refId, c16G, c16R, PGrammar.indexOf, PGrammar.indexOf.go]

def c16In : Inp := { start := 0, pos := 0, rest := ['a', 'a', 'a', 'a'], after := [] }

def Val.isRule1 : Val → Bool
  | .mk (.rule 1 _ _ _ _) _ => true
  | _ => false

/-- The parse succeeds; the value holds FOUR values of rule `a`, TWO of them directly. -/
theorem c16_parse : ∃ i' m' v,
    parse c16NG (fun _ _ => false) 12 true (genExpr c16G .inh c16E) c16In (M.init c16In) = .ok i' m' v ∧
    (directRefs 1 v).length = 2 ∧ (v.subvalues.filter Val.isRule1).length = 4 := by
  rw [c16_node]; exact ⟨_, _, _, rfl, by decide, by decide⟩

-- `C16_flatten`, `C16_shape`, `C16_identity`, `C16_order` on it (all hypotheses hold, two nodes are returned)
example : ∃ v gv, evalGetter c16T v = some gv ∧ gv.flatten = directRefs 1 v ∧ gv.flatten.length = 2 ∧
    gv.hasTy (.tuple [.ref, .opt .ref, .vec (.opt .ref)]) = true ∧
    (∀ w, w ∈ gv.flatten → w ∈ v.subvalues ∧ IsRuleVal 1 w) ∧
    gv.flatten.Pairwise (fun a b => ∃ sa ea sb eb, a.ruleSpan? = some (sa, ea) ∧ b.ruleSpan? = some (sb, eb) ∧ ea ≤ sb) := by
  obtain ⟨i', m', v, h, h2, _⟩ := c16_parse
  obtain ⟨gv, e1, e2⟩ := C16_flatten c16G .inh c16E "a" 1 c16T c16_refId c16_getter _ _ _ _ _ _ _ _ _ h
  obtain ⟨gv2, f2, e3⟩ := C16_shape c16G .inh c16E "a" 1 c16T c16_refId c16_getter _ _ _ _ _ _ _ _ _ h
  obtain ⟨gv3, f3, e4⟩ := C16_identity c16G .inh c16E "a" 1 c16T c16_refId c16_getter _ _ _ _ _ _ _ _ _ h
  obtain ⟨gv4, f4, _, e5⟩ := C16_order c16G .inh c16E "a" 1 c16T c16_refId c16_getter rfl _ _ _ _ _ _ _ _ _ h
  rw [e1] at f2 f3 f4
  injection f2 with f2; injection f3 with f3; injection f4 with f4
  subst f2 f3 f4
  exact ⟨v, gv, e1, e2, by rw [e2]; exact h2, e3, e4, e5⟩

-- the return type of the example accessor, and flattened ones: `(a?)?` and `(a | b)?` give `Option<&a>`, not `Option<Option<&a>>`
example : c16T.typeOf = .tuple [.ref, .opt .ref, .vec (.opt .ref)] := rfl
example : ∃ t, (genGetters (.opt (.opt (.ident "a")))).get? "a" = some t ∧ t.typeOf = .opt .ref :=
  ⟨.optional true (.optional false (.rule "a")),
    by simp [genGetters, Forest.prepend, Forest.get?, GNode.wrap, GNode.flattenable], rfl⟩
example : ∃ t, (genGetters (.opt (.choice (.ident "a") (.ident "b")))).get? "a" = some t ∧ t.typeOf = .opt .ref :=
  ⟨.optional true (.choiceI 0 false (.rule "a")),
    by simp [genGetters, genChoiceGetters, Forest.join, Forest.upsert, Forest.insertSorted, Forest.prepend, Forest.get?,
      GNode.wrap, GNode.flattenable], rfl⟩

-- `C16_absent` / `C16_no_neg`: `!a ~ "x"` has no accessor `a`; `r` itself is not mentioned in `r`
example : (genGetters (.seq (.negPred (.ident "a")) (.str ['x']))).get? "a" = none := by
  simp [genGetters, genSeqGetters, Forest.join, Forest.prepend, Forest.get?]
example : "a" ∈ c16E.mentions ∧ "b" ∈ c16E.mentions ∧ c16E.mentions.length = 4 := by
  simp [c16E, PExpr.mentions]
example : ∃ v, directRefs 3 v = [] ∧ (directRefs 1 v).length = 2 := by
  obtain ⟨i', m', v, h, h2, _⟩ := c16_parse
  have hr : refId c16G "r" = some 3 := by simp [refId, c16G, c16R, PGrammar.indexOf, PGrammar.indexOf.go]
  have hn : (genGetters c16E).get? "r" = none := (C16_no_neg c16E "r").2 c16E (by simp [c16E, PExpr.mentions])
  exact ⟨v, C16_absent c16G .inh c16E "r" 3 hr hn _ _ _ _ _ _ _ _ _ h, h2⟩

-- `C16_rule` on the generated module: `r.a()` on the parsed rule value
example : ∃ c gv, ruleGetter c16T (.mk (.rule 3 .both true 0 4) [c]) = some gv ∧ gv.flatten = directRefs 1 c ∧
    (directRefs 1 c).length = 2 := by
  have hp : ∃ m' c, parse (gen c16G) (fun _ _ => false) 13 true (.ref 3 .one) c16In (M.init c16In) =
      .ok { c16In with pos := 4, rest := [] } m' (.mk (.rule 3 .both true 0 4) [c]) ∧ (directRefs 1 c).length = 2 := by
    rw [c16_gen]; exact ⟨_, _, rfl, by decide⟩
  obtain ⟨m', c, hp, hlen⟩ := hp
  have hg : (ruleGetters c16R).get? "a" = some c16T := by
    simpa [ruleGetters, c16R, emitsGetters] using c16_getter
  obtain ⟨em, bx, c', gv, hv, h1, _, h3, _⟩ :=
    C16_rule c16G 2 c16R rfl "a" 1 c16T c16_refId hg _ _ _ _ _ _ _ _ _ hp
  injection hv with _ hk; injection hk with hk; subst hk
  exact ⟨c, gv, h1, h3, hlen⟩

end PestTyped
