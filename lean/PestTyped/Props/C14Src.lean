/-
Props.C14Src — T-src obligations for C14: the control-character picture table regenerated from the
CURRENT text of `/repo/main/src/formatter.rs` (`visualize_ws_and_cntrl`; Generated/VisTableSrc.lean,
rewritten by checks/tsrc.py on every run) is the hand-written `visChar` of Model/Text.lean that every
C14 theorem uses.  The translator accepts only `line.chars().map(|c| match c { 'x' => 'y', …, _ => c })
.collect()` with distinct patterns and a FINAL identity catch-all arm (anything else is `Unsupported`,
a broken tie); `visCharSrc` is the meaning of that `match`.  An edit to the table changes
`visTableSrc`, hence the subject of these theorems.

* `C14_src_table` — the source's arms are exactly the 33 pairs of the model (C0 controls ↦ U+2400+n,
  DEL ↦ U+2421; the blank is NOT replaced).
* `C14_src_listed` — on every listed code point `visChar` gives the listed picture.
* `C14_src_visChar` — for EVERY character the source `match` and `visChar` agree; in particular
  (`C14_src_others_identity`) every character that is not listed is mapped to itself by both.
-/
import PestTyped.Generated.VisTableSrc
import PestTyped.Model.Text
namespace PestTyped
open PestTyped.Src PestTyped.Text

/-- The model's table, as data (what `visChar`'s `match` says, see `visChar_eq_lookup`). -/
def visTableModel : List (Nat × Nat) :=
  [(0x0, 0x2400), (0x1, 0x2401), (0x2, 0x2402), (0x3, 0x2403), (0x4, 0x2404), (0x5, 0x2405), (0x6, 0x2406),
   (0x7, 0x2407), (0x8, 0x2408), (0x9, 0x2409), (0xa, 0x240a), (0xb, 0x240b), (0xc, 0x240c), (0xd, 0x240d),
   (0xe, 0x240e), (0xf, 0x240f), (0x10, 0x2410), (0x11, 0x2411), (0x12, 0x2412), (0x13, 0x2413), (0x14, 0x2414),
   (0x15, 0x2415), (0x16, 0x2416), (0x17, 0x2417), (0x18, 0x2418), (0x19, 0x2419), (0x1a, 0x241a), (0x1b, 0x241b),
   (0x1c, 0x241c), (0x1d, 0x241d), (0x1e, 0x241e), (0x1f, 0x241f), (0x7f, 0x2421)]

theorem visTableModel_lookup_none (n : Nat) (h1 : 32 ≤ n) (h2 : n ≠ 127) : visTableModel.lookup n = none := by
  rw [List.lookup_eq_none_iff]
  intro p hp
  have hk : p.1 < 32 ∨ p.1 = 127 := by revert p; decide
  simp only [bne_iff_ne, ne_eq]
  omega

/-- `visChar` is "look the code point up in `visTableModel`, else the character itself". -/
theorem visChar_eq_lookup (c : Char) :
    visChar c = match visTableModel.lookup c.toNat with
      | some p => Char.ofNat p
      | none => c := by
  unfold visChar
  split
  all_goals first
    | (rename_i h; rw [h]; rfl)
    | (simp only [imp_false] at *; rw [visTableModel_lookup_none c.toNat (by omega) (by omega)])

theorem C14_src_table : visTableSrc = visTableModel := by decide

theorem C14_src_visChar (c : Char) : visCharSrc c = visChar c := by
  rw [visChar_eq_lookup, visCharSrc, C14_src_table]
  rfl

theorem C14_src_listed : ∀ p ∈ visTableSrc, visChar (Char.ofNat p.1) = Char.ofNat p.2 := by decide

theorem C14_src_others_identity (c : Char) (h : c.toNat ∉ visTableSrc.map (·.1)) :
    visCharSrc c = c ∧ visChar c = c := by
  have hl : visTableSrc.lookup c.toNat = none := by
    rw [List.lookup_eq_none_iff]
    intro p hp
    simp only [bne_iff_ne, ne_eq]
    intro hk
    exact h (List.mem_map.2 ⟨p, hp, hk.symm⟩)
  have : visCharSrc c = c := by simp only [visCharSrc, hl]
  exact ⟨this, by rw [← C14_src_visChar, this]⟩

/-- Non-vacuity: listed and unlisted characters. -/
example : visCharSrc '\n' = '␊' ∧ visCharSrc (Char.ofNat 0x7f) = '␡' ∧ visCharSrc ' ' = ' ' ∧ visCharSrc 'é' = 'é'
    ∧ visTableSrc.length = 33 := by decide
example : ('é').toNat ∉ visTableSrc.map (·.1) := by decide

end PestTyped
