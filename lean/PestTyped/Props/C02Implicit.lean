/-
Props.C02Implicit — C02 (the Pair tree is pest's, minus the pruning under `@` / `$` rules) under the WEAK
hypothesis on the skip rules: WHITESPACE / COMMENT may have any body WITHOUT RULE CALLS (sequences,
repetitions, lookahead: block comments, `" "+`, `"$"+`, …), of any kind but `!`, as long as they are used
implicitly (or explicitly only where skipping is off).

`Props/C02.lean` proves `C02_tree` under `SkipRulesAtomicLike pg` (skip rules `@` / `$` or with a body without
sequence / repetition / rule reference).  pest forces `Atomic` inside rules NAMED WHITESPACE / COMMENT,
pest-typed gives them their declared kind; at the implicit skip site pest-typed runs them with skipping
off and tokens on, which is pest's `CompoundAtomic`, not `Atomic`: the trees differ there only through the
tokens of rules CALLED from the skip rule's body (`C02_counterexample_ws_inner`, `_ws_eoi`).

Hypothesis (Lemmas/SkipImplicit.lean; `Bool`-valued, executable, `decide`-able):
* `refOkT g name r am`  — at a reference to `name` (resolving to `r`) under pest atomicity `am`:
    `bodyAt name r.kind am = flagAt r.kind am` (pest's atomicity inside = the one pest-typed's declared kind
    means), or both switch skipping off and `noRuleCallB g r.expr` (no rule of the grammar, no `EOI`), or
    `r.expr` is a simple body;
* `exprOkT g R am e`    — every reference in `e` is `refOkT` under `am`, target state `(index, bodyAt …)` in `R`;
* `skipRefOkT g R name` — the same for the implicit-skip reference: pest `NonAtomic` (forced `Atomic` inside)
    against pest-typed's `CompoundAtomic`;
* `ImplicitOkT g R am e` — `exprOkT g R am e`, `skipRefOkT` for WHITESPACE and COMMENT, `R` closed (`closedOkT`);
* `SkipRulesImplicitOnlyTok g entry` — `ImplicitOkT` for `.ident entry` in `NonAtomic` mode with the computed
    state set `reachT`.
Weaker than `SkipRulesAtomicLike` (`C02_implicit_of_like`); the F-WS token witnesses violate it
(`C02_counterexample_ws_inner_implicit`, `C02_counterexample_ws_eoi_implicit`).

Proof: for EVERY grammar the typed parser is compatible, tokens included, with the declared-kind token
semantics `U.specTok` (`U.tokSim_all`, Lemmas/SkipImplicitSimTok.lean: `C02_implicit_unconditional`), and
`U.specTok = specTok` under the hypothesis (`specTokU_eq_of_implicitOkT`).

Theorems: `C02_tree_expr_implicit`, `C02_tree_expr_verdict_implicit`, `C02_tree_implicit`,
`C02_tree_verdict_implicit`, `C02_tree_full_implicit`, `C02_tree_full_cursor_implicit` — the statements of
`C02_tree_expr` … `C02_tree_full_cursor` with the weak hypothesis.  "Whenever both answer" is the
compatibility form; that one side's answer forces the other's is `C01_forward_implicit` / `C01_backward_implicit`.
-/
import PestTyped.Lemmas.SkipImplicitSimTok
import PestTyped.Props.C02
namespace PestTyped

/-! ### no hypothesis: the typed parser against the declared-kind token semantics -/

/-- For EVERY grammar: the typed run of `genExpr pg sk e` and the declared-kind token semantics
`U.specTok` (pest's token semantics without the forced `Atomic` inside WHITESPACE / COMMENT, the implicit
skip entering them in `CompoundAtomic` mode), at any two fuels, are compatible: both fail, or both
succeed at the same cursor with the same stack and — outside `Atomic` — the typed token forest is
`U.specTok`'s pruned. -/
theorem C02_implicit_unconditional (pg : PGrammar) (uni : Uni) (n N : Nat) (e : PExpr) (sk : Flag) (inh : Bool)
    (am : Atom3) (i : Inp) (m : M) (hsk : sk.eval inh = am.na) :
    SimG pg am (tokens (gen pg)) [] (parse (gen pg) uni n inh (genExpr pg sk e) i m)
      (U.specTok pg uni N am e i m.stk) :=
  U.tokSim_all n N e sk inh am i m hsk

/-! ### the token-tree theorem under the weak hypothesis -/

/-- C02 (expression level, weak hypothesis). -/
theorem C02_tree_expr_implicit (pg : PGrammar) (uni : Uni) (St : List (Nat × Atom3)) (am : Atom3) (e : PExpr)
    (h : ImplicitOkT pg St am e = true) (n N : Nat) (sk : Flag) (inh : Bool) (i : Inp) (m : M)
    (hsk : sk.eval inh = am.na) (i' : Inp) (m' : M) (v : Val) (j' : Inp) (S' : List Sp) (ts : List Token)
    (h1 : parse (gen pg) uni n inh (genExpr pg sk e) i m = .ok i' m' v)
    (h2 : specTok pg uni N am e i m.stk = .ok j' S' ts) :
    i' = j' ∧ m'.stk = S' ∧ (am ≠ .atomic → tokens (gen pg) v = pruneAtomic pg ts) := by
  have hs := U.tokSim_all (pg := pg) (uni := uni) n N e sk inh am i m hsk
  rw [specTokU_eq_of_implicitOkT h uni N i m.stk, h1, h2] at hs
  obtain ⟨g1, g2, g3⟩ := SimG.ok_ok.mp hs
  exact ⟨g1, g2, fun ha => by simpa using g3 ha⟩

/-- C02 (expression level, verdicts, weak hypothesis): a typed failure is never a success of pest's
semantics, a typed success never a failure. -/
theorem C02_tree_expr_verdict_implicit (pg : PGrammar) (uni : Uni) (St : List (Nat × Atom3)) (am : Atom3)
    (e : PExpr) (h : ImplicitOkT pg St am e = true) (n N : Nat) (sk : Flag) (inh : Bool) (i : Inp) (m : M)
    (hsk : sk.eval inh = am.na) :
    (∀ mf, parse (gen pg) uni n inh (genExpr pg sk e) i m = .fail mf →
      ∀ j' S' ts, specTok pg uni N am e i m.stk ≠ .ok j' S' ts) ∧
    (∀ i' m' v, parse (gen pg) uni n inh (genExpr pg sk e) i m = .ok i' m' v →
      specTok pg uni N am e i m.stk ≠ .fail) := by
  have hs := U.tokSim_all (pg := pg) (uni := uni) n N e sk inh am i m hsk
  rw [specTokU_eq_of_implicitOkT h uni N i m.stk] at hs
  constructor
  · intro mf h1 j' S' ts h2
    rw [h1, h2] at hs
    exact SimG.fail_ok hs
  · intro i' m' v h1 h2
    rw [h1, h2] at hs
    exact SimG.ok_fail hs

/-- C02 (the token-tree theorem, weak hypothesis).  `R::try_parse_partial(input)` for the rule named
`name` against pest's `Parser::parse(Rule::name, input)`: whenever both succeed (any two fuels), the token
tree of the typed value is pest's token tree with the descendants of `@` / `$` tokens removed — rule,
start, end, children in order, at every depth — and both stop at the same cursor with the same stack. -/
theorem C02_tree_implicit (pg : PGrammar) (uni : Uni) (name : String) (k : Nat)
    (h : SkipRulesImplicitOnlyTok pg name = true) (hk : pg.indexOf name = some k) (n N : Nat)
    (i i' j' : Inp) (m' : M) (v : Val) (S' : List Sp) (ts : List Token)
    (h1 : tryParsePartial (gen pg) uni n (k+1) i = .ok i' m' v)
    (h2 : specTokPartial pg uni N name i = .ok j' S' ts) :
    tokens (gen pg) v = pruneAtomic pg ts ∧ i' = j' ∧ m'.stk = S' := by
  have e1 : genExpr pg .one (.ident name) = .ref (k+1) .one := by simp [genExpr, hk]
  unfold tryParsePartial at h1
  unfold specTokPartial at h2
  rw [← e1] at h1
  obtain ⟨g1, g2, g3⟩ := C02_tree_expr_implicit pg uni _ .nonAtomic (.ident name) h n N .one true i (M.init i) rfl
    i' m' v j' S' ts h1 h2
  exact ⟨g3 (by decide), g1, g2⟩

/-- C02 (entry point, verdicts, weak hypothesis). -/
theorem C02_tree_verdict_implicit (pg : PGrammar) (uni : Uni) (name : String) (k : Nat)
    (h : SkipRulesImplicitOnlyTok pg name = true) (hk : pg.indexOf name = some k) (n N : Nat) (i : Inp) :
    (∀ mf, tryParsePartial (gen pg) uni n (k+1) i = .fail mf →
      ∀ j' S' ts, specTokPartial pg uni N name i ≠ .ok j' S' ts) ∧
    (∀ i' m' v, tryParsePartial (gen pg) uni n (k+1) i = .ok i' m' v →
      specTokPartial pg uni N name i ≠ .fail) := by
  have e1 : genExpr pg .one (.ident name) = .ref (k+1) .one := by simp [genExpr, hk]
  have := C02_tree_expr_verdict_implicit pg uni _ .nonAtomic (.ident name) h n N .one true i (M.init i) rfl
  rw [e1] at this
  exact this

/-- C02 (full entry point, weak hypothesis): `R::try_parse(input)` against pest's parse of `name`. -/
theorem C02_tree_full_implicit (pg : PGrammar) (uni : Uni) (name : String) (k : Nat)
    (h : SkipRulesImplicitOnlyTok pg name = true) (hk : pg.indexOf name = some k) (n N : Nat)
    (i i' j' : Inp) (m' : M) (v : Val) (S' : List Sp) (ts : List Token)
    (h1 : tryParse (gen pg) uni n (k+1) i = .ok i' m' v)
    (h2 : specTokPartial pg uni N name i = .ok j' S' ts) :
    tokens (gen pg) v = pruneAtomic pg ts ∧ i'.atEnd = true := by
  obtain ⟨hend, d, i1, m1, _, hp, _⟩ := tryParse_ok_partial (gen pg) uni n (k+1) i i' m' v h1
  exact ⟨(C02_tree_implicit pg uni name k h hk n N i i1 j' m1 v S' ts hp h2).1, hend⟩

/-- C02 (full entry point, cursor, weak hypothesis).  Where `try_parse` stops: at pest's end cursor for
`@` / `$` entry rules, otherwise where pest's implicit skip, run from pest's end cursor, stops. -/
theorem C02_tree_full_cursor_implicit (pg : PGrammar) (uni : Uni) (name : String) (k : Nat)
    (h : SkipRulesImplicitOnlyTok pg name = true) (hk : pg.indexOf name = some k) (n N N2 : Nat)
    (i i' j' : Inp) (m' : M) (v : Val) (S' : List Sp) (ts : List Token)
    (h1 : tryParse (gen pg) uni n (k+1) i = .ok i' m' v)
    (h2 : specTokPartial pg uni N name i = .ok j' S' ts) :
    i' = j' ∨ (∀ j2 S2 t2, Tok.specTokSkipN pg uni N2 j' S' = .ok j2 S2 t2 → i' = j2) ∧
      Tok.specTokSkipN pg uni N2 j' S' ≠ .fail := by
  obtain ⟨_, d, i1, m1, _, hp, hcase⟩ := tryParse_ok_partial (gen pg) uni n (k+1) i i' m' v h1
  obtain ⟨_, e1, e2⟩ := C02_tree_implicit pg uni name k h hk n N i i1 j' m1 v S' ts hp h2
  subst e1 e2
  rcases hcase with ⟨_, hc⟩ | ⟨_, m2, sv, hs⟩
  · exact Or.inl hc
  · right
    have hI : ∀ k', k' ≤ n → U.IdentSkip pg uni k' :=
      U.identSkip_of (n := n) (fun j _ => U.tokSim_all j)
    have hsim := U.skipped_simT (uni := uni) hI N2 i1 m1
    have heq : U.specTokSkipN pg uni N2 i1 m1.stk = Tok.specTokSkipN pg uni N2 i1 m1.stk := by
      unfold U.specTokSkipN Tok.specTokSkipN
      exact specTokSkipU_eq_of_implicitOkT h uni N2 _ i1 m1.stk
    rw [heq, hs] at hsim
    constructor
    · intro j2 S2 t2 h3
      rw [h3] at hsim
      exact (SimG.ok_ok.mp hsim).1
    · intro h3
      rw [h3] at hsim
      exact SimG.ok_fail hsim

/-! ### the weak hypothesis is weaker -/

/-- `SkipRulesAtomicLike pg` (the hypothesis of `C02_tree`) implies the weak hypothesis, for every
expression and mode, with the set of all states as witness. -/
theorem C02_implicit_of_like (pg : PGrammar) (hws : SkipRulesAtomicLike pg) (am : Atom3) (e : PExpr) :
    ImplicitOkT pg (allStatesT pg) am e = true :=
  implicitOkT_of_like hws am e

example (pg : PGrammar) (uni : Uni) (hws : SkipRulesAtomicLike pg) (n N : Nat) (e : PExpr)
    (sk : Flag) (inh : Bool) (am : Atom3) (i : Inp) (m : M) (hsk : sk.eval inh = am.na)
    (i' : Inp) (m' : M) (v : Val) (j' : Inp) (S' : List Sp) (ts : List Token)
    (h1 : parse (gen pg) uni n inh (genExpr pg sk e) i m = .ok i' m' v)
    (h2 : specTok pg uni N am e i m.stk = .ok j' S' ts) :
    i' = j' ∧ m'.stk = S' ∧ (am ≠ .atomic → tokens (gen pg) v = pruneAtomic pg ts) :=
  C02_tree_expr_implicit pg uni _ am e (C02_implicit_of_like pg hws am e) n N sk inh i m hsk i' m' v j' S' ts h1 h2

/-! ### non-vacuity: a token-emitting block comment, `" "+`, used implicitly -/

/-- `main = { "a" ~ word ~ EOI }  word = ${ "b"+ ~ WHITESPACE? }  WHITESPACE = _{ " "+ }
COMMENT = { "/*" ~ (!"*/" ~ ANY)* ~ "*/" }` — COMMENT is a NORMAL rule (its tokens appear in the tree) whose
body is a sequence with a repetition and a lookahead; WHITESPACE is silent with a repetition and is also
referenced explicitly from the `$` rule `word`. -/
def c02BG : PGrammar :=
  [ ⟨"main", .normal, .seq (.str ['a']) (.seq (.ident "word") (.ident "EOI"))⟩,
    ⟨"word", .compoundAtomic, .seq (.repOnce (.str ['b'])) (.opt (.ident "WHITESPACE"))⟩,
    ⟨"WHITESPACE", .silent, .repOnce (.str [' '])⟩,
    ⟨"COMMENT", .normal,
      .seq (.str ['/', '*']) (.seq (.rep (.seq (.negPred (.str ['*', '/'])) (.ident "ANY"))) (.str ['*', '/']))⟩ ]

/-- The weak token hypothesis holds for the entry `main` … -/
theorem c02BG_implicit : SkipRulesImplicitOnlyTok c02BG "main" = true := by decide

/-- … (and so does the verdict-level one) … -/
example : SkipRulesImplicitOnly c02BG "main" = true := by decide

/-- … while `SkipRulesAtomicLike` does not, and the skip rules are not admissible entry rules. -/
theorem c02BG_not_like : ¬ SkipRulesAtomicLike c02BG := by
  rw [← skipRulesAtomicLikeB_iff]
  decide

example : SkipRulesImplicitOnlyTok c02BG "COMMENT" = false := by decide

def c02BNG : NodeGrammar :=
  { rules := [eoiDef,
      { name := "main", atom := .inherited, emit := .both, boxed := true,
        body := .seq .inh [.str ['a'], .ref 2 .inh, .ref 0 .one] },
      { name := "word", atom := .atomic, emit := .both, boxed := true,
        body := .seq .zero [.rep .zero 1 none (.str ['b']), .opt (.ref 3 .zero)] },
      { name := "WHITESPACE", atom := .inherited, emit := .expression, boxed := true,
        body := .rep .inh 1 none (.str [' ']) },
      { name := "COMMENT", atom := .inherited, emit := .both, boxed := true,
        body := .seq .inh [.str ['/', '*'], .rep .inh 0 none (.seq .inh [.neg (.str ['*', '/']), .any]),
          .str ['*', '/']] }],
    skipped := .atomicRepeat (.choice [.ref 3 .zero, .ref 4 .zero]) }

theorem c02B_gen : gen c02BG = c02BNG := by
  simp [gen, c02BG, c02BNG, genRule, genExpr, genSeqSpine, genSkipped, PGrammar.indexOf, PGrammar.indexOf.go,
    kindAtomicity, kindEmission, atomFlag, builtinNode]

/-- The input `a /* */ bb `. -/
def c02BInput : Inp := c02In ['a', ' ', '/', '*', ' ', '*', '/', ' ', 'b', 'b', ' ']

set_option maxRecDepth 1000000 in
/-- Both sides succeed on `a /* */ bb `, with the same tree `main[COMMENT(2..7), word(8..11), EOI]` (nothing
under the `$` rule `word`, no token for the silent WHITESPACE, none inside COMMENT). -/
theorem C02_tree_implicit_example :
    (specTokPartial c02BG c02U 14 "main" c02BInput).toks? =
      some [.mk 1 0 11 [.mk 4 2 7 [], .mk 2 8 11 [], .mk 0 11 11 []]] ∧
    (tryParsePartial (gen c02BG) c02U 14 1 c02BInput).val?.map (tokens (gen c02BG)) =
      some [.mk 1 0 11 [.mk 4 2 7 [], .mk 2 8 11 [], .mk 0 11 11 []]] := by
  rw [c02B_gen]; decide

/-- `C02_tree_implicit` applies to that run (and `C02_tree_full_implicit` to the full entry point). -/
example (i' j' : Inp) (m' : M) (v : Val) (S' : List Sp) (ts : List Token)
    (h1 : tryParsePartial (gen c02BG) c02U 14 1 c02BInput = .ok i' m' v)
    (h2 : specTokPartial c02BG c02U 14 "main" c02BInput = .ok j' S' ts) :
    tokens (gen c02BG) v = pruneAtomic c02BG ts ∧ i' = j' ∧ m'.stk = S' :=
  C02_tree_implicit c02BG c02U "main" 0 c02BG_implicit (by decide) 14 14 _ i' j' m' v S' ts h1 h2

example (i' j' : Inp) (m' : M) (v : Val) (S' : List Sp) (ts : List Token)
    (h1 : tryParse (gen c02BG) c02U 14 1 c02BInput = .ok i' m' v)
    (h2 : specTokPartial c02BG c02U 14 "main" c02BInput = .ok j' S' ts) :
    tokens (gen c02BG) v = pruneAtomic c02BG ts ∧ i'.atEnd = true :=
  C02_tree_full_implicit c02BG c02U "main" 0 c02BG_implicit (by decide) 14 14 _ i' j' m' v S' ts h1 h2

/-! ### the F-WS token witnesses violate the weak hypothesis -/

/-- `WHITESPACE = { wsx }` (a rule call inside a skip rule that is not `@` / `$`): the weak token
hypothesis fails — although the verdict-level one holds: C01 applies to this grammar, C02 does not —
and the trees do differ (`C02_counterexample_ws_inner`). -/
theorem C02_counterexample_ws_inner_implicit :
    SkipRulesImplicitOnlyTok c02WsPG "m" = false ∧ SkipRulesImplicitOnly c02WsPG "m" = true ∧
    (tryParsePartial (gen c02WsPG) c02U 20 3 (c02In ['a', ' ', 'b'])).val?.map (tokens (gen c02WsPG)) ≠
      (specTokPartial c02WsPG c02U 20 "m" (c02In ['a', ' ', 'b'])).toks?.map (pruneAtomic c02WsPG) := by
  refine ⟨by decide, by decide, ?_⟩
  rw [C02_counterexample_ws_inner.1, C02_counterexample_ws_inner.2]
  decide

/-- `WHITESPACE = { EOI }` (`EOI` is a rule call): the weak token hypothesis fails for the entry `m`. -/
theorem C02_counterexample_ws_eoi_implicit :
    SkipRulesImplicitOnlyTok c02WsEoiPG "m" = false ∧
    (tryParsePartial (gen c02WsEoiPG) c02U 20 2 (c02In [])).val?.map (tokens (gen c02WsEoiPG)) ≠
      (specTokPartial c02WsEoiPG c02U 20 "m" (c02In [])).toks?.map (pruneAtomic c02WsEoiPG) := by
  refine ⟨by decide, ?_⟩
  rw [C02_counterexample_ws_eoi.1, C02_counterexample_ws_eoi.2]
  decide

end PestTyped
