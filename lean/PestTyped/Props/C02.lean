/-
Props.C02 — Pair tree equals pest's, minus the documented pruning under atomic rules.

Property (properties.jsonl, C02): "Whenever a parse succeeds, the token tree exposed through the
Pair/Pairs API (rule, start, end, children in order) is the tree pest produces for the same grammar
and input, after removing the descendants of tokens whose rule is atomic or compound-atomic (the
one documented difference).  Lookahead never contributes tokens, silent rules are transparent, EOI
and non-silent WHITESPACE/COMMENT tokens appear where pest puts them."

STRUCTURAL PART (this file, typed side only: `tokens` of `Model/Tokens.lean` over the values built
by `parse`; every grammar, fuel, cursor, state):
* `C02_lookahead_empty`, `C02_lookahead_parse` — `&e` / `!e` contribute no token, whatever is below.
* `C02_silent_transparent`, `C02_silent_parse` — a silent rule hands its content's tokens on.
* `C02_rule_token` — a non-silent rule reference yields exactly one token `(r, entry, exit)`; its
  children are the tokens of the content, or none for the `impl_pair_with_empty` arm.
* `C02_atomic_pruned`, `C02_content_kept`, `C02_hasContent_isAtomicId` — under the generator that
  arm is taken exactly for `@` and `$` rules: their tokens have no children; this is the set
  `pruneAtomic` prunes.
* `C02_eoi_token` — a successful `EOI` reference yields the token `(EOI, p, p)`, `p` the cursor.
* `C02_skipped_before_matched` — inside `Skipped { skipped, matched }` the tokens of the skip values
  precede those of the matched value.
* `C02_seq_order`, `C02_rep_order` — the tokens of a sequence / repetition are the concatenation,
  in element / iteration order, of (skip tokens, element tokens); the first slot has no skip tokens.
* `C02_skip_tokens` — the tokens of one implicit skip are those of the WHITESPACE / COMMENT matches
  in match order (none for silent skip rules).

SPEC SIDE: `Model/SpecTokens.lean` defines `specTok` (pest's token emission on top of the reference
semantics) and `pruneAtomic`; `C02_specTok_forget` (= `specTok_forget`): its token-free projection
is the `spec` of C01.

TARGET THEOREM (full statement; NOT proved here in general — its proof rides on the C01 simulation
`Lemmas/Sim*.lean` and is done there):

  theorem C02_tree (pg : PGrammar) (uni : Uni) (n N : Nat) (name : String) (k : Nat) (i i' j' : Inp)
      (m' : M) (v : Val) (S' : List Sp) (ts : List Token)
      (hk : pg.indexOf name = some k) (hws : SkipRulesAtomicLike pg)
      (h1 : tryParsePartial (gen pg) uni n (k+1) i = .ok i' m' v)
      (h2 : specTokPartial pg uni N name i = .ok j' S' ts) :
      tokens (gen pg) v = pruneAtomic pg ts

  (`SkipRulesAtomicLike pg`: every rule named WHITESPACE / COMMENT is `@`/`$` or its body has no
  sequence, repetition or rule reference — finding F-WS, cases (b) and (c) of DESIGN.md §7:
  without it pest-typed keeps inner tokens of skip rules that pest, forcing Atomic there, drops;
  `C02_counterexample_ws_inner` below is case (c) on the typed side.)

PROVED PART of the target: `C02_tree_partial` (with `C02_frag_agree`) — the full equation, all
rule kinds and nestings of `@`/`$`/`!`/silent/normal rules, `EOI`, sequences, choices, optionals, all
six repetition forms, `PUSH`, `PEEK[a..b]`, the optimizer's `Skip` and `RestoreOnErr` nodes, every
input, every fuel — for the LOOKAHEAD-FREE, SKIP-FREE fragment (`SkipFree pg`: the grammar defines
neither WHITESPACE nor COMMENT, no rule uses `&e`/`!e` or a built-in other than `EOI`).  What is
missing for the full statement: implicit skipping with defined skip rules (needs the relation
between the `INHERITED` flag and pest's atomicity, `C07_inherit_chain`), lookahead (typed `Negative`
runs the check path), the other built-ins (ANY, SOI, PEEK, POP, …, ASCII_*, unicode classes), and
the existence half (a fuel for which the other side returns) — all part of C01's simulation.

`C02_tree_example` checks the equation on a concrete grammar with a `$` rule, a nested normal rule,
a lookahead and a non-silent WHITESPACE (outside the fragment).
-/
import PestTyped.Lemmas.SkipSites
import PestTyped.Lemmas.SpecTokensLemmas
import PestTyped.Props.C15
namespace PestTyped

/-! ### lookahead -/

/-- A lookahead value carries no token, whatever values are below it. -/
theorem C02_lookahead_empty (g : NodeGrammar) (kids : List Val) :
    tokens g (.mk .pos kids) = [] ∧ tokens g (.mk .neg kids) = [] :=
  C15_lookahead_none g kids

/-- `&e` and `!e`: a successful parse contributes no token (and consumes nothing). -/
theorem C02_lookahead_parse (g : NodeGrammar) (uni : Uni) (n : Nat) (inh : Bool) (x : Node)
    (i : Inp) (m : M) (i' : Inp) (m' : M) (v : Val)
    (h : parse g uni n inh (.pos x) i m = .ok i' m' v ∨ parse g uni n inh (.neg x) i m = .ok i' m' v) :
    tokens g v = [] ∧ i' = i := by
  cases n with
  | zero => rcases h with h | h <;> cases h
  | succ n =>
    rcases h with h | h
    · simp only [parse] at h
      split at h
      · cases h
      · cases h
      · injection h with a b c; subst a b c; exact ⟨by simp [tokens], rfl⟩
    · simp only [parse] at h
      split at h
      · cases h
      · injection h with a b c; subst a b c; exact ⟨by simp [tokens, Val.leaf], rfl⟩
      · cases h

/-! ### silent rules -/

/-- Silent rules are transparent: the value of a silent rule hands the tokens of its content on. -/
theorem C02_silent_transparent (g : NodeGrammar) (r : RuleId) (boxed : Bool) (s e : Nat) (kids : List Val) :
    tokens g (.mk (.rule r .expression boxed s e) kids) = tokensList g kids :=
  (C15_silent_transparent g r boxed s e kids).1

/-- A successful reference to a silent rule has exactly the tokens of its body's value. -/
theorem C02_silent_parse (g : NodeGrammar) (uni : Uni) (n : Nat) (inh : Bool) (r : RuleId) (f : Flag)
    (d : RuleDef) (i : Inp) (m : M) (i' : Inp) (m' : M) (v : Val)
    (hd : g.rule? r = some d) (hemit : d.emit = .expression)
    (h : parse g uni (n+1) inh (.ref r f) i m = .ok i' m' v) :
    ∃ vb, parse g uni n (f.eval inh) d.body i m = .ok i' m' vb ∧ tokens g v = tokens g vb := by
  simp only [parse, hd, hemit] at h
  split at h
  · cases h
  · cases h
  · next i1 m1 vb hb =>
    injection h with a b c; subst a b c
    exact ⟨vb, hb, by simp [tokens, tokensList]⟩

/-! ### rule tokens -/

/-- A non-silent rule reference yields exactly ONE token: the rule, from the entry cursor to the
cursor where the body ended; its children are the tokens of the content value (emission `Both`),
or none when the rule takes the `impl_pair_with_empty` arm (`hasContentPairs = false`) or is
matched through the check path (emission `Span`). -/
theorem C02_rule_token (g : NodeGrammar) (uni : Uni) (n : Nat) (inh : Bool) (r : RuleId) (f : Flag)
    (d : RuleDef) (i : Inp) (m : M) (i' : Inp) (m' : M) (v : Val)
    (hd : g.rule? r = some d) (hemit : d.emit ≠ .expression)
    (h : parse g uni (n+1) inh (.ref r f) i m = .ok i' m' v) :
    ∃ kids, v = .mk (.rule r d.emit d.boxed i.pos i'.pos) kids ∧
      tokens g v = [.mk r i.pos i'.pos (if hasContentPairs g r then tokensList g kids else [])] ∧
      (d.emit = .span → kids = []) ∧
      (d.emit = .both → ∃ vb mB, kids = [vb] ∧
        parse g uni n (f.eval inh) d.body i { m with trk := m.trk.enter r i.pos } = .ok i' mB vb) := by
  simp only [parse, hd] at h
  split at h
  · next he => exact absurd he hemit
  · next he =>
    split at h
    · cases h
    · cases h
    · injection h with a b c; subst a b c
      refine ⟨[], by rw [he], ?_, fun _ => rfl, fun hb => by rw [he] at hb; cases hb⟩
      simp [tokens, tokensList]
  · next he =>
    split at h
    · cases h
    · cases h
    · next i1 m1 vb hb =>
      injection h with a b c; subst a b c
      refine ⟨[vb], by rw [he], ?_, fun hs => (by rw [he] at hs; cases hs), fun _ => ⟨vb, m1, rfl, hb⟩⟩
      simp [tokens]

/-- Under the generator the children are dropped exactly for `@` and `$` rules: the token of such
a rule has no children, whatever its content value holds. -/
theorem C02_atomic_pruned (pg : PGrammar) (k : Nat) (pr : PRule) (hr : pg[k]? = some pr)
    (hk : pr.kind = .atomic ∨ pr.kind = .compoundAtomic)
    (emit : Emission) (boxed : Bool) (s e : Nat) (kids : List Val) (hemit : emit ≠ .expression) :
    hasContentPairs (gen pg) (k+1) = false ∧
    tokens (gen pg) (.mk (.rule (k+1) emit boxed s e) kids) = [.mk (k+1) s e []] := by
  have h0 : hasContentPairs (gen pg) (k+1) = false := by
    simp only [hasContentPairs, NodeGrammar.rule?, gen, List.getElem?_cons_succ, List.getElem?_map, hr,
      Option.map_some, genRule]
    rcases hk with hk | hk <;> simp [hk, kindAtomicity]
  refine ⟨h0, ?_⟩
  have := (C15_children (gen pg) (k+1) emit boxed s e kids hemit).2.2
  simpa [h0] using this

/-- … and kept for every other kind. -/
theorem C02_content_kept (pg : PGrammar) (k : Nat) (pr : PRule) (hr : pg[k]? = some pr)
    (hk : pr.kind ≠ .atomic ∧ pr.kind ≠ .compoundAtomic)
    (emit : Emission) (boxed : Bool) (s e : Nat) (kids : List Val) (hemit : emit ≠ .expression) :
    hasContentPairs (gen pg) (k+1) = true ∧
    tokens (gen pg) (.mk (.rule (k+1) emit boxed s e) kids) = [.mk (k+1) s e (tokensList (gen pg) kids)] := by
  have h0 : hasContentPairs (gen pg) (k+1) = true := by
    simp only [hasContentPairs, NodeGrammar.rule?, gen, List.getElem?_cons_succ, List.getElem?_map, hr,
      Option.map_some, genRule]
    cases hkind : pr.kind <;> simp_all [kindAtomicity]
  refine ⟨h0, ?_⟩
  have := (C15_children (gen pg) (k+1) emit boxed s e kids hemit).2.2
  simpa [h0] using this

/-- The rules whose tokens lose their children in pest-typed are exactly those `pruneAtomic`
prunes on pest's side. -/
theorem C02_hasContent_isAtomicId (pg : PGrammar) (k : Nat) (pr : PRule) (hr : pg[k]? = some pr) :
    hasContentPairs (gen pg) (k+1) = !pg.isAtomicId (k+1) :=
  hasContentPairs_gen pg k pr hr

/-! ### EOI -/

/-- A successful `EOI` reference (rule 0 defined as in every generated module) at a cursor with
nothing left yields exactly the token `(EOI, p, p)` without children, `p` the cursor position —
and consumes nothing. -/
theorem C02_eoi_token (g : NodeGrammar) (uni : Uni) (n : Nat) (inh : Bool) (f : Flag) (i : Inp) (m : M)
    (hd : g.rule? 0 = some eoiDef) (hend : i.rest = []) :
    ∃ m' v, parse g uni (n+2) inh (.ref 0 f) i m = .ok i m' v ∧ tokens g v = [.mk 0 i.pos i.pos []] := by
  simp only [parse, hd, eoiDef, Inp.atEnd, hend, List.isEmpty_nil, if_true]
  exact ⟨_, _, rfl, by simp [tokens, hasContentPairs, hd]⟩

/-- … and `EOI` fails when input is left. -/
theorem C02_eoi_fail (g : NodeGrammar) (uni : Uni) (n : Nat) (inh : Bool) (f : Flag) (i : Inp) (m : M)
    (hd : g.rule? 0 = some eoiDef) (hend : i.rest ≠ []) :
    ∃ m', parse g uni (n+2) inh (.ref 0 f) i m = .fail m' := by
  have : i.rest.isEmpty = false := by cases h : i.rest <;> simp_all
  simp only [parse, hd, eoiDef, Inp.atEnd, this]
  exact ⟨_, rfl⟩

/-! ### order -/

/-- Inside a `Skipped { skipped, matched }` value the tokens of the skip values come first, in
order, then the tokens of the matched value. -/
theorem C02_skipped_before_matched (g : NodeGrammar) (sk : List Val) (a : Val) :
    tokens g (mkSkipped sk a) = tokensList g sk ++ tokens g a :=
  tokens_mkSkipped g sk a

/-- The tokens of a parsed sequence are the concatenation, in element order, of the tokens of the
skip run in front of each element followed by the element's own tokens; the first element has no
skip tokens (no skip runs in front of it, its slot holds default values). -/
theorem C02_seq_order (g : NodeGrammar) (uni : Uni) (fuel : Nat) (inh : Bool) (sk : Flag) (items : List Node)
    (i : Inp) (m : M) (i' : Inp) (m' : M) (w : Val)
    (h : parse g uni (fuel+1) inh (.seq sk items) i m = .ok i' m' w) :
    ∃ l, SeqRunAll (parse g uni fuel inh) (skipRuns (parse g uni fuel false g.skipped) (skipCount sk inh))
          (List.replicate (skipCount sk inh) (defaultSkipVal g)) items i m l i' m' ∧
      tokens g w = (l.map (fun it => tokensList g it.skips ++ tokens g it.matched)).flatten ∧
      (∀ it, l.head? = some it → tokensList g it.skips = []) := by
  obtain ⟨l, hr, rfl⟩ := (parse_seq_run_iff g uni fuel inh sk items i m i' m' w).mp h
  refine ⟨l, hr, by simp [tokens, tokensList_iters], ?_⟩
  intro it hit
  cases hr with
  | nil => simp at hit
  | cons _ _ =>
    simp at hit; subst hit
    exact tokensList_replicate_nil g _ (tokens_defaultSkipVal g) _

/-- The same for a repetition, in iteration order. -/
theorem C02_rep_order (g : NodeGrammar) (uni : Uni) (fuel : Nat) (inh : Bool) (sk : Flag) (min : Nat)
    (max : Option Nat) (x : Node) (i : Inp) (m : M) (i' : Inp) (m' : M) (w : Val)
    (h : parse g uni (fuel+1) inh (.rep sk min max x) i m = .ok i' m' w) :
    ∃ l mL, RepRun (skipRuns (parse g uni fuel false g.skipped) (skipCount sk inh)) (parse g uni fuel inh x)
          (List.replicate (skipCount sk inh) (defaultSkipVal g)) 0 i m l i' mL ∧
      tokens g w = (l.map (fun it => tokensList g it.skips ++ tokens g it.matched)).flatten ∧
      (∀ it, l.head? = some it → tokensList g it.skips = []) := by
  obtain ⟨l, mL, hr, _, rfl, _⟩ := parse_rep_run g uni fuel inh sk min max x i m i' m' w h
  refine ⟨l, mL, hr, by simp [tokens, tokensList_iters], ?_⟩
  intro it hit
  cases l with
  | nil => simp at hit
  | cons it0 l =>
    simp at hit; subst hit
    rw [hr.head_zero.2.2.1]
    exact tokensList_replicate_nil g _ (tokens_defaultSkipVal g) _

/-- The tokens of one run of a generated skip type `AtomicRepeat<…>` are the tokens of the
successive WHITESPACE / COMMENT matches, in match order. -/
theorem C02_skip_tokens (g : NodeGrammar) (vs : List Val) :
    tokens g (.mk .atomicRepeat vs) = tokensList g vs := by
  simp [tokens]

/-! ### spec side -/

/-- The token-free projection of pest's token semantics is the reference semantics of C01. -/
theorem C02_specTok_forget (g : PGrammar) (uni : Uni) (n : Nat) (am : Atom3) (e : PExpr) (i : Inp) (S : List Sp) :
    (specTok g uni n am e i S).forget = spec g uni n am.na e i S :=
  specTok_forget g uni n am e i S

/-! ### the target theorem on the lookahead-free, skip-free fragment -/

/-- On the fragment the typed parser and pest's token semantics agree whenever neither runs out of
fuel (`SimG`, `Lemmas/SpecTokensLemmas.lean`): both fail, or both succeed at the same cursor with
the same stack and — outside an `Atomic` context — the typed tokens are pest's tokens pruned.
Every expression of the fragment, every `#skip` token, inherited flag, atomicity, cursor, state. -/
theorem C02_frag_agree (pg : PGrammar) (uni : Uni) (hsf : SkipFree pg) (n N : Nat) (e : PExpr)
    (hF : Frag pg e) (sk : Flag) (inh : Bool) (am : Atom3) (i : Inp) (m : M) :
    SimG pg am (tokens (gen pg)) [] (parse (gen pg) uni n inh (genExpr pg sk e) i m)
      (specTok pg uni N am e i m.stk) :=
  frag_sim pg uni hsf n N e hF sk inh am i m

/-- `C02_tree` for the lookahead-free, skip-free fragment: whenever the typed prefix parse of rule
`name` and pest's token semantics both succeed, they end at the same cursor with the same stack, and
the token tree of the typed value is pest's token tree with the descendants of `@` / `$` tokens
removed. -/
theorem C02_tree_partial (pg : PGrammar) (uni : Uni) (hsf : SkipFree pg) (n N : Nat) (name : String) (k : Nat)
    (i i' j' : Inp) (m' : M) (v : Val) (S' : List Sp) (ts : List Token)
    (hk : pg.indexOf name = some k)
    (h1 : tryParsePartial (gen pg) uni n (k+1) i = .ok i' m' v)
    (h2 : specTokPartial pg uni N name i = .ok j' S' ts) :
    tokens (gen pg) v = pruneAtomic pg ts ∧ i' = j' ∧ m'.stk = S' := by
  have h := frag_sim pg uni hsf n N (.ident name) (Or.inl (defines_of_indexOf pg name k hk)) .one true
    .nonAtomic i (M.init i)
  have e1 : genExpr pg .one (.ident name) = .ref (k+1) .one := by simp [genExpr, hk]
  rw [e1] at h
  unfold tryParsePartial at h1
  unfold specTokPartial at h2
  rw [h1, show (M.init i).stk = [] from rfl, h2] at h
  obtain ⟨g1, g2, g3⟩ := SimG.ok_ok.mp h
  exact ⟨by simpa using g3 (by simp), g1, g2⟩

/-- … and on the fragment the two sides cannot disagree on the verdict: if the typed parse fails
and pest's semantics returns (is not out of fuel), it fails too; if the typed parse succeeds, pest's
does not fail. -/
theorem C02_tree_partial_verdict (pg : PGrammar) (uni : Uni) (hsf : SkipFree pg) (n N : Nat) (name : String)
    (k : Nat) (i : Inp) (hk : pg.indexOf name = some k) :
    (∀ mf, tryParsePartial (gen pg) uni n (k+1) i = .fail mf →
      ∀ j' S' ts, specTokPartial pg uni N name i ≠ .ok j' S' ts) ∧
    (∀ i' m' v, tryParsePartial (gen pg) uni n (k+1) i = .ok i' m' v →
      specTokPartial pg uni N name i ≠ .fail) := by
  have h := frag_sim pg uni hsf n N (.ident name) (Or.inl (defines_of_indexOf pg name k hk)) .one true
    .nonAtomic i (M.init i)
  have e1 : genExpr pg .one (.ident name) = .ref (k+1) .one := by simp [genExpr, hk]
  rw [e1] at h
  constructor
  · intro mf h1 j' S' ts h2
    unfold tryParsePartial at h1
    unfold specTokPartial at h2
    rw [h1, show (M.init i).stk = [] from rfl, h2] at h
    exact SimG.fail_ok h
  · intro i' m' v h1 h2
    unfold tryParsePartial at h1
    unfold specTokPartial at h2
    rw [h1, show (M.init i).stk = [] from rfl, h2] at h
    exact SimG.ok_fail h

/-! ### non-vacuity -/

/-- `a = { "x" ~ &b ~ b* ~ EOI }  b = ${ "y" ~ c }  c = { "z" }  s = _{ c }  WHITESPACE = { " " }`
as generated (WHITESPACE is NOT silent here: its tokens show between elements). -/
def c02PG : PGrammar :=
  [{ name := "a", kind := .normal,
     expr := .seq (.str ['x']) (.seq (.posPred (.ident "b")) (.seq (.rep (.ident "b")) (.ident "EOI"))) },
   { name := "b", kind := .compoundAtomic, expr := .seq (.str ['y']) (.ident "c") },
   { name := "c", kind := .normal, expr := .str ['z'] },
   { name := "s", kind := .silent, expr := .ident "c" },
   { name := "WHITESPACE", kind := .normal, expr := .str [' '] }]

def c02G : NodeGrammar :=
  { rules := [eoiDef,
      { name := "a", atom := .inherited, emit := .both, boxed := true,
        body := .seq .inh [.str ['x'], .pos (.ref 2 .inh), .rep .inh 0 none (.ref 2 .inh), .ref 0 .one] },
      { name := "b", atom := .atomic, emit := .both, boxed := true,
        body := .seq .zero [.str ['y'], .ref 3 .zero] },
      { name := "c", atom := .inherited, emit := .both, boxed := true, body := .str ['z'] },
      { name := "s", atom := .inherited, emit := .expression, boxed := true, body := .ref 3 .inh },
      { name := "WHITESPACE", atom := .inherited, emit := .both, boxed := true, body := .str [' '] }],
    skipped := .atomicRepeat (.ref 5 .zero) }

theorem c02_gen : gen c02PG = c02G := by
  simp [gen, genRule, genExpr, genSeqSpine, genSkipped, PGrammar.indexOf, PGrammar.indexOf.go,
    c02PG, c02G, kindAtomicity, kindEmission, atomFlag, builtinNode]

def c02U : Uni := fun _ _ => false
def c02In (s : List Char) : Inp := { start := 0, pos := 0, rest := s, after := [] }

def c02Tokens : R Val → Option (List Token)
  | .ok _ _ v => some (tokens c02G v)
  | _ => none

/-- `x yz yz` parsed by `a`: the lookahead's `b` contributes nothing, the two WHITESPACE tokens sit
before the `b` they precede, the `$` rule `b` has no children (its `c` is dropped), `EOI` is the
token `(0, 7, 7)`. -/
example : c02Tokens (tryParsePartial c02G c02U 20 1 (c02In ['x', ' ', 'y', 'z', ' ', 'y', 'z'])) =
    some [.mk 1 0 7 [.mk 5 1 2 [], .mk 2 2 4 [], .mk 5 4 5 [], .mk 2 5 7 [], .mk 0 7 7 []]] := by decide

/-- The silent rule `s = _{ c }` run directly: the token of `c` is handed on. -/
example : c02Tokens (parse c02G c02U 9 true (.ref 4 .one) (c02In ['z']) (M.init (c02In ['z']))) =
    some [.mk 3 0 1 []] := by decide

/-- pest's tree for the same input (what `specTok` computes: `b[c]` twice, WHITESPACE tokens, EOI),
pruned: the equation of the target theorem on this instance. -/
example : pruneAtomic c02PG
    [.mk 1 0 7 [.mk 5 1 2 [], .mk 2 2 4 [.mk 3 3 4 []], .mk 5 4 5 [], .mk 2 5 7 [.mk 3 6 7 []], .mk 0 7 7 []]] =
    [.mk 1 0 7 [.mk 5 1 2 [], .mk 2 2 4 [], .mk 5 4 5 [], .mk 2 5 7 [], .mk 0 7 7 []]] := by decide

example : hasContentPairs (gen c02PG) 2 = false ∧ hasContentPairs (gen c02PG) 1 = true :=
  ⟨(C02_atomic_pruned c02PG 1 _ rfl (Or.inr rfl) .both true 0 0 [] (by simp)).1,
   (C02_content_kept c02PG 0 _ rfl ⟨by simp, by simp⟩ .both true 0 0 [] (by simp)).1⟩

/-- The equation of the target theorem `C02_tree`, checked on `c02PG` with input `x yz yz` (a `$`
rule with a nested normal rule, a lookahead, non-silent WHITESPACE tokens, EOI): the tokens of the
typed parse are pest's tokens (`specTokPartial`) pruned. -/
theorem C02_tree_example :
    (tryParsePartial (gen c02PG) c02U 20 1 (c02In ['x', ' ', 'y', 'z', ' ', 'y', 'z'])).val?.map (tokens (gen c02PG)) =
      (specTokPartial c02PG c02U 20 "a" (c02In ['x', ' ', 'y', 'z', ' ', 'y', 'z'])).toks?.map (pruneAtomic c02PG) ∧
    (specTokPartial c02PG c02U 20 "a" (c02In ['x', ' ', 'y', 'z', ' ', 'y', 'z'])).toks? =
      some [.mk 1 0 7 [.mk 5 1 2 [], .mk 2 2 4 [.mk 3 3 4 []], .mk 5 4 5 [], .mk 2 5 7 [.mk 3 6 7 []], .mk 0 7 7 []]] := by
  rw [c02_gen]; decide

/-- `specTok_forget` on the same instance: pest's token semantics and the reference semantics of C01
end at the same cursor. -/
example : (specTokPartial c02PG c02U 20 "a" (c02In ['x', ' ', 'y', 'z', ' ', 'y', 'z'])).forget =
    specPartial c02PG c02U 20 "a" (c02In ['x', ' ', 'y', 'z', ' ', 'y', 'z']) :=
  specTokPartial_forget _ _ _ _ _

/-! ### what does not hold: inner tokens of skip rules (F-WS, case c) -/

/-- `WHITESPACE = { wsx }   wsx = { " " }   m = { "a" ~ "b" }`. -/
def c02WsPG : PGrammar :=
  [{ name := "WHITESPACE", kind := .normal, expr := .ident "wsx" },
   { name := "wsx", kind := .normal, expr := .str [' '] },
   { name := "m", kind := .normal, expr := .seq (.str ['a']) (.str ['b']) }]

def c02WsG : NodeGrammar :=
  { rules := [eoiDef,
      { name := "WHITESPACE", atom := .inherited, emit := .both, boxed := true, body := .ref 2 .inh },
      { name := "wsx", atom := .inherited, emit := .both, boxed := true, body := .str [' '] },
      { name := "m", atom := .inherited, emit := .both, boxed := true,
        body := .seq .inh [.str ['a'], .str ['b']] }],
    skipped := .atomicRepeat (.ref 1 .zero) }

theorem c02Ws_gen : gen c02WsPG = c02WsG := by
  simp [gen, genRule, genExpr, genSeqSpine, genSkipped, PGrammar.indexOf, PGrammar.indexOf.go,
    c02WsPG, c02WsG, kindAtomicity, kindEmission, atomFlag]

/-- F-WS (c): pest forces `Atomic` inside a rule NAMED WHITESPACE, so the normal rule `wsx` called
from it emits no token: pest's tree for `a b` is `m[WHITESPACE]`; the typed parser gives WHITESPACE
its declared kind and keeps the inner token: `m[WHITESPACE[wsx]]`.  `pruneAtomic` does not remove it
(WHITESPACE is not `@`/`$`): without the hypothesis `SkipRulesAtomicLike` the equation of `C02_tree`
fails. -/
theorem C02_counterexample_ws_inner :
    (tryParsePartial (gen c02WsPG) c02U 20 3 (c02In ['a', ' ', 'b'])).val?.map (tokens (gen c02WsPG)) =
      some [.mk 3 0 3 [.mk 1 1 2 [.mk 2 1 2 []]]] ∧
    (specTokPartial c02WsPG c02U 20 "m" (c02In ['a', ' ', 'b'])).toks?.map (pruneAtomic c02WsPG) =
      some [.mk 3 0 3 [.mk 1 1 2 []]] := by
  rw [c02Ws_gen]; decide

/-! ### non-vacuity of `C02_tree_partial` -/

/-- A grammar of the fragment with every rule kind:
`a = { "x" ~ b ~ (d | s | n)* ~ EOI }  b = ${ "y" ~ c }  c = { "z" }  d = @{ c ~ c }  s = _{ c }
n = !{ PUSH("p") ~ PEEK[0..1] }`. -/
def c02FragPG : PGrammar :=
  [{ name := "a", kind := .normal,
     expr := .seq (.str ['x']) (.seq (.ident "b")
       (.seq (.rep (.choice (.ident "d") (.choice (.ident "s") (.ident "n")))) (.ident "EOI"))) },
   { name := "b", kind := .compoundAtomic, expr := .seq (.str ['y']) (.ident "c") },
   { name := "c", kind := .normal, expr := .str ['z'] },
   { name := "d", kind := .atomic, expr := .seq (.ident "c") (.ident "c") },
   { name := "s", kind := .silent, expr := .ident "c" },
   { name := "n", kind := .nonAtomic, expr := .seq (.push (.str ['p'])) (.peekSlice 0 (some 1)) }]

def c02FragG : NodeGrammar :=
  { rules := [eoiDef,
      { name := "a", atom := .inherited, emit := .both, boxed := true,
        body := .seq .inh [.str ['x'], .ref 2 .inh,
          .rep .inh 0 none (.choice [.ref 4 .inh, .ref 5 .inh, .ref 6 .inh]), .ref 0 .one] },
      { name := "b", atom := .atomic, emit := .both, boxed := true,
        body := .seq .zero [.str ['y'], .ref 3 .zero] },
      { name := "c", atom := .inherited, emit := .both, boxed := true, body := .str ['z'] },
      { name := "d", atom := .atomic, emit := .span, boxed := true,
        body := .seq .zero [.ref 3 .zero, .ref 3 .zero] },
      { name := "s", atom := .inherited, emit := .expression, boxed := true, body := .ref 3 .inh },
      { name := "n", atom := .nonAtomic, emit := .both, boxed := true,
        body := .seq .one [.push (.str ['p']), .peekSlice 0 (some 1)] }],
    skipped := .empty }

theorem c02Frag_gen : gen c02FragPG = c02FragG := by
  simp [gen, genRule, genExpr, genSeqSpine, genChoiceSpine, genSkipped, PGrammar.indexOf, PGrammar.indexOf.go,
    c02FragPG, c02FragG, kindAtomicity, kindEmission, atomFlag, builtinNode]

theorem c02Frag_skipFree : SkipFree c02FragPG := by
  refine ⟨by decide, by decide, ?_⟩
  intro pr hpr
  simp only [c02FragPG, List.mem_cons, List.not_mem_nil, or_false] at hpr
  rcases hpr with rfl | rfl | rfl | rfl | rfl | rfl <;>
    simp [Frag, PGrammar.defines, PGrammar.indexOf, PGrammar.indexOf.go, c02FragPG]

def c02FragInput : Inp := c02In ['x', 'y', 'z', 'z', 'z', 'z', 'p', 'p']

/-- Both sides succeed on `xyz zz z pp` (written without blanks): pest's tree has `c` under `b` and,
under the `@` rule `d`, nothing (its `c`s are called in `Atomic` mode); the typed tree is the same
with the child of `b` removed. -/
example : (specTokPartial c02FragPG c02U 20 "a" c02FragInput).toks? =
      some [.mk 1 0 8 [.mk 2 1 3 [.mk 3 2 3 []], .mk 4 3 5 [], .mk 3 5 6 [], .mk 6 6 8 [], .mk 0 8 8 []]] ∧
    (tryParsePartial (gen c02FragPG) c02U 20 1 c02FragInput).val?.map (tokens (gen c02FragPG)) =
      some [.mk 1 0 8 [.mk 2 1 3 [], .mk 4 3 5 [], .mk 3 5 6 [], .mk 6 6 8 [], .mk 0 8 8 []]] := by
  rw [c02Frag_gen]; decide

/-- `C02_tree_partial` applies to that run. -/
example (i' j' : Inp) (m' : M) (v : Val) (S' : List Sp) (ts : List Token)
    (h1 : tryParsePartial (gen c02FragPG) c02U 20 1 c02FragInput = .ok i' m' v)
    (h2 : specTokPartial c02FragPG c02U 20 "a" c02FragInput = .ok j' S' ts) :
    tokens (gen c02FragPG) v = pruneAtomic c02FragPG ts :=
  (C02_tree_partial c02FragPG c02U c02Frag_skipFree 20 20 "a" 0 _ i' j' m' v S' ts (by decide) h1 h2).1

end PestTyped
